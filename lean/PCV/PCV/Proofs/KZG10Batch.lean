/-
  PCV.Proofs.KZG10Batch — the randomizers of `KZG10::batch_check`: the batch defect `Σ ρᵢ·Δᵢ` is an
  affine function of each single randomizer with slope `Δᵢ`, so a batch containing a false claim at
  position `i ≥ 1` is accepted for AT MOST ONE value of `ρᵢ` (whatever the other randomizers are).
-/
import PCV.Proofs.KZG10

set_option linter.unusedSectionVars false

namespace PCV
namespace KZG

variable {F : Type} [Field F] [DecidableEq F]

theorem wsum_set (r : F) (rs ds : List F) (j : Nat) (hj : j < rs.length) (x y : F) :
    wsum r (rs.set j x) ds - wsum r (rs.set j y) ds = (x - y) * ds.getD (j + 1) 0 := by
  induction j generalizing r rs ds with
  | zero =>
    cases rs with
    | nil => simp at hj
    | cons a t =>
      cases ds with
      | nil => simp [wsum]
      | cons d ds =>
        cases ds with
        | nil => simp [wsum]
        | cons d' ds' =>
          simp only [List.set_cons_zero, wsum, List.headD_cons, List.tail_cons, List.getD_cons_succ,
            List.getD_cons_zero]
          ring
  | succ j ih =>
    cases rs with
    | nil => simp at hj
    | cons a t =>
      cases ds with
      | nil => simp [wsum]
      | cons d ds =>
        have hj' : j < t.length := by simpa using hj
        simp only [List.set_cons_succ, wsum, List.headD_cons, List.tail_cons, List.getD_cons_succ]
        have := ih a t ds hj'
        linear_combination this

/-- **At most one bad randomizer.** If claim `j+1` of a batch is false (`Δ ≠ 0`), then for any fixed
values of all other randomizers there is at most one value of `ρ_{j+1}` for which the batch defect
vanishes. -/
theorem wsum_zero_unique (r : F) (rs ds : List F) (j : Nat) (hj : j < rs.length)
    (hd : ds.getD (j + 1) 0 ≠ 0) (x y : F)
    (hx : wsum r (rs.set j x) ds = 0) (hy : wsum r (rs.set j y) ds = 0) : x = y := by
  have := wsum_set r rs ds j hj x y
  rw [hx, hy, sub_zero] at this
  have h2 : (x - y) * ds.getD (j + 1) 0 = 0 := this.symm
  rcases mul_eq_zero.1 h2 with h | h
  · exact sub_eq_zero.1 h
  · exact absurd h hd

/-- the first claim carries the fixed weight `ρ₀ = 1`: if it is the only false one the batch is
rejected whatever the randomizers are -/
theorem wsum_first_only (rs : List F) (d : F) (ds : List F) (hd : d ≠ 0) (hz : ∀ e ∈ ds, e = 0) :
    wsum 1 rs (d :: ds) ≠ 0 := by
  simp only [wsum, one_mul]
  rw [wsum_zero _ _ _ hz, add_zero]
  exact hd

end KZG
end PCV
