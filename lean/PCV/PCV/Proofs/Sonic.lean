/-
  PCV.Proofs.Sonic — algebra of the SonicKZG10 model, part 1: power lists and their windows, the
  normalised length of challenge-weighted sums, `sort(dedup B)`, and what `trim` returns.
-/
import PCV.Model.Sonic
import PCV.Proofs.KZG10
import Mathlib.Tactic.Ring
import Mathlib.Tactic.LinearCombination
import Mathlib.Algebra.Field.Basic

set_option linter.unusedSectionVars false
set_option linter.unusedVariables false

namespace PCV
namespace Sonic
open Marlin (Label LPoly Query sortDedup insertSorted checkDegreesAndBounds)

variable {F : Type} [Field F] [DecidableEq F]

/-! ### power lists -/

/-- the pairing partner cancels the shift: `β^k · β^{-k} = 1` -/
theorem fpow_mul_inv (β bi : F) (hb : β * bi = 1) (k : Nat) : fpow β k * fpow bi k = 1 := by
  induction k with
  | zero => simp [fpow]
  | succ k ih => simp only [fpow]; linear_combination (β * bi) * ih + hb

theorem powers_drop (g β : F) (n k : Nat) :
    (powers g β n).drop k = powers (fpow β k * g) β (n - k) := by
  induction k generalizing g n with
  | zero => simp [fpow]
  | succ k ih =>
    cases n with
    | zero => simp [powers]
    | succ n =>
      simp only [powers, List.drop_succ_cons, fpow, Nat.add_sub_add_right]
      rw [ih]
      congr 1
      ring

theorem powers_take (g β : F) (n k : Nat) :
    (powers g β n).take k = powers g β (min k n) := by
  induction k generalizing g n with
  | zero => simp [powers]
  | succ k ih =>
    cases n with
    | zero => simp [powers]
    | succ n =>
      simp only [powers, List.take_succ_cons, Nat.add_min_add_right]
      rw [ih]

theorem powers_getD (g β : F) (n k : Nat) (h : k < n) :
    getD' (powers g β n) k 0 = fpow β k * g := by
  induction k generalizing g n with
  | zero =>
    cases n with
    | zero => omega
    | succ n => simp [powers, getD', fpow]
  | succ k ih =>
    cases n with
    | zero => omega
    | succ n =>
      have := ih (β * g) n (by omega)
      simp only [getD', powers, List.getElem?_cons_succ, fpow] at this ⊢
      rw [this]; ring

/-- **shift identity**: `⟨p, powers (g·β^k) β n⟩ = g·β^k·p(β)` for a window long enough for `p` -/
theorem dot_shifted_powers (p : List F) (g β : F) (k n : Nat) (h : (pnorm p).length ≤ n) :
    dot p (powers (fpow β k * g) β n) = fpow β k * g * evalPoly p β :=
  dot_powers' p _ β n h

/-- the window `P[D-d ..]` of a well-formed power list is the power list of `β^{D-d}·g` -/
theorem powers_window (g β : F) (D d : Nat) (hd : d ≤ D) :
    (powers g β (D + 1)).drop (D - d) = powers (fpow β (D - d) * g) β (d + 1) := by
  rw [powers_drop]; congr 1; omega

/-! ### normalised length of sums and multiples -/

theorem pnorm_cons_len (c : F) (cs : List F) (n : Nat) :
    (pnorm (c :: cs)).length ≤ n + 1 ↔ (pnorm cs).length ≤ n := by
  simp only [pnorm]
  split
  · rename_i h; rw [h]; split <;> simp
  · simp only [List.length_cons]; omega

theorem pnorm_len_le_iff (p : List F) (n : Nat) :
    (pnorm p).length ≤ n ↔ ∀ i, n ≤ i → p.getD i 0 = 0 := by
  induction p generalizing n with
  | nil => simp [pnorm]
  | cons c cs ih =>
    cases n with
    | zero =>
      constructor
      · intro h
        have hn : pnorm (c :: cs) = [] := List.eq_nil_of_length_eq_zero (by omega)
        obtain ⟨hc, hcs⟩ := pnorm_nil_cons c cs hn
        have := (ih 0).1 (by rw [hcs]; simp)
        intro i _
        cases i with
        | zero => simpa using hc
        | succ i => simpa using this i (by omega)
      · intro h
        have hc : c = 0 := by simpa using h 0 (by omega)
        have hcs : (pnorm cs).length ≤ 0 := (ih 0).2 (fun i _ => by simpa using h (i + 1) (by omega))
        have : pnorm cs = [] := List.eq_nil_of_length_eq_zero (by omega)
        simp [pnorm, this, hc]
    | succ n =>
      rw [pnorm_cons_len, ih n]
      constructor
      · intro h i hi
        cases i with
        | zero => omega
        | succ i => simpa using h i (by omega)
      · intro h i hi
        simpa using h (i + 1) (by omega)

theorem getD_padd (p q : List F) (i : Nat) :
    (padd p q).getD i 0 = p.getD i 0 + q.getD i 0 := by
  induction p generalizing q i with
  | nil => simp [padd]
  | cons a p ih =>
    cases q with
    | nil => simp [padd]
    | cons b q =>
      cases i with
      | zero => simp [padd]
      | succ i => simpa [padd] using ih q i

theorem getD_pscale (c : F) (p : List F) (i : Nat) :
    (pscale c p).getD i 0 = c * p.getD i 0 := by
  induction p generalizing i with
  | nil => simp [pscale]
  | cons a p ih =>
    cases i with
    | zero => simp [pscale]
    | succ i => simpa [pscale] using ih i

theorem pnorm_padd_le (p q : List F) (n : Nat) (hp : (pnorm p).length ≤ n)
    (hq : (pnorm q).length ≤ n) : (pnorm (padd p q)).length ≤ n := by
  rw [pnorm_len_le_iff] at hp hq ⊢
  intro i hi
  rw [getD_padd, hp i hi, hq i hi, add_zero]

theorem pnorm_pscale_le (c : F) (p : List F) (n : Nat) (hp : (pnorm p).length ≤ n) :
    (pnorm (pscale c p)).length ≤ n := by
  rw [pnorm_len_le_iff] at hp ⊢
  intro i hi
  rw [getD_pscale, hp i hi, mul_zero]

/-! ### `sort(dedup B)` -/

theorem mem_insertSorted (x a : Nat) (ys : List Nat) :
    a ∈ insertSorted x ys ↔ a = x ∨ a ∈ ys := by
  induction ys with
  | nil => simp [insertSorted]
  | cons y ys ih =>
    simp only [insertSorted]
    split
    · simp
    · split
      · rename_i h; subst h; simp
      · simp only [List.mem_cons, ih]; tauto

theorem mem_sortDedup (a : Nat) (l : List Nat) : a ∈ sortDedup l ↔ a ∈ l := by
  induction l with
  | nil => simp [sortDedup]
  | cons x xs ih => simp only [sortDedup, mem_insertSorted, ih, List.mem_cons]

theorem insertSorted_sorted (x : Nat) (ys : List Nat) (h : ys.Pairwise (· < ·)) :
    (insertSorted x ys).Pairwise (· < ·) := by
  induction ys with
  | nil => simp [insertSorted]
  | cons y ys ih =>
    rw [List.pairwise_cons] at h
    simp only [insertSorted]
    split
    · rename_i hxy
      rw [List.pairwise_cons]
      refine ⟨?_, List.pairwise_cons.2 h⟩
      intro a ha
      rcases List.mem_cons.1 ha with rfl | ha
      · exact hxy
      · exact Nat.lt_trans hxy (h.1 a ha)
    · split
      · exact List.pairwise_cons.2 h
      · rename_i h1 h2
        rw [List.pairwise_cons]
        refine ⟨?_, ih h.2⟩
        intro a ha
        rcases (mem_insertSorted x a ys).1 ha with rfl | ha
        · omega
        · exact h.1 a ha

/-- `v.sort(); v.dedup()` is strictly ascending -/
theorem sortDedup_sorted (l : List Nat) : (sortDedup l).Pairwise (· < ·) := by
  induction l with
  | nil => simp [sortDedup]
  | cons x xs ih => exact insertSorted_sorted x _ ih

theorem le_getLastD_of_sorted (l : List Nat) (h : l.Pairwise (· < ·)) (a : Nat) (ha : a ∈ l) :
    a ≤ l.getLastD 0 := by
  induction l generalizing a with
  | nil => simp at ha
  | cons x xs ih =>
    rw [List.pairwise_cons] at h
    cases xs with
    | nil => simp at ha; simp [ha]
    | cons y ys =>
      have hl : (x :: y :: ys).getLastD 0 = (y :: ys).getLastD 0 := by simp [List.getLastD]
      rw [hl]
      rcases List.mem_cons.1 ha with rfl | ha
      · have := ih h.2 y (by simp)
        have := h.1 y (by simp)
        omega
      · exact ih h.2 a ha

theorem getLastD_mem (l : List Nat) (h : l ≠ []) : l.getLastD 0 ∈ l := by
  induction l with
  | nil => exact absurd rfl h
  | cons x xs ih =>
    cases xs with
    | nil => simp
    | cons y ys =>
      have hl : (x :: y :: ys).getLastD 0 = (y :: ys).getLastD 0 := by simp [List.getLastD]
      rw [hl]
      exact List.mem_cons_of_mem _ (ih (by simp))

/-- lookup in a key-indexed table built by `map` -/
theorem find_map_key {α : Type} (f : Nat → α) (l : List Nat) (d : Nat) (hd : d ∈ l) :
    (l.map fun x => (x, f x)).find? (·.1 = d) = some (d, f d) := by
  induction l with
  | nil => simp at hd
  | cons x xs ih =>
    simp only [List.map_cons, List.find?_cons]
    by_cases hx : x = d
    · subst hx; simp
    · have : d ∈ xs := by
        rcases List.mem_cons.1 hd with h | h
        · exact absurd h.symm hx
        · exact h
      simp only [hx, decide_false]
      exact ih this

theorem find_map_key_none {α : Type} (f : Nat → α) (l : List Nat) (d : Nat) (hd : d ∉ l) :
    (l.map fun x => (x, f x)).find? (·.1 = d) = none := by
  induction l with
  | nil => simp
  | cons x xs ih =>
    simp only [List.map_cons, List.find?_cons]
    have hx : x ≠ d := fun e => hd (by simp [e])
    simp only [hx, decide_false]
    exact ih (fun h => hd (List.mem_cons_of_mem _ h))

end Sonic
end PCV
