/-
  PCV.Proofs.HyraxTranscriptEx — a concrete Hyrax history over `ZMod 101` for the non-vacuity examples
  of `Props/C11_Hyrax.lean`: key `[3,5]`, `h = 7`, two committed polynomials in two variables, an
  oracle that depends on the length of the history, three operations (`open`, default `batch_open`
  over two point labels, default `open_combinations`) on one sponge and one RNG.
-/
import PCV.Proofs.HyraxHistory
import PCV.Props.Examples

set_option linter.unusedSectionVars false
set_option linter.unusedVariables false

namespace PCV
namespace Hyrax
namespace TEx
open TraitDefault

/-- an oracle whose answers depend on the history (its length) and on the index -/
def ro : RO K := ⟨fun h i => ((h.length * 7 + i + 3 : Nat) : K), fun _ _ => 0⟩
def polys : List (LPoly K) := [⟨[97], ⟨2, [1, 2, 3, 4]⟩⟩, ⟨[98], ⟨2, [0, 0, 9, 0]⟩⟩]
def sts : List (State K) :=
  [⟨[10, 20], ⟨2, 2, [[1, 3], [2, 4]]⟩⟩, ⟨[2, 4], ⟨2, 2, [[0, 9], [0, 0]]⟩⟩]
def comms : List (LComm K) := [⟨[97], [88, 65]⟩, ⟨[98], [59, 28]⟩]
/-- `Vec<F>: Ord`: lexicographic on canonical representatives -/
def ltVec (a b : List K) : Bool := decide (a.map ZMod.val < b.map ZMod.val)
def trips := polyStComm polys sts comms
def draws : List K := (List.range 40).map fun i => ((i * 3 + 1 : Nat) : K)

def ops : List (TrHistory.Op (List K) K (LPoly K) (State K) (LComm K)) :=
  [.single (trips.take 1) [6, 17],
   .batch [([97], ([120], [6, 17])), ([98], ([120], [6, 17])), ([98], ([121], [2, 9]))],
   .combo [⟨[101], [(2, .poly [97]), (5, .poly [98]), (1, .one)]⟩] [([101], ([122], [4, 4]))]]

def vops : List (TrHistory.VOp (List K) K (LComm K)) :=
  [.single (comms.take 1) [6, 17] [41],
   .batch [([97], ([120], [6, 17])), ([98], ([120], [6, 17])), ([98], ([121], [2, 9]))]
     [(([97], [6, 17]), 41), (([98], [6, 17]), 43), (([98], [2, 9]), 20)],
   .combo [⟨[101], [(2, .poly [97]), (5, .poly [98]), (1, .one)]⟩] [([101], ([122], [4, 4]))]
     [(([101], [4, 4]), 93)]]

def proverOut := TrHistory.proverRun ltVec (fun (p : LPoly K) => p.label) evalLP (openF ro [3, 5] 7)
  polys sts comms ops ([], draws)
def histProofs : List (TrHistory.OpProof K (List (Proof K))) :=
  match proverOut with | .ok (πs, _) => πs | .error _ => []
def histLog : Log K := match proverOut with | .ok (_, (s, _)) => s | .error _ => []

theorem commit_eq : commit ([3, 5] : List K) 7 (polys.map (·.poly)) [10, 20, 2, 4]
    = .ok (comms.map (·.rowComs), sts, []) := by decide

theorem good : GoodTrips ([3, 5] : List K) 7 trips := by
  intro t ht
  simp only [trips, polyStComm, polys, sts, comms, List.zip_cons_cons, List.zip_nil_right,
    List.mem_cons, List.not_mem_nil, or_false] at ht
  rcases ht with rfl | rfl
  · exact ⟨[10, 20], by decide⟩
  · exact ⟨[2, 4], by decide⟩

set_option maxRecDepth 4000 in
theorem prover_eq : proverOut = .ok (histProofs, (histLog, draws.drop 30)) := by decide

set_option maxRecDepth 4000 in
theorem verifier_eq : TrHistory.verifierRun ltVec (fun (c : LComm K) => c.label) (checkF ro [3, 5] 7)
    comms vops histProofs [] = .ok (true, histLog) := by decide

theorem histLog_length : histLog.length = 42 := by decide

theorem ltVec_strict : QS.StrictTotal ltVec := by
  constructor
  · intro a b c h1 h2
    simp only [ltVec, decide_eq_true_eq] at h1 h2 ⊢
    exact lt_trans h1 h2
  · intro a b hne h
    simp only [ltVec, decide_eq_true_eq, decide_eq_false_iff_not] at h ⊢
    have hne' : a.map ZMod.val ≠ b.map ZMod.val := fun h' =>
      hne (List.map_injective_iff.2 (ZMod.val_injective 101) h')
    rcases lt_trichotomy (a.map ZMod.val) (b.map ZMod.val) with h' | h' | h'
    · exact absurd h' h
    · exact absurd h' hne'
    · exact h'

theorem ltVec_irrefl : ∀ a, ltVec a a = false := by
  intro a; simp [ltVec]

end TEx
end Hyrax
end PCV
