/-
  PCV.Proofs.SonicCheck — the verifier of SonicKZG10: `check` decides exactly `defect = 0`
  (acceptance characterisation), the defect is linear in the statement, and honest transcripts
  have defect zero (completeness).
-/
import PCV.Proofs.SonicTrim

set_option linter.unusedSectionVars false
set_option linter.unusedVariables false
set_option linter.unusedSimpArgs false

namespace PCV
namespace Sonic
open Marlin (Label LPoly Query sortDedup checkDegreesAndBounds)

variable {F : Type} [Field F] [DecidableEq F]

/-! ### the map of accumulated commitments -/

/-- every key of the map has a G2 partner -/
def keysOk (σ : Option Nat → Option F) (m : CMap F) : Bool := m.all fun e => (σ e.1).isSome

/-- `Σ_b C_b·σ(b)`, reading a missing partner as 0 -/
def pairSumD (σ : Option Nat → Option F) : CMap F → F
  | [] => 0
  | e :: es => e.2 * (σ e.1).getD 0 + pairSumD σ es

theorem pairSum_eq (σ : Option Nat → Option F) (m : CMap F) :
    pairSum σ m = if keysOk σ m then some (pairSumD σ m) else none := by
  induction m with
  | nil => simp [pairSum, keysOk, pairSumD]
  | cons e es ih =>
    simp only [pairSum, ih, keysOk, List.all_cons, pairSumD]
    rcases Option.eq_none_or_eq_some (σ e.1) with hσ | ⟨s, hσ⟩
    · simp [hσ]
    · by_cases hk : (es.all fun e => (σ e.1).isSome) = true
      · simp [hσ, hk]
      · simp [hσ, hk]

theorem pairSumD_mapAdd (σ : Option Nat → Option F) (k : Option Nat) (x : F) (m : CMap F) :
    pairSumD σ (mapAdd k x m) = x * (σ k).getD 0 + pairSumD σ m := by
  induction m with
  | nil => simp [mapAdd, pairSumD]
  | cons e es ih =>
    simp only [mapAdd]
    split
    · rename_i h; subst h; simp only [pairSumD]; ring
    · split
      · simp only [pairSumD]
      · simp only [pairSumD, ih]; ring

theorem keysOk_mapAdd (σ : Option Nat → Option F) (k : Option Nat) (x : F) (m : CMap F) :
    keysOk σ (mapAdd k x m) = ((σ k).isSome && keysOk σ m) := by
  induction m with
  | nil => simp [mapAdd, keysOk]
  | cons e es ih =>
    simp only [mapAdd]
    split
    · rename_i h; subst h; simp [keysOk]
    · split
      · simp [keysOk]
      · simp only [keysOk, List.all_cons] at ih ⊢
        rw [ih]
        cases (σ k).isSome <;> cases (σ e.1).isSome <;> simp

/-! ### the accumulation loop as a pure function -/

/-- the map `accumulate_elems` leaves behind -/
def accMap (ρ : F) : List (LComm F) → List F → List F → CMap F → CMap F
  | c :: cs, _ :: vs, ξ :: ξs, m => accMap ρ cs vs ξs (mapAdd c.bound (ρ * (ξ * c.comm)) m)
  | _, _, _, m => m

theorem accLoop_eq (ρ : F) (cs : List (LComm F)) (vs ξs : List F) (m : CMap F) (V : F) :
    accLoop ρ cs vs ξs m V =
      match restOf cs vs ξs with
      | none => .error .abort
      | some r => .ok ((accMap ρ cs vs ξs m, V + linV cs vs ξs), r) := by
  induction cs generalizing vs ξs m V with
  | nil =>
    cases ξs with
    | nil => simp [accLoop, restOf]
    | cons ξ ξs => simp [accLoop, restOf, accMap, linV]
  | cons c cs ih =>
    cases vs with
    | nil =>
      cases ξs with
      | nil => simp [accLoop, restOf]
      | cons ξ ξs => simp [accLoop, restOf, accMap, linV]
    | cons v vs =>
      cases ξs with
      | nil => simp [accLoop, restOf]
      | cons ξ ξs =>
        simp only [accLoop, restOf, accMap, linV]
        rw [ih]
        cases restOf cs vs ξs with
        | none => rfl
        | some r =>
          simp only
          congr 3
          ring

theorem pairSumD_accMap (σ : Option Nat → Option F) (ρ : F) (cs : List (LComm F)) (vs ξs : List F)
    (m : CMap F) :
    pairSumD σ (accMap ρ cs vs ξs m)
      = pairSumD σ m + ρ * linC (fun b => (σ b).getD 0) cs vs ξs := by
  induction cs generalizing vs ξs m with
  | nil => simp [accMap, linC]
  | cons c cs ih =>
    cases vs with
    | nil => simp [accMap, linC]
    | cons v vs =>
      cases ξs with
      | nil => simp [accMap, linC]
      | cons ξ ξs =>
        simp only [accMap, linC]
        rw [ih, pairSumD_mapAdd]; ring

theorem keysOk_accMap (σ : Option Nat → Option F) (ρ : F) (cs : List (LComm F)) (vs ξs : List F)
    (m : CMap F) :
    keysOk σ (accMap ρ cs vs ξs m) = (keysOk σ m && boundsOk σ cs vs ξs) := by
  induction cs generalizing vs ξs m with
  | nil => simp [accMap, boundsOk]
  | cons c cs ih =>
    cases vs with
    | nil => simp [accMap, boundsOk]
    | cons v vs =>
      cases ξs with
      | nil => simp [accMap, boundsOk]
      | cons ξ ξs =>
        simp only [accMap, boundsOk]
        rw [ih, keysOk_mapAdd]
        cases (σ c.bound).isSome <;> cases keysOk σ m <;> simp

/-! ### acceptance characterisation -/

/-- **`check` decides exactly `defect = 0`.**  For every verifier key and every transcript:
the model aborts only if the challenge list is too short, refuses with `UnsupportedDegreeBound`
iff a bound label has no G2 element in the key, and otherwise answers `defect = 0`. -/
theorem check_eq (vk : VK F) (cs : List (LComm F)) (z : F) (vs : List F) (π : KZG.Proof F)
    (ξs : List F) :
    check vk cs z vs π ξs =
      match restOf cs vs ξs with
      | none => .error .abort
      | some r =>
        if boundsOk vk.shiftOf cs vs ξs then .ok (decide (defect vk cs z vs π ξs = 0), r)
        else .error .unsupportedBound := by
  unfold check accumulate
  rw [accLoop_eq]
  cases restOf cs vs ξs with
  | none => rfl
  | some r =>
    simp only [checkElems, pairSum_eq, keysOk_accMap, pairSumD_accMap]
    by_cases hb : boundsOk vk.shiftOf cs vs ξs = true
    · simp only [hb, keysOk, List.all_nil, Bool.and_self, if_true]
      congr 2
      unfold elemsDefect defect VK.shiftD
      simp only [pairSumD]
      exact decide_eq_decide.2 ⟨fun h => by linear_combination h, fun h => by linear_combination h⟩
    · simp only [hb, keysOk, List.all_nil, Bool.true_and, Bool.false_eq_true, if_false]

theorem check_true_iff (vk : VK F) (cs : List (LComm F)) (z : F) (vs : List F) (π : KZG.Proof F)
    (ξs rest : List F) :
    check vk cs z vs π ξs = .ok (true, rest) ↔
      restOf cs vs ξs = some rest ∧ boundsOk vk.shiftOf cs vs ξs = true ∧
        defect vk cs z vs π ξs = 0 := by
  rw [check_eq]
  cases restOf cs vs ξs with
  | none => simp
  | some r =>
    by_cases hb : boundsOk vk.shiftOf cs vs ξs = true
    · simp only [hb, if_true, Except.ok.injEq, Prod.mk.injEq, decide_eq_true_eq, Option.some.injEq,
        true_and]
      tauto
    · simp [hb]

/-! ### linearity of the defect in the statement -/

/-- replace the commitment scalars, keep labels and bounds -/
def withComms (cs : List (LComm F)) (ds : List F) : List (LComm F) :=
  List.zipWith (fun c d => { c with comm := d }) cs ds
/-- add to the commitment scalars -/
def addComms (cs : List (LComm F)) (ds : List F) : List (LComm F) :=
  List.zipWith (fun c d => { c with comm := c.comm + d }) cs ds
/-- add to the claimed values -/
def addVals (vs ds : List F) : List F := List.zipWith (· + ·) vs ds

theorem linC_addComms (σ : Option Nat → F) (cs : List (LComm F)) (ds vs ξs : List F)
    (hl : ds.length = cs.length) :
    linC σ (addComms cs ds) vs ξs = linC σ cs vs ξs + linC σ (withComms cs ds) vs ξs := by
  induction cs generalizing ds vs ξs with
  | nil => simp [addComms, withComms, linC]
  | cons c cs ih =>
    cases ds with
    | nil => simp at hl
    | cons d ds =>
      cases vs with
      | nil => simp [addComms, withComms, linC]
      | cons v vs =>
        cases ξs with
        | nil => simp [addComms, withComms, linC]
        | cons ξ ξs =>
          have := ih ds vs ξs (by simpa using hl)
          simp only [addComms, withComms, List.zipWith_cons_cons, linC] at this ⊢
          rw [this]; ring

theorem linV_addVals (cs : List (LComm F)) (vs ds ξs : List F) (hl : ds.length = vs.length) :
    linV cs (addVals vs ds) ξs = linV cs vs ξs + linV cs ds ξs := by
  induction cs generalizing ds vs ξs with
  | nil => simp [linV]
  | cons c cs ih =>
    cases vs with
    | nil =>
      have : ds = [] := List.eq_nil_of_length_eq_zero (by simpa using hl)
      subst this; simp [addVals, linV]
    | cons v vs =>
      cases ds with
      | nil => simp at hl
      | cons d ds =>
        cases ξs with
        | nil => simp [addVals, linV]
        | cons ξ ξs =>
          have := ih vs ds ξs (by simpa using hl)
          simp only [addVals, List.zipWith_cons_cons, linV] at this ⊢
          rw [this]; ring

/-- `linV`, `restOf`, `boundsOk` see only the shape / the bounds of the commitment list -/
theorem shape_addComms (σ : Option Nat → Option F) (cs : List (LComm F)) (ds vs ξs : List F)
    (hl : ds.length = cs.length) :
    linV (addComms cs ds) vs ξs = linV cs vs ξs ∧
    restOf (addComms cs ds) vs ξs = restOf cs vs ξs ∧
    boundsOk σ (addComms cs ds) vs ξs = boundsOk σ cs vs ξs := by
  induction cs generalizing ds vs ξs with
  | nil => simp [addComms, linV, restOf, boundsOk]
  | cons c cs ih =>
    cases ds with
    | nil => simp at hl
    | cons d ds =>
      cases vs with
      | nil => cases ξs <;> simp [addComms, linV, restOf, boundsOk]
      | cons v vs =>
        cases ξs with
        | nil => simp [addComms, linV, restOf, boundsOk]
        | cons ξ ξs =>
          obtain ⟨h1, h2, h3⟩ := ih ds vs ξs (by simpa using hl)
          simp only [addComms, List.zipWith_cons_cons, linV, restOf, boundsOk] at h1 h2 h3 ⊢
          exact ⟨by rw [h1], h2, by rw [h3]⟩

theorem shape_addVals (σ : Option Nat → Option F) (σ' : Option Nat → F) (cs : List (LComm F))
    (vs ds ξs : List F) (hl : ds.length = vs.length) :
    linC σ' cs (addVals vs ds) ξs = linC σ' cs vs ξs ∧
    restOf cs (addVals vs ds) ξs = restOf cs vs ξs ∧
    boundsOk σ cs (addVals vs ds) ξs = boundsOk σ cs vs ξs := by
  induction cs generalizing ds vs ξs with
  | nil => cases ξs <;> simp [linC, restOf, boundsOk]
  | cons c cs ih =>
    cases vs with
    | nil =>
      have : ds = [] := List.eq_nil_of_length_eq_zero (by simpa using hl)
      subst this; cases ξs <;> simp [addVals, linC, restOf, boundsOk]
    | cons v vs =>
      cases ds with
      | nil => simp at hl
      | cons d ds =>
        cases ξs with
        | nil => simp [addVals, linC, restOf, boundsOk]
        | cons ξ ξs =>
          obtain ⟨h1, h2, h3⟩ := ih vs ds ξs (by simpa using hl)
          simp only [addVals, List.zipWith_cons_cons, linC, restOf, boundsOk] at h1 h2 h3 ⊢
          exact ⟨by rw [h1], h2, by rw [h3]⟩

/-- **The defect is affine in the statement.**  Changing the commitments by `dcs`, the point by
`dz` and the values by `dvs` (same proof, same challenges) changes the defect by
`Σ ξⱼ·dcⱼ·σ(bⱼ) − g·h·Σ ξⱼ·dvⱼ + W·dz·h`. -/
theorem defect_perturb (vk : VK F) (cs : List (LComm F)) (z : F) (vs : List F) (π : KZG.Proof F)
    (ξs dcs dvs : List F) (dz : F) (hc : dcs.length = cs.length) (hv : dvs.length = vs.length) :
    defect vk (addComms cs dcs) (z + dz) (addVals vs dvs) π ξs
      = defect vk cs z vs π ξs
        + (linC vk.shiftD (withComms cs dcs) vs ξs - vk.g * linV cs dvs ξs * vk.h + π.w * dz * vk.h) := by
  unfold defect
  obtain ⟨h1, _, _⟩ := shape_addComms vk.shiftOf cs dcs (addVals vs dvs) ξs hc
  obtain ⟨h2, _, _⟩ := shape_addVals vk.shiftOf vk.shiftD (addComms cs dcs) vs dvs ξs hv
  rw [h1, linV_addVals cs vs dvs ξs hv, h2, linC_addComms vk.shiftD cs dcs vs ξs hc]
  ring

/-! ### relabelled degree bounds -/

/-- present the `j`-th commitment under the bound label `b` -/
def relabelAt : Nat → Option Nat → List (LComm F) → List (LComm F)
  | _, _, [] => []
  | 0, b, c :: cs => { c with bound := b } :: cs
  | j + 1, b, c :: cs => c :: relabelAt j b cs

/-- `ξⱼ·Cⱼ·(σ(b) − σ(bⱼ))` for the position `j` (0 outside the loop's range) -/
def relabelTerm (σ : Option Nat → F) (b : Option Nat) : Nat → List (LComm F) → List F → List F → F
  | 0, c :: _, _ :: _, ξ :: _ => ξ * c.comm * (σ b - σ c.bound)
  | j + 1, _ :: cs, _ :: vs, _ :: ξs => relabelTerm σ b j cs vs ξs
  | _, _, _, _ => 0

theorem linC_relabel (σ : Option Nat → F) (b : Option Nat) (j : Nat) (cs : List (LComm F))
    (vs ξs : List F) :
    linC σ (relabelAt j b cs) vs ξs = linC σ cs vs ξs + relabelTerm σ b j cs vs ξs := by
  induction j generalizing cs vs ξs with
  | zero =>
    cases cs with
    | nil => simp [relabelAt, linC, relabelTerm]
    | cons c cs =>
      cases vs with
      | nil => simp [relabelAt, linC, relabelTerm]
      | cons v vs =>
        cases ξs with
        | nil => simp [relabelAt, linC, relabelTerm]
        | cons ξ ξs => simp only [relabelAt, linC, relabelTerm]; ring
  | succ j ih =>
    cases cs with
    | nil => simp [relabelAt, linC, relabelTerm]
    | cons c cs =>
      cases vs with
      | nil => simp [relabelAt, linC, relabelTerm]
      | cons v vs =>
        cases ξs with
        | nil => simp [relabelAt, linC, relabelTerm]
        | cons ξ ξs => simp only [relabelAt, linC, relabelTerm, ih]; ring

theorem shape_relabel (σ : Option Nat → Option F) (b : Option Nat) (hb : (σ b).isSome = true)
    (j : Nat) (cs : List (LComm F)) (vs ξs : List F) :
    linV (relabelAt j b cs) vs ξs = linV cs vs ξs ∧
    restOf (relabelAt j b cs) vs ξs = restOf cs vs ξs ∧
    (boundsOk σ cs vs ξs = true → boundsOk σ (relabelAt j b cs) vs ξs = true) := by
  induction j generalizing cs vs ξs with
  | zero =>
    cases cs with
    | nil => simp [relabelAt]
    | cons c cs =>
      cases vs with
      | nil => cases ξs <;> simp [relabelAt, linV, restOf, boundsOk]
      | cons v vs =>
        cases ξs with
        | nil => simp [relabelAt, linV, restOf, boundsOk]
        | cons ξ ξs =>
          simp only [relabelAt, linV, restOf, boundsOk, hb, Bool.true_and, Bool.and_eq_true, true_and]
          tauto
  | succ j ih =>
    cases cs with
    | nil => simp [relabelAt]
    | cons c cs =>
      cases vs with
      | nil => cases ξs <;> simp [relabelAt, linV, restOf, boundsOk]
      | cons v vs =>
        cases ξs with
        | nil => simp [relabelAt, linV, restOf, boundsOk]
        | cons ξ ξs =>
          obtain ⟨h1, h2, h3⟩ := ih cs vs ξs
          simp only [relabelAt, linV, restOf, boundsOk, Bool.and_eq_true] at h1 h2 h3 ⊢
          exact ⟨by rw [h1], h2, fun h => ⟨h.1, h3 h.2⟩⟩

theorem defect_relabel (vk : VK F) (b : Option Nat) (j : Nat) (cs : List (LComm F)) (z : F)
    (vs : List F) (π : KZG.Proof F) (ξs : List F) :
    defect vk (relabelAt j b cs) z vs π ξs
      = defect vk cs z vs π ξs + relabelTerm vk.shiftD b j cs vs ξs := by
  unfold defect
  rw [linC_relabel]
  have h1 : linV (relabelAt j b cs) vs ξs = linV cs vs ξs := by
    induction j generalizing cs vs ξs with
    | zero =>
      cases cs with
      | nil => simp [relabelAt]
      | cons c cs => cases vs <;> cases ξs <;> simp [relabelAt, linV]
    | succ j ih =>
      cases cs with
      | nil => simp [relabelAt]
      | cons c cs =>
        cases vs with
        | nil => simp [relabelAt, linV]
        | cons v vs =>
          cases ξs with
          | nil => simp [relabelAt, linV]
          | cons ξ ξs => simp only [relabelAt, linV, ih]
  rw [h1]; ring

end Sonic
end PCV
