/-
  PCV.Proofs.SonicDomain — admission and refusals of SonicKZG10 (`trim`, `commit`, `open`), the
  committer-key windows for an arbitrary parameter set, and single-position perturbation terms.
-/
import PCV.Proofs.SonicBatchComplete

set_option linter.unusedSectionVars false
set_option linter.unusedVariables false
set_option linter.unusedSimpArgs false

namespace PCV
namespace Sonic
open Marlin (Label LPoly Query sortDedup checkDegreesAndBounds groupQueries)

variable {F : Type} [Field F] [DecidableEq F]

/-! ### trim -/

theorem trim_refuses_too_large (pp : UParams F) (s shb : Nat) (bounds : Option (List Nat))
    (hp : pp.powers ≠ []) (hs : s > pp.powers.length - 1) :
    trim pp s shb bounds = .error .trimTooLarge := by
  unfold trim
  split
  · rename_i h; exact absurd h hp
  · simp only [hs, if_true]

theorem trim_refuses_empty (pp : UParams F) (s shb : Nat) (bounds : Option (List Nat))
    (hp : pp.powers = []) : trim pp s shb bounds = .error .abort := by
  unfold trim; rw [hp]

/-- a requested bound above the supported degree is refused at `trim` -/
theorem trim_refuses_bound (pp : UParams F) (s shb : Nat) (l : List Nat) (d : Nat)
    (hp : pp.powers ≠ []) (hs : s ≤ pp.powers.length - 1) (hd : d ∈ l) (hds : d > s) :
    trim pp s shb (some l) = .error .unsupportedBound := by
  unfold trim
  split
  · rename_i h; exact absurd h hp
  · have hns : ¬ (s > pp.powers.length - 1) := by omega
    simp only [hns, if_false, Option.map_some]
    have hmem : d ∈ sortDedup l := (mem_sortDedup d l).2 hd
    have hle := le_getLastD_of_sorted _ (sortDedup_sorted l) d hmem
    have hne : (sortDedup l).isEmpty = false := by
      cases hq : sortDedup l with
      | nil => rw [hq] at hmem; cases hmem
      | cons _ _ => rfl
    unfold trimShifted
    simp only [hne, Bool.false_eq_true, if_false]
    rw [if_pos (by omega)]

theorem trim_refuses_hiding (pp : UParams F) (s shb : Nat) (bounds : Option (List Nat))
    (hshb : shb + 2 > pp.gammaPowers.length) : ∃ e, trim pp s shb bounds = .error e := by
  unfold trim
  split
  · exact ⟨_, rfl⟩
  · simp only [hshb, if_true]
    split
    · exact ⟨_, rfl⟩
    · split <;> exact ⟨_, rfl⟩

/-- in-range requests on trapdoor-made parameters are answered (no refusal, no abort) -/
theorem trim_ok (g γ β bi h : F) (D s shb : Nat) (bounds : Option (List Nat))
    (hs : s ≤ D) (hshb : shb ≤ D) (hb : ∀ l, bounds = some l → ∀ d ∈ l, d ≤ s) :
    ∃ ck vk, trim (wfPP g γ β bi h D) s shb bounds = .ok (ck, vk) := by
  have hgl : (wfPP g γ β bi h D).gammaPowers.length = D + 2 := by simp [wfPP, powers_length]
  have hnl : (wfPP g γ β bi h D).negPowersH.length = D + 1 := by simp [wfPP, powers_length]
  have hD : (wfPP g γ β bi h D).powers.length - 1 = D := by simp [wfPP, powers_length]
  have hsh : ∃ x, trimShifted (wfPP g γ β bi h D) D s shb (bounds.map sortDedup) = .ok x := by
    unfold trimShifted
    cases bounds with
    | none => exact ⟨_, rfl⟩
    | some l =>
      simp only [Option.map_some]
      by_cases he : (sortDedup l).isEmpty = true
      · simp only [he, if_true]; exact ⟨_, rfl⟩
      · rw [if_neg he]
        have hne : sortDedup l ≠ [] := by intro e; exact he (by simp [e])
        have hall : ∀ d ∈ sortDedup l, d ≤ s := fun d hd => hb l rfl d ((mem_sortDedup d l).1 hd)
        have hlast : ¬ ((sortDedup l).getLastD 0 > s) := by
          have := hall _ (getLastD_mem _ hne); omega
        rw [if_neg hlast, hgl, hnl]
        have h1 : ¬ ((sortDedup l).any fun d => decide (D - d + min (shb + 2) (d + 2) > D + 2)) = true := by
          simp only [List.any_eq_true, decide_eq_true_eq, not_exists, not_and]
          intro d hd; have := hall d hd; omega
        have h2 : ¬ ((sortDedup l).any fun d => decide (D - d ≥ D + 1)) = true := by
          simp only [List.any_eq_true, decide_eq_true_eq, not_exists, not_and]
          intro d hd; omega
        rw [if_neg h1, if_neg h2]
        exact ⟨_, rfl⟩
  obtain ⟨⟨sp, sg, nh⟩, hx⟩ := hsh
  unfold trim
  split
  · rename_i hp; simp [wfPP, powers] at hp
  · rw [hD, if_neg (by omega)]
    dsimp only
    rw [hx]
    dsimp only
    rw [hgl, if_neg (by omega)]
    exact ⟨_, _, rfl⟩

/-! ### the committer-key windows for an arbitrary parameter set -/

/-- **C08/C09 (windows).**  For any parameter set (not necessarily powers of a trapdoor): a polynomial
with the enforced bound `d` is committed under `powers_of_g[D-d ..]` and the truncated window
`powers_of_gamma_g[D-d .. D-d+min(shb+2, d+2)]`. -/
theorem powersFor_general (pp : UParams F) (s shb : Nat) (l : List Nat) (ck : CK F) (vk : VK F)
    (ht : trim pp s shb (some l) = .ok (ck, vk)) (d : Nat) (hd : d ∈ l) :
    powersFor ck (some d)
      = .ok ⟨pp.powers.drop (pp.powers.length - 1 - d),
             gammaWindow pp.gammaPowers (pp.powers.length - 1) shb d⟩ ∧
    vk.shiftPower d = some (getD' pp.negPowersH (pp.powers.length - 1 - d) 0) ∧ d ≤ s := by
  obtain ⟨hs, _, _, _, _, hb, _, _, _, _, _, _, hsh⟩ := trim_inv pp s shb (some l) ck vk ht
  simp only [Option.map_some] at hsh hb
  have hdm : d ∈ sortDedup l := (mem_sortDedup d l).2 hd
  have hne : sortDedup l ≠ [] := by intro e; rw [e] at hdm; cases hdm
  obtain ⟨hcase, _⟩ := trimShifted_inv _ _ _ _ _ _ _ _ hsh
  obtain ⟨hlast, hsp, hsg, hnh, _⟩ := hcase _ rfl hne
  have hdB := le_getLastD_of_sorted _ (sortDedup_sorted l) d hdm
  refine ⟨?_, ?_, by omega⟩
  · simp only [powersFor, shiftedPowersFor, hsp, hsg, hb]
    have he : (sortDedup l).isEmpty = false := by
      cases hq : sortDedup l with
      | nil => exact absurd hq hne
      | cons _ _ => rfl
    have hcon : (sortDedup l).contains d = true := by simpa using hdm
    simp only [he, hcon, Bool.false_eq_true, if_false, not_true_eq_false]
    have hlen : ¬ (d > (sortDedup l).getLastD 0 ∨ (sortDedup l).getLastD 0 - d
        > (pp.powers.drop (pp.powers.length - 1 - (sortDedup l).getLastD 0)).length) := by
      simp only [List.length_drop]; omega
    rw [if_neg hlen, find_map_key _ _ d hdm]
    simp only [List.drop_drop]
    congr 3
    omega
  · simp only [VK.shiftPower, hnh]
    rw [find_map_key _ _ d hdm]
    rfl

/-- bounds outside `sort(dedup B)` have no G2 element in the verifier key -/
theorem shiftPower_none (pp : UParams F) (s shb : Nat) (bounds : Option (List Nat)) (ck : CK F)
    (vk : VK F) (ht : trim pp s shb bounds = .ok (ck, vk)) (d : Nat)
    (hd : ∀ l, bounds = some l → d ∉ l) : vk.shiftPower d = none := by
  obtain ⟨_, _, _, _, _, _, _, _, _, _, _, _, hsh⟩ := trim_inv pp s shb bounds ck vk ht
  obtain ⟨hcase, hnone⟩ := trimShifted_inv _ _ _ _ _ _ _ _ hsh
  cases bounds with
  | none =>
    obtain ⟨_, _, hnh⟩ := hnone (Or.inl rfl)
    simp [VK.shiftPower, hnh]
  | some l =>
    by_cases hne : sortDedup l = []
    · obtain ⟨_, _, hnh⟩ := hnone (Or.inr (by simp [hne]))
      simp [VK.shiftPower, hnh]
    · obtain ⟨_, _, _, hnh, _⟩ := hcase _ rfl hne
      simp only [VK.shiftPower, hnh]
      rw [find_map_key_none _ _ d (fun hm => hd l rfl ((mem_sortDedup d l).1 hm))]
      rfl

/-! ### commit / open admission -/

theorem checkDB_unsupported (maxDegree : Nat) (bounds : Option (List Nat)) (p : List F) (d : Nat)
    (h : ∀ bs, bounds = some bs → d ∉ bs) :
    checkDegreesAndBounds maxDegree bounds p (some d) = .error .unsupportedBound := by
  unfold checkDegreesAndBounds
  cases bounds with
  | none => rfl
  | some bs =>
    have : bs.contains d = false := by simpa using h bs rfl
    simp only [this, Bool.false_eq_true, not_false_eq_true, if_true]

theorem checkDB_incorrect (maxDegree : Nat) (bs : List Nat) (p : List F) (d : Nat)
    (hd : d ∈ bs) (h : d < pdeg p ∨ d > maxDegree) :
    checkDegreesAndBounds maxDegree (some bs) p (some d) = .error .incorrectBound := by
  unfold checkDegreesAndBounds
  have : bs.contains d = true := by simpa using hd
  simp only [this, not_true_eq_false, if_false, h, if_true]

theorem commitOne_refuses_bound (ck : CK F) (p : LPoly F) (rng : Bool) (draws : List F) (d : Nat)
    (hb : p.bound = some d) (e : Err)
    (h : checkDegreesAndBounds ck.maxDegree ck.bounds p.poly (some d) = .error e) :
    commitOne ck p rng draws = .error e := by
  unfold commitOne; rw [hb, h]

theorem commitOne_refuses_degree (ck : CK F) (p : LPoly F) (rng : Bool) (draws : List F)
    (hb : p.bound = none) (hd : pdeg p.poly + 1 > ck.powers.length) :
    commitOne ck p rng draws = .error .tooManyCoefficients := by
  unfold commitOne
  simp only [hb, checkDegreesAndBounds, powersFor, KZG.checkDegreeIsTooLarge, hd, if_true]

theorem commitOne_refuses_no_rng (ck : CK F) (p : LPoly F) (draws : List F) (hb : p.bound = none)
    (hd : ¬ (pdeg p.poly + 1 > ck.powers.length)) (hh : p.hb.isSome = true) :
    commitOne ck p false draws = .error .abort := by
  unfold commitOne
  simp only [hb, checkDegreesAndBounds, powersFor, KZG.checkDegreeIsTooLarge, hd, if_false, hh,
    and_self, if_true]

theorem commit_refuses_head (ck : CK F) (p : LPoly F) (ps : List (LPoly F)) (rng : Bool)
    (draws : List F) (e : Err) (h : commitOne ck p rng draws = .error e) :
    commit ck (p :: ps) rng draws = .error e := by
  simp only [commit, h]

theorem open_refuses_bound (ck : CK F) (p : LPoly F) (ps : List (LPoly F)) (st : List F)
    (sts : List (List F)) (z ξ : F) (ξs : List F) (e : Err)
    (h : checkDegreesAndBounds ck.maxDegree ck.bounds p.poly p.bound = .error e) :
    Sonic.open ck (p :: ps) z (st :: sts) (ξ :: ξs) = .error e := by
  unfold Sonic.open
  simp only [openLoop, h]

/-! ### single-position perturbations -/

/-- the list `0, …, 0, δ, 0, …, 0` of length `n` with `δ` at position `j` -/
def spike : Nat → F → Nat → List F
  | _, _, 0 => []
  | 0, δ, n + 1 => δ :: List.replicate n 0
  | j + 1, δ, n + 1 => 0 :: spike j δ n

theorem spike_length (j : Nat) (δ : F) (n : Nat) : (spike j δ n).length = n := by
  induction j generalizing n with
  | zero => cases n <;> simp [spike]
  | succ j ih => cases n <;> simp [spike, ih]

theorem linV_zero (cs : List (LComm F)) (n : Nat) (ξs : List F) :
    linV cs (List.replicate n 0) ξs = 0 := by
  induction cs generalizing n ξs with
  | nil => simp [linV]
  | cons c cs ih =>
    cases n with
    | zero => simp [linV]
    | succ n =>
      cases ξs with
      | nil => simp [linV, List.replicate_succ]
      | cons ξ ξs => simp [linV, List.replicate_succ, ih]

theorem linC_zero (σ : Option Nat → F) (cs : List (LComm F)) (n : Nat) (vs ξs : List F) :
    linC σ (withComms cs (List.replicate n 0)) vs ξs = 0 := by
  induction cs generalizing n vs ξs with
  | nil => simp [withComms, linC]
  | cons c cs ih =>
    cases n with
    | zero => simp [withComms, linC]
    | succ n =>
      cases vs with
      | nil => simp [withComms, linC, List.replicate_succ]
      | cons v vs =>
        cases ξs with
        | nil => simp [withComms, linC, List.replicate_succ]
        | cons ξ ξs =>
          have := ih n vs ξs
          simp only [withComms] at this
          simp [withComms, linC, List.replicate_succ, this]

/-- `ξⱼ·δ` when position `j` is inside the loop's range, else 0 -/
def valTerm (δ : F) : Nat → List (LComm F) → List F → F
  | 0, _ :: _, ξ :: _ => ξ * δ
  | j + 1, _ :: cs, _ :: ξs => valTerm δ j cs ξs
  | _, _, _ => 0

/-- `ξⱼ·δ·σ(bⱼ)` when position `j` is inside the loop's range, else 0 -/
def commTerm (σ : Option Nat → F) (δ : F) : Nat → List (LComm F) → List F → List F → F
  | 0, c :: _, _ :: _, ξ :: _ => ξ * δ * σ c.bound
  | j + 1, _ :: cs, _ :: vs, _ :: ξs => commTerm σ δ j cs vs ξs
  | _, _, _, _ => 0

theorem linV_spike (δ : F) (j : Nat) (cs : List (LComm F)) (n : Nat) (ξs : List F) (hj : j < n) :
    linV cs (spike j δ n) ξs = valTerm δ j cs ξs := by
  induction j generalizing cs n ξs with
  | zero =>
    cases n with
    | zero => omega
    | succ n =>
      cases cs with
      | nil => simp [linV, valTerm]
      | cons c cs =>
        cases ξs with
        | nil => simp [linV, valTerm, spike]
        | cons ξ ξs => simp [linV, valTerm, spike, linV_zero]
  | succ j ih =>
    cases n with
    | zero => omega
    | succ n =>
      cases cs with
      | nil => simp [linV, valTerm]
      | cons c cs =>
        cases ξs with
        | nil => simp [linV, valTerm, spike]
        | cons ξ ξs => simp [linV, valTerm, spike, ih cs n ξs (by omega)]

theorem linC_spike (σ : Option Nat → F) (δ : F) (j : Nat) (cs : List (LComm F)) (n : Nat)
    (vs ξs : List F) (hj : j < n) :
    linC σ (withComms cs (spike j δ n)) vs ξs = commTerm σ δ j cs vs ξs := by
  induction j generalizing cs n vs ξs with
  | zero =>
    cases n with
    | zero => omega
    | succ n =>
      cases cs with
      | nil => simp [withComms, linC, commTerm]
      | cons c cs =>
        cases vs with
        | nil => simp [withComms, linC, commTerm, spike]
        | cons v vs =>
          cases ξs with
          | nil => simp [withComms, linC, commTerm, spike]
          | cons ξ ξs =>
            have := linC_zero σ cs n vs ξs
            simp only [withComms] at this
            simp [withComms, linC, commTerm, spike, this]
  | succ j ih =>
    cases n with
    | zero => omega
    | succ n =>
      cases cs with
      | nil => simp [withComms, linC, commTerm]
      | cons c cs =>
        cases vs with
        | nil => simp [withComms, linC, commTerm, spike]
        | cons v vs =>
          cases ξs with
          | nil => simp [withComms, linC, commTerm, spike]
          | cons ξ ξs =>
            have := ih cs n vs ξs (by omega)
            simp only [withComms] at this
            simp [withComms, linC, commTerm, spike, this]

end Sonic
end PCV
