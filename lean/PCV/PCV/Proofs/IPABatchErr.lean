/-
  PCV.Proofs.IPABatchErr — `batch_check` of the IPA model on a perturbed statement.
  From an accepted batch, with the oracle outputs held fixed: changing the commitments by `errC`
  (per label, unshifted part) and the claimed values by `errV` (per key) changes the succinct-check
  defect of every point label by an explicit amount (`groupErr`), and nothing else; the batch is then
  accepted iff all these amounts vanish.
-/
import PCV.Proofs.IPAVerify

set_option linter.unusedSectionVars false
set_option linter.unusedVariables false

namespace PCV
namespace IPA
variable {F : Type} [Field F] [DecidableEq F]

/-- shift every value by an amount depending on its key `(label, point)` -/
def bump (err : Label × F → F) (evals : List ((Label × F) × F)) : List ((Label × F) × F) :=
  evals.map fun e => (e.1, e.2 + err e.1)

/-- shift the unshifted part of one commitment -/
def bumpC (errC : Label → F) (c : LComm F) : LComm F :=
  ⟨c.label, ⟨c.comm.comm + errC c.label, c.comm.shifted⟩, c.bound⟩

/-- shift the unshifted part of every commitment by an amount depending on its label -/
def bumpComms (errC : Label → F) (comms : List (LComm F)) : List (LComm F) := comms.map (bumpC errC)

theorem lookupEval_bump (err : Label × F → F) (evals : List ((Label × F) × F)) (l : Label) (z : F) :
    Marlin.lookupEval (bump err evals) l z = (Marlin.lookupEval evals l z).map (· + err (l, z)) := by
  unfold Marlin.lookupEval bump
  rw [List.foldl_map]
  have : ∀ (acc : Option F),
      List.foldl (fun acc (e : (Label × F) × F) => if (e.1, e.2 + err e.1).1 = (l, z) then some (e.1, e.2 + err e.1).2 else acc)
        (acc.map (· + err (l, z))) evals
      = (List.foldl (fun acc (e : (Label × F) × F) => if e.1 = (l, z) then some e.2 else acc) acc evals).map
          (· + err (l, z)) := by
    induction evals with
    | nil => intro acc; rfl
    | cons e es ih =>
      intro acc
      simp only [List.foldl_cons]
      by_cases h : e.1 = (l, z)
      · simp only [h, if_true]
        exact ih (some e.2)
      · simp only [h, if_false]
        exact ih acc
  exact this none

theorem lookupLast_bumpComms (errC : Label → F) (comms : List (LComm F)) (l : Label) :
    Marlin.lookupLast (fun (c : LComm F) => c.label) l (bumpComms errC comms)
      = (Marlin.lookupLast (fun (c : LComm F) => c.label) l comms).map (bumpC errC) := by
  unfold Marlin.lookupLast bumpComms
  rw [List.foldl_map]
  have : ∀ (acc : Option (LComm F)),
      List.foldl (fun acc (y : LComm F) => if (bumpC errC y).label = l then some (bumpC errC y) else acc)
        (acc.map (bumpC errC)) comms
        = (List.foldl (fun acc (x : LComm F) => if x.label = l then some x else acc) acc comms).map
            (bumpC errC) := by
    induction comms with
    | nil => intro acc; rfl
    | cons x xs ih =>
      intro acc
      simp only [List.foldl_cons]
      by_cases h : x.label = l
      · have h' : (bumpC errC x).label = l := h
        simp only [h, h', if_true]; exact ih (some x)
      · have h' : ¬ (bumpC errC x).label = l := h
        simp only [h, h', if_false]; exact ih acc
  exact this none

/-- the commitments and values `batch_check` gathers for one point label, on the perturbed statement -/
theorem gatherComms_bump (errC : Label → F) (errV : Label × F → F) (comms : List (LComm F))
    (evals : List ((Label × F) × F)) (z : F) :
    ∀ (ls : List Label) (cs : List (LComm F)) (vs : List F),
      gatherComms comms evals z ls = .ok (cs, vs) →
      gatherComms (bumpComms errC comms) (bump errV evals) z ls
        = .ok (cs.map (bumpC errC), addVec vs (ls.map fun l => errV (l, z))) ∧
      vs.length = ls.length ∧ cs.length = ls.length := by
  intro ls
  induction ls with
  | nil =>
    intro cs vs h
    simp only [gatherComms] at h
    injection h with h; injection h with h1 h2
    subst h1; subst h2
    exact ⟨rfl, rfl, rfl⟩
  | cons l ls ih =>
    intro cs vs h
    simp only [gatherComms] at h
    split at h
    · cases h
    · rename_i c hc
      split at h
      · cases h
      · rename_i v hv
        split at h
        · cases h
        · rename_i cs' vs' hrec
          injection h with h; injection h with h1 h2
          subst h1; subst h2
          obtain ⟨i1, i2, i3⟩ := ih cs' vs' hrec
          refine ⟨?_, by simp [i2], by simp [i3]⟩
          simp only [gatherComms, lookupLast_bumpComms, hc, Option.map_some, lookupEval_bump, hv, i1,
            List.map_cons, addVec]

/-! ### the combining loop on shifted commitments -/

/-- the change of the combined commitment caused by the commitment errors -/
def commErr (errC : Label → F) : List (LComm F) → List F → F → List F → F
  | c :: cs, _ :: vs, cur, _ :: ξ'' :: rest => errC c.label * cur + commErr errC cs vs ξ'' rest
  | _, _, _, _ => 0

theorem accStep_shiftC (vk : VK F) (z : F) (c : LComm F) (v ξ ξ' C V C1 V1 e : F)
    (h : accStep vk z c v ξ ξ' C V = .ok (C1, V1)) :
    accStep vk z c v ξ ξ' (C + e) V = .ok (C1 + e, V1) := by
  unfold accStep at h ⊢
  split at h
  · cases h
  · rename_i hne
    rw [if_neg hne]
    split at h
    · split at h
      · cases h
      · rename_i hle
        injection h with h; injection h with h1 h2
        subst h1; subst h2
        rw [if_neg hle]; congr 2; ring
    · injection h with h; injection h with h1 h2
      subst h1; subst h2
      congr 2; ring

theorem accLoop_shiftC (vk : VK F) (z : F) (e : F) :
    ∀ (cs : List (LComm F)) (vs : List F) (cur : F) (ξs : List F) (C V C' V' : F) (rest : List F),
      accLoop vk z cs vs cur ξs C V = .ok ((C', V'), rest) →
      accLoop vk z cs vs cur ξs (C + e) V = .ok ((C' + e, V'), rest) := by
  intro cs
  induction cs with
  | nil =>
    intro vs cur ξs C V C' V' rest h
    simp only [accLoop] at h ⊢
    injection h with h; injection h with h1 h2; injection h1 with h1 h3
    subst h1; subst h2; subst h3; rfl
  | cons c cs ih =>
    intro vs cur ξs C V C' V' rest h
    cases vs with
    | nil =>
      simp only [accLoop] at h ⊢
      injection h with h; injection h with h1 h2; injection h1 with h1 h3
      subst h1; subst h2; subst h3; rfl
    | cons v vs =>
      simp only [accLoop] at h ⊢
      split at h
      · rename_i a b r2
        split at h
        · cases h
        · rename_i C2 V2 hs2
          simp only [accStep_shiftC vk z c v cur a C V C2 V2 e hs2]
          exact ih vs b r2 C2 V2 C' V' rest h
      · cases h

theorem accStep_bumpC (vk : VK F) (z : F) (errC : Label → F) (c : LComm F) (v ξ ξ' C V C1 V1 : F)
    (h : accStep vk z c v ξ ξ' C V = .ok (C1, V1)) :
    accStep vk z (bumpC errC c) v ξ ξ' C V = .ok (C1 + errC c.label * ξ, V1) := by
  obtain ⟨lab, ⟨cc, sh⟩, bd⟩ := c
  cases bd with
  | none =>
    cases sh with
    | none =>
      simp only [accStep, bumpC] at h ⊢
      simp only [Option.isSome_none, ne_eq, not_true_eq_false, if_false] at h ⊢
      injection h with h; injection h with h1 h2
      subst h1; subst h2
      congr 2; ring
    | some sc => simp [accStep] at h
  | some b =>
    cases sh with
    | none => simp [accStep] at h
    | some sc =>
      simp only [accStep, bumpC] at h ⊢
      simp only [Option.isSome_some, ne_eq, not_true_eq_false, if_false] at h ⊢
      by_cases hle : b > supportedDegree vk
      · rw [if_pos hle] at h; cases h
      · rw [if_neg hle] at h ⊢
        injection h with h; injection h with h1 h2
        subst h1; subst h2
        congr 2; ring

theorem accLoop_bumpC (vk : VK F) (z : F) (errC : Label → F) :
    ∀ (cs : List (LComm F)) (vs : List F) (cur : F) (ξs : List F) (C V C' V' : F) (rest : List F),
      accLoop vk z cs vs cur ξs C V = .ok ((C', V'), rest) →
      accLoop vk z (cs.map (bumpC errC)) vs cur ξs C V
        = .ok ((C' + commErr errC cs vs cur ξs, V'), rest) := by
  intro cs
  induction cs with
  | nil =>
    intro vs cur ξs C V C' V' rest h
    simp only [accLoop] at h
    injection h with h; injection h with h1 h2; injection h1 with h1 h3
    subst h1; subst h2; subst h3
    simp [accLoop, commErr]
  | cons c cs ih =>
    intro vs cur ξs C V C' V' rest h
    cases vs with
    | nil =>
      simp only [accLoop] at h
      injection h with h; injection h with h1 h2; injection h1 with h1 h3
      subst h1; subst h2; subst h3
      simp [accLoop, commErr]
    | cons v vs =>
      simp only [accLoop] at h
      split at h
      · rename_i ξ' ξ'' rest'
        split at h
        · cases h
        · rename_i C1 V1 hstep
          have h1 := accStep_bumpC vk z errC c v cur ξ' C V C1 V1 hstep
          have h2 := ih vs ξ'' rest' C1 V1 C' V' rest h
          have h3 := accLoop_shiftC vk z (errC c.label * cur) (cs.map (bumpC errC)) vs ξ'' rest'
            C1 V1 _ V' rest h2
          simp only [List.map_cons, accLoop, h1, h3, commErr]
          congr 3; ring
      · cases h

/-! ### one point label -/

/-- the amount by which the succinct-check defect of one point label moves -/
def groupErr (vk : VK F) (errC : Label → F) (errV : Label × F → F) (z : F) (ls : List Label)
    (cs : List (LComm F)) (vs : List F) (ξ₀ cur : F) (ξs : List F) : F :=
  commErr errC cs (addVec vs (ls.map fun l => errV (l, z))) cur ξs
    + vk.h * ξ₀ * valueErr vk z cs (ls.map fun l => errV (l, z)) cur ξs

theorem succinctRun_acc (vk : VK F) (cs : List (LComm F)) (z : F) (vs : List F) (π : Proof F)
    (cur : F) (ξs ros : List F) (r : Run F) (ξr ror : List F)
    (hr : succinctRun vk cs z vs π (cur :: ξs) ros = .ok (r, ξr, ror)) :
    ∃ C V, accLoop vk z cs vs cur ξs 0 0 = .ok ((C, V), ξr) := by
  unfold succinctRun at hr
  simp only at hr
  cases hacc : accLoop vk z cs vs cur ξs 0 0 with
  | error e => rw [hacc] at hr; cases hr
  | ok x =>
    obtain ⟨⟨C, V⟩, ξrest⟩ := x
    rw [hacc] at hr
    simp only at hr
    split at hr
    · cases hr
    · split at hr
      · cases hr
      · split at hr
        · cases hr
        · injection hr with hr; injection hr with _ h2; injection h2 with h2 _
          subst h2
          exact ⟨C, V, rfl⟩

/-- `succinct_check` of one point label on the perturbed statement (oracle outputs held fixed) -/
theorem succinctRun_bump (vk : VK F) (errC : Label → F) (cs : List (LComm F)) (z : F)
    (vs ds : List F) (π : Proof F) (cur : F) (ξs ros : List F) (r : Run F) (ξr ror : List F)
    (hr : succinctRun vk cs z vs π (cur :: ξs) ros = .ok (r, ξr, ror)) (hl : ds.length = vs.length) :
    succinctRun vk (cs.map (bumpC errC)) z (addVec vs ds) π (cur :: ξs) ros
      = .ok (⟨r.C + commErr errC cs (addVec vs ds) cur ξs, r.V + valueErr vk z cs ds cur ξs,
              r.ξ₀, r.us, r.lr⟩, ξr, ror) := by
  obtain ⟨C, V, hacc⟩ := succinctRun_acc vk cs z vs π cur ξs ros r ξr ror hr
  have h1 := accLoop_value vk z cs vs ds cur ξs 0 0 C V ξr hacc hl
  have h2 := accLoop_bumpC vk z errC cs (addVec vs ds) cur ξs 0 0 C _ ξr h1
  exact succinctRun_congr vk cs _ z vs _ π cur ξs ros C V _ _ ξr hacc h2 r ξr ror hr

/-! ### the batch -/

/-- the defect shifts of all point labels, in the order of `batch_check`'s loop (the sponge and the
random oracle are threaded as in the code) -/
def batchErrs (vk : VK F) (comms : List (LComm F)) (evals : List ((Label × F) × F))
    (errC : Label → F) (errV : Label × F → F) :
    List (Label × (F × List Label)) → List (Proof F) → List F → List F → List F
  | g :: gs, π :: πs, ξs, ros =>
    match gatherComms comms evals g.2.1 g.2.2 with
    | .error _ => []
    | .ok (cs, vs) =>
      match ξs with
      | [] => []
      | cur :: ξs' =>
        match succinctRun vk cs g.2.1 vs π ξs ros with
        | .error _ => []
        | .ok (r, ξr, ror) =>
          groupErr vk errC errV g.2.1 g.2.2 cs vs r.ξ₀ cur ξs'
            :: batchErrs vk comms evals errC errV gs πs ξr ror
  | _, _, _, _ => []

/-- all entries vanish (as a `Bool`) -/
def allZero (es : List F) : Bool := es.all fun e => decide (e = 0)

theorem batchSuccinct_bump (vk : VK F) (comms : List (LComm F)) (evals : List ((Label × F) × F))
    (errC : Label → F) (errV : Label × F → F) :
    ∀ (gs : List (Label × (F × List Label))) (πs : List (Proof F)) (ξs ros : List F)
      (uss : List (List F)),
      batchSuccinct vk comms evals gs πs ξs ros = .ok (some uss) →
      batchSuccinct vk (bumpComms errC comms) (bump errV evals) gs πs ξs ros
        = .ok (if allZero (batchErrs vk comms evals errC errV gs πs ξs ros) then some uss else none) := by
  intro gs
  induction gs with
  | nil =>
    intro πs ξs ros uss h
    simp only [batchSuccinct] at h ⊢
    simp [batchErrs, allZero, h]
  | cons g gs ih =>
    intro πs ξs ros uss h
    cases πs with
    | nil =>
      simp only [batchSuccinct] at h ⊢
      simp [batchErrs, allZero, h]
    | cons π πs =>
      simp only [batchSuccinct] at h
      split at h
      · cases h
      · rename_i hshape
        split at h
        · cases h
        · rename_i cs vs hg
          obtain ⟨hg', hlv, _⟩ := gatherComms_bump errC errV comms evals g.2.1 g.2.2 cs vs hg
          -- the succinct check of the unperturbed statement
          cases hsc : succinctCheck vk cs g.2.1 vs π ξs ros with
          | error e => rw [hsc] at h; cases h
          | ok x =>
            obtain ⟨o, ξs', ros'⟩ := x
            rw [hsc] at h
            cases o with
            | none => simp at h
            | some us =>
              simp only at h
              unfold succinctCheck at hsc
              cases hrun : succinctRun vk cs g.2.1 vs π ξs ros with
              | error e => rw [hrun] at hsc; cases hsc
              | ok y =>
                obtain ⟨r, ξr, ror⟩ := y
                rw [hrun] at hsc
                simp only at hsc
                injection hsc with hsc
                injection hsc with ho hrest
                injection hrest with hξ hro
                subst hξ; subst hro
                have hd1 : defect1 vk g.2.1 π r = 0 := by
                  by_contra hne; rw [if_neg hne] at ho; cases ho
                rw [if_pos hd1] at ho
                injection ho with ho
                subst ho
                cases ξs with
                | nil => simp [succinctRun] at hrun
                | cons cur ξt =>
                  have hb := succinctRun_bump vk errC cs g.2.1 vs (g.2.2.map fun l => errV (l, g.2.1)) π
                    cur ξt ros r ξr ror hrun (by simp [hlv])
                  cases hrec : batchSuccinct vk comms evals gs πs ξr ror with
                  | error e => rw [hrec] at h; cases h
                  | ok o2 =>
                    rw [hrec] at h
                    cases o2 with
                    | none => simp at h
                    | some uss' =>
                      simp only at h
                      injection h with h; injection h with h
                      subst h
                      have hih := ih πs ξr ror uss' hrec
                      simp only [batchSuccinct, hshape, Bool.false_eq_true, if_false, hg', succinctCheck,
                        hb, defect1_shift, hd1, zero_add, batchErrs, hg, hrun, allZero, List.all_cons,
                        groupErr]
                      by_cases hz : commErr errC cs (addVec vs (List.map (fun l => errV (l, g.2.1)) g.2.2)) cur ξt
                          + vk.h * r.ξ₀ * valueErr vk g.2.1 cs (List.map (fun l => errV (l, g.2.1)) g.2.2) cur ξt = 0
                      · simp only [hz, if_true, decide_true, Bool.true_and, hih]
                        unfold allZero
                        by_cases hall : ((batchErrs vk comms evals errC errV gs πs ξr ror).all fun e => decide (e = 0)) = true
                        · simp only [hall, if_true]
                        · simp only [hall, if_false]; rfl
                      · simp [hz]

/-- **`batch_check` on a perturbed statement.** From an accepted batch, with the oracle outputs and
the verifier's randomizers held fixed: after changing the commitments by `errC` and the claimed
values by `errV` the batch is accepted iff the defect shift of every point label vanishes. -/
theorem batchCheck_bump (vk : VK F) (comms : List (LComm F)) (qs : List (Query F))
    (evals : List ((Label × F) × F)) (πs : List (Proof F)) (ξs ros rs : List F)
    (errC : Label → F) (errV : Label × F → F)
    (hacc : batchCheck vk comms qs evals πs ξs ros rs = .ok true) :
    batchCheck vk (bumpComms errC comms) qs (bump errV evals) πs ξs ros rs
      = .ok (allZero (batchErrs vk comms evals errC errV (Marlin.groupQueries qs) πs ξs ros)) := by
  unfold batchCheck at hacc ⊢
  split at hacc
  · cases hacc
  · rename_i hl
    rw [if_neg hl]
    cases hs : batchSuccinct vk comms evals (Marlin.groupQueries qs) πs ξs ros with
    | error e => rw [hs] at hacc; cases hacc
    | ok o =>
      rw [hs] at hacc
      cases o with
      | none => simp [batchDecide] at hacc
      | some uss =>
        simp only [batchDecide] at hacc
        injection hacc with hacc
        rw [batchSuccinct_bump vk comms evals errC errV _ πs ξs ros uss hs]
        simp only
        split
        · rename_i hz; simp only [batchDecide, hacc, hz]
        · rename_i hz; simp only [batchDecide]; simp at hz; simp [hz]

theorem bumpComms_zero (comms : List (LComm F)) : bumpComms (fun _ => 0) comms = comms := by
  unfold bumpComms
  conv_rhs => rw [← List.map_id comms]
  apply List.map_congr_left
  intro c _
  simp [bumpC]

/-! ### the same proof at another position of the sponge stream -/

/-- `succinct_check` depends on the statement and on the sponge only through the result of the
combining loop: a statement / sponge position whose loop ends in `(Ĉ + eC, v̂ + eV)` gives — with the
random-oracle outputs held fixed — the same run with `C`, `V` shifted -/
theorem succinctRun_congr_pos (vk : VK F) (cs cs' : List (LComm F)) (z : F) (vs vs' : List F)
    (π : Proof F) (cur cur' : F) (ξs ξs' ros : List F) (C V eC eV : F) (rest rest' : List F)
    (h1 : accLoop vk z cs vs cur ξs 0 0 = .ok ((C, V), rest))
    (h2 : accLoop vk z cs' vs' cur' ξs' 0 0 = .ok ((C + eC, V + eV), rest'))
    (r : Run F) (ξr ror : List F)
    (hr : succinctRun vk cs z vs π (cur :: ξs) ros = .ok (r, ξr, ror)) :
    succinctRun vk cs' z vs' π (cur' :: ξs') ros
      = .ok (⟨r.C + eC, r.V + eV, r.ξ₀, r.us, r.lr⟩, rest', ror) := by
  unfold succinctRun at hr ⊢
  simp only at hr ⊢
  rw [h1] at hr
  rw [h2]
  simp only at hr ⊢
  have hadj : ∀ C' ros1, hidingAdjust vk π C ros = .ok (C', ros1) →
      hidingAdjust vk π (C + eC) ros = .ok (C' + eC, ros1) := by
    intro C' ros1 h
    unfold hidingAdjust at h ⊢
    split at h
    · cases h
    · rename_i hne
      rw [if_neg hne]
      split at h
      · split at h
        · cases h
        · injection h with h; injection h with ha hb
          subst ha; subst hb
          congr 2; ring
      · injection h with h; injection h with ha hb
        subst ha; subst hb; rfl
  cases hadj' : hidingAdjust vk π C ros with
  | error e => rw [hadj'] at hr; cases hr
  | ok y =>
    obtain ⟨C', ros1⟩ := y
    rw [hadj'] at hr
    rw [hadj C' ros1 hadj']
    simp only at hr ⊢
    cases ros1 with
    | nil => cases hr
    | cons ξ₀ ros2 =>
      simp only at hr ⊢
      cases hvr : verifyRounds π.lVec π.rVec ros2 with
      | error e => rw [hvr] at hr; cases hr
      | ok w =>
        obtain ⟨us, lr, ros3⟩ := w
        rw [hvr] at hr
        simp only at hr ⊢
        injection hr with hr; injection hr with h1 h2
        injection h2 with _ h3
        subst h1; subst h3; rfl

end IPA
end PCV
