/-
  PCV.Proofs.Combinations — the specification the multiset enumeration of `setup` is compared with:
  `specTerms nv D` lists, in the order `setup` produces them, the monomials of total degree `≤ D`
  in `nv` variables (as `SparseTerm::new` results).  Proved for all `nv`, `D`: it contains exactly
  those monomials, each once.
-/
import PCV.Model.Combinations
import PCV.Proofs.MVPoly
import Batteries.Lean.Except
import Mathlib.Data.List.Nodup
import Mathlib.Data.List.Range
import Mathlib.Data.Nat.Choose.Basic

set_option linter.unusedSectionVars false
set_option linter.unusedVariables false

namespace PCV
namespace C15Spec
open PCV.MV

/-- prepend `x_v^e` (nothing for `e = 0`) -/
def consPow (v e : Nat) (t : Term) : Term := if e = 0 then t else (v, e) :: t

/-- the monomials of total degree exactly `k` in the `c` variables `lo, …, lo+c−1`, highest power
of the lowest variable first (the order in which `Combinations` yields the multisets) -/
def termsExact : Nat → Nat → Nat → List Term
  | 0, _, 0 => [[]]
  | 0, _, _ + 1 => []
  | c + 1, lo, k =>
    ((List.range (k + 1)).reverse).flatMap (fun e => (termsExact c (lo + 1) (k - e)).map (consPow lo e))

/-- degrees `1, …, D` in turn, then the constant monomial -/
def specTerms (nv D : Nat) : List Term :=
  (List.range' 1 D).flatMap (fun k => termsExact nv 0 k) ++ [[]]

/-- the monomials over variables `lo ≤ v < hi` of degree `k`, as a predicate -/
def IsMono (lo hi k : Nat) (t : Term) : Prop :=
  Term.wf t = true ∧ Term.degree t = k ∧ ∀ q ∈ t, lo ≤ q.1 ∧ q.1 < hi

theorem Term.eq_nil_of_degree_zero {t : Term} (hwf : Term.wf t = true) (hd : Term.degree t = 0) :
    t = [] := by
  cases t with
  | nil => rfl
  | cons q t => have := Term.wf_head_pos hwf; simp only [Term.degree] at hd; omega

theorem mem_termsExact (c lo k : Nat) (t : Term) :
    t ∈ termsExact c lo k ↔ IsMono lo (lo + c) k t := by
  induction c generalizing lo k t with
  | zero =>
    have hnil : (∀ q ∈ t, lo ≤ q.1 ∧ q.1 < lo + 0) → t = [] := by
      intro h
      cases t with
      | nil => rfl
      | cons q t => have := h q (by simp); omega
    cases k with
    | zero =>
      simp only [termsExact, List.mem_singleton, IsMono]
      constructor
      · rintro rfl; exact ⟨rfl, rfl, fun q hq => by cases hq⟩
      · rintro ⟨_, _, h⟩; exact hnil h
    | succ k =>
      simp only [termsExact, List.not_mem_nil, IsMono, false_iff]
      rintro ⟨_, hd, h⟩
      rw [hnil h] at hd
      simp [Term.degree] at hd
  | succ c ih =>
    simp only [termsExact, List.mem_flatMap, List.mem_reverse, List.mem_range, List.mem_map]
    constructor
    · rintro ⟨e, he, t', ht', rfl⟩
      obtain ⟨hwf, hd, hv⟩ := (ih (lo + 1) (k - e) t').1 ht'
      unfold consPow
      split
      · rename_i he0
        subst he0
        exact ⟨hwf, by simpa using hd, fun q hq => by have := hv q hq; omega⟩
      · rename_i he0
        refine ⟨Term.wf_cons he0 hwf (fun r hr => by have := hv r hr; simp only; omega), ?_, ?_⟩
        · simp only [Term.degree, hd]; omega
        · intro q hq
          rcases List.mem_cons.1 hq with rfl | hq
          · simp only; omega
          · have := hv q hq; omega
    · rintro ⟨hwf, hd, hv⟩
      by_cases hhead : ∃ e t', t = (lo, e) :: t'
      · obtain ⟨e, t', rfl⟩ := hhead
        have he0 : e ≠ 0 := Term.wf_head_pos hwf
        simp only [Term.degree] at hd
        refine ⟨e, by omega, t', ?_, by simp [consPow, he0]⟩
        apply (ih (lo + 1) (k - e) t').2
        refine ⟨Term.wf_tail hwf, by omega, fun q hq => ?_⟩
        have h1 := Term.wf_head_lt hwf q hq
        have h2 := hv q (List.mem_cons_of_mem _ hq)
        simp only at h1
        omega
      · refine ⟨0, by omega, t, ?_, by simp [consPow]⟩
        apply (ih (lo + 1) (k - 0) t).2
        refine ⟨hwf, by simpa using hd, ?_⟩
        cases t with
        | nil => intro q hq; cases hq
        | cons a t' =>
          have ha := hv a (by simp)
          have hne : a.1 ≠ lo := by
            intro h
            exact hhead ⟨a.2, t', by rw [← h]⟩
          intro q hq
          rcases List.mem_cons.1 hq with rfl | hq
          · omega
          · have h1 := Term.wf_head_lt hwf q hq
            have h2 := hv q (List.mem_cons_of_mem _ hq)
            omega

theorem find?_consPow {lo e : Nat} {t : Term} (h : ∀ q ∈ t, q.1 ≠ lo) :
    Term.find? lo (consPow lo e t) = if e = 0 then none else some e := by
  unfold consPow
  split
  · induction t with
    | nil => rfl
    | cons q t ih =>
      simp only [Term.find?]
      rw [if_neg (h q (by simp))]
      exact ih (fun r hr => h r (by simp [hr]))
  · simp [Term.find?]

theorem consPow_injective (lo e : Nat) : Function.Injective (consPow lo e) := by
  intro a b h
  unfold consPow at h
  split at h
  · exact h
  · exact List.tail_eq_of_cons_eq h

theorem nodup_termsExact (c lo k : Nat) : (termsExact c lo k).Nodup := by
  induction c generalizing lo k with
  | zero => cases k <;> simp [termsExact]
  | succ c ih =>
    simp only [termsExact]
    rw [List.nodup_flatMap]
    refine ⟨fun e _ => (ih (lo + 1) (k - e)).map (consPow_injective lo e), ?_⟩
    have hnd : ((List.range (k + 1)).reverse).Nodup := List.nodup_reverse.2 (List.nodup_range)
    refine (List.Nodup.pairwise_of_forall_ne hnd ?_)
    intro e1 _ e2 _ hne
    simp only [Function.onFun]
    rw [List.disjoint_left]
    intro t h1 h2
    simp only [List.mem_map] at h1 h2
    obtain ⟨t1, ht1, rfl⟩ := h1
    obtain ⟨t2, ht2, heq⟩ := h2
    have hv1 := ((mem_termsExact c (lo + 1) (k - e1) t1).1 ht1).2.2
    have hv2 := ((mem_termsExact c (lo + 1) (k - e2) t2).1 ht2).2.2
    have f1 := find?_consPow (lo := lo) (e := e1) (t := t1) (fun q hq => by have := hv1 q hq; omega)
    have f2 := find?_consPow (lo := lo) (e := e2) (t := t2) (fun q hq => by have := hv2 q hq; omega)
    rw [← heq, f2] at f1
    by_cases h10 : e1 = 0 <;> by_cases h20 : e2 = 0 <;> simp_all

theorem mem_specTerms (nv D : Nat) (t : Term) :
    t ∈ specTerms nv D ↔ (Term.wf t = true ∧ Term.varsBelow nv t = true ∧ Term.degree t ≤ D) := by
  have hvb : Term.varsBelow nv t = true ↔ ∀ q ∈ t, 0 ≤ q.1 ∧ q.1 < 0 + nv := by
    simp [Term.varsBelow]
  simp only [specTerms, List.mem_append, List.mem_flatMap, List.mem_range'_1, List.mem_singleton,
    mem_termsExact, IsMono]
  constructor
  · rintro (⟨k, hk, hwf, hd, hv⟩ | rfl)
    · exact ⟨hwf, hvb.2 hv, by omega⟩
    · exact ⟨rfl, rfl, by simp [Term.degree]⟩
  · rintro ⟨hwf, hv, hd⟩
    by_cases h0 : Term.degree t = 0
    · exact Or.inr (Term.eq_nil_of_degree_zero hwf h0)
    · exact Or.inl ⟨Term.degree t, by omega, hwf, rfl, hvb.1 hv⟩

theorem nodup_specTerms (nv D : Nat) : (specTerms nv D).Nodup := by
  unfold specTerms
  rw [List.nodup_append]
  refine ⟨?_, by simp, ?_⟩
  · rw [List.nodup_flatMap]
    refine ⟨fun k _ => nodup_termsExact nv 0 k, ?_⟩
    refine (List.Nodup.pairwise_of_forall_ne (List.nodup_range' 1 (by omega)) ?_)
    intro k1 _ k2 _ hne
    simp only [Function.onFun]
    rw [List.disjoint_left]
    intro t h1 h2
    have d1 := ((mem_termsExact nv 0 k1 t).1 h1).2.1
    have d2 := ((mem_termsExact nv 0 k2 t).1 h2).2.1
    omega
  · intro a ha b hb
    simp only [List.mem_singleton] at hb
    subst hb
    simp only [List.mem_flatMap, List.mem_range'_1] at ha
    obtain ⟨k, hk, hm⟩ := ha
    intro hab
    subst hab
    have := ((mem_termsExact nv 0 k _).1 hm).2.1
    simp only [Term.degree] at this
    omega

end C15Spec
end PCV
