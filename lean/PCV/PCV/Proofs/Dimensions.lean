/-
  PCV.Proofs.Dimensions — the coefficient-matrix shape: coverage, tightness and the factor-4
  balancing inequality against every alternative row count.
-/
import PCV.Model.Dimensions
import PCV.Proofs.CalcT
import Mathlib.Tactic.NormNum

namespace PCV
namespace LinCode

/-! ### ceilings -/

theorem ceilDiv_mul_ge (x y : Nat) (hy : 0 < y) : x ≤ ceilDiv x y * y := by
  unfold ceilDiv
  have h := Nat.div_add_mod (x + y - 1) y
  have h2 := Nat.mod_lt (x + y - 1) hy
  have : y * ((x + y - 1) / y) = (x + y - 1) / y * y := Nat.mul_comm _ _
  omega

theorem ceilDiv_le_of_le_mul (x y k : Nat) (hy : 0 < y) (h : x ≤ k * y) : ceilDiv x y ≤ k := by
  unfold ceilDiv
  apply Nat.le_of_lt_succ
  rw [Nat.div_lt_iff_lt_mul hy]
  have : k.succ * y = k * y + y := Nat.succ_mul k y
  omega

theorem ceilDiv_pos (x y : Nat) (hx : 0 < x) (hy : 0 < y) : 0 < ceilDiv x y := by
  unfold ceilDiv
  exact Nat.div_pos (by omega) hy

/-- `⌈x/y⌉·y < x + y` -/
theorem ceilDiv_mul_lt (x y : Nat) (hy : 0 < y) : ceilDiv x y * y < x + y := by
  unfold ceilDiv
  have h := Nat.div_add_mod (x + y - 1) y
  have : y * ((x + y - 1) / y) = (x + y - 1) / y * y := Nat.mul_comm _ _
  omega

/-! ### `ceilSqrt`, `clog2` -/

theorem ceilSqrt_spec (c : Nat) :
    c ≤ ceilSqrt c * ceilSqrt c ∧ ∀ k, k < ceilSqrt c → k * k < c := by
  unfold ceilSqrt
  have hex : findFrom (fun s => decide (c ≤ s * s)) (c + 1) 0 ≠ none := by
    intro hn
    have := findFrom_none _ _ _ hn c (Nat.zero_le _) (by omega)
    simp only [decide_eq_false_iff_not, not_le] at this
    rcases Nat.eq_zero_or_pos c with h0 | hpos
    · subst h0; simp at this
    · have : c * 1 ≤ c * c := Nat.mul_le_mul_left _ hpos
      omega
  cases hf : findFrom (fun s => decide (c ≤ s * s)) (c + 1) 0 with
  | none => exact absurd hf hex
  | some s =>
    obtain ⟨_, _, h3, h4⟩ := findFrom_some _ _ _ _ hf
    simp only [Option.getD_some]
    refine ⟨by simpa using h3, fun k hk => ?_⟩
    have := h4 k (Nat.zero_le _) hk
    simpa using this

theorem clog2_spec (x : Nat) : x ≤ 2 ^ clog2 x ∧ ∀ k, k < clog2 x → 2 ^ k < x := by
  unfold clog2
  have hex : findFrom (fun k => decide (x ≤ 2 ^ k)) (x + 1) 0 ≠ none := by
    intro hn
    have := findFrom_none _ _ _ hn x (Nat.zero_le _) (by omega)
    simp only [decide_eq_false_iff_not, not_le] at this
    have := Nat.lt_two_pow_self (n := x)
    omega
  cases hf : findFrom (fun k => decide (x ≤ 2 ^ k)) (x + 1) 0 with
  | none => exact absurd hf hex
  | some s =>
    obtain ⟨_, _, h3, h4⟩ := findFrom_some _ _ _ _ hf
    simp only [Option.getD_some]
    refine ⟨by simpa using h3, fun k hk => ?_⟩
    have := h4 k (Nat.zero_le _) hk
    simpa using this

/-! ### the shape -/

theorem dimN_pos (N t : Nat) : 0 < dimN N t := Nat.pow_pos (by omega)

/-- the matrix has room for all `N` coefficients -/
theorem dims_cover (N t : Nat) : N ≤ (computeDimensions N t).1 * (computeDimensions N t).2 := by
  unfold computeDimensions
  simp only
  rw [Nat.mul_comm]
  exact ceilDiv_mul_ge N _ (dimN_pos N t)

/-- no superfluous column: `(m − 1)·n < N` -/
theorem dims_tight (N t : Nat) (hN : 0 < N) :
    ((computeDimensions N t).2 - 1) * (computeDimensions N t).1 < N := by
  unfold computeDimensions
  simp only
  have h := ceilDiv_mul_lt N (dimN N t) (dimN_pos N t)
  have hp := ceilDiv_pos N (dimN N t) hN (dimN_pos N t)
  have : (ceilDiv N (dimN N t) - 1) * dimN N t + dimN N t = ceilDiv N (dimN N t) * dimN N t := by
    obtain ⟨k, hk⟩ : ∃ k, ceilDiv N (dimN N t) = k + 1 := ⟨_, (Nat.succ_pred_eq_of_pos hp).symm⟩
    rw [hk]; simp; ring
  omega

/-- `n` is at least the balanced value: `2N ≤ t·n²` -/
theorem dimN_sq_ge (N t : Nat) (ht : 0 < t) : 2 * N ≤ t * (dimN N t * dimN N t) := by
  unfold dimN
  set C := ceilDiv (2 * N) t with hC
  have h1 : 2 * N ≤ C * t := ceilDiv_mul_ge _ _ ht
  have h2 : C ≤ ceilSqrt C * ceilSqrt C := (ceilSqrt_spec C).1
  have h3 : ceilSqrt C ≤ 2 ^ clog2 (ceilSqrt C) := (clog2_spec _).1
  calc 2 * N ≤ C * t := h1
    _ ≤ (ceilSqrt C * ceilSqrt C) * t := Nat.mul_le_mul_right _ h2
    _ ≤ (2 ^ clog2 (ceilSqrt C) * 2 ^ clog2 (ceilSqrt C)) * t :=
        Nat.mul_le_mul_right _ (Nat.mul_le_mul h3 h3)
    _ = t * (2 ^ clog2 (ceilSqrt C) * 2 ^ clog2 (ceilSqrt C)) := Nat.mul_comm _ _

/-- `n` is less than twice the balanced value: for `n ≥ 2`, `t·(n/2)² < 2N`  (`n = 2h`) -/
theorem dimN_half_sq_lt (N t h : Nat) (ht : 0 < t) (hn : dimN N t = 2 * h) (_hh : 0 < h) :
    t * (h * h) < 2 * N := by
  unfold dimN at hn
  set C := ceilDiv (2 * N) t with hC
  set s := ceilSqrt C with hs
  -- clog2 s ≥ 1 and 2^(clog2 s - 1) = h < s
  have hk : 0 < clog2 s := by
    by_contra h0
    have : clog2 s = 0 := by omega
    rw [this] at hn; omega
  obtain ⟨k, hk'⟩ : ∃ k, clog2 s = k + 1 := ⟨_, (Nat.succ_pred_eq_of_pos hk).symm⟩
  rw [hk', pow_succ] at hn
  have hh2 : h = 2 ^ k := by omega
  have hlt : 2 ^ k < s := (clog2_spec s).2 k (by omega)
  have hsq : h * h < C := (ceilSqrt_spec C).2 h (by omega)
  -- C - 1 < 2N / t
  have hC2 : C * t < 2 * N + t := ceilDiv_mul_lt _ _ ht
  have : (h * h + 1) * t ≤ C * t := Nat.mul_le_mul_right _ hsq
  have e : (h * h + 1) * t = t * (h * h) + t := by ring
  omega

/-! ### the chosen shape is within a factor 4 of every other shape -/

theorem two_ceilDiv_le (N n t : Nat) (hn : 0 < n) (h : 2 * N ≤ t * (n * n)) :
    2 * ceilDiv N n ≤ t * n + 1 := by
  -- ⌈N/n⌉ ≤ ⌈t n / 2⌉
  have : ceilDiv N n ≤ (t * n + 1) / 2 := by
    apply ceilDiv_le_of_le_mul _ _ _ hn
    have h1 := Nat.div_add_mod (t * n + 1) 2
    have h2 := Nat.mod_lt (t * n + 1) (show 0 < 2 by omega)
    -- 2 * ((tn+1)/2) ≥ t n
    have h3 : t * n ≤ 2 * ((t * n + 1) / 2) := by omega
    have h4 : t * n * n ≤ 2 * ((t * n + 1) / 2) * n := Nat.mul_le_mul_right _ h3
    have e1 : t * (n * n) = t * n * n := by ring
    have e2 : 2 * ((t * n + 1) / 2) * n = 2 * ((t * n + 1) / 2 * n) := by ring
    omega
  have h1 := Nat.div_add_mod (t * n + 1) 2
  omega

/-- **Dimension balancing, with the well-formedness vector (`c = 2`).**  For every alternative
number of rows `n′ ≥ 1` (in particular every power of two) the cost `t·n + 2·⌈N/n⌉` of the chosen
shape is at most four times the cost of `n′`. -/
theorem cost_le_four_mul_c2 (N t n' : Nat) (hN : 0 < N) (ht : 0 < t) (hn' : 0 < n') :
    proofCost N t 2 (dimN N t) ≤ 4 * proofCost N t 2 n' := by
  unfold proofCost
  have hn := dimN_pos N t
  have hsq := dimN_sq_ge N t ht
  have hup := two_ceilDiv_le N (dimN N t) t hn hsq
  have hc' : 0 < ceilDiv N n' := ceilDiv_pos N n' hN hn'
  by_cases hcase : dimN N t ≤ 2 * n'
  · have : t * dimN N t ≤ t * (2 * n') := Nat.mul_le_mul_left _ hcase
    have e : t * (2 * n') = 2 * (t * n') := by ring
    omega
  · -- n = 2h with n' < h
    have hpow : ∃ h, dimN N t = 2 * h ∧ 0 < h := by
      unfold dimN at hcase ⊢
      cases hk : clog2 (ceilSqrt (ceilDiv (2 * N) t)) with
      | zero => rw [hk] at hcase; simp at hcase; omega
      | succ k => exact ⟨2 ^ k, by rw [pow_succ]; ring, Nat.pow_pos (by omega)⟩
    obtain ⟨h, hh, hhpos⟩ := hpow
    have hlt := dimN_half_sq_lt N t h ht hh hhpos
    rw [hh] at hcase hup ⊢
    have hn'h : n' < h := by omega
    -- 2 t h n' < 2 t h h... and N ≤ ⌈N/n'⌉ n'
    have hcov : N ≤ ceilDiv N n' * n' := ceilDiv_mul_ge N n' hn'
    -- t h h < 2N ≤ 2 ⌈N/n'⌉ n' ≤ 2 ⌈N/n'⌉ (h - 1)  ⇒  t h < 2 ⌈N/n'⌉
    have key : t * h < 2 * ceilDiv N n' := by
      by_contra hcon
      have hcon : 2 * ceilDiv N n' ≤ t * h := by omega
      have h1 : 2 * ceilDiv N n' * n' ≤ t * h * n' := Nat.mul_le_mul_right _ hcon
      have h2 : t * h * n' ≤ t * h * h := Nat.mul_le_mul_left _ (by omega)
      have e1 : t * h * h = t * (h * h) := by ring
      have e2 : 2 * ceilDiv N n' * n' = 2 * (ceilDiv N n' * n') := by ring
      omega
    have e : t * (2 * h) = 2 * (t * h) := by ring
    omega

/-- **Dimension balancing, without the well-formedness vector (`c = 1`).** -/
theorem cost_le_four_mul_c1 (N t n' : Nat) (hN : 0 < N) (ht : 0 < t) (hn' : 0 < n') :
    proofCost N t 1 (dimN N t) ≤ 4 * proofCost N t 1 n' := by
  unfold proofCost
  have hn := dimN_pos N t
  have hsq := dimN_sq_ge N t ht
  have hup := two_ceilDiv_le N (dimN N t) t hn hsq
  have hc' : 0 < ceilDiv N n' := ceilDiv_pos N n' hN hn'
  by_cases hcase : dimN N t ≤ 2 * n'
  · have : t * dimN N t ≤ t * (2 * n') := Nat.mul_le_mul_left _ hcase
    have e : t * (2 * n') = 2 * (t * n') := by ring
    omega
  · have hpow : ∃ h, dimN N t = 2 * h ∧ 0 < h := by
      unfold dimN at hcase ⊢
      cases hk : clog2 (ceilSqrt (ceilDiv (2 * N) t)) with
      | zero => rw [hk] at hcase; simp at hcase; omega
      | succ k => exact ⟨2 ^ k, by rw [pow_succ]; ring, Nat.pow_pos (by omega)⟩
    obtain ⟨h, hh, hhpos⟩ := hpow
    have hlt := dimN_half_sq_lt N t h ht hh hhpos
    rw [hh] at hcase hup ⊢
    have hn'h : n' < h := by omega
    have hcov : N ≤ ceilDiv N n' * n' := ceilDiv_mul_ge N n' hn'
    -- LHS ≤ 3 t h + 1/2; show 3 t h + 1 ≤ 4 t n' + 4 ⌈N/n'⌉ after multiplying by n'
    set c := ceilDiv N n' with hcdef
    -- 4 c n' ≥ 4 N ≥ 2 t h h + 2
    have h4 : 2 * (t * (h * h)) + 2 ≤ 4 * (c * n') := by omega
    -- (2 n' - h)^2 ≥ 0  ⇒  3 h n' ≤ 4 n' n' + 2 h h  (since 4 h n' ≤ 4 n'^2 + h^2)
    have hsqz : 3 * (h * n') ≤ 4 * (n' * n') + h * h := by
      nlinarith [sq_nonneg ((2 * n' : ℤ) - h), sq_nonneg (h : ℤ)]
    -- multiply target by n' > 0
    have goal' : (3 * (t * h) + 1) * n' ≤ (4 * (t * n') + 4 * c) * n' := by
      have e1 : (4 * (t * n') + 4 * c) * n' = 4 * t * (n' * n') + 4 * (c * n') := by ring
      have e2 : (3 * (t * h) + 1) * n' = t * (3 * (h * n')) + n' := by ring
      have h5 : t * (3 * (h * n')) ≤ t * (4 * (n' * n') + h * h) := Nat.mul_le_mul_left _ hsqz
      have e3 : t * (4 * (n' * n') + h * h) = 4 * t * (n' * n') + t * (h * h) := by ring
      have h6 : n' ≤ h * h := by
        calc n' ≤ h := by omega
          _ = h * 1 := by ring
          _ ≤ h * h := Nat.mul_le_mul_left _ hhpos
      have h7 : h * h ≤ t * (h * h) := Nat.le_mul_of_pos_left _ ht
      omega
    have goal'' := Nat.le_of_mul_le_mul_right goal' hn'
    have e : t * (2 * h) = 2 * (t * h) := by ring
    omega

end LinCode
end PCV
