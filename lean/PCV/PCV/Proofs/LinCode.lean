/-
  PCV.Proofs.LinCode — algebra of the linear-code PCS: row combinations commute with a linear
  encoder (`col_inner_product`), the univariate and multilinear `tensor` identities
  `p(z) = bᵀ·M·a`, and the shape of the coefficient matrix.
-/
import PCV.Model.LinCode
import PCV.Proofs.Poly
import PCV.Proofs.Merkle

namespace PCV
namespace LinCode
open Merkle
variable {F : Type} [Field F]
set_option linter.unusedSectionVars false

/-! ### vectors -/

/-- entrywise sum (truncating like `zip`) -/
def vadd (x y : List F) : List F := List.zipWith (· + ·) x y
/-- scalar multiple -/
def vscale (c : F) (x : List F) : List F := x.map (c * ·)

/-- **Linear encoder** for messages of length `m` with codewords of length `k`:
additive, homogeneous, of the declared output length. -/
structure IsLinear (E : List F → List F) (m k : Nat) : Prop where
  add : ∀ x y, x.length = m → y.length = m → E (vadd x y) = vadd (E x) (E y)
  smul : ∀ c x, x.length = m → E (vscale c x) = vscale c (E x)
  len : ∀ x, x.length = m → (E x).length = k

@[simp] theorem vadd_length (x y : List F) : (vadd x y).length = min x.length y.length := by
  simp [vadd]
@[simp] theorem vscale_length (c : F) (x : List F) : (vscale c x).length = x.length := by
  simp [vscale]

theorem vscale_zero (x : List F) : vscale 0 x = List.replicate x.length 0 := by
  induction x with
  | nil => rfl
  | cons a x ih => simp [vscale, List.replicate_succ] at ih ⊢; exact ih

theorem IsLinear.map_zero {E : List F → List F} {m k : Nat} (h : IsLinear E m k) :
    E (List.replicate m 0) = List.replicate k 0 := by
  have h1 := h.smul 0 (List.replicate m 0) (by simp)
  rw [vscale_zero, vscale_zero, List.length_replicate, h.len _ (by simp)] at h1
  exact h1

theorem dot_replicate_zero (k : Nat) (a : List F) : dot (List.replicate k (0 : F)) a = 0 := by
  induction k generalizing a with
  | zero => simp
  | succ k ih => cases a with
    | nil => simp
    | cons x a => simp [List.replicate_succ, ih]

theorem dot_vscale (c : F) (x a : List F) : dot (vscale c x) a = c * dot x a := by
  induction x generalizing a with
  | nil => simp [vscale]
  | cons u x ih => cases a with
    | nil => simp
    | cons v a =>
      simp only [vscale, List.map_cons, dot_cons] at ih ⊢
      rw [ih]; ring

theorem dot_vadd (x y a : List F) (h : x.length = y.length) :
    dot (vadd x y) a = dot x a + dot y a := by
  induction x generalizing y a with
  | nil => cases y with
    | nil => simp [vadd]
    | cons v y => simp at h
  | cons u x ih => cases y with
    | nil => simp at h
    | cons v y => cases a with
      | nil => simp
      | cons w a =>
        simp only [vadd, List.zipWith_cons_cons, dot_cons] at ih ⊢
        rw [ih y a (by simpa using h)]; ring

theorem getD'_vadd (x y : List F) (j : Nat) (hx : j < x.length) (hy : j < y.length) :
    getD' (vadd x y) j 0 = getD' x j 0 + getD' y j 0 := by
  simp [getD', vadd, List.getElem?_zipWith, List.getElem?_eq_getElem hx, List.getElem?_eq_getElem hy]

theorem getD'_vscale (c : F) (x : List F) (j : Nat) :
    getD' (vscale c x) j 0 = c * getD' x j 0 := by
  unfold getD' vscale
  rw [List.getElem?_map]
  cases x[j]? <;> simp

/-! ### row combinations -/

/-- `Σ bᵢ·rowᵢ` over rows of length `m` -/
def combo : List F → List (List F) → Nat → List F
  | b :: bs, r :: rs, m => vadd (vscale b r) (combo bs rs m)
  | _, _, m => List.replicate m 0

theorem combo_length (b : List F) (rows : List (List F)) (m : Nat)
    (hr : ∀ r ∈ rows, r.length = m) : (combo b rows m).length = m := by
  induction b generalizing rows with
  | nil => simp [combo]
  | cons x b ih => cases rows with
    | nil => simp [combo]
    | cons r rs =>
      simp only [combo, vadd_length, vscale_length]
      rw [ih rs (fun r' h' => hr r' (by simp [h'])), hr r (by simp)]; simp

theorem range_map_getD' (r : List F) : (List.range r.length).map (fun j => getD' r j 0) = r := by
  apply List.ext_getElem
  · simp
  · intro i h1 h2
    simp [getD', List.getElem?_eq_getElem h2]

theorem vecMat_nil_left (rows : List (List F)) (m : Nat) :
    vecMat ([] : List F) rows m = List.replicate m 0 := by
  unfold vecMat
  apply List.ext_getElem <;> simp

theorem vecMat_nil_right (b : List F) (m : Nat) :
    vecMat b ([] : List (List F)) m = List.replicate m 0 := by
  unfold vecMat
  apply List.ext_getElem <;> simp [colOf]

theorem vecMat_cons (x : F) (b : List F) (r : List F) (rs : List (List F)) :
    vecMat (x :: b) (r :: rs) r.length = vadd (vscale x r) (vecMat b rs r.length) := by
  unfold vecMat vadd vscale colOf
  apply List.ext_getElem
  · simp
  · intro i h1 h2
    simp at h1
    simp [getD', h1]

/-- `b·M` is the `b`-combination of the rows of `M` -/
theorem vecMat_eq_combo (b : List F) (rows : List (List F)) (m : Nat)
    (hr : ∀ r ∈ rows, r.length = m) : vecMat b rows m = combo b rows m := by
  induction b generalizing rows with
  | nil => simp [combo, vecMat_nil_left]
  | cons x b ih => cases rows with
    | nil => simp [combo, vecMat_nil_right]
    | cons r rs =>
      have hm : r.length = m := hr r (by simp)
      subst hm
      rw [vecMat_cons, combo, ih rs (fun r' h' => hr r' (by simp [h']))]

theorem vecMat_length (b : List F) (rows : List (List F)) (m : Nat) :
    (vecMat b rows m).length = m := by simp [vecMat]

theorem getD'_vecMat (b : List F) (rows : List (List F)) (m j : Nat) (hj : j < m) :
    getD' (vecMat b rows m) j 0 = dot b (colOf rows j) := by
  simp [getD', vecMat, hj]

/-- a linear encoder commutes with row combinations -/
theorem encode_combo {E : List F → List F} {m k : Nat} (hE : IsLinear E m k) (b : List F)
    (rows : List (List F)) (hr : ∀ r ∈ rows, r.length = m) :
    E (combo b rows m) = combo b (rows.map E) k := by
  induction b generalizing rows with
  | nil => simp [combo, hE.map_zero]
  | cons x b ih => cases rows with
    | nil => simp [combo, hE.map_zero]
    | cons r rs =>
      have hrs : ∀ r' ∈ rs, r'.length = m := fun r' h' => hr r' (by simp [h'])
      simp only [combo, List.map_cons]
      rw [hE.add _ _ (by simp [hr r (by simp)]) (combo_length b rs m hrs),
        hE.smul x r (hr r (by simp)), ih rs hrs]

/-- **`col_inner_product`.**  For a linear encoder `E` and a matrix with rows of length `m`:
the `b`-combination of column `j` of the row-wise encoded matrix is entry `j` of the encoding of
`b·M`:  `⟨b, col_j(E∘rows M)⟩ = E(b·M)[j]`. -/
theorem col_inner_product {E : List F → List F} {m k : Nat} (hE : IsLinear E m k) (b : List F)
    (rows : List (List F)) (hr : ∀ r ∈ rows, r.length = m) (j : Nat) (hj : j < k) :
    dot b (colOf (rows.map E) j) = getD' (E (vecMat b rows m)) j 0 := by
  have hr' : ∀ r ∈ rows.map E, r.length = k := by
    intro r h
    obtain ⟨r0, h0, rfl⟩ := List.mem_map.1 h
    exact hE.len r0 (hr r0 h0)
  rw [vecMat_eq_combo b rows m hr, encode_combo hE b rows hr, ← vecMat_eq_combo b _ k hr',
    getD'_vecMat _ _ _ _ hj]

/-- `⟨b·M, a⟩ = Σᵢ bᵢ·⟨rowᵢ, a⟩` -/
theorem dot_vecMat (b a : List F) (rows : List (List F)) (m : Nat)
    (hr : ∀ r ∈ rows, r.length = m) :
    dot (vecMat b rows m) a = dot b (rows.map (fun r => dot r a)) := by
  rw [vecMat_eq_combo b rows m hr]
  induction b generalizing rows with
  | nil => simp [combo, dot_replicate_zero]
  | cons x b ih => cases rows with
    | nil => simp [combo, dot_replicate_zero]
    | cons r rs =>
      have hrs : ∀ r' ∈ rs, r'.length = m := fun r' h' => hr r' (by simp [h'])
      simp only [combo, List.map_cons, dot_cons]
      rw [dot_vadd _ _ _ (by simp [hr r (by simp), combo_length b rs m hrs]), dot_vscale, ih rs hrs]

/-! ### chunks / the coefficient matrix -/

theorem chunks_length (m n : Nat) (flat : List F) : (chunks m n flat).length = n := by
  induction n generalizing flat with
  | zero => rfl
  | succ n ih => simp [chunks, ih]

theorem chunks_row_length (m n : Nat) (flat : List F) (h : flat.length = n * m) :
    ∀ r ∈ chunks m n flat, r.length = m := by
  induction n generalizing flat with
  | zero => simp [chunks]
  | succ n ih =>
    intro r hr
    simp only [chunks, List.mem_cons] at hr
    have hm : m ≤ flat.length := by rw [h, Nat.succ_mul]; omega
    rcases hr with rfl | hr
    · simp [hm]
    · exact ih (flat.drop m) (by simp [h, Nat.succ_mul]) r hr

theorem resize_length (k : Nat) (l : List F) : (resize k l).length = k := by
  simp [resize]; omega

theorem coeffMat_n (dims : Nat → Nat × Nat) (coeffs : List F) :
    (coeffMat dims coeffs).n = (dims (coeffsOrZero coeffs).length).1 := rfl
theorem coeffMat_m (dims : Nat → Nat × Nat) (coeffs : List F) :
    (coeffMat dims coeffs).m = (dims (coeffsOrZero coeffs).length).2 := rfl

theorem coeffMat_rows_length (dims : Nat → Nat × Nat) (coeffs : List F) :
    (coeffMat dims coeffs).rows.length = (coeffMat dims coeffs).n := by
  simp [coeffMat, Mat.ofFlat, chunks_length]

theorem coeffMat_row_length (dims : Nat → Nat × Nat) (coeffs : List F) :
    ∀ r ∈ (coeffMat dims coeffs).rows, r.length = (coeffMat dims coeffs).m := by
  simp only [coeffMat, Mat.ofFlat]
  exact chunks_row_length _ _ _ (resize_length _ _)

/-! ### univariate tensor -/

theorem evalPoly_append (x y : List F) (z : F) :
    evalPoly (x ++ y) z = evalPoly x z + fpow z x.length * evalPoly y z := by
  induction x with
  | nil => simp [fpow]
  | cons c x ih => simp only [List.cons_append, evalPoly_cons, ih, List.length_cons, fpow]; ring

theorem evalPoly_replicate_zero (k : Nat) (z : F) : evalPoly (List.replicate k (0 : F)) z = 0 := by
  induction k with
  | zero => rfl
  | succ k ih => simp [List.replicate_succ, ih]

theorem evalPoly_resize (k : Nat) (l : List F) (z : F) (h : l.length ≤ k) :
    evalPoly (resize k l) z = evalPoly l z := by
  unfold resize
  rw [List.take_of_length_le h, evalPoly_append, evalPoly_replicate_zero]; ring

theorem evalPoly_coeffsOrZero (coeffs : List F) (z : F) :
    evalPoly (coeffsOrZero coeffs) z = evalPoly coeffs z := by
  unfold coeffsOrZero
  cases coeffs <;> simp

/-- `Σᵢ g·yⁱ·rowᵢ(z) = g·p(z)` for `y = z^m` and the rows the chunks of `p` -/
theorem dot_powers_chunks (m n : Nat) (flat : List F) (g z : F) (h : flat.length = n * m) :
    dot (powers g (fpow z m) n) ((chunks m n flat).map (fun r => evalPoly r z))
      = g * evalPoly flat z := by
  induction n generalizing flat g with
  | zero =>
    have : flat = [] := by simpa using h
    subst this; simp [powers, chunks]
  | succ n ih =>
    have hm : m ≤ flat.length := by rw [h, Nat.succ_mul]; omega
    simp only [powers, chunks, List.map_cons, dot_cons]
    rw [ih (flat.drop m) (fpow z m * g) (by simp [h, Nat.succ_mul])]
    conv_rhs => rw [← List.take_append_drop m flat, evalPoly_append]
    simp only [List.length_take, Nat.min_eq_left hm]
    ring

/-- **`univariate_tensor_eval`.**  For every coefficient list and every `n × m` shape that holds it
(zero padded, row-major), with `(a, b) = tensor(z, m, n)`:  `p(z) = ⟨b·M, a⟩ = bᵀ·M·a`. -/
theorem univariate_tensor_eval (coeffs : List F) (n m : Nat) (z : F) (h : coeffs.length ≤ n * m) :
    dot (vecMat (tensorUni z m n).2 (Mat.ofFlat n m (resize (n * m) coeffs)).rows m)
      (tensorUni z m n).1 = evalPoly coeffs z := by
  have hrow := chunks_row_length m n (resize (n * m) coeffs) (resize_length _ _)
  simp only [Mat.ofFlat, tensorUni]
  rw [dot_vecMat _ _ _ m hrow]
  have : (chunks m n (resize (n * m) coeffs)).map (fun r => dot r (powers 1 z m))
      = (chunks m n (resize (n * m) coeffs)).map (fun r => evalPoly r z) := by
    apply List.map_congr_left
    intro r hr
    rw [dot_powers r 1 z m (by rw [hrow r hr]), one_mul]
  rw [this, dot_powers_chunks m n _ 1 z (resize_length _ _), one_mul, evalPoly_resize _ _ _ h]

/-! ### multilinear tensor -/

theorem tensorStep_length (layer : List F) (v : F) :
    (tensorStep layer v).length = 2 * layer.length := by
  simp [tensorStep]; omega

theorem foldl_tensorStep_length (vals : List F) (layer : List F) :
    (vals.foldl tensorStep layer).length = 2 ^ vals.length * layer.length := by
  induction vals generalizing layer with
  | nil => simp
  | cons v vs ih => simp only [List.foldl_cons, ih, tensorStep_length, List.length_cons, Nat.pow_succ]; ring

theorem tensorVec_length (vals : List F) : (tensorVec vals).length = 2 ^ vals.length := by
  simp [tensorVec, foldl_tensorStep_length]

/-- running `tensor_vec` from an arbitrary layer is the Kronecker product with the layer -/
theorem foldl_tensorStep (vals : List F) (L : List F) :
    vals.foldl tensorStep L = (tensorVec vals).flatMap (fun c => L.map (fun x => x * c)) := by
  induction vals generalizing L with
  | nil => simp [tensorVec]
  | cons v vs ih =>
    simp only [List.foldl_cons, tensorVec]
    rw [ih (tensorStep L v), ih (tensorStep [1] v), List.flatMap_assoc]
    congr 1
    funext c
    simp [tensorStep]

theorem tensorVec_append (l r : List F) :
    tensorVec (l ++ r) = (tensorVec r).flatMap (fun c => (tensorVec l).map (fun x => x * c)) := by
  unfold tensorVec
  rw [List.foldl_append, foldl_tensorStep]
  rfl

theorem tensorVec_cons (x : F) (xs : List F) :
    tensorVec (x :: xs) = (tensorVec xs).flatMap (fun c => [(1 - x) * c, x * c]) := by
  have := tensorVec_append [x] xs
  simpa [tensorVec, tensorStep] using this

theorem fixVar_length (r : F) (evals : List F) : (fixVar r evals).length = evals.length / 2 := by
  induction evals using Merkle.two_step with
  | h0 => simp [fixVar]
  | h1 a => simp [fixVar]
  | h2 a b rest ih => simp [fixVar, ih]; omega

theorem dot_fixVar (x : F) (T evals : List F) (h : evals.length = 2 * T.length) :
    dot evals (T.flatMap (fun c => [(1 - x) * c, x * c])) = dot (fixVar x evals) T := by
  induction T generalizing evals with
  | nil =>
    have : evals = [] := by simpa using h
    subst this; simp [fixVar]
  | cons c T ih =>
    match evals, h with
    | a :: b :: rest, h =>
      simp only [List.flatMap_cons, List.cons_append, List.nil_append, dot_cons, fixVar]
      rw [ih rest (by simp at h; omega)]
      ring

/-- `MultilinearExtension::evaluate` is the inner product with `tensor_vec(point)` -/
theorem evalMLE_eq_dot (evals pt : List F) (h : evals.length = 2 ^ pt.length) :
    evalMLE evals pt = dot evals (tensorVec pt) := by
  induction pt generalizing evals with
  | nil =>
    match evals, h with
    | [x], _ => simp [evalMLE, tensorVec]
  | cons x xs ih =>
    have hl : (fixVar x evals).length = 2 ^ xs.length := by
      rw [fixVar_length, h, List.length_cons, Nat.pow_succ]; omega
    have := ih (fixVar x evals) hl
    unfold evalMLE at this ⊢
    rw [List.foldl_cons, this, tensorVec_cons, dot_fixVar]
    rw [tensorVec_length, h, List.length_cons, Nat.pow_succ]; ring

theorem dot_append (x y u v : List F) (h : x.length = u.length) :
    dot (x ++ y) (u ++ v) = dot x u + dot y v := by
  induction x generalizing u with
  | nil => cases u with
    | nil => simp
    | cons a u => simp at h
  | cons a x ih => cases u with
    | nil => simp at h
    | cons b u =>
      simp only [List.cons_append, dot_cons]
      rw [ih u (by simpa using h)]; ring

theorem dot_map_mul_right (x A : List F) (c : F) :
    dot x (A.map (fun y => y * c)) = c * dot x A := by
  induction x generalizing A with
  | nil => simp
  | cons a x ih => cases A with
    | nil => simp
    | cons b A => simp only [List.map_cons, dot_cons, ih]; ring

/-- the flat inner product with a Kronecker product, row by row -/
theorem dot_kron (A B flat : List F) (h : flat.length = B.length * A.length) :
    dot flat (B.flatMap (fun c => A.map (fun x => x * c)))
      = dot B ((chunks A.length B.length flat).map (fun r => dot r A)) := by
  induction B generalizing flat with
  | nil => simp [chunks]
  | cons c B ih =>
    have hm : A.length ≤ flat.length := by rw [h, List.length_cons, Nat.succ_mul]; omega
    simp only [List.flatMap_cons, List.length_cons, chunks, List.map_cons, dot_cons]
    conv_lhs => rw [← List.take_append_drop A.length flat]
    rw [dot_append _ _ _ _ (by simp [hm]), dot_map_mul_right,
      ih (flat.drop A.length) (by simp [h, Nat.succ_mul])]

/-- **Multilinear tensor identity.**  For hypercube evaluations of a polynomial in `|pt|`
variables arranged row-major in `2^(|pt|−k)` rows of `2^k` entries, `a = tensor_vec(pt[..k])`,
`b = tensor_vec(pt[k..])`:  `f(pt) = ⟨b·M, a⟩ = bᵀ·M·a`. -/
theorem multilinear_tensor_eval (evals pt : List F) (k : Nat) (hk : k ≤ pt.length)
    (h : evals.length = 2 ^ pt.length) :
    dot (vecMat (tensorVec (pt.drop k)) (chunks (2 ^ k) (2 ^ (pt.length - k)) evals) (2 ^ k))
      (tensorVec (pt.take k)) = evalMLE evals pt := by
  have hA : (tensorVec (pt.take k)).length = 2 ^ k := by simp [tensorVec_length, hk]
  have hB : (tensorVec (pt.drop k)).length = 2 ^ (pt.length - k) := by simp [tensorVec_length]
  have hflat : evals.length = 2 ^ (pt.length - k) * 2 ^ k := by
    rw [h, ← Nat.pow_add]; congr 1; omega
  rw [dot_vecMat _ _ _ _ (chunks_row_length _ _ _ hflat), evalMLE_eq_dot evals pt h]
  conv_rhs => rw [← List.take_append_drop k pt, tensorVec_append]
  rw [dot_kron _ _ _ (by rw [hA, hB, hflat]), hA, hB]

/-! ### the lengths of the vectors of `tensor` (what the length test of `check`, fix D23, looks at) -/

/-- the univariate `tensor` always answers, with one entry of `a` per column and one of `b` per row -/
theorem tensor_uni_lengths (z : F) (nCols nRows : Nat) (a b : List F)
    (h : tensor (Point.uni z) nCols nRows = .ok (a, b)) : a.length = nCols ∧ b.length = nRows := by
  simp only [tensor, tensorUni, Except.ok.injEq, Prod.mk.injEq] at h
  obtain ⟨rfl, rfl⟩ := h
  exact ⟨powers_length _ _ _, powers_length _ _ _⟩

/-- the multilinear `tensor`, when it answers: `a` has `2^⌈log₂ n_cols⌉` entries and `b` has
`2^(|pt| − ⌈log₂ n_cols⌉)`, whatever `n_rows` is -/
theorem tensor_ml_lengths (pt : List F) (nCols nRows : Nat) (a b : List F)
    (h : tensor (Point.ml pt) nCols nRows = .ok (a, b)) :
    ceilLog2 nCols ≤ pt.length ∧ a.length = 2 ^ ceilLog2 nCols ∧
      b.length = 2 ^ (pt.length - ceilLog2 nCols) := by
  simp only [tensor, tensorML] at h
  split at h
  · rename_i hs
    simp only [Except.ok.injEq, Prod.mk.injEq] at h
    obtain ⟨rfl, rfl⟩ := h
    refine ⟨hs, ?_, ?_⟩
    · rw [tensorVec_length, List.length_take, Nat.min_eq_left hs]
    · rw [tensorVec_length, List.length_drop]
  · cases h

/-- a multilinear point with `nv` coordinates fits exactly the power-of-two shapes
`2^k` columns × `2^(nv − k)` rows -/
theorem tensor_ml_lengths_fit (pt : List F) (k : Nat) (a b : List F)
    (h : tensor (Point.ml pt) (2 ^ k) (2 ^ (pt.length - k)) = .ok (a, b)) :
    a.length = 2 ^ k ∧ b.length = 2 ^ (pt.length - k) := by
  obtain ⟨_, ha, hb⟩ := tensor_ml_lengths pt _ _ a b h
  rw [ceilLog2_two_pow] at ha hb
  exact ⟨ha, hb⟩

/-- **The point has the number of coordinates the matrix width asks for**: whenever `tensor` answers,
its `a` has one entry per column.  `open` never looks at `a`, `check` (fix D23) refuses unless it has
`n_cols` entries — so this is what an answered `open` needs to be accepted.  Always true for a
univariate point; for a multilinear point it says the width is a power of two (or the point too short
for `tensor` to answer): `pointFits_ml_iff`. -/
def PointFits (point : Point F) (nCols nRows : Nat) : Prop :=
  ∀ a b, tensor point nCols nRows = .ok (a, b) → a.length = nCols

theorem pointFits_uni (z : F) (nCols nRows : Nat) : PointFits (Point.uni z) nCols nRows :=
  fun a b h => (tensor_uni_lengths z nCols nRows a b h).1

theorem pointFits_ml_iff (pt : List F) (nCols nRows : Nat) :
    PointFits (Point.ml pt) nCols nRows ↔ pt.length < ceilLog2 nCols ∨ 2 ^ ceilLog2 nCols = nCols := by
  constructor
  · intro h
    by_cases hs : ceilLog2 nCols ≤ pt.length
    · right
      have := h (tensorVec (pt.take (ceilLog2 nCols))) (tensorVec (pt.drop (ceilLog2 nCols)))
        (by simp [tensor, tensorML, hs])
      rw [tensorVec_length, List.length_take, Nat.min_eq_left hs] at this
      exact this
    · left; omega
  · rintro (h | h) a b hab
    · obtain ⟨hs, _⟩ := tensor_ml_lengths pt nCols nRows a b hab
      omega
    · obtain ⟨_, ha, _⟩ := tensor_ml_lengths pt nCols nRows a b hab
      rw [ha, h]

/-- a power-of-two width (the multilinear schemes: `2^nv` evaluations in `2^(nv−k)` rows of `2^k`)
fits every point -/
theorem pointFits_of_pow2 (point : Point F) (nCols nRows : Nat) (h : 2 ^ ceilLog2 nCols = nCols) :
    PointFits point nCols nRows := by
  cases point with
  | uni z => exact pointFits_uni z nCols nRows
  | ml pt => exact (pointFits_ml_iff pt nCols nRows).2 (Or.inr h)

end LinCode
end PCV
