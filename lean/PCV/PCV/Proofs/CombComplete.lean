/-
  PCV.Proofs.CombComplete — the `Combinations` iterator enumerates EVERY sorted length-`k`
  sub-multiset of its input (all inputs): each `next` moves to the lexicographic successor among
  the selections of the sorted data, the first output is the minimum, the iterator stops only at the
  maximum, and `2^|original|` steps of fuel are never exhausted.
-/
import PCV.Proofs.CombInv
import Mathlib.Data.List.Sublists

set_option linter.unusedVariables false

namespace PCV
namespace Comb

/-! ### the loops, with what they skipped -/

theorem skipEqual_between (orig : List Nat) (cur : Nat) (fuel i : Nat) :
    ∀ x, i < x → x < skipEqual orig cur fuel i → orig[x]? = some cur := by
  induction fuel generalizing i with
  | zero => intro x h1 h2; simp only [skipEqual] at h2; omega
  | succ f ih =>
    intro x h1 h2
    simp only [skipEqual] at h2
    split at h2
    · rename_i heq
      rcases Nat.lt_or_eq_of_le (Nat.succ_le_of_lt h1) with h | h
      · exact ih (i + 1) x h h2
      · rw [← h]; exact heq
    · omega

/-- the test of the reset loop at `i`: the `i`-th position from the back can still be raised -/
def cond (c : Comb) (i : Nat) : Prop :=
  getD' c.original (getD' c.position (c.len - i) 0) 0 < getD' c.original (c.original.length - i) 0

/-- the search of the reset loop at `i` -/
def fg (c : Comb) (i : Nat) : Option Nat :=
  findGreater c.original (getD' c.original (getD' c.position (c.len - i) 0) 0)
    (c.original.length - (getD' c.position (c.len - i) 0 + 1)) (getD' c.position (c.len - i) 0 + 1)

theorem resetLoop_some (c : Comb) (fuel i0 : Nat) (pos' : List Nat)
    (h : resetLoop c fuel i0 = some pos') :
    ∃ i j, i0 ≤ i ∧ i < i0 + fuel ∧ cond c i ∧ fg c i = some j ∧
      pos' = setRun c.position (c.len - i) j i ∧
      ∀ i', i0 ≤ i' → i' < i → (¬ cond c i' ∨ fg c i' = none) := by
  induction fuel generalizing i0 with
  | zero => simp [resetLoop] at h
  | succ f ih =>
    simp only [resetLoop] at h
    split at h
    · rename_i hlt
      split at h
      · rename_i j hj
        injection h with h
        exact ⟨i0, j, Nat.le_refl _, by omega, hlt, hj, h.symm, fun i' h1 h2 => by omega⟩
      · rename_i hnone
        obtain ⟨i, j, h1, h2, h3, h4, h5, h6⟩ := ih (i0 + 1) h
        refine ⟨i, j, by omega, by omega, h3, h4, h5, fun i' g1 g2 => ?_⟩
        rcases Nat.lt_or_eq_of_le g1 with g | g
        · exact h6 i' (by omega) g2
        · subst g; exact Or.inr hnone
    · rename_i hnlt
      obtain ⟨i, j, h1, h2, h3, h4, h5, h6⟩ := ih (i0 + 1) h
      refine ⟨i, j, by omega, by omega, h3, h4, h5, fun i' g1 g2 => ?_⟩
      rcases Nat.lt_or_eq_of_le g1 with g | g
      · exact h6 i' (by omega) g2
      · subst g; exact Or.inl hnlt

theorem resetLoop_none (c : Comb) (fuel i0 : Nat) (h : resetLoop c fuel i0 = none) :
    ∀ i', i0 ≤ i' → i' < i0 + fuel → (¬ cond c i' ∨ fg c i' = none) := by
  induction fuel generalizing i0 with
  | zero => intro i' h1 h2; omega
  | succ f ih =>
    simp only [resetLoop] at h
    intro i' g1 g2
    split at h
    · rename_i hlt
      split at h
      · cases h
      · rename_i hnone
        rcases Nat.lt_or_eq_of_le g1 with g | g
        · exact ih (i0 + 1) h i' (by omega) (by omega)
        · subst g; exact Or.inr hnone
    · rename_i hnlt
      rcases Nat.lt_or_eq_of_le g1 with g | g
      · exact ih (i0 + 1) h i' (by omega) (by omega)
      · subst g; exact Or.inl hnlt

/-- in a valid state, a position that can be raised has a larger value to move to -/
theorem fg_some_of_cond (c : Comb) (hinv : Inv c) (i : Nat) (hi1 : 1 ≤ i) (hi : i ≤ c.len)
    (hc : cond c i) : ∃ j, fg c i = some j := by
  have hidx : c.len - i < c.position.length := by have := hinv.posLen; have := hinv.lenPos; omega
  have hlp : getD' c.position (c.len - i) 0 < c.original.length :=
    hinv.inRange _ (getD'_mem _ _ _ hidx)
  unfold cond at hc
  have hbound : getD' c.position (c.len - i) 0 < c.original.length - i := by
    by_contra hcon
    have := sorted_mono c.original hinv.sorted (c.original.length - i) _ (by omega) hlp
    omega
  unfold fg
  exact findGreater_some _ _ _ _ (c.original.length - i) (by omega) (by omega) hc

theorem not_cond_of_skipped (c : Comb) (hinv : Inv c) (i : Nat) (hi1 : 1 ≤ i) (hi : i ≤ c.len)
    (h : ¬ cond c i ∨ fg c i = none) : ¬ cond c i := by
  rcases h with h | h
  · exact h
  · intro hc
    obtain ⟨j, hj⟩ := fg_some_of_cond c hinv i hi1 hi hc
    rw [hj] at h; cases h

/-! ### one step, described on the position vector -/

/-- the value read at an index of the (sorted) data -/
abbrev val (c : Comb) (x : Nat) : Nat := getD' c.original x 0

/-- What a successful `next` of a started iterator does: the position vector is
`pre ++ lastpos :: suf`; every position of `suf` already carries the largest value it can
(`hsuf`); `lastpos` moves to `j`, the first index with a larger value, and the rest follows
consecutively. -/
structure StepDesc (c c' : Comb) (pre : List Nat) (lastpos : Nat) (suf : List Nat) (j : Nat) :
    Prop where
  hpos : c.position = pre ++ lastpos :: suf
  hpos' : c'.position = pre ++ List.range' j (suf.length + 1)
  hlt : lastpos < j
  hfit : j + suf.length < c.original.length
  hval : val c lastpos < val c j
  hfirst : ∀ x, lastpos < x → x < j → ¬ val c lastpos < val c x
  hsuf : ∀ s (hs : s < suf.length), val c (c.original.length - suf.length + s) ≤ val c suf[s]
  horig : c'.original = c.original
  hlen : c'.len = c.len

theorem getD'_mid (pre : List Nat) (a : Nat) (suf : List Nat) (s : Nat) (hs : s < suf.length) :
    getD' (pre ++ a :: suf) (pre.length + 1 + s) 0 = suf[s] := by
  rw [show pre.length + 1 + s = pre.length + (1 + s) by omega, getD'_append_right]
  unfold getD'
  rw [show 1 + s = s + 1 by omega, List.getElem?_cons_succ, List.getElem?_eq_getElem hs]
  rfl

theorem getD'_mid0 (pre : List Nat) (a : Nat) (suf : List Nat) :
    getD' (pre ++ a :: suf) pre.length 0 = a := by
  simp [getD']

theorem next_desc (c : Comb) (hinv : Inv c) (hst : c.started = true) (v : List Nat) (c' : Comb)
    (h : c.next = (some v, c')) : ∃ pre lastpos suf j, StepDesc c c' pre lastpos suf j := by
  obtain ⟨hsorted, hposLen, hlenPos, hlenLt, hincr, hrange⟩ := hinv
  have hinv : Inv c := ⟨hsorted, hposLen, hlenPos, hlenLt, hincr, hrange⟩
  unfold next at h
  simp only [hst, Bool.not_true, Bool.false_eq_true, if_false] at h
  split at h
  · -- reset branch
    rename_i hback
    split at h
    · rename_i pos' hreset
      injection h with h1 h2
      subst h2
      obtain ⟨i, j, hi2, hilen, hcond, hfg, hpos', hskip⟩ := resetLoop_some c _ _ pos' hreset
      have hi : i ≤ c.len := by omega
      have hidx : c.len - i < c.position.length := by omega
      obtain ⟨pre, lastpos, suf, hsplit, hprelen⟩ : ∃ pre lastpos suf,
          c.position = pre ++ lastpos :: suf ∧ pre.length = c.len - i := by
        refine ⟨c.position.take (c.len - i), c.position[c.len - i], c.position.drop (c.len - i + 1), ?_, ?_⟩
        · rw [← List.drop_eq_getElem_cons hidx, List.take_append_drop]
        · simp; omega
      have hsuflen : suf.length + 1 = i := by
        have := congrArg List.length hsplit
        simp only [List.length_append, List.length_cons] at this
        omega
      have hlp : getD' c.position (c.len - i) 0 = lastpos := by
        rw [hsplit, ← hprelen]; exact getD'_mid0 pre lastpos suf
      unfold cond at hcond
      unfold fg at hfg
      rw [hlp] at hcond hfg
      obtain ⟨hj1, hj2, hjv, hjmin⟩ := findGreater_spec _ _ _ _ _ hfg
      have hlastR : lastpos < c.original.length := hrange lastpos (by rw [hsplit]; simp)
      have hbound : lastpos < c.original.length - i := by
        by_contra hcon
        have := sorted_mono c.original hsorted (c.original.length - i) lastpos (by omega) hlastR
        omega
      have hjle : j ≤ c.original.length - i := by
        by_contra hcon
        exact hjmin (c.original.length - i) (by omega) (by omega) hcond
      refine ⟨pre, lastpos, suf, j, ⟨hsplit, ?_, by omega, by omega, hjv,
        fun x hx1 hx2 => hjmin x (by omega) hx2, ?_, rfl, rfl⟩⟩
      · show pos' = _
        rw [hpos', hsplit, ← hprelen, setRun_append pre (lastpos :: suf) j i (by simp; omega)]
        rw [List.drop_of_length_le (by simp; omega), ← hsuflen, List.range'_eq_map_range]
        simp
      · intro s hs
        -- the position `suf[s]` is the `i'`-th from the back, `i' = i - 1 - s`
        have hget : getD' c.position (c.len - (i - 1 - s)) 0 = suf[s] := by
          rw [hsplit, show c.len - (i - 1 - s) = pre.length + 1 + s by omega]
          exact getD'_mid pre lastpos suf s hs
        have hidx2 : c.original.length - suf.length + s = c.original.length - (i - 1 - s) := by omega
        rw [hidx2]
        by_cases h1 : i - 1 - s = 1
        · rw [h1] at hget ⊢
          have : getD' c.original (getD' c.position (c.len - 1) 0) 0
              = getD' c.original (c.original.length - 1) 0 := by
            simpa [backAtMax] using hback
          rw [hget] at this
          show getD' c.original _ 0 ≤ getD' c.original _ 0
          omega
        · have hnc := not_cond_of_skipped c hinv (i - 1 - s) (by omega) (by omega)
            (hskip (i - 1 - s) (by omega) (by omega))
          unfold cond at hnc
          rw [hget] at hnc
          show getD' c.original _ 0 ≤ getD' c.original _ 0
          omega
    · cases h
  · -- bump branch
    rename_i hback
    injection h with h1 h2
    subst h2
    obtain ⟨init, last, hsplit⟩ : ∃ init last, c.position = init ++ [last] := by
      have hne : c.position ≠ [] := by
        intro h0; rw [h0] at hposLen; simp at hposLen; omega
      exact ⟨c.position.dropLast, c.position.getLast hne, (List.dropLast_append_getLast hne).symm⟩
    have hinitlen : init.length + 1 = c.len := by
      have := congrArg List.length hsplit
      simp only [List.length_append, List.length_cons, List.length_nil] at this
      omega
    have hlast : getD' c.position (c.len - 1) 0 = last := by
      rw [hsplit, show c.len - 1 = init.length by omega]; exact getD'_mid0 init last []
    have hlastR : last < c.original.length := hrange last (by rw [hsplit]; simp)
    have hne : getD' c.original last 0 ≠ getD' c.original (c.original.length - 1) 0 := by
      simpa [backAtMax, hlast] using hback
    have hlt1 : last < c.original.length - 1 := by
      by_contra hcon
      apply hne
      rw [show last = c.original.length - 1 by omega]
    have he : c.original[c.original.length - 1]? ≠ some (getD' c.original last 0) := by
      intro h0
      apply hne
      have : getD' c.original (c.original.length - 1) 0 = (c.original[c.original.length - 1]?).getD 0 := rfl
      rw [this, h0]; rfl
    obtain ⟨hs1, hs2, hs3⟩ := skipEqual_spec c.original (getD' c.original last 0)
      c.original.length last (c.original.length - 1) hlt1 he (by omega)
    have hbetween := skipEqual_between c.original (getD' c.original last 0) c.original.length last
    have hnew : bump c = init ++ [skipEqual c.original (getD' c.original last 0) c.original.length last] := by
      unfold bump
      simp only [hlast]
      rw [hsplit, show c.len - 1 = init.length by omega, List.set_append_right _ _ (by omega)]
      simp
    generalize hr : skipEqual c.original (getD' c.original last 0) c.original.length last = r at *
    have hrR : r < c.original.length := by omega
    have hvlt : getD' c.original last 0 < getD' c.original r 0 := by
      have hle := sorted_mono c.original hsorted last r (by omega) hrR
      have hne' : getD' c.original r 0 ≠ getD' c.original last 0 := by
        intro h0
        apply hs3
        rw [← h0, getD'_lt c.original r 0 hrR, List.getElem?_eq_getElem hrR]
      omega
    refine ⟨init, last, [], r, ⟨hsplit, ?_, hs1, by simpa using hrR, hvlt, ?_,
      fun s hs => by simp at hs, rfl, rfl⟩⟩
    · show bump c = _
      rw [hnew]; simp [List.range']
    · intro x hx1 hx2
      have := hbetween x hx1 hx2
      have hx : getD' c.original x 0 = getD' c.original last 0 := by
        unfold getD'; rw [this]; rfl
      show ¬ getD' c.original last 0 < getD' c.original x 0
      omega

/-! ### the lexicographic order on equal-length lists -/

theorem pw_not_lt {a b : List Nat} (h : List.Forall₂ (· ≤ ·) a b) : ¬ b < a := by
  induction h with
  | nil => exact lt_irrefl _
  | cons hxy _ ih =>
    rw [List.cons_lt_cons_iff]
    rintro (h | ⟨_, h⟩)
    · omega
    · exact ih h

theorem pw_le {a b : List Nat} (h : List.Forall₂ (· ≤ ·) a b) : a ≤ b :=
  not_lt.1 (pw_not_lt h)

theorem pw_trans {a b c : List Nat} (h1 : List.Forall₂ (· ≤ ·) a b)
    (h2 : List.Forall₂ (· ≤ ·) b c) : List.Forall₂ (· ≤ ·) a c := by
  induction h1 generalizing c with
  | nil => cases h2; exact List.Forall₂.nil
  | cons hxy _ ih =>
    cases h2 with
    | cons hyz h2' => exact List.Forall₂.cons (Nat.le_trans hxy hyz) (ih h2')

theorem append_lt_of_lt {a b : List Nat} (x y : List Nat) (hlen : a.length = b.length)
    (h : a < b) : a ++ x < b ++ y := by
  induction a generalizing b with
  | nil =>
    cases b with
    | nil => exact absurd h (lt_irrefl _)
    | cons _ _ => simp at hlen
  | cons p a ih =>
    cases b with
    | nil => simp at hlen
    | cons q b =>
      rw [List.cons_lt_cons_iff] at h
      simp only [List.cons_append]
      rw [List.cons_lt_cons_iff]
      rcases h with h | ⟨h1, h2⟩
      · exact Or.inl h
      · exact Or.inr ⟨h1, ih (by simpa using hlen) h2⟩

theorem lt_of_append_lt (a : List Nat) {x y : List Nat} (h : a ++ x < a ++ y) : x < y := by
  induction a with
  | nil => exact h
  | cons p a ih =>
    simp only [List.cons_append] at h
    rw [List.cons_lt_cons_iff] at h
    rcases h with h | ⟨_, h⟩
    · exact absurd h (lt_irrefl _)
    · exact ih h

theorem append_le_append_left (a : List Nat) {x y : List Nat} (h : x ≤ y) : a ++ x ≤ a ++ y := by
  rw [← not_lt] at h ⊢
  exact fun hh => h (lt_of_append_lt a hh)

/-! ### selections of a sorted vector, pointwise -/

/-- strictly increasing entries between `a` and `n` leave room for at most `n − a` of them -/
theorem incr_count (l : List Nat) (a n : Nat) (han : a ≤ n) (hpw : l.Pairwise (· < ·))
    (h : ∀ x ∈ l, a ≤ x ∧ x < n) : a + l.length ≤ n := by
  induction l generalizing a with
  | nil => simpa using han
  | cons x l ih =>
    obtain ⟨hx, hl⟩ := List.pairwise_cons.1 hpw
    have h1 := h x (by simp)
    have := ih (x + 1) (by omega) hl (fun y hy => ⟨hx y hy, (h y (by simp [hy])).2⟩)
    simp only [List.length_cons]; omega

theorem pw_lower (orig : List Nat) (hs : orig.Pairwise (· ≤ ·)) (l : List Nat) (b : Nat)
    (hpw : l.Pairwise (· < ·)) (h : ∀ x ∈ l, b ≤ x ∧ x < orig.length) :
    List.Forall₂ (· ≤ ·) ((List.range' b l.length).map (fun n => getD' orig n 0))
      (l.map (fun n => getD' orig n 0)) := by
  induction l generalizing b with
  | nil => exact List.Forall₂.nil
  | cons x l ih =>
    obtain ⟨hx, hl⟩ := List.pairwise_cons.1 hpw
    have h1 := h x (by simp)
    simp only [List.length_cons, List.range'_succ, List.map_cons]
    refine List.Forall₂.cons (sorted_mono orig hs b x h1.1 h1.2) ?_
    exact ih (b + 1) hl (fun y hy => ⟨by have := hx y hy; omega, (h y (by simp [hy])).2⟩)

theorem pw_upper (orig : List Nat) (hs : orig.Pairwise (· ≤ ·)) (l : List Nat)
    (hpw : l.Pairwise (· < ·)) (h : ∀ x ∈ l, x < orig.length) :
    List.Forall₂ (· ≤ ·) (l.map (fun n => getD' orig n 0))
      ((List.range' (orig.length - l.length) l.length).map (fun n => getD' orig n 0)) := by
  induction l with
  | nil => exact List.Forall₂.nil
  | cons x l ih =>
    obtain ⟨hx, hl⟩ := List.pairwise_cons.1 hpw
    have hcnt := incr_count l (x + 1) orig.length (by have := h x (by simp); omega) hl
      (fun y hy => ⟨hx y hy, h y (by simp [hy])⟩)
    simp only [List.length_cons, List.range'_succ, List.map_cons]
    refine List.Forall₂.cons (sorted_mono orig hs x _ (by omega) (by omega)) ?_
    have := ih hl (fun y hy => h y (by simp [hy]))
    rw [show orig.length - (l.length + 1) + 1 = orig.length - l.length by omega]
    exact this

theorem pw_of_index (f : Nat → Nat) (l : List Nat) (b : Nat)
    (h : ∀ s (hs : s < l.length), f (b + s) ≤ f l[s]) :
    List.Forall₂ (· ≤ ·) ((List.range' b l.length).map f) (l.map f) := by
  induction l generalizing b with
  | nil => exact List.Forall₂.nil
  | cons x l ih =>
    simp only [List.length_cons, List.range'_succ, List.map_cons]
    have h0 := h 0 (by simp)
    simp only [List.getElem_cons_zero, Nat.add_zero] at h0
    refine List.Forall₂.cons h0 ?_
    refine ih (b + 1) (fun s hs => ?_)
    have := h (s + 1) (by simp only [List.length_cons]; omega)
    simp only [List.getElem_cons_succ] at this
    rw [show b + (s + 1) = b + 1 + s by omega] at this
    exact this

/-! ### minimum, successor, maximum -/

/-- the first output is below every selection -/
theorem min_le (orig : List Nat) (hs : orig.Pairwise (· ≤ ·)) (k : Nat) (w : List Nat)
    (hw : Good orig k w) : (List.range k).map (fun n => getD' orig n 0) ≤ w := by
  obtain ⟨q, hq1, hq2, hq3, rfl⟩ := hw
  have := pw_lower orig hs q 0 hq1 (fun x hx => ⟨Nat.zero_le _, hq2 x hx⟩)
  rw [hq3] at this
  rw [List.range_eq_range']
  exact pw_le this

/-- **Successor.** No selection lies strictly between two consecutive outputs. -/
theorem gap (c c' : Comb) (hinv : Inv c) (pre : List Nat) (lastpos : Nat) (suf : List Nat) (j : Nat)
    (d : StepDesc c c' pre lastpos suf j) (w : List Nat) (hw : Good c.original c.len w)
    (hlt : c.insert < w) : c'.insert ≤ w := by
  obtain ⟨q, hq1, hq2, hq3, rfl⟩ := hw
  have hposlen : pre.length + 1 + suf.length = c.len := by
    have := congrArg List.length d.hpos
    simp only [List.length_append, List.length_cons] at this
    have := hinv.posLen; omega
  -- split the competitor at the same place
  have hqlen : pre.length < q.length := by omega
  obtain ⟨qpre, qt, qsuf, hqsplit, hqprelen⟩ : ∃ qpre qt qsuf,
      q = qpre ++ qt :: qsuf ∧ qpre.length = pre.length := by
    refine ⟨q.take pre.length, q[pre.length], q.drop (pre.length + 1), ?_, ?_⟩
    · rw [← List.drop_eq_getElem_cons hqlen, List.take_append_drop]
    · simp; omega
  have hqsuflen : qsuf.length = suf.length := by
    have := congrArg List.length hqsplit
    simp only [List.length_append, List.length_cons] at this
    omega
  subst hqsplit
  have hqpw := List.pairwise_append.1 hq1
  obtain ⟨hqt, hqsufpw⟩ := List.pairwise_cons.1 hqpw.2.1
  have hins : c.insert = pre.map (val c) ++ (val c lastpos :: suf.map (val c)) := by
    simp only [insert, d.hpos, List.map_append, List.map_cons]
  have hins' : c'.insert = pre.map (val c) ++ (List.range' j (suf.length + 1)).map (val c) := by
    simp only [insert, d.hpos', d.horig, List.map_append]
  have hw' : (qpre ++ qt :: qsuf).map (fun n => getD' c.original n 0)
      = qpre.map (val c) ++ (val c qt :: qsuf.map (val c)) := by
    simp only [List.map_append, List.map_cons]
  rw [hins'] ; rw [hins] at hlt; rw [hw'] at hlt ⊢
  rcases lt_trichotomy (pre.map (val c)) (qpre.map (val c)) with hA | hA | hA
  · exact le_of_lt (append_lt_of_lt _ _ (by simp [hqprelen]) hA)
  · rw [← hA] at hlt ⊢
    have hrest := lt_of_append_lt _ hlt
    rw [List.cons_lt_cons_iff] at hrest
    -- the tail of the competitor cannot exceed the (maximal) tail of the current output
    have hup := pw_upper c.original hinv.sorted qsuf hqsufpw
      (fun x hx => hq2 x (by simp [hx]))
    have hidx := pw_of_index (val c) suf (c.original.length - suf.length) d.hsuf
    rw [hqsuflen] at hup
    have htail : qsuf.map (val c) ≤ suf.map (val c) := pw_le (pw_trans hup hidx)
    have hv : val c lastpos < val c qt := by
      rcases hrest with h | ⟨_, h⟩
      · exact h
      · exact absurd h (not_lt.2 htail)
    have hqtR : qt < c.original.length := hq2 qt (by simp)
    have hqtj : j ≤ qt := by
      by_contra hcon
      rcases Nat.lt_or_ge lastpos qt with h | h
      · exact d.hfirst qt h (by omega) hv
      · have := sorted_mono c.original hinv.sorted qt lastpos h
          (by have := d.hlt; have := d.hfit; omega)
        show False
        have hv' : getD' c.original lastpos 0 < getD' c.original qt 0 := hv
        omega
    apply append_le_append_left
    have hlow := pw_lower c.original hinv.sorted (qt :: qsuf) j hqpw.2.1
      (fun x hx => by
        rcases List.mem_cons.1 hx with rfl | hx
        · exact ⟨hqtj, hqtR⟩
        · exact ⟨by have := hqt x hx; omega, hq2 x (by simp [hx])⟩)
    simp only [List.length_cons, hqsuflen, List.map_cons] at hlow
    exact pw_le hlow
  · exfalso
    have : qpre.map (val c) ++ (val c qt :: qsuf.map (val c))
        < pre.map (val c) ++ (val c lastpos :: suf.map (val c)) :=
      append_lt_of_lt _ _ (by simp [hqprelen]) hA
    exact lt_asymm hlt this

/-- **Maximum.** When a started iterator returns `None`, its last output is above every
selection. -/
theorem max_ge (c : Comb) (hinv : Inv c) (hst : c.started = true) (c' : Comb)
    (h : c.next = (none, c')) (w : List Nat) (hw : Good c.original c.len w) : w ≤ c.insert := by
  obtain ⟨q, hq1, hq2, hq3, rfl⟩ := hw
  unfold next at h
  simp only [hst, Bool.not_true, Bool.false_eq_true, if_false] at h
  split at h
  · rename_i hback
    split at h
    · cases h
    · rename_i hnone
      have hskip := resetLoop_none c _ _ hnone
      have hidx : ∀ s (hs : s < c.position.length),
          val c (c.original.length - c.position.length + s) ≤ val c c.position[s] := by
        intro s hs
        have hpl := hinv.posLen
        have hget : getD' c.position (c.len - (c.len - s)) 0 = c.position[s] := by
          rw [show c.len - (c.len - s) = s by omega]; exact getD'_lt _ _ _ hs
        rw [show c.original.length - c.position.length + s = c.original.length - (c.len - s) by
          have := hinv.lenLt; omega]
        by_cases h1 : c.len - s = 1
        · rw [h1] at hget ⊢
          have : getD' c.original (getD' c.position (c.len - 1) 0) 0
              = getD' c.original (c.original.length - 1) 0 := by
            simpa [backAtMax] using hback
          rw [hget] at this
          show getD' c.original _ 0 ≤ getD' c.original _ 0
          omega
        · have hnc := not_cond_of_skipped c hinv (c.len - s) (by omega) (by omega)
            (hskip (c.len - s) (by omega) (by omega))
          unfold cond at hnc
          rw [hget] at hnc
          show getD' c.original _ 0 ≤ getD' c.original _ 0
          omega
      have h1 := pw_of_index (val c) c.position (c.original.length - c.position.length) hidx
      have h2 := pw_upper c.original hinv.sorted q hq1 hq2
      rw [hq3, ← hinv.posLen] at h2
      exact pw_le (pw_trans h2 h1)
  · cases h

/-! ### selections are sublists, and conversely -/

theorem getD'_cons_succ (a : Nat) (o : List Nat) (x : Nat) :
    getD' (a :: o) (x + 1) 0 = getD' o x 0 := by
  simp [getD']

theorem map_shift (a : Nat) (o l : List Nat) (h : ∀ x ∈ l, 1 ≤ x) :
    l.map (fun n => getD' (a :: o) n 0) = (l.map (· - 1)).map (fun n => getD' o n 0) := by
  induction l with
  | nil => rfl
  | cons x l ih =>
    have hx := h x (by simp)
    simp only [List.map_cons]
    rw [ih (fun y hy => h y (by simp [hy]))]
    congr 1
    rw [show x = (x - 1) + 1 by omega, getD'_cons_succ]; simp

theorem selection_sublist (orig pos : List Nat) (hpw : pos.Pairwise (· < ·))
    (hr : ∀ i ∈ pos, i < orig.length) : List.Sublist (pos.map (fun n => getD' orig n 0)) orig := by
  induction orig generalizing pos with
  | nil =>
    cases pos with
    | nil => exact List.Sublist.slnil
    | cons p ps => have := hr p (by simp); simp at this
  | cons a o ih =>
    cases pos with
    | nil => exact List.nil_sublist _
    | cons p ps =>
      obtain ⟨hp, hps⟩ := List.pairwise_cons.1 hpw
      have shifted : ∀ l : List Nat, l.Pairwise (· < ·) → (∀ x ∈ l, 1 ≤ x ∧ x < (a :: o).length) →
          List.Sublist (l.map (fun n => getD' (a :: o) n 0)) o := by
        intro l hl hlr
        rw [map_shift a o l (fun x hx => (hlr x hx).1)]
        apply ih
        · rw [List.pairwise_map]
          exact hl.imp_of_mem (fun {x y} hx hy hxy => by
            have := (hlr x hx).1; have := (hlr y hy).1; omega)
        · intro i hi
          simp only [List.mem_map] at hi
          obtain ⟨x, hx, rfl⟩ := hi
          have := hlr x hx
          simp only [List.length_cons] at this
          omega
      by_cases hp0 : p = 0
      · subst hp0
        simp only [List.map_cons]
        have h0 : getD' (a :: o) 0 0 = a := by simp [getD']
        rw [h0]
        exact (shifted ps hps (fun x hx => ⟨by have := hp x hx; omega, hr x (by simp [hx])⟩)).cons_cons a
      · exact (shifted (p :: ps) hpw (fun x hx => ⟨by
            rcases List.mem_cons.1 hx with rfl | hx
            · omega
            · have := hp x hx; omega, hr x hx⟩)).cons a

theorem good_sublist (orig : List Nat) (k : Nat) (v : List Nat) (h : Good orig k v) :
    List.Sublist v orig ∧ v.length = k := by
  obtain ⟨pos, h1, h2, h3, rfl⟩ := h
  exact ⟨selection_sublist orig pos h1 h2, by simpa using h3⟩

theorem sublist_good (orig v : List Nat) (h : List.Sublist v orig) : Good orig v.length v := by
  induction h with
  | slnil => exact ⟨[], List.Pairwise.nil, fun i hi => (by cases hi), rfl, rfl⟩
  | @cons v o a h ih =>
    obtain ⟨pos, h1, h2, h3, h4⟩ := ih
    refine ⟨pos.map (· + 1), ?_, ?_, by simpa using h3, ?_⟩
    · rw [List.pairwise_map]; exact h1.imp (fun hxy => by omega)
    · intro i hi
      simp only [List.mem_map] at hi
      obtain ⟨x, hx, rfl⟩ := hi
      have := h2 x hx
      simp only [List.length_cons]; omega
    · rw [List.map_map]
      conv_lhs => rw [h4]
      apply List.map_congr_left
      intro x _
      simp [getD'_cons_succ]
  | @cons_cons v o a h ih =>
    obtain ⟨pos, h1, h2, h3, h4⟩ := ih
    refine ⟨0 :: pos.map (· + 1), ?_, ?_, by simpa using h3, ?_⟩
    · refine List.pairwise_cons.2 ⟨fun x hx => ?_, ?_⟩
      · simp only [List.mem_map] at hx
        obtain ⟨y, _, rfl⟩ := hx; omega
      · rw [List.pairwise_map]; exact h1.imp (fun hxy => by omega)
    · intro i hi
      rcases List.mem_cons.1 hi with rfl | hi
      · simp
      · simp only [List.mem_map] at hi
        obtain ⟨x, hx, rfl⟩ := hi
        have := h2 x hx
        simp only [List.length_cons]; omega
    · simp only [List.map_cons, List.map_map]
      have h0 : getD' (a :: o) 0 0 = a := by simp [getD']
      rw [h0]
      congr 1

/-! ### the whole iteration is complete -/

theorem collect_complete (f : Nat) (c : Comb) (hinv : Inv c) (hst : c.started = true)
    (hfuel : (collect f c).length < f) (w : List Nat) (hw : Good c.original c.len w)
    (hlt : c.insert < w) : w ∈ collect f c := by
  induction f generalizing c with
  | zero => simp at hfuel
  | succ f ih =>
    simp only [collect] at hfuel ⊢
    cases hn : c.next with
    | mk o c' =>
      cases o with
      | none => exact absurd hlt (not_lt.2 (max_ge c hinv hst c' hn w hw))
      | some v =>
        obtain ⟨hinv', hst', horig, hlen, hv, _⟩ := next_step c hinv hst v c' hn
        obtain ⟨pre, lastpos, suf, j, d⟩ := next_desc c hinv hst v c' hn
        have hle := gap c c' hinv pre lastpos suf j d w hw hlt
        simp only [hn] at hfuel ⊢
        rcases eq_or_lt_of_le hle with heq | hlt'
        · rw [hv, heq]; exact List.mem_cons_self
        · refine List.mem_cons_of_mem _ (ih c' hinv' hst' ?_ (by rw [horig, hlen]; exact hw) hlt')
          simp only [List.length_cons] at hfuel; omega

/-- **Every selection is produced.** Whenever `Combinations::new(original, k)` does not panic,
every sorted length-`k` sub-multiset of the input (every length-`k` sublist of the sorted input)
is among the collected outputs; together with `combinations_spec` the outputs are exactly those,
each once. -/
theorem combinations_complete (original : List Nat) (k : Nat) (outs : List (List Nat))
    (h : combinations original k = .ok outs) :
    ∀ w, List.Sublist w (sortNat original) → w.length = k → w ∈ outs := by
  intro w hsub hwk
  have hgood : Good (sortNat original) k w := by rw [← hwk]; exact sublist_good _ _ hsub
  have hspec := combinations_spec original k outs h
  unfold combinations at h
  split at h
  · cases h
  · rename_i c hc
    injection h with h
    obtain ⟨hinv, hst, horig, hlen⟩ := inv_new original k c hc
    have hk1 : 1 ≤ k := by rw [← hlen]; exact hinv.lenPos
    -- fuel: the outputs are distinct non-empty sublists of the sorted input
    have hlenlt : outs.length < 2 ^ original.length := by
      have hsubset : ([] : List Nat) :: outs ⊆ (sortNat original).sublists := by
        intro v hv
        rw [List.mem_sublists]
        rcases List.mem_cons.1 hv with rfl | hv
        · exact List.nil_sublist _
        · exact (good_sublist _ _ _ (hspec.2.2 v hv).1).1
      have hnd : (([] : List Nat) :: outs).Nodup := by
        refine List.nodup_cons.2 ⟨fun hmem => ?_, hspec.2.1⟩
        have := (hspec.2.2 [] hmem).2.2.1
        simp at this; omega
      have := hnd.length_le_of_subset hsubset
      rw [List.length_sublists, (sortNat_perm original).length_eq] at this
      simp only [List.length_cons] at this
      omega
    rw [← h] at hlenlt ⊢
    have hF : 2 ^ original.length = (2 ^ original.length - 1) + 1 := by
      have : 0 < 2 ^ original.length := Nat.two_pow_pos _
      omega
    rw [hF] at hlenlt ⊢
    have hnext : c.next = (some ({ c with started := true } : Comb).insert, { c with started := true }) := by
      unfold Comb.next; simp [hst]
    simp only [collect, hnext] at hlenlt ⊢
    have hinv' : Inv ({ c with started := true } : Comb) :=
      ⟨hinv.sorted, hinv.posLen, hinv.lenPos, hinv.lenLt, hinv.incr, hinv.inRange⟩
    have hfirst : ({ c with started := true } : Comb).insert
        = (List.range k).map (fun n => getD' (sortNat original) n 0) := by
      unfold new at hc
      split at hc
      · injection hc with hc; subst hc; rfl
      · cases hc
    have hmin := min_le (sortNat original) (sortNat_sorted original) k w hgood
    rw [← hfirst] at hmin
    rcases eq_or_lt_of_le hmin with heq | hlt
    · rw [heq]; exact List.mem_cons_self
    · refine List.mem_cons_of_mem _ (collect_complete _ _ hinv' rfl ?_ w ?_ hlt)
      · simp only [List.length_cons] at hlenlt; omega
      · show Good c.original c.len w
        rw [horig, hlen]; exact hgood

end Comb
end PCV
