/-
  PCV.Proofs.Marlin — algebra of the MarlinKZG10 model: the prover's loop and the verifier's
  accumulation stay in lock-step (same challenges consumed, matching combined commitment/value),
  hence completeness with degree bounds and hiding for any number of polynomials.
-/
import PCV.Model.Marlin
import PCV.Proofs.KZG10
import PCV.Proofs.PolyMore
set_option linter.unusedSectionVars false

namespace PCV
namespace Marlin
variable {F : Type} [Field F] [DecidableEq F]

/-- Keys as `trim` makes them from parameters with trapdoor `β` (proved for `trim` in `trim_wf`). -/
structure WF (ck : CK F) (vk : VK F) (g γ β h : F) (D n m : Nat) : Prop where
  hpowers : ck.powers = powers g β n
  hgamma : ck.gammaPowers = powers γ β m
  vkeq : vk.vk = KZG.wfVK g γ β h
  maxD : ck.maxDegree = D
  shifted : ∀ bs, ck.bounds = some bs → bs ≠ [] →
      ck.shiftedPowers = some (powers (g * fpow β (D - bs.getLastD 0)) β (bs.getLastD 0 + 1)) ∧
      (∀ d ∈ bs, d ≤ bs.getLastD 0) ∧ bs.getLastD 0 ≤ D
  shifts : ∀ bs, ck.bounds = some bs → ∀ d ∈ bs, vk.shiftPower d = some (g * fpow β (D - d))

/-- polynomial, its commitment state, its commitment -/
abbrev Trip (F : Type) := LPoly F × Rand F × LComm F

/-- the commitment is the honest one for the polynomial and state -/
def Honest (g γ β : F) (D : Nat) (t : Trip F) : Prop :=
  t.2.2.bound = t.1.bound ∧
  t.2.2.comm.comm = g * evalPoly t.1.poly β + γ * evalPoly t.2.1.rand β ∧
  (t.1.bound.isSome = t.2.1.shifted.isSome) ∧ (t.1.bound.isSome = t.2.2.comm.shifted.isSome) ∧
  ∀ d rs s, t.1.bound = some d → t.2.1.shifted = some rs → t.2.2.comm.shifted = some s →
    s = g * fpow β (D - d) * evalPoly t.1.poly β + γ * evalPoly rs β

/-- the largest enforced bound (0 if none) -/
def maxBound (ck : CK F) : Nat := (ck.bounds.getD []).getLastD 0

theorem eval_shiftPoly (ck : CK F) (w : List F) (b : Nat) (x : F) :
    evalPoly (shiftPoly ck w b) x = fpow x (maxBound ck - b) * evalPoly w x := by
  unfold shiftPoly
  split
  · rename_i hz
    have : pnorm w = [] := by unfold isZeroPoly at hz; simpa using hz
    rw [eval_of_pnorm_nil w x this]; simp
  · rw [eval_pshift]; rfl

/-- `(β − z)·wr(β) = rs(β) − rs(z)` for the (possibly skipped) random witness -/
theorem eval_wr (rs : List F) (z β : F) :
    (β - z) * evalPoly (if isZeroPoly rs then [] else (divLin rs z).1) β
      = evalPoly rs β - evalPoly rs z := by
  split
  · rename_i hz
    have : pnorm rs = [] := by unfold isZeroPoly at hz; simpa using hz
    rw [eval_of_pnorm_nil rs β this, eval_of_pnorm_nil rs z this]; simp
  · rw [divLin_quot]

theorem checkDB_mem (maxDegree : Nat) (bounds : Option (List Nat)) (p : List F) (b : Nat)
    (h : checkDegreesAndBounds maxDegree bounds p (some b) = .ok ()) :
    ∃ bs, bounds = some bs ∧ b ∈ bs ∧ b ≤ maxDegree ∧ pdeg p ≤ b := by
  unfold checkDegreesAndBounds at h
  cases bounds with
  | none => simp at h
  | some bs =>
    simp only at h
    split at h
    · cases h
    · rename_i hc
      split at h
      · cases h
      · rename_i hr
        refine ⟨bs, rfl, ?_, ?_, ?_⟩
        · simpa using hc
        · omega
        · omega

/-- the relation `(β − z)·a.srw(β) = a.sr(β) − a.sr(z)` kept by the prover's loop -/
def SRW (z β : F) (a : OpenAcc F) : Prop :=
  (β - z) * evalPoly a.srw β = evalPoly a.sr β - evalPoly a.sr z

/-- **Lock-step lemma.** If the prover's loop succeeds on honest inputs then the verifier's
accumulation succeeds on the matching commitments and true values, consumes the same challenges,
and its outputs are the stated functions of the prover's accumulators. -/
theorem open_accumulate {ck : CK F} {vk : VK F} {g γ β h : F} {D n m : Nat}
    (hwf : WF ck vk g γ β h D n m) (z : F) (l : List (Trip F))
    (hh : ∀ t ∈ l, Honest g γ β D t) (ξs : List F) (acc0 acc : OpenAcc F) (rest : List F)
    (ho : openLoop ck z (l.map (·.1)) (l.map (·.2.1)) ξs acc0 = .ok (acc, rest)) :
    ∃ C V, accumulate vk (l.map (·.2.2)) (l.map fun t => evalPoly t.1.poly z) ξs
        = .ok ((C, V), rest) ∧
      C = g * (evalPoly acc.p β - evalPoly acc0.p β) + γ * (evalPoly acc.r β - evalPoly acc0.r β)
          + (β - z) * (g * fpow β (D - maxBound ck) * (evalPoly acc.sw β - evalPoly acc0.sw β))
          + γ * (evalPoly acc.sr β - evalPoly acc0.sr β) ∧
      V = evalPoly acc.p z - evalPoly acc0.p z ∧
      (SRW z β acc0 → SRW z β acc) ∧
      (acc.enforce = false → acc.sw = acc0.sw ∧ acc.sr = acc0.sr ∧ acc.srw = acc0.srw) ∧
      (acc0.enforce = true → acc.enforce = true) ∧
      (acc.enforce = true → acc0.enforce = true ∨ ∃ bs, ck.bounds = some bs ∧ bs ≠ []) := by
  induction l generalizing ξs acc0 with
  | nil =>
    simp only [List.map_nil, openLoop] at ho
    injection ho with ho; injection ho with h1 h2
    subst h1; subst h2
    refine ⟨0, 0, by simp [accumulate], by ring, by ring, id, fun _ => ⟨rfl, rfl, rfl⟩, id, Or.inl⟩
  | cons t l ih =>
    obtain ⟨hb, hc, hbs, hbc, hs⟩ := hh t (by simp)
    have hh' : ∀ t' ∈ l, Honest g γ β D t' := fun t' ht' => hh t' (by simp [ht'])
    simp only [List.map_cons, openLoop] at ho
    split at ho
    · cases ho
    · split at ho
      · cases ho
      · rename_i hdb
        cases ξs with
        | nil => cases ho
        | cons ξ ξs' =>
          simp only at ho
          cases hbd : t.1.bound with
          | none =>
            have hsn : t.2.1.shifted = none := by
              rw [hbd] at hbs
              cases hx : t.2.1.shifted with
              | none => rfl
              | some _ => rw [hx] at hbs; simp at hbs
            have hcn : t.2.2.comm.shifted = none := by
              rw [hbd] at hbc
              cases hx : t.2.2.comm.shifted with
              | none => rfl
              | some _ => rw [hx] at hbc; simp at hbc
            rw [hbd, hsn] at ho
            simp only at ho
            obtain ⟨C, V, ha, hC, hV, hsrw, henf, hen2, hen3⟩ := ih hh' ξs' _ ho
            refine ⟨ξ * t.2.2.comm.comm + C, ξ * evalPoly t.1.poly z + V, ?_, ?_, ?_, ?_, ?_, ?_, ?_⟩
            · simp only [List.map_cons, accumulate, hb, hbd, hcn, ha]
              simp
            · rw [hC, hc]; simp only [eval_padd, eval_pscale]; ring
            · rw [hV]; simp only [eval_padd, eval_pscale]; ring
            · intro h0; exact hsrw (by simpa [SRW] using h0)
            · intro he; exact henf he
            · intro he; exact hen2 he
            · intro he; exact hen3 he
          | some d =>
            obtain ⟨rs, hrs⟩ : ∃ rs, t.2.1.shifted = some rs := by
              rw [hbd] at hbs
              cases hx : t.2.1.shifted with
              | none => rw [hx] at hbs; simp at hbs
              | some r => exact ⟨r, rfl⟩
            obtain ⟨s, hcs⟩ : ∃ s, t.2.2.comm.shifted = some s := by
              rw [hbd] at hbc
              cases hx : t.2.2.comm.shifted with
              | none => rw [hx] at hbc; simp at hbc
              | some r => exact ⟨r, rfl⟩
            have hsv := hs d rs s hbd hrs hcs
            rw [hbd, hrs] at ho
            simp only at ho
            cases ξs' with
            | nil => cases ho
            | cons ξ' ξs'' =>
              simp only at ho
              obtain ⟨C, V, ha, hC, hV, hsrw, henf, hen2, _⟩ := ih hh' ξs'' _ ho
              rw [hbd] at hdb
              obtain ⟨bs, hbse, hmem, hdD, _⟩ := checkDB_mem _ _ _ _ hdb
              have hshift := hwf.shifts bs hbse d hmem
              have hne : bs ≠ [] := by intro e; rw [e] at hmem; simp at hmem
              obtain ⟨_, hle, hBD⟩ := hwf.shifted bs hbse hne
              have hdB : d ≤ maxBound ck := by
                unfold maxBound; rw [hbse]; exact hle d hmem
              have hBD' : maxBound ck ≤ D := by unfold maxBound; rw [hbse]; exact hBD
              have hpow : fpow β (D - maxBound ck) * fpow β (maxBound ck - d) = fpow β (D - d) := by
                rw [← fpow_add]; congr 1; omega
              refine ⟨ξ * t.2.2.comm.comm + ξ' * (s - evalPoly t.1.poly z * (g * fpow β (D - d))) + C,
                ξ * evalPoly t.1.poly z + V, ?_, ?_, ?_, ?_, ?_, ?_, ?_⟩
              · simp only [List.map_cons, accumulate, hb, hbd, hcs, hshift, ha]
                simp
              · rw [hC, hc, hsv]
                simp only [eval_padd, eval_pscale, eval_shiftPoly]
                have hq := divLin_quot t.1.poly z β
                linear_combination (ξ' * g * fpow β (D - d)) * hq
                  - (ξ' * g * (β - z) * evalPoly (divLin t.1.poly z).1 β) * hpow
              · rw [hV]; simp only [eval_padd, eval_pscale]; ring
              · intro h0
                apply hsrw
                unfold SRW at h0 ⊢
                simp only [eval_padd, eval_pscale]
                have hw := eval_wr rs z β
                linear_combination h0 + ξ' * hw
              · intro he
                have := hen2 rfl
                rw [he] at this; cases this
              · intro _; exact hen2 rfl
              · intro _; exact Or.inr ⟨bs, hbse, hne⟩

/-- blinding polynomials fit the γ-powers of the key -/
def RandLen (m : Nat) (t : Trip F) : Prop :=
  (pnorm t.2.1.rand).length ≤ m ∧ ∀ rs, t.2.1.shifted = some rs → (pnorm rs).length ≤ m

theorem openLoop_lengths {ck : CK F} (z : F) (m : Nat) (l : List (Trip F))
    (hl : ∀ t ∈ l, RandLen m t) (ξs : List F) (acc0 acc : OpenAcc F) (rest : List F)
    (ho : openLoop ck z (l.map (·.1)) (l.map (·.2.1)) ξs acc0 = .ok (acc, rest))
    (h0 : (pnorm acc0.r).length ≤ m ∧ (pnorm acc0.srw).length ≤ m) :
    (pnorm acc.r).length ≤ m ∧ (pnorm acc.srw).length ≤ m := by
  induction l generalizing ξs acc0 with
  | nil =>
    simp only [List.map_nil, openLoop] at ho
    injection ho with ho; injection ho with h1 _
    subst h1; exact h0
  | cons t l ih =>
    obtain ⟨hr, hrs⟩ := hl t (by simp)
    have hl' : ∀ t' ∈ l, RandLen m t' := fun t' ht' => hl t' (by simp [ht'])
    simp only [List.map_cons, openLoop] at ho
    split at ho
    · cases ho
    · split at ho
      · cases ho
      · cases ξs with
        | nil => cases ho
        | cons ξ ξs' =>
          simp only at ho
          split at ho
          · rename_i b rs hbd hsh
            cases ξs' with
            | nil => cases ho
            | cons ξ' ξs'' =>
              simp only at ho
              apply ih hl' ξs'' _ ho
              refine ⟨pnorm_padd_le _ _ m h0.1 (pnorm_pscale_le _ _ m hr), ?_⟩
              apply pnorm_padd_le _ _ m h0.2
              apply pnorm_pscale_le
              split
              · exact pnorm_nil_le m
              · exact Nat.le_trans (pnorm_divLin_le rs z) (hrs rs hsh)
          · apply ih hl' ξs' _ ho
            exact ⟨pnorm_padd_le _ _ m h0.1 (pnorm_pscale_le _ _ m hr), h0.2⟩

theorem openWith_some (pw : KZG.Powers F) (z : F) (r w wr : List F) (π : KZG.Proof F)
    (h : KZG.openWith pw z r w (some wr) = .ok π) :
    π = ⟨KZG.msmSkip pw.g w + dot pw.gg wr, some (evalPoly r z)⟩ ∧ (pnorm w).length ≤ pw.g.length := by
  unfold KZG.openWith at h
  split at h
  · cases h
  · rename_i hd
    simp only at h
    injection h with h
    exact ⟨h.symm, KZG.pnorm_len_of_deg _ _ ((KZG.checkDegree_ok _ _).1 hd)⟩

/-- **Completeness of `MarlinKZG10::open`/`check`** for any number of polynomials with any mix of
degree bounds and hiding bounds.  `hnd` excludes the degenerate challenge values for which the
code itself drops the shifted blinding value (`random_v.map(..)` on `None`): the combined blinding
polynomial vanishes identically while a shifted one does not (never the case without hiding). -/
theorem open_check_complete {ck : CK F} {vk : VK F} {g γ β h : F} {D n m : Nat}
    (hwf : WF ck vk g γ β h D n m) (z : F) (l : List (Trip F))
    (hh : ∀ t ∈ l, Honest g γ β D t) (hl : ∀ t ∈ l, RandLen m t) (ξs : List F)
    (π : KZG.Proof F) (rest : List F)
    (ho : Marlin.open ck (l.map (·.1)) z (l.map (·.2.1)) ξs = .ok (π, rest))
    (hnd : ∀ acc r, openLoop ck z (l.map (·.1)) (l.map (·.2.1)) ξs ⟨[], [], [], [], [], false⟩
        = .ok (acc, r) → isZeroPoly acc.r = true → evalPoly acc.sr z = 0) :
    check vk (l.map (·.2.2)) z (l.map fun t => evalPoly t.1.poly z) π ξs = .ok (true, rest) := by
  unfold Marlin.open at ho
  split at ho
  · cases ho
  · rename_i acc rest' hloop
    obtain ⟨C, V, ha, hC, hV, hsrw, henf, _, hen3⟩ :=
      open_accumulate hwf z l hh ξs _ acc rest' hloop
    obtain ⟨hrlen, hsrwlen⟩ := openLoop_lengths z m l hl ξs _ acc rest' hloop
      ⟨pnorm_nil_le m, pnorm_nil_le m⟩
    have hsrw' : SRW z β acc := hsrw (by simp [SRW])
    have hnd' := hnd acc rest' hloop
    simp only [evalPoly_nil, sub_zero] at hC hV
    have hpw : (⟨ck.powers, ck.gammaPowers⟩ : KZG.Powers F) = KZG.wfPowers g γ β n m := by
      unfold KZG.wfPowers; rw [hwf.hpowers, hwf.hgamma]
    split at ho
    · cases ho
    · rename_i π0 hopen
      rw [hpw] at hopen
      obtain ⟨hw0, hrv0⟩ := KZG.open_spec g γ β n m acc.p acc.r z π0 hrlen hopen
      have hq := divLin_quot acc.p z β
      have hqr := divLin_quot acc.r z β
      unfold check
      rw [ha]
      simp only
      split at ho
      · -- degree bounds enforced
        rename_i henf_t
        split at ho
        · cases ho
        · rename_i sp hsp
          split at ho
          · cases ho
          · rename_i πs hows
            injection ho with ho; injection ho with hπ hrest
            subst hrest
            obtain ⟨hπs, hswlen⟩ := openWith_some _ z acc.sr acc.sw acc.srw πs hows
            rcases hen3 henf_t with hfalse | ⟨bs, hbse, hne⟩
            · cases hfalse
            · obtain ⟨hspe, _, _⟩ := hwf.shifted bs hbse hne
              rw [hsp] at hspe
              injection hspe with hspe
              have hB : bs.getLastD 0 = maxBound ck := by unfold maxBound; rw [hbse]; rfl
              rw [hB] at hspe
              have hsw : KZG.msmSkip sp acc.sw
                  = g * fpow β (D - maxBound ck) * evalPoly acc.sw β := by
                rw [hspe]
                apply KZG.msmSkip_powers
                simpa [hspe, powers_length] using hswlen
              have hsrwv : dot ck.gammaPowers acc.srw = γ * evalPoly acc.srw β := by
                rw [hwf.hgamma, dot_comm, dot_powers' _ γ β m hsrwlen]
              suffices hkey : KZG.check vk.vk C z V π = true by rw [hkey]
              rw [← hπ, KZG.check_iff_defect, hwf.vkeq]
              unfold KZG.defect KZG.wfVK
              simp only [hπs, hsw, hsrwv, hw0]
              unfold SRW at hsrw'
              cases hrv : π0.rv with
              | none =>
                rw [hrv] at hrv0
                simp only [KZG.rvVal] at hrv0 ⊢
                have hz : isZeroPoly acc.r = true := by
                  -- `open` returns `random_v = None` exactly when the blinding polynomial is zero
                  by_contra hcon
                  obtain ⟨v', hv'⟩ := KZG.open_rv_some (KZG.wfPowers g γ β n m) acc.p z acc.r π0 hopen
                    (by simpa using hcon)
                  rw [hrv] at hv'; cases hv'
                have hsr0 := hnd' hz
                rw [hC, hV]
                linear_combination (h * g) * hq + (h * γ) * hqr - (h * γ) * hsrw'
                  - (h * γ) * hrv0 + (h * γ) * hsr0
              | some v =>
                rw [hrv] at hrv0
                simp only [KZG.rvVal] at hrv0 ⊢
                rw [hC, hV]
                linear_combination (h * g) * hq + (h * γ) * hqr - (h * γ) * hsrw'
                  - (h * γ) * hrv0
      · -- no degree bound among the polynomials
        rename_i henf_f
        injection ho with ho; injection ho with hπ hrest
        subst hrest
        obtain ⟨e1, e2, _⟩ := henf (by simpa using henf_f)
        suffices hkey : KZG.check vk.vk C z V π = true by rw [hkey]
        rw [← hπ, KZG.check_iff_defect, hwf.vkeq]
        unfold KZG.defect KZG.wfVK
        simp only [hw0, hrv0]
        rw [hC, hV, e1, e2]
        simp only [evalPoly_nil, sub_zero]
        linear_combination (h * g) * hq + (h * γ) * hqr

end Marlin
end PCV
