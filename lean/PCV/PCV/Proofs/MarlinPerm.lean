/-
  PCV.Proofs.MarlinPerm — `MarlinKZG10::batch_open` / `batch_check` match their inputs by label: the
  order in which polynomials (with their states), commitments and queries are listed is irrelevant.
-/
import PCV.Proofs.MarlinBatch
import PCV.Proofs.TraitDefault

set_option linter.unusedSectionVars false

namespace PCV
namespace Marlin
variable {F : Type} [Field F] [DecidableEq F]

theorem gatherPolys_congr (polys polys' : List (LPoly F)) (sts sts' : List (Rand F))
    (h : ∀ l, lookupLast (fun (x : LPoly F × Rand F) => x.1.label) l (polys.zip sts)
      = lookupLast (fun (x : LPoly F × Rand F) => x.1.label) l (polys'.zip sts'))
    (ls : List Label) : gatherPolys polys sts ls = gatherPolys polys' sts' ls := by
  induction ls with
  | nil => rfl
  | cons l ls ih => simp only [gatherPolys, h l, ih]

theorem batchOpenGroups_congr (ck : CK F) (polys polys' : List (LPoly F)) (sts sts' : List (Rand F))
    (h : ∀ l, lookupLast (fun (x : LPoly F × Rand F) => x.1.label) l (polys.zip sts)
      = lookupLast (fun (x : LPoly F × Rand F) => x.1.label) l (polys'.zip sts'))
    (gs : List (Label × (F × List Label))) (ξs : List F) :
    batchOpenGroups ck polys sts gs ξs = batchOpenGroups ck polys' sts' gs ξs := by
  induction gs generalizing ξs with
  | nil => rfl
  | cons g gs ih =>
    simp only [batchOpenGroups, gatherPolys_congr polys polys' sts sts' h]
    split
    · rfl
    · split
      · rfl
      · rw [ih]

theorem gatherComms_congr (comms comms' : List (LComm F))
    (h : ∀ l, lookupLast (fun (c : LComm F) => c.label) l comms
      = lookupLast (fun (c : LComm F) => c.label) l comms')
    (evals : List ((Label × F) × F)) (z : F) (ls : List Label) :
    gatherComms comms evals z ls = gatherComms comms' evals z ls := by
  induction ls with
  | nil => rfl
  | cons l ls ih => simp only [gatherComms, h l, ih]

theorem combineGroups_congr (vk : VK F) (comms comms' : List (LComm F))
    (h : ∀ l, lookupLast (fun (c : LComm F) => c.label) l comms
      = lookupLast (fun (c : LComm F) => c.label) l comms')
    (evals : List ((Label × F) × F)) (gs : List (Label × (F × List Label))) (ξs : List F) :
    combineGroups vk comms evals gs ξs = combineGroups vk comms' evals gs ξs := by
  induction gs generalizing ξs with
  | nil => rfl
  | cons g gs ih =>
    simp only [combineGroups, gatherComms_congr comms comms' h]
    split
    · rfl
    · split
      · rfl
      · rw [ih]

/-- the prover's (polynomial, state) pairs may be listed in any order -/
theorem batchOpen_perm (ck : CK F) (polys polys' : List (LPoly F)) (sts sts' : List (Rand F))
    (qs : List (Query F)) (ξs : List F)
    (hp : (polys.zip sts).Perm (polys'.zip sts'))
    (hnd : ((polys.zip sts).map fun x => x.1.label).Nodup) :
    batchOpen ck polys sts qs ξs = batchOpen ck polys' sts' qs ξs := by
  unfold batchOpen
  exact batchOpenGroups_congr ck polys polys' sts sts'
    (fun l => TraitDefault.lookupLast_perm _ l _ _ hp hnd) _ ξs

/-- the verifier's commitments may be listed in any order -/
theorem batchCheck_perm (vk : VK F) (comms comms' : List (LComm F)) (qs : List (Query F))
    (evals : List ((Label × F) × F)) (πs : List (KZG.Proof F)) (ξs rs : List F)
    (hp : comms.Perm comms') (hnd : (comms.map fun c => c.label).Nodup) :
    batchCheck vk comms qs evals πs ξs rs = batchCheck vk comms' qs evals πs ξs rs := by
  unfold batchCheck
  rw [combineGroups_congr vk comms comms' (fun l => TraitDefault.lookupLast_perm _ l _ _ hp hnd)]

end Marlin
end PCV
