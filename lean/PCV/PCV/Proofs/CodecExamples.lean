/-
  PCV.Proofs.CodecExamples — fixed example data for the non-vacuity examples of Props/C12.lean:
  a copy of the schema of `kzg10::VerifierKey` as it is today, toy field codecs, a consistent
  record, and mutants of the schema.  (Deliberately NOT the generated schema: a legitimate change of
  the Rust struct must not break examples.)
-/
import PCV.Proofs.Codec

namespace PCV.Ex
open PCV PCV.Codec PCV.Schema

/-- the shape of `kzg10::VerifierKey` -/
def vkSchema : Schema where
  fields := [("g", "E::G1Affine"), ("gamma_g", "E::G1Affine"), ("h", "E::G2Affine"),
    ("beta_h", "E::G2Affine"), ("prepared_h", "E::G2Prepared"), ("prepared_beta_h", "E::G2Prepared")]
  written := ["g", "gamma_g", "h", "beta_h"]
  read := [⟨"g", "g", "E::G1Affine", false⟩, ⟨"gamma_g", "gamma_g", "E::G1Affine", false⟩,
    ⟨"h", "h", "E::G2Affine", false⟩, ⟨"beta_h", "beta_h", "E::G2Affine", false⟩]
  sized := ["g", "gamma_g", "h", "beta_h"]
  checked := ["g", "gamma_g", "h", "beta_h"]
  inspected := []
  prepared := [("prepared_h", "h"), ("prepared_beta_h", "beta_h")]

/-- toy field codec: every field is two raw bytes -/
def fc2 : String → Codec (List Nat) := fun _ => raw 2
/-- toy preparation -/
def prep2 : String → List Nat → List Nat := fun _ v => v.map (· + 100)
/-- a verifier key whose prepared fields are consistent -/
def vk0 : Rec (List Nat) :=
  [("g", [1, 2]), ("gamma_g", [3, 4]), ("h", [5, 6]), ("beta_h", [7, 8]),
   ("prepared_h", [105, 106]), ("prepared_beta_h", [107, 108])]

theorem vk0_wf : vkSchema.WF (fun _ v => v.length = 2) prep2 vk0 := by
  refine ⟨by decide, by decide, ?_⟩
  intro src h1 h2
  have h1' : src = "g" ∨ src = "gamma_g" ∨ src = "h" ∨ src = "beta_h" ∨ src = "prepared_h"
      ∨ src = "prepared_beta_h" := by
    simpa [Schema.fieldNames, vkSchema] using h1
  rcases h1' with rfl | rfl | rfl | rfl | rfl | rfl
  · exact absurd h2 (by decide)
  · exact absurd h2 (by decide)
  · decide
  · decide
  · exact absurd h2 (by decide)
  · exact absurd h2 (by decide)

/-- mutant 1: the deserializer reads `gamma_g` before `g` -/
def vkSwapped : Schema :=
  { vkSchema with
    read := [⟨"gamma_g", "gamma_g", "E::G1Affine", false⟩, ⟨"g", "g", "E::G1Affine", false⟩,
             ⟨"h", "h", "E::G2Affine", false⟩, ⟨"beta_h", "beta_h", "E::G2Affine", false⟩] }
/-- mutant 2: `serialized_size` forgets `beta_h` -/
def vkShortSize : Schema := { vkSchema with sized := ["g", "gamma_g", "h"] }
/-- mutant 3: `prepared_beta_h` is rebuilt from `h` -/
def vkWrongPrep : Schema :=
  { vkSchema with prepared := [("prepared_h", "h"), ("prepared_beta_h", "h")] }
/-- mutant 4: a field is not written at all -/
def vkDropped : Schema :=
  { vkSchema with written := ["g", "gamma_g", "h"], sized := ["g", "gamma_g", "h"] }
/-- mutant 5: `Valid::check` skips `beta_h` -/
def vkUnchecked : Schema := { vkSchema with checked := ["g", "gamma_g", "h"] }

end PCV.Ex
