/-
  PCV.Proofs.MarlinLCComplete — end-to-end completeness of `Marlin::open_combinations` followed by
  `Marlin::check_combinations` (MarlinKZG10 instance): the verifier's combined commitments are the
  prover's, the constants subtracted from the claimed values leave exactly the evaluations of the
  combined polynomials, and `batch_open`/`batch_check` completeness (`MarlinBatch`) finishes.
-/
import PCV.Proofs.MarlinLC
import PCV.Proofs.MarlinBatch

set_option linter.unusedSectionVars false
set_option linter.unusedVariables false
set_option linter.unusedSimpArgs false

namespace PCV
namespace Marlin

variable {F : Type} [Field F] [DecidableEq F]

/-! ### lookups commute with label-preserving maps -/

theorem lookupLast_map_aux {α β : Type} (lbl : α → Label) (lbl' : β → Label) (f : α → β) (l : Label)
    (xs : List α) (h : ∀ x ∈ xs, lbl' (f x) = lbl x) (acc : Option α) :
    (xs.map f).foldl (fun a x => if lbl' x = l then some x else a) (acc.map f)
      = (xs.foldl (fun a x => if lbl x = l then some x else a) acc).map f := by
  induction xs generalizing acc with
  | nil => rfl
  | cons x xs ih =>
    simp only [List.map_cons, List.foldl_cons]
    rw [h x (by simp)]
    by_cases hx : lbl x = l
    · simp only [hx, if_true]
      exact ih (fun y hy => h y (List.mem_cons_of_mem _ hy)) (some x)
    · simp only [hx, if_false]
      exact ih (fun y hy => h y (List.mem_cons_of_mem _ hy)) acc

theorem lookupLast_map {α β : Type} (lbl : α → Label) (lbl' : β → Label) (f : α → β) (l : Label)
    (xs : List α) (h : ∀ x ∈ xs, lbl' (f x) = lbl x) :
    lookupLast lbl' l (xs.map f) = (lookupLast lbl l xs).map f :=
  lookupLast_map_aux lbl lbl' f l xs h none

/-! ### the verifier combines the same commitments -/

/-- what the verifier knows of a triple -/
def vview (t : Trip' F) : Trip' F := (⟨t.2.2.label, [], t.2.2.bound, none⟩, ⟨[], none⟩, t.2.2)

/-- prover and verifier accumulators agree on the commitment part -/
def CommRel (a b : LCAcc F) : Prop := a.comm = b.comm ∧ a.shifted = b.shifted ∧ a.bound = b.bound

theorem lcStep_comm (trips : List (Trip' F))
    (hlab : ∀ t ∈ trips, t.2.2.label = t.1.label ∧ t.2.2.bound = t.1.bound ∧ t.1.bound = none)
    (k : Nat) (a a' b : LCAcc F) (term : F × LC.LCTerm) (hr : CommRel a b)
    (hs : lcStep trips k a term = .ok a') :
    ∃ b', lcStep (trips.map vview) k b term = .ok b' ∧ CommRel a' b' := by
  unfold lcStep at hs ⊢
  cases ht : term.2 with
  | one =>
    rw [ht] at hs
    simp only at hs ⊢
    injection hs with hs; subst hs
    exact ⟨b, rfl, hr⟩
  | poly l =>
    rw [ht] at hs
    simp only at hs ⊢
    rw [lookupLast_map (fun (t : Trip' F) => t.1.label) (fun (t : Trip' F) => t.1.label) vview l trips
      (fun t ht' => (hlab t ht').1)]
    cases hl : lookupLast (fun (t : Trip' F) => t.1.label) l trips with
    | none => rw [hl] at hs; cases hs
    | some x =>
      obtain ⟨p, st, c⟩ := x
      rw [hl] at hs
      obtain ⟨hmem, _⟩ := lookupLast_mem _ l trips (p, st, c) hl
      obtain ⟨_, hb, hn⟩ := hlab (p, st, c) hmem
      simp only at hb hn
      simp only [Option.map_some, vview] at hs ⊢
      have hnb : ¬ (p.bound.isSome = true) := by rw [hn]; simp
      have hnc : ¬ (c.bound.isSome = true) := by rw [hb, hn]; simp
      rw [if_neg (by intro hx; exact hnb hx.2), if_neg hnb] at hs
      rw [if_neg (by intro hx; exact hnc hx.2), if_neg hnc]
      injection hs with hs; subst hs
      obtain ⟨r1, r2, r3⟩ := hr
      exact ⟨_, rfl, by simp only [LCAcc.addComm, r1], by simp only [LCAcc.addComm, r2], r3⟩

theorem go_comm (trips : List (Trip' F))
    (hlab : ∀ t ∈ trips, t.2.2.label = t.1.label ∧ t.2.2.bound = t.1.bound ∧ t.1.bound = none)
    (lc : LC.LinComb F) (terms : List (F × LC.LCTerm)) (a a' b : LCAcc F) (hr : CommRel a b)
    (hs : combineLC.go trips lc a terms = .ok a') :
    ∃ b', combineLC.go (trips.map vview) lc b terms = .ok b' ∧ CommRel a' b' := by
  induction terms generalizing a b with
  | nil =>
    simp only [combineLC.go] at hs ⊢
    injection hs with hs; subst hs
    exact ⟨b, rfl, hr⟩
  | cons t ts ih =>
    simp only [combineLC.go] at hs ⊢
    split at hs
    · cases hs
    · rename_i a1 h1
      obtain ⟨b1, hb1, hr1⟩ := lcStep_comm trips hlab _ a a1 b t hr h1
      rw [hb1]
      exact ih a1 b1 hr1 hs

theorem combineLCComm_eq (trips : List (Trip' F))
    (hlab : ∀ t ∈ trips, t.2.2.label = t.1.label ∧ t.2.2.bound = t.1.bound ∧ t.1.bound = none)
    (lc : LC.LinComb F) (res : Trip' F) (hc : combineLC trips lc = .ok res) :
    combineLCComm (trips.map (·.2.2)) lc = .ok res.2.2 := by
  unfold combineLCComm
  have hm : (trips.map (·.2.2)).map
      (fun c => ((⟨c.label, [], c.bound, none⟩ : LPoly F), (⟨[], none⟩ : Rand F), c))
      = trips.map vview := by
    rw [List.map_map]; rfl
  rw [hm]
  unfold combineLC at hc ⊢
  split at hc
  · cases hc
  · rename_i a ha
    injection hc with hc; subst hc
    obtain ⟨b', hb', r1, r2, r3⟩ := go_comm trips hlab lc lc.terms _ a _ ⟨rfl, rfl, rfl⟩ ha
    rw [hb']
    simp only [r1, r2, r3]

theorem combineAllComm_eq (trips : List (Trip' F))
    (hlab : ∀ t ∈ trips, t.2.2.label = t.1.label ∧ t.2.2.bound = t.1.bound ∧ t.1.bound = none)
    (lcs : List (LC.LinComb F)) (ts : List (Trip' F)) (hc : combineAll trips lcs = .ok ts) :
    combineAllComm (trips.map (·.2.2)) lcs = .ok (ts.map (·.2.2)) := by
  induction lcs generalizing ts with
  | nil =>
    simp only [combineAll] at hc
    injection hc with hc; subst hc
    rfl
  | cons lc lcs ih =>
    simp only [combineAll] at hc
    split at hc
    · cases hc
    · rename_i t ht
      split at hc
      · cases hc
      · rename_i ts' hts
        injection hc with hc; subst hc
        simp only [combineAllComm, combineLCComm_eq trips hlab lc t ht, ih ts' hts, List.map_cons]

/-- every combined triple comes from one of the combinations -/
theorem combineAll_mem (trips : List (Trip' F)) (lcs : List (LC.LinComb F)) (ts : List (Trip' F))
    (hc : combineAll trips lcs = .ok ts) :
    ∀ t ∈ ts, ∃ lc ∈ lcs, combineLC trips lc = .ok t := by
  induction lcs generalizing ts with
  | nil =>
    simp only [combineAll] at hc
    injection hc with hc; subst hc
    simp
  | cons lc lcs ih =>
    simp only [combineAll] at hc
    split at hc
    · cases hc
    · rename_i t ht
      split at hc
      · cases hc
      · rename_i ts' hts
        injection hc with hc; subst hc
        intro t' ht'
        rcases List.mem_cons.1 ht' with h | h
        · exact ⟨lc, by simp, h ▸ ht⟩
        · obtain ⟨lc', hl', hc'⟩ := ih ts' hts t' h
          exact ⟨lc', List.mem_cons_of_mem _ hl', hc'⟩

theorem combineLC_labels (trips : List (Trip' F)) (lc : LC.LinComb F) (res : Trip' F)
    (hc : combineLC trips lc = .ok res) : res.1.label = lc.label ∧ res.2.2.label = lc.label := by
  unfold combineLC at hc
  split at hc
  · cases hc
  · injection hc with hc; subst hc
    exact ⟨rfl, rfl⟩

/-! ### blinding polynomials of combinations still fit the key -/

theorem go_randlen (trips : List (Trip' F)) (m : Nat) (hL : ∀ t ∈ trips, RandLen m t)
    (hn : ∀ t ∈ trips, t.1.bound = none ∧ t.2.1.shifted = none)
    (lc : LC.LinComb F) (terms : List (F × LC.LCTerm)) (a a' : LCAcc F)
    (hi : (pnorm a.rand.rand).length ≤ m ∧ a.rand.shifted = none)
    (hs : combineLC.go trips lc a terms = .ok a') :
    (pnorm a'.rand.rand).length ≤ m ∧ a'.rand.shifted = none := by
  induction terms generalizing a with
  | nil =>
    simp only [combineLC.go] at hs
    injection hs with hs; subst hs; exact hi
  | cons t ts ih =>
    simp only [combineLC.go] at hs
    split at hs
    · cases hs
    · rename_i a1 h1
      refine ih a1 ?_ hs
      unfold lcStep at h1
      cases ht : t.2 with
      | one =>
        rw [ht] at h1
        simp only at h1
        injection h1 with h1; subst h1; exact hi
      | poly l =>
        rw [ht] at h1
        simp only at h1
        cases hl : lookupLast (fun (t : Trip' F) => t.1.label) l trips with
        | none => rw [hl] at h1; cases h1
        | some x =>
          obtain ⟨p, st, c⟩ := x
          rw [hl] at h1
          obtain ⟨hmem, _⟩ := lookupLast_mem _ l trips (p, st, c) hl
          obtain ⟨hpb, hsn⟩ := hn (p, st, c) hmem
          simp only at hpb hsn h1
          have hnb : ¬ (p.bound.isSome = true) := by rw [hpb]; simp
          rw [if_neg (by intro hx; exact hnb hx.2), if_neg hnb] at h1
          injection h1 with h1; subst h1
          obtain ⟨hr, _⟩ := hL (p, st, c) hmem
          simp only at hr
          refine ⟨?_, ?_⟩
          · simp only [LCAcc.addComm, Rand.addScaled]
            exact pnorm_padd_le _ _ m hi.1 (pnorm_pscale_le _ _ m hr)
          · simp only [LCAcc.addComm, Rand.addScaled, hi.2, hsn]; rfl

theorem combineLC_randlen (trips : List (Trip' F)) (m : Nat) (hL : ∀ t ∈ trips, RandLen m t)
    (hn : ∀ t ∈ trips, t.1.bound = none ∧ t.2.1.shifted = none)
    (lc : LC.LinComb F) (res : Trip' F) (hc : combineLC trips lc = .ok res) : RandLen m res := by
  unfold combineLC at hc
  split at hc
  · cases hc
  · rename_i a ha
    injection hc with hc; subst hc
    obtain ⟨h1, h2⟩ := go_randlen trips m hL hn lc lc.terms _ a ⟨by simp [pnorm_nil_le], rfl⟩ ha
    exact ⟨h1, fun rs hrs => by simp only [h2] at hrs; cases hrs⟩

theorem combineLC_shifted_none (trips : List (Trip' F)) (m : Nat) (hL : ∀ t ∈ trips, RandLen m t)
    (hn : ∀ t ∈ trips, t.1.bound = none ∧ t.2.1.shifted = none)
    (lc : LC.LinComb F) (res : Trip' F) (hc : combineLC trips lc = .ok res) :
    res.2.1.shifted = none := by
  unfold combineLC at hc
  split at hc
  · cases hc
  · rename_i a ha
    injection hc with hc; subst hc
    exact (go_randlen trips m hL hn lc lc.terms _ a ⟨by simp [pnorm_nil_le], rfl⟩ ha).2

/-! ### the constants subtracted by the verifier -/

/-- the total the verifier subtracts from claimed values carrying label `lab` -/
def adjConst : List (LC.LinComb F) → Label → F
  | [], _ => 0
  | lc :: lcs, lab => (if lc.label = lab then lcConstant lc else 0) + adjConst lcs lab

theorem lookupEval_map_aux (evs : List ((Label × F) × F)) (L : Label) (c : F) (lab : Label) (z : F)
    (acc : Option F) :
    (evs.map fun e => if e.1.1 = L then (e.1, e.2 - c) else e).foldl
        (fun a e => if e.1 = (lab, z) then some e.2 else a)
        (acc.map fun v => if lab = L then v - c else v)
      = (evs.foldl (fun a e => if e.1 = (lab, z) then some e.2 else a) acc).map
          fun v => if lab = L then v - c else v := by
  induction evs generalizing acc with
  | nil => rfl
  | cons e es ih =>
    simp only [List.map_cons, List.foldl_cons]
    by_cases he : e.1 = (lab, z)
    · have h1 : (if e.1.1 = L then (e.1, e.2 - c) else e).1 = (lab, z) := by
        split <;> simp [he]
      rw [if_pos h1, if_pos he]
      have h2 : some (if e.1.1 = L then (e.1, e.2 - c) else e).2
          = (some e.2).map fun v => if lab = L then v - c else v := by
        have : e.1.1 = lab := by rw [he]
        simp only [Option.map_some, this]
        split <;> rfl
      rw [h2]
      exact ih (some e.2)
    · have h1 : ¬ (if e.1.1 = L then (e.1, e.2 - c) else e).1 = (lab, z) := by
        split <;> simpa using he
      rw [if_neg h1, if_neg he]
      exact ih acc

theorem lookupEval_adjust (lcs : List (LC.LinComb F)) (evs : List ((Label × F) × F)) (lab : Label)
    (z : F) :
    lookupEval (adjustEvals lcs evs) lab z = (lookupEval evs lab z).map (· - adjConst lcs lab) := by
  induction lcs generalizing evs with
  | nil =>
    simp only [adjustEvals, List.foldl_nil, adjConst, sub_zero]
    cases lookupEval evs lab z <;> rfl
  | cons lc lcs ih =>
    have hstep : adjustEvals (lc :: lcs) evs
        = adjustEvals lcs (evs.map fun e => if e.1.1 = lc.label then (e.1, e.2 - lcConstant lc) else e) := by
      simp only [adjustEvals, List.foldl_cons]
    rw [hstep, ih]
    have := lookupEval_map_aux evs lc.label (lcConstant lc) lab z none
    simp only [Option.map_none] at this
    unfold lookupEval
    rw [this]
    cases evs.foldl (fun a e => if e.1 = (lab, z) then some e.2 else a) none with
    | none => rfl
    | some v =>
      simp only [Option.map_some, adjConst]
      congr 1
      by_cases hl : lab = lc.label
      · rw [if_pos hl, if_pos hl.symm]; ring
      · rw [if_neg hl, if_neg (fun h => hl h.symm)]; ring

theorem adjConst_unique (lcs : List (LC.LinComb F)) (hnd : (lcs.map (·.label)).Nodup)
    (lc : LC.LinComb F) (hm : lc ∈ lcs) : adjConst lcs lc.label = lcConstant lc := by
  induction lcs with
  | nil => cases hm
  | cons x xs ih =>
    simp only [List.map_cons, List.nodup_cons] at hnd
    simp only [adjConst]
    rcases List.mem_cons.1 hm with h | h
    · subst h
      rw [if_pos rfl]
      have : adjConst xs lc.label = 0 := by
        have hno : ∀ y ∈ xs, y.label ≠ lc.label := by
          intro y hy he
          exact hnd.1 (he ▸ List.mem_map_of_mem hy)
        clear ih hm hnd
        induction xs with
        | nil => rfl
        | cons y ys ihy =>
          simp only [adjConst]
          rw [if_neg (hno y (by simp)), ihy (fun y' hy' => hno y' (List.mem_cons_of_mem _ hy'))]
          ring
      rw [this]; ring
    · have hne : x.label ≠ lc.label := by
        intro he
        exact hnd.1 (he ▸ List.mem_map_of_mem h)
      rw [if_neg hne, ih hnd.2 h]; ring

/-! ### end to end -/

/-- the verifier's side of an honest combination opening: the combined commitments are computed, the
per-label accumulation consumes exactly the prover's challenges, and every KZG defect is zero -/
theorem lc_accept {ck : CK F} {vk : VK F} {g γ β h : F} {D n m : Nat}
    (hwf : WF ck vk g γ β h D n m) (l : List (Trip' F))
    (hH : ∀ t ∈ l, Honest g γ β D t ∧ t.1.bound = none) (hL : ∀ t ∈ l, RandLen m t)
    (hlab : ∀ t ∈ l, t.2.2.label = t.1.label)
    (lcs : List (LC.LinComb F)) (hnodup : (lcs.map (·.label)).Nodup)
    (qs : List (Query F)) (evals : List ((Label × F) × F))
    (hev : ∀ gr ∈ groupQueries qs, ∀ lc ∈ lcs, lc.label ∈ gr.2.2 →
      lookupEval evals lc.label gr.2.1
        = some (lcPolyValue l gr.2.1 lc.terms + lcConstant lc))
    (ξs : List F) (πs : List (KZG.Proof F)) (rest : List F)
    (ho : openCombinations ck (l.map (·.1)) (l.map (·.2.1)) (l.map (·.2.2)) lcs qs ξs = .ok (πs, rest))
    :
    ∃ lcComms, combineAllComm (l.map (·.2.2)) lcs = .ok lcComms ∧
      ∃ trip, combineGroups vk lcComms (adjustEvals lcs evals) (groupQueries qs) ξs = .ok (trip, rest) ∧
        πs.length = trip.length ∧
        ∀ d ∈ KZG.defects vk.vk (trip.map (·.1)) (trip.map (·.2.1)) (trip.map (·.2.2)) πs, d = 0 := by
  have hzip : (l.map (·.1)).zip ((l.map (·.2.1)).zip (l.map (·.2.2))) = l := by
    clear hH hL hlab hev ho
    induction l with
    | nil => rfl
    | cons t ts ih => simp only [List.map_cons, List.zip_cons_cons, ih]
  unfold openCombinations at ho
  rw [hzip] at ho
  split at ho
  · cases ho
  · rename_i ts hts
    have hlab3 : ∀ t ∈ l, t.2.2.label = t.1.label ∧ t.2.2.bound = t.1.bound ∧ t.1.bound = none :=
      fun t ht => ⟨hlab t ht, (hH t ht).1.1, (hH t ht).2⟩
    have hn : ∀ t ∈ l, t.1.bound = none ∧ t.2.1.shifted = none := by
      intro t ht
      obtain ⟨⟨_, _, hbs, _, _⟩, hb⟩ := hH t ht
      refine ⟨hb, ?_⟩
      rw [hb] at hbs
      cases hx : t.2.1.shifted with
      | none => rfl
      | some _ => rw [hx] at hbs; simp at hbs
    refine ⟨ts.map (·.2.2), combineAllComm_eq l hlab3 lcs ts hts, ?_⟩
    have hmem := combineAll_mem l lcs ts hts
    refine batchOpenGroups_accept hwf ts ?_ ?_ ?_ (adjustEvals lcs evals) (groupQueries qs) ?_ ξs πs rest
      ho ?_
    · intro t ht
      obtain ⟨lc, _, hc⟩ := hmem t ht
      exact (combineLC_honest l hH lc t hc 0).1
    · intro t ht
      obtain ⟨lc, _, hc⟩ := hmem t ht
      exact combineLC_randlen l m hL hn lc t hc
    · intro t ht
      obtain ⟨lc, _, hc⟩ := hmem t ht
      obtain ⟨h1, h2⟩ := combineLC_labels l lc t hc
      rw [h1, h2]
    · intro gr hgr lab hlabm t ht
      have htm : t ∈ ts := by
        rcases lookupT_mem lab ts none t ht with h1 | h1
        · exact h1
        · cases h1
      obtain ⟨lc, hlc, hc⟩ := hmem t htm
      have htl : t.1.label = lab := by
        -- the looked-up triple carries the label that was looked up
        have : ∀ (xs : List (Trip F)) (acc : Option (Trip F)),
            lookupT lab xs acc = some t → (t.1.label = lab ∨ acc = some t) := by
          intro xs
          induction xs with
          | nil => intro acc h; right; simpa [lookupT] using h
          | cons x xs ihx =>
            intro acc h
            simp only [lookupT, List.foldl_cons] at h
            rcases ihx _ h with h1 | h1
            · left; exact h1
            · by_cases hx : x.1.label = lab
              · simp only [hx, if_true] at h1
                injection h1 with h1; left; rw [← h1]; exact hx
              · simp only [hx, if_false] at h1; right; exact h1
        rcases this ts none ht with h1 | h1
        · exact h1
        · cases h1
      have hll : lc.label = lab := by rw [← (combineLC_labels l lc t hc).1, htl]
      rw [lookupEval_adjust, ← hll, adjConst_unique lcs hnodup lc hlc,
        hev gr hgr lc hlc (hll ▸ hlabm)]
      simp only [Option.map_some]
      congr 1
      rw [(combineLC_honest l hH lc t hc gr.2.1).2.2]
      ring
    · -- combinations of unbounded polynomials carry no shifted blinding: the side condition is vacuous
      apply groupsND_nonhiding
      intro st hst rs' hrs
      obtain ⟨t, ht, hte⟩ := List.mem_map.1 hst
      obtain ⟨lc, _, hc⟩ := hmem t ht
      have := combineLC_shifted_none l m hL hn lc t hc
      rw [hte] at this
      rw [this] at hrs; cases hrs

/-- **`open_combinations` → `check_combinations` completeness** for MarlinKZG10 over unbounded
polynomials (a degree-bounded polynomial may only appear alone with coefficient one, where the
combination *is* the polynomial and `marlin_batch_complete` applies directly). -/
theorem lc_complete {ck : CK F} {vk : VK F} {g γ β h : F} {D n m : Nat}
    (hwf : WF ck vk g γ β h D n m) (l : List (Trip' F))
    (hH : ∀ t ∈ l, Honest g γ β D t ∧ t.1.bound = none) (hL : ∀ t ∈ l, RandLen m t)
    (hlab : ∀ t ∈ l, t.2.2.label = t.1.label)
    (lcs : List (LC.LinComb F)) (hnodup : (lcs.map (·.label)).Nodup)
    (qs : List (Query F)) (evals : List ((Label × F) × F))
    (hev : ∀ gr ∈ groupQueries qs, ∀ lc ∈ lcs, lc.label ∈ gr.2.2 →
      lookupEval evals lc.label gr.2.1
        = some (lcPolyValue l gr.2.1 lc.terms + lcConstant lc))
    (ξs : List F) (πs : List (KZG.Proof F)) (rest : List F)
    (ho : openCombinations ck (l.map (·.1)) (l.map (·.2.1)) (l.map (·.2.2)) lcs qs ξs = .ok (πs, rest))
    (rs : List F) :
    checkCombinations vk (l.map (·.2.2)) lcs qs evals πs ξs rs = .ok true := by
  obtain ⟨lcComms, hcc, trip, htrip, hlen, hdef⟩ :=
    lc_accept hwf l hH hL hlab lcs hnodup qs evals hev ξs πs rest ho
  unfold checkCombinations
  rw [hcc]
  exact batchCheck_all_true vk lcComms qs (adjustEvals lcs evals) πs ξs rs trip rest htrip hlen hdef

end Marlin
end PCV
