/-
  PCV.Proofs.MarlinBatch — completeness of `MarlinKZG10::batch_open` followed by
  `MarlinKZG10::batch_check`: the label lookups of prover and verifier find aligned
  (polynomial, state, commitment) triples, every point label's combined opening has KZG defect 0, and
  the batch is accepted for every list of verifier randomizers.
-/
import PCV.Proofs.MarlinMore

set_option linter.unusedSectionVars false
set_option linter.unusedVariables false
set_option linter.unusedSimpArgs false

namespace PCV
namespace Marlin

variable {F : Type} [Field F] [DecidableEq F]

/-- last-write-wins lookup of a polynomial label among triples -/
def lookupT (lab : Label) (l : List (Trip F)) (acc : Option (Trip F)) : Option (Trip F) :=
  l.foldl (fun acc t => if t.1.label = lab then some t else acc) acc

theorem lookupT_mem (lab : Label) (l : List (Trip F)) (acc : Option (Trip F)) (t : Trip F)
    (h : lookupT lab l acc = some t) : t ∈ l ∨ acc = some t := by
  induction l generalizing acc with
  | nil => right; simpa [lookupT] using h
  | cons x xs ih =>
    simp only [lookupT, List.foldl_cons] at h
    rcases ih _ h with h1 | h1
    · left; exact List.mem_cons_of_mem _ h1
    · by_cases hx : x.1.label = lab
      · simp only [hx, if_true] at h1
        injection h1 with h1; left; rw [← h1]; simp
      · simp only [hx, if_false] at h1
        right; exact h1

/-- the prover's lookup (`polys.zip(states)` by polynomial label) finds the triple's first two parts -/
theorem lookup_polys (lab : Label) (l : List (Trip F)) (acc : Option (Trip F)) :
    ((l.map (·.1)).zip (l.map (·.2.1))).foldl
        (fun a (x : LPoly F × Rand F) => if x.1.label = lab then some x else a)
        (acc.map fun t => (t.1, t.2.1))
      = (lookupT lab l acc).map fun t => (t.1, t.2.1) := by
  induction l generalizing acc with
  | nil => rfl
  | cons x xs ih =>
    simp only [List.map_cons, List.zip_cons_cons, List.foldl_cons, lookupT]
    by_cases hx : x.1.label = lab
    · simp only [hx, if_true]
      exact ih (some x)
    · simp only [hx, if_false]
      exact ih acc

/-- the verifier's lookup (commitments by their own label) finds the same triple's commitment -/
theorem lookup_comms (lab : Label) (l : List (Trip F)) (hlab : ∀ t ∈ l, t.2.2.label = t.1.label)
    (acc : Option (Trip F)) :
    (l.map (·.2.2)).foldl (fun a (c : LComm F) => if c.label = lab then some c else a)
        (acc.map (·.2.2))
      = (lookupT lab l acc).map (·.2.2) := by
  induction l generalizing acc with
  | nil => rfl
  | cons x xs ih =>
    simp only [List.map_cons, List.foldl_cons, lookupT]
    rw [hlab x (by simp)]
    by_cases hx : x.1.label = lab
    · simp only [hx, if_true]
      exact ih (fun t ht => hlab t (List.mem_cons_of_mem _ ht)) (some x)
    · simp only [hx, if_false]
      exact ih (fun t ht => hlab t (List.mem_cons_of_mem _ ht)) acc

/-- the verifier's lookups for one point label find the commitments of the triples the prover's
lookups found, with the true values -/
theorem gather_aligned {g γ β : F} {D : Nat} (l : List (Trip F))
    (hH : ∀ t ∈ l, Honest g γ β D t) (hlab : ∀ t ∈ l, t.2.2.label = t.1.label)
    (evals : List ((Label × F) × F)) (z : F) (ls : List Label)
    (hev : ∀ lab ∈ ls, ∀ t, lookupT lab l none = some t →
      lookupEval evals lab z = some (evalPoly t.1.poly z))
    (ps : List (LPoly F)) (ss : List (Rand F))
    (hg : gatherPolys (l.map (·.1)) (l.map (·.2.1)) ls = .ok (ps, ss)) :
    ∃ sub : List (Trip F), (∀ t ∈ sub, t ∈ l) ∧ ps = sub.map (·.1) ∧ ss = sub.map (·.2.1) ∧
      gatherComms (l.map (·.2.2)) evals z ls
        = .ok (sub.map (·.2.2), sub.map fun t => evalPoly t.1.poly z) := by
  induction ls generalizing ps ss with
  | nil =>
    simp only [gatherPolys] at hg
    injection hg with hg; injection hg with h1 h2
    subst h1; subst h2
    exact ⟨[], by simp, rfl, rfl, by simp [gatherComms]⟩
  | cons lab ls ih =>
    simp only [gatherPolys] at hg
    split at hg
    · cases hg
    · rename_i p st hlook
      split at hg
      · cases hg
      · rename_i ps' ss' hrec
        injection hg with hg; injection hg with h1 h2
        subst h1; subst h2
        obtain ⟨sub, hsub, hps, hss, hgc⟩ :=
          ih (fun lab' hl' => hev lab' (List.mem_cons_of_mem _ hl')) ps' ss' hrec
        have h1 := lookup_polys lab l none
        simp only [Option.map_none] at h1
        have hlook' : ((l.map (·.1)).zip (l.map (·.2.1))).foldl
            (fun a (x : LPoly F × Rand F) => if x.1.label = lab then some x else a) none
            = some (p, st) := hlook
        rw [hlook'] at h1
        cases ht : lookupT lab l none with
        | none => rw [ht] at h1; simp at h1
        | some t =>
          rw [ht] at h1
          simp only [Option.map_some, Option.some.injEq, Prod.mk.injEq] at h1
          have htm : t ∈ l := by
            rcases lookupT_mem lab l none t ht with h | h
            · exact h
            · cases h
          have h2 := lookup_comms lab l hlab none
          simp only [Option.map_none] at h2
          rw [ht] at h2
          simp only [Option.map_some] at h2
          obtain ⟨hb, _, _, hsh, _⟩ := hH t htm
          have hv := hev lab (by simp) t ht
          refine ⟨t :: sub, ?_, ?_, ?_, ?_⟩
          · intro t' ht'
            rcases List.mem_cons.1 ht' with h | h
            · rw [h]; exact htm
            · exact hsub t' h
          · rw [List.map_cons, ← hps, ← h1.1]
          · rw [List.map_cons, ← hss, ← h1.2]
          · simp only [gatherComms, lookupLast, h2]
            rw [if_neg (by rw [hb, hsh]; simp)]
            simp only [hv, hgc, List.map_cons]

/-- the non-degeneracy side condition of `open_check_complete`, for every point label of a batch in
the order `batch_open` visits them (vacuous for non-hiding polynomials, see `groupsND_nonhiding`) -/
def GroupsND (ck : CK F) (polys : List (LPoly F)) (sts : List (Rand F)) :
    List (Label × (F × List Label)) → List F → Prop
  | [], _ => True
  | gr :: gs, ξs =>
    match gatherPolys polys sts gr.2.2 with
    | .error _ => True
    | .ok (ps, ss) =>
      (∀ acc r, openLoop ck gr.2.1 ps ss ξs ⟨[], [], [], [], [], false⟩ = .ok (acc, r) →
          isZeroPoly acc.r = true → evalPoly acc.sr gr.2.1 = 0) ∧
      match Marlin.open ck ps gr.2.1 ss ξs with
      | .error _ => True
      | .ok (_, ξs') => GroupsND ck polys sts gs ξs'

/-- `batch_open` produces, point label by point label, combined openings of KZG defect zero, and
the verifier's `combine_and_normalize` consumes the same challenges -/
theorem batchOpenGroups_accept {ck : CK F} {vk : VK F} {g γ β h : F} {D n m : Nat}
    (hwf : WF ck vk g γ β h D n m) (l : List (Trip F))
    (hH : ∀ t ∈ l, Honest g γ β D t) (hL : ∀ t ∈ l, RandLen m t)
    (hlab : ∀ t ∈ l, t.2.2.label = t.1.label)
    (evals : List ((Label × F) × F)) (gs : List (Label × (F × List Label)))
    (hev : ∀ gr ∈ gs, ∀ lab ∈ gr.2.2, ∀ t, lookupT lab l none = some t →
      lookupEval evals lab gr.2.1 = some (evalPoly t.1.poly gr.2.1))
    (ξs : List F) (πs : List (KZG.Proof F)) (rest : List F)
    (ho : batchOpenGroups ck (l.map (·.1)) (l.map (·.2.1)) gs ξs = .ok (πs, rest))
    (hnd : GroupsND ck (l.map (·.1)) (l.map (·.2.1)) gs ξs) :
    ∃ trip, combineGroups vk (l.map (·.2.2)) evals gs ξs = .ok (trip, rest) ∧
      πs.length = trip.length ∧
      ∀ d ∈ KZG.defects vk.vk (trip.map (·.1)) (trip.map (·.2.1)) (trip.map (·.2.2)) πs, d = 0 := by
  induction gs generalizing ξs πs rest with
  | nil =>
    simp only [batchOpenGroups] at ho
    injection ho with ho; injection ho with h1 h2
    subst h1; subst h2
    exact ⟨[], by simp [combineGroups], rfl, by simp [KZG.defects]⟩
  | cons gr gs ih =>
    simp only [batchOpenGroups] at ho
    split at ho
    · cases ho
    · rename_i ps ss hgp
      split at ho
      · cases ho
      · rename_i π ξs' hopen
        split at ho
        · cases ho
        · rename_i πs' rest' hrec
          injection ho with ho; injection ho with h1 h2
          subst h1; subst h2
          simp only [GroupsND, hgp, hopen] at hnd
          obtain ⟨hnd1, hnd2⟩ := hnd
          obtain ⟨sub, hsub, hps, hss, hgc⟩ := gather_aligned l hH hlab evals gr.2.1 gr.2.2
            (fun lab hl' t ht => hev gr (by simp) lab hl' t ht) ps ss hgp
          subst hps; subst hss
          have hchk := open_check_complete hwf gr.2.1 sub (fun t ht => hH t (hsub t ht))
            (fun t ht => hL t (hsub t ht)) ξs π ξs' hopen hnd1
          obtain ⟨trip, htrip, hlen, hdef⟩ :=
            ih (fun gr' hgr' => hev gr' (List.mem_cons_of_mem _ hgr')) ξs' πs' rest' hrec hnd2
          unfold check at hchk
          split at hchk
          · cases hchk
          · rename_i C V ξr hacc
            injection hchk with hchk; injection hchk with hk1 hk2
            subst hk2
            refine ⟨(C, gr.2.1, V) :: trip, ?_, by simp [hlen], ?_⟩
            · simp only [combineGroups, hgc, hacc, htrip]
            · intro d hd
              simp only [List.map_cons, KZG.defects, List.mem_cons] at hd
              rcases hd with hd | hd
              · rw [hd]
                simpa [KZG.check] using hk1
              · exact hdef d hd

/-- all point labels have defect zero ⇒ `batch_check` accepts, for every randomizer list -/
theorem batchCheck_all_true (vk : VK F) (comms : List (LComm F)) (qs : List (Query F))
    (evals : List ((Label × F) × F)) (πs : List (KZG.Proof F)) (ξs rs : List F)
    (trip : List (F × F × F)) (rest : List F)
    (hc : combineGroups vk comms evals (groupQueries qs) ξs = .ok (trip, rest))
    (hlen : πs.length = trip.length)
    (hall : ∀ d ∈ KZG.defects vk.vk (trip.map (·.1)) (trip.map (·.2.1)) (trip.map (·.2.2)) πs, d = 0) :
    batchCheck vk comms qs evals πs ξs rs = .ok true := by
  unfold batchCheck
  rw [hc]
  simp only
  rw [if_neg (by simpa using hlen)]
  rw [KZG.batchCheck_ok _ _ _ _ _ _ (by simp [hlen]), KZG.batchDefect_eq, KZG.wsum_zero _ _ _ hall]
  simp

/-- **`batch_open` → `batch_check` completeness** (see `C01.marlin_batch_complete`) -/
theorem batch_complete {ck : CK F} {vk : VK F} {g γ β h : F} {D n m : Nat}
    (hwf : WF ck vk g γ β h D n m) (l : List (Trip F))
    (hH : ∀ t ∈ l, Honest g γ β D t) (hL : ∀ t ∈ l, RandLen m t)
    (hlab : ∀ t ∈ l, t.2.2.label = t.1.label)
    (qs : List (Query F)) (evals : List ((Label × F) × F))
    (hev : ∀ gr ∈ groupQueries qs, ∀ lab ∈ gr.2.2, ∀ t, lookupT lab l none = some t →
      lookupEval evals lab gr.2.1 = some (evalPoly t.1.poly gr.2.1))
    (ξs : List F) (πs : List (KZG.Proof F)) (rest : List F)
    (ho : batchOpen ck (l.map (·.1)) (l.map (·.2.1)) qs ξs = .ok (πs, rest))
    (hnd : GroupsND ck (l.map (·.1)) (l.map (·.2.1)) (groupQueries qs) ξs) (rs : List F) :
    batchCheck vk (l.map (·.2.2)) qs evals πs ξs rs = .ok true := by
  obtain ⟨trip, htrip, hlen, hdef⟩ :=
    batchOpenGroups_accept hwf l hH hL hlab evals (groupQueries qs) hev ξs πs rest ho hnd
  exact batchCheck_all_true vk (l.map (·.2.2)) qs evals πs ξs rs trip rest htrip hlen hdef

/-- without hiding (empty blinding polynomials) the side condition holds for every batch -/
theorem openLoop_sr_zero (ck : CK F) (z : F) (ps : List (LPoly F)) (ss : List (Rand F))
    (hs : ∀ st ∈ ss, ∀ rs, st.shifted = some rs → rs = []) (ξs : List F) (acc0 acc : OpenAcc F)
    (r : List F) (h0 : evalPoly acc0.sr z = 0)
    (ho : openLoop ck z ps ss ξs acc0 = .ok (acc, r)) : evalPoly acc.sr z = 0 := by
  induction ps generalizing ss ξs acc0 with
  | nil =>
    simp only [openLoop] at ho
    injection ho with ho; injection ho with h1 _
    rw [← h1]; exact h0
  | cons p ps ih =>
    cases ss with
    | nil =>
      simp only [openLoop] at ho
      injection ho with ho; injection ho with h1 _
      rw [← h1]; exact h0
    | cons st sts =>
      simp only [openLoop] at ho
      split at ho
      · cases ho
      · split at ho
        · cases ho
        · split at ho
          · cases ho
          · rename_i ξ ξs'
            split at ho
            · rename_i b rs hb hrs
              split at ho
              · cases ho
              · rename_i ξ' ξs''
                refine ih sts (fun st' hst' => hs st' (List.mem_cons_of_mem _ hst')) ξs'' _ ?_ ho
                have : rs = [] := hs st (by simp) rs hrs
                subst this
                simp only [eval_padd, eval_pscale, evalPoly_nil, mul_zero, add_zero]
                exact h0
            · exact ih sts (fun st' hst' => hs st' (List.mem_cons_of_mem _ hst')) ξs' _ (by exact h0) ho


theorem gatherPolys_mem (polys : List (LPoly F)) (sts : List (Rand F)) (ls : List Label)
    (ps : List (LPoly F)) (ss : List (Rand F)) (hg : gatherPolys polys sts ls = .ok (ps, ss)) :
    ∀ st ∈ ss, st ∈ sts := by
  induction ls generalizing ps ss with
  | nil =>
    simp only [gatherPolys] at hg
    injection hg with hg; injection hg with _ h2
    subst h2; simp
  | cons lab ls ih =>
    simp only [gatherPolys] at hg
    split at hg
    · cases hg
    · rename_i p st hlook
      split at hg
      · cases hg
      · rename_i ps' ss' hrec
        injection hg with hg; injection hg with _ h2
        subst h2
        intro st' hst'
        rcases List.mem_cons.1 hst' with h | h
        · rw [h]
          -- the looked-up pair is an element of the zipped list
          have : ∀ (xs : List (LPoly F × Rand F)) (acc : Option (LPoly F × Rand F)),
              xs.foldl (fun a x => if x.1.label = lab then some x else a) acc = some (p, st) →
              (p, st) ∈ xs ∨ acc = some (p, st) := by
            intro xs
            induction xs with
            | nil => intro acc h; right; simpa using h
            | cons x xs ihx =>
              intro acc h
              simp only [List.foldl_cons] at h
              rcases ihx _ h with h1 | h1
              · left; exact List.mem_cons_of_mem _ h1
              · by_cases hx : x.1.label = lab
                · simp only [hx, if_true] at h1
                  injection h1 with h1; left; rw [← h1]; simp
                · simp only [hx, if_false] at h1; right; exact h1
          rcases this _ none hlook with h1 | h1
          · exact (List.of_mem_zip h1).2
          · cases h1
        · exact ih ps' ss' hrec st' h

/-- without hiding and with empty shifted blinding (what `commit` returns without a hiding bound) the
side condition of the batch theorem holds for every query set and challenge list -/
theorem groupsND_nonhiding (ck : CK F) (polys : List (LPoly F)) (sts : List (Rand F))
    (hs : ∀ st ∈ sts, ∀ rs, st.shifted = some rs → rs = [])
    (gs : List (Label × (F × List Label))) (ξs : List F) : GroupsND ck polys sts gs ξs := by
  induction gs generalizing ξs with
  | nil => trivial
  | cons gr gs ih =>
    simp only [GroupsND]
    split
    · trivial
    · rename_i ps ss hgp
      refine ⟨?_, ?_⟩
      · intro acc r ho _
        exact openLoop_sr_zero ck gr.2.1 ps ss
          (fun st hst => hs st (gatherPolys_mem polys sts gr.2.2 ps ss hgp st hst)) ξs _ acc r rfl ho
      · split
        · trivial
        · exact ih _

end Marlin
end PCV
