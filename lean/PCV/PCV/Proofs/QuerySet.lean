/-
  PCV.Proofs.QuerySet — sorted association lists (`BTreeMap`) and `evaluate_query_set`.
-/
import PCV.Model.QuerySet
import Mathlib.Logic.Basic

set_option linter.unusedSectionVars false

namespace PCV
namespace QS

section Map
variable {K V : Type} [DecidableEq K]

/-- the keys of a map -/
def keys (m : List (K × V)) : List K := m.map Prod.fst

theorem lookup_insert (lt : K → K → Bool) (k k' : K) (v : V) (m : List (K × V)) :
    lookup k (insert lt k' v m) = if k = k' then some v else lookup k m := by
  induction m with
  | nil => simp [insert, lookup]
  | cons kv rest ih =>
    simp only [insert]
    split
    · rename_i h
      simp only [lookup]
      split
      · rfl
      · rename_i hne; rw [← h]; simp [hne]
    · rename_i hne
      split
      · simp only [lookup]
      · simp only [lookup, ih]
        by_cases h1 : k = kv.1
        · have : ¬ k = k' := fun h => hne (h ▸ h1)
          rw [if_pos h1, if_neg this, if_pos h1]
        · simp [h1]

theorem mem_keys_iff_lookup (k : K) (m : List (K × V)) :
    k ∈ keys m ↔ (lookup k m).isSome = true := by
  induction m with
  | nil => simp [keys, lookup]
  | cons kv rest ih =>
    simp only [keys, List.map_cons, List.mem_cons, lookup] at ih ⊢
    by_cases h : k = kv.1
    · simp [h]
    · simp only [h, false_or, if_false]; exact ih

theorem mem_keys_insert (lt : K → K → Bool) (k k' : K) (v : V) (m : List (K × V)) :
    k ∈ keys (insert lt k' v m) ↔ k = k' ∨ k ∈ keys m := by
  rw [mem_keys_iff_lookup, lookup_insert, mem_keys_iff_lookup]
  by_cases h : k = k' <;> simp [h]

theorem lookup_fromList (lt : K → K → Bool) (k : K) (l acc : List (K × V)) :
    lookup k (fromList lt l acc) = (lastWith k l).or (lookup k acc) := by
  induction l generalizing acc with
  | nil => simp [fromList, lastWith]
  | cons kv rest ih =>
    simp only [fromList, lastWith]
    rw [ih, lookup_insert]
    cases lastWith k rest with
    | some v => simp
    | none => by_cases h : k = kv.1 <;> simp [h]

/-- **`BTreeMap::from_iter`, then `get`**: the last entry with that key. -/
theorem lookup_fromList_nil (lt : K → K → Bool) (k : K) (l : List (K × V)) :
    lookup k (fromList lt l []) = lastWith k l := by
  rw [lookup_fromList]; simp [lookup]

/-- what a strict total order has to satisfy for the list to stay sorted -/
structure StrictTotal (lt : K → K → Bool) : Prop where
  trans : ∀ a b c, lt a b = true → lt b c = true → lt a c = true
  total : ∀ a b, a ≠ b → lt a b = false → lt b a = true

/-- strictly increasing keys -/
def Sorted (lt : K → K → Bool) (m : List (K × V)) : Prop :=
  List.Pairwise (fun a b => lt a.1 b.1 = true) m

theorem mem_insert (lt : K → K → Bool) (k : K) (v : V) (m : List (K × V)) (x : K × V)
    (hx : x ∈ insert lt k v m) : x = (k, v) ∨ x ∈ m := by
  induction m with
  | nil => simp [insert] at hx; exact Or.inl hx
  | cons kv rest ih =>
    simp only [insert] at hx
    split at hx
    · simp only [List.mem_cons] at hx ⊢
      rcases hx with h | h
      · exact Or.inl h
      · exact Or.inr (Or.inr h)
    · split at hx
      · simp only [List.mem_cons] at hx ⊢
        exact hx
      · simp only [List.mem_cons] at hx ⊢
        rcases hx with h | h
        · exact Or.inr (Or.inl h)
        · rcases ih h with h' | h'
          · exact Or.inl h'
          · exact Or.inr (Or.inr h')

theorem sorted_insert (lt : K → K → Bool) (hlt : StrictTotal lt) (k : K) (v : V)
    (m : List (K × V)) (hm : Sorted lt m) : Sorted lt (insert lt k v m) := by
  induction m with
  | nil => simp [insert, Sorted]
  | cons kv rest ih =>
    unfold Sorted at hm ih ⊢
    rw [List.pairwise_cons] at hm
    simp only [insert]
    split
    · rename_i h
      rw [List.pairwise_cons]
      exact ⟨fun x hx => by simpa [h] using hm.1 x hx, hm.2⟩
    · rename_i hne
      split
      · rename_i hl
        rw [List.pairwise_cons, List.pairwise_cons]
        refine ⟨fun x hx => ?_, hm⟩
        simp only [List.mem_cons] at hx
        rcases hx with h | h
        · rw [h]; exact hl
        · exact hlt.trans _ _ _ hl (hm.1 x h)
      · rename_i hl
        rw [List.pairwise_cons]
        refine ⟨fun x hx => ?_, ih hm.2⟩
        rcases mem_insert lt k v rest x hx with h | h
        · rw [h]
          exact hlt.total k kv.1 hne (by simpa using hl)
        · exact hm.1 x h

theorem sorted_fromList (lt : K → K → Bool) (hlt : StrictTotal lt) (l acc : List (K × V))
    (h : Sorted lt acc) : Sorted lt (fromList lt l acc) := by
  induction l generalizing acc with
  | nil => exact h
  | cons kv rest ih => exact ih _ (sorted_insert lt hlt _ _ _ h)

end Map


theorem ltLabel_trans : ∀ a b c : Label, ltLabel a b = true → ltLabel b c = true → ltLabel a c = true := by
  intro a
  induction a with
  | nil =>
    intro b c h1 h2
    cases b with
    | nil => simp [ltLabel] at h1
    | cons y bs => cases c with
      | nil => simp [ltLabel] at h2
      | cons z cs => simp [ltLabel]
  | cons x as ih =>
    intro b c h1 h2
    cases b with
    | nil => simp [ltLabel] at h1
    | cons y bs => cases c with
      | nil => simp [ltLabel] at h2
      | cons z cs =>
        simp only [ltLabel] at h1 h2 ⊢
        by_cases hxy : x < y
        · by_cases hyz : y < z
          · have : x < z := by omega
            simp [this]
          · by_cases hzy : z < y
            · simp [hyz, hzy] at h2
            · have : x < z := by omega
              simp [this]
        · by_cases hyx : y < x
          · simp [hxy, hyx] at h1
          · simp only [hxy, hyx, if_false] at h1
            have hxy' : x = y := by omega
            subst hxy'
            by_cases hxz : x < z
            · simp [hxz]
            · by_cases hzx : z < x
              · simp [hxz, hzx] at h2
              · simp only [hxz, hzx, if_false] at h2 ⊢
                exact ih _ _ h1 h2

theorem ltLabel_total : ∀ a b : Label, a ≠ b → ltLabel a b = false → ltLabel b a = true := by
  intro a
  induction a with
  | nil =>
    intro b hne h
    cases b with
    | nil => exact absurd rfl hne
    | cons y bs => simp [ltLabel] at h
  | cons x as ih =>
    intro b hne h
    cases b with
    | nil => simp [ltLabel]
    | cons y bs =>
      simp only [ltLabel] at h ⊢
      by_cases hxy : x < y
      · simp [hxy] at h
      · by_cases hyx : y < x
        · simp [hyx]
        · simp only [hxy, hyx, if_false] at h ⊢
          have : x = y := by omega
          subst this
          exact ih _ (fun h' => hne (by rw [h'])) h

theorem strictTotal_ltLabel : StrictTotal ltLabel := ⟨ltLabel_trans, ltLabel_total⟩

theorem strictTotal_ltKey {Pt : Type} [DecidableEq Pt] (ltP : Pt → Pt → Bool)
    (h : StrictTotal ltP) : StrictTotal (ltKey ltP) := by
  constructor
  · intro a b c h1 h2
    simp only [ltKey, Bool.or_eq_true, Bool.and_eq_true, decide_eq_true_eq] at h1 h2 ⊢
    rcases h1 with h1 | ⟨e1, h1⟩
    · rcases h2 with h2 | ⟨e2, h2⟩
      · exact Or.inl (ltLabel_trans _ _ _ h1 h2)
      · exact Or.inl (e2 ▸ h1)
    · rcases h2 with h2 | ⟨e2, h2⟩
      · exact Or.inl (e1 ▸ h2)
      · exact Or.inr ⟨e1.trans e2, h.trans _ _ _ h1 h2⟩
  · intro a b hne hf
    simp only [ltKey, Bool.or_eq_false_iff, Bool.and_eq_false_iff, decide_eq_false_iff_not] at hf
    simp only [ltKey, Bool.or_eq_true, Bool.and_eq_true, decide_eq_true_eq]
    obtain ⟨hf1, hf2⟩ := hf
    by_cases e : a.1 = b.1
    · rcases hf2 with hf2 | hf2
      · exact absurd e hf2
      · refine Or.inr ⟨e.symm, h.total _ _ (fun h2 => hne (Prod.ext e h2)) hf2⟩
    · exact Or.inl (ltLabel_total _ _ e hf1)

variable {P Pt F : Type} [DecidableEq Pt]

/-- Invariant of the loop of `evaluate_query_set`. -/
theorem evalLoop_spec (ltK : Label × Pt → Label × Pt → Bool) (evalP : P → Pt → F)
    (pm : List (Label × P)) (qs : List (Label × (Label × Pt)))
    (acc m : List ((Label × Pt) × F)) (h : evalLoop ltK evalP pm qs acc = .ok m) :
    (∀ k, k ∈ keys m ↔ (k ∈ keys acc ∨ ∃ q ∈ qs, keyOf q = k)) ∧
    (∀ q ∈ qs, ∃ p, lookup q.1 pm = some p ∧ lookup (keyOf q) m = some (evalP p q.2.2)) ∧
    (∀ k, (∀ q ∈ qs, keyOf q ≠ k) → lookup k m = lookup k acc) := by
  induction qs generalizing acc with
  | nil =>
    simp only [evalLoop] at h
    injection h with h; subst h
    simp
  | cons q qs ih =>
    simp only [evalLoop] at h
    split at h
    · cases h
    · rename_i p hp
      obtain ⟨h1, h2, h3⟩ := ih _ h
      refine ⟨fun k => ?_, fun q' hq' => ?_, fun k hk => ?_⟩
      · rw [h1 k, mem_keys_insert]
        simp only [List.mem_cons, exists_eq_or_imp]
        constructor
        · rintro ((h | h) | h)
          · exact Or.inr (Or.inl h.symm)
          · exact Or.inl h
          · exact Or.inr (Or.inr h)
        · rintro (h | h | h)
          · exact Or.inl (Or.inr h)
          · exact Or.inl (Or.inl h.symm)
          · exact Or.inr h
      · simp only [List.mem_cons] at hq'
        by_cases hin : ∃ q'' ∈ qs, keyOf q'' = keyOf q'
        · obtain ⟨q'', hq'', hk⟩ := hin
          obtain ⟨p', hp', hv⟩ := h2 q'' hq''
          -- same key: same label and same point
          have hl : q''.1 = q'.1 := (Prod.mk.inj (show (q''.1, q''.2.2) = (q'.1, q'.2.2) from hk)).1
          have hpt : q''.2.2 = q'.2.2 := (Prod.mk.inj (show (q''.1, q''.2.2) = (q'.1, q'.2.2) from hk)).2
          exact ⟨p', hl ▸ hp', by rw [← hk, hv, hpt]⟩
        · rcases hq' with hq' | hq'
          · subst hq'
            refine ⟨p, hp, ?_⟩
            rw [h3 _ (fun q'' hq'' hk => hin ⟨q'', hq'', hk⟩), lookup_insert]
            simp
          · exact absurd ⟨q', hq', rfl⟩ hin
      · rw [h3 k (fun q' hq' => hk q' (List.mem_cons_of_mem _ hq')), lookup_insert]
        have : ¬ k = keyOf q := fun h => hk q (List.mem_cons_self) h.symm
        simp [this]

theorem evalLoop_sorted (ltK : Label × Pt → Label × Pt → Bool) (hlt : StrictTotal ltK)
    (evalP : P → Pt → F) (pm : List (Label × P)) (qs : List (Label × (Label × Pt)))
    (acc m : List ((Label × Pt) × F)) (hacc : Sorted ltK acc)
    (h : evalLoop ltK evalP pm qs acc = .ok m) : Sorted ltK m := by
  induction qs generalizing acc with
  | nil =>
    simp only [evalLoop] at h
    injection h with h; subst h; exact hacc
  | cons q qs ih =>
    simp only [evalLoop] at h
    split at h
    · cases h
    · exact ih _ (sorted_insert ltK hlt _ _ _ hacc) h

/-- the loop fails only by the panic on an unknown label, and exactly when there is one -/
theorem evalLoop_ok_iff (ltK : Label × Pt → Label × Pt → Bool) (evalP : P → Pt → F)
    (pm : List (Label × P)) (qs : List (Label × (Label × Pt))) (acc : List ((Label × Pt) × F)) :
    ((∃ m, evalLoop ltK evalP pm qs acc = .ok m) ↔ ∀ q ∈ qs, (lookup q.1 pm).isSome = true) ∧
    ((¬ ∃ m, evalLoop ltK evalP pm qs acc = .ok m) →
      evalLoop ltK evalP pm qs acc = .error .abort) := by
  induction qs generalizing acc with
  | nil => simp [evalLoop]
  | cons q qs ih =>
    simp only [evalLoop, List.mem_cons, forall_eq_or_imp]
    cases hq : lookup q.1 pm with
    | none => simp
    | some p =>
      simp only [Option.isSome_some, true_and]
      exact ih _

end QS
end PCV
