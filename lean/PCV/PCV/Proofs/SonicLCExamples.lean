/-
  PCV.Proofs.SonicLCExamples — concrete combination openings over `K = ZMod 101` on the transcript of
  `PCV.Proofs.SonicExamples` (bounded hiding `p0`, unbounded `p1`, bounded `p2`), evaluated by `decide`;
  the non-vacuity examples of C06 / C11 / C19 (Sonic) refer to them.
-/
import PCV.Proofs.SonicHistory
import PCV.Proofs.SonicExamples

namespace PCV
namespace Sonic
namespace ExLC
open Marlin (Query)

/-- `label_map` of the example transcript -/
def trips : List (Trip K) := labelMap Ex.polys Ex.rands Ex.comms
/-- `2·p1 − 1·p1 + 5 + 0·p1`: repeated label, negative and zero coefficients, a constant -/
def lcA : LC.LinComb K :=
  ⟨[108, 48], [(2, .poly [112, 49]), (-1, .poly [112, 49]), (5, .one), (0, .poly [112, 49])]⟩
/-- `1·p0`: a single degree-bounded (and hiding) term -/
def lcB : LC.LinComb K := ⟨[108, 49], [(1, .poly [112, 48])]⟩
/-- `3 − 4·p1 − 2`: two constants around a polynomial term -/
def lcC : LC.LinComb K := ⟨[108, 50], [(3, .one), (-4, .poly [112, 49]), (-2, .one)]⟩
def lcs : List (LC.LinComb K) := [lcA, lcB, lcC]
/-- `p0 + 3·p1`: a degree-bounded polynomial mixed with another term -/
def lcMixed : LC.LinComb K := ⟨[98], [(1, .poly [112, 48]), (3, .poly [112, 49])]⟩
/-- `p2 + 0`: a degree-bounded polynomial with a (zero) constant -/
def lcMixedConst : LC.LinComb K := ⟨[98], [(1, .poly [112, 50]), (0, .one)]⟩
/-- `2·p0`: a single degree-bounded term with coefficient ≠ 1 -/
def lcScaled : LC.LinComb K := ⟨[98], [(2, .poly [112, 48])]⟩
/-- three point labels, the first and the last share the point 5; two combinations at the first two -/
def qs : List (Query K) :=
  [([108, 48], ([97], 5)), ([108, 48], ([98], 9)), ([108, 49], ([97], 5)), ([108, 50], ([98], 9)),
   ([108, 50], ([99], 5))]
def xis : List K := [11, 13, 17, 19, 23, 29, 31, 37, 41]
/-- the true combination values -/
def evals : List ((LC.Label × K) × K) :=
  [(([108, 48], 5), 34), (([108, 48], 9), 90), (([108, 49], 5), 86), (([108, 50], 9), 65),
   (([108, 50], 5), 87)]
def proofs : List (KZG.Proof K) := [⟨72, some 87⟩, ⟨15, none⟩, ⟨22, none⟩]
def combined : List (Trip K) :=
  [(⟨[108, 48], [4, 0, 1], none, none⟩, [], ⟨[108, 48], 24, none⟩),
   (⟨[108, 49], [1, 2, 3], some 3, some 1⟩, [7, 0, 9], ⟨[108, 49], 27, some 3⟩),
   (⟨[108, 50], [85, 0, 97], none, none⟩, [], ⟨[108, 50], 5, none⟩)]

theorem combine_eq : combineAll trips lcs = .ok combined := by decide
theorem open_eq :
    openCombinations Ex.ck Ex.polys Ex.rands Ex.comms lcs qs xis = .ok (proofs, [41]) := by decide
theorem check_eq :
    checkCombinationsT Ex.vk Ex.comms lcs qs evals proofs xis [7, 8] = .ok (true, [41]) := by decide

/-! a history: combination opening, plain opening of the first two polynomials, batch opening -/
def bqs : List (Query K) :=
  [([112, 48], ([97], 5)), ([112, 49], ([97], 5)), ([112, 49], ([98], 9)), ([112, 50], ([98], 9))]
def bevals : List ((LC.Label × K) × K) :=
  [(([112, 48], 5), 86), (([112, 49], 5), 29), (([112, 49], 9), 85), (([112, 50], 9), 15)]
def ops : List (Op K) :=
  [.comb lcs qs evals, .single (trips.take 2) 6, .batch bqs bevals]
def stream : List K := [11, 13, 17, 19, 23, 29, 31, 37, 41, 43, 47, 53, 59, 61, 67, 71, 73, 79, 83]
def histProofs : List (List (KZG.Proof K)) :=
  [[⟨72, some 87⟩, ⟨15, none⟩, ⟨22, none⟩], [⟨2, some 37⟩], [⟨78, some 75⟩, ⟨0, none⟩]]

theorem prover_eq :
    proverRun Ex.ck Ex.polys Ex.rands Ex.comms ops stream = .ok (histProofs, [79, 83]) := by decide
theorem verifier_eq :
    verifierRun Ex.vk Ex.comms ops histProofs [[7, 8], [], [9]] stream = .ok (true, [79, 83]) := by
  decide

end ExLC
end Sonic
end PCV
