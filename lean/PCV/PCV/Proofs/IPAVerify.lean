/-
  PCV.Proofs.IPAVerify — verifier-side facts about the IPA model: exact acceptance conditions
  (`check ↔ defect1 = 0 ∧ defect2 = 0`), dependence of the defects on the statement and on the proof
  components that are not hashed, shape refusals, and the randomized batch test.
-/
import PCV.Proofs.IPA

set_option linter.unusedSectionVars false
set_option linter.unusedVariables false

namespace PCV
namespace IPA
variable {F : Type} [Field F] [DecidableEq F]

/-! ### exact acceptance -/

theorem check_iff (vk : VK F) (cs : List (LComm F)) (z : F) (vs : List F) (π : Proof F)
    (ξs ros : List F) :
    check vk cs z vs π ξs ros = .ok true ↔
      badShape vk π = false ∧ ∃ r ξr ror, succinctRun vk cs z vs π ξs ros = .ok (r, ξr, ror) ∧
        defect1 vk z π r = 0 ∧ defect2 vk π r.us = 0 := by
  unfold check succinctCheck
  cases hb : badShape vk π with
  | true => simp
  | false =>
    simp only [Bool.false_eq_true, if_false, true_and]
    cases hr : succinctRun vk cs z vs π ξs ros with
    | error e => simp
    | ok x =>
      obtain ⟨r, ξr, ror⟩ := x
      simp only
      constructor
      · intro h
        injection h with h
        refine ⟨r, ξr, ror, rfl, ?_⟩
        by_cases h1 : defect1 vk z π r = 0
        · rw [if_pos h1] at h
          simp only [finalKeyOk, decide_eq_true_iff] at h
          exact ⟨h1, h⟩
        · rw [if_neg h1] at h
          simp [finalKeyOk] at h
      · rintro ⟨r', ξr', ror', heq, h1, h2⟩
        injection heq with heq
        injection heq with heq1 _
        subst heq1
        rw [if_pos h1]
        simp [finalKeyOk, h2]

/-- a well-shaped proof is either accepted or rejected with `Ok(false)` once `succinct_check`
ran through -/
theorem check_of_run (vk : VK F) (cs : List (LComm F)) (z : F) (vs : List F) (π : Proof F)
    (ξs ros : List F) (r : Run F) (ξr ror : List F) (hb : badShape vk π = false)
    (hr : succinctRun vk cs z vs π ξs ros = .ok (r, ξr, ror)) :
    check vk cs z vs π ξs ros
      = .ok (decide (defect1 vk z π r = 0) && decide (defect2 vk π r.us = 0)) := by
  unfold check succinctCheck
  rw [hb, hr]
  simp only [Bool.false_eq_true, if_false]
  by_cases h1 : defect1 vk z π r = 0
  · simp [h1, finalKeyOk]
  · simp [h1, finalKeyOk]

theorem check_shape (vk : VK F) (cs : List (LComm F)) (z : F) (vs : List F) (π : Proof F)
    (ξs ros : List F) (hb : badShape vk π = true) :
    check vk cs z vs π ξs ros = .error .incorrectInputLength := by
  unfold check; rw [hb]; simp

theorem badShape_iff (vk : VK F) (π : Proof F) :
    badShape vk π = true ↔
      (π.lVec.length ≠ π.rVec.length ∨ π.lVec.length ≠ clog2 (supportedDegree vk + 1)) := by
  unfold badShape; simp

/-- `succinct_check` reads only `l_vec`, `r_vec`, `hiding_comm`, `rand` of the proof -/
theorem succinctRun_irrel (vk : VK F) (cs : List (LComm F)) (z : F) (vs : List F) (π : Proof F)
    (ξs ros : List F) (K c : F) :
    succinctRun vk cs z vs ⟨π.lVec, π.rVec, K, c, π.hidingComm, π.rand⟩ ξs ros
      = succinctRun vk cs z vs π ξs ros := rfl

/-! ### the value enters `defect1` linearly -/

def addVec : List F → List F → List F
  | v :: vs, d :: ds => (v + d) :: addVec vs ds
  | vs, _ => vs

theorem accStep_shiftV (vk : VK F) (z : F) (c : LComm F) (v ξ ξ' C V C1 V1 e : F)
    (h : accStep vk z c v ξ ξ' C V = .ok (C1, V1)) :
    accStep vk z c v ξ ξ' C (V + e) = .ok (C1, V1 + e) := by
  unfold accStep at h ⊢
  split at h
  · cases h
  · rename_i hne
    rw [if_neg hne]
    split at h
    · split at h
      · cases h
      · rename_i hle
        injection h with h; injection h with h1 h2
        subst h1; subst h2
        rw [if_neg hle]; congr 2; ring
    · injection h with h; injection h with h1 h2
      subst h1; subst h2
      congr 2; ring

/-- the verifier's combining loop is translation-invariant in the accumulated value -/
theorem accLoop_shiftV (vk : VK F) (z : F) (e : F) :
    ∀ (cs : List (LComm F)) (vs : List F) (cur : F) (ξs : List F) (C V C' V' : F) (rest : List F),
      accLoop vk z cs vs cur ξs C V = .ok ((C', V'), rest) →
      accLoop vk z cs vs cur ξs C (V + e) = .ok ((C', V' + e), rest) := by
  intro cs
  induction cs with
  | nil =>
    intro vs cur ξs C V C' V' rest h
    simp only [accLoop] at h ⊢
    injection h with h; injection h with h1 h2; injection h1 with h1 h3
    subst h1; subst h2; subst h3; rfl
  | cons c cs ih =>
    intro vs cur ξs C V C' V' rest h
    cases vs with
    | nil =>
      simp only [accLoop] at h ⊢
      injection h with h; injection h with h1 h2; injection h1 with h1 h3
      subst h1; subst h2; subst h3; rfl
    | cons v vs =>
      simp only [accLoop] at h ⊢
      split at h
      · rename_i a b r2
        split at h
        · cases h
        · rename_i C2 V2 hs2
          simp only [accStep_shiftV vk z c v cur a C V C2 V2 e hs2]
          exact ih vs b r2 C2 V2 C' V' rest h
      · cases h

/-- the weight with which the value of one commitment enters the combined value -/
def stepErr (vk : VK F) (z : F) (c : LComm F) (d ξ ξ' : F) : F :=
  match c.bound with
  | some b => ξ * d + ξ' * d * fpow z (supportedDegree vk - b)
  | none => ξ * d

/-- the change of the combined value caused by the error vector `ds` on the claimed values -/
def valueErr (vk : VK F) (z : F) : List (LComm F) → List F → F → List F → F
  | c :: cs, d :: ds, cur, ξ' :: ξ'' :: rest => stepErr vk z c d cur ξ' + valueErr vk z cs ds ξ'' rest
  | _, _, _, _ => 0

theorem accStep_value (vk : VK F) (z : F) (c : LComm F) (v d ξ ξ' C V C1 V1 : F)
    (h : accStep vk z c v ξ ξ' C V = .ok (C1, V1)) :
    accStep vk z c (v + d) ξ ξ' C V = .ok (C1, V1 + stepErr vk z c d ξ ξ') := by
  unfold accStep at h ⊢
  unfold stepErr
  split at h
  · cases h
  · rename_i hne
    rw [if_neg hne]
    split at h
    · rename_i b sc hb hsc
      split at h
      · cases h
      · rename_i hle
        injection h with h; injection h with h1 h2
        subst h1; subst h2
        rw [if_neg hle, hb]
        simp only
        congr 2; ring
    · rename_i hno
      injection h with h; injection h with h1 h2
      subst h1; subst h2
      cases hb : c.bound with
      | none => simp only; congr 2; ring
      | some b =>
        cases hsc : c.comm.shifted with
        | none => rw [hb, hsc] at hne; simp at hne
        | some sc => exact absurd hsc (hno b sc hb)

theorem accLoop_value (vk : VK F) (z : F) :
    ∀ (cs : List (LComm F)) (vs ds : List F) (cur : F) (ξs : List F) (C V C' V' : F)
      (rest : List F), accLoop vk z cs vs cur ξs C V = .ok ((C', V'), rest) →
      ds.length = vs.length →
      accLoop vk z cs (addVec vs ds) cur ξs C V
        = .ok ((C', V' + valueErr vk z cs ds cur ξs), rest) := by
  intro cs
  induction cs with
  | nil =>
    intro vs ds cur ξs C V C' V' rest h _
    simp only [accLoop] at h
    injection h with h; injection h with h1 h2; injection h1 with h1 h3
    subst h1; subst h2; subst h3
    simp [accLoop, valueErr]
  | cons c cs ih =>
    intro vs ds cur ξs C V C' V' rest h hl
    cases vs with
    | nil =>
      have : ds = [] := List.eq_nil_of_length_eq_zero (by simpa using hl)
      subst this
      simp only [accLoop] at h
      injection h with h; injection h with h1 h2; injection h1 with h1 h3
      subst h1; subst h2; subst h3
      simp [accLoop, valueErr, addVec]
    | cons v vs =>
      cases ds with
      | nil => simp at hl
      | cons d ds =>
        simp only [accLoop] at h
        split at h
        · rename_i ξ' ξ'' rest'
          split at h
          · cases h
          · rename_i C1 V1 hstep
            have h1 := accStep_value vk z c v d cur ξ' C V C1 V1 hstep
            have h2 := ih vs ds ξ'' rest' C1 V1 C' V' rest h (by simpa using hl)
            have h3 := accLoop_shiftV vk z (stepErr vk z c d cur ξ') cs (addVec vs ds) ξ'' rest'
              C1 V1 C' _ rest h2
            simp only [addVec, accLoop, h1]
            rw [add_comm V1] at h3
            rw [add_comm V1, h3]
            simp only [valueErr]
            congr 3; ring
        · cases h

theorem defect1_value (vk : VK F) (z : F) (π : Proof F) (r : Run F) (e : F) :
    defect1 vk z π ⟨r.C, r.V + e, r.ξ₀, r.us, r.lr⟩ = defect1 vk z π r + vk.h * r.ξ₀ * e := by
  unfold defect1; simp only; ring

theorem defect1_comm (vk : VK F) (z : F) (π : Proof F) (r : Run F) (e : F) :
    defect1 vk z π ⟨r.C + e, r.V, r.ξ₀, r.us, r.lr⟩ = defect1 vk z π r + e := by
  unfold defect1; simp only; ring

/-- with the oracle outputs held fixed, changing the claimed values by `ds` changes only the
combined value of the run, by `valueErr` -/
theorem succinctRun_value (vk : VK F) (cs : List (LComm F)) (z : F) (vs ds : List F) (π : Proof F)
    (cur : F) (ξs ros : List F) (r : Run F) (ξr ror : List F)
    (hr : succinctRun vk cs z vs π (cur :: ξs) ros = .ok (r, ξr, ror))
    (hl : ds.length = vs.length) :
    succinctRun vk cs z (addVec vs ds) π (cur :: ξs) ros
      = .ok (⟨r.C, r.V + valueErr vk z cs ds cur ξs, r.ξ₀, r.us, r.lr⟩, ξr, ror) := by
  unfold succinctRun at hr ⊢
  simp only at hr ⊢
  cases hacc : accLoop vk z cs vs cur ξs 0 0 with
  | error e => rw [hacc] at hr; cases hr
  | ok x =>
    obtain ⟨⟨C, V⟩, ξrest⟩ := x
    rw [hacc] at hr
    rw [accLoop_value vk z cs vs ds cur ξs 0 0 C V ξrest hacc hl]
    simp only at hr ⊢
    cases hadj : hidingAdjust vk π C ros with
    | error e => rw [hadj] at hr; cases hr
    | ok y =>
      obtain ⟨C', ros1⟩ := y
      rw [hadj] at hr
      simp only at hr ⊢
      cases ros1 with
      | nil => cases hr
      | cons ξ₀ ros2 =>
        simp only at hr ⊢
        cases hvr : verifyRounds π.lVec π.rVec ros2 with
        | error e => rw [hvr] at hr; cases hr
        | ok w =>
          obtain ⟨us, lr, ros3⟩ := w
          rw [hvr] at hr
          simp only at hr ⊢
          injection hr with hr; injection hr with h1 h2
          subst h1; rw [h2]

/-- `succinct_check` depends on the statement only through the combined commitment and value:
a statement whose combining loop ends in `(Ĉ + eC, v̂ + eV)` (same oracle outputs) gives the same
run with `C`, `V` shifted by `eC`, `eV` -/
theorem succinctRun_congr (vk : VK F) (cs cs' : List (LComm F)) (z : F) (vs vs' : List F)
    (π : Proof F) (cur : F) (ξs ros : List F) (C V eC eV : F) (ξrest : List F)
    (h1 : accLoop vk z cs vs cur ξs 0 0 = .ok ((C, V), ξrest))
    (h2 : accLoop vk z cs' vs' cur ξs 0 0 = .ok ((C + eC, V + eV), ξrest))
    (r : Run F) (ξr ror : List F)
    (hr : succinctRun vk cs z vs π (cur :: ξs) ros = .ok (r, ξr, ror)) :
    succinctRun vk cs' z vs' π (cur :: ξs) ros
      = .ok (⟨r.C + eC, r.V + eV, r.ξ₀, r.us, r.lr⟩, ξr, ror) := by
  unfold succinctRun at hr ⊢
  simp only at hr ⊢
  rw [h1] at hr
  rw [h2]
  simp only at hr ⊢
  have hadj : ∀ C' ros1, hidingAdjust vk π C ros = .ok (C', ros1) →
      hidingAdjust vk π (C + eC) ros = .ok (C' + eC, ros1) := by
    intro C' ros1 h
    unfold hidingAdjust at h ⊢
    split at h
    · cases h
    · rename_i hne
      rw [if_neg hne]
      split at h
      · split at h
        · cases h
        · injection h with h; injection h with ha hb
          subst ha; subst hb
          congr 2; ring
      · injection h with h; injection h with ha hb
        subst ha; subst hb; rfl
  cases hadj' : hidingAdjust vk π C ros with
  | error e => rw [hadj'] at hr; cases hr
  | ok y =>
    obtain ⟨C', ros1⟩ := y
    rw [hadj'] at hr
    rw [hadj C' ros1 hadj']
    simp only at hr ⊢
    cases ros1 with
    | nil => cases hr
    | cons ξ₀ ros2 =>
      simp only at hr ⊢
      cases hvr : verifyRounds π.lVec π.rVec ros2 with
      | error e => rw [hvr] at hr; cases hr
      | ok w =>
        obtain ⟨us, lr, ros3⟩ := w
        rw [hvr] at hr
        simp only at hr ⊢
        injection hr with hr; injection hr with h1 h2
        subst h1; rw [h2]

theorem defect1_shift (vk : VK F) (z : F) (π : Proof F) (r : Run F) (eC eV : F) :
    defect1 vk z π ⟨r.C + eC, r.V + eV, r.ξ₀, r.us, r.lr⟩
      = defect1 vk z π r + (eC + vk.h * r.ξ₀ * eV) := by
  unfold defect1; simp only; ring

/-- the combining loop on a single commitment -/
theorem accLoop_single (vk : VK F) (z : F) (c : LComm F) (v cur ξ' ξ'' : F) (rest : List F) (C V : F) :
    accLoop vk z [c] [v] cur (ξ' :: ξ'' :: rest) C V
      = match accStep vk z c v cur ξ' C V with
        | .error e => .error e
        | .ok x => .ok (x, rest) := by
  simp only [accLoop]
  cases accStep vk z c v cur ξ' C V with
  | error e => rfl
  | ok x => rfl

/-- a commitment made under the bound `d`, presented under the label `d'` -/
theorem accStep_relabel (vk : VK F) (z : F) (c : LComm F) (d d' : Nat) (sc v ξ ξ' C V : F)
    (hb : c.bound = some d) (hs : c.comm.shifted = some sc)
    (hd : d ≤ supportedDegree vk) (hd' : d' ≤ supportedDegree vk) :
    accStep vk z c v ξ ξ' C V
        = .ok (C + c.comm.comm * ξ + sc * ξ', V + ξ * v + ξ' * v * fpow z (supportedDegree vk - d)) ∧
    accStep vk z ⟨c.label, c.comm, some d'⟩ v ξ ξ' C V
        = .ok (C + c.comm.comm * ξ + sc * ξ', V + ξ * v + ξ' * v * fpow z (supportedDegree vk - d')) := by
  unfold accStep
  simp only [hb, hs, Option.isSome_some, ne_eq, not_true_eq_false, if_false]
  rw [if_neg (by omega), if_neg (by omega)]
  exact ⟨rfl, rfl⟩

/-- a bound label without a shifted part, or a shifted part without a label, aborts -/
theorem accStep_mismatch (vk : VK F) (z : F) (c : LComm F) (v ξ ξ' C V : F)
    (h : c.bound.isSome ≠ c.comm.shifted.isSome) :
    accStep vk z c v ξ ξ' C V = .error .abort := by
  unfold accStep; rw [if_pos h]

/-! ### proof components that are not hashed: `c`, `final_comm_key` -/

theorem defect1_c (vk : VK F) (z : F) (π : Proof F) (r : Run F) (K c : F) :
    defect1 vk z ⟨π.lVec, π.rVec, K, c, π.hidingComm, π.rand⟩ r
      = (r.C + vk.h * r.ξ₀ * r.V + r.lr) - c * (K + vk.h * r.ξ₀ * Succinct.evaluate r.us z) := by
  unfold defect1; simp only; ring

/-! ### batch_check -/

/-- the per-point final-key defects of a batch -/
def defect2s (vk : VK F) : List (List F) → List (Proof F) → List F
  | us :: uss, π :: πs => defect2 vk π us :: defect2s vk uss πs
  | _, _ => []

theorem combine_defect (vk : VK F) :
    ∀ (uss : List (List F)) (πs : List (Proof F)) (r : F) (rs : List F),
      dot vk.commKey (combine r rs uss πs).1 - (combine r rs uss πs).2
        = KZG.wsum r rs (defect2s vk uss πs) := by
  intro uss
  induction uss with
  | nil => intro πs r rs; simp [combine, defect2s, KZG.wsum]
  | cons us uss ih =>
    intro πs r rs
    cases πs with
    | nil => simp [combine, defect2s, KZG.wsum]
    | cons π πs =>
      simp only [combine, defect2s, KZG.wsum]
      rw [← ih πs (rs.headD 0) rs.tail, dot_padd_right, dot_pscale_right]
      unfold defect2
      ring

/-- **the batch test is the randomizer-weighted sum of the individual final-key defects** -/
theorem batchDefect_eq (vk : VK F) (rs : List F) (uss : List (List F)) (πs : List (Proof F)) :
    batchDefect vk rs uss πs = KZG.wsum 1 rs (defect2s vk uss πs) := by
  unfold batchDefect; exact combine_defect vk uss πs 1 rs

theorem batchCheck_of_succinct (vk : VK F) (comms : List (LComm F)) (qs : List (Query F))
    (evals : List ((Label × F) × F)) (πs : List (Proof F)) (ξs ros rs : List F)
    (uss : List (List F)) (hl : πs.length = (Marlin.groupQueries qs).length)
    (hs : batchSuccinct vk comms evals (Marlin.groupQueries qs) πs ξs ros = .ok (some uss)) :
    batchCheck vk comms qs evals πs ξs ros rs
      = .ok (decide (KZG.wsum 1 rs (defect2s vk uss πs) = 0)) := by
  unfold batchCheck
  rw [if_neg (by simp [hl]), hs]
  simp only [batchDecide, batchDefect_eq]

theorem batchCheck_of_failed (vk : VK F) (comms : List (LComm F)) (qs : List (Query F))
    (evals : List ((Label × F) × F)) (πs : List (Proof F)) (ξs ros rs : List F)
    (hl : πs.length = (Marlin.groupQueries qs).length)
    (hs : batchSuccinct vk comms evals (Marlin.groupQueries qs) πs ξs ros = .ok none) :
    batchCheck vk comms qs evals πs ξs ros rs = .ok false := by
  unfold batchCheck
  rw [if_neg (by simp [hl]), hs]
  simp [batchDecide]

/-- whenever the loop of `batch_check` runs through, every proof it looked at is well-shaped -/
theorem batchSuccinct_shapes (vk : VK F) (comms : List (LComm F)) (evals : List ((Label × F) × F)) :
    ∀ (gs : List (Label × (F × List Label))) (πs : List (Proof F)) (ξs ros : List F)
      (uss : List (List F)), πs.length = gs.length →
      batchSuccinct vk comms evals gs πs ξs ros = .ok (some uss) →
      ∀ π ∈ πs, badShape vk π = false := by
  intro gs
  induction gs with
  | nil =>
    intro πs ξs ros uss hl _ π hπ
    have : πs = [] := List.eq_nil_of_length_eq_zero (by simpa using hl)
    subst this; simp at hπ
  | cons g gs ih =>
    intro πs ξs ros uss hl h π hπ
    cases πs with
    | nil => simp at hπ
    | cons π0 πs =>
      simp only [batchSuccinct] at h
      split at h
      · cases h
      · rename_i hb
        split at h
        · cases h
        · split at h
          · cases h
          · cases h
          · rename_i us ξs' ros' _
            split at h
            · cases h
            · cases h
            · rename_i uss' hrec
              rcases List.mem_cons.1 hπ with rfl | hπ
              · simpa using hb
              · exact ih πs ξs' ros' uss' (by simpa using hl) hrec π hπ

/-- **shape refusal in `batch_check`**: a batch containing a proof with a wrong number of rounds
(or `|l_vec| ≠ |r_vec|`) is never accepted -/
theorem batchCheck_shape (vk : VK F) (comms : List (LComm F)) (qs : List (Query F))
    (evals : List ((Label × F) × F)) (πs : List (Proof F)) (ξs ros rs : List F)
    (π : Proof F) (hπ : π ∈ πs) (hb : badShape vk π = true) :
    batchCheck vk comms qs evals πs ξs ros rs ≠ .ok true := by
  unfold batchCheck
  split
  · simp
  · rename_i hl
    have hl' : πs.length = (Marlin.groupQueries qs).length := by
      by_contra hne; exact hl hne
    cases hs : batchSuccinct vk comms evals (Marlin.groupQueries qs) πs ξs ros with
    | error e => simp
    | ok o =>
      cases o with
      | none => simp [batchDecide]
      | some uss =>
        have := batchSuccinct_shapes vk comms evals _ πs ξs ros uss hl' hs π hπ
        rw [this] at hb; cases hb

/-- the first proof of a batch is examined first: a malformed one is refused with the same error
as in `check` -/
theorem batchCheck_shape_first (vk : VK F) (comms : List (LComm F)) (qs : List (Query F))
    (evals : List ((Label × F) × F)) (π : Proof F) (πs : List (Proof F)) (ξs ros rs : List F)
    (hl : (π :: πs).length = (Marlin.groupQueries qs).length) (hb : badShape vk π = true) :
    batchCheck vk comms qs evals (π :: πs) ξs ros rs = .error .incorrectInputLength := by
  unfold batchCheck
  rw [if_neg (by simp [hl])]
  cases hg : Marlin.groupQueries qs with
  | nil => rw [hg] at hl; simp at hl
  | cons g gs => simp [batchSuccinct, hb]

/-! ### shape of honest proofs -/

theorem rounds_lengths (h' : F) (k : Nat) :
    ∀ (fuel : Nat) (cs zs key ros : List F), k ≤ fuel →
      ∀ out, rounds h' fuel (2 ^ k) cs zs key ros = .ok out →
      out.1.1.length = k ∧ out.1.2.length = k := by
  induction k with
  | zero =>
    intro fuel cs zs key ros _ out hout
    have hout' : out = (([], []), (cs, zs, key), ros) := by
      cases fuel with
      | zero => simp only [rounds] at hout; injection hout with hout; exact hout.symm
      | succ f => simp [rounds] at hout; exact hout.symm
    subst hout'; simp
  | succ k ih =>
    intro fuel cs zs key ros hfuel out hout
    cases fuel with
    | zero => omega
    | succ f =>
      have hn : ¬ (2 ^ (k + 1) ≤ 1) := by
        have : 0 < 2 ^ k := Nat.pow_pos (by omega)
        rw [Nat.pow_succ]; omega
      have hm : 2 ^ (k + 1) / 2 = 2 ^ k := by rw [Nat.pow_succ]; omega
      unfold rounds at hout
      rw [if_neg hn] at hout
      cases ros with
      | nil => simp at hout
      | cons u ros' =>
        simp only at hout
        by_cases hu : u = 0
        · simp [hu] at hout
        · rw [if_neg hu, hm] at hout
          split at hout
          · cases hout
          · rename_i ls rs fin rest hrec
            injection hout with hout
            subst hout
            obtain ⟨h1, h2⟩ := ih f _ _ _ ros' (by omega) _ hrec
            simp only at h1 h2 ⊢
            simp [h1, h2]

/-- **C19**: for a key of `2^k` elements every proof the prover returns has exactly `k`
`(L, R)` pairs, whatever the polynomials, commitments, states and oracle outputs are -/
theorem open_shape (ck : CK F) (k : Nat) (hk : ck.commKey.length = 2 ^ k)
    (polys : List (LPoly F)) (comms : List (LComm F)) (sts : List (Rand F))
    (z : F) (ξs ros : List F) (rng : Bool) (draws : List F) (π : Proof F) (ξr ror dr : List F)
    (ho : IPA.open ck polys comms z sts ξs ros rng draws = .ok (π, ξr, ror, dr)) :
    π.lVec.length = k ∧ π.rVec.length = k := by
  have hn := supported_succ ck k hk
  unfold IPA.open at ho
  split at ho
  · cases ho
  · split at ho
    · cases ho
    · split at ho
      · cases ho
      · split at ho
        · cases ho
        · simp only at ho
          split at ho
          · cases ho
          · rename_i ls rs fin ros3 hrounds
            split at ho
            · cases ho
            · rename_i π' hmk
              injection ho with ho; injection ho with ho1 _
              subst ho1
              rw [hn] at hrounds
              obtain ⟨h1, h2⟩ := rounds_lengths _ k (2 ^ k) _ _ _ _
                (by have := Nat.lt_two_pow_self (n := k); omega) _ hrounds
              unfold mkProof at hmk
              split at hmk
              · injection hmk with hmk; subst hmk; exact ⟨h1, h2⟩
              · cases hmk

/-! ### admission -/

theorem commitOne_admission (ck : CK F) (p : LPoly F) (rng : Bool) (draws : List F) (e : Err)
    (h : checkDegreesAndBounds (supportedDegree ck) p.poly p.bound = .error e) :
    commitOne ck p rng draws = .error e := by
  unfold commitOne; rw [h]

theorem openStep_admission (ck : CK F) (p : LPoly F) (c : LComm F) (st : Rand F) (ξ ξ' : F)
    (acc : OpenAcc F) (e : Err)
    (h : checkDegreesAndBounds (supportedDegree ck) p.poly p.bound = .error e) :
    ∃ e', openStep ck p c st ξ ξ' acc = .error e' := by
  unfold openStep
  split
  · exact ⟨_, rfl⟩
  · rw [h]; exact ⟨_, rfl⟩

theorem commit_admission (ck : CK F) (rng : Bool) :
    ∀ (polys : List (LPoly F)) (draws : List F) x, commit ck polys rng draws = .ok x →
      ∀ p ∈ polys, checkDegreesAndBounds (supportedDegree ck) p.poly p.bound = .ok () := by
  intro polys
  induction polys with
  | nil => intro _ _ _ p hp; simp at hp
  | cons q qs ih =>
    intro draws x h p hp
    simp only [commit] at h
    split at h
    · cases h
    · rename_i c st draws' h1
      split at h
      · cases h
      · rename_i cs' sts' d h2
        rcases List.mem_cons.1 hp with rfl | hp
        · cases hadm : checkDegreesAndBounds (supportedDegree ck) p.poly p.bound with
          | ok u => rfl
          | error e => rw [commitOne_admission ck p rng draws e hadm] at h1; cases h1
        · exact ih draws' _ h2 p hp

theorem openLoop_admission (ck : CK F) :
    ∀ (polys : List (LPoly F)) (comms : List (LComm F)) (sts : List (Rand F)) (cur : F)
      (ξs : List F) (acc : OpenAcc F) x, polys.length ≤ comms.length → polys.length ≤ sts.length →
      openLoop ck polys comms sts cur ξs acc = .ok x →
      ∀ p ∈ polys, checkDegreesAndBounds (supportedDegree ck) p.poly p.bound = .ok () := by
  intro polys
  induction polys with
  | nil => intro _ _ _ _ _ _ _ _ _ p hp; simp at hp
  | cons q qs ih =>
    intro comms sts cur ξs acc x hl1 hl2 h p hp
    cases comms with
    | nil => simp at hl1
    | cons c cs =>
      cases sts with
      | nil => simp at hl2
      | cons st sts =>
        simp only [openLoop] at h
        split at h
        · rename_i ξ' ξ'' rest
          split at h
          · cases h
          · rename_i acc1 hstep
            rcases List.mem_cons.1 hp with rfl | hp
            · cases hadm : checkDegreesAndBounds (supportedDegree ck) p.poly p.bound with
              | ok u => rfl
              | error e =>
                obtain ⟨e', he'⟩ := openStep_admission ck p c st cur ξ' acc e hadm
                rw [he'] at hstep; cases hstep
            · exact ih cs sts ξ'' rest acc1 x (by simpa using hl1) (by simpa using hl2) h p hp
        · cases h

theorem checkDegreesAndBounds_ok_iff (s : Nat) (p : List F) (b : Option Nat) :
    checkDegreesAndBounds s p b = .ok () ↔
      pdeg p ≤ s ∧ ∀ d, b = some d → pdeg p ≤ d ∧ d ≤ s := by
  constructor
  · exact adm_spec s p b
  · rintro ⟨h1, h2⟩
    unfold checkDegreesAndBounds
    rw [if_neg (by omega)]
    cases b with
    | none => rfl
    | some d =>
      obtain ⟨h3, h4⟩ := h2 d rfl
      simp only
      rw [if_neg (by omega)]

end IPA
end PCV
