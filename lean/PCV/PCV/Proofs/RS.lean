/-
  PCV.Proofs.RS — linear combinations of lists; the Reed–Solomon row encoder is a linear map of
  the declared length.
-/
import PCV.Model.RS
import PCV.Proofs.Poly

namespace PCV
namespace LinCode
variable {F : Type} [Field F]

/-! ### linear combinations of lists -/

@[simp] theorem lc_nil_left (a b : F) (y : List F) : lc a [] b y = [] := by simp [lc]
@[simp] theorem lc_nil_right (a b : F) (x : List F) : lc a x b [] = [] := by simp [lc]
@[simp] theorem lc_cons (a b u v : F) (x y : List F) :
    lc a (u :: x) b (v :: y) = (a * u + b * v) :: lc a x b y := by simp [lc]

theorem lc_length (a b : F) (x y : List F) : (lc a x b y).length = min x.length y.length := by
  simp [lc]

theorem lc_length_eq (a b : F) (x y : List F) (h : x.length = y.length) :
    (lc a x b y).length = x.length := by
  rw [lc_length, h, Nat.min_self]

theorem lc_append (a b : F) (x1 x2 y1 y2 : List F) (h : x1.length = y1.length) :
    lc a (x1 ++ x2) b (y1 ++ y2) = lc a x1 b y1 ++ lc a x2 b y2 := by
  unfold lc
  rw [List.map_append, List.map_append, List.zipWith_append (by simpa using h)]

theorem lc_take (a b : F) (x y : List F) (k : Nat) :
    (lc a x b y).take k = lc a (x.take k) b (y.take k) := by
  unfold lc; rw [List.take_zipWith, List.map_take, List.map_take]

theorem lc_drop (a b : F) (x y : List F) (k : Nat) :
    (lc a x b y).drop k = lc a (x.drop k) b (y.drop k) := by
  unfold lc; rw [List.drop_zipWith, List.map_drop, List.map_drop]

theorem lc_map {α : Type} (a b : F) (l : List α) (f g : α → F) :
    l.map (fun c => a * f c + b * g c) = lc a (l.map f) b (l.map g) := by
  induction l with
  | nil => simp
  | cons c cs ih => simp [ih]

theorem lc_replicate_zero (a b : F) (k : Nat) :
    lc a (List.replicate k 0) b (List.replicate k 0) = List.replicate k (0 : F) := by
  induction k with
  | zero => simp
  | succ k ih => simp [List.replicate_succ, ih]

theorem getD'_lc (a b : F) (x y : List F) (h : x.length = y.length) (i : Nat) :
    getD' (lc a x b y) i 0 = a * getD' x i 0 + b * getD' y i 0 := by
  induction x generalizing y i with
  | nil =>
    cases y with
    | nil => simp [getD']
    | cons v y => simp at h
  | cons u x ih =>
    cases y with
    | nil => simp at h
    | cons v y =>
      cases i with
      | zero => simp [getD']
      | succ i =>
        have := ih y (by simpa using h) i
        simpa [getD'] using this

/-! ### Reed–Solomon -/

theorem evalPoly_lc (a b : F) (x y : List F) (h : x.length = y.length) (z : F) :
    evalPoly (lc a x b y) z = a * evalPoly x z + b * evalPoly y z := by
  induction x generalizing y with
  | nil =>
    cases y with
    | nil => simp
    | cons v y => simp at h
  | cons u x ih =>
    cases y with
    | nil => simp at h
    | cons v y =>
      rw [lc_cons, evalPoly_cons, evalPoly_cons, evalPoly_cons, ih y (by simpa using h)]
      ring

theorem evalAt_length (pts msg : List F) : (evalAt pts msg).length = pts.length := by
  simp [evalAt]

theorem evalAt_lc (pts : List F) (a b : F) (x y : List F) (h : x.length = y.length) :
    evalAt pts (lc a x b y) = lc a (evalAt pts x) b (evalAt pts y) := by
  unfold evalAt
  rw [← lc_map]
  apply List.map_congr_left
  intro z _
  exact evalPoly_lc a b x y h z

/-- **The Reed–Solomon row encoding is linear**: `E(a·x + b·y) = a·E(x) + b·E(y)` for messages of
equal length. -/
theorem rs_linear (ω : F) (len : Nat) (a b : F) (x y : List F) (h : x.length = y.length) :
    rsEncode ω len (lc a x b y) = lc a (rsEncode ω len x) b (rsEncode ω len y) :=
  evalAt_lc _ a b x y h

/-- the codeword has the declared length -/
theorem rs_length (ω : F) (len : Nat) (msg : List F) : (rsEncode ω len msg).length = len := by
  unfold rsEncode domainPts; rw [evalAt_length, powers_length]

theorem domainPts_get (ω : F) (len j : Nat) (h : j < len) :
    (domainPts ω len)[j]? = some (ω ^ j) := by
  unfold domainPts
  suffices H : ∀ (g : F) (len j : Nat), j < len → (powers g ω len)[j]? = some (ω ^ j * g) by
    simpa using H 1 len j h
  intro g len
  induction len generalizing g with
  | zero => intro j hj; omega
  | succ len ih =>
    intro j hj
    cases j with
    | zero => simp [powers]
    | succ j =>
      simp only [powers, List.getElem?_cons_succ]
      rw [ih (ω * g) j (by omega)]
      congr 1; ring

/-- entry `j` of the codeword is the message polynomial at `ωʲ` -/
theorem rs_entry (ω : F) (len : Nat) (msg : List F) (j : Nat) (h : j < len) :
    (rsEncode ω len msg)[j]? = some (evalPoly msg (ω ^ j)) := by
  unfold rsEncode evalAt
  rw [List.getElem?_map, domainPts_get ω len j h]; rfl

end LinCode
end PCV
