/-
  PCV.Proofs.CombCompleteCount — the number of monomials: `specTerms n D` has `C(n+D, D)` entries,
  for all `n`, `D` (stars and bars through `Nat.multichoose`).
-/
import PCV.Proofs.Combinations
import Mathlib.Data.Nat.Choose.Basic
import Mathlib.Data.Sym.Card

namespace PCV
namespace C15Spec

theorem sum_multichoose (c k : Nat) :
    ((List.range (k + 1)).map (fun j => Nat.multichoose c j)).sum = Nat.multichoose (c + 1) k := by
  induction k with
  | zero => simp
  | succ k ih =>
    rw [List.range_succ, List.map_append, List.sum_append, ih, Nat.multichoose_succ_succ]
    simp; omega

theorem reverse_range_map (F : Nat → Nat) (k : Nat) :
    ((List.range (k + 1)).reverse.map (fun e => F (k - e))) = (List.range (k + 1)).map F := by
  rw [List.range_eq_range', List.reverse_range', List.map_map, ← List.range_eq_range']
  apply List.map_congr_left
  intro i hi
  simp only [List.mem_range] at hi
  simp only [Function.comp]
  congr 1
  omega

theorem termsExact_length (c lo k : Nat) : (termsExact c lo k).length = Nat.multichoose c k := by
  induction c generalizing lo k with
  | zero => cases k <;> simp [termsExact]
  | succ c ih =>
    simp only [termsExact, List.length_flatMap, List.length_map, ih]
    rw [reverse_range_map (fun j => Nat.multichoose c j) k, sum_multichoose]

/-- **`C(n+D, D)` monomials**, all `n`, `D`. -/
theorem specTerms_length (n D : Nat) : (specTerms n D).length = Nat.choose (n + D) D := by
  simp only [specTerms, List.length_append, List.length_flatMap, termsExact_length,
    List.length_singleton]
  have h := sum_multichoose n D
  rw [List.range_succ_eq_map, List.map_cons, List.sum_cons, List.map_map] at h
  rw [List.range'_eq_map_range, List.map_map]
  have hfun : ((fun j => Nat.multichoose n j) ∘ Nat.succ) = ((fun k => Nat.multichoose n k) ∘ fun x => 1 + x) := by
    funext x; simp [Function.comp, Nat.succ_eq_add_one, Nat.add_comm]
  rw [hfun] at h
  rw [Nat.multichoose_eq (n + 1) D, show n + 1 + D - 1 = n + D by omega] at h
  have h0 : Nat.multichoose n 0 = 1 := Nat.multichoose_zero_right n
  simp only [h0] at h
  omega

end C15Spec
end PCV
