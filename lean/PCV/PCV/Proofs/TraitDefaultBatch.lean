/-
  PCV.Proofs.TraitDefaultBatch — the default `batch_open` / `batch_check`: exact characterisation of
  the verifier's loop, independence of list orders, lock-step of the two loops, completeness relative
  to the scheme's own `open` / `check`.
-/
import PCV.Proofs.TraitDefault
set_option linter.unusedSectionVars false
set_option linter.unusedVariables false

namespace PCV
namespace TraitDefault
open QS (StrictTotal ltLabel ltKey)

variable {Pt : Type} [DecidableEq Pt]

/-! ### the verifier's loop -/

section Check
variable {C V PF σ : Type}

/-- The per-group runs of the scheme's `check`, in map order with the state threaded: group `i` finds its
commitments and values, `checkF` answers `bsᵢ` without refusing and hands its state to group `i+1`. -/
def Chain (lblC : C → Label) (checkF : List C → Pt → List V → PF → σ → Except Err (Bool × σ))
    (comms : List C) (evals : List ((Label × Pt) × V)) :
    List (Group Pt) → List PF → List Bool → σ → σ → Prop
  | [], πs, bs, s, s' => πs = [] ∧ bs = [] ∧ s' = s
  | g :: gs, πs, bs, s, s' =>
    ∃ π πs' b bs' cs vs s1, πs = π :: πs' ∧ bs = b :: bs' ∧
      gatherCheck lblC comms evals g.2.1 g.2.2 = .ok (cs, vs) ∧
      checkF cs g.2.1 vs π s = .ok (b, s1) ∧
      Chain lblC checkF comms evals gs πs' bs' s1 s'

theorem chain_lengths (lblC : C → Label) (checkF : List C → Pt → List V → PF → σ → Except Err (Bool × σ))
    (comms : List C) (evals : List ((Label × Pt) × V)) (gs : List (Group Pt)) (πs : List PF)
    (bs : List Bool) (s s' : σ) (h : Chain lblC checkF comms evals gs πs bs s s') :
    πs.length = gs.length ∧ bs.length = gs.length := by
  induction gs generalizing πs bs s with
  | nil => obtain ⟨rfl, rfl, _⟩ := h; simp
  | cons g gs ih =>
    obtain ⟨π, πs', b, bs', cs, vs, s1, rfl, rfl, _, _, hc⟩ := h
    obtain ⟨h1, h2⟩ := ih _ _ _ hc
    simp [h1, h2]

theorem loop_ok_iff (lblC : C → Label) (checkF : List C → Pt → List V → PF → σ → Except Err (Bool × σ))
    (comms : List C) (evals : List ((Label × Pt) × V)) (gs : List (Group Pt)) (πs : List PF)
    (acc : Bool) (s : σ) (r : Bool) (s' : σ) (hl : πs.length = gs.length) :
    batchCheckLoop lblC checkF comms evals gs πs acc s = .ok (r, s') ↔
      ∃ bs, Chain lblC checkF comms evals gs πs bs s s' ∧ r = (acc && bs.all id) := by
  induction gs generalizing πs acc s with
  | nil =>
    cases πs with
    | cons _ _ => simp at hl
    | nil =>
      constructor
      · intro h
        simp only [batchCheckLoop, Except.ok.injEq, Prod.mk.injEq] at h
        obtain ⟨rfl, rfl⟩ := h
        exact ⟨[], ⟨rfl, rfl, rfl⟩, by simp⟩
      · rintro ⟨bs, ⟨_, rfl, rfl⟩, rfl⟩
        simp [batchCheckLoop]
  | cons g gs ih =>
    cases πs with
    | nil => simp at hl
    | cons π πs =>
      have hl' : πs.length = gs.length := by simpa using hl
      simp only [batchCheckLoop, Chain]
      cases hg : gatherCheck lblC comms evals g.2.1 g.2.2 with
      | error e =>
        simp only [reduceCtorEq, false_iff, not_exists, not_and]
        rintro bs ⟨_, _, _, _, cs, vs, _, _, _, h, _⟩
        cases h
      | ok cv =>
        obtain ⟨cs, vs⟩ := cv
        simp only
        cases hc : checkF cs g.2.1 vs π s with
        | error e =>
          simp only [reduceCtorEq, false_iff, not_exists, not_and]
          rintro bs ⟨π', _, _, _, cs', vs', _, h1, _, h2, h3, _⟩
          simp only [List.cons.injEq] at h1
          obtain ⟨rfl, rfl⟩ := h1
          simp only [Except.ok.injEq, Prod.mk.injEq] at h2
          obtain ⟨rfl, rfl⟩ := h2
          rw [hc] at h3; cases h3
        | ok bs1 =>
          obtain ⟨b, s1⟩ := bs1
          simp only
          rw [ih πs (acc && b) s1 hl']
          constructor
          · rintro ⟨bs, hch, rfl⟩
            refine ⟨b :: bs, ⟨π, πs, b, bs, cs, vs, s1, rfl, rfl, rfl, hc, hch⟩, ?_⟩
            simp [Bool.and_assoc]
          · rintro ⟨bs, ⟨π', πs', b', bs', cs', vs', s1', h1, rfl, h2, h3, hch⟩, rfl⟩
            simp only [List.cons.injEq] at h1
            obtain ⟨rfl, rfl⟩ := h1
            simp only [Except.ok.injEq, Prod.mk.injEq] at h2
            obtain ⟨rfl, rfl⟩ := h2
            rw [hc] at h3
            simp only [Except.ok.injEq, Prod.mk.injEq] at h3
            obtain ⟨rfl, rfl⟩ := h3
            exact ⟨bs', hch, by simp [Bool.and_assoc]⟩

/-- **default `batch_check`, exactly**: it answers `r` in state `s'` iff the number of proofs is the
number of point labels and every group's `check` answers (none refuses), `r` being the conjunction -/
theorem batchCheckSet_ok_iff (lblC : C → Label)
    (checkF : List C → Pt → List V → PF → σ → Except Err (Bool × σ))
    (comms : List C) (qset : List (Query Pt)) (evals : List ((Label × Pt) × V)) (πs : List PF)
    (s : σ) (r : Bool) (s' : σ) :
    batchCheckSet lblC checkF comms qset evals πs s = .ok (r, s') ↔
      πs.length = (groups qset).length ∧
      ∃ bs, Chain lblC checkF comms evals (groups qset) πs bs s s' ∧ r = bs.all id := by
  unfold batchCheckSet
  by_cases hl : πs.length = (groups qset).length
  · rw [if_neg (by simpa using hl), loop_ok_iff _ _ _ _ _ _ _ _ _ _ hl]
    simp [hl]
  · rw [if_pos hl]
    simp [hl]

theorem batchCheckSet_wrong_count (lblC : C → Label)
    (checkF : List C → Pt → List V → PF → σ → Except Err (Bool × σ))
    (comms : List C) (qset : List (Query Pt)) (evals : List ((Label × Pt) × V)) (πs : List PF)
    (s : σ) (hl : πs.length ≠ (groups qset).length) :
    batchCheckSet lblC checkF comms qset evals πs s = .error .abort := by
  unfold batchCheckSet; rw [if_pos hl]

/-- the first refusal in map order is the refusal of the batch -/
def Refuses (lblC : C → Label) (checkF : List C → Pt → List V → PF → σ → Except Err (Bool × σ))
    (comms : List C) (evals : List ((Label × Pt) × V)) : List (Group Pt) → List PF → σ → Err → Prop
  | [], _, _, _ => False
  | _ :: _, [], _, _ => False
  | g :: gs, π :: πs, s, e =>
    gatherCheck lblC comms evals g.2.1 g.2.2 = .error e ∨
    ∃ cs vs, gatherCheck lblC comms evals g.2.1 g.2.2 = .ok (cs, vs) ∧
      (checkF cs g.2.1 vs π s = .error e ∨
       ∃ b s1, checkF cs g.2.1 vs π s = .ok (b, s1) ∧ Refuses lblC checkF comms evals gs πs s1 e)

theorem loop_error_iff (lblC : C → Label) (checkF : List C → Pt → List V → PF → σ → Except Err (Bool × σ))
    (comms : List C) (evals : List ((Label × Pt) × V)) (gs : List (Group Pt)) (πs : List PF)
    (acc : Bool) (s : σ) (e : Err) :
    batchCheckLoop lblC checkF comms evals gs πs acc s = .error e ↔
      Refuses lblC checkF comms evals gs πs s e := by
  induction gs generalizing πs acc s with
  | nil => simp [batchCheckLoop, Refuses]
  | cons g gs ih =>
    cases πs with
    | nil => simp [batchCheckLoop, Refuses]
    | cons π πs =>
      simp only [batchCheckLoop, Refuses]
      cases hg : gatherCheck lblC comms evals g.2.1 g.2.2 with
      | error e' =>
        simp only
        constructor
        · intro h; injection h with h; exact Or.inl (by rw [h])
        · rintro (h | ⟨cs, vs, h, _⟩)
          · injection h with h; rw [h]
          · cases h
      | ok cv =>
        obtain ⟨cs, vs⟩ := cv
        simp only
        cases hc : checkF cs g.2.1 vs π s with
        | error e' =>
          constructor
          · intro h; exact Or.inr ⟨cs, vs, rfl, Or.inl (by rw [hc]; exact h)⟩
          · rintro (h | ⟨cs', vs', h, h2⟩)
            · cases h
            · simp only [Except.ok.injEq, Prod.mk.injEq] at h
              obtain ⟨rfl, rfl⟩ := h
              rcases h2 with h2 | ⟨b, s1, h2, _⟩
              · rw [hc] at h2; exact h2
              · rw [hc] at h2; cases h2
        | ok bs1 =>
          obtain ⟨b, s1⟩ := bs1
          simp only
          rw [ih]
          constructor
          · intro h; exact Or.inr ⟨cs, vs, rfl, Or.inr ⟨b, s1, hc, h⟩⟩
          · rintro (h | ⟨cs', vs', h, h2⟩)
            · cases h
            · simp only [Except.ok.injEq, Prod.mk.injEq] at h
              obtain ⟨rfl, rfl⟩ := h
              rcases h2 with h2 | ⟨b', s1', h2, h3⟩
              · rw [hc] at h2; cases h2
              · rw [hc] at h2
                simp only [Except.ok.injEq, Prod.mk.injEq] at h2
                obtain ⟨rfl, rfl⟩ := h2
                exact h3

/-! #### what the loop reads of its inputs -/

theorem gatherCheck_congr (lblC : C → Label) (comms comms' : List C)
    (evals evals' : List ((Label × Pt) × V)) (z : Pt) (ls : List Label)
    (hc : ∀ l ∈ ls, Marlin.lookupLast lblC l comms = Marlin.lookupLast lblC l comms')
    (he : ∀ l ∈ ls, QS.lastWith (l, z) evals = QS.lastWith (l, z) evals') :
    gatherCheck lblC comms evals z ls = gatherCheck lblC comms' evals' z ls := by
  induction ls with
  | nil => rfl
  | cons l ls ih =>
    simp only [gatherCheck]
    rw [hc l List.mem_cons_self, he l List.mem_cons_self,
      ih (fun l' h => hc l' (List.mem_cons_of_mem _ h)) (fun l' h => he l' (List.mem_cons_of_mem _ h))]

theorem batchCheckLoop_congr (lblC : C → Label)
    (checkF : List C → Pt → List V → PF → σ → Except Err (Bool × σ))
    (comms comms' : List C) (evals evals' : List ((Label × Pt) × V)) (gs : List (Group Pt))
    (hc : ∀ g ∈ gs, ∀ l ∈ g.2.2, Marlin.lookupLast lblC l comms = Marlin.lookupLast lblC l comms')
    (he : ∀ g ∈ gs, ∀ l ∈ g.2.2, QS.lastWith (l, g.2.1) evals = QS.lastWith (l, g.2.1) evals')
    (πs : List PF) (acc : Bool) (s : σ) :
    batchCheckLoop lblC checkF comms evals gs πs acc s =
      batchCheckLoop lblC checkF comms' evals' gs πs acc s := by
  induction gs generalizing πs acc s with
  | nil => cases πs <;> rfl
  | cons g gs ih =>
    cases πs with
    | nil => rfl
    | cons π πs =>
      simp only [batchCheckLoop]
      rw [gatherCheck_congr lblC comms comms' evals evals' g.2.1 g.2.2
        (hc g List.mem_cons_self) (he g List.mem_cons_self)]
      cases gatherCheck lblC comms' evals' g.2.1 g.2.2 with
      | error e => rfl
      | ok cv =>
        obtain ⟨cs, vs⟩ := cv
        simp only
        cases checkF cs g.2.1 vs π s with
        | error e => rfl
        | ok bs1 =>
          obtain ⟨b, s1⟩ := bs1
          exact ih (fun g' h => hc g' (List.mem_cons_of_mem _ h))
            (fun g' h => he g' (List.mem_cons_of_mem _ h)) πs (acc && b) s1

/-- the labels handed to `check` are the labels of the group, in set order -/
theorem gatherCheck_labels (lblC : C → Label) (comms : List C) (evals : List ((Label × Pt) × V))
    (z : Pt) (ls : List Label) (cs : List C) (vs : List V)
    (h : gatherCheck lblC comms evals z ls = .ok (cs, vs)) :
    cs.map lblC = ls ∧ vs.length = ls.length ∧
      ∀ x ∈ ls.zip (cs.zip vs), Marlin.lookupLast lblC x.1 comms = some x.2.1 ∧
        QS.lastWith (x.1, z) evals = some x.2.2 := by
  induction ls generalizing cs vs with
  | nil =>
    simp only [gatherCheck, Except.ok.injEq, Prod.mk.injEq] at h
    obtain ⟨rfl, rfl⟩ := h
    simp
  | cons l ls ih =>
    simp only [gatherCheck] at h
    cases hc : Marlin.lookupLast lblC l comms with
    | none => rw [hc] at h; cases h
    | some c =>
      rw [hc] at h
      simp only at h
      cases hv : QS.lastWith (l, z) evals with
      | none => rw [hv] at h; cases h
      | some v =>
        rw [hv] at h
        simp only at h
        cases hr : gatherCheck lblC comms evals z ls with
        | error e => rw [hr] at h; cases h
        | ok cv =>
          obtain ⟨cs', vs'⟩ := cv
          rw [hr] at h
          simp only [Except.ok.injEq, Prod.mk.injEq] at h
          obtain ⟨rfl, rfl⟩ := h
          obtain ⟨h1, h2, h3⟩ := ih cs' vs' hr
          refine ⟨by simp [h1, (lookupLast_some_mem lblC l comms c hc).2], by simp [h2], ?_⟩
          intro x hx
          simp only [List.zip_cons_cons, List.mem_cons] at hx
          rcases hx with rfl | hx
          · exact ⟨hc, hv⟩
          · exact h3 x hx

end Check

/-! ### the prover's loop -/

section Open
variable {LP S C PF σ : Type}

theorem gatherOpen_congr (lblP : LP → Label) (trips trips' : List ((LP × S) × C)) (ls : List Label)
    (h : ∀ l ∈ ls, Marlin.lookupLast (fun (t : (LP × S) × C) => lblP t.1.1) l trips =
      Marlin.lookupLast (fun (t : (LP × S) × C) => lblP t.1.1) l trips') :
    gatherOpen lblP trips ls = gatherOpen lblP trips' ls := by
  induction ls with
  | nil => rfl
  | cons l ls ih =>
    simp only [gatherOpen]
    rw [h l List.mem_cons_self, ih fun l' h' => h l' (List.mem_cons_of_mem _ h')]

theorem batchOpenLoop_congr (lblP : LP → Label)
    (openF : List ((LP × S) × C) → Pt → σ → Except Err (PF × σ))
    (trips trips' : List ((LP × S) × C)) (gs : List (Group Pt))
    (h : ∀ g ∈ gs, ∀ l ∈ g.2.2, Marlin.lookupLast (fun (t : (LP × S) × C) => lblP t.1.1) l trips =
      Marlin.lookupLast (fun (t : (LP × S) × C) => lblP t.1.1) l trips') (s : σ) :
    batchOpenLoop lblP openF trips gs s = batchOpenLoop lblP openF trips' gs s := by
  induction gs generalizing s with
  | nil => rfl
  | cons g gs ih =>
    simp only [batchOpenLoop]
    rw [gatherOpen_congr lblP trips trips' g.2.2 (h g List.mem_cons_self)]
    cases gatherOpen lblP trips' g.2.2 with
    | error e => rfl
    | ok ts =>
      simp only
      cases openF ts g.2.1 s with
      | error e => rfl
      | ok πs1 =>
        obtain ⟨π, s1⟩ := πs1
        simp only
        rw [ih (fun g' h' => h g' (List.mem_cons_of_mem _ h')) s1]

theorem gatherOpen_spec (lblP : LP → Label) (trips : List ((LP × S) × C)) (ls : List Label)
    (ts : List ((LP × S) × C)) (h : gatherOpen lblP trips ls = .ok ts) :
    ts.map (fun t => lblP t.1.1) = ls ∧
      ∀ x ∈ ls.zip ts, Marlin.lookupLast (fun (t : (LP × S) × C) => lblP t.1.1) x.1 trips = some x.2 := by
  induction ls generalizing ts with
  | nil =>
    simp only [gatherOpen, Except.ok.injEq] at h
    subst h; simp
  | cons l ls ih =>
    simp only [gatherOpen] at h
    cases hc : Marlin.lookupLast (fun (t : (LP × S) × C) => lblP t.1.1) l trips with
    | none => rw [hc] at h; cases h
    | some t =>
      rw [hc] at h
      simp only at h
      cases hr : gatherOpen lblP trips ls with
      | error e => rw [hr] at h; cases h
      | ok ts' =>
        rw [hr] at h
        simp only [Except.ok.injEq] at h
        subst h
        obtain ⟨h1, h2⟩ := ih ts' hr
        refine ⟨by simp [h1, (lookupLast_some_mem _ l trips t hc).2], ?_⟩
        intro x hx
        simp only [List.zip_cons_cons, List.mem_cons] at hx
        rcases hx with rfl | hx
        · exact hc
        · exact h2 x hx

theorem batchOpenLoop_length (lblP : LP → Label)
    (openF : List ((LP × S) × C) → Pt → σ → Except Err (PF × σ))
    (trips : List ((LP × S) × C)) (gs : List (Group Pt)) (s : σ) (πs : List PF) (s' : σ)
    (h : batchOpenLoop lblP openF trips gs s = .ok (πs, s')) : πs.length = gs.length := by
  induction gs generalizing s πs with
  | nil => simp only [batchOpenLoop, Except.ok.injEq, Prod.mk.injEq] at h; simp [← h.1]
  | cons g gs ih =>
    simp only [batchOpenLoop] at h
    cases hg : gatherOpen lblP trips g.2.2 with
    | error e => rw [hg] at h; cases h
    | ok ts =>
      rw [hg] at h
      simp only at h
      cases ho : openF ts g.2.1 s with
      | error e => rw [ho] at h; cases h
      | ok πs1 =>
        obtain ⟨π, s1⟩ := πs1
        rw [ho] at h
        simp only at h
        cases hr : batchOpenLoop lblP openF trips gs s1 with
        | error e => rw [hr] at h; cases h
        | ok r =>
          obtain ⟨πs', s2⟩ := r
          rw [hr] at h
          simp only [Except.ok.injEq, Prod.mk.injEq] at h
          obtain ⟨rfl, rfl⟩ := h
          simp [ih s1 πs' hr]

end Open

/-! ### both loops together -/

section Both
variable {LP S C V PF σp σv : Type}

/-- **Lock-step.** If one `open` and the `check` of the same group (same labels, same point) keep a
relation `R` between the prover's and the verifier's state, the default `batch_open` and `batch_check`
over the same groups keep it — whatever the verdicts (a `false` does not end the verifier's loop). -/
theorem loops_lockstep (lblP : LP → Label) (lblC : C → Label)
    (openF : List ((LP × S) × C) → Pt → σp → Except Err (PF × σp))
    (checkF : List C → Pt → List V → PF → σv → Except Err (Bool × σv))
    (R : σp → σv → Prop)
    (hstep : ∀ ts cs z vs π sp sp' sv sv' b, R sp sv →
      ts.map (fun t => lblP t.1.1) = cs.map lblC →
      openF ts z sp = .ok (π, sp') → checkF cs z vs π sv = .ok (b, sv') → R sp' sv')
    (trips : List ((LP × S) × C)) (comms : List C) (evals : List ((Label × Pt) × V))
    (gs : List (Group Pt)) (sp : σp) (sv : σv) (πs : List PF) (sp' : σp) (acc b : Bool) (sv' : σv)
    (h0 : R sp sv)
    (ho : batchOpenLoop lblP openF trips gs sp = .ok (πs, sp'))
    (hc : batchCheckLoop lblC checkF comms evals gs πs acc sv = .ok (b, sv')) : R sp' sv' := by
  induction gs generalizing sp sv πs acc with
  | nil =>
    simp only [batchOpenLoop, Except.ok.injEq, Prod.mk.injEq] at ho
    obtain ⟨rfl, rfl⟩ := ho
    simp only [batchCheckLoop, Except.ok.injEq, Prod.mk.injEq] at hc
    obtain ⟨_, rfl⟩ := hc
    exact h0
  | cons g gs ih =>
    simp only [batchOpenLoop] at ho
    cases hg : gatherOpen lblP trips g.2.2 with
    | error e => rw [hg] at ho; cases ho
    | ok ts =>
      rw [hg] at ho
      simp only at ho
      cases hop : openF ts g.2.1 sp with
      | error e => rw [hop] at ho; cases ho
      | ok πs1 =>
        obtain ⟨π, sp1⟩ := πs1
        rw [hop] at ho
        simp only at ho
        cases hr : batchOpenLoop lblP openF trips gs sp1 with
        | error e => rw [hr] at ho; cases ho
        | ok r =>
          obtain ⟨πs', sp2⟩ := r
          rw [hr] at ho
          simp only [Except.ok.injEq, Prod.mk.injEq] at ho
          obtain ⟨rfl, rfl⟩ := ho
          simp only [batchCheckLoop] at hc
          cases hgc : gatherCheck lblC comms evals g.2.1 g.2.2 with
          | error e => rw [hgc] at hc; cases hc
          | ok cv =>
            obtain ⟨cs, vs⟩ := cv
            rw [hgc] at hc
            simp only at hc
            cases hck : checkF cs g.2.1 vs π sv with
            | error e => rw [hck] at hc; cases hc
            | ok bs1 =>
              obtain ⟨b1, sv1⟩ := bs1
              rw [hck] at hc
              simp only at hc
              have hl : ts.map (fun t => lblP t.1.1) = cs.map lblC := by
                rw [(gatherOpen_spec lblP trips g.2.2 ts hg).1,
                  (gatherCheck_labels lblC comms evals g.2.1 g.2.2 cs vs hgc).1]
              exact ih sp1 sv1 πs' (acc && b1) (hstep ts cs g.2.1 vs π sp sp1 sv sv1 b1 h0 hl hop hck)
                hr hc

/-- what the verifier's group inputs are when its commitment list and evaluations match the prover's
triples -/
theorem gatherCheck_of_gatherOpen (lblP : LP → Label) (lblC : C → Label) (evalP : LP → Pt → V)
    (trips : List ((LP × S) × C)) (comms : List C) (evals : List ((Label × Pt) × V)) (z : Pt)
    (ls : List Label) (ts : List ((LP × S) × C))
    (hcm : ∀ l ∈ ls, ∀ t, Marlin.lookupLast (fun (t : (LP × S) × C) => lblP t.1.1) l trips = some t →
      Marlin.lookupLast lblC l comms = some t.2)
    (hev : ∀ l ∈ ls, ∀ t, Marlin.lookupLast (fun (t : (LP × S) × C) => lblP t.1.1) l trips = some t →
      QS.lastWith (l, z) evals = some (evalP t.1.1 z))
    (h : gatherOpen lblP trips ls = .ok ts) :
    gatherCheck lblC comms evals z ls = .ok (ts.map (·.2), ts.map fun t => evalP t.1.1 z) := by
  induction ls generalizing ts with
  | nil =>
    simp only [gatherOpen, Except.ok.injEq] at h
    subst h; rfl
  | cons l ls ih =>
    simp only [gatherOpen] at h
    cases hc : Marlin.lookupLast (fun (t : (LP × S) × C) => lblP t.1.1) l trips with
    | none => rw [hc] at h; cases h
    | some t =>
      rw [hc] at h
      simp only at h
      cases hr : gatherOpen lblP trips ls with
      | error e => rw [hr] at h; cases h
      | ok ts' =>
        rw [hr] at h
        simp only [Except.ok.injEq] at h
        subst h
        simp only [gatherCheck, hcm l List.mem_cons_self t hc, hev l List.mem_cons_self t hc,
          ih ts' (fun l' h' => hcm l' (List.mem_cons_of_mem _ h'))
            (fun l' h' => hev l' (List.mem_cons_of_mem _ h')) hr, List.map_cons]

/-- **Completeness of the default batch, relative to the scheme.** Suppose the scheme's `open`/`check`
pair is complete on the triples the batch can gather (`Good`), keeping `R`: a proof `open` produces from
a state related to the verifier's is accepted for the true evaluations and the states stay related.
Then the proofs `batch_open` returns are accepted by `batch_check` — for ANY verifier-side commitment
list and evaluation map that agree with the prover's data on the queried labels — and the final states
are related. -/
theorem loops_complete (lblP : LP → Label) (lblC : C → Label) (evalP : LP → Pt → V)
    (openF : List ((LP × S) × C) → Pt → σp → Except Err (PF × σp))
    (checkF : List C → Pt → List V → PF → σv → Except Err (Bool × σv))
    (R : σp → σv → Prop) (Good : List ((LP × S) × C) → Prop)
    (hcomplete : ∀ ts z π sp sp' sv, Good ts → R sp sv → openF ts z sp = .ok (π, sp') →
      ∃ sv', checkF (ts.map (·.2)) z (ts.map fun t => evalP t.1.1 z) π sv = .ok (true, sv') ∧ R sp' sv')
    (trips : List ((LP × S) × C)) (comms : List C) (evals : List ((Label × Pt) × V))
    (gs : List (Group Pt))
    (hgood : ∀ g ∈ gs, ∀ ts, gatherOpen lblP trips g.2.2 = .ok ts → Good ts)
    (hcm : ∀ g ∈ gs, ∀ l ∈ g.2.2, ∀ t,
      Marlin.lookupLast (fun (t : (LP × S) × C) => lblP t.1.1) l trips = some t →
      Marlin.lookupLast lblC l comms = some t.2)
    (hev : ∀ g ∈ gs, ∀ l ∈ g.2.2, ∀ t,
      Marlin.lookupLast (fun (t : (LP × S) × C) => lblP t.1.1) l trips = some t →
      QS.lastWith (l, g.2.1) evals = some (evalP t.1.1 g.2.1))
    (sp : σp) (sv : σv) (πs : List PF) (sp' : σp) (h0 : R sp sv)
    (ho : batchOpenLoop lblP openF trips gs sp = .ok (πs, sp')) :
    ∃ sv', batchCheckLoop lblC checkF comms evals gs πs true sv = .ok (true, sv') ∧ R sp' sv' := by
  induction gs generalizing sp sv πs with
  | nil =>
    simp only [batchOpenLoop, Except.ok.injEq, Prod.mk.injEq] at ho
    obtain ⟨rfl, rfl⟩ := ho
    exact ⟨sv, rfl, h0⟩
  | cons g gs ih =>
    simp only [batchOpenLoop] at ho
    cases hg : gatherOpen lblP trips g.2.2 with
    | error e => rw [hg] at ho; cases ho
    | ok ts =>
      rw [hg] at ho
      simp only at ho
      cases hop : openF ts g.2.1 sp with
      | error e => rw [hop] at ho; cases ho
      | ok πs1 =>
        obtain ⟨π, sp1⟩ := πs1
        rw [hop] at ho
        simp only at ho
        cases hr : batchOpenLoop lblP openF trips gs sp1 with
        | error e => rw [hr] at ho; cases ho
        | ok r =>
          obtain ⟨πs', sp2⟩ := r
          rw [hr] at ho
          simp only [Except.ok.injEq, Prod.mk.injEq] at ho
          obtain ⟨rfl, rfl⟩ := ho
          obtain ⟨sv1, hck, hR⟩ := hcomplete ts g.2.1 π sp sp1 sv
            (hgood g List.mem_cons_self ts hg) h0 hop
          obtain ⟨sv2, hloop, hR2⟩ := ih
            (fun g' h' => hgood g' (List.mem_cons_of_mem _ h'))
            (fun g' h' => hcm g' (List.mem_cons_of_mem _ h'))
            (fun g' h' => hev g' (List.mem_cons_of_mem _ h')) sp1 sv1 πs' hR hr
          refine ⟨sv2, ?_, hR2⟩
          simp only [batchCheckLoop]
          rw [gatherCheck_of_gatherOpen lblP lblC evalP trips comms evals g.2.1 g.2.2 ts
            (hcm g List.mem_cons_self) (hev g List.mem_cons_self) hg]
          simp only [hck, Bool.and_self]
          exact hloop

end Both


/-! ### consequences for every position of a batch -/

section Positions
variable {C V PF σ : Type}

theorem gatherCheck_forall (lblC : C → Label) (comms : List C) (evals : List ((Label × Pt) × V))
    (z : Pt) (f : C → V) (ls : List Label) (cs : List C) (vs : List V)
    (h : gatherCheck lblC comms evals z ls = .ok (cs, vs)) (hv : vs = cs.map f) :
    ∀ l ∈ ls, ∃ c, Marlin.lookupLast lblC l comms = some c ∧
      QS.lastWith (l, z) evals = some (f c) := by
  induction ls generalizing cs vs with
  | nil => intro l hl; cases hl
  | cons l ls ih =>
    simp only [gatherCheck] at h
    cases hc : Marlin.lookupLast lblC l comms with
    | none => rw [hc] at h; cases h
    | some c =>
      rw [hc] at h
      simp only at h
      cases hval : QS.lastWith (l, z) evals with
      | none => rw [hval] at h; cases h
      | some v =>
        rw [hval] at h
        simp only at h
        cases hr : gatherCheck lblC comms evals z ls with
        | error e => rw [hr] at h; cases h
        | ok cv =>
          obtain ⟨cs', vs'⟩ := cv
          rw [hr] at h
          simp only [Except.ok.injEq, Prod.mk.injEq] at h
          obtain ⟨rfl, rfl⟩ := h
          simp only [List.map_cons, List.cons.injEq] at hv
          intro l' hl'
          rcases List.mem_cons.1 hl' with rfl | hl'
          · exact ⟨c, hc, by rw [hval, hv.1]⟩
          · exact ih cs' vs' hr hv.2 l' hl'

/-- in a chain whose verdicts are all `true`, every group's `check` accepted its gathered inputs -/
theorem chain_all_true_groups (lblC : C → Label)
    (checkF : List C → Pt → List V → PF → σ → Except Err (Bool × σ))
    (comms : List C) (evals : List ((Label × Pt) × V)) (gs : List (Group Pt)) (πs : List PF)
    (bs : List Bool) (s s' : σ) (h : Chain lblC checkF comms evals gs πs bs s s')
    (hb : ∀ b ∈ bs, b = true) :
    ∀ g ∈ gs, ∃ cs vs π s1 s2, π ∈ πs ∧ gatherCheck lblC comms evals g.2.1 g.2.2 = .ok (cs, vs) ∧
      checkF cs g.2.1 vs π s1 = .ok (true, s2) := by
  induction gs generalizing πs bs s with
  | nil => intro g hg; cases hg
  | cons g gs ih =>
    obtain ⟨π, πs', b, bs', cs, vs, s1, rfl, rfl, hg, hc, hch⟩ := h
    have hbt : b = true := hb b List.mem_cons_self
    subst hbt
    intro g' hg'
    rcases List.mem_cons.1 hg' with rfl | hg'
    · exact ⟨cs, vs, π, s, s1, List.mem_cons_self, hg, hc⟩
    · obtain ⟨cs', vs', π', t1, t2, hm, h1, h2⟩ :=
        ih πs' bs' s1 hch (fun b hb' => hb b (List.mem_cons_of_mem _ hb')) g' hg'
      exact ⟨cs', vs', π', t1, t2, List.mem_cons_of_mem _ hm, h1, h2⟩

/-- in a chain whose verdicts are all `true`, the `i`-th proof is the one the `i`-th group's `check`
accepted, together with the inputs gathered for that group -/
theorem chain_all_true_zip (lblC : C → Label)
    (checkF : List C → Pt → List V → PF → σ → Except Err (Bool × σ))
    (comms : List C) (evals : List ((Label × Pt) × V)) (gs : List (Group Pt)) (πs : List PF)
    (bs : List Bool) (s s' : σ) (h : Chain lblC checkF comms evals gs πs bs s s')
    (hb : ∀ b ∈ bs, b = true) :
    ∀ x ∈ gs.zip πs, ∃ cs vs s1 s2, gatherCheck lblC comms evals x.1.2.1 x.1.2.2 = .ok (cs, vs) ∧
      checkF cs x.1.2.1 vs x.2 s1 = .ok (true, s2) := by
  induction gs generalizing πs bs s with
  | nil => intro x hx; simp at hx
  | cons g gs ih =>
    obtain ⟨π, πs', b, bs', cs, vs, s1, rfl, rfl, hg, hc, hch⟩ := h
    have hbt : b = true := hb b List.mem_cons_self
    subst hbt
    intro x hx
    simp only [List.zip_cons_cons, List.mem_cons] at hx
    rcases hx with rfl | hx
    · exact ⟨cs, vs, s, s1, hg, hc⟩
    · exact ih πs' bs' s1 hch (fun b hb' => hb b (List.mem_cons_of_mem _ hb')) x hx

/-- a chain with a `false` verdict at position `i` (and no refusal anywhere) -/
theorem chain_false_mem (bs : List Bool) : bs.all id = false ↔ false ∈ bs := by
  induction bs with
  | nil => simp
  | cons b bs ih => cases b <;> simp [ih]

theorem chain_all_true (bs : List Bool) : bs.all id = true ↔ ∀ b ∈ bs, b = true := by
  simp [List.all_eq_true]

end Positions

end TraitDefault
end PCV
