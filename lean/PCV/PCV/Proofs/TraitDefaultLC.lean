/-
  PCV.Proofs.TraitDefaultLC — the default `check_combinations`: what the equation stage computes, when it
  lets a claim through, and the exact decision of the whole method.
-/
import PCV.Proofs.TraitDefaultBatch
import PCV.Proofs.LC
set_option linter.unusedSectionVars false
set_option linter.unusedVariables false

namespace PCV
namespace TraitDefault
open QS (StrictTotal ltLabel ltKey)

variable {Pt : Type} [DecidableEq Pt] {F : Type} [Field F] [DecidableEq F]

/-- the assignment of polynomial evaluations at `z` the verifier reads off the transmitted values
(absent ones never matter: `AllPresent` is required wherever it is used) -/
def assign (pe : List ((Label × Pt) × F)) (z : Pt) (l : Label) : F :=
  (QS.lastWith (l, z) pe).getD 0

/-- every polynomial term of the equation has a transmitted evaluation at `z` -/
def AllPresent (pe : List ((Label × Pt) × F)) (z : Pt) (terms : List (F × LC.LCTerm)) : Prop :=
  ∀ t ∈ terms, ∀ l, t.2 = .poly l → (QS.lastWith (l, z) pe).isSome = true

theorem allPresent_cons (pe : List ((Label × Pt) × F)) (z : Pt) (ct : F × LC.LCTerm)
    (rest : List (F × LC.LCTerm)) :
    AllPresent pe z (ct :: rest) ↔
      (∀ l, ct.2 = .poly l → (QS.lastWith (l, z) pe).isSome = true) ∧ AllPresent pe z rest := by
  unfold AllPresent; simp

/-- **the recomputed right-hand side is `Σ coeff·eval + constants`** over the transmitted evaluations,
and the loop refuses exactly when one of them is absent -/
theorem lcActual_ok_iff (pe : List ((Label × Pt) × F)) (z : Pt) (terms : List (F × LC.LCTerm))
    (acc v : F) :
    lcActual pe z terms acc = .ok v ↔
      AllPresent pe z terms ∧ v = acc + LC.termsValue (assign pe z) terms := by
  induction terms generalizing acc with
  | nil =>
    simp only [lcActual, LC.termsValue, add_zero, Except.ok.injEq]
    constructor
    · intro h; exact ⟨fun t ht => (by cases ht), h.symm⟩
    · rintro ⟨_, h⟩; exact h.symm
  | cons ct rest ih =>
    obtain ⟨c, t⟩ := ct
    rw [allPresent_cons]
    cases t with
    | one =>
      simp only [lcActual, ih, LC.termsValue, LC.termVal]
      constructor
      · rintro ⟨h1, rfl⟩; exact ⟨⟨fun l h => (by cases h), h1⟩, by ring⟩
      · rintro ⟨⟨_, h1⟩, rfl⟩; exact ⟨h1, by ring⟩
    | poly l =>
      simp only [lcActual]
      cases hv : QS.lastWith (l, z) pe with
      | none =>
        simp only [reduceCtorEq, false_iff, not_and]
        intro h
        have := h.1 l rfl
        rw [hv] at this; cases this
      | some x =>
        simp only [ih, LC.termsValue, LC.termVal]
        have hx : assign pe z l = x := by unfold assign; rw [hv]; rfl
        rw [hx]
        constructor
        · rintro ⟨h1, rfl⟩
          refine ⟨⟨fun l' h => ?_, h1⟩, by ring⟩
          cases h; rw [hv]; rfl
        · rintro ⟨⟨_, h1⟩, rfl⟩; exact ⟨h1, by ring⟩

theorem lcActual_error (pe : List ((Label × Pt) × F)) (z : Pt) (terms : List (F × LC.LCTerm))
    (acc : F) (e : Err) (h : lcActual pe z terms acc = .error e) : e = .missingEvaluation := by
  induction terms generalizing acc with
  | nil => cases h
  | cons ct rest ih =>
    obtain ⟨c, t⟩ := ct
    cases t with
    | one => simp only [lcActual] at h; exact ih _ h
    | poly l =>
      simp only [lcActual] at h
      cases hv : QS.lastWith (l, z) pe with
      | none => rw [hv] at h; injection h with h; exact h.symm
      | some x => rw [hv] at h; exact ih _ h

/-- the claim of one query of the equation query set: the equation is supplied, all its polynomial
evaluations are transmitted, and the claimed value is the combination of them -/
def EqnHolds (lcs : List (LC.LinComb F)) (ee pe : List ((Label × Pt) × F)) (q : Query Pt) : Prop :=
  ∃ lc, lcGet lcs q.1 = some lc ∧ AllPresent pe q.2.2 lc.terms ∧
    QS.lastWith (q.1, q.2.2) ee = some (LC.termsValue (assign pe q.2.2) lc.terms)

/-- the claim of one query is false: everything is there, the claimed value is another one -/
def EqnFails (lcs : List (LC.LinComb F)) (ee pe : List ((Label × Pt) × F)) (q : Query Pt) : Prop :=
  ∃ lc c, lcGet lcs q.1 = some lc ∧ AllPresent pe q.2.2 lc.terms ∧
    QS.lastWith (q.1, q.2.2) ee = some c ∧ c ≠ LC.termsValue (assign pe q.2.2) lc.terms

theorem eqnLoop_cons (lcs : List (LC.LinComb F)) (ee pe : List ((Label × Pt) × F)) (q : Query Pt)
    (rest : List (Query Pt)) (b : Bool) :
    eqnLoop lcs ee pe (q :: rest) = .ok b ↔
      (EqnHolds lcs ee pe q ∧ eqnLoop lcs ee pe rest = .ok b) ∨ (EqnFails lcs ee pe q ∧ b = false) := by
  constructor
  · intro h
    simp only [eqnLoop] at h
    cases hl : lcGet lcs q.1 with
    | none => rw [hl] at h; cases h
    | some lc =>
      rw [hl] at h
      simp only at h
      cases hc : QS.lastWith (q.1, q.2.2) ee with
      | none => rw [hc] at h; cases h
      | some c =>
        rw [hc] at h
        simp only at h
        cases ha : lcActual pe q.2.2 lc.terms 0 with
        | error e => rw [ha] at h; cases h
        | ok a =>
          rw [ha] at h
          simp only at h
          obtain ⟨hp, ha'⟩ := (lcActual_ok_iff pe q.2.2 lc.terms 0 a).1 ha
          rw [zero_add] at ha'
          subst ha'
          by_cases hne : c = LC.termsValue (assign pe q.2.2) lc.terms
          · rw [if_neg (by simpa using hne)] at h
            exact Or.inl ⟨⟨lc, hl, hp, by rw [hc, hne]⟩, h⟩
          · rw [if_pos hne] at h
            injection h with h
            exact Or.inr ⟨⟨lc, c, hl, hp, hc, hne⟩, h.symm⟩
  · rintro (⟨⟨lc, hl, hp, hc⟩, h⟩ | ⟨⟨lc, c, hl, hp, hc, hne⟩, rfl⟩)
    · simp only [eqnLoop, hl, hc]
      rw [(lcActual_ok_iff pe q.2.2 lc.terms 0 _).2 ⟨hp, (zero_add _).symm⟩]
      simp only [ne_eq, not_true_eq_false, if_false]
      exact h
    · simp only [eqnLoop, hl, hc]
      rw [(lcActual_ok_iff pe q.2.2 lc.terms 0 _).2 ⟨hp, (zero_add _).symm⟩]
      simp only
      rw [if_pos hne]

/-- **the equation stage lets the claims through iff every one of them holds** -/
theorem eqnLoop_true_iff (lcs : List (LC.LinComb F)) (ee pe : List ((Label × Pt) × F))
    (qs : List (Query Pt)) :
    eqnLoop lcs ee pe qs = .ok true ↔ ∀ q ∈ qs, EqnHolds lcs ee pe q := by
  induction qs with
  | nil => simp [eqnLoop]
  | cons q rest ih =>
    rw [eqnLoop_cons, ih]
    simp

/-- it answers `false` iff the first claim that does not hold is a wrong value (not a missing item) -/
theorem eqnLoop_false_iff (lcs : List (LC.LinComb F)) (ee pe : List ((Label × Pt) × F))
    (qs : List (Query Pt)) :
    eqnLoop lcs ee pe qs = .ok false ↔
      ∃ pre q post, qs = pre ++ q :: post ∧ (∀ q' ∈ pre, EqnHolds lcs ee pe q') ∧
        EqnFails lcs ee pe q := by
  induction qs with
  | nil => simp [eqnLoop]
  | cons q rest ih =>
    rw [eqnLoop_cons, ih]
    constructor
    · rintro (⟨h1, pre, q', post, rfl, h2, h3⟩ | ⟨h1, _⟩)
      · refine ⟨q :: pre, q', post, rfl, fun x hx => ?_, h3⟩
        rcases List.mem_cons.1 hx with rfl | hx
        · exact h1
        · exact h2 x hx
      · exact ⟨[], q, rest, rfl, by simp, h1⟩
    · rintro ⟨pre, q', post, heq, h2, h3⟩
      cases pre with
      | nil =>
        simp only [List.nil_append, List.cons.injEq] at heq
        obtain ⟨rfl, rfl⟩ := heq
        exact Or.inr ⟨h3, rfl⟩
      | cons p pre =>
        simp only [List.cons_append, List.cons.injEq] at heq
        obtain ⟨rfl, rfl⟩ := heq
        exact Or.inl ⟨h2 _ List.mem_cons_self, pre, q', post, rfl,
          fun x hx => h2 x (List.mem_cons_of_mem _ hx), h3⟩

theorem eqnHolds_not_fails (lcs : List (LC.LinComb F)) (ee pe : List ((Label × Pt) × F)) (q : Query Pt)
    (h : EqnHolds lcs ee pe q) : ¬ EqnFails lcs ee pe q := by
  obtain ⟨lc, h1, _, h3⟩ := h
  rintro ⟨lc', c, h1', _, h3', hne⟩
  rw [h1] at h1'; injection h1' with h1'; subst h1'
  rw [h3] at h3'; injection h3' with h3'
  exact hne h3'.symm

/-! ### the whole method -/

section Whole
variable {C PF σ : Type}

/-- the polynomial query set `check_combinations` derives -/
def verifierPolyQuerySet (ltP : Pt → Pt → Bool) (lcs : List (LC.LinComb F)) (qs : List (Query Pt)) :
    List (Query Pt) :=
  lcToPolyQuerySet ltP (lcValues lcs) (querySet ltP qs)

/-- **default `check_combinations` accepts iff** the proof carries evaluations, every queried equation
holds over them with its claimed value, and the inner `batch_check` of the polynomial queries with those
evaluations accepts. -/
theorem checkCombinations_true_iff (ltP : Pt → Pt → Bool) (lblC : C → Label)
    (checkF : List C → Pt → List F → PF → σ → Except Err (Bool × σ))
    (lcs : List (LC.LinComb F)) (comms : List C) (qs : List (Query Pt))
    (ee : List ((Label × Pt) × F)) (πs : List PF) (evals : Option (List F)) (s s' : σ) :
    checkCombinations ltP lblC checkF lcs comms qs ee πs evals s = .ok (true, s') ↔
      ∃ evs, evals = some evs ∧
        (∀ q ∈ qs, EqnHolds lcs ee (polyEvals ltP (verifierPolyQuerySet ltP lcs qs) evs) q) ∧
        batchCheckSet lblC checkF comms (verifierPolyQuerySet ltP lcs qs)
          (polyEvals ltP (verifierPolyQuerySet ltP lcs qs) evs) πs s = .ok (true, s') := by
  unfold checkCombinations verifierPolyQuerySet
  cases evals with
  | none => simp
  | some evs =>
    simp only [Option.some.injEq, exists_eq_left']
    cases he : eqnLoop lcs ee (polyEvals ltP (lcToPolyQuerySet ltP (lcValues lcs) (querySet ltP qs)) evs)
        (querySet ltP qs) with
    | error e =>
      simp only [reduceCtorEq, false_iff, not_and]
      intro h
      have := (eqnLoop_true_iff lcs ee _ (querySet ltP qs)).2
        (fun q hq => h q ((mem_querySet ltP q qs).1 hq))
      rw [he] at this; cases this
    | ok b =>
      cases b with
      | false =>
        simp only [Except.ok.injEq, Prod.mk.injEq, Bool.false_eq_true, false_and, false_iff, not_and]
        intro h
        have := (eqnLoop_true_iff lcs ee _ (querySet ltP qs)).2
          (fun q hq => h q ((mem_querySet ltP q qs).1 hq))
        rw [he] at this; cases this
      | true =>
        simp only
        have := (eqnLoop_true_iff lcs ee _ (querySet ltP qs)).1 he
        constructor
        · intro h; exact ⟨fun q hq => this q ((mem_querySet ltP q qs).2 hq), h⟩
        · intro h; exact h.2

/-- it answers `false` iff the evaluations are there and either the equation stage finds a wrong value
(then the sponge is untouched) or all equations hold and the inner `batch_check` answers `false` -/
theorem checkCombinations_false_iff (ltP : Pt → Pt → Bool) (lblC : C → Label)
    (checkF : List C → Pt → List F → PF → σ → Except Err (Bool × σ))
    (lcs : List (LC.LinComb F)) (comms : List C) (qs : List (Query Pt))
    (ee : List ((Label × Pt) × F)) (πs : List PF) (evals : Option (List F)) (s s' : σ) :
    checkCombinations ltP lblC checkF lcs comms qs ee πs evals s = .ok (false, s') ↔
      ∃ evs, evals = some evs ∧
        ((eqnLoop lcs ee (polyEvals ltP (verifierPolyQuerySet ltP lcs qs) evs) (querySet ltP qs)
            = .ok false ∧ s' = s) ∨
         (eqnLoop lcs ee (polyEvals ltP (verifierPolyQuerySet ltP lcs qs) evs) (querySet ltP qs)
            = .ok true ∧
          batchCheckSet lblC checkF comms (verifierPolyQuerySet ltP lcs qs)
            (polyEvals ltP (verifierPolyQuerySet ltP lcs qs) evs) πs s = .ok (false, s'))) := by
  unfold checkCombinations verifierPolyQuerySet
  cases evals with
  | none => simp
  | some evs =>
    simp only [Option.some.injEq, exists_eq_left']
    cases he : eqnLoop lcs ee (polyEvals ltP (lcToPolyQuerySet ltP (lcValues lcs) (querySet ltP qs)) evs)
        (querySet ltP qs) with
    | error e => simp
    | ok b =>
      cases b with
      | false => simp [eq_comm]
      | true => simp

end Whole

/-! ### changed coefficients and constants -/

omit [DecidableEq F] in
/-- replacing the coefficient of one term moves the value by `(c' − c)·(value of that term)` -/
theorem termsValue_replace (σ : Label → F) (pre post : List (F × LC.LCTerm)) (c c' : F)
    (t : LC.LCTerm) :
    LC.termsValue σ (pre ++ (c', t) :: post) =
      LC.termsValue σ (pre ++ (c, t) :: post) + (c' - c) * LC.termVal σ t := by
  rw [LC.termsValue_append, LC.termsValue_append]
  simp only [LC.termsValue]
  ring


/-! ### `lc_s.values()`: the verifier reads the equations through a label-keyed map -/

section Values
omit [DecidableEq F]

theorem mem_fromList {K V : Type} [DecidableEq K] (lt : K → K → Bool) (l acc : List (K × V)) (x : K × V)
    (h : x ∈ QS.fromList lt l acc) : x ∈ l ∨ x ∈ acc := by
  induction l generalizing acc with
  | nil => exact Or.inr h
  | cons kv rest ih =>
    simp only [QS.fromList] at h
    rcases ih _ h with h' | h'
    · exact Or.inl (List.mem_cons_of_mem _ h')
    · rcases QS.mem_insert lt kv.1 kv.2 acc x h' with h'' | h''
      · exact Or.inl (by rw [h'']; exact List.mem_cons_self)
      · exact Or.inr h''

theorem lastWith_eq_lookupLast (lcs : List (LC.LinComb F)) (l : Label) :
    QS.lastWith l (lcs.map fun lc => (lc.label, lc)) = lcGet lcs l := by
  unfold lcGet
  induction lcs with
  | nil => rfl
  | cons lc rest ih =>
    simp only [List.map_cons, QS.lastWith, lookupLast_cons, ih]
    cases Marlin.lookupLast (fun (lc : LC.LinComb F) => lc.label) l rest with
    | some y => rfl
    | none =>
      by_cases h : l = lc.label
      · simp [h]
      · have : ¬ lc.label = l := fun h' => h h'.symm
        simp [h, this]

theorem lookupLast_map_snd (m : List (Label × LC.LinComb F)) (l : Label)
    (hk : ∀ kv ∈ m, kv.1 = kv.2.label) (hnd : (m.map Prod.fst).Nodup) :
    Marlin.lookupLast (fun (lc : LC.LinComb F) => lc.label) l (m.map (·.2)) = QS.lookup l m := by
  induction m with
  | nil => rfl
  | cons kv rest ih =>
    rw [List.map_cons, List.nodup_cons] at hnd
    have hk' : ∀ kv ∈ rest, kv.1 = kv.2.label := fun x hx => hk x (List.mem_cons_of_mem _ hx)
    simp only [List.map_cons, lookupLast_cons, QS.lookup, ih hk' hnd.2]
    by_cases h : l = kv.1
    · have hnone : QS.lookup l rest = none := by
        cases hl : QS.lookup l rest with
        | none => rfl
        | some v =>
          exfalso
          have : l ∈ QS.keys rest := (QS.mem_keys_iff_lookup l rest).2 (by rw [hl]; rfl)
          exact hnd.1 (by rw [← h]; exact this)
      rw [hnone, if_pos h]
      have : kv.2.label = l := by rw [h]; exact (hk kv List.mem_cons_self).symm
      simp [this]
    · rw [if_neg h]
      cases QS.lookup l rest with
      | some v => rfl
      | none =>
        have : ¬ kv.2.label = l := fun h' => h (by rw [← h']; exact (hk kv List.mem_cons_self).symm ▸ rfl)
        simp [this]

/-- reading the equations through `lc_s.values()` re-collected into a map is reading the caller's list
with later duplicates winning -/
theorem lcGet_lcValues (lcs : List (LC.LinComb F)) (l : Label) :
    lcGet (lcValues lcs) l = lcGet lcs l := by
  unfold lcValues
  rw [← lastWith_eq_lookupLast lcs l, ← QS.lookup_fromList_nil QS.ltLabel l]
  unfold lcGet
  apply lookupLast_map_snd
  · intro kv hkv
    rcases mem_fromList QS.ltLabel _ [] kv hkv with h | h
    · obtain ⟨lc, _, rfl⟩ := List.mem_map.1 h; rfl
    · cases h
  · have hs := QS.sorted_fromList QS.ltLabel QS.strictTotal_ltLabel
      (lcs.map fun lc => (lc.label, lc)) [] List.Pairwise.nil
    unfold QS.Sorted at hs
    rw [List.nodup_iff_pairwise_ne, List.pairwise_map]
    exact hs.imp fun {a b} hab heq => by rw [heq, ltLabel_irrefl] at hab; cases hab

end Values

section PolyQuerySet
omit [DecidableEq F]

/-- the polynomial query set depends on the equation list only through the label look-up -/
theorem lcToPolyQuerySet_congr (ltP : Pt → Pt → Bool) (lcs lcs' : List (LC.LinComb F))
    (h : ∀ l, (lcGet lcs l).map lcPolyLabels = (lcGet lcs' l).map lcPolyLabels)
    (qset : List (Query Pt)) :
    lcToPolyQuerySet ltP lcs qset = lcToPolyQuerySet ltP lcs' qset := by
  unfold lcToPolyQuerySet
  have : lcQueryStep ltP lcs = lcQueryStep ltP lcs' := by
    funext acc q
    unfold lcQueryStep
    have hq := h q.1
    cases h1 : lcGet lcs q.1 with
    | none =>
      rw [h1] at hq
      cases h2 : lcGet lcs' q.1 with
      | none => rfl
      | some lc' => rw [h2] at hq; cases hq
    | some lc =>
      rw [h1] at hq
      cases h2 : lcGet lcs' q.1 with
      | none => rw [h2] at hq; cases hq
      | some lc' =>
        rw [h2] at hq
        simp only [Option.map_some, Option.some.injEq] at hq
        simp only [hq]
  rw [this]

/-- **prover and verifier derive the same polynomial query set** from the same equation list -/
theorem verifierPolyQuerySet_eq (ltP : Pt → Pt → Bool) (lcs : List (LC.LinComb F))
    (qs : List (Query Pt)) :
    verifierPolyQuerySet ltP lcs qs = lcToPolyQuerySet ltP lcs (querySet ltP qs) := by
  unfold verifierPolyQuerySet
  exact lcToPolyQuerySet_congr ltP _ _ (fun l => by rw [lcGet_lcValues]) _

end PolyQuerySet

end TraitDefault
end PCV
