/-
  PCV.Proofs.SonicHistory — SonicKZG10 on ONE sponge: histories of `open`, `batch_open` and
  `open_combinations` and the corresponding checks leave the same unused challenges (lock-step), and
  the exact acceptance condition of an honest proof verified under other challenges.
-/
import PCV.Proofs.SonicLC

set_option linter.unusedSectionVars false
set_option linter.unusedVariables false
set_option linter.unusedSimpArgs false

namespace PCV
namespace Sonic
open Marlin (Label LPoly Query sortDedup checkDegreesAndBounds groupQueries lookupLast lookupEval)

variable {F : Type} [Field F] [DecidableEq F]

/-! ### the squeeze schedule: `1 + n` challenges per `open` / `check` -/

theorem openLoop_rest (ck : CK F) (ps : List (LPoly F)) (sts : List (List F)) (ξs : List F)
    (acc res : List F × List F) (rest : List F)
    (h : openLoop ck ps sts ξs acc = .ok (res, rest)) :
    rest = ξs.drop (min ps.length sts.length + 1) := by
  induction ps generalizing sts ξs acc with
  | nil =>
    cases ξs with
    | nil => cases sts <;> simp [openLoop] at h
    | cons ξ ξs =>
      cases sts <;>
      · simp only [openLoop] at h
        injection h with h; injection h with _ h2
        simp [← h2]
  | cons p ps ih =>
    cases sts with
    | nil =>
      cases ξs with
      | nil => simp [openLoop] at h
      | cons ξ ξs =>
        simp only [openLoop] at h
        injection h with h; injection h with _ h2
        simp [← h2]
    | cons st sts =>
      cases ξs with
      | nil => simp [openLoop] at h
      | cons ξ ξs =>
        simp only [openLoop] at h
        split at h
        · cases h
        · have := ih sts ξs _ h
          rw [this]
          simp only [List.length_cons, Nat.add_min_add_right, List.drop_succ_cons]

/-- **The prover squeezes exactly `1 + n` challenges** (`n` = polynomials zipped with states): one
before the loop, one more after every polynomial -/
theorem open_rest (ck : CK F) (ps : List (LPoly F)) (z : F) (sts : List (List F)) (ξs : List F)
    (π : KZG.Proof F) (rest : List F) (h : Sonic.open ck ps z sts ξs = .ok (π, rest)) :
    rest = ξs.drop (min ps.length sts.length + 1) := by
  unfold Sonic.open at h
  split at h
  · cases h
  · rename_i P R rest' hloop
    split at h
    · cases h
    · injection h with h; injection h with _ h2
      rw [← h2]
      exact openLoop_rest ck ps sts ξs _ _ _ hloop

theorem restOf_drop (cs : List (LComm F)) (vs ξs rest : List F) (h : restOf cs vs ξs = some rest) :
    rest = ξs.drop (min cs.length vs.length + 1) := by
  induction cs generalizing vs ξs with
  | nil =>
    cases ξs with
    | nil => simp [restOf] at h
    | cons ξ ξs => simp only [restOf, Option.some.injEq] at h; simp [← h]
  | cons c cs ih =>
    cases vs with
    | nil =>
      cases ξs with
      | nil => simp [restOf] at h
      | cons ξ ξs => simp only [restOf, Option.some.injEq] at h; simp [← h]
    | cons v vs =>
      cases ξs with
      | nil => simp [restOf] at h
      | cons ξ ξs =>
        simp only [restOf] at h
        rw [ih vs ξs h]
        simp only [List.length_cons, Nat.add_min_add_right, List.drop_succ_cons]

/-- **The verifier squeezes exactly `1 + n` challenges** (`n` = commitments zipped with values),
whatever it decides -/
theorem check_rest (vk : VK F) (cs : List (LComm F)) (z : F) (vs : List F) (π : KZG.Proof F)
    (ξs : List F) (b : Bool) (rest : List F) (h : check vk cs z vs π ξs = .ok (b, rest)) :
    rest = ξs.drop (min cs.length vs.length + 1) := by
  rw [check_eq] at h
  cases hr : restOf cs vs ξs with
  | none => rw [hr] at h; cases h
  | some r =>
    rw [hr] at h
    simp only at h
    split at h
    · injection h with h; injection h with _ h2
      rw [← h2]; exact restOf_drop cs vs ξs r hr
    · cases h

/-! ### batched completeness with the unused challenges -/

/-- `batch_open` (trait default) → `batch_check` (Sonic): accepted for every randomizer list, and the
verifier's sponge ends where the prover's does -/
theorem batch_completeT (g γ β bi h : F) (hb : β * bi = 1) (D s shb : Nat) (bounds : Option (List Nat))
    (ck : CK F) (vk : VK F) (ht : trim (wfPP g γ β bi h D) s shb bounds = .ok (ck, vk))
    (ps : List (LPoly F)) (rng : Bool) (draws : List F) (cs : List (LComm F)) (rs : List (List F))
    (drest : List F) (hc : commit ck ps rng draws = .ok (cs, rs, drest))
    (qs : List (Query F)) (evals : List ((Label × F) × F))
    (hev : ∀ gr ∈ groupQueries qs, ∀ l ∈ gr.2.2, ∀ x,
      lookupLast (fun (x : LPoly F × List F) => x.1.label) l (ps.zip rs) = some x →
      lookupEval evals l gr.2.1 = some (evalPoly x.1.poly gr.2.1))
    (ξs : List F) (πs : List (KZG.Proof F)) (rest : List F)
    (ho : batchOpen ck ps rs qs ξs = .ok (πs, rest)) (vrs : List F) :
    batchCheckT vk cs qs evals πs ξs vrs = .ok (true, rest) := by
  have hh := commit_honest g γ β bi h hb D s shb bounds ck vk ht ps rng draws cs rs drest hc
  have hl := commit_labels ck ps rng draws cs rs drest hc
  obtain ⟨its, hits, hacc, hlen⟩ := batchOpen_allAcceptTo ck vk g γ β h s shb bi hb D bounds ht cs ps rs
    hh hl evals (groupQueries qs) hev ξs πs rest ho
  exact batchCheckT_of_allAcceptTo vk cs qs evals πs ξs vrs rest hlen its hits hacc

/-! ### an honest proof under other challenges -/

/-- `Σⱼ ξⱼ·(g·(pⱼ(β) − pⱼ(z)) + γ·rⱼ(β))`: what the verifier's equation retains of the challenges -/
def dispT (g γ β z : F) : List (LPoly F) → List (List F) → List F → F
  | p :: ps, r :: rs, ξ :: ξs =>
    ξ * (g * (evalPoly p.poly β - evalPoly p.poly z) + γ * evalPoly r β) + dispT g γ β z ps rs ξs
  | _, _, _ => 0

theorem honest_disp (ck : CK F) (vk : VK F) (g γ β h : F) (s shb : Nat) (z : F)
    (cs : List (LComm F)) (ps : List (LPoly F)) (rs : List (List F))
    (hh : Honest ck vk g γ β h s shb cs ps rs) (ξs : List F) :
    linC vk.shiftD cs (ps.map fun p => evalPoly p.poly z) ξs
        - g * linV cs (ps.map fun p => evalPoly p.poly z) ξs * h
      = h * dispT g γ β z ps rs ξs ∧
    boundsOk vk.shiftOf cs (ps.map fun p => evalPoly p.poly z) ξs = true := by
  induction ps generalizing cs rs ξs with
  | nil =>
    cases cs with
    | nil => cases rs <;> simp [linC, linV, dispT, boundsOk]
    | cons _ _ => cases rs <;> exact absurd hh (by simp [Honest])
  | cons p ps ih =>
    cases cs with
    | nil => cases rs <;> exact absurd hh (by simp [Honest])
    | cons c cs =>
      cases rs with
      | nil => exact absurd hh (by simp [Honest])
      | cons r rs =>
        obtain ⟨⟨_, ⟨σ, hσ, hcσ⟩, _, _, _⟩, hrest⟩ := hh
        cases ξs with
        | nil => simp [linC, linV, dispT, boundsOk]
        | cons ξ ξs =>
          obtain ⟨h1, h2⟩ := ih cs rs hrest ξs
          have hsD : vk.shiftD c.bound = σ := by simp [VK.shiftD, hσ]
          refine ⟨?_, ?_⟩
          · simp only [List.map_cons, linC, linV, dispT, hsD]
            linear_combination h1 + ξ * hcσ
          · simp only [List.map_cons, boundsOk, hσ, Option.isSome_some, Bool.true_and]; exact h2

/-- **A proof is bound to the challenges it was made under.**  The honest proof for `(ps, z)` made
under the challenges `ξs`, verified (same commitments, same true values) under `ξs'`, is accepted
iff `h·(T(ξs') − T(ξs)) = 0` with `T(ξ) = Σⱼ ξⱼ·(g·(pⱼ(β) − pⱼ(z)) + γ·rⱼ(β))`. -/
theorem displaced_iff (g γ β bi h : F) (hb : β * bi = 1) (D s shb : Nat) (bounds : Option (List Nat))
    (ck : CK F) (vk : VK F) (ht : trim (wfPP g γ β bi h D) s shb bounds = .ok (ck, vk))
    (cs : List (LComm F)) (ps : List (LPoly F)) (rs : List (List F))
    (hh : Honest ck vk g γ β h s shb cs ps rs) (z : F) (ξs : List F) (π : KZG.Proof F)
    (rest : List F) (ho : Sonic.open ck ps z rs ξs = .ok (π, rest))
    (ξs' rest' : List F) (hr : restOf cs (ps.map fun p => evalPoly p.poly z) ξs' = some rest') :
    check vk cs z (ps.map fun p => evalPoly p.poly z) π ξs' = .ok (true, rest') ↔
      h * (dispT g γ β z ps rs ξs' - dispT g γ β z ps rs ξs) = 0 := by
  obtain ⟨_, _, _, _, _, _, hg, hgg, hvh, hbh, _, _⟩ := trim_wf_basic g γ β bi h D s shb bounds ck vk ht
  have hcomp := open_check_complete g γ β bi h hb D s shb bounds ck vk ht cs ps rs hh z ξs π rest ho
  rw [check_true_iff] at hcomp
  obtain ⟨_, _, h3⟩ := hcomp
  obtain ⟨d1, _⟩ := honest_disp ck vk g γ β h s shb z cs ps rs hh ξs
  obtain ⟨d2, b2⟩ := honest_disp ck vk g γ β h s shb z cs ps rs hh ξs'
  rw [check_true_iff]
  unfold defect at h3 ⊢
  rw [hg, hvh] at h3 ⊢
  constructor
  · intro ⟨_, _, h'⟩
    linear_combination h' - h3 - d2 + d1
  · intro h'
    refine ⟨hr, b2, ?_⟩
    linear_combination h' + h3 + d2 - d1

/-- one polynomial, no hiding: accepted under `ξ'` instead of `ξ` iff
`h·g·(ξ' − ξ)·(p(β) − p(z)) = 0` — for a non-constant `p` only when the trapdoor is one of the
`≤ deg p` roots of `p(X) − p(z)`, or the two challenges coincide -/
theorem displaced_single_rejected (g γ β bi h : F) (hb : β * bi = 1) (D s shb : Nat)
    (bounds : Option (List Nat)) (ck : CK F) (vk : VK F)
    (ht : trim (wfPP g γ β bi h D) s shb bounds = .ok (ck, vk))
    (c : LComm F) (p : LPoly F) (hh : Honest ck vk g γ β h s shb [c] [p] [[]])
    (z ξ ξ' : F) (ξs ξs' : List F) (π : KZG.Proof F) (rest : List F)
    (ho : Sonic.open ck [p] z [[]] (ξ :: ξs) = .ok (π, rest))
    (hg : g ≠ 0) (hh0 : h ≠ 0) (hξ : ξ' ≠ ξ) (hp : evalPoly p.poly β ≠ evalPoly p.poly z)
    (ξ2 : F) (rest' : List F) :
    check vk [c] z [evalPoly p.poly z] π (ξ' :: ξ2 :: ξs') ≠ .ok (true, rest') := by
  intro hacc
  have hr : restOf [c] ([p].map fun p => evalPoly p.poly z) (ξ' :: ξ2 :: ξs') = some ξs' := by
    simp [restOf]
  have hrest : rest' = ξs' := by
    have := (check_true_iff _ _ _ _ _ _ _).1 hacc
    have e : restOf [c] [evalPoly p.poly z] (ξ' :: ξ2 :: ξs') = some ξs' := by simp [restOf]
    rw [e] at this
    exact (Option.some.inj this.1).symm
  subst hrest
  have := (displaced_iff g γ β bi h hb D s shb bounds ck vk ht [c] [p] [[]] hh z (ξ :: ξs) π rest ho
    (ξ' :: ξ2 :: rest') rest' hr).1 (by simpa using hacc)
  simp only [dispT, evalPoly_nil, mul_zero, add_zero] at this
  have h2 : h * (g * (ξ' - ξ) * (evalPoly p.poly β - evalPoly p.poly z)) = 0 := by
    linear_combination this
  simp only [mul_eq_zero, sub_eq_zero] at h2
  rcases h2 with h1 | (h1 | h1) | h1
  · exact hh0 h1
  · exact hg h1
  · exact hξ h1
  · exact hp h1

/-! ### histories -/

/-- one operation of a history on the committed lists -/
inductive Op (F : Type)
  /-- `open` of some of the committed polynomials (with their states and commitments) at `z` -/
  | single (l : List (Trip F)) (z : F)
  /-- `batch_open` / `batch_check` of a query set with claimed evaluations -/
  | batch (qs : List (Query F)) (evals : List ((Label × F) × F))
  /-- `open_combinations` / `check_combinations` -/
  | comb (lcs : List (LC.LinComb F)) (qs : List (Query F)) (evals : List ((Label × F) × F))

/-- the prover performs the operations in order on one challenge stream; one proof list per operation -/
def proverRun (ck : CK F) (ps : List (LPoly F)) (rs : List (List F)) (cs : List (LComm F)) :
    List (Op F) → List F → Except Err (List (List (KZG.Proof F)) × List F)
  | [], ξs => .ok ([], ξs)
  | op :: ops, ξs =>
    match (match op with
      | .single l z =>
        (match Sonic.open ck (l.map (·.1)) z (l.map (·.2.1)) ξs with
         | .error e => .error e
         | .ok (π, r) => .ok ([π], r))
      | .batch qs _ => batchOpen ck ps rs qs ξs
      | .comb lcs qs _ => openCombinations ck ps rs cs lcs qs ξs :
        Except Err (List (KZG.Proof F) × List F)) with
    | .error e => .error e
    | .ok (πs, ξs') =>
      match proverRun ck ps rs cs ops ξs' with
      | .error e => .error e
      | .ok (πss, rest) => .ok (πs :: πss, rest)

/-- the check belonging to one operation (true values for `single`), with the unused challenges -/
def verifyOp (vk : VK F) (cs : List (LComm F)) (op : Op F) (πs : List (KZG.Proof F)) (vrs ξs : List F) :
    Except Err (Bool × List F) :=
  match op with
  | .single l z =>
    match πs with
    | [π] => check vk (l.map (·.2.2)) z (l.map fun t => evalPoly t.1.poly z) π ξs
    | _ => .error .abort
  | .batch qs evals => batchCheckT vk cs qs evals πs ξs vrs
  | .comb lcs qs evals => checkCombinationsT vk cs lcs qs evals πs ξs vrs

/-- the verifier performs the corresponding checks in the same order on an identical stream
(`vrss`: its randomizers, per operation); the conjunction of the decisions and the remaining stream -/
def verifierRun (vk : VK F) (cs : List (LComm F)) :
    List (Op F) → List (List (KZG.Proof F)) → List (List F) → List F → Except Err (Bool × List F)
  | [], _, _, ξs => .ok (true, ξs)
  | _ :: _, [], _, _ => .error .abort
  | op :: ops, πs :: πss, vrss, ξs =>
    match verifyOp vk cs op πs (vrss.headD []) ξs with
    | .error e => .error e
    | .ok (b, ξs') =>
      match verifierRun vk cs ops πss vrss.tail ξs' with
      | .error e => .error e
      | .ok (b', rest) => .ok (b && b', rest)

/-- the claims of an operation are true -/
def Truthful (ck : CK F) (vk : VK F) (g γ β h : F) (s shb : Nat)
    (ps : List (LPoly F)) (rs : List (List F)) (cs : List (LComm F)) : Op F → Prop
  | .single l _ => Honest ck vk g γ β h s shb (l.map (·.2.2)) (l.map (·.1)) (l.map (·.2.1))
  | .batch qs evals => ∀ gr ∈ groupQueries qs, ∀ l ∈ gr.2.2, ∀ x,
      lookupLast (fun (x : LPoly F × List F) => x.1.label) l (ps.zip rs) = some x →
      lookupEval evals l gr.2.1 = some (evalPoly x.1.poly gr.2.1)
  | .comb lcs qs evals => ∀ gr ∈ groupQueries qs, ∀ l ∈ gr.2.2, ∀ lc,
      lookupLast (fun (lc : LC.LinComb F) => lc.label) l lcs = some lc →
      lookupEval evals l gr.2.1
        = some (lcPolyValue (labelMap ps rs cs) gr.2.1 lc.terms + constSum lcs l)

/-- **Lock-step over any history.**  Keys from a trapdoor, commitments from `commit`; any sequence of
`open` / `batch_open` / `open_combinations` operations with true claims on one challenge stream: if the
prover answers them all, the verifier — running the corresponding checks in the same order on an
identically initialised stream, with ANY randomizers — accepts every proof and ends with exactly the
prover's remaining stream. -/
theorem history_lockstep (g γ β bi h : F) (hb : β * bi = 1) (D s shb : Nat) (bounds : Option (List Nat))
    (ck : CK F) (vk : VK F) (ht : trim (wfPP g γ β bi h D) s shb bounds = .ok (ck, vk))
    (ps : List (LPoly F)) (rng : Bool) (draws : List F) (cs : List (LComm F)) (rs : List (List F))
    (drest : List F) (hc : commit ck ps rng draws = .ok (cs, rs, drest))
    (ops : List (Op F)) (htrue : ∀ op ∈ ops, Truthful ck vk g γ β h s shb ps rs cs op)
    (ξs : List F) (πss : List (List (KZG.Proof F))) (rest : List F)
    (hp : proverRun ck ps rs cs ops ξs = .ok (πss, rest)) (vrss : List (List F)) :
    verifierRun vk cs ops πss vrss ξs = .ok (true, rest) := by
  induction ops generalizing ξs πss rest vrss with
  | nil =>
    simp only [proverRun] at hp
    injection hp with hp; injection hp with h1 h2
    subst h1; subst h2; rfl
  | cons op ops ih =>
    simp only [proverRun] at hp
    split at hp
    · cases hp
    · rename_i πs ξs' hop
      split at hp
      · cases hp
      · rename_i πss' rest' hrec
        injection hp with hp; injection hp with h1 h2
        subst h1; subst h2
        have hrest := ih (fun op' hop' => htrue op' (List.mem_cons_of_mem _ hop')) ξs' πss' rest' hrec
          vrss.tail
        have hop1 : verifyOp vk cs op πs (vrss.headD []) ξs = .ok (true, ξs') := by
          have ht1 := htrue op (by simp)
          cases op with
          | single l z =>
            simp only at hop
            split at hop
            · cases hop
            · rename_i π r hopen
              injection hop with hop; injection hop with e1 e2
              subst e1; subst e2
              simp only [verifyOp]
              have := open_check_complete g γ β bi h hb D s shb bounds ck vk ht _ _ _ ht1 z ξs π r hopen
              rw [List.map_map] at this
              exact this
          | batch qs evals =>
            simp only at hop
            simp only [verifyOp]
            exact batch_completeT g γ β bi h hb D s shb bounds ck vk ht ps rng draws cs rs drest hc qs evals
              ht1 ξs πs ξs' hop _
          | comb lcs qs evals =>
            simp only at hop
            simp only [verifyOp]
            exact lc_complete g γ β bi h hb D s shb bounds ck vk ht ps rng draws cs rs drest hc lcs qs evals
              ht1 ξs πs ξs' hop _
        simp only [verifierRun, hop1, hrest, Bool.and_self]

end Sonic
end PCV
