/-
  PCV.Proofs.Codec — lemma library for C12: `Codec.Good` and its preservation by the combinators of
  `PCV.Model.Codec`; the struct-level theorem for hand-written serializers (`good_of_schemaOK`).
  No Mathlib needed (lists, `omega`, `simp`).
-/
import PCV.Model.Codec

namespace PCV
namespace Codec

/-- The three facts C12 needs of a codec, on the values satisfying `D` (e.g. lengths `< 2^64`,
prepared fields consistent with their sources):
* `rt`  — decoding an encoding followed by anything returns the value and exactly the rest;
* `len` — the reported size is the number of bytes written;
* `pf`  — a proper prefix `l` of an encoding (`l ++ t = enc a`, `t ≠ []`) is refused. -/
structure Good {α : Type} (c : Codec α) (D : α → Prop) : Prop where
  rt : ∀ a, D a → ∀ rest, c.dec (c.enc a ++ rest) = some (a, rest)
  len : ∀ a, D a → (c.enc a).length = c.size a
  pf : ∀ a, D a → ∀ l t, t ≠ [] → l ++ t = c.enc a → c.dec l = none

/-- `pf` in the `<+:` form of the property text -/
theorem Good.prefix_fails {α : Type} {c : Codec α} {D : α → Prop} (h : Good c D) (a : α) (ha : D a)
    (l : List Nat) (hl : l <+: c.enc a) (hne : l ≠ c.enc a) : c.dec l = none := by
  obtain ⟨t, ht⟩ := hl
  refine h.pf a ha l t ?_ ht
  intro h0
  subst h0
  simp at ht
  exact hne ht

/-- `rt` with nothing after the encoding -/
theorem Good.rt_nil {α : Type} {c : Codec α} {D : α → Prop} (h : Good c D) (a : α) (ha : D a) :
    c.dec (c.enc a) = some (a, []) := by
  have := h.rt a ha []
  simpa using this

/-- a decoded-and-re-encoded byte string is the original one: `ser(deser(ser x)) = ser x` -/
theorem Good.reser {α : Type} {c : Codec α} {D : α → Prop} (h : Good c D) (a : α) (ha : D a)
    (y : α) (r : List Nat) (hy : c.dec (c.enc a) = some (y, r)) : c.enc y = c.enc a := by
  rw [h.rt_nil a ha] at hy
  cases hy
  rfl

/-- Splitting `l ++ t = e ++ E`: either `l` stops strictly inside `e`, or `l` contains `e`. -/
theorem split_cases {l t e E : List Nat} (h : l ++ t = e ++ E) :
    (∃ as, as ≠ [] ∧ l ++ as = e) ∨ (∃ bs, l = e ++ bs ∧ bs ++ t = E) := by
  rcases List.append_eq_append_iff.mp h with ⟨as, h1, h2⟩ | ⟨bs, h1, h2⟩
  · by_cases ha : as = []
    · subst ha
      right
      exact ⟨[], by simpa using h1.symm, by simpa using h2⟩
    · left
      exact ⟨as, ha, h1.symm⟩
  · right
    exact ⟨bs, h1, h2.symm⟩

/-! ### `usize` -/

theorem leBytes_length (k n : Nat) : (leBytes k n).length = k := by
  induction k generalizing n with
  | zero => rfl
  | succ k ih => simp [leBytes, ih]

theorem leVal_leBytes (k n : Nat) : leVal (leBytes k n) = n % 256 ^ k := by
  induction k generalizing n with
  | zero => simp [leBytes, leVal, Nat.mod_one]
  | succ k ih =>
    simp only [leBytes, leVal, ih]
    rw [Nat.pow_succ, Nat.mul_comm (256 ^ k) 256, Nat.mod_mul]

/-- `usize` is good on the values that fit a `u64` -/
theorem usize_good : Good usize (fun n => n < 2 ^ 64) where
  rt n hn rest := by
    have hl : (leBytes 8 n).length = 8 := leBytes_length 8 n
    have h1 : ¬ ((leBytes 8 n ++ rest).length < 8) := by
      rw [List.length_append, hl]; omega
    have h2 : (leBytes 8 n ++ rest).take 8 = leBytes 8 n := by
      rw [List.take_append_of_le_length (by omega)]
      exact List.take_of_length_le (by omega)
    have h3 : (leBytes 8 n ++ rest).drop 8 = rest := by
      rw [List.drop_append_of_le_length (by omega), List.drop_of_length_le (by omega)]
      rfl
    have h4 : leVal (leBytes 8 n) = n := by
      rw [leVal_leBytes]
      exact Nat.mod_eq_of_lt hn
    simp only [usize, h1, h2, h3, h4, if_false]
  len n _ := leBytes_length 8 n
  pf n _ l t ht h := by
    have hl : (leBytes 8 n).length = 8 := leBytes_length 8 n
    have : l.length + t.length = 8 := by
      rw [← List.length_append, h]; exact hl
    have ht' : 0 < t.length := List.length_pos_iff.mpr ht
    have : l.length < 8 := by omega
    simp [usize, this]

/-! ### `seq` / `pair` -/

theorem seq_good {α β : Type} {a : Codec α} {b : Codec β} {Da : α → Prop} {Db : β → Prop}
    (ha : Good a Da) (hb : Good b Db) : Good (seq a b) (fun x => Da x.1 ∧ Db x.2) where
  rt x hx rest := by
    simp only [seq, List.append_assoc]
    rw [ha.rt x.1 hx.1]
    simp only
    rw [hb.rt x.2 hx.2]
  len x hx := by
    simp only [seq, List.length_append, ha.len x.1 hx.1, hb.len x.2 hx.2]
  pf x hx l t ht h := by
    simp only [seq] at h ⊢
    rcases split_cases h with ⟨as, has, h1⟩ | ⟨bs, h1, h2⟩
    · rw [ha.pf x.1 hx.1 l as has h1]
    · subst h1
      rw [ha.rt x.1 hx.1]
      simp only
      rw [hb.pf x.2 hx.2 bs t ht h2]

theorem pair_good {α β : Type} {a : Codec α} {b : Codec β} {Da : α → Prop} {Db : β → Prop}
    (ha : Good a Da) (hb : Good b Db) : Good (pair a b) (fun x => Da x.1 ∧ Db x.2) :=
  seq_good ha hb

/-! ### `vec` -/

theorem decN_encAll {α : Type} {c : Codec α} {D : α → Prop} (h : Good c D) (xs : List α)
    (hx : ∀ x ∈ xs, D x) (rest : List Nat) :
    decN c xs.length (encAll c xs ++ rest) = some (xs, rest) := by
  induction xs with
  | nil => rfl
  | cons x xs ih =>
    simp only [encAll, List.length_cons, decN, List.append_assoc]
    rw [h.rt x (hx x (List.mem_cons_self ..))]
    simp only
    rw [ih (fun y hy => hx y (List.mem_cons_of_mem _ hy))]

theorem encAll_length {α : Type} {c : Codec α} {D : α → Prop} (h : Good c D) (xs : List α)
    (hx : ∀ x ∈ xs, D x) : (encAll c xs).length = sizeAll c xs := by
  induction xs with
  | nil => rfl
  | cons x xs ih =>
    simp only [encAll, sizeAll, List.length_append]
    rw [h.len x (hx x (List.mem_cons_self ..)), ih (fun y hy => hx y (List.mem_cons_of_mem _ hy))]

theorem decN_prefix {α : Type} {c : Codec α} {D : α → Prop} (h : Good c D) (xs : List α)
    (hx : ∀ x ∈ xs, D x) (l t : List Nat) (ht : t ≠ []) (hl : l ++ t = encAll c xs) :
    decN c xs.length l = none := by
  induction xs generalizing l with
  | nil =>
    simp only [encAll, List.append_eq_nil_iff] at hl
    exact absurd hl.2 ht
  | cons x xs ih =>
    simp only [encAll] at hl
    simp only [List.length_cons, decN]
    have hxD := hx x (List.mem_cons_self ..)
    rcases split_cases hl with ⟨as, has, h1⟩ | ⟨bs, h1, h2⟩
    · rw [h.pf x hxD l as has h1]
    · subst h1
      rw [h.rt x hxD]
      simp only
      rw [ih (fun y hy => hx y (List.mem_cons_of_mem _ hy)) bs h2]

/-- `Vec<T>` is good on the lists of fewer than `2^64` good elements -/
theorem vec_good {α : Type} {c : Codec α} {D : α → Prop} (h : Good c D) :
    Good (vec c) (fun xs => xs.length < 2 ^ 64 ∧ ∀ x ∈ xs, D x) where
  rt xs hx rest := by
    simp only [vec, List.append_assoc]
    have := usize_good.rt xs.length hx.1 (encAll c xs ++ rest)
    simp only [usize] at this ⊢
    rw [this]
    simp only
    exact decN_encAll h xs hx.2 rest
  len xs hx := by
    simp only [vec, List.length_append, leBytes_length, encAll_length h xs hx.2]
  pf xs hx l t ht hl := by
    simp only [vec] at hl ⊢
    rcases split_cases hl with ⟨as, has, h1⟩ | ⟨bs, h1, h2⟩
    · have := usize_good.pf xs.length hx.1 l as has h1
      simp only [usize] at this ⊢
      rw [this]
    · subst h1
      have := usize_good.rt xs.length hx.1 bs
      simp only [usize] at this ⊢
      rw [this]
      simp only
      exact decN_prefix h xs hx.2 bs t ht h2

/-- `BTreeMap<K,V>` (as the list of its entries) -/
theorem btreeMap_good {κ ν : Type} {k : Codec κ} {v : Codec ν} {Dk : κ → Prop} {Dv : ν → Prop}
    (hk : Good k Dk) (hv : Good v Dv) :
    Good (btreeMap k v) (fun m => m.length < 2 ^ 64 ∧ ∀ e ∈ m, Dk e.1 ∧ Dv e.2) :=
  vec_good (pair_good hk hv)

/-! ### `option` -/

theorem option_good {α : Type} {c : Codec α} {D : α → Prop} (h : Good c D) :
    Good (option c) (fun o => ∀ x, o = some x → D x) where
  rt o ho rest := by
    cases o with
    | none => simp [option, optEnc, optDec]
    | some x =>
      simp only [option, optEnc, optDec, List.cons_append]
      rw [h.rt x (ho x rfl)]
      simp
  len o ho := by
    cases o with
    | none => rfl
    | some x =>
      simp only [option, optEnc, optSize, List.length_cons, h.len x (ho x rfl)]
      omega
  pf o ho l t ht hl := by
    cases o with
    | none =>
      simp only [option, optEnc] at hl
      cases l with
      | nil => rfl
      | cons b l' =>
        simp only [List.cons_append, List.cons.injEq, List.append_eq_nil_iff] at hl
        exact absurd hl.2.2 ht
    | some x =>
      simp only [option, optEnc] at hl
      cases l with
      | nil => rfl
      | cons b l' =>
        simp only [List.cons_append, List.cons.injEq] at hl
        obtain ⟨hb, hl'⟩ := hl
        subst hb
        simp only [option, optDec]
        rw [h.pf x (ho x rfl) l' t ht hl']
        simp

/-! ### `map`, `guard` -/

/-- a struct serialized through the tuple of its fields (`f ∘ g = id` on the domain) -/
theorem map_good {α β : Type} {c : Codec α} {D : α → Prop} (h : Good c D) (f : α → β) (g : β → α) :
    Good (map c f g) (fun b => D (g b) ∧ f (g b) = b) where
  rt b hb rest := by
    simp only [map]
    rw [h.rt (g b) hb.1]
    simp only [hb.2]
  len b hb := h.len (g b) hb.1
  pf b hb l t ht hl := by
    simp only [map] at hl ⊢
    rw [h.pf (g b) hb.1 l t ht hl]

/-- `Validate::Yes` on values that pass `check` -/
theorem guard_good {α : Type} {c : Codec α} {D : α → Prop} (h : Good c D) (chk : α → Bool) :
    Good (guard c chk) (fun a => D a ∧ chk a = true) where
  rt a ha rest := by
    simp only [guard]
    rw [h.rt a ha.1]
    simp only [ha.2, if_true]
  len a ha := h.len a ha.1
  pf a ha l t ht hl := by
    simp only [guard] at hl ⊢
    rw [h.pf a ha.1 l t ht hl]

/-- whatever `Validate::Yes` accepts, `Validate::No` accepts with the same result, and it passed
`check` -/
theorem guard_dec_some {α : Type} (c : Codec α) (chk : α → Bool) (l : List Nat) (a : α)
    (r : List Nat) (h : (guard c chk).dec l = some (a, r)) : c.dec l = some (a, r) ∧ chk a = true := by
  simp only [guard] at h
  cases hd : c.dec l with
  | none => rw [hd] at h; cases h
  | some p =>
    rw [hd] at h
    obtain ⟨a', r'⟩ := p
    simp only at h
    by_cases hc : chk a' = true
    · simp only [hc, if_true, Option.some.injEq, Prod.mk.injEq] at h
      obtain ⟨h1, h2⟩ := h
      subst h1; subst h2
      exact ⟨rfl, hc⟩
    · simp [hc] at h

/-- fixed-width raw bytes -/
theorem raw_good (n : Nat) : Good (raw n) (fun bs => bs.length = n) where
  rt bs hb rest := by
    have h1 : ¬ ((bs ++ rest).length < n) := by rw [List.length_append]; omega
    have h2 : (bs ++ rest).take n = bs := by
      rw [List.take_append_of_le_length (by omega)]
      exact List.take_of_length_le (by omega)
    have h3 : (bs ++ rest).drop n = rest := by
      rw [List.drop_append_of_le_length (by omega), List.drop_of_length_le (by omega)]
      rfl
    simp only [raw, h1, h2, h3, if_false]
  len bs _ := rfl
  pf bs hb l t ht hl := by
    simp only [raw] at hl
    have : l.length + t.length = n := by rw [← List.length_append, hl]; exact hb
    have ht' : 0 < t.length := List.length_pos_iff.mpr ht
    have : l.length < n := by omega
    simp [raw, this]

end Codec

/-! ### Records -/
namespace Rec
variable {V : Type} [Inhabited V]

theorem get_cons_self (k : String) (v : V) (xs : Rec V) : Rec.get ((k, v) :: xs) k = v := by
  simp [Rec.get, List.find?]

theorem get_cons_ne (k f : String) (v : V) (xs : Rec V) (h : k ≠ f) :
    Rec.get ((k, v) :: xs) f = Rec.get xs f := by
  have : (k == f) = false := by simpa using h
  simp [Rec.get, List.find?, this]

/-- with duplicate-free keys, every entry is what `get` returns for its key -/
theorem get_of_mem (x : Rec V) (hn : (x.map Prod.fst).Nodup) (p : String × V) (hp : p ∈ x) :
    x.get p.1 = p.2 := by
  induction x with
  | nil => cases hp
  | cons q xs ih =>
    obtain ⟨k, v⟩ := q
    simp only [List.map_cons, List.nodup_cons] at hn
    rcases List.mem_cons.mp hp with rfl | hp'
    · exact get_cons_self k v xs
    · have hne : k ≠ p.1 := by
        intro hk
        apply hn.1
        rw [hk]
        exact List.mem_map.mpr ⟨p, hp', rfl⟩
      rw [get_cons_ne k p.1 v xs hne]
      exact ih hn.2 hp'

/-- a record with duplicate-free keys is determined by its key list and `get` -/
theorem eq_map_get (x : Rec V) (hn : (x.map Prod.fst).Nodup) :
    (x.map Prod.fst).map (fun f => (f, x.get f)) = x := by
  rw [List.map_map]
  have : ∀ p ∈ x, ((fun f => (f, x.get f)) ∘ Prod.fst) p = id p := by
    intro p hp
    simp only [Function.comp, id]
    rw [get_of_mem x hn p hp]
  rw [List.map_congr_left this, List.map_id]

end Rec

/-! ### Hand-written struct serializers -/
namespace Schema
open Codec
variable {V : Type} [Inhabited V]

/-- The values on which a hand-written impl is expected to round-trip: the record has exactly the
declared fields, every written field is in the domain of its codec, and every field named
`prepared_X` is `prep` of field `X` (the invariant `setup`/`trim` establish). -/
def WF (s : Schema) (fd : String → V → Prop) (prep : String → V → V) (x : Rec V) : Prop :=
  x.map Prod.fst = s.fieldNames
  ∧ (∀ f ∈ s.written, fd f (x.get f))
  ∧ (∀ src, src ∈ s.fieldNames → "prepared_" ++ src ∈ s.fieldNames →
      x.get ("prepared_" ++ src) = prep ("prepared_" ++ src) (x.get src))

/-- the pieces of `SchemaOK` as propositions -/
structure OKProps (s : Schema) : Prop where
  nodupFields : s.fieldNames.Nodup
  nodupWritten : s.written.Nodup
  nodupLocs : (s.read.map ReadField.loc).Nodup
  readWritten : s.read.map ReadField.field = s.written
  sizedPerm : s.sized.Perm s.written
  writtenDeclared : ∀ f ∈ s.written, f ∈ s.fieldNames
  covered : ∀ f ∈ s.fieldNames, f ∈ s.written ∨ f ∈ s.prepared.map Prod.fst
  preparedOK : ∀ p ∈ s.prepared, p.1 ∈ s.fieldNames ∧ p.1 ∉ s.written ∧ s.preparedOwn p = true

theorem okProps_of_schemaOK (s : Schema) (h : s.SchemaOK = true) : OKProps s := by
  simp only [SchemaOK, Bool.and_eq_true, decide_eq_true_eq, List.all_eq_true, Bool.or_eq_true,
    Bool.not_eq_true', decide_eq_false_iff_not, List.isPerm_iff] at h
  obtain ⟨⟨⟨⟨⟨⟨⟨h1, h2⟩, h3⟩, h4⟩, h5⟩, h6⟩, h7⟩, h8⟩ := h
  exact ⟨h1, h2, h3, h4, h5, h6, h7, fun p hp => ⟨(h8 p hp).1.1, (h8 p hp).1.2, (h8 p hp).2⟩⟩

theorem decFields_enc (fc : String → Codec V) (fd : String → V → Prop) (x : Rec V)
    (rd : List ReadField)
    (hg : ∀ r ∈ rd, Good (fc r.field) (fd r.field) ∧ fd r.field (x.get r.field))
    (rest : List Nat) :
    decFields fc rd (encFields fc x (rd.map ReadField.field) ++ rest)
      = some (rd.map (fun r => (r.loc, x.get r.field)), rest) := by
  induction rd with
  | nil => rfl
  | cons r rs ih =>
    have hr := hg r (List.mem_cons_self ..)
    simp only [List.map_cons, encFields, decFields, List.append_assoc]
    rw [hr.1.rt _ hr.2]
    simp only
    rw [ih (fun q hq => hg q (List.mem_cons_of_mem _ hq))]

theorem decFields_prefix (fc : String → Codec V) (fd : String → V → Prop) (x : Rec V)
    (rd : List ReadField)
    (hg : ∀ r ∈ rd, Good (fc r.field) (fd r.field) ∧ fd r.field (x.get r.field))
    (l t : List Nat) (ht : t ≠ []) (hl : l ++ t = encFields fc x (rd.map ReadField.field)) :
    decFields fc rd l = none := by
  induction rd generalizing l with
  | nil =>
    simp only [List.map_nil, encFields, List.append_eq_nil_iff] at hl
    exact absurd hl.2 ht
  | cons r rs ih =>
    have hr := hg r (List.mem_cons_self ..)
    simp only [List.map_cons, encFields] at hl
    simp only [decFields]
    rcases split_cases hl with ⟨as, has, h1⟩ | ⟨bs, h1, h2⟩
    · rw [hr.1.pf _ hr.2 l as has h1]
    · subst h1
      rw [hr.1.rt _ hr.2]
      simp only
      rw [ih (fun q hq => hg q (List.mem_cons_of_mem _ hq)) bs h2]

theorem encFields_length (fc : String → Codec V) (fd : String → V → Prop) (x : Rec V)
    (fs : List String) (hg : ∀ f ∈ fs, Good (fc f) (fd f) ∧ fd f (x.get f)) :
    (encFields fc x fs).length = sizeFields fc x fs := by
  induction fs with
  | nil => rfl
  | cons f fs ih =>
    have hf := hg f (List.mem_cons_self ..)
    simp only [encFields, sizeFields, List.length_append]
    rw [hf.1.len _ hf.2, ih (fun q hq => hg q (List.mem_cons_of_mem _ hq))]

theorem sizeFields_perm (fc : String → Codec V) (x : Rec V) {a b : List String} (h : a.Perm b) :
    sizeFields fc x a = sizeFields fc x b := by
  induction h with
  | nil => rfl
  | cons f _ ih => simp only [sizeFields, ih]
  | swap f g l => simp only [sizeFields]; omega
  | trans _ _ ih1 ih2 => rw [ih1, ih2]

/-- the environment after all reads returns, for the local of a read, the value of its field -/
theorem env_get (x : Rec V) (rd : List ReadField) (hn : (rd.map ReadField.loc).Nodup)
    (r : ReadField) (hr : r ∈ rd) :
    Rec.get (rd.map (fun r => (r.loc, x.get r.field))) r.loc = x.get r.field := by
  have hk : ((rd.map (fun r => (r.loc, x.get r.field))).map Prod.fst) = rd.map ReadField.loc := by
    rw [List.map_map]; rfl
  have := Rec.get_of_mem (rd.map (fun r => (r.loc, x.get r.field))) (by rw [hk]; exact hn)
    (r.loc, x.get r.field) (List.mem_map.mpr ⟨r, hr, rfl⟩)
  exact this

/-- the `Self { .. }` literal rebuilds every declared field of a well-formed record -/
theorem fieldValue_eq (s : Schema) (ok : OKProps s) (fd : String → V → Prop) (prep : String → V → V)
    (x : Rec V) (hx : s.WF fd prep x) (f : String) (hf : f ∈ s.fieldNames) :
    s.fieldValue prep (s.read.map (fun r => (r.loc, x.get r.field))) f = x.get f := by
  unfold fieldValue readOf
  cases hfind : s.read.find? (fun r => r.field == f) with
  | some r =>
    have hmem := List.mem_of_find?_eq_some hfind
    have hp := List.find?_some hfind
    have hrf : r.field = f := by simpa using hp
    simp only
    rw [env_get x s.read ok.nodupLocs r hmem, hrf]
  | none =>
    simp only
    have hnone := List.find?_eq_none.mp hfind
    have hnw : f ∉ s.written := by
      intro hw
      rw [← ok.readWritten] at hw
      obtain ⟨r, hr, hrf⟩ := List.mem_map.mp hw
      exact hnone r hr (by simp [hrf])
    have hprep : f ∈ s.prepared.map Prod.fst := by
      rcases ok.covered f hf with h | h
      · exact absurd h hnw
      · exact h
    unfold preparedFrom
    cases hfp : s.prepared.find? (fun p => p.1 == f) with
    | none =>
      exfalso
      obtain ⟨p, hp, hpf⟩ := List.mem_map.mp hprep
      exact List.find?_eq_none.mp hfp p hp (by simp [hpf])
    | some p =>
      simp only
      have hpm := List.mem_of_find?_eq_some hfp
      have hp1 : p.1 = f := by simpa using List.find?_some hfp
      have hown := (ok.preparedOK p hpm).2.2
      unfold preparedOwn at hown
      cases hfl : s.read.find? (fun r => r.loc == p.2) with
      | none => rw [hfl] at hown; cases hown
      | some r =>
        rw [hfl] at hown
        have hname : p.1 = "prepared_" ++ r.field := by simpa using hown
        have hrm := List.mem_of_find?_eq_some hfl
        have hrl : r.loc = p.2 := by simpa using List.find?_some hfl
        have hsrcW : r.field ∈ s.written := by
          rw [← ok.readWritten]; exact List.mem_map.mpr ⟨r, hrm, rfl⟩
        have hsrcF := ok.writtenDeclared _ hsrcW
        rw [← hrl, env_get x s.read ok.nodupLocs r hrm]
        have hf' : f = "prepared_" ++ r.field := by rw [← hp1]; exact hname
        rw [hf']
        rw [hf'] at hf
        exact (hx.2.2 r.field hsrcF hf).symm

theorem build_eq (s : Schema) (ok : OKProps s) (fd : String → V → Prop) (prep : String → V → V)
    (x : Rec V) (hx : s.WF fd prep x) :
    s.build prep (s.read.map (fun r => (r.loc, x.get r.field))) = x := by
  have hn : (x.map Prod.fst).Nodup := by rw [hx.1]; exact ok.nodupFields
  have h2 := Rec.eq_map_get x hn
  rw [hx.1] at h2
  unfold build
  rw [List.map_congr_left (fun f hf => by rw [fieldValue_eq s ok fd prep x hx f hf])]
  exact h2

/-- **The struct-level theorem.**  If the lists T1 extracted from a hand-written impl satisfy the
decidable condition `SchemaOK`, then — for any field codecs that are good on their domains, any
preparation function — the impl's codec is good on the well-formed records. -/
theorem good_of_schemaOK (s : Schema) (hok : s.SchemaOK = true) (fc : String → Codec V)
    (fd : String → V → Prop) (prep : String → V → V)
    (hfc : ∀ f ∈ s.written, Good (fc f) (fd f)) :
    Good (s.structCodec fc prep) (s.WF fd prep) := by
  have ok := okProps_of_schemaOK s hok
  have hg : ∀ x, s.WF fd prep x →
      ∀ r ∈ s.read, Good (fc r.field) (fd r.field) ∧ fd r.field (x.get r.field) := by
    intro x hx r hr
    have hw : r.field ∈ s.written := by
      rw [← ok.readWritten]; exact List.mem_map.mpr ⟨r, hr, rfl⟩
    exact ⟨hfc _ hw, hx.2.1 _ hw⟩
  refine ⟨?_, ?_, ?_⟩
  · intro x hx rest
    simp only [structCodec]
    rw [← ok.readWritten, decFields_enc fc fd x s.read (hg x hx) rest]
    simp only
    rw [build_eq s ok fd prep x hx]
  · intro x hx
    simp only [structCodec]
    rw [sizeFields_perm fc x ok.sizedPerm]
    exact encFields_length fc fd x s.written (fun f hf => ⟨hfc f hf, hx.2.1 f hf⟩)
  · intro x hx l t ht hl
    simp only [structCodec] at hl ⊢
    rw [← ok.readWritten] at hl
    rw [decFields_prefix fc fd x s.read (hg x hx) l t ht hl]

/-- … and with `Validate::Yes` on the records whose checked fields pass their checks. -/
theorem goodV_of_schemaOK (s : Schema) (hok : s.SchemaOK = true) (fc : String → Codec V)
    (fd : String → V → Prop) (prep : String → V → V) (chk : String → V → Bool)
    (hfc : ∀ f ∈ s.written, Good (fc f) (fd f)) :
    Good (s.structCodecV fc prep chk) (fun x => s.WF fd prep x ∧ s.checkAll chk x = true) :=
  guard_good (good_of_schemaOK s hok fc fd prep hfc) (s.checkAll chk)

end Schema
end PCV
