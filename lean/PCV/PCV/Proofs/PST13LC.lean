/-
  PCV.Proofs.PST13LC — MarlinPST13 `open_combinations` / `check_combinations`:
  (A) a combination of honestly committed polynomials is an honestly committed polynomial;
  (B) batch completeness from the query set (`batch_open` / `batch_check`);
  (C) the constants a verifier subtracts; (D) the verifier combines the same commitments;
  (E) completeness of combination proofs; (F) the closed form of the verifier's decision.
-/
import PCV.Model.PST13LC
import PCV.Proofs.PST13
import PCV.Proofs.MarlinLC
set_option linter.unusedSectionVars false
set_option linter.unusedVariables false

namespace PCV
namespace PST
open MV
variable {F : Type} [Field F] [DecidableEq F]

/-! ### list lookups -/

theorem lookupLast_foldl_map {α β : Type} (la : α → Label) (lb : β → Label) (f : α → β)
    (l : Label) (xs : List α) (acc : Option α) (h : ∀ x ∈ xs, lb (f x) = la x) :
    (xs.map f).foldl (fun acc y => if lb y = l then some y else acc) (acc.map f)
      = (xs.foldl (fun acc x => if la x = l then some x else acc) acc).map f := by
  induction xs generalizing acc with
  | nil => rfl
  | cons x xs ih =>
    simp only [List.map_cons, List.foldl_cons]
    rw [h x (by simp)]
    have := ih (if la x = l then some x else acc) (fun y hy => h y (by simp [hy]))
    rw [← this]
    by_cases hx : la x = l <;> simp [hx]

/-- looking a label up in a mapped list (labels preserved) -/
theorem lookupLast_map {α β : Type} (la : α → Label) (lb : β → Label) (f : α → β)
    (l : Label) (xs : List α) (h : ∀ x ∈ xs, lb (f x) = la x) :
    Marlin.lookupLast lb l (xs.map f) = (Marlin.lookupLast la l xs).map f := by
  unfold Marlin.lookupLast
  exact lookupLast_foldl_map la lb f l xs none h

theorem varsBelow_mono {a b : Nat} (hab : a ≤ b) {t : Term} (h : Term.varsBelow a t = true) :
    Term.varsBelow b t = true := by
  rw [varsBelow_iff] at h ⊢
  exact fun q hq => Nat.lt_of_lt_of_le (h q hq) hab

theorem foldl_max_ge (l : List Nat) (a : Nat) : a ≤ l.foldl max a := by
  induction l generalizing a with
  | nil => exact Nat.le_refl _
  | cons x l ih => exact Nat.le_trans (Nat.le_max_left a x) (ih (max a x))

theorem foldl_max_mem (l : List Nat) (a : Nat) : ∀ x ∈ l, x ≤ l.foldl max a := by
  induction l generalizing a with
  | nil => intro x hx; cases hx
  | cons y l ih =>
    intro x hx
    rcases List.mem_cons.1 hx with rfl | hx
    · exact Nat.le_trans (Nat.le_max_right a x) (foldl_max_ge l (max a x))
    · exact ih (max a y) x hx

theorem foldl_max_le (l : List Nat) (a n : Nat) (ha : a ≤ n) (h : ∀ x ∈ l, x ≤ n) :
    l.foldl max a ≤ n := by
  induction l generalizing a with
  | nil => exact ha
  | cons y l ih =>
    exact ih (max a y) (Nat.max_le.2 ⟨ha, h y (by simp)⟩) (fun x hx => h x (by simp [hx]))

theorem le_maxNv (l : List Nat) : ∀ x ∈ l, x ≤ maxNv l := foldl_max_mem l 0
theorem maxNv_le (l : List Nat) (n : Nat) (h : ∀ x ∈ l, x ≤ n) : maxNv l ≤ n :=
  foldl_max_le l 0 n (Nat.zero_le _) h

/-! ### honest triples -/

/-- a (polynomial, state, commitment) triple as `commit` makes it under the key of the trapdoor
`β⃗` over `nv` variables: the commitment is `g·p(β⃗) + γ·r(β⃗)` without shifted part or bound, the
labels agree, the polynomial is a library-built polynomial over `≤ nv` declared variables, the
blinding polynomial has the shape `Randomness::rand` produces. -/
structure HonestT (g γ : F) (β : List F) (nv : Nat) (t : Trip F) : Prop where
  comm : t.2.2.comm.comm = g * evalMV t.1.poly β + γ * evalMV t.2.1.blind β
  shifted : t.2.2.comm.shifted = none
  cbound : t.2.2.bound = none
  pbound : t.1.bound = none
  clabel : t.2.2.label = t.1.label
  pwf : ∀ u ∈ termsOf t.1.poly, Term.wf u = true
  pvars : ∀ u ∈ termsOf t.1.poly, Term.varsBelow t.1.nv u = true
  pnv : t.1.nv ≤ nv
  rwf : ∀ u ∈ termsOf t.2.1.blind, Term.wf u = true
  rvars : ∀ u ∈ termsOf t.2.1.blind, Term.varsBelow t.2.1.nv u = true
  rnv : t.2.1.nv ≤ nv
  runi : ∀ u ∈ termsOf t.2.1.blind, isUni u = true

/-! ### (A) the prover's combination loop -/

/-- what one term contributes to the value of the combined polynomial at `z` -/
def termPolyValue (trips : List (Trip F)) (z : List F) (t : F × LC.LCTerm) : F :=
  match t.2 with
  | .one => 0
  | .poly l =>
    match Marlin.lookupLast (fun (t : Trip F) => t.1.label) l trips with
    | none => 0
    | some x => t.1 * evalMV x.1.poly z

/-- the polynomial part `Σ coeff·p_label(z)` of a combination's value -/
def lcPolyValue (trips : List (Trip F)) (z : List F) : List (F × LC.LCTerm) → F
  | [] => 0
  | t :: ts => termPolyValue trips z t + lcPolyValue trips z ts

/-- the invariant of the loop on honest, unbounded inputs -/
structure LCInv (g γ : F) (β : List F) (nv : Nat) (a : LCAcc F) : Prop where
  bound : a.bound = none
  shifted : a.shifted = none
  comm : a.comm = g * evalMV a.poly β + γ * evalMV a.rand.blind β
  pwf : ∀ u ∈ termsOf a.poly, Term.wf u = true
  pvars : ∀ u ∈ termsOf a.poly, Term.varsBelow a.nv u = true
  pnv : a.nv ≤ nv
  rwf : ∀ u ∈ termsOf a.rand.blind, Term.wf u = true
  rvars : ∀ u ∈ termsOf a.rand.blind, Term.varsBelow a.rand.nv u = true
  rnv : a.rand.nv ≤ nv
  runi : ∀ u ∈ termsOf a.rand.blind, isUni u = true

theorem policy_none (k : Nat) (c : F) : policy k (none : Option Nat) c = none := by
  simp [policy]

theorem lcStep_inv {g γ : F} {β : List F} {nv : Nat} (trips : List (Trip F))
    (hh : ∀ t ∈ trips, HonestT g γ β nv t) (k : Nat) (acc acc' : LCAcc F)
    (term : F × LC.LCTerm) (hi : LCInv g γ β nv acc) (hs : lcStep trips k acc term = .ok acc')
    (z : List F) :
    LCInv g γ β nv acc' ∧ evalMV acc'.poly z = evalMV acc.poly z + termPolyValue trips z term := by
  unfold lcStep at hs
  cases ht : term.2 with
  | one =>
    rw [ht] at hs
    simp only at hs
    injection hs with hs; subst hs
    exact ⟨hi, by simp [termPolyValue, ht]⟩
  | poly l =>
    rw [ht] at hs
    simp only at hs
    cases hl : Marlin.lookupLast (fun (t : Trip F) => t.1.label) l trips with
    | none => rw [hl] at hs; cases hs
    | some x =>
      rw [hl] at hs
      simp only at hs
      obtain ⟨hmem, _⟩ := Marlin.lookupLast_mem _ l trips x hl
      have hx := hh x hmem
      rw [hx.pbound, policy_none] at hs
      simp only [Option.isSome_none, Bool.false_eq_true, and_false, if_false] at hs
      injection hs with hs
      subst hs
      refine ⟨⟨?_, ?_, ?_, ?_, ?_, ?_, ?_, ?_, ?_, ?_⟩, ?_⟩
      · exact hi.bound
      · simp only [LCAcc.add, addShifted, hx.shifted]; exact hi.shifted
      · simp only [LCAcc.add, Rand.addScaled]
        rw [evalMV_addScaledMV _ _ _ _ hi.pwf hx.pwf, evalMV_addScaledMV _ _ _ _ hi.rwf hx.rwf,
          hi.comm, hx.comm]
        ring
      · intro u hu
        simp only [LCAcc.add] at hu
        rcases mem_addScaledMV_term _ _ _ u hu with hu | hu
        · exact hi.pwf u hu
        · exact hx.pwf u hu
      · intro u hu
        simp only [LCAcc.add] at hu ⊢
        rcases mem_addScaledMV_term _ _ _ u hu with hu | hu
        · exact varsBelow_mono (Nat.le_max_left _ _) (hi.pvars u hu)
        · exact varsBelow_mono (Nat.le_max_right _ _) (hx.pvars u hu)
      · simp only [LCAcc.add]; exact Nat.max_le.2 ⟨hi.pnv, hx.pnv⟩
      · intro u hu
        simp only [LCAcc.add, Rand.addScaled] at hu
        rcases mem_addScaledMV_term _ _ _ u hu with hu | hu
        · exact hi.rwf u hu
        · exact hx.rwf u hu
      · intro u hu
        simp only [LCAcc.add, Rand.addScaled] at hu ⊢
        rcases mem_addScaledMV_term _ _ _ u hu with hu | hu
        · exact varsBelow_mono (Nat.le_max_left _ _) (hi.rvars u hu)
        · exact varsBelow_mono (Nat.le_max_right _ _) (hx.rvars u hu)
      · simp only [LCAcc.add, Rand.addScaled]; exact Nat.max_le.2 ⟨hi.rnv, hx.rnv⟩
      · intro u hu
        simp only [LCAcc.add, Rand.addScaled] at hu
        rcases mem_addScaledMV_term _ _ _ u hu with hu | hu
        · exact hi.runi u hu
        · exact hx.runi u hu
      · simp only [LCAcc.add, termPolyValue, ht, hl]
        rw [evalMV_addScaledMV _ _ _ _ hi.pwf hx.pwf]

theorem lcTerms_inv {g γ : F} {β : List F} {nv : Nat} (trips : List (Trip F))
    (hh : ∀ t ∈ trips, HonestT g γ β nv t) (k : Nat) (terms : List (F × LC.LCTerm))
    (acc acc' : LCAcc F) (hi : LCInv g γ β nv acc) (hs : lcTerms trips k acc terms = .ok acc')
    (z : List F) :
    LCInv g γ β nv acc' ∧ evalMV acc'.poly z = evalMV acc.poly z + lcPolyValue trips z terms := by
  induction terms generalizing acc with
  | nil =>
    simp only [lcTerms] at hs
    injection hs with hs; subst hs
    exact ⟨hi, by simp [lcPolyValue]⟩
  | cons t ts ih =>
    simp only [lcTerms] at hs
    split at hs
    · cases hs
    · rename_i acc1 h1
      obtain ⟨hi1, hv1⟩ := lcStep_inv trips hh k acc acc1 t hi h1 z
      obtain ⟨hi2, hv2⟩ := ih acc1 hi1 hs
      refine ⟨hi2, ?_⟩
      rw [hv2, hv1]
      simp only [lcPolyValue]; ring

theorem LCInv_init (g γ : F) (β : List F) (nv : Nat) : LCInv g γ β nv (LCAcc.init : LCAcc F) := by
  refine ⟨rfl, rfl, by simp [LCAcc.init], ?_, ?_, Nat.zero_le _, ?_, ?_, Nat.zero_le _, ?_⟩ <;>
    intro u hu <;> simp [LCAcc.init, termsOf] at hu

/-- **(A)** A combination of honest triples is an honest triple carrying the combination's label,
and its polynomial evaluates everywhere to the combination of the evaluations. -/
theorem combineLC_honest {g γ : F} {β : List F} {nv : Nat} (trips : List (Trip F))
    (hh : ∀ t ∈ trips, HonestT g γ β nv t) (lc : LC.LinComb F) (res : Trip F)
    (hc : combineLC trips lc = .ok res) :
    HonestT g γ β nv res ∧ res.1.label = lc.label ∧
      ∀ z, evalMV res.1.poly z = lcPolyValue trips z lc.terms := by
  unfold combineLC at hc
  split at hc
  · cases hc
  · rename_i a ha
    injection hc with hc; subst hc
    have hinv := fun z => lcTerms_inv trips hh lc.terms.length lc.terms _ a (LCInv_init g γ β nv) ha z
    obtain ⟨i, _⟩ := hinv []
    refine ⟨⟨i.comm, i.shifted, i.bound, i.bound, rfl, i.pwf, i.pvars, i.pnv, i.rwf, i.rvars,
      i.rnv, i.runi⟩, rfl, ?_⟩
    intro z
    have := (hinv z).2
    simpa [LCAcc.init] using this

theorem combineAll_honest {g γ : F} {β : List F} {nv : Nat} (trips : List (Trip F))
    (hh : ∀ t ∈ trips, HonestT g γ β nv t) (lcs : List (LC.LinComb F)) (ts : List (Trip F))
    (hc : combineAll trips lcs = .ok ts) :
    List.Forall₂ (fun (t : Trip F) (lc : LC.LinComb F) => HonestT g γ β nv t ∧ t.1.label = lc.label ∧
      ∀ z, evalMV t.1.poly z = lcPolyValue trips z lc.terms) ts lcs := by
  induction lcs generalizing ts with
  | nil =>
    simp only [combineAll] at hc
    injection hc with hc; subst hc
    exact List.Forall₂.nil
  | cons lc lcs ih =>
    simp only [combineAll] at hc
    split at hc
    · cases hc
    · rename_i t ht
      split at hc
      · cases hc
      · rename_i ts' hts
        injection hc with hc; subst hc
        exact List.Forall₂.cons (combineLC_honest trips hh lc t ht) (ih ts' hts)

/-! ### (B) batch completeness from the query set -/

/-- without degree bounds the labelled accumulation is the scalar one of `PCV.Model.PST13` -/
theorem accumulateL_eq (ca va : F) (cs : List (LComm F)) (vs ξs : List F)
    (h : ∀ c ∈ cs, c.bound = none ∧ c.comm.shifted = none) :
    accumulateL ca va cs vs ξs = accumulate ca va (cs.map (·.comm.comm)) vs ξs := by
  induction cs generalizing ca va vs ξs with
  | nil => cases vs <;> simp [accumulateL, accumulate]
  | cons c cs ih =>
    cases vs with
    | nil => simp [accumulateL, accumulate]
    | cons v vs =>
      obtain ⟨hb, hs⟩ := h c (by simp)
      cases ξs with
      | nil => simp [accumulateL, accumulate, hb, hs]
      | cons ξ ξs =>
        simp only [accumulateL, accumulate, List.map_cons, hb, hs, Option.isSome_none, ne_eq,
          not_true_eq_false, if_false, Bool.false_eq_true]
        exact ih _ _ vs ξs (fun c' hc' => h c' (by simp [hc']))

/-- the value at `z` of the polynomial the label `l` names (last write wins; `0` if none) -/
def polyValueAt (trips : List (Trip F)) (l : Label) (z : List F) : F :=
  match Marlin.lookupLast (fun (t : Trip F) => t.1.label) l trips with
  | none => 0
  | some t => evalMV t.1.poly z

theorem gatherTrips_mem (trips : List (Trip F)) (ls : List Label) (gts : List (Trip F))
    (h : gatherTrips trips ls = .ok gts) : ∀ t ∈ gts, t ∈ trips := by
  induction ls generalizing gts with
  | nil =>
    simp only [gatherTrips] at h
    injection h with h; subst h
    intro t ht; cases ht
  | cons l ls ih =>
    simp only [gatherTrips] at h
    split at h
    · cases h
    · rename_i t hl
      split at h
      · cases h
      · rename_i ts hts
        injection h with h; subst h
        intro u hu
        rcases List.mem_cons.1 hu with rfl | hu
        · exact (Marlin.lookupLast_mem _ l trips _ hl).1
        · exact ih ts hts u hu

/-- the verifier gathers the commitments of the triples the prover gathered, with the true values -/
theorem gather_corr (trips : List (Trip F)) (hlab : ∀ t ∈ trips, t.2.2.label = t.1.label)
    (hb : ∀ t ∈ trips, t.2.2.bound = none ∧ t.2.2.comm.shifted = none)
    (evals : Evals F) (z : List F) (ls : List Label) (gts : List (Trip F))
    (h : gatherTrips trips ls = .ok gts)
    (hev : ∀ l ∈ ls, lookupEval evals l z = some (polyValueAt trips l z)) :
    gatherComms (trips.map (·.2.2)) evals z ls
      = .ok (gts.map (·.2.2), gts.map (fun t => evalMV t.1.poly z)) := by
  induction ls generalizing gts with
  | nil =>
    simp only [gatherTrips] at h
    injection h with h; subst h
    rfl
  | cons l ls ih =>
    simp only [gatherTrips] at h
    split at h
    · cases h
    · rename_i t hl
      split at h
      · cases h
      · rename_i ts hts
        injection h with h; subst h
        have hmem := (Marlin.lookupLast_mem _ l trips _ hl).1
        have hlk : Marlin.lookupLast (fun (c : LComm F) => c.label) l (trips.map (·.2.2))
            = some t.2.2 := by
          rw [lookupLast_map (fun (t : Trip F) => t.1.label) (fun (c : LComm F) => c.label)
            (·.2.2) l trips hlab, hl]
          rfl
        have hv := hev l (by simp)
        simp only [polyValueAt, hl] at hv
        obtain ⟨hb1, hb2⟩ := hb t hmem
        simp only [gatherComms, hlk, hb1, hb2, Option.isSome_none, ne_eq, not_true_eq_false,
          if_false, hv, ih ts hts (fun l' hl' => hev l' (by simp [hl'])), List.map_cons]

theorem comms_of_honest {g γ : F} {β : List F} {nv : Nat} (gts : List (Trip F))
    (hh : ∀ t ∈ gts, HonestT g γ β nv t) :
    comms g γ β (gts.map (·.1.poly)) (gts.map (·.2.1.blind)) = (gts.map (·.2.2)).map (·.comm.comm) := by
  induction gts with
  | nil => rfl
  | cons t gts ih =>
    simp only [comms, List.map_cons, List.zipWith_cons_cons]
    rw [(hh t (by simp)).comm]
    congr 1
    exact ih (fun u hu => hh u (by simp [hu]))

section Keys

/-- one point: whenever the prover answers, the verifier's accumulation of the commitments with the
true values consumes the same challenges and gives a vanishing defect -/
theorem openRest_defect (g γ h : F) (β : List F) (ts : List Term) (nv s D m nvp nvr : Nat)
    (ps rs : List (MVPoly F)) (z ξs : List F) (π : Proof F) (rest : List F)
    (hnvp : nvp ≤ nv) (hnvr : nvr ≤ nv) (hlen : ps.length = rs.length)
    (hps : ∀ p ∈ ps, polyWf p = true ∧ polyVarsBelow nvp p = true)
    (hrs : ∀ r ∈ rs, polyWf r = true ∧ polyVarsBelow nvr r = true ∧ ∀ t ∈ termsOf r, isUni t = true)
    (ho : openRest (wfCK g γ β ts nv s D m) nvp nvr ps z rs ξs = .ok (π, rest)) :
    ∃ C V, accumulate 0 0 (comms g γ β ps rs) (ps.map (fun p => evalMV p z)) ξs = .ok (C, V, rest)
      ∧ defectCombined (wfVK g γ h β nv s D) C V z π = 0 ∧ π.w.length = nv := by
  unfold openRest at ho
  split at ho
  · cases ho
  · rename_i c hc
    split at ho
    · cases ho
    · rename_i π' hπ'
      injection ho with ho
      injection ho with h1 h2
      subst h1; subst h2
      have hnil : ∀ (P : Term → Prop), ∀ t ∈ termsOf ([] : MVPoly F), P t := by
        intro P t ht; simp [termsOf] at ht
      have hacc := combine_accumulate g γ β z _ [] [] ps rs ξs c 0 0 hc hlen (hnil _) (hnil _)
        (fun p hp => (polyWf_iff p).1 (hps p hp).1) (fun r hr => (polyWf_iff r).1 (hrs r hr).1)
      have h1 := combine_terms (fun t => Term.wf t = true) _ [] [] ps rs ξs c hc (hnil _)
        (fun p hp => (polyWf_iff p).1 (hps p hp).1)
      have h2 := combine_terms (fun t => Term.varsBelow nvp t = true) _ [] [] ps rs ξs c hc (hnil _)
        (fun p hp => (polyVarsBelow_iff nvp p).1 (hps p hp).2)
      have h3 := combine_terms_r (fun t => Term.wf t = true) _ [] [] ps rs ξs c hc (hnil _)
        (fun r hr => (polyWf_iff r).1 (hrs r hr).1)
      have h4 := combine_terms_r (fun t => Term.varsBelow nvr t = true) _ [] [] ps rs ξs c hc (hnil _)
        (fun r hr => (polyVarsBelow_iff nvr r).1 (hrs r hr).2.1)
      have h5 := combine_terms_r (fun t => isUni t = true) _ [] [] ps rs ξs c hc (hnil _)
        (fun r hr => (hrs r hr).2.2)
      obtain ⟨hd, hwl⟩ := openCombined_defect g γ h β ts nv s D m nvp nvr c.1 c.2.1 z _ hnvp hnvr
        ((polyWf_iff _).2 h1) ((polyVarsBelow_iff nvp _).2 h2) ((polyWf_iff _).2 h3)
        ((polyVarsBelow_iff nvr _).2 h4) h5 hπ'
      refine ⟨_, _, hacc, ?_, hwl⟩
      simp only [evalMV_nil, sub_zero, zero_add]
      exact hd

/-- the groups of a batch, in order: the verifier's `combine_and_normalize` follows the prover's
`batch_open` challenge by challenge and every per-point defect vanishes -/
theorem batch_groups_complete (g γ h : F) (β : List F) (ts : List Term) (nv s D m : Nat)
    (trips : List (Trip F)) (hh : ∀ t ∈ trips, HonestT g γ β nv t) (evals : Evals F)
    (groups : List (Group F)) (ξs : List F) (πs : List (Proof F)) (rest : List F)
    (hev : ∀ gr ∈ groups, ∀ l ∈ gr.2.2,
      lookupEval evals l gr.2.1 = some (polyValueAt trips l gr.2.1))
    (ho : batchOpenGroups (wfCK g γ β ts nv s D m) trips groups ξs = .ok (πs, rest)) :
    ∃ tr, combineAndNormalize (trips.map (·.2.2)) evals groups ξs = .ok (tr, rest)
      ∧ tr.map (·.2.1) = groups.map (·.2.1)
      ∧ πs.length = groups.length
      ∧ (∀ d ∈ defectsC (wfVK g γ h β nv s D) (tr.map (·.1)) (tr.map (·.2.1)) (tr.map (·.2.2)) πs,
            d = 0)
      ∧ ∀ π ∈ πs, π.w.length = nv := by
  induction groups generalizing ξs πs with
  | nil =>
    simp only [batchOpenGroups] at ho
    injection ho with ho
    injection ho with h1 h2
    subst h1; subst h2
    exact ⟨[], rfl, rfl, rfl, by intro d hd; simp [defectsC] at hd, by intro π hπ; cases hπ⟩
  | cons gr groups ih =>
    simp only [batchOpenGroups] at ho
    split at ho
    · cases ho
    · rename_i gts hg
      split at ho
      · cases ho
      · rename_i r hr
        split at ho
        · cases ho
        · rename_i rr hrr
          injection ho with ho
          injection ho with h1 h2
          subst h1; subst h2
          have hgm := gatherTrips_mem trips gr.2.2 gts hg
          have hgh : ∀ t ∈ gts, HonestT g γ β nv t := fun t ht => hh t (hgm t ht)
          have hcorr := gather_corr trips (fun t ht => (hh t ht).clabel)
            (fun t ht => ⟨(hh t ht).cbound, (hh t ht).shifted⟩) evals gr.2.1 gr.2.2 gts hg
            (hev gr (by simp))
          unfold openL at hr
          obtain ⟨C, V, hacc, hd, hwl⟩ := openRest_defect g γ h β ts nv s D m
            (maxNv (gts.map (·.1.nv))) (maxNv (gts.map (·.2.1.nv)))
            (gts.map (·.1.poly)) (gts.map (·.2.1.blind)) gr.2.1 ξs r.1 r.2
            (maxNv_le _ nv (by
              intro x hx
              simp only [List.mem_map] at hx
              obtain ⟨t, ht, rfl⟩ := hx
              exact (hgh t ht).pnv))
            (maxNv_le _ nv (by
              intro x hx
              simp only [List.mem_map] at hx
              obtain ⟨t, ht, rfl⟩ := hx
              exact (hgh t ht).rnv))
            (by simp)
            (by
              intro p hp
              simp only [List.mem_map] at hp
              obtain ⟨t, ht, rfl⟩ := hp
              refine ⟨(polyWf_iff _).2 (hgh t ht).pwf, (polyVarsBelow_iff _ _).2 ?_⟩
              intro u hu
              exact varsBelow_mono (le_maxNv _ _ (List.mem_map.2 ⟨t, ht, rfl⟩)) ((hgh t ht).pvars u hu))
            (by
              intro q hq
              simp only [List.mem_map] at hq
              obtain ⟨t, ht, rfl⟩ := hq
              refine ⟨(polyWf_iff _).2 (hgh t ht).rwf, (polyVarsBelow_iff _ _).2 ?_, (hgh t ht).runi⟩
              intro u hu
              exact varsBelow_mono (le_maxNv _ _ (List.mem_map.2 ⟨t, ht, rfl⟩)) ((hgh t ht).rvars u hu))
            (by rw [← hr])
          rw [comms_of_honest gts hgh] at hacc
          have hmapv : (gts.map (·.1.poly)).map (fun p => evalMV p gr.2.1)
              = gts.map (fun t => evalMV t.1.poly gr.2.1) := by
            rw [List.map_map]; rfl
          rw [hmapv] at hacc
          have haccL : accumulateL 0 0 (gts.map (·.2.2)) (gts.map (fun t => evalMV t.1.poly gr.2.1)) ξs
              = .ok (C, V, r.2) := by
            rw [accumulateL_eq _ _ _ _ _ (by
              intro c hc
              simp only [List.mem_map] at hc
              obtain ⟨t, ht, rfl⟩ := hc
              exact ⟨(hgh t ht).cbound, (hgh t ht).shifted⟩)]
            exact hacc
          obtain ⟨tr, htr, hz', hlen', hds, hws⟩ := ih r.2 rr.1
            (fun gr' hgr' => hev gr' (by simp [hgr'])) (by rw [hrr])
          refine ⟨(C, gr.2.1, V) :: tr, ?_, ?_, ?_, ?_, ?_⟩
          · simp only [combineAndNormalize, hcorr, haccL, htr]
          · simp only [List.map_cons, hz']
          · simp only [List.length_cons, hlen']
          · intro d hd'
            simp only [List.map_cons, defectsC, List.mem_cons] at hd'
            rcases hd' with rfl | hd'
            · exact hd
            · exact hds d hd'
          · intro π hπ
            rcases List.mem_cons.1 hπ with rfl | hπ
            · exact hwl
            · exact hws π hπ

/-- **(B) Batch completeness.**  Honest triples under the well-formed key; whenever `batch_open`
answers a query set, `batch_check` — on the commitments of those triples, the same query set, and
evaluations that contain the true value for every (label, point) a group asks for — accepts, for
every randomizer list. -/
theorem batch_complete (g γ h : F) (β : List F) (ts : List Term) (nv s D m : Nat)
    (trips : List (Trip F)) (hh : ∀ t ∈ trips, HonestT g γ β nv t) (evals : Evals F)
    (qs : List (Query F)) (ξs rs : List F) (πs : List (Proof F)) (rest : List F)
    (hβ : nv ≤ β.length) (hz : ∀ gr ∈ groupQueries qs, nv ≤ gr.2.1.length)
    (hev : ∀ gr ∈ groupQueries qs, ∀ l ∈ gr.2.2,
      lookupEval evals l gr.2.1 = some (polyValueAt trips l gr.2.1))
    (ho : batchOpen (wfCK g γ β ts nv s D m) trips qs ξs = .ok (πs, rest)) :
    batchCheckQ (wfVK g γ h β nv s D) (trips.map (·.2.2)) qs evals πs ξs rs = .ok true := by
  unfold batchOpen at ho
  obtain ⟨tr, htr, hzs, hlen, hds, hws⟩ := batch_groups_complete g γ h β ts nv s D m trips hh evals
    (groupQueries qs) ξs πs rest hev ho
  unfold batchCheckQ
  rw [htr]
  simp only
  unfold batchCheck
  rw [batchDefect_eq _ _ _ _ _ _ (by rw [hzs, List.length_map]; exact hlen)
    (by simp only [wfVK, List.length_map]; exact hβ)
    (by intro π hπ; simp only [wfVK]; exact hws π hπ)
    (by
      intro z hz'
      rw [hzs] at hz'
      simp only [List.mem_map] at hz'
      obtain ⟨gr, hgr, rfl⟩ := hz'
      simp only [wfVK]
      exact hz gr hgr),
    wsum_zero _ _ _ hds]
  simp

end Keys

/-! ### (C) the constants the verifier subtracts -/

/-- the sum of the constant terms of a combination -/
def lcConst : List (F × LC.LCTerm) → F
  | [] => 0
  | t :: ts => (if t.2.isOne then t.1 else 0) + lcConst ts

/-- the constants of ALL combinations that carry the label `l` (the code moves every evaluation
whose label equals the combination's label, once per combination) -/
def constFor : List (LC.LinComb F) → Label → F
  | [], _ => 0
  | lc :: lcs, l => (if lc.label = l then lcConst lc.terms else 0) + constFor lcs l

theorem lookupEval_subConst (lbl : Label) (c : F) (evals : Evals F) (l : Label) (z : List F) :
    lookupEval (subConst lbl c evals) l z
      = (lookupEval evals l z).map (fun v => if l = lbl then v - c else v) := by
  induction evals with
  | nil => rfl
  | cons e es ih =>
    simp only [subConst, List.map_cons] at ih ⊢
    by_cases he : e.1.1 = lbl
    · simp only [he, if_true, lookupEval]
      by_cases hk : e.1 = (l, z)
      · have hl : l = lbl := by rw [← he, hk]
        simp [hk, hl]
      · simp only [hk, if_false]; exact ih
    · simp only [he, if_false, lookupEval]
      by_cases hk : e.1 = (l, z)
      · have hl : ¬ l = lbl := by intro hl; apply he; rw [hk]; exact hl
        simp [hk, hl]
      · simp only [hk, if_false]; exact ih

theorem lookupEval_adjustTerms (lbl : Label) (ts : List (F × LC.LCTerm)) (evals : Evals F)
    (l : Label) (z : List F) :
    lookupEval (adjustTerms lbl ts evals) l z
      = (lookupEval evals l z).map (fun v => if l = lbl then v - lcConst ts else v) := by
  induction ts generalizing evals with
  | nil =>
    simp only [adjustTerms, lcConst, sub_zero]
    cases lookupEval evals l z <;> simp
  | cons t ts ih =>
    simp only [adjustTerms, lcConst]
    rw [ih]
    by_cases ho : t.2.isOne = true
    · simp only [ho, if_true]
      rw [lookupEval_subConst]
      cases lookupEval evals l z with
      | none => rfl
      | some v =>
        by_cases hl : l = lbl
        · simp only [Option.map_some, hl, if_true]; congr 1; ring
        · simp [hl]
    · simp only [ho, Bool.false_eq_true, if_false, zero_add]

theorem lookupEval_adjustEvals (lcs : List (LC.LinComb F)) (evals : Evals F) (l : Label)
    (z : List F) :
    lookupEval (adjustEvals lcs evals) l z = (lookupEval evals l z).map (fun v => v - constFor lcs l) := by
  induction lcs generalizing evals with
  | nil =>
    simp only [adjustEvals, constFor, sub_zero]
    cases lookupEval evals l z <;> simp
  | cons lc lcs ih =>
    simp only [adjustEvals, constFor]
    rw [ih, lookupEval_adjustTerms]
    cases lookupEval evals l z with
    | none => rfl
    | some v =>
      by_cases hl : l = lc.label
      · have hl' : lc.label = l := hl.symm
        simp only [Option.map_some, hl, if_true]; congr 1; ring
      · have hl' : ¬ lc.label = l := fun hx => hl hx.symm
        simp [hl, hl']

/-! ### (D) the verifier combines the commitments the prover combined -/

/-- the verifier-visible part of the prover's accumulators -/
def vproj (a : LCAcc F) : VAcc F := ⟨a.comm, a.shifted, a.bound⟩

theorem lcStep_V (trips : List (Trip F))
    (hc : ∀ t ∈ trips, t.2.2.label = t.1.label ∧ t.2.2.bound = t.1.bound)
    (k : Nat) (acc acc' : LCAcc F) (term : F × LC.LCTerm)
    (h : lcStep trips k acc term = .ok acc') :
    lcStepV (trips.map (·.2.2)) k (vproj acc) term = .ok (vproj acc') := by
  unfold lcStep at h
  unfold lcStepV
  cases ht : term.2 with
  | one =>
    rw [ht] at h
    simp only at h ⊢
    injection h with h; subst h; rfl
  | poly l =>
    rw [ht] at h
    simp only at h ⊢
    rw [lookupLast_map (fun (t : Trip F) => t.1.label) (fun (c : LComm F) => c.label)
      (·.2.2) l trips (fun t ht => (hc t ht).1)]
    cases hl : Marlin.lookupLast (fun (t : Trip F) => t.1.label) l trips with
    | none => rw [hl] at h; cases h
    | some x =>
      rw [hl] at h
      simp only [Option.map_some] at h ⊢
      have hb := (hc x (Marlin.lookupLast_mem _ l trips x hl).1).2
      rw [hb]
      cases hp : policy k x.1.bound term.1 with
      | some e => rw [hp] at h; cases h
      | none =>
        rw [hp] at h
        simp only at h ⊢
        injection h with h
        subst h
        by_cases hk : k = 1 ∧ x.1.bound.isSome = true
        · simp only [hk, and_self, if_true, vproj, LCAcc.add]
        · simp only [hk, if_false, vproj, LCAcc.add]

theorem lcTerms_V (trips : List (Trip F))
    (hc : ∀ t ∈ trips, t.2.2.label = t.1.label ∧ t.2.2.bound = t.1.bound)
    (k : Nat) (terms : List (F × LC.LCTerm)) (acc acc' : LCAcc F)
    (h : lcTerms trips k acc terms = .ok acc') :
    lcTermsV (trips.map (·.2.2)) k (vproj acc) terms = .ok (vproj acc') := by
  induction terms generalizing acc with
  | nil =>
    simp only [lcTerms] at h
    injection h with h; subst h; rfl
  | cons t ts ih =>
    simp only [lcTerms] at h
    split at h
    · cases h
    · rename_i a1 h1
      simp only [lcTermsV, lcStep_V trips hc k acc a1 t h1]
      exact ih a1 h

theorem combineLC_V (trips : List (Trip F))
    (hc : ∀ t ∈ trips, t.2.2.label = t.1.label ∧ t.2.2.bound = t.1.bound)
    (lc : LC.LinComb F) (res : Trip F) (h : combineLC trips lc = .ok res) :
    combineLCComm (trips.map (·.2.2)) lc = .ok res.2.2 := by
  unfold combineLC at h
  split at h
  · cases h
  · rename_i a ha
    injection h with h; subst h
    unfold combineLCComm
    have := lcTerms_V trips hc lc.terms.length lc.terms LCAcc.init a ha
    simp only [vproj, LCAcc.init] at this
    rw [this]

theorem combineAll_V (trips : List (Trip F))
    (hc : ∀ t ∈ trips, t.2.2.label = t.1.label ∧ t.2.2.bound = t.1.bound)
    (lcs : List (LC.LinComb F)) (ts : List (Trip F)) (h : combineAll trips lcs = .ok ts) :
    combineAllComm (trips.map (·.2.2)) lcs = .ok (ts.map (·.2.2)) := by
  induction lcs generalizing ts with
  | nil =>
    simp only [combineAll] at h
    injection h with h; subst h; rfl
  | cons lc lcs ih =>
    simp only [combineAll] at h
    split at h
    · cases h
    · rename_i t ht
      split at h
      · cases h
      · rename_i ts' hts
        injection h with h; subst h
        simp only [combineAllComm, combineLC_V trips hc lc t ht, ih ts' hts, List.map_cons]

/-! ### (E) completeness of combination proofs -/

/-- the polynomial part of the value of the combination labelled `l` (last write wins) -/
def polyPartAt (trips : List (Trip F)) (lcs : List (LC.LinComb F)) (l : Label) (z : List F) : F :=
  match Marlin.lookupLast (fun (lc : LC.LinComb F) => lc.label) l lcs with
  | none => 0
  | some lc => lcPolyValue trips z lc.terms

/-- **the true value** of the combination labelled `l` at `z`: `Σ coeff·p(z)` plus the constants -/
def lcValueAt (trips : List (Trip F)) (lcs : List (LC.LinComb F)) (l : Label) (z : List F) : F :=
  polyPartAt trips lcs l z + constFor lcs l

theorem lookupLast_forall₂ {α β : Type} (R : α → β → Prop) (la : α → Label) (lb : β → Label)
    (hR : ∀ a b, R a b → la a = lb b) (l : Label) (xs : List α) (ys : List β)
    (h : List.Forall₂ R xs ys) (a0 : Option α) (b0 : Option β)
    (h0 : (a0 = none ∧ b0 = none) ∨ ∃ a b, a0 = some a ∧ b0 = some b ∧ R a b) :
    let ra := xs.foldl (fun acc x => if la x = l then some x else acc) a0
    let rb := ys.foldl (fun acc y => if lb y = l then some y else acc) b0
    (ra = none ∧ rb = none) ∨ ∃ a b, ra = some a ∧ rb = some b ∧ R a b := by
  induction h generalizing a0 b0 with
  | nil => exact h0
  | @cons a b xs' ys' hab _ ih =>
    simp only [List.foldl_cons]
    apply ih
    rw [hR a b hab]
    by_cases hl : lb b = l
    · simp only [hl, if_true]
      exact Or.inr ⟨a, b, rfl, rfl, hab⟩
    · simp only [hl, if_false]
      exact h0

theorem forall₂_left {α β : Type} (R : α → β → Prop) (xs : List α) (ys : List β)
    (h : List.Forall₂ R xs ys) : ∀ x ∈ xs, ∃ y ∈ ys, R x y := by
  induction h with
  | nil => intro x hx; cases hx
  | @cons a b xs' ys' hab _ ih =>
    intro x hx
    rcases List.mem_cons.1 hx with rfl | hx
    · exact ⟨b, by simp, hab⟩
    · obtain ⟨y, hy, hr⟩ := ih x hx
      exact ⟨y, by simp [hy], hr⟩

theorem polyValueAt_combined {g γ : F} {β : List F} {nv : Nat} (trips : List (Trip F))
    (lcs : List (LC.LinComb F)) (ts : List (Trip F))
    (hF : List.Forall₂ (fun (t : Trip F) (lc : LC.LinComb F) => HonestT g γ β nv t ∧
      t.1.label = lc.label ∧ ∀ z, evalMV t.1.poly z = lcPolyValue trips z lc.terms) ts lcs)
    (l : Label) (z : List F) : polyValueAt ts l z = polyPartAt trips lcs l z := by
  have := lookupLast_forall₂ _ (fun (t : Trip F) => t.1.label) (fun (lc : LC.LinComb F) => lc.label)
    (fun a b hab => hab.2.1) l ts lcs hF none none (Or.inl ⟨rfl, rfl⟩)
  simp only at this
  unfold polyValueAt polyPartAt Marlin.lookupLast
  rcases this with ⟨h1, h2⟩ | ⟨a, b, h1, h2, hab⟩
  · rw [h1, h2]
  · rw [h1, h2]
    exact hab.2.2 z

theorem zip3_map_comm {α β γ' : Type} (xs : List α) (ys : List β) (zs : List γ')
    (h1 : xs.length = ys.length) (h2 : ys.length = zs.length) :
    (xs.zip (ys.zip zs)).map (·.2.2) = zs := by
  induction xs generalizing ys zs with
  | nil =>
    cases ys with
    | nil => cases zs with
      | nil => rfl
      | cons _ _ => simp at h2
    | cons _ _ => simp at h1
  | cons x xs ih =>
    cases ys with
    | nil => simp at h1
    | cons y ys =>
      cases zs with
      | nil => simp at h2
      | cons z zs =>
        simp only [List.zip_cons_cons, List.map_cons]
        rw [ih ys zs (by simpa using h1) (by simpa using h2)]

section Keys2

/-- **(E) Completeness of combination proofs.**  Polynomials, states and commitments as `commit`
makes them under the key of the trapdoor `β⃗`; any combinations (zero, negative, repeated labels,
constants); any query set over the combination labels; evaluations containing, for every
(combination, point) a group asks for, the true value `Σ coeff·p(z) + constants`: whenever
`open_combinations` answers, `check_combinations` accepts — for every randomizer list. -/
theorem lc_complete (g γ h : F) (β : List F) (ts : List Term) (nv s D m : Nat)
    (polys : List (LPoly F)) (sts : List (Rand F)) (comms : List (LComm F))
    (hl1 : polys.length = sts.length) (hl2 : sts.length = comms.length)
    (hh : ∀ t ∈ polys.zip (sts.zip comms), HonestT g γ β nv t)
    (lcs : List (LC.LinComb F)) (qs : List (Query F)) (evals : Evals F) (ξs rs : List F)
    (πs : List (Proof F)) (rest : List F)
    (hβ : nv ≤ β.length) (hz : ∀ gr ∈ groupQueries qs, nv ≤ gr.2.1.length)
    (hev : ∀ gr ∈ groupQueries qs, ∀ l ∈ gr.2.2,
      lookupEval evals l gr.2.1 = some (lcValueAt (polys.zip (sts.zip comms)) lcs l gr.2.1))
    (ho : openCombinations (wfCK g γ β ts nv s D m) polys sts comms lcs qs ξs = .ok (πs, rest)) :
    checkCombinations (wfVK g γ h β nv s D) comms lcs qs evals πs ξs rs = .ok true := by
  unfold openCombinations at ho
  split at ho
  · cases ho
  · rename_i lts hcomb
    have hF := combineAll_honest _ hh lcs lts hcomb
    have hV := combineAll_V _ (fun t ht => ⟨(hh t ht).clabel, by
      rw [(hh t ht).cbound, (hh t ht).pbound]⟩) lcs lts hcomb
    rw [zip3_map_comm polys sts comms hl1 hl2] at hV
    unfold checkCombinations
    rw [hV]
    simp only
    have hlh : ∀ t ∈ lts, HonestT g γ β nv t := by
      intro t ht
      obtain ⟨lc, _, hR⟩ := forall₂_left _ _ _ hF t ht
      exact hR.1
    exact batch_complete g γ h β ts nv s D m lts hlh (adjustEvals lcs evals) qs ξs rs πs rest hβ hz
      (by
        intro gr hgr l hl
        rw [lookupEval_adjustEvals, hev gr hgr l hl, polyValueAt_combined _ lcs lts hF]
        simp [lcValueAt])
      ho

end Keys2

/-! ### (F) the closed form of the verifier's decision on one combination, and how it moves -/

/-- what one term contributes to the combined commitment -/
def termComm (comms : List (LComm F)) (t : F × LC.LCTerm) : F :=
  match t.2 with
  | .one => 0
  | .poly l =>
    match Marlin.lookupLast (fun (c : LComm F) => c.label) l comms with
    | none => 0
    | some c => t.1 * c.comm.comm

/-- `Σ coeff·C_label` over the polynomial terms: the commitment the verifier forms -/
def lcCommValue (comms : List (LComm F)) : List (F × LC.LCTerm) → F
  | [] => 0
  | t :: ts => termComm comms t + lcCommValue comms ts

/-- every polynomial term names a supplied commitment -/
def AllKnown (comms : List (LComm F)) (terms : List (F × LC.LCTerm)) : Prop :=
  ∀ t ∈ terms, ∀ l, t.2 = .poly l →
    (Marlin.lookupLast (fun (c : LComm F) => c.label) l comms).isSome = true

theorem lcStepV_one (comms : List (LComm F)) (k : Nat) (acc : VAcc F) (a : F) :
    lcStepV comms k acc (a, .one) = .ok acc := rfl

theorem lcStepV_known (comms : List (LComm F)) (k : Nat) (acc : VAcc F) (a : F) (l : Label)
    (c : LComm F) (hl : Marlin.lookupLast (fun (c : LComm F) => c.label) l comms = some c)
    (hb : c.bound = none) (hs : c.comm.shifted = none) :
    lcStepV comms k acc (a, .poly l) = .ok ⟨acc.comm + a * c.comm.comm, acc.shifted, acc.bound⟩ := by
  unfold lcStepV
  simp only [hl, hb, policy_none, Option.isSome_none, Bool.false_eq_true, and_false, if_false,
    addShifted, hs]

theorem lcTermsV_closed (comms : List (LComm F))
    (hcb : ∀ c ∈ comms, c.bound = none ∧ c.comm.shifted = none) (k : Nat)
    (terms : List (F × LC.LCTerm)) (hk : AllKnown comms terms) (acc : VAcc F) :
    lcTermsV comms k acc terms = .ok ⟨acc.comm + lcCommValue comms terms, acc.shifted, acc.bound⟩ := by
  induction terms generalizing acc with
  | nil => simp [lcTermsV, lcCommValue]
  | cons t ts ih =>
    have hk' : AllKnown comms ts := fun u hu => hk u (by simp [hu])
    rcases t with ⟨a, _ | l⟩
    · simp only [lcTermsV, lcStepV_one, lcCommValue, termComm, zero_add]
      exact ih hk' acc
    · have := hk (a, .poly l) (by simp) l rfl
      cases hl : Marlin.lookupLast (fun (c : LComm F) => c.label) l comms with
      | none => rw [hl] at this; simp at this
      | some c =>
        obtain ⟨hb, hs⟩ := hcb c (Marlin.lookupLast_mem _ l comms c hl).1
        simp only [lcTermsV, lcStepV_known comms k acc a l c hl hb hs, lcCommValue, termComm, hl]
        rw [ih hk']
        simp only [Except.ok.injEq, VAcc.mk.injEq, and_true]
        ring

theorem lcCommValue_append (comms : List (LComm F)) (a b : List (F × LC.LCTerm)) :
    lcCommValue comms (a ++ b) = lcCommValue comms a + lcCommValue comms b := by
  induction a with
  | nil => simp [lcCommValue]
  | cons t a ih => simp only [List.cons_append, lcCommValue, ih]; ring

theorem lcConst_append (a b : List (F × LC.LCTerm)) : lcConst (a ++ b) = lcConst a + lcConst b := by
  induction a with
  | nil => simp [lcConst]
  | cons t a ih => simp only [List.cons_append, lcConst, ih]; ring

/-- a coefficient moved by `δ` moves the combined commitment by `δ·C_label`, not the constants -/
theorem coeff_shift (comms : List (LComm F)) (pre post : List (F × LC.LCTerm)) (a δ : F) (l : Label)
    (c : LComm F) (hl : Marlin.lookupLast (fun (c : LComm F) => c.label) l comms = some c) :
    lcCommValue comms (pre ++ (a + δ, .poly l) :: post)
        = lcCommValue comms (pre ++ (a, .poly l) :: post) + δ * c.comm.comm
      ∧ lcConst (pre ++ (a + δ, LC.LCTerm.poly l) :: post) = lcConst (pre ++ (a, .poly l) :: post) := by
  constructor
  · simp only [lcCommValue_append, lcCommValue, termComm, hl]; ring
  · simp only [lcConst_append, lcConst, LC.LCTerm.isOne, Bool.false_eq_true, if_false]

/-- a constant moved by `δ` moves the subtracted constants by `δ`, not the commitment -/
theorem const_shift (comms : List (LComm F)) (pre post : List (F × LC.LCTerm)) (a δ : F) :
    lcCommValue comms (pre ++ (a + δ, .one) :: post) = lcCommValue comms (pre ++ (a, .one) :: post)
      ∧ lcConst (pre ++ (a + δ, LC.LCTerm.one) :: post) = lcConst (pre ++ (a, .one) :: post) + δ := by
  constructor
  · simp only [lcCommValue_append, lcCommValue, termComm]
  · simp only [lcConst_append, lcConst, LC.LCTerm.isOne, if_true]; ring

/-- the defect of one combination claim `(lc, z, v)` under the challenge `ξ` -/
def lcDefect (vk : VK F) (comms : List (LComm F)) (lc : LC.LinComb F) (z : List F) (v : F)
    (π : Proof F) (ξ : F) : F :=
  defectCombined vk (lcCommValue comms lc.terms * ξ) ((v - lcConst lc.terms) * ξ) z π

theorem wsum_one (rs : List F) (d : F) : wsum 1 rs [d] = d := by
  simp [wsum]

/-- **(F) one combination, one query: what `check_combinations` computes.**  For arbitrary
(unbounded) commitments, an arbitrary verifier key and proof of the right shape: the pairing product
is `lcDefect`, i.e. `((Σ coeff·C_label − (v − constants)·g)·ξ − rv·γ)·h − Σᵢ Wᵢ·(βᵢh − zᵢh)`, and the
answer is whether it vanishes. -/
theorem lc_single_closed (vk : VK F) (comms : List (LComm F))
    (hcb : ∀ c ∈ comms, c.bound = none ∧ c.comm.shifted = none) (lc : LC.LinComb F)
    (hk : AllKnown comms lc.terms) (pl : Label) (z : List F) (v : F) (π : Proof F) (ξ : F)
    (ξs rs : List F) (hw : π.w.length = vk.numVars) (hbh : vk.numVars ≤ vk.betaH.length)
    (hz : vk.numVars ≤ z.length) :
    checkCombinationsDefect vk comms [lc] [(lc.label, (pl, z))] [((lc.label, z), v)] [π] (ξ :: ξs) rs
        = .ok (lcDefect vk comms lc z v π ξ)
      ∧ checkCombinations vk comms [lc] [(lc.label, (pl, z))] [((lc.label, z), v)] [π] (ξ :: ξs) rs
        = .ok (decide (lcDefect vk comms lc z v π ξ = 0)) := by
  have hcomb : combineAllComm comms [lc]
      = .ok [⟨lc.label, ⟨lcCommValue comms lc.terms, none⟩, none⟩] := by
    simp only [combineAllComm, combineLCComm, lcTermsV_closed comms hcb _ lc.terms hk, zero_add]
  have hgroups : groupQueries [(lc.label, (pl, z))] = [(pl, (z, [lc.label]))] := by
    simp [groupQueries, groupInsert]
  have hcn : combineAndNormalize [⟨lc.label, ⟨lcCommValue comms lc.terms, none⟩, none⟩]
      (adjustEvals [lc] [((lc.label, z), v)]) [(pl, (z, [lc.label]))] (ξ :: ξs)
      = .ok ([(lcCommValue comms lc.terms * ξ, z, (v - lcConst lc.terms) * ξ)], ξs) := by
    have hlk : lookupEval (adjustEvals [lc] [((lc.label, z), v)]) lc.label z
        = some (v - lcConst lc.terms) := by
      rw [lookupEval_adjustEvals]
      simp [lookupEval, constFor]
    simp only [combineAndNormalize, gatherComms, Marlin.lookupLast, List.foldl_cons, List.foldl_nil,
      if_true, Option.isSome_none, ne_eq, not_true_eq_false, if_false, hlk, accumulateL, zero_add,
      Bool.false_eq_true]
  have hbd : batchDefect vk [lcCommValue comms lc.terms * ξ] [z] [(v - lcConst lc.terms) * ξ] [π] rs
      = .ok (lcDefect vk comms lc z v π ξ) := by
    rw [batchDefect_eq vk _ _ _ _ rs rfl hbh (by intro π' hπ'; simp at hπ'; rw [hπ']; exact hw)
      (by intro z' hz'; simp at hz'; rw [hz']; exact hz)]
    simp only [defectsC, wsum_one, lcDefect]
  constructor
  · unfold checkCombinationsDefect batchDefectQ
    rw [hcomb]
    simp only [hgroups, hcn, List.map_cons, List.map_nil]
    exact hbd
  · unfold checkCombinations batchCheckQ batchCheck
    rw [hcomb]
    simp only [hgroups, hcn, List.map_cons, List.map_nil, hbd]

/-- **how the defect moves**: against the same proof, point and challenge, two statements about a
combination of the same label differ by
`((ΔΣcoeff·C) − g·(Δv − Δconstants))·ξ·h`. -/
theorem lcDefect_shift (vk : VK F) (comms : List (LComm F)) (lc lc' : LC.LinComb F) (z : List F)
    (v v' : F) (π : Proof F) (ξ : F) :
    lcDefect vk comms lc' z v' π ξ = lcDefect vk comms lc z v π ξ
      + ((lcCommValue comms lc'.terms - lcCommValue comms lc.terms)
          - vk.g * ((v' - lcConst lc'.terms) - (v - lcConst lc.terms))) * ξ * vk.h := by
  unfold lcDefect defectCombined
  ring

/-! ### refusals named by the property -/

theorem lcStep_unknown (trips : List (Trip F)) (k : Nat) (acc : LCAcc F) (coeff : F) (l : Label)
    (hl : Marlin.lookupLast (fun (t : Trip F) => t.1.label) l trips = none) :
    lcStep trips k acc (coeff, .poly l) = .error .missingPolynomial := by
  unfold lcStep; simp only [hl]

theorem lcStepV_unknown (comms : List (LComm F)) (k : Nat) (acc : VAcc F) (coeff : F) (l : Label)
    (hl : Marlin.lookupLast (fun (c : LComm F) => c.label) l comms = none) :
    lcStepV comms k acc (coeff, .poly l) = .error .missingPolynomial := by
  unfold lcStepV; simp only [hl]

/-- the verifier meets an unknown label after terms that name supplied (unbounded) commitments -/
theorem lcTermsV_unknown (comms : List (LComm F))
    (hcb : ∀ c ∈ comms, c.bound = none ∧ c.comm.shifted = none) (k : Nat)
    (pre post : List (F × LC.LCTerm)) (hk : AllKnown comms pre) (coeff : F) (l : Label)
    (hl : Marlin.lookupLast (fun (c : LComm F) => c.label) l comms = none) (acc : VAcc F) :
    lcTermsV comms k acc (pre ++ (coeff, .poly l) :: post) = .error .missingPolynomial := by
  induction pre generalizing acc with
  | nil => simp only [List.nil_append, lcTermsV, lcStepV_unknown comms k acc coeff l hl]
  | cons t pre ih =>
    have h1 := lcTermsV_closed comms hcb k [t] (fun u hu => hk u (by
      simp only [List.mem_singleton] at hu; simp [hu])) acc
    simp only [lcTermsV] at h1
    simp only [List.cons_append, lcTermsV]
    split at h1
    · cases h1
    · rename_i a1 ha1
      exact ih (fun u hu => hk u (by simp [hu])) a1

/-- the policy for a polynomial / commitment that carries a degree bound -/
theorem policy_bounded (k b : Nat) (coeff : F) :
    (k ≠ 1 → policy k (some b) coeff = some .equationHasDegreeBounds) ∧
    (k = 1 → coeff ≠ 1 → policy k (some b) coeff = some .abort) ∧
    (k = 1 → coeff = 1 → policy k (some b) coeff = none) := by
  refine ⟨fun hk => ?_, fun hk hc => ?_, fun hk hc => ?_⟩
  · simp [policy, hk]
  · simp [policy, hk, hc]
  · simp [policy, hk, hc]

/-- a query for a combination label that was not supplied: `batch_open` / `batch_check` refuse -/
theorem gatherTrips_unknown (trips : List (Trip F)) (l : Label) (ls : List Label)
    (hl : Marlin.lookupLast (fun (t : Trip F) => t.1.label) l trips = none) :
    gatherTrips trips (l :: ls) = .error .missingPolynomial := by
  simp only [gatherTrips, hl]

theorem gatherComms_unknown (comms : List (LComm F)) (evals : Evals F) (z : List F) (l : Label)
    (ls : List Label) (hl : Marlin.lookupLast (fun (c : LComm F) => c.label) l comms = none) :
    gatherComms comms evals z (l :: ls) = .error .missingPolynomial := by
  simp only [gatherComms, hl]

/-- a supplied (unbounded) commitment without its evaluation -/
theorem gatherComms_missing_eval (comms : List (LComm F)) (evals : Evals F) (z : List F) (l : Label)
    (ls : List Label) (c : LComm F)
    (hl : Marlin.lookupLast (fun (c : LComm F) => c.label) l comms = some c)
    (hb : c.bound = none ∧ c.comm.shifted = none) (he : lookupEval evals l z = none) :
    gatherComms comms evals z (l :: ls) = .error .missingEvaluation := by
  simp only [gatherComms, hl, hb.1, hb.2, he, Option.isSome_none, ne_eq, not_true_eq_false, if_false]

/-! ### the stated value of a combination -/

/-- `LinearCombination`'s own value under "label ↦ evaluation of that polynomial at `z`" is the
polynomial part plus the constants -/
theorem lc_value_split (trips : List (Trip F)) (z : List F) (terms : List (F × LC.LCTerm)) :
    LC.termsValue (fun l => polyValueAt trips l z) terms = lcPolyValue trips z terms + lcConst terms := by
  induction terms with
  | nil => simp [LC.termsValue, lcPolyValue, lcConst]
  | cons t ts ih =>
    simp only [LC.termsValue, lcPolyValue, lcConst, ih]
    rcases t with ⟨a, _ | l⟩
    · simp only [LC.termVal, termPolyValue, LC.LCTerm.isOne, if_true]; ring
    · simp only [LC.termVal, termPolyValue, polyValueAt, LC.LCTerm.isOne, Bool.false_eq_true, if_false]
      cases Marlin.lookupLast (fun (t : Trip F) => t.1.label) l trips <;> simp <;> ring

theorem constFor_not_mem (lcs : List (LC.LinComb F)) (l : Label) (h : l ∉ lcs.map (·.label)) :
    constFor lcs l = 0 := by
  induction lcs with
  | nil => rfl
  | cons lc lcs ih =>
    simp only [List.map_cons, List.mem_cons, not_or] at h
    simp only [constFor, ih h.2]
    rw [if_neg (fun hx => h.1 hx.symm)]
    ring

theorem lookupLast_not_mem (lcs : List (LC.LinComb F)) (l : Label) (h : l ∉ lcs.map (·.label))
    (acc : Option (LC.LinComb F)) :
    lcs.foldl (fun acc x => if x.label = l then some x else acc) acc = acc := by
  induction lcs generalizing acc with
  | nil => rfl
  | cons lc lcs ih =>
    simp only [List.map_cons, List.mem_cons, not_or] at h
    simp only [List.foldl_cons]
    rw [if_neg (fun hx => h.1 hx.symm)]
    exact ih h.2 acc

/-- with pairwise distinct combination labels, the value `check_combinations` must be given for
the combination `lc` is `LinearCombination`'s value of `lc` -/
theorem lcValueAt_unique (trips : List (Trip F)) (lcs : List (LC.LinComb F))
    (hnd : (lcs.map (·.label)).Nodup) (lc : LC.LinComb F) (hmem : lc ∈ lcs) (z : List F) :
    lcValueAt trips lcs lc.label z = LC.value lc (fun l => polyValueAt trips l z) := by
  have key : ∀ (acc : Option (LC.LinComb F)),
      lcs.foldl (fun acc x => if x.label = lc.label then some x else acc) acc = some lc
        ∧ constFor lcs lc.label = lcConst lc.terms := by
    induction lcs with
    | nil => cases hmem
    | cons x lcs ih =>
      intro acc
      simp only [List.map_cons, List.nodup_cons] at hnd
      rcases List.mem_cons.1 hmem with rfl | hm
      · simp only [List.foldl_cons, if_true, constFor]
        rw [lookupLast_not_mem lcs _ hnd.1, constFor_not_mem lcs _ hnd.1]
        exact ⟨rfl, by ring⟩
      · have hne : ¬ x.label = lc.label := by
          intro hx
          apply hnd.1
          rw [hx]
          exact List.mem_map.2 ⟨lc, hm, rfl⟩
        simp only [List.foldl_cons, hne, if_false, constFor]
        obtain ⟨h1, h2⟩ := ih hnd.2 hm acc
        exact ⟨h1, by rw [h2]; ring⟩
  obtain ⟨h1, h2⟩ := key none
  unfold lcValueAt polyPartAt Marlin.lookupLast LC.value
  rw [h1, h2, lc_value_split]

/-! ### the batch defect is affine in the per-point combined claims -/

/-- the per-point shifts `(dCₖ − g·dVₖ)·h` (zip-truncated like the code) -/
def claimShifts (vk : VK F) : List F → List F → List F
  | dc :: dcs, dv :: dvs => (dc - vk.g * dv) * vk.h :: claimShifts vk dcs dvs
  | _, _ => []

theorem wsum_add (r : F) (rs ds es : List F) (hl : ds.length = es.length) :
    wsum r rs (List.zipWith (· + ·) ds es) = wsum r rs ds + wsum r rs es := by
  induction ds generalizing r rs es with
  | nil =>
    cases es with
    | nil => simp [wsum]
    | cons _ _ => simp at hl
  | cons d ds ih =>
    cases es with
    | nil => simp at hl
    | cons e es =>
      simp only [List.zipWith_cons_cons, wsum, ih _ _ es (by simpa using hl)]
      ring

theorem defectsC_shift (vk : VK F) (cs dcs : List F) (zs : List (List F)) (vs dvs : List F)
    (πs : List (Proof F)) (h1 : dcs.length = cs.length) (h2 : dvs.length = vs.length)
    (h3 : cs.length = vs.length) (h4 : zs.length = cs.length) (h5 : πs.length = cs.length) :
    defectsC vk (List.zipWith (· + ·) cs dcs) zs (List.zipWith (· + ·) vs dvs) πs
      = List.zipWith (· + ·) (defectsC vk cs zs vs πs) (claimShifts vk dcs dvs)
    ∧ (defectsC vk cs zs vs πs).length = (claimShifts vk dcs dvs).length := by
  induction cs generalizing dcs zs vs dvs πs with
  | nil =>
    cases dcs with
    | nil => simp [defectsC, claimShifts]
    | cons _ _ => simp at h1
  | cons c cs ih =>
    cases dcs with
    | nil => simp at h1
    | cons dc dcs =>
      cases vs with
      | nil => simp at h3
      | cons v vs =>
        cases dvs with
        | nil => simp at h2
        | cons dv dvs =>
          cases zs with
          | nil => simp at h4
          | cons z zs =>
            cases πs with
            | nil => simp at h5
            | cons π πs =>
              obtain ⟨i1, i2⟩ := ih dcs zs vs dvs πs (by simpa using h1) (by simpa using h2)
                (by simpa using h3) (by simpa using h4) (by simpa using h5)
              simp only [List.zipWith_cons_cons, defectsC, claimShifts, defectCombined_shift, i1,
                List.length_cons, i2, and_self]

/-- **Every per-point combined claim enters the batch decision with its randomizer**: moving the
combined commitments / values by `(dcs, dvs)` moves the pairing product of `batch_check` by
`Σₖ ρₖ·(dCₖ − g·dVₖ)·h`. -/
theorem batchDefect_shift (vk : VK F) (cs dcs : List F) (zs : List (List F)) (vs dvs : List F)
    (πs : List (Proof F)) (rs : List F) (h1 : dcs.length = cs.length) (h2 : dvs.length = vs.length)
    (h3 : cs.length = vs.length) (h4 : zs.length = cs.length) (h5 : πs.length = cs.length)
    (hbh : vk.numVars ≤ vk.betaH.length) (hπ : ∀ π ∈ πs, π.w.length = vk.numVars)
    (hz : ∀ z ∈ zs, vk.numVars ≤ z.length) :
    batchDefect vk (List.zipWith (· + ·) cs dcs) zs (List.zipWith (· + ·) vs dvs) πs rs
      = .ok (wsum 1 rs (defectsC vk cs zs vs πs) + wsum 1 rs (claimShifts vk dcs dvs))
    ∧ batchDefect vk cs zs vs πs rs = .ok (wsum 1 rs (defectsC vk cs zs vs πs)) := by
  obtain ⟨e1, e2⟩ := defectsC_shift vk cs dcs zs vs dvs πs h1 h2 h3 h4 h5
  refine ⟨?_, batchDefect_eq vk cs zs vs πs rs (by omega) hbh hπ hz⟩
  rw [batchDefect_eq vk _ zs _ πs rs (by omega) hbh hπ hz, e1, wsum_add _ _ _ _ e2]

end PST
end PCV
