/-
  PCV.Proofs.PST13LC — MarlinPST13 `open_combinations` / `check_combinations`:
  (A) a combination of honestly committed polynomials is an honestly committed polynomial;
  (B) batch completeness from the query set (`batch_open` / `batch_check`);
  (C) the constants a verifier subtracts; (D) the verifier combines the same commitments;
  (E) completeness of combination proofs; (F) the closed form of the verifier's decision.
-/
import PCV.Model.PST13LC
import PCV.Proofs.PST13
import PCV.Proofs.MarlinLC
set_option linter.unusedSectionVars false
set_option linter.unusedVariables false

namespace PCV
namespace PST
open MV
variable {F : Type} [Field F] [DecidableEq F]

/-! ### list lookups -/

theorem lookupLast_foldl_map {α β : Type} (la : α → Label) (lb : β → Label) (f : α → β)
    (l : Label) (xs : List α) (acc : Option α) (h : ∀ x ∈ xs, lb (f x) = la x) :
    (xs.map f).foldl (fun acc y => if lb y = l then some y else acc) (acc.map f)
      = (xs.foldl (fun acc x => if la x = l then some x else acc) acc).map f := by
  induction xs generalizing acc with
  | nil => rfl
  | cons x xs ih =>
    simp only [List.map_cons, List.foldl_cons]
    rw [h x (by simp)]
    have := ih (if la x = l then some x else acc) (fun y hy => h y (by simp [hy]))
    rw [← this]
    by_cases hx : la x = l <;> simp [hx]

/-- looking a label up in a mapped list (labels preserved) -/
theorem lookupLast_map {α β : Type} (la : α → Label) (lb : β → Label) (f : α → β)
    (l : Label) (xs : List α) (h : ∀ x ∈ xs, lb (f x) = la x) :
    Marlin.lookupLast lb l (xs.map f) = (Marlin.lookupLast la l xs).map f := by
  unfold Marlin.lookupLast
  exact lookupLast_foldl_map la lb f l xs none h

theorem varsBelow_mono {a b : Nat} (hab : a ≤ b) {t : Term} (h : Term.varsBelow a t = true) :
    Term.varsBelow b t = true := by
  rw [varsBelow_iff] at h ⊢
  exact fun q hq => Nat.lt_of_lt_of_le (h q hq) hab

theorem foldl_max_ge (l : List Nat) (a : Nat) : a ≤ l.foldl max a := by
  induction l generalizing a with
  | nil => exact Nat.le_refl _
  | cons x l ih => exact Nat.le_trans (Nat.le_max_left a x) (ih (max a x))

theorem foldl_max_mem (l : List Nat) (a : Nat) : ∀ x ∈ l, x ≤ l.foldl max a := by
  induction l generalizing a with
  | nil => intro x hx; cases hx
  | cons y l ih =>
    intro x hx
    rcases List.mem_cons.1 hx with rfl | hx
    · exact Nat.le_trans (Nat.le_max_right a x) (foldl_max_ge l (max a x))
    · exact ih (max a y) x hx

theorem foldl_max_le (l : List Nat) (a n : Nat) (ha : a ≤ n) (h : ∀ x ∈ l, x ≤ n) :
    l.foldl max a ≤ n := by
  induction l generalizing a with
  | nil => exact ha
  | cons y l ih =>
    exact ih (max a y) (Nat.max_le.2 ⟨ha, h y (by simp)⟩) (fun x hx => h x (by simp [hx]))

theorem le_maxNv (l : List Nat) : ∀ x ∈ l, x ≤ maxNv l := foldl_max_mem l 0
theorem maxNv_le (l : List Nat) (n : Nat) (h : ∀ x ∈ l, x ≤ n) : maxNv l ≤ n :=
  foldl_max_le l 0 n (Nat.zero_le _) h

/-! ### honest triples -/

/-- a (polynomial, state, commitment) triple as `commit` makes it under the key of the trapdoor
`β⃗` over `nv` variables: the commitment is `g·p(β⃗) + γ·r(β⃗)` without shifted part or bound, the
labels agree, the polynomial is a library-built polynomial over `≤ nv` declared variables, the
blinding polynomial has the shape `Randomness::rand` produces. -/
structure HonestT (g γ : F) (β : List F) (nv : Nat) (t : Trip F) : Prop where
  comm : t.2.2.comm.comm = g * evalMV t.1.poly β + γ * evalMV t.2.1.blind β
  shifted : t.2.2.comm.shifted = none
  cbound : t.2.2.bound = none
  pbound : t.1.bound = none
  clabel : t.2.2.label = t.1.label
  pwf : ∀ u ∈ termsOf t.1.poly, Term.wf u = true
  pvars : ∀ u ∈ termsOf t.1.poly, Term.varsBelow t.1.nv u = true
  pnv : t.1.nv ≤ nv
  rwf : ∀ u ∈ termsOf t.2.1.blind, Term.wf u = true
  rvars : ∀ u ∈ termsOf t.2.1.blind, Term.varsBelow t.2.1.nv u = true
  rnv : t.2.1.nv ≤ nv
  runi : ∀ u ∈ termsOf t.2.1.blind, isUni u = true

/-! ### (A) the prover's combination loop -/

/-- what one term contributes to the value of the combined polynomial at `z` -/
def termPolyValue (trips : List (Trip F)) (z : List F) (t : F × LC.LCTerm) : F :=
  match t.2 with
  | .one => 0
  | .poly l =>
    match Marlin.lookupLast (fun (t : Trip F) => t.1.label) l trips with
    | none => 0
    | some x => t.1 * evalMV x.1.poly z

/-- the polynomial part `Σ coeff·p_label(z)` of a combination's value -/
def lcPolyValue (trips : List (Trip F)) (z : List F) : List (F × LC.LCTerm) → F
  | [] => 0
  | t :: ts => termPolyValue trips z t + lcPolyValue trips z ts

/-- the invariant of the loop on honest, unbounded inputs -/
structure LCInv (g γ : F) (β : List F) (nv : Nat) (a : LCAcc F) : Prop where
  bound : a.bound = none
  shifted : a.shifted = none
  comm : a.comm = g * evalMV a.poly β + γ * evalMV a.rand.blind β
  pwf : ∀ u ∈ termsOf a.poly, Term.wf u = true
  pvars : ∀ u ∈ termsOf a.poly, Term.varsBelow a.nv u = true
  pnv : a.nv ≤ nv
  rwf : ∀ u ∈ termsOf a.rand.blind, Term.wf u = true
  rvars : ∀ u ∈ termsOf a.rand.blind, Term.varsBelow a.rand.nv u = true
  rnv : a.rand.nv ≤ nv
  runi : ∀ u ∈ termsOf a.rand.blind, isUni u = true

theorem policy_none (k : Nat) (c : F) : policy k (none : Option Nat) c = none := by
  simp [policy]

theorem lcStep_inv {g γ : F} {β : List F} {nv : Nat} (trips : List (Trip F))
    (hh : ∀ t ∈ trips, HonestT g γ β nv t) (k : Nat) (acc acc' : LCAcc F)
    (term : F × LC.LCTerm) (hi : LCInv g γ β nv acc) (hs : lcStep trips k acc term = .ok acc')
    (z : List F) :
    LCInv g γ β nv acc' ∧ evalMV acc'.poly z = evalMV acc.poly z + termPolyValue trips z term := by
  unfold lcStep at hs
  cases ht : term.2 with
  | one =>
    rw [ht] at hs
    simp only at hs
    injection hs with hs; subst hs
    exact ⟨hi, by simp [termPolyValue, ht]⟩
  | poly l =>
    rw [ht] at hs
    simp only at hs
    cases hl : Marlin.lookupLast (fun (t : Trip F) => t.1.label) l trips with
    | none => rw [hl] at hs; cases hs
    | some x =>
      rw [hl] at hs
      simp only at hs
      obtain ⟨hmem, _⟩ := Marlin.lookupLast_mem _ l trips x hl
      have hx := hh x hmem
      rw [hx.pbound, policy_none] at hs
      simp only [Option.isSome_none, Bool.false_eq_true, and_false, if_false] at hs
      injection hs with hs
      subst hs
      refine ⟨⟨?_, ?_, ?_, ?_, ?_, ?_, ?_, ?_, ?_, ?_⟩, ?_⟩
      · exact hi.bound
      · simp only [LCAcc.add, addShifted, hx.shifted]; exact hi.shifted
      · simp only [LCAcc.add, Rand.addScaled]
        rw [evalMV_addScaledMV _ _ _ _ hi.pwf hx.pwf, evalMV_addScaledMV _ _ _ _ hi.rwf hx.rwf,
          hi.comm, hx.comm]
        ring
      · intro u hu
        simp only [LCAcc.add] at hu
        rcases mem_addScaledMV_term _ _ _ u hu with hu | hu
        · exact hi.pwf u hu
        · exact hx.pwf u hu
      · intro u hu
        simp only [LCAcc.add] at hu ⊢
        rcases mem_addScaledMV_term _ _ _ u hu with hu | hu
        · exact varsBelow_mono (Nat.le_max_left _ _) (hi.pvars u hu)
        · exact varsBelow_mono (Nat.le_max_right _ _) (hx.pvars u hu)
      · simp only [LCAcc.add]; exact Nat.max_le.2 ⟨hi.pnv, hx.pnv⟩
      · intro u hu
        simp only [LCAcc.add, Rand.addScaled] at hu
        rcases mem_addScaledMV_term _ _ _ u hu with hu | hu
        · exact hi.rwf u hu
        · exact hx.rwf u hu
      · intro u hu
        simp only [LCAcc.add, Rand.addScaled] at hu ⊢
        rcases mem_addScaledMV_term _ _ _ u hu with hu | hu
        · exact varsBelow_mono (Nat.le_max_left _ _) (hi.rvars u hu)
        · exact varsBelow_mono (Nat.le_max_right _ _) (hx.rvars u hu)
      · simp only [LCAcc.add, Rand.addScaled]; exact Nat.max_le.2 ⟨hi.rnv, hx.rnv⟩
      · intro u hu
        simp only [LCAcc.add, Rand.addScaled] at hu
        rcases mem_addScaledMV_term _ _ _ u hu with hu | hu
        · exact hi.runi u hu
        · exact hx.runi u hu
      · simp only [LCAcc.add, termPolyValue, ht, hl]
        rw [evalMV_addScaledMV _ _ _ _ hi.pwf hx.pwf]

theorem lcTerms_inv {g γ : F} {β : List F} {nv : Nat} (trips : List (Trip F))
    (hh : ∀ t ∈ trips, HonestT g γ β nv t) (k : Nat) (terms : List (F × LC.LCTerm))
    (acc acc' : LCAcc F) (hi : LCInv g γ β nv acc) (hs : lcTerms trips k acc terms = .ok acc')
    (z : List F) :
    LCInv g γ β nv acc' ∧ evalMV acc'.poly z = evalMV acc.poly z + lcPolyValue trips z terms := by
  induction terms generalizing acc with
  | nil =>
    simp only [lcTerms] at hs
    injection hs with hs; subst hs
    exact ⟨hi, by simp [lcPolyValue]⟩
  | cons t ts ih =>
    simp only [lcTerms] at hs
    split at hs
    · cases hs
    · rename_i acc1 h1
      obtain ⟨hi1, hv1⟩ := lcStep_inv trips hh k acc acc1 t hi h1 z
      obtain ⟨hi2, hv2⟩ := ih acc1 hi1 hs
      refine ⟨hi2, ?_⟩
      rw [hv2, hv1]
      simp only [lcPolyValue]; ring

theorem LCInv_init (g γ : F) (β : List F) (nv : Nat) : LCInv g γ β nv (LCAcc.init : LCAcc F) := by
  refine ⟨rfl, rfl, by simp [LCAcc.init], ?_, ?_, Nat.zero_le _, ?_, ?_, Nat.zero_le _, ?_⟩ <;>
    intro u hu <;> simp [LCAcc.init, termsOf] at hu

/-- **(A)** A combination of honest triples is an honest triple carrying the combination's label,
and its polynomial evaluates everywhere to the combination of the evaluations. -/
theorem combineLC_honest {g γ : F} {β : List F} {nv : Nat} (trips : List (Trip F))
    (hh : ∀ t ∈ trips, HonestT g γ β nv t) (lc : LC.LinComb F) (res : Trip F)
    (hc : combineLC trips lc = .ok res) :
    HonestT g γ β nv res ∧ res.1.label = lc.label ∧
      ∀ z, evalMV res.1.poly z = lcPolyValue trips z lc.terms := by
  unfold combineLC at hc
  split at hc
  · cases hc
  · rename_i a ha
    injection hc with hc; subst hc
    have hinv := fun z => lcTerms_inv trips hh lc.terms.length lc.terms _ a (LCInv_init g γ β nv) ha z
    obtain ⟨i, _⟩ := hinv []
    refine ⟨⟨i.comm, i.shifted, i.bound, i.bound, rfl, i.pwf, i.pvars, i.pnv, i.rwf, i.rvars,
      i.rnv, i.runi⟩, rfl, ?_⟩
    intro z
    have := (hinv z).2
    simpa [LCAcc.init] using this

theorem combineAll_honest {g γ : F} {β : List F} {nv : Nat} (trips : List (Trip F))
    (hh : ∀ t ∈ trips, HonestT g γ β nv t) (lcs : List (LC.LinComb F)) (ts : List (Trip F))
    (hc : combineAll trips lcs = .ok ts) :
    List.Forall₂ (fun (t : Trip F) (lc : LC.LinComb F) => HonestT g γ β nv t ∧ t.1.label = lc.label ∧
      ∀ z, evalMV t.1.poly z = lcPolyValue trips z lc.terms) ts lcs := by
  induction lcs generalizing ts with
  | nil =>
    simp only [combineAll] at hc
    injection hc with hc; subst hc
    exact List.Forall₂.nil
  | cons lc lcs ih =>
    simp only [combineAll] at hc
    split at hc
    · cases hc
    · rename_i t ht
      split at hc
      · cases hc
      · rename_i ts' hts
        injection hc with hc; subst hc
        exact List.Forall₂.cons (combineLC_honest trips hh lc t ht) (ih ts' hts)

end PST
end PCV
