/-
  PCV.Proofs.MarlinMore — honest commitments satisfy `Honest`; the verifier's decision is affine in the
  claimed values with explicit weights; mislabelled degree bounds; admission refusals.
-/
import PCV.Proofs.MarlinTrim
set_option linter.unusedSectionVars false

namespace PCV
namespace Marlin
variable {F : Type} [Field F] [DecidableEq F]

/-- **Commitments made by `commit` are the honest ones** (what `open_check_complete` assumes). -/
theorem commitOne_honest {ck : CK F} {vk : VK F} {g γ β h : F} {D n m : Nat}
    (hwf : WF ck vk g γ β h D n m) (p : LPoly F) (rng : Bool) (draws : List F)
    (c : Comm F) (r : Rand F) (rest : List F)
    (hc : commitOne ck p rng draws = .ok (c, r, rest)) :
    Honest g γ β D (p, r, ⟨p.label, c, p.bound⟩) ∧ RandLen m (p, r, ⟨p.label, c, p.bound⟩) := by
  unfold commitOne at hc
  split at hc
  · cases hc
  · rename_i hdb
    split at hc
    · cases hc
    · split at hc
      · cases hc
      · rename_i c0 r0 d' hk
        have hpw : (⟨ck.powers, ck.gammaPowers⟩ : KZG.Powers F) = KZG.wfPowers g γ β n m := by
          unfold KZG.wfPowers; rw [hwf.hpowers, hwf.hgamma]
        rw [hpw] at hk
        obtain ⟨hc0, _, hr0, _⟩ := KZG.commit_spec g γ β n m p.poly p.hb true draws c0 r0 d' hk
        cases hbd : p.bound with
        | none =>
          rw [hbd] at hc
          simp only at hc
          injection hc with hc; injection hc with h1 h2; injection h2 with h2 _
          subst h1; subst h2
          refine ⟨⟨by simp [hbd], hc0, by simp [hbd], by simp [hbd], ?_⟩, hr0, ?_⟩
          · intro d rs s hd; simp [hbd] at hd
          · intro rs hrs; simp at hrs
        | some b =>
          rw [hbd] at hc hdb
          simp only at hc
          obtain ⟨bs, hbse, hmem, hbD, _⟩ := checkDB_mem _ _ _ _ hdb
          have hne : bs ≠ [] := by intro e; rw [e] at hmem; simp at hmem
          obtain ⟨hsp, hle, hBD⟩ := hwf.shifted bs hbse hne
          have hsf : shiftedPowersFor ck b
              = some (KZG.wfPowers (g * fpow β (D - b)) γ β (b + 1) m) := by
            unfold shiftedPowersFor KZG.wfPowers
            rw [hsp, hbse]
            simp only
            congr 2
            · rw [powers_drop]
              have hb := hle b hmem
              have e1 : bs.getLastD 0 + 1 - (bs.getLastD 0 - b) = b + 1 := by omega
              rw [e1, mul_assoc, ← fpow_add]
              congr 3; omega
            · exact hwf.hgamma
          rw [hsf] at hc
          simp only at hc
          split at hc
          · cases hc
          · rename_i s rs d'' hk2
            injection hc with hc; injection hc with h1 h2; injection h2 with h2 _
            subst h1; subst h2
            obtain ⟨hs, _, hrs, _⟩ :=
              KZG.commit_spec (g * fpow β (D - b)) γ β (b + 1) m p.poly p.hb true d' s rs d'' hk2
            refine ⟨⟨by simp [hbd], hc0, by simp [hbd], by simp [hbd], ?_⟩, hr0, ?_⟩
            · intro d rs' s' hd hrs' hs'
              simp only [hbd, Option.some.injEq] at hd
              simp only [Option.some.injEq] at hrs' hs'
              subst hd; subst hrs'; subst hs'
              exact hs
            · intro rs' hrs'
              simp only [Option.some.injEq] at hrs'
              subst hrs'; exact hrs

/-! ### the decision is affine in the claimed values -/

/-- per-position weight of a claimed value in the verifier's equation: `ξⱼ·g + ξ′ⱼ·shift(dⱼ)` -/
def kappa (vk : VK F) : List (LComm F) → List F → List F
  | c :: cs, ξ :: ξs' =>
    match c.bound, c.comm.shifted with
    | some b, some _ =>
      match ξs' with
      | [] => []
      | ξ' :: ξs'' => (ξ * vk.vk.g + ξ' * (vk.shiftPower b).getD 0) :: kappa vk cs ξs''
    | _, _ => (ξ * vk.vk.g) :: kappa vk cs ξs'
  | _, _ => []

/-- Perturbing the claimed values by `ds` changes `Ĉ − v̂·g` by `−⟨κ, ds⟩` and leaves the consumed
challenges unchanged. -/
theorem accumulate_perturb (vk : VK F) (cs : List (LComm F)) (vs ds ξs : List F)
    (hlen : ds.length = vs.length) (C V : F) (rest : List F)
    (ha : accumulate vk cs vs ξs = .ok ((C, V), rest)) :
    ∃ C' V', accumulate vk cs (List.zipWith (· + ·) vs ds) ξs = .ok ((C', V'), rest) ∧
      (C' - V' * vk.vk.g) = (C - V * vk.vk.g) - dot (kappa vk cs ξs) ds := by
  induction cs generalizing vs ds ξs C V rest with
  | nil =>
    simp only [accumulate] at ha ⊢
    injection ha with ha; injection ha with h1 h2; injection h1 with h1 h3
    subst h1; subst h3; subst h2
    exact ⟨0, 0, rfl, by simp [kappa]⟩
  | cons c cs ih =>
    cases vs with
    | nil =>
      have : ds = [] := List.eq_nil_of_length_eq_zero (by simpa using hlen)
      subst this
      simp only [accumulate] at ha ⊢
      injection ha with ha; injection ha with h1 h2; injection h1 with h1 h3
      subst h1; subst h3; subst h2
      refine ⟨0, 0, rfl, ?_⟩
      simp
    | cons v vs =>
      cases ds with
      | nil => simp at hlen
      | cons d ds =>
        have hlen' : ds.length = vs.length := by simpa using hlen
        simp only [List.zipWith_cons_cons, accumulate] at ha ⊢
        split at ha
        · cases ha
        · rename_i hassert
          rw [if_neg hassert]
          cases ξs with
          | nil => cases ha
          | cons ξ ξs' =>
            simp only at ha ⊢
            split at ha
            · rename_i b s hb hs
              cases ξs' with
              | nil => cases ha
              | cons ξ' ξs'' =>
                simp only at ha ⊢
                split at ha
                · cases ha
                · rename_i sp hsp
                  split at ha
                  · cases ha
                  · rename_i C0 V0 rest0 hrec
                    injection ha with ha; injection ha with h1 h2; injection h1 with h1 h3
                    subst h1; subst h3
                    obtain ⟨C', V', hr, he⟩ := ih vs ds ξs'' hlen' C0 V0 rest0 hrec
                    rw [hr]
                    refine ⟨_, _, by rw [h2], ?_⟩
                    simp only [kappa, hb, hs, hsp, Option.getD_some, dot_cons]
                    linear_combination he
            · rename_i hnot
              split at ha
              · cases ha
              · rename_i C0 V0 rest0 hrec
                injection ha with ha; injection ha with h1 h2; injection h1 with h1 h3
                subst h1; subst h3
                obtain ⟨C', V', hr, he⟩ := ih vs ds ξs' hlen' C0 V0 rest0 hrec
                rw [hr]
                refine ⟨_, _, by rw [h2], ?_⟩
                have hk : kappa vk (c :: cs) (ξ :: ξs') = (ξ * vk.vk.g) :: kappa vk cs ξs' := by
                  simp only [kappa]
                rw [hk]
                simp only [dot_cons]
                linear_combination he

/-- **C02/C05 (Marlin).** If the verifier accepts `(cs, z, vs, π)` then with the values perturbed
by `ds` it accepts iff `h·⟨κ, ds⟩ = 0` — in particular a single wrong value `δ` at position `j` is
rejected when `h·κⱼ·δ ≠ 0`, and errors that cancel (`Σδ = 0`) are rejected unless they also cancel
against the challenge weights. -/
theorem check_perturbed_iff (vk : VK F) (cs : List (LComm F)) (z : F) (vs ds ξs : List F)
    (π : KZG.Proof F) (rest : List F) (hlen : ds.length = vs.length)
    (hacc : check vk cs z vs π ξs = .ok (true, rest)) :
    check vk cs z (List.zipWith (· + ·) vs ds) π ξs = .ok (true, rest)
      ↔ vk.vk.h * dot (kappa vk cs ξs) ds = 0 := by
  unfold check at hacc ⊢
  split at hacc
  · cases hacc
  · rename_i C V rest0 ha
    injection hacc with hacc; injection hacc with h1 h2
    obtain ⟨C', V', hr, he⟩ := accumulate_perturb vk cs vs ds ξs hlen C V rest0 ha
    rw [h2] at hr
    rw [hr]
    simp only
    rw [KZG.check_iff_defect] at h1
    constructor
    · intro hx
      injection hx with hx; injection hx with hx _
      rw [KZG.check_iff_defect] at hx
      unfold KZG.defect at h1 hx
      linear_combination h1 - hx + vk.vk.h * he
    · intro hx
      have : KZG.check vk.vk C' z V' π = true := by
        rw [KZG.check_iff_defect]
        unfold KZG.defect at h1 ⊢
        linear_combination h1 - hx + vk.vk.h * he
      rw [this]

/-! ### a commitment presented under another degree bound (C04) -/

/-- One degree-bounded commitment `(c, s)` accepted under the label `d′` is, under the label `d`,
accepted iff `h·ξ′·v·(shift(d′) − shift(d)) = 0`; with well-formed keys
`shift(d′) − shift(d) = g·(β^(D−d′) − β^(D−d))`. -/
theorem mislabel_iff (vk : VK F) (l : Label) (c s z v ξ ξ' : F) (ξs : List F) (π : KZG.Proof F)
    (d d' : Nat) (sp sp' : F) (hsp : vk.shiftPower d = some sp) (hsp' : vk.shiftPower d' = some sp')
    (hacc : check vk [⟨l, ⟨c, some s⟩, some d'⟩] z [v] π (ξ :: ξ' :: ξs) = .ok (true, ξs)) :
    check vk [⟨l, ⟨c, some s⟩, some d⟩] z [v] π (ξ :: ξ' :: ξs) = .ok (true, ξs)
      ↔ vk.vk.h * (ξ' * v * (sp' - sp)) = 0 := by
  unfold check at hacc ⊢
  simp only [accumulate, hsp, hsp'] at hacc ⊢
  simp only [Option.isSome_some, ne_eq, not_true_eq_false, if_false] at hacc ⊢
  injection hacc with hacc; injection hacc with h1 _
  rw [KZG.check_iff_defect] at h1
  constructor
  · intro hx
    injection hx with hx; injection hx with hx _
    rw [KZG.check_iff_defect] at hx
    unfold KZG.defect at h1 hx
    linear_combination hx - h1
  · intro hx
    have : KZG.check vk.vk (ξ * c + ξ' * (s - v * sp) + 0) z (ξ * v + 0) π = true := by
      rw [KZG.check_iff_defect]
      unfold KZG.defect at h1 ⊢
      linear_combination h1 + hx
    rw [this]

/-! ### admission (C04 a) -/

theorem checkDB_error_of_bad (maxDegree : Nat) (bounds : Option (List Nat)) (p : List F) (b : Nat)
    (hbad : bounds = none ∨ (∃ bs, bounds = some bs ∧ b ∉ bs) ∨ b < pdeg p ∨ b > maxDegree) :
    ∃ e, checkDegreesAndBounds maxDegree bounds p (some b) = .error e := by
  unfold checkDegreesAndBounds
  cases hbs : bounds with
  | none => exact ⟨_, rfl⟩
  | some bs =>
    simp only
    by_cases hc : bs.contains b = true
    · rw [if_neg (by simpa using hc)]
      rcases hbad with h | ⟨bs', h1, h2⟩ | h | h
      · rw [hbs] at h; cases h
      · rw [hbs] at h1; injection h1 with h1; subst h1
        exact absurd (by simpa using hc) h2
      · rw [if_pos (Or.inl h)]; exact ⟨_, rfl⟩
      · rw [if_pos (Or.inr h)]; exact ⟨_, rfl⟩
    · rw [if_pos (by simpa using hc)]; exact ⟨_, rfl⟩

/-- a declared bound that the key does not enforce, that is below the degree, or above the maximum
degree is refused by the committer -/
theorem commitOne_refuses_bound (ck : CK F) (p : LPoly F) (rng : Bool) (draws : List F) (b : Nat)
    (hb : p.bound = some b)
    (hbad : ck.bounds = none ∨ (∃ bs, ck.bounds = some bs ∧ b ∉ bs) ∨ b < pdeg p.poly ∨
      b > ck.maxDegree) :
    ∃ e, commitOne ck p rng draws = .error e := by
  obtain ⟨e, he⟩ := checkDB_error_of_bad ck.maxDegree ck.bounds p.poly b hbad
  unfold commitOne
  rw [hb, he]
  exact ⟨e, rfl⟩

/-- the prover refuses the same requests -/
theorem openLoop_refuses_bound (ck : CK F) (z : F) (p : LPoly F) (ps : List (LPoly F))
    (st : Rand F) (sts : List (Rand F)) (ξs : List F) (acc : OpenAcc F) (b : Nat)
    (hb : p.bound = some b)
    (hbad : ck.bounds = none ∨ (∃ bs, ck.bounds = some bs ∧ b ∉ bs) ∨ b < pdeg p.poly ∨
      b > ck.maxDegree) :
    ∃ e, openLoop ck z (p :: ps) (st :: sts) ξs acc = .error e := by
  obtain ⟨e, he⟩ := checkDB_error_of_bad ck.maxDegree ck.bounds p.poly b hbad
  unfold openLoop
  split
  · exact ⟨_, rfl⟩
  · rw [hb, he]
    exact ⟨e, rfl⟩

/-- a polynomial larger than the supported degree is refused by the committer -/
theorem commitOne_refuses_degree (ck : CK F) (p : LPoly F) (rng : Bool) (draws : List F)
    (h : pdeg p.poly + 1 > ck.powers.length) : ∃ e, commitOne ck p rng draws = .error e := by
  unfold commitOne
  split
  · exact ⟨_, rfl⟩
  · split
    · exact ⟨_, rfl⟩
    · have : KZG.commit ⟨ck.powers, ck.gammaPowers⟩ p.poly p.hb true draws
          = .error .tooManyCoefficients := by
        unfold KZG.commit KZG.checkDegreeIsTooLarge
        rw [if_pos h]
      rw [this]; exact ⟨_, rfl⟩

end Marlin
end PCV
