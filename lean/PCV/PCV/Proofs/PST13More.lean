/-
  PCV.Proofs.PST13More — further lemmas about the MarlinPST13 model for the per-property files
  C03 / C08 / C09 / C10 / C17 / C19 (`Props/Cxx_PST13.lean`):
  the commitment as the key-defined sum over the term list; how single proof components move the
  pairing defect; `setup` publishes `g·monomial(β⃗)`; refusals; shapes.
-/
import PCV.Proofs.PST13
import PCV.Proofs.PST13LC
import PCV.Proofs.CombCompleteSetup
import PCV.Proofs.QuerySet
set_option linter.unusedSectionVars false
set_option linter.unusedVariables false

namespace PCV
namespace PST
open MV
variable {F : Type} [Field F]

/-! ### the key-defined sum `Σ coeff · f(term)` over a term list -/

/-- `Σ coeff · f(term)`: with `f` the lookup in the committer key this is the MSM of `commit` -/
def keySum (f : Term → F) : MVPoly F → F
  | [] => 0
  | ct :: p => ct.1 * f ct.2 + keySum f p

@[simp] theorem keySum_nil (f : Term → F) : keySum f ([] : MVPoly F) = 0 := rfl
@[simp] theorem keySum_cons (f : Term → F) (ct : F × Term) (p : MVPoly F) :
    keySum f (ct :: p) = ct.1 * f ct.2 + keySum f p := rfl

theorem keySum_append (f : Term → F) (p q : MVPoly F) :
    keySum f (p ++ q) = keySum f p + keySum f q := by
  induction p with
  | nil => simp
  | cons a p ih => simp only [List.cons_append, keySum_cons, ih]; ring

theorem keySum_scaleMV (f : Term → F) (a : F) (p : MVPoly F) :
    keySum f (scaleMV a p) = a * keySum f p := by
  induction p with
  | nil => simp [scaleMV]
  | cons ct p ih =>
    simp only [scaleMV, List.map_cons, keySum_cons] at ih ⊢
    rw [ih]; ring

theorem keySum_perm (f : Term → F) (p q : MVPoly F) (h : p.Perm q) : keySum f p = keySum f q := by
  induction h with
  | nil => rfl
  | cons x _ ih => simp only [keySum_cons, ih]
  | swap x y l => simp only [keySum_cons]; ring
  | trans _ _ ih1 ih2 => rw [ih1, ih2]

theorem keySum_insertTerm (f : Term → F) (a : F × Term) (l : MVPoly F) :
    keySum f (insertTerm a l) = a.1 * f a.2 + keySum f l := by
  induction l with
  | nil => rfl
  | cons b l ih =>
    simp only [insertTerm]
    split
    · simp only [keySum_cons, ih]; ring
    · simp only [keySum_cons]

theorem keySum_sortTerms (f : Term → F) (l : MVPoly F) : keySum f (sortTerms l) = keySum f l := by
  induction l with
  | nil => rfl
  | cons a l ih => simp only [sortTerms, keySum_insertTerm, ih, keySum_cons]

theorem keySum_combineTermsAux (f : Term → F) (prev : F × Term) (l : MVPoly F) :
    keySum f (combineTermsAux prev l) = prev.1 * f prev.2 + keySum f l := by
  induction l generalizing prev with
  | nil => simp [combineTermsAux]
  | cons q l ih =>
    simp only [combineTermsAux]
    split
    · rename_i h
      rw [ih]; simp only [keySum_cons, h]; ring
    · simp only [keySum_cons, ih]

theorem keySum_combineTerms (f : Term → F) (l : MVPoly F) :
    keySum f (combineTerms l) = keySum f l := by
  cases l with
  | nil => rfl
  | cons q l => simp only [combineTerms, keySum_combineTermsAux, keySum_cons]

theorem keySum_removeZeros [DecidableEq F] (f : Term → F) (p : MVPoly F) :
    keySum f (removeZeros p) = keySum f p := by
  induction p with
  | nil => rfl
  | cons a p ih =>
    unfold removeZeros at ih ⊢
    rw [List.filter_cons]
    by_cases h : a.1 = 0
    · simp [h, ih]
    · simp [h, ih]

/-- duplicate terms are merged, zero terms dropped, the order changed: the key-defined sum stays -/
theorem keySum_fromCoeffs [DecidableEq F] (f : Term → F) (l : MVPoly F) :
    keySum f (fromCoeffs l) = keySum f l := by
  unfold fromCoeffs
  rw [keySum_removeZeros, keySum_combineTerms, keySum_sortTerms]

theorem keySum_mergeMV [DecidableEq F] (f : Term → F) (n : Nat) (p q : MVPoly F)
    (hp : ∀ t ∈ termsOf p, Term.wf t = true) (hq : ∀ t ∈ termsOf q, Term.wf t = true)
    (h : p.length + q.length < n) :
    keySum f (mergeMV n p q) = keySum f p + keySum f q := by
  induction n generalizing p q with
  | zero => omega
  | succ n ih =>
    cases p with
    | nil => simp [mergeMV]
    | cons a p =>
      cases q with
      | nil => simp [mergeMV]
      | cons b q =>
        simp only [mergeMV]
        simp only [List.length_cons] at h
        have hp' : ∀ t ∈ termsOf p, Term.wf t = true := fun t ht => hp t (by simp [termsOf] at ht ⊢; exact Or.inr ht)
        have hq' : ∀ t ∈ termsOf q, Term.wf t = true := fun t ht => hq t (by simp [termsOf] at ht ⊢; exact Or.inr ht)
        split
        · rw [keySum_cons, ih p (b :: q) hp' hq (by simp only [List.length_cons]; omega)]
          simp only [keySum_cons]; ring
        · split
          · rename_i heq
            have hab : a.2 = b.2 := Term.cmp_eq (hp a.2 (by simp [termsOf])) (hq b.2 (by simp [termsOf])) heq
            rw [keySum_cons, ih p q hp' hq' (by omega)]
            simp only [keySum_cons, hab]; ring
          · rw [keySum_cons, ih (a :: p) q hp hq' (by simp only [List.length_cons]; omega)]
            simp only [keySum_cons]; ring

/-- `p += (a, q)` (terms built by `SparseTerm::new`) adds `a` times the key-defined sum -/
theorem keySum_addScaledMV [DecidableEq F] (f : Term → F) (p q : MVPoly F) (a : F)
    (hp : ∀ t ∈ termsOf p, Term.wf t = true) (hq : ∀ t ∈ termsOf q, Term.wf t = true) :
    keySum f (addScaledMV p a q) = keySum f p + a * keySum f q := by
  unfold addScaledMV addMV
  rw [keySum_removeZeros, keySum_mergeMV f _ _ _ hp (by rw [termsOf_scaleMV]; exact hq) (by omega),
    keySum_scaleMV]

theorem keySum_all_zero (f : Term → F) (p : MVPoly F) (h : ∀ ct ∈ p, ct.1 = 0) : keySum f p = 0 := by
  induction p with
  | nil => rfl
  | cons a p ih =>
    rw [keySum_cons, h a (by simp), ih (fun ct hct => h ct (by simp [hct]))]; ring

/-- with `f = g·(monomial at β⃗)` the key-defined sum is `g·p(β⃗)` -/
theorem keySum_eval (g : F) (β : List F) (p : MVPoly F) :
    keySum (fun t => g * evalTerm t β) p = g * evalMV p β := by
  induction p with
  | nil => simp
  | cons ct p ih => simp only [keySum_cons, evalMV_cons, ih]; ring

section Dec
variable [DecidableEq F]

/-- the element the committer key publishes for a monomial (`0`: none) -/
def keyOf (ck : CK F) (t : Term) : F := (mapGet ck.powersOfG t).getD 0

theorem msmBy_keySum (m : List (Term × F)) (p : MVPoly F) (x : F)
    (h : msmBy (lookG m) p = .ok x) : x = keySum (fun t => (mapGet m t).getD 0) p := by
  induction p generalizing x with
  | nil =>
    simp only [msmBy] at h
    injection h with h
    simp [← h]
  | cons ct p ih =>
    simp only [msmBy] at h
    split at h
    · cases h
    · rename_i b hb
      split at h
      · cases h
      · rename_i acc hacc
        injection h with h
        rw [← h, keySum_cons, ih acc hacc]
        unfold lookG at hb
        split at hb
        · cases hb
        · rename_i b' hb'
          injection hb with hb
          rw [hb', ← hb]
          rfl

theorem msmBy_ok_of_present (m : List (Term × F)) (p : MVPoly F)
    (h : ∀ t ∈ termsOf p, (mapGet m t).isSome = true) :
    msmBy (lookG m) p = .ok (keySum (fun t => (mapGet m t).getD 0) p) := by
  induction p with
  | nil => rfl
  | cons ct p ih =>
    have h1 := h ct.2 (by simp [termsOf])
    have h2 := ih (fun t ht => h t (by simp only [termsOf, List.map_cons, List.mem_cons] at ht ⊢; exact Or.inr ht))
    cases hb : mapGet m ct.2 with
    | none => rw [hb] at h1; simp at h1
    | some b => simp only [msmBy, lookG, hb, h2, keySum_cons, Option.getD_some]

theorem msmBy_missing (m : List (Term × F)) (p : MVPoly F) (t : Term) (ht : t ∈ termsOf p)
    (h : mapGet m t = none) : msmBy (lookG m) p = .error .abort := by
  induction p with
  | nil => simp [termsOf] at ht
  | cons ct p ih =>
    simp only [termsOf, List.map_cons, List.mem_cons] at ht
    simp only [msmBy]
    by_cases hc : ct.2 = t
    · simp only [lookG, hc, h]
    · have hin : t ∈ termsOf p := by
        rcases ht with ht | ht
        · exact absurd ht.symm hc
        · exact ht
      cases hl : lookG m ct.2 with
      | error e =>
        unfold lookG at hl
        split at hl
        · injection hl with hl; rw [← hl]
        · cases hl
      | ok b => simp only [ih hin]

/-- **`commit` without hiding is the key-defined sum**, for an arbitrary committer key: whatever is
returned is `Σ coeff · powers_of_g[term]` over the term list as given, no blinding, RNG untouched. -/
theorem commit_plain_keySum (ck : CK F) (p : MVPoly F) (rng : Bool) (draws : List F) (c : F)
    (r : MVPoly F) (rest : List F) (h : commit ck p none rng draws = .ok (c, r, rest)) :
    c = keySum (keyOf ck) p ∧ r = [] ∧ rest = draws ∧ degreeMV p ≤ ck.supportedDegree := by
  unfold commit at h
  split at h
  · cases h
  · rename_i hdeg
    have hd := (checkDegree_ok ck.supportedDegree p).1 hdeg
    split at h
    · cases h
    · rename_i c0 hc0
      simp only at h
      injection h with h
      injection h with h1 h2
      injection h2 with h2 h3
      exact ⟨by rw [← h1]; exact msmBy_keySum _ p c0 hc0, h2.symm, h3.symm, by omega⟩

/-- conversely: within the supported degree and with every monomial published, `commit` answers -/
theorem commit_plain_ok (ck : CK F) (p : MVPoly F) (rng : Bool) (draws : List F)
    (hd : degreeMV p ≤ ck.supportedDegree)
    (hk : ∀ t ∈ termsOf p, (mapGet ck.powersOfG t).isSome = true) :
    commit ck p none rng draws = .ok (keySum (keyOf ck) p, [], draws) := by
  unfold commit
  have : checkDegree ck.supportedDegree p = .ok () := (checkDegree_ok _ p).2 (by omega)
  rw [this]
  simp only [msmBy_ok_of_present ck.powersOfG p hk]
  rfl

end Dec

/-! ### how single components move the pairing defect -/

section Shift
variable [DecidableEq F]

theorem rhsSum_append (h : F) (bH z : List F) (i : Nat) (a b : List F) :
    rhsSum h bH z i (a ++ b) = rhsSum h bH z i a + rhsSum h bH z (i + a.length) b := by
  induction a generalizing i with
  | nil => simp [rhsSum]
  | cons w a ih =>
    simp only [List.cons_append, rhsSum, ih (i + 1), List.length_cons]
    rw [show i + 1 + a.length = i + (a.length + 1) by omega]; ring

/-- a witness element moved by `δ` moves the right-hand pairing sum by `δ·(βⱼh − zⱼh)` -/
theorem rhsSum_replace (h : F) (bH z : List F) (pre post : List F) (x δ : F) :
    rhsSum h bH z 0 (pre ++ (x + δ) :: post) = rhsSum h bH z 0 (pre ++ x :: post)
      + δ * (getD' bH pre.length 0 - h * getD' z pre.length 0) := by
  simp only [rhsSum_append, rhsSum, Nat.zero_add]
  ring

/-- **witness element**: `Wⱼ + δ` moves the defect by `−δ·(βⱼh − zⱼh)` -/
theorem defect_witness_shift (vk : VK F) (C V : F) (z pre post : List F) (x δ : F) (rv : Option F) :
    defectCombined vk C V z ⟨pre ++ (x + δ) :: post, rv⟩
      = defectCombined vk C V z ⟨pre ++ x :: post, rv⟩
        - δ * (getD' vk.betaH pre.length 0 - vk.h * getD' z pre.length 0) := by
  unfold defectCombined
  simp only [rhsSum_replace]
  ring

/-- **`random_v`**: `rv + δ` moves the defect by `−γ·δ·h`; dropping `Some rv` moves it by `γ·rv·h` -/
theorem defect_rv_shift (vk : VK F) (C V : F) (z w : List F) (x δ : F) :
    defectCombined vk C V z ⟨w, some (x + δ)⟩ = defectCombined vk C V z ⟨w, some x⟩ - vk.gammaG * δ * vk.h
      ∧ defectCombined vk C V z ⟨w, none⟩ = defectCombined vk C V z ⟨w, some x⟩ + vk.gammaG * x * vk.h := by
  unfold defectCombined
  simp only [rvVal]
  constructor <;> ring

theorem rhsSum_point (h : F) (bH : List F) (zpre zpost : List F) (a δ : F) (i : Nat) (w : List F) :
    rhsSum h bH (zpre ++ (a + δ) :: zpost) i w = rhsSum h bH (zpre ++ a :: zpost) i w
      - h * δ * (if i ≤ zpre.length then getD' w (zpre.length - i) 0 else 0) := by
  induction w generalizing i with
  | nil => simp [rhsSum, getD']
  | cons x w ih =>
    simp only [rhsSum, ih (i + 1)]
    by_cases hi : i = zpre.length
    · subst hi
      have h1 : getD' (zpre ++ (a + δ) :: zpost) zpre.length 0 = a + δ := by simp [getD']
      have h2 : getD' (zpre ++ a :: zpost) zpre.length 0 = a := by simp [getD']
      rw [h1, h2]
      simp [getD']
      ring
    · have hget : getD' (zpre ++ (a + δ) :: zpost) i 0 = getD' (zpre ++ a :: zpost) i 0 := by
        unfold getD'
        by_cases hlt : i < zpre.length
        · rw [List.getElem?_append_left hlt, List.getElem?_append_left hlt]
        · have hge : zpre.length ≤ i := by omega
          rw [List.getElem?_append_right hge, List.getElem?_append_right hge]
          have : i - zpre.length ≠ 0 := by omega
          obtain ⟨k, hk⟩ := Nat.exists_eq_succ_of_ne_zero this
          rw [hk]; simp
      rw [hget]
      by_cases hlt : i < zpre.length
      · have h1 : i ≤ zpre.length := by omega
        have h2 : i + 1 ≤ zpre.length := by omega
        simp only [h1, h2, if_true]
        have : zpre.length - i = (zpre.length - (i + 1)) + 1 := by omega
        rw [this]
        simp [getD'] <;> ring
      · have h1 : ¬ i ≤ zpre.length := by omega
        have h2 : ¬ i + 1 ≤ zpre.length := by omega
        simp [h1, h2]

/-- **point coordinate**: `zⱼ + δ` (claim held fixed) moves the defect by `+Wⱼ·δ·h` -/
theorem defect_point_shift (vk : VK F) (C V : F) (zpre zpost : List F) (a δ : F) (π : Proof F) :
    defectCombined vk C V (zpre ++ (a + δ) :: zpost) π
      = defectCombined vk C V (zpre ++ a :: zpost) π + vk.h * δ * getD' π.w zpre.length 0 := by
  unfold defectCombined
  rw [rhsSum_point]
  simp
  ring

/-- **key elements**: `g + δ` moves the defect by `−δ·V·h`; `γg + δ` by `−δ·rv·h`; `beta_h[j] + δ` by
`−Wⱼ·δ`; `h + δ` by `δ·(C − g·V − γ·rv + Σ Wᵢzᵢ)` -/
theorem defect_key_g (vk : VK F) (C V δ : F) (z : List F) (π : Proof F) :
    defectCombined { vk with g := vk.g + δ } C V z π = defectCombined vk C V z π - δ * V * vk.h := by
  unfold defectCombined; ring

theorem defect_key_gamma (vk : VK F) (C V δ : F) (z : List F) (π : Proof F) :
    defectCombined { vk with gammaG := vk.gammaG + δ } C V z π
      = defectCombined vk C V z π - δ * rvVal π.rv * vk.h := by
  unfold defectCombined; ring

theorem defect_key_h (vk : VK F) (C V δ : F) (z : List F) (π : Proof F) :
    defectCombined { vk with h := vk.h + δ } C V z π
      = defectCombined vk C V z π + δ * (C - vk.g * V - vk.gammaG * rvVal π.rv + wz z 0 π.w) := by
  unfold defectCombined
  simp only [rhsSum_eq]
  ring

theorem dotB_replace (pre post : List F) (x δ : F) (i : Nat) (w : List F) :
    dotB (pre ++ (x + δ) :: post) i w = dotB (pre ++ x :: post) i w
      + δ * (if i ≤ pre.length then getD' w (pre.length - i) 0 else 0) := by
  induction w generalizing i with
  | nil => simp [dotB, getD']
  | cons y w ih =>
    simp only [dotB, ih (i + 1)]
    by_cases hi : i = pre.length
    · subst hi
      have h1 : getD' (pre ++ (x + δ) :: post) pre.length 0 = x + δ := by simp [getD']
      have h2 : getD' (pre ++ x :: post) pre.length 0 = x := by simp [getD']
      rw [h1, h2]
      simp [getD']
      ring
    · have hget : getD' (pre ++ (x + δ) :: post) i 0 = getD' (pre ++ x :: post) i 0 := by
        unfold getD'
        by_cases hlt : i < pre.length
        · rw [List.getElem?_append_left hlt, List.getElem?_append_left hlt]
        · have hge : pre.length ≤ i := by omega
          rw [List.getElem?_append_right hge, List.getElem?_append_right hge]
          have : i - pre.length ≠ 0 := by omega
          obtain ⟨k, hk⟩ := Nat.exists_eq_succ_of_ne_zero this
          rw [hk]; simp
      rw [hget]
      by_cases hlt : i < pre.length
      · have h1 : i ≤ pre.length := by omega
        have h2 : i + 1 ≤ pre.length := by omega
        simp only [h1, h2, if_true]
        have : pre.length - i = (pre.length - (i + 1)) + 1 := by omega
        rw [this]
        simp [getD'] <;> ring
      · have h1 : ¬ i ≤ pre.length := by omega
        have h2 : ¬ i + 1 ≤ pre.length := by omega
        simp [h1, h2]

theorem defect_key_betaH (vk : VK F) (C V : F) (pre post : List F) (x δ : F) (z : List F)
    (π : Proof F) (hb : vk.betaH = pre ++ x :: post) :
    defectCombined { vk with betaH := pre ++ (x + δ) :: post } C V z π
      = defectCombined vk C V z π - δ * getD' π.w pre.length 0 := by
  unfold defectCombined
  simp only [rhsSum_eq, hb, dotB_replace]
  simp
  ring

end Shift

/-! ### shapes: witness counts, one proof per point label -/

section Shape
variable [DecidableEq F]

theorem addHiding_length (look : Term → Except Err F) (ws : List F) (hws : List (MVPoly F))
    (xs : List F) (h : addHiding look ws hws = .ok xs) : xs.length = ws.length := by
  induction ws generalizing hws xs with
  | nil => simp only [addHiding] at h; injection h with h; simp [← h]
  | cons w ws ih =>
    cases hws with
    | nil => simp [addHiding] at h
    | cons hw hws =>
      simp only [addHiding] at h
      split at h
      · cases h
      · split at h
        · cases h
        · rename_i xs' hxs
          injection h with h
          simp [← h, ih hws xs' hxs]

/-- **every proof `open` returns has exactly one witness per variable of the key** (arbitrary key),
and carries `random_v` exactly when the combined blinding polynomial is non-zero -/
theorem openCombined_shape (ck : CK F) (nvp nvr : Nat) (p r : MVPoly F) (z : List F) (π : Proof F)
    (h : openCombined ck nvp nvr p r z = .ok π) :
    π.w.length = ck.numVars ∧ (π.rv.isSome = !isZeroMV r) := by
  have h := openCombined_core ck nvp nvr p r z π h
  unfold openCore at h
  split at h
  · cases h
  · rename_i w hw
    have hwl := msmAll_length _ _ _ hw
    rw [resizeTo_length] at hwl
    split at h
    · rename_i hz
      injection h with h
      subst h
      exact ⟨hwl, by simp [hz]⟩
    · rename_i hz
      split at h
      · cases h
      · rename_i w' hw'
        split at h
        · cases h
        · injection h with h
          subst h
          exact ⟨by simp only; rw [addHiding_length _ _ _ _ hw', hwl], by simp [hz]⟩

theorem open_shape (ck : CK F) (nvp nvr : Nat) (ps : List (MVPoly F)) (z : List F)
    (rs : List (MVPoly F)) (ξs : List F) (π : Proof F) (h : PST.open ck nvp nvr ps z rs ξs = .ok π) :
    π.w.length = ck.numVars := by
  unfold PST.open at h
  split at h
  · cases h
  · exact (openCombined_shape ck nvp nvr _ _ z π h).1

theorem batchOpenGroups_shape (ck : CK F) (trips : List (Trip F)) (groups : List (Group F))
    (ξs : List F) (πs : List (Proof F)) (rest : List F)
    (h : batchOpenGroups ck trips groups ξs = .ok (πs, rest)) :
    πs.length = groups.length ∧ ∀ π ∈ πs, π.w.length = ck.numVars := by
  induction groups generalizing ξs πs with
  | nil =>
    simp only [batchOpenGroups] at h
    injection h with h
    injection h with h1 h2
    subst h1
    exact ⟨rfl, by intro π hπ; cases hπ⟩
  | cons g gs ih =>
    simp only [batchOpenGroups] at h
    split at h
    · cases h
    · rename_i ts hts
      split at h
      · cases h
      · rename_i r hr
        split at h
        · cases h
        · rename_i rr hrr
          injection h with h
          injection h with h1 h2
          subst h1; subst h2
          obtain ⟨i1, i2⟩ := ih r.2 rr.1 (by rw [hrr])
          refine ⟨by simp [i1], ?_⟩
          intro π hπ
          rcases List.mem_cons.1 hπ with rfl | hπ
          · unfold openL openRest at hr
            split at hr
            · cases hr
            · split at hr
              · cases hr
              · rename_i π' hπ'
                injection hr with hr
                rw [← hr]
                exact (openCombined_shape ck _ _ _ _ _ π' hπ').1
          · exact i2 π hπ

theorem ltLabel_irrefl' : ∀ a : Label, QS.ltLabel a a = false := by
  intro a
  induction a with
  | nil => rfl
  | cons x xs ih => simp [QS.ltLabel, ih]

theorem mem_groupInsert (q : Query F) (gs : List (Group F)) (pl : Label) :
    pl ∈ (groupInsert q gs).map (·.1) ↔ pl = q.2.1 ∨ pl ∈ gs.map (·.1) := by
  induction gs with
  | nil => simp [groupInsert]
  | cons g gs ih =>
    simp only [groupInsert]
    split
    · simp
    · split
      · rename_i _ heq
        simp only [List.map_cons, List.mem_cons]
        constructor
        · rintro (h | h)
          · exact Or.inr (Or.inl h)
          · exact Or.inr (Or.inr h)
        · rintro (h | h | h)
          · exact Or.inl (by rw [h, heq])
          · exact Or.inl h
          · exact Or.inr h
      · simp only [List.map_cons, List.mem_cons, ih]
        constructor
        · rintro (h | h | h)
          · exact Or.inr (Or.inl h)
          · exact Or.inl h
          · exact Or.inr (Or.inr h)
        · rintro (h | h | h)
          · exact Or.inr (Or.inl h)
          · exact Or.inl h
          · exact Or.inr (Or.inr h)

theorem sorted_groupInsert (q : Query F) (gs : List (Group F))
    (h : (gs.map (·.1)).Pairwise (fun a b => QS.ltLabel a b = true)) :
    ((groupInsert q gs).map (·.1)).Pairwise (fun a b => QS.ltLabel a b = true) := by
  induction gs with
  | nil => simp [groupInsert]
  | cons g gs ih =>
    simp only [List.map_cons, List.pairwise_cons] at h
    simp only [groupInsert]
    split
    · rename_i hlt
      simp only [List.map_cons, List.pairwise_cons, List.mem_cons]
      refine ⟨?_, h⟩
      rintro b (rfl | hb)
      · exact hlt
      · exact QS.ltLabel_trans _ _ _ hlt (h.1 b hb)
    · split
      · simp only [List.map_cons, List.pairwise_cons]
        exact h
      · rename_i hnlt hne
        simp only [List.map_cons, List.pairwise_cons]
        refine ⟨?_, ih h.2⟩
        intro b hb
        rcases (mem_groupInsert q gs b).1 hb with rfl | hb
        · exact QS.ltLabel_total _ _ hne (by simpa using hnlt)
        · exact h.1 b hb

/-- the point-label groups: strictly sorted (so pairwise distinct), and exactly the point labels
that occur in the query set -/
theorem groupQueries_labels (qs : List (Query F)) :
    ((groupQueries qs).map (·.1)).Pairwise (fun a b => QS.ltLabel a b = true)
      ∧ ((groupQueries qs).map (·.1)).Nodup
      ∧ ∀ pl, pl ∈ (groupQueries qs).map (·.1) ↔ ∃ q ∈ qs, q.2.1 = pl := by
  have key : ∀ (acc : List (Group F)),
      (acc.map (·.1)).Pairwise (fun a b => QS.ltLabel a b = true) →
      ((qs.foldl (fun acc q => groupInsert q acc) acc).map (·.1)).Pairwise (fun a b => QS.ltLabel a b = true)
        ∧ ∀ pl, pl ∈ (qs.foldl (fun acc q => groupInsert q acc) acc).map (·.1)
            ↔ (pl ∈ acc.map (·.1) ∨ ∃ q ∈ qs, q.2.1 = pl) := by
    induction qs with
    | nil => intro acc h; exact ⟨h, by simp⟩
    | cons q qs ih =>
      intro acc h
      simp only [List.foldl_cons]
      obtain ⟨i1, i2⟩ := ih (groupInsert q acc) (sorted_groupInsert q acc h)
      refine ⟨i1, fun pl => ?_⟩
      rw [i2, mem_groupInsert]
      constructor
      · rintro ((h | h) | ⟨q', hq', h⟩)
        · exact Or.inr ⟨q, by simp, h.symm⟩
        · exact Or.inl h
        · exact Or.inr ⟨q', by simp [hq'], h⟩
      · rintro (h | ⟨q', hq', h⟩)
        · exact Or.inl (Or.inr h)
        · rcases List.mem_cons.1 hq' with rfl | hq'
          · exact Or.inl (Or.inl h.symm)
          · exact Or.inr ⟨q', hq', h⟩
  obtain ⟨k1, k2⟩ := key [] (by simp)
  refine ⟨k1, ?_, fun pl => by rw [groupQueries, k2]; simp⟩
  unfold groupQueries
  refine List.Pairwise.imp ?_ k1
  intro a b hab heq
  rw [heq, ltLabel_irrefl'] at hab
  cases hab

end Shape

/-! ### `setup` publishes `g · monomial(β⃗)` -/

section Setup
variable [DecidableEq F]

theorem evalTerm_zero_powers (L : List Nat) (x : List F) :
    evalTerm (L.map (fun v => (v, 0))) x = 1 := by
  induction L with
  | nil => rfl
  | cons v L ih => rw [List.map_cons, evalTerm_cons, ih]; simp

theorem evalTerm_counts_nil (L : List Nat) (x : List F) :
    evalTerm (L.map (fun v => (v, ([] : List Nat).count v))) x = 1 := by
  have : (fun v => (v, ([] : List Nat).count v)) = (fun v => (v, 0)) := by
    funext v; simp
  rw [this, evalTerm_zero_powers]

theorem evalTerm_bump (L : List Nat) (hL : L.Nodup) (e : Nat) (c : Nat → Nat) (x : List F) :
    evalTerm (L.map (fun v => (v, c v + if v = e then 1 else 0))) x
      = (if e ∈ L then getD' x e 0 else 1) * evalTerm (L.map (fun v => (v, c v))) x := by
  induction L with
  | nil => simp
  | cons v L ih =>
    rw [List.nodup_cons] at hL
    rw [List.map_cons, List.map_cons, evalTerm_cons, evalTerm_cons, ih hL.2]
    by_cases hve : v = e
    · subst hve
      have h1 : (v ∈ v :: L) := by simp
      simp only [if_true, h1, hL.1, if_false, fpow_succ']
      ring
    · have hev : ¬ e = v := fun hx => hve hx.symm
      have h1 : (e ∈ v :: L) ↔ e ∈ L := by simp [hev]
      simp only [hve, if_false, Nat.add_zero, h1]
      ring

theorem evalTerm_counts_cons (L : List Nat) (hL : L.Nodup) (e : Nat) (m : List Nat) (x : List F) :
    evalTerm (L.map (fun v => (v, (e :: m).count v))) x
      = (if e ∈ L then getD' x e 0 else 1) * evalTerm (L.map (fun v => (v, m.count v))) x := by
  have : (fun v => (v, (e :: m).count v)) = (fun v => (v, m.count v + if v = e then 1 else 0)) := by
    funext v
    rw [List.count_cons]
    by_cases hve : v = e
    · simp [hve]
    · have : (e == v) = false := by simpa using fun hx => hve hx.symm
      simp [hve, this]
  rw [this, evalTerm_bump L hL e (fun v => m.count v) x]

/-- `term.iter().map(|e| betas[*e]).product()` is the monomial `SparseTerm::new(counts)` at `β⃗` -/
theorem prodBetas_eq (nv : Nat) (betas : List F) (m : List Nat) (h : ∀ e ∈ m, e < nv) :
    prodBetas betas m = evalTerm (termOfMultiset nv m) betas := by
  unfold termOfMultiset
  rw [evalTerm_new]
  induction m with
  | nil => simp only [prodBetas, evalTerm_counts_nil]
  | cons e m ih =>
    rw [evalTerm_counts_cons _ List.nodup_range, ← ih (fun x hx => h x (by simp [hx]))]
    have : e ∈ List.range nv := List.mem_range.2 (h e (by simp))
    simp only [prodBetas, this, if_true]

/-- the invariant of the `BTreeMap` under construction: keys built by `SparseTerm::new`, each value
the prescribed function of its key -/
def MapOk (f : Term → F) (m : List (Term × F)) : Prop :=
  ∀ kv ∈ m, Term.wf kv.1 = true ∧ kv.2 = f kv.1

theorem mapInsert_ok (f : Term → F) (k : Term) (hk : Term.wf k = true) (m : List (Term × F))
    (hm : MapOk f m) : MapOk f (mapInsert k (f k) m)
      ∧ ∀ t, t ∈ (mapInsert k (f k) m).map (·.1) ↔ (t = k ∨ t ∈ m.map (·.1)) := by
  induction m with
  | nil =>
    refine ⟨?_, by simp [mapInsert]⟩
    intro kv hkv
    simp only [mapInsert, List.mem_singleton] at hkv
    subst hkv
    exact ⟨hk, rfl⟩
  | cons kv m ih =>
    have hm' : MapOk f m := fun x hx => hm x (by simp [hx])
    obtain ⟨i1, i2⟩ := ih hm'
    simp only [mapInsert]
    split
    · refine ⟨?_, by simp⟩
      intro x hx
      rcases List.mem_cons.1 hx with rfl | hx
      · exact ⟨hk, rfl⟩
      · exact hm x hx
    · split
      · rename_i _ heq
        have hkk : k = kv.1 := Term.cmp_eq hk (hm kv (by simp)).1 heq
        refine ⟨?_, ?_⟩
        · intro x hx
          rcases List.mem_cons.1 hx with rfl | hx
          · exact ⟨(hm kv (by simp)).1, by rw [hkk]⟩
          · exact hm' x hx
        · intro t
          simp only [List.map_cons, List.mem_cons]
          rw [hkk]
          tauto
      · refine ⟨?_, ?_⟩
        · intro x hx
          rcases List.mem_cons.1 hx with rfl | hx
          · exact hm x (by simp)
          · exact i1 x hx
        · intro t
          simp only [List.map_cons, List.mem_cons, i2]
          tauto

theorem mapOfList_ok (f : Term → F) (l : List (Term × F))
    (hl : ∀ kv ∈ l, Term.wf kv.1 = true ∧ kv.2 = f kv.1) :
    MapOk f (mapOfList l) ∧ ∀ t, t ∈ (mapOfList l).map (·.1) ↔ t ∈ l.map (·.1) := by
  have key : ∀ (acc : List (Term × F)), MapOk f acc →
      MapOk f (l.foldl (fun m kv => mapInsert kv.1 kv.2 m) acc)
        ∧ ∀ t, t ∈ (l.foldl (fun m kv => mapInsert kv.1 kv.2 m) acc).map (·.1)
            ↔ (t ∈ acc.map (·.1) ∨ t ∈ l.map (·.1)) := by
    induction l with
    | nil => intro acc h; exact ⟨h, by simp⟩
    | cons kv l ih =>
      intro acc hacc
      obtain ⟨hw, hv⟩ := hl kv (by simp)
      simp only [List.foldl_cons]
      rw [hv]
      obtain ⟨j1, j2⟩ := mapInsert_ok f kv.1 hw acc hacc
      obtain ⟨i1, i2⟩ := ih (fun x hx => hl x (by simp [hx])) _ j1
      refine ⟨i1, fun t => ?_⟩
      rw [i2, j2]
      simp only [List.map_cons, List.mem_cons]
      tauto
  obtain ⟨k1, k2⟩ := key [] (fun x hx => by cases hx)
  exact ⟨k1, fun t => by rw [mapOfList, k2]; simp⟩

theorem mapGet_of_ok (f : Term → F) (m : List (Term × F)) (hm : MapOk f m) (t : Term)
    (ht : t ∈ m.map (·.1)) : mapGet m t = some (f t) := by
  induction m with
  | nil => cases ht
  | cons kv m ih =>
    simp only [mapGet]
    by_cases hk : kv.1 = t
    · rw [if_pos hk, (hm kv (by simp)).2, hk]
    · rw [if_neg hk]
      simp only [List.map_cons, List.mem_cons] at ht
      rcases ht with ht | ht
      · exact absurd ht.symm hk
      · exact ih (fun x hx => hm x (by simp [hx])) ht

/-- **What `setup` publishes.**  Whenever `setup` answers: `num_vars ≥ 1`, `max_degree ≥ 1`; every
element of `powers_of_g` is `g` times its monomial at the trapdoor `β⃗`; the map is indexed by
exactly the monomials (`SparseTerm::new` results) in `num_vars` variables of total degree
`≤ max_degree`, so a lookup of such a monomial returns `g·t(β⃗)`; `beta_h[i] = βᵢ·h`; row `i` of
`powers_of_gamma_g` is `γ·βᵢ, …, γ·βᵢ^(D+1)`; `gamma_g`, `h` and the size fields are as given. -/
theorem setup_spec (D nv : Nat) (betas : List F) (g γ h : F) (pp : UParams F)
    (hs : setup D nv betas g γ h = .ok pp) :
    1 ≤ nv ∧ 1 ≤ D
    ∧ (∀ kv ∈ pp.powersOfG, kv.2 = g * evalTerm kv.1 betas)
    ∧ (∀ t, t ∈ pp.powersOfG.map (·.1)
        ↔ (Term.wf t = true ∧ Term.varsBelow nv t = true ∧ Term.degree t ≤ D))
    ∧ (∀ t, Term.wf t = true → Term.varsBelow nv t = true → Term.degree t ≤ D →
        mapGet pp.powersOfG t = some (g * evalTerm t betas))
    ∧ pp.betaH = (betas.take nv).map (fun b => h * b)
    ∧ pp.powersOfGammaG = (List.range nv).map (fun i => gammaRow γ (getD' betas i 0) (D + 1) 1)
    ∧ pp.gammaG = γ ∧ pp.h = h ∧ pp.numVars = nv ∧ pp.maxDegree = D := by
  unfold setup at hs
  split at hs
  · cases hs
  · rename_i hnv
    split at hs
    · cases hs
    · rename_i hD
      have hnv' : 1 ≤ nv := by omega
      have hD' : 1 ≤ D := by omega
      split at hs
      · cases hs
      · rename_i ms hms
        injection hs with hs
        subst hs
        -- the multisets and the term list they index
        obtain ⟨ms0, hms0, _, hmem0⟩ := Comb.multisetsFrom_spec nv D hnv' D 1 (Nat.le_refl _) (by omega)
        have hmseq : ms0 = ms := by
          unfold setupMultisets at hms
          rw [hms0] at hms
          injection hms
        subst hmseq
        have hlt : ∀ m ∈ ms0, ∀ x ∈ m, x < nv := by
          intro m hm
          obtain ⟨k, _, _, hk3⟩ := (hmem0 m).1 hm
          exact (Comb.isSel_props nv D k m hk3).2.1
        obtain ⟨l, hl, _, hlmem⟩ := Comb.setupTerms_general nv D hnv' hD'
        have hl' : l = ms0.map (termOfMultiset nv) ++ [Term.new []] := by
          unfold setupTerms at hl
          rw [hms] at hl
          injection hl with hl
          exact hl.symm
        have hnew : Term.new [] = [] := rfl
        -- every listed pair is (wf key, g · key(β))
        have hpairs : ∀ kv ∈ ms0.map (fun m => (termOfMultiset nv m, g * prodBetas betas m))
            ++ [(Term.new [], g)], Term.wf kv.1 = true ∧ kv.2 = g * evalTerm kv.1 betas := by
          intro kv hkv
          rcases List.mem_append.1 hkv with hkv | hkv
          · obtain ⟨m, hm, rfl⟩ := List.mem_map.1 hkv
            have hin : termOfMultiset nv m ∈ l := by
              rw [hl']; exact List.mem_append.2 (Or.inl (List.mem_map.2 ⟨m, hm, rfl⟩))
            exact ⟨((hlmem _).1 hin).1, by simp only; rw [prodBetas_eq nv betas m (hlt m hm)]⟩
          · simp only [List.mem_singleton] at hkv
            subst hkv
            exact ⟨rfl, by simp [hnew]⟩
        obtain ⟨hok, hkeys⟩ := mapOfList_ok (fun t => g * evalTerm t betas) _ hpairs
        have hkeys' : ∀ t, t ∈ (mapOfList (ms0.map (fun m => (termOfMultiset nv m, g * prodBetas betas m))
            ++ [(Term.new [], g)])).map (·.1)
              ↔ (Term.wf t = true ∧ Term.varsBelow nv t = true ∧ Term.degree t ≤ D) := by
          intro t
          rw [hkeys, ← hlmem t, hl']
          simp only [List.map_append, List.map_map, List.map_cons, List.map_nil, List.mem_append,
            List.mem_map, List.mem_singleton, Function.comp]
        refine ⟨hnv', hD', fun kv hkv => (hok kv hkv).2, hkeys', ?_, rfl, rfl, rfl, rfl, rfl, rfl⟩
        intro t h1 h2 h3
        exact mapGet_of_ok _ _ hok t ((hkeys' t).2 ⟨h1, h2, h3⟩)

theorem setup_refuses (D nv : Nat) (betas : List F) (g γ h : F) :
    (nv < 1 → setup D nv betas g γ h = .error .invalidNumVars) ∧
    (1 ≤ nv → D < 1 → setup D nv betas g γ h = .error .degreeIsZero) := by
  constructor
  · intro hnv; unfold setup; rw [if_pos hnv]
  · intro hnv hD; unfold setup; rw [if_neg (by omega), if_pos hD]

theorem trim_refuses (pp : UParams F) (s : Nat) (h : s > pp.maxDegree) :
    trim pp s = .error .trimTooLarge := by
  unfold trim; rw [if_pos h]

end Setup

/-! ### what an answer of `check` / `batch_check` implies; linearity of the accumulation -/

section Answers
variable [DecidableEq F]

/-- an answer of `check` means: one witness per key variable, the accumulation ran, the index
ranges were respected, and the answer is whether the defect vanishes -/
theorem check_ok_inv (vk : VK F) (cs z vs : List F) (π : Proof F) (ξs : List F) (b : Bool)
    (h : check vk cs z vs π ξs = .ok b) :
    π.w.length = vk.numVars ∧ ∃ a, accumulate 0 0 cs vs ξs = .ok a
      ∧ π.w.length ≤ vk.betaH.length ∧ π.w.length ≤ z.length
      ∧ b = decide (defectCombined vk a.1 a.2.1 z π = 0) := by
  have hnv := check_ok_length vk cs z vs π ξs b h
  refine ⟨hnv, ?_⟩
  unfold check at h
  rw [if_neg (not_not.mpr hnv)] at h
  cases ha : accumulate 0 0 cs vs ξs with
  | error e => rw [ha] at h; cases h
  | ok a =>
    rw [ha] at h
    simp only at h
    split at h
    · cases h
    · rename_i hl
      injection h with h
      exact ⟨a, rfl, by omega, by omega, h.symm⟩

/-- the accumulation does not read the proof: it is the same for every proof -/
theorem check_same_acc (vk : VK F) (cs z vs : List F) (π π' : Proof F) (ξs : List F) (b : Bool)
    (h : check vk cs z vs π ξs = .ok b) (hw : π'.w.length = π.w.length) :
    ∃ a, accumulate 0 0 cs vs ξs = .ok a ∧ b = decide (defectCombined vk a.1 a.2.1 z π = 0)
      ∧ check vk cs z vs π' ξs = .ok (decide (defectCombined vk a.1 a.2.1 z π' = 0)) := by
  obtain ⟨hnv, a, ha, h1, h2, hb⟩ := check_ok_inv vk cs z vs π ξs b h
  refine ⟨a, ha, hb, ?_⟩
  unfold check
  rw [if_neg (not_not.mpr (by rw [hw]; exact hnv)), ha]
  simp only
  rw [if_neg (by rw [hw]; omega)]

theorem batchDefect_wrong_count (vk : VK F) (cs : List F) (zs : List (List F)) (vs : List F)
    (πs : List (Proof F)) (rs : List F) (h : πs.length ≠ zs.length) :
    batchDefect vk cs zs vs πs rs = .error .abort := by
  unfold batchDefect; rw [if_pos h]

theorem batchDefect_wrong_witness_count (vk : VK F) (cs : List F) (zs : List (List F))
    (vs : List F) (πs : List (Proof F)) (rs : List F) (hl : πs.length = zs.length)
    (π : Proof F) (hπ : π ∈ πs) (hw : π.w.length ≠ vk.numVars) :
    batchDefect vk cs zs vs πs rs = .error .incorrectInputLength := by
  unfold batchDefect
  rw [if_neg (not_not.mpr hl)]
  have : πs.any (fun π => decide (π.w.length ≠ vk.numVars)) = true :=
    List.any_eq_true.2 ⟨π, hπ, by simpa using hw⟩
  rw [if_pos this]

/-- an answer of `batch_check` means: one proof per point, every proof with one witness per key
variable -/
theorem batchCheck_ok_inv (vk : VK F) (cs : List F) (zs : List (List F)) (vs : List F)
    (πs : List (Proof F)) (rs : List F) (b : Bool) (h : batchCheck vk cs zs vs πs rs = .ok b) :
    πs.length = zs.length ∧ ∀ π ∈ πs, π.w.length = vk.numVars := by
  unfold batchCheck at h
  by_cases hl : πs.length = zs.length
  · refine ⟨hl, ?_⟩
    intro π hπ
    by_contra hw
    rw [batchDefect_wrong_witness_count vk cs zs vs πs rs hl π hπ hw] at h
    cases h
  · rw [batchDefect_wrong_count vk cs zs vs πs rs hl] at h
    cases h

/-- **the accumulation is linear** in (commitments, values): moving them by `(dcs, dvs)` moves the
result by the accumulation of the differences under the same challenges -/
theorem accumulate_add (ca va da db : F) (cs vs dcs dvs ξs : List F)
    (hl1 : dcs.length = cs.length) (hl2 : dvs.length = vs.length)
    (out : F × F × List F) (h : accumulate ca va cs vs ξs = .ok out)
    (dout : F × F × List F) (hd : accumulate da db dcs dvs ξs = .ok dout) :
    accumulate (ca + da) (va + db) (List.zipWith (· + ·) cs dcs) (List.zipWith (· + ·) vs dvs) ξs
      = .ok (out.1 + dout.1, out.2.1 + dout.2.1, out.2.2) ∧ dout.2.2 = out.2.2 := by
  induction cs generalizing ca va da db vs dcs dvs ξs with
  | nil =>
    cases dcs with
    | nil =>
      simp only [accumulate] at h hd
      injection h with h; injection hd with hd
      subst h; subst hd
      simp [accumulate]
    | cons _ _ => simp at hl1
  | cons c cs ih =>
    cases dcs with
    | nil => simp at hl1
    | cons dc dcs =>
      cases vs with
      | nil =>
        cases dvs with
        | nil =>
          simp only [accumulate] at h hd
          injection h with h; injection hd with hd
          subst h; subst hd
          simp [accumulate]
        | cons _ _ => simp at hl2
      | cons v vs =>
        cases dvs with
        | nil => simp at hl2
        | cons dv dvs =>
          cases ξs with
          | nil => simp [accumulate] at h
          | cons ξ ξs =>
            simp only [accumulate] at h hd
            have := ih (ca + c * ξ) (va + v * ξ) (da + dc * ξ) (db + dv * ξ) vs dcs dvs ξs
              (by simpa using hl1) (by simpa using hl2) h hd
            simp only [List.zipWith_cons_cons, accumulate]
            have e1 : ca + da + (c + dc) * ξ = ca + c * ξ + (da + dc * ξ) := by ring
            have e2 : va + db + (v + dv) * ξ = va + v * ξ + (db + dv * ξ) := by ring
            rw [e1, e2]
            exact this

theorem decide_shift_false (D s : F) (h0 : D = 0) (hs : s ≠ 0) : decide (D + s = 0) = false := by
  rw [decide_eq_false_iff_not, h0, zero_add]
  exact hs

end Answers

/-! ### refusals of `commit` / `open`; one commitment per polynomial -/

section Refusals
variable [DecidableEq F]

theorem commit_degree_refused (ck : CK F) (p : MVPoly F) (hb : Option Nat) (rng : Bool)
    (draws : List F) (h : degreeMV p > ck.supportedDegree) :
    commit ck p hb rng draws = .error .tooManyCoefficients := by
  unfold commit checkDegree
  rw [if_pos h]

theorem commit_unpublished_monomial (ck : CK F) (p : MVPoly F) (hb : Option Nat) (rng : Bool)
    (draws : List F) (hd : degreeMV p ≤ ck.supportedDegree) (t : Term) (ht : t ∈ termsOf p)
    (hm : mapGet ck.powersOfG t = none) : commit ck p hb rng draws = .error .abort := by
  unfold commit
  have : checkDegree ck.supportedDegree p = .ok () := (checkDegree_ok _ p).2 (by omega)
  rw [this]
  simp only [msmBy_missing ck.powersOfG p t ht hm]

/-- under the key of a trapdoor over monomials in `nv` variables, a monomial that uses a variable
`≥ nv` is not published -/
theorem wfCK_unpublished (g γ : F) (β : List F) (ts : List Term) (nv s D m : Nat)
    (hts : ∀ u ∈ ts, Term.varsBelow nv u = true) (t : Term) (q : Nat × Nat) (hq : q ∈ t)
    (hv : nv ≤ q.1) : mapGet (wfCK g γ β ts nv s D m).powersOfG t = none := by
  simp only [wfCK]
  have hnot : t ∉ ts := by
    intro hin
    have := (varsBelow_iff nv t).1 (hts t hin) q hq
    omega
  clear hts
  induction ts with
  | nil => rfl
  | cons a ts ih =>
    simp only [List.map_cons, mapGet]
    simp only [List.mem_cons, not_or] at hnot
    rw [if_neg (fun hx => hnot.1 hx.symm)]
    exact ih hnot.2

theorem commit_missing_rng (ck : CK F) (p : MVPoly F) (hbv : Nat) (draws : List F)
    (out : F × MVPoly F × List F) : commit ck p (some hbv) false draws ≠ .ok out := by
  intro h
  obtain ⟨c, r, rest⟩ := out
  have := (commit_some ck p hbv false draws c r rest h).1
  cases this

theorem open_degree_refused (ck : CK F) (nvp nvr : Nat) (p : MVPoly F) (ps : List (MVPoly F))
    (z : List F) (r : MVPoly F) (rs : List (MVPoly F)) (ξs : List F)
    (h : degreeMV p > ck.supportedDegree) :
    PST.open ck nvp nvr (p :: ps) z (r :: rs) ξs = .error .tooManyCoefficients := by
  unfold PST.open
  simp only [combine, checkDegree, if_pos h]

theorem openCombined_index_refused (ck : CK F) (nvp nvr : Nat) (p r : MVPoly F) (z : List F)
    (h : divideOk nvp p z = false) : openCombined ck nvp nvr p r z = .error .abort := by
  unfold openCombined
  simp [h]

theorem commitList_lengths (ck : CK F) (phs : List (MVPoly F × Option Nat)) (rng : Bool)
    (draws : List F) (cs : List F) (rs : List (MVPoly F)) (rest : List F)
    (h : commitList ck phs rng draws = .ok (cs, rs, rest)) :
    cs.length = phs.length ∧ rs.length = phs.length := by
  induction phs generalizing draws cs rs with
  | nil =>
    simp only [commitList] at h
    injection h with h
    injection h with h1 h2
    injection h2 with h2 h3
    subst h1; subst h2
    exact ⟨rfl, rfl⟩
  | cons ph phs ih =>
    simp only [commitList] at h
    split at h
    · cases h
    · rename_i r1 hr1
      split at h
      · cases h
      · rename_i rs1 hrs1
        injection h with h
        injection h with h1 h2
        injection h2 with h2 h3
        subst h1; subst h2; subst h3
        obtain ⟨i1, i2⟩ := ih r1.2.2 rs1.1 rs1.2.1 (by rw [hrs1])
        exact ⟨by simp [i1], by simp [i2]⟩

end Refusals

end PST
end PCV
