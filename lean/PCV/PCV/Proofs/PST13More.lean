/-
  PCV.Proofs.PST13More — further lemmas about the MarlinPST13 model for the per-property files
  C03 / C08 / C09 / C10 / C17 / C19 (`Props/Cxx_PST13.lean`):
  the commitment as the key-defined sum over the term list; how single proof components move the
  pairing defect; `setup` publishes `g·monomial(β⃗)`; refusals; shapes.
-/
import PCV.Proofs.PST13
import PCV.Proofs.CombCompleteSetup
set_option linter.unusedSectionVars false
set_option linter.unusedVariables false

namespace PCV
namespace PST
open MV
variable {F : Type} [Field F]

/-! ### the key-defined sum `Σ coeff · f(term)` over a term list -/

/-- `Σ coeff · f(term)`: with `f` the lookup in the committer key this is the MSM of `commit` -/
def keySum (f : Term → F) : MVPoly F → F
  | [] => 0
  | ct :: p => ct.1 * f ct.2 + keySum f p

@[simp] theorem keySum_nil (f : Term → F) : keySum f ([] : MVPoly F) = 0 := rfl
@[simp] theorem keySum_cons (f : Term → F) (ct : F × Term) (p : MVPoly F) :
    keySum f (ct :: p) = ct.1 * f ct.2 + keySum f p := rfl

theorem keySum_append (f : Term → F) (p q : MVPoly F) :
    keySum f (p ++ q) = keySum f p + keySum f q := by
  induction p with
  | nil => simp
  | cons a p ih => simp only [List.cons_append, keySum_cons, ih]; ring

theorem keySum_scaleMV (f : Term → F) (a : F) (p : MVPoly F) :
    keySum f (scaleMV a p) = a * keySum f p := by
  induction p with
  | nil => simp [scaleMV]
  | cons ct p ih =>
    simp only [scaleMV, List.map_cons, keySum_cons] at ih ⊢
    rw [ih]; ring

theorem keySum_perm (f : Term → F) (p q : MVPoly F) (h : p.Perm q) : keySum f p = keySum f q := by
  induction h with
  | nil => rfl
  | cons x _ ih => simp only [keySum_cons, ih]
  | swap x y l => simp only [keySum_cons]; ring
  | trans _ _ ih1 ih2 => rw [ih1, ih2]

theorem keySum_insertTerm (f : Term → F) (a : F × Term) (l : MVPoly F) :
    keySum f (insertTerm a l) = a.1 * f a.2 + keySum f l := by
  induction l with
  | nil => rfl
  | cons b l ih =>
    simp only [insertTerm]
    split
    · simp only [keySum_cons, ih]; ring
    · simp only [keySum_cons]

theorem keySum_sortTerms (f : Term → F) (l : MVPoly F) : keySum f (sortTerms l) = keySum f l := by
  induction l with
  | nil => rfl
  | cons a l ih => simp only [sortTerms, keySum_insertTerm, ih, keySum_cons]

theorem keySum_combineTermsAux (f : Term → F) (prev : F × Term) (l : MVPoly F) :
    keySum f (combineTermsAux prev l) = prev.1 * f prev.2 + keySum f l := by
  induction l generalizing prev with
  | nil => simp [combineTermsAux]
  | cons q l ih =>
    simp only [combineTermsAux]
    split
    · rename_i h
      rw [ih]; simp only [keySum_cons, h]; ring
    · simp only [keySum_cons, ih]

theorem keySum_combineTerms (f : Term → F) (l : MVPoly F) :
    keySum f (combineTerms l) = keySum f l := by
  cases l with
  | nil => rfl
  | cons q l => simp only [combineTerms, keySum_combineTermsAux, keySum_cons]

theorem keySum_removeZeros [DecidableEq F] (f : Term → F) (p : MVPoly F) :
    keySum f (removeZeros p) = keySum f p := by
  induction p with
  | nil => rfl
  | cons a p ih =>
    unfold removeZeros at ih ⊢
    rw [List.filter_cons]
    by_cases h : a.1 = 0
    · simp [h, ih]
    · simp [h, ih]

/-- duplicate terms are merged, zero terms dropped, the order changed: the key-defined sum stays -/
theorem keySum_fromCoeffs [DecidableEq F] (f : Term → F) (l : MVPoly F) :
    keySum f (fromCoeffs l) = keySum f l := by
  unfold fromCoeffs
  rw [keySum_removeZeros, keySum_combineTerms, keySum_sortTerms]

theorem keySum_mergeMV [DecidableEq F] (f : Term → F) (n : Nat) (p q : MVPoly F)
    (hp : ∀ t ∈ termsOf p, Term.wf t = true) (hq : ∀ t ∈ termsOf q, Term.wf t = true)
    (h : p.length + q.length < n) :
    keySum f (mergeMV n p q) = keySum f p + keySum f q := by
  induction n generalizing p q with
  | zero => omega
  | succ n ih =>
    cases p with
    | nil => simp [mergeMV]
    | cons a p =>
      cases q with
      | nil => simp [mergeMV]
      | cons b q =>
        simp only [mergeMV]
        simp only [List.length_cons] at h
        have hp' : ∀ t ∈ termsOf p, Term.wf t = true := fun t ht => hp t (by simp [termsOf] at ht ⊢; exact Or.inr ht)
        have hq' : ∀ t ∈ termsOf q, Term.wf t = true := fun t ht => hq t (by simp [termsOf] at ht ⊢; exact Or.inr ht)
        split
        · rw [keySum_cons, ih p (b :: q) hp' hq (by simp only [List.length_cons]; omega)]
          simp only [keySum_cons]; ring
        · split
          · rename_i heq
            have hab : a.2 = b.2 := Term.cmp_eq (hp a.2 (by simp [termsOf])) (hq b.2 (by simp [termsOf])) heq
            rw [keySum_cons, ih p q hp' hq' (by omega)]
            simp only [keySum_cons, hab]; ring
          · rw [keySum_cons, ih (a :: p) q hp hq' (by simp only [List.length_cons]; omega)]
            simp only [keySum_cons]; ring

/-- `p += (a, q)` (terms built by `SparseTerm::new`) adds `a` times the key-defined sum -/
theorem keySum_addScaledMV [DecidableEq F] (f : Term → F) (p q : MVPoly F) (a : F)
    (hp : ∀ t ∈ termsOf p, Term.wf t = true) (hq : ∀ t ∈ termsOf q, Term.wf t = true) :
    keySum f (addScaledMV p a q) = keySum f p + a * keySum f q := by
  unfold addScaledMV addMV
  rw [keySum_removeZeros, keySum_mergeMV f _ _ _ hp (by rw [termsOf_scaleMV]; exact hq) (by omega),
    keySum_scaleMV]

theorem keySum_all_zero (f : Term → F) (p : MVPoly F) (h : ∀ ct ∈ p, ct.1 = 0) : keySum f p = 0 := by
  induction p with
  | nil => rfl
  | cons a p ih =>
    rw [keySum_cons, h a (by simp), ih (fun ct hct => h ct (by simp [hct]))]; ring

/-- with `f = g·(monomial at β⃗)` the key-defined sum is `g·p(β⃗)` -/
theorem keySum_eval (g : F) (β : List F) (p : MVPoly F) :
    keySum (fun t => g * evalTerm t β) p = g * evalMV p β := by
  induction p with
  | nil => simp
  | cons ct p ih => simp only [keySum_cons, evalMV_cons, ih]; ring

section Dec
variable [DecidableEq F]

/-- the element the committer key publishes for a monomial (`0`: none) -/
def keyOf (ck : CK F) (t : Term) : F := (mapGet ck.powersOfG t).getD 0

theorem msmBy_keySum (m : List (Term × F)) (p : MVPoly F) (x : F)
    (h : msmBy (lookG m) p = .ok x) : x = keySum (fun t => (mapGet m t).getD 0) p := by
  induction p generalizing x with
  | nil =>
    simp only [msmBy] at h
    injection h with h
    simp [← h]
  | cons ct p ih =>
    simp only [msmBy] at h
    split at h
    · cases h
    · rename_i b hb
      split at h
      · cases h
      · rename_i acc hacc
        injection h with h
        rw [← h, keySum_cons, ih acc hacc]
        unfold lookG at hb
        split at hb
        · cases hb
        · rename_i b' hb'
          injection hb with hb
          rw [hb', ← hb]
          rfl

theorem msmBy_ok_of_present (m : List (Term × F)) (p : MVPoly F)
    (h : ∀ t ∈ termsOf p, (mapGet m t).isSome = true) :
    msmBy (lookG m) p = .ok (keySum (fun t => (mapGet m t).getD 0) p) := by
  induction p with
  | nil => rfl
  | cons ct p ih =>
    have h1 := h ct.2 (by simp [termsOf])
    have h2 := ih (fun t ht => h t (by simp only [termsOf, List.map_cons, List.mem_cons] at ht ⊢; exact Or.inr ht))
    cases hb : mapGet m ct.2 with
    | none => rw [hb] at h1; simp at h1
    | some b => simp only [msmBy, lookG, hb, h2, keySum_cons, Option.getD_some]

theorem msmBy_missing (m : List (Term × F)) (p : MVPoly F) (t : Term) (ht : t ∈ termsOf p)
    (h : mapGet m t = none) : msmBy (lookG m) p = .error .abort := by
  induction p with
  | nil => simp [termsOf] at ht
  | cons ct p ih =>
    simp only [termsOf, List.map_cons, List.mem_cons] at ht
    simp only [msmBy]
    by_cases hc : ct.2 = t
    · simp only [lookG, hc, h]
    · have hin : t ∈ termsOf p := by
        rcases ht with ht | ht
        · exact absurd ht.symm hc
        · exact ht
      cases hl : lookG m ct.2 with
      | error e =>
        unfold lookG at hl
        split at hl
        · injection hl with hl; rw [← hl]
        · cases hl
      | ok b => simp only [ih hin]

/-- **`commit` without hiding is the key-defined sum**, for an arbitrary committer key: whatever is
returned is `Σ coeff · powers_of_g[term]` over the term list as given, no blinding, RNG untouched. -/
theorem commit_plain_keySum (ck : CK F) (p : MVPoly F) (rng : Bool) (draws : List F) (c : F)
    (r : MVPoly F) (rest : List F) (h : commit ck p none rng draws = .ok (c, r, rest)) :
    c = keySum (keyOf ck) p ∧ r = [] ∧ rest = draws ∧ degreeMV p ≤ ck.supportedDegree := by
  unfold commit at h
  split at h
  · cases h
  · rename_i hdeg
    have hd := (checkDegree_ok ck.supportedDegree p).1 hdeg
    split at h
    · cases h
    · rename_i c0 hc0
      simp only at h
      injection h with h
      injection h with h1 h2
      injection h2 with h2 h3
      exact ⟨by rw [← h1]; exact msmBy_keySum _ p c0 hc0, h2.symm, h3.symm, by omega⟩

/-- conversely: within the supported degree and with every monomial published, `commit` answers -/
theorem commit_plain_ok (ck : CK F) (p : MVPoly F) (rng : Bool) (draws : List F)
    (hd : degreeMV p ≤ ck.supportedDegree)
    (hk : ∀ t ∈ termsOf p, (mapGet ck.powersOfG t).isSome = true) :
    commit ck p none rng draws = .ok (keySum (keyOf ck) p, [], draws) := by
  unfold commit
  have : checkDegree ck.supportedDegree p = .ok () := (checkDegree_ok _ p).2 (by omega)
  rw [this]
  simp only [msmBy_ok_of_present ck.powersOfG p hk]
  rfl

end Dec

end PST
end PCV
