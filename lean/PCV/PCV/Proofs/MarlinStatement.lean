/-
  PCV.Proofs.MarlinStatement — how the decision of `MarlinKZG10::check` moves when the STATEMENT is
  changed under a fixed proof: commitments replaced (plain and shifted parts), the point replaced.
  (Claimed values: `check_perturbed_iff` in MarlinMore.)
-/
import PCV.Proofs.MarlinMore

set_option linter.unusedSectionVars false
set_option linter.unusedVariables false

namespace PCV
namespace Marlin

variable {F : Type} [Field F] [DecidableEq F]

/-- add `(δc, δs)` to the plain / shifted part of each commitment (a missing shifted part stays missing) -/
def addComms : List (LComm F) → List (F × F) → List (LComm F)
  | c :: cs, d :: ds =>
    ⟨c.label, ⟨c.comm.comm + d.1, c.comm.shifted.map (· + d.2)⟩, c.bound⟩ :: addComms cs ds
  | cs, _ => cs

/-- the weight with which the commitment perturbations enter `Ĉ`: `Σ ξⱼ·δcⱼ + ξ′ⱼ·δsⱼ` -/
def commWeight : List (LComm F) → List (F × F) → List F → F
  | c :: cs, d :: ds, ξ :: ξs' =>
    match c.bound, c.comm.shifted with
    | some _, some _ =>
      match ξs' with
      | [] => 0
      | ξ' :: ξs'' => ξ * d.1 + ξ' * d.2 + commWeight cs ds ξs''
    | _, _ => ξ * d.1 + commWeight cs ds ξs'
  | _, _, _ => 0

theorem accumulate_addComms (vk : VK F) (cs : List (LComm F)) (ds : List (F × F)) (vs ξs : List F)
    (hlen : ds.length = cs.length) (hv : vs.length = cs.length) (C V : F) (rest : List F)
    (ha : accumulate vk cs vs ξs = .ok ((C, V), rest)) :
    accumulate vk (addComms cs ds) vs ξs = .ok ((C + commWeight cs ds ξs, V), rest) := by
  induction cs generalizing ds vs ξs C V rest with
  | nil =>
    have : ds = [] := List.eq_nil_of_length_eq_zero (by simpa using hlen)
    subst this
    simp only [addComms, commWeight, add_zero]; exact ha
  | cons c cs ih =>
    cases ds with
    | nil => simp at hlen
    | cons d ds =>
      have hlen' : ds.length = cs.length := by simpa using hlen
      cases vs with
      | nil => simp at hv
      | cons v vs =>
        have hv' : vs.length = cs.length := by simpa using hv
        simp only [addComms, accumulate] at ha ⊢
        split at ha
        · cases ha
        · rename_i hassert
          have hassert' : ¬ (c.bound.isSome ≠ (c.comm.shifted.map (· + d.2)).isSome) := by
            simpa using hassert
          rw [if_neg hassert']
          cases ξs with
          | nil => cases ha
          | cons ξ ξs' =>
            simp only at ha ⊢
            cases hb : c.bound with
            | none =>
              rw [hb] at ha
              simp only at ha ⊢
              split at ha
              · cases ha
              · rename_i C0 V0 rest0 hrec
                injection ha with ha; injection ha with h1 h2; injection h1 with h1 h3
                subst h1; subst h3; subst h2
                rw [ih ds vs ξs' hlen' hv' C0 V0 rest0 hrec]
                simp only [commWeight, hb]
                congr 2; congr 1; ring
            | some b =>
              rw [hb] at ha
              cases hs : c.comm.shifted with
              | none =>
                rw [hs] at ha
                simp only [Option.map_none] at ha ⊢
                split at ha
                · cases ha
                · rename_i C0 V0 rest0 hrec
                  injection ha with ha; injection ha with h1 h2; injection h1 with h1 h3
                  subst h1; subst h3; subst h2
                  rw [ih ds vs ξs' hlen' hv' C0 V0 rest0 hrec]
                  simp only [commWeight, hb, hs]
                  congr 2; congr 1; ring
              | some s =>
                rw [hs] at ha
                simp only [Option.map_some] at ha ⊢
                cases ξs' with
                | nil => cases ha
                | cons ξ' ξs'' =>
                  simp only at ha ⊢
                  split at ha
                  · cases ha
                  · rename_i sp hsp
                    split at ha
                    · cases ha
                    · rename_i C0 V0 rest0 hrec
                      injection ha with ha; injection ha with h1 h2; injection h1 with h1 h3
                      subst h1; subst h3; subst h2
                      rw [ih ds vs ξs'' hlen' hv' C0 V0 rest0 hrec]
                      simp only [commWeight, hb, hs]
                      congr 2; congr 1; ring

/-- **Replaced commitments.** From an accepted transcript, adding `(δc, δs)` to the commitments is
accepted iff `h·Σ(ξⱼ·δcⱼ + ξ′ⱼ·δsⱼ) = 0`. -/
theorem check_addComms_iff (vk : VK F) (cs : List (LComm F)) (ds : List (F × F)) (z : F)
    (vs ξs : List F) (π : KZG.Proof F) (rest : List F)
    (hlen : ds.length = cs.length) (hv : vs.length = cs.length)
    (hacc : check vk cs z vs π ξs = .ok (true, rest)) :
    check vk (addComms cs ds) z vs π ξs = .ok (true, rest)
      ↔ vk.vk.h * commWeight cs ds ξs = 0 := by
  unfold check at hacc ⊢
  split at hacc
  · cases hacc
  · rename_i C V rest0 ha
    injection hacc with hacc; injection hacc with h1 h2
    rw [accumulate_addComms vk cs ds vs ξs hlen hv C V rest0 ha, h2]
    simp only
    rw [KZG.check_iff_defect] at h1
    constructor
    · intro hx
      injection hx with hx; injection hx with hx _
      rw [KZG.check_iff_defect] at hx
      unfold KZG.defect at h1 hx
      linear_combination hx - h1
    · intro hx
      have : KZG.check vk.vk (C + commWeight cs ds ξs) z V π = true := by
        rw [KZG.check_iff_defect]
        unfold KZG.defect at h1 ⊢
        linear_combination h1 + hx
      rw [this]

/-- **Replaced point.** `accumulate` does not read the point, so a transcript accepted at `z` is
accepted at `z'` iff `h·W·(z' − z) = 0`: with `h ≠ 0` and `z' ≠ z`, only when the witness element is
the identity. -/
theorem check_other_point_iff (vk : VK F) (cs : List (LComm F)) (z z' : F) (vs ξs : List F)
    (π : KZG.Proof F) (rest : List F)
    (hacc : check vk cs z vs π ξs = .ok (true, rest)) :
    check vk cs z' vs π ξs = .ok (true, rest) ↔ vk.vk.h * π.w * (z' - z) = 0 := by
  unfold check at hacc ⊢
  split at hacc
  · cases hacc
  · rename_i C V rest0 ha
    injection hacc with hacc; injection hacc with h1 h2
    rw [h2]
    rw [KZG.check_iff_defect] at h1
    constructor
    · intro hx
      injection hx with hx; injection hx with hx _
      rw [KZG.check_iff_defect] at hx
      unfold KZG.defect at h1 hx
      linear_combination hx - h1
    · intro hx
      have : KZG.check vk.vk C z' V π = true := by
        rw [KZG.check_iff_defect]
        unfold KZG.defect at h1 ⊢
        linear_combination h1 + hx
      rw [this]

end Marlin
end PCV
