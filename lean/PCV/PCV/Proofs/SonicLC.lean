import PCV.Model.SonicLC
import PCV.Proofs.SonicBatchComplete

set_option linter.unusedSectionVars false
set_option linter.unusedVariables false
set_option linter.unusedSimpArgs false

namespace PCV
namespace Sonic
open Marlin (Label LPoly Query sortDedup checkDegreesAndBounds groupQueries lookupLast lookupEval)

variable {F : Type} [Field F] [DecidableEq F]

/-! ### last-write-wins lookups -/

theorem lookup_foldl_mem {α : Type} (lbl : α → Label) (l : Label) (xs : List α) (x : α)
    (acc : Option α)
    (h : xs.foldl (fun acc x => if lbl x = l then some x else acc) acc = some x) :
    acc = some x ∨ (x ∈ xs ∧ lbl x = l) := by
  induction xs generalizing acc with
  | nil => left; simpa using h
  | cons y ys ih =>
    simp only [List.foldl_cons] at h
    rcases ih _ h with h1 | ⟨h1, h2⟩
    · by_cases hy : lbl y = l
      · rw [if_pos hy] at h1
        injection h1 with h1
        subst h1
        right; exact ⟨by simp, hy⟩
      · rw [if_neg hy] at h1
        left; exact h1
    · right; exact ⟨by simp [h1], h2⟩

theorem lookupLast_mem {α : Type} (lbl : α → Label) (l : Label) (xs : List α) (x : α)
    (h : lookupLast lbl l xs = some x) : x ∈ xs ∧ lbl x = l := by
  unfold lookupLast at h
  rcases lookup_foldl_mem lbl l xs x none h with h1 | h1
  · cases h1
  · exact h1

/-- lookups in two lists related element by element by `f` -/
theorem lookup_foldl_map {α β : Type} (la : α → Label) (lb : β → Label) (f : α → β)
    (hf : ∀ a, lb (f a) = la a) (l : Label) (xs : List α) (acc : Option α) :
    (xs.map f).foldl (fun acc x => if lb x = l then some x else acc) (acc.map f)
      = (xs.foldl (fun acc x => if la x = l then some x else acc) acc).map f := by
  induction xs generalizing acc with
  | nil => rfl
  | cons y ys ih =>
    simp only [List.map_cons, List.foldl_cons, hf]
    by_cases hy : la y = l
    · simp only [hy, if_true]; exact ih (some y)
    · simp only [hy, if_false]; exact ih acc

theorem lookupLast_map {α β : Type} (la : α → Label) (lb : β → Label) (f : α → β)
    (hf : ∀ a, lb (f a) = la a) (l : Label) (xs : List α) :
    lookupLast lb l (xs.map f) = (lookupLast la l xs).map f := by
  unfold lookupLast
  exact lookup_foldl_map la lb f hf l xs none

/-! ### honest base triples -/

/-- every entry of `label_map` is an honest (polynomial, state, commitment) triple whose commitment
carries the polynomial's label -/
def TripsGood (ck : CK F) (vk : VK F) (g γ β h : F) (s shb : Nat) (trips : List (Trip F)) : Prop :=
  ∀ t ∈ trips, Good ck vk g γ β h s shb t.2.2 t.1 t.2.1 ∧ t.2.2.label = t.1.label

theorem labelMap_good (ck : CK F) (vk : VK F) (g γ β h : F) (s shb : Nat)
    (cs : List (LComm F)) (ps : List (LPoly F)) (rs : List (List F))
    (hh : Honest ck vk g γ β h s shb cs ps rs) (hl : SameLabels cs ps) :
    TripsGood ck vk g γ β h s shb (labelMap ps rs cs) := by
  induction ps generalizing cs rs with
  | nil => intro t ht; simp [labelMap] at ht
  | cons p ps ih =>
    cases cs with
    | nil => exact absurd hl (by simp [SameLabels])
    | cons c cs =>
      cases rs with
      | nil => exact absurd hh (by simp [Honest])
      | cons r rs =>
        obtain ⟨hgood, hrest⟩ := hh
        obtain ⟨hlab, hlrest⟩ := hl
        intro t ht
        simp only [labelMap, List.zip_cons_cons, List.mem_cons] at ht
        rcases ht with rfl | ht
        · exact ⟨hgood, hlab⟩
        · exact ih cs rs hrest hlrest t ht

/-- the commitments list is the list of third components of `label_map` -/
theorem labelMap_comms (ck : CK F) (vk : VK F) (g γ β h : F) (s shb : Nat)
    (cs : List (LComm F)) (ps : List (LPoly F)) (rs : List (List F))
    (hh : Honest ck vk g γ β h s shb cs ps rs) :
    (labelMap ps rs cs).map (fun (t : Trip F) => t.2.2) = cs := by
  induction ps generalizing cs rs with
  | nil =>
    cases cs with
    | nil => rfl
    | cons _ _ => cases rs <;> exact absurd hh (by simp [Honest])
  | cons p ps ih =>
    cases cs with
    | nil => cases rs <;> exact absurd hh (by simp [Honest])
    | cons c cs =>
      cases rs with
      | nil => exact absurd hh (by simp [Honest])
      | cons r rs =>
        simp only [labelMap, List.zip_cons_cons, List.map_cons]
        congr 1
        exact ih cs rs hh.2

/-! ### the prover's combination loop -/

/-- the contribution of one term to the combined polynomial's value at `z` (constants: none) -/
def termPolyValue (trips : List (Trip F)) (z : F) (t : F × LC.LCTerm) : F :=
  match t.2 with
  | .one => 0
  | .poly l =>
    match lookupLast (fun (t : Trip F) => t.1.label) l trips with
    | none => 0
    | some x => t.1 * evalPoly x.1.poly z

/-- `Σ cᵢ·pᵢ(z)` over the polynomial terms of a combination: the value of the combined polynomial -/
def lcPolyValue (trips : List (Trip F)) (z : F) : List (F × LC.LCTerm) → F
  | [] => 0
  | t :: ts => termPolyValue trips z t + lcPolyValue trips z ts

/-- the three ways a step of the prover's loop succeeds -/
theorem lcStep_cases (trips : List (Trip F)) (k : Nat) (acc acc' : LCAcc F) (term : F × LC.LCTerm)
    (hs : lcStep trips k acc term = .ok acc') :
    (term.2 = .one ∧ acc' = acc) ∨
    (∃ l t, term.2 = .poly l ∧ lookupLast (fun (t : Trip F) => t.1.label) l trips = some t ∧
      t.1.bound = none ∧ acc' = acc.addTerm term.1 t) ∨
    (∃ l t, term.2 = .poly l ∧ lookupLast (fun (t : Trip F) => t.1.label) l trips = some t ∧
      t.1.bound.isSome = true ∧ k = 1 ∧ term.1 = 1 ∧
      acc' = ({ acc with bound := t.1.bound } : LCAcc F).addTerm 1 t) := by
  unfold lcStep at hs
  cases ht : term.2 with
  | one =>
    rw [ht] at hs
    simp only at hs
    injection hs with hs
    exact Or.inl ⟨rfl, hs.symm⟩
  | poly l =>
    rw [ht] at hs
    simp only at hs
    cases hl : lookupLast (fun (t : Trip F) => t.1.label) l trips with
    | none => rw [hl] at hs; cases hs
    | some t =>
      rw [hl] at hs
      simp only at hs
      by_cases hb : t.1.bound.isSome = true
      · by_cases hk : k = 1
        · rw [if_pos ⟨hk, hb⟩] at hs
          by_cases hc : term.1 = 1
          · rw [if_neg (by simpa using hc)] at hs
            injection hs with hs
            refine Or.inr (Or.inr ⟨l, t, rfl, hl, hb, hk, hc, ?_⟩)
            rw [← hs, hc]
          · rw [if_pos hc] at hs; cases hs
        · rw [if_neg (by intro hx; exact hk hx.1), if_pos hb] at hs; cases hs
      · rw [if_neg (by intro hx; exact hb hx.2), if_neg hb] at hs
        injection hs with hs
        refine Or.inr (Or.inl ⟨l, t, rfl, hl, ?_, hs.symm⟩)
        cases hx : t.1.bound with
        | none => rfl
        | some _ => rw [hx] at hb; simp at hb

/-- the invariant of the prover's loop while no degree bound has been taken over: paired with `h`
the accumulated commitment is `h·(g·P(β) + γ·R(β))` for the accumulated polynomials `P`, `R` -/
def AccInv (vk : VK F) (g γ β h : F) (s shb : Nat) (a : LCAcc F) : Prop :=
  a.bound = none ∧ a.comm * vk.h = h * (g * evalPoly a.poly β + γ * evalPoly a.rand β) ∧
  (pnorm a.poly).length ≤ s + 1 ∧ (pnorm a.rand).length ≤ shb + 2

theorem accInv_init (vk : VK F) (g γ β h : F) (s shb : Nat) :
    AccInv vk g γ β h s shb (LCAcc.init : LCAcc F) := by
  refine ⟨rfl, ?_, by simp [LCAcc.init, pnorm], by simp [LCAcc.init, pnorm]⟩
  simp [LCAcc.init, evalPoly]

theorem addTerm_inv (ck : CK F) (vk : VK F) (g γ β h : F) (s shb : Nat) (a : LCAcc F) (coeff : F)
    (t : Trip F) (hi : AccInv vk g γ β h s shb a)
    (hg : Good ck vk g γ β h s shb t.2.2 t.1 t.2.1) (hb : t.1.bound = none) (z : F) :
    AccInv vk g γ β h s shb (a.addTerm coeff t) ∧
      evalPoly (a.addTerm coeff t).poly z = evalPoly a.poly z + coeff * evalPoly t.1.poly z := by
  obtain ⟨i1, i2, i3, i4⟩ := hi
  obtain ⟨hbd, ⟨σ, hσ, hcσ⟩, hpl, hrl, _⟩ := hg
  rw [hbd, hb] at hσ
  simp only [VK.shiftOf, Option.some.injEq] at hσ
  subst hσ
  refine ⟨⟨i1, ?_, ?_, ?_⟩, ?_⟩
  · simp only [LCAcc.addTerm, eval_padd, eval_pscale]
    linear_combination i2 + coeff * hcσ
  · exact pnorm_padd_le _ _ _ i3 (pnorm_pscale_le _ _ _ hpl)
  · exact pnorm_padd_le _ _ _ i4 (pnorm_pscale_le _ _ _ hrl)
  · simp only [LCAcc.addTerm, eval_padd, eval_pscale]

/-- the loop over a combination with `lc.len() ≠ 1`: only unbounded polynomials pass -/
theorem lcLoop_inv (ck : CK F) (vk : VK F) (g γ β h : F) (s shb : Nat) (trips : List (Trip F))
    (htr : TripsGood ck vk g γ β h s shb trips) (k : Nat) (hk : k ≠ 1)
    (ts : List (F × LC.LCTerm)) (acc acc' : LCAcc F) (hi : AccInv vk g γ β h s shb acc)
    (hs : lcLoop trips k acc ts = .ok acc') (z : F) :
    AccInv vk g γ β h s shb acc' ∧
      evalPoly acc'.poly z = evalPoly acc.poly z + lcPolyValue trips z ts := by
  induction ts generalizing acc with
  | nil =>
    simp only [lcLoop] at hs
    injection hs with hs; subst hs
    exact ⟨hi, by simp [lcPolyValue]⟩
  | cons t ts ih =>
    simp only [lcLoop] at hs
    split at hs
    · cases hs
    · rename_i acc1 h1
      have hstep : AccInv vk g γ β h s shb acc1 ∧
          evalPoly acc1.poly z = evalPoly acc.poly z + termPolyValue trips z t := by
        rcases lcStep_cases trips k acc acc1 t h1 with ⟨ht, rfl⟩ | ⟨l, x, ht, hl, hb, rfl⟩ |
            ⟨_, _, _, _, _, hk1, _⟩
        · exact ⟨hi, by simp [termPolyValue, ht]⟩
        · obtain ⟨hmem, _⟩ := lookupLast_mem _ l trips x hl
          obtain ⟨a1, a2⟩ := addTerm_inv ck vk g γ β h s shb acc t.1 x hi (htr x hmem).1 hb z
          exact ⟨a1, by rw [a2]; simp [termPolyValue, ht, hl]⟩
        · exact absurd hk1 hk
      obtain ⟨hi2, hv2⟩ := ih acc1 hstep.1 hs
      refine ⟨hi2, ?_⟩
      rw [hv2, hstep.2]
      simp only [lcPolyValue]; ring

theorem padd_nil_left (q : List F) : padd ([] : List F) q = q := by
  cases q <;> simp [padd]

theorem pscale_one (p : List F) : pscale (1 : F) p = p := by
  simp [pscale]

/-- **C06 core (Sonic).**  A combination that `open_combinations` accepts, over honest triples, is
itself an honest triple under the same keys — with a degree bound exactly when it is a single term
of coefficient one naming a bounded polynomial — its commitment carries the combination's label,
and its polynomial evaluates to the combination of the evaluations. -/
theorem combineLC_good (ck : CK F) (vk : VK F) (g γ β h : F) (s shb : Nat) (trips : List (Trip F))
    (htr : TripsGood ck vk g γ β h s shb trips) (lc : LC.LinComb F) (res : Trip F)
    (hc : combineLC trips lc = .ok res) :
    Good ck vk g γ β h s shb res.2.2 res.1 res.2.1 ∧ res.2.2.label = lc.label ∧
      res.1.label = lc.label ∧ ∀ z, evalPoly res.1.poly z = lcPolyValue trips z lc.terms := by
  unfold combineLC at hc
  split at hc
  · cases hc
  · rename_i a ha
    injection hc with hc; subst hc
    refine ⟨?_, rfl, rfl, ?_⟩
    · by_cases hk : lc.terms.length = 1
      · -- a single term
        obtain ⟨t, hts⟩ := List.length_eq_one_iff.1 hk
        rw [hts] at ha
        simp only [List.length_singleton, lcLoop] at ha
        split at ha
        · cases ha
        · rename_i a1 h1
          injection ha with ha; subst ha
          rcases lcStep_cases trips 1 LCAcc.init a1 t h1 with ⟨_, rfl⟩ | ⟨l, x, _, hl, hb, rfl⟩ |
              ⟨l, x, _, hl, hb, _, _, rfl⟩
          · obtain ⟨i1, i2, i3, i4⟩ := accInv_init vk g γ β h s shb
            exact ⟨rfl, ⟨vk.h, by simp [i1, VK.shiftOf], i2⟩, i3, i4, by simp [i1, checkDegreesAndBounds]⟩
          · obtain ⟨hmem, _⟩ := lookupLast_mem _ l trips x hl
            obtain ⟨⟨i1, i2, i3, i4⟩, _⟩ := addTerm_inv ck vk g γ β h s shb LCAcc.init t.1 x
              (accInv_init vk g γ β h s shb) (htr x hmem).1 hb 0
            exact ⟨rfl, ⟨vk.h, by simp [i1, VK.shiftOf], i2⟩, i3, i4, by simp [i1, checkDegreesAndBounds]⟩
          · obtain ⟨hmem, _⟩ := lookupLast_mem _ l trips x hl
            obtain ⟨hbd, ⟨σ, hσ, hcσ⟩, hpl, hrl, hdb⟩ := (htr x hmem).1
            refine ⟨rfl, ⟨σ, ?_, ?_⟩, ?_, ?_, ?_⟩
            · simp only [LCAcc.addTerm]; rw [← hbd]; exact hσ
            · simp only [LCAcc.addTerm, LCAcc.init, padd_nil_left, pscale_one]
              linear_combination hcσ
            · simp only [LCAcc.addTerm, LCAcc.init, padd_nil_left, pscale_one]; exact hpl
            · simp only [LCAcc.addTerm, LCAcc.init, padd_nil_left, pscale_one]; exact hrl
            · simp only [LCAcc.addTerm, LCAcc.init, padd_nil_left, pscale_one]; exact hdb
      · obtain ⟨⟨i1, i2, i3, i4⟩, _⟩ := lcLoop_inv ck vk g γ β h s shb trips htr _ hk lc.terms
          LCAcc.init a (accInv_init vk g γ β h s shb) ha 0
        exact ⟨rfl, ⟨vk.h, by simp [i1, VK.shiftOf], i2⟩, i3, i4, by simp [i1, checkDegreesAndBounds]⟩
    · intro z
      by_cases hk : lc.terms.length = 1
      · obtain ⟨t, hts⟩ := List.length_eq_one_iff.1 hk
        rw [hts] at ha ⊢
        simp only [List.length_singleton, lcLoop] at ha
        split at ha
        · cases ha
        · rename_i a1 h1
          injection ha with ha; subst ha
          rcases lcStep_cases trips 1 LCAcc.init a1 t h1 with ⟨ht, rfl⟩ | ⟨l, x, ht, hl, hb, rfl⟩ |
              ⟨l, x, ht, hl, hb, _, hc1, rfl⟩
          · simp [lcPolyValue, termPolyValue, ht, LCAcc.init, evalPoly]
          · simp only [lcPolyValue, termPolyValue, ht, hl, LCAcc.addTerm, LCAcc.init, padd_nil_left,
              eval_pscale, add_zero]
          · simp only [lcPolyValue, termPolyValue, ht, hl, hc1, LCAcc.addTerm, LCAcc.init, padd_nil_left,
              pscale_one, add_zero, one_mul]
      · obtain ⟨_, hv⟩ := lcLoop_inv ck vk g γ β h s shb trips htr _ hk lc.terms
          LCAcc.init a (accInv_init vk g γ β h s shb) ha z
        simpa [LCAcc.init, evalPoly] using hv

/-- all combinations together: honest aligned lists, labelled like the combinations -/
theorem combineAll_good (ck : CK F) (vk : VK F) (g γ β h : F) (s shb : Nat) (trips : List (Trip F))
    (htr : TripsGood ck vk g γ β h s shb trips) (lcs : List (LC.LinComb F)) (ts : List (Trip F))
    (hc : combineAll trips lcs = .ok ts) :
    Honest ck vk g γ β h s shb (ts.map (·.2.2)) (ts.map (·.1)) (ts.map (·.2.1)) ∧
      SameLabels (ts.map (·.2.2)) (ts.map (·.1)) := by
  induction lcs generalizing ts with
  | nil =>
    simp only [combineAll] at hc
    injection hc with hc; subst hc
    exact ⟨trivial, trivial⟩
  | cons lc lcs ih =>
    simp only [combineAll] at hc
    split at hc
    · cases hc
    · rename_i t h1
      split at hc
      · cases hc
      · rename_i ts' h2
        injection hc with hc; subst hc
        obtain ⟨hg, hl1, hl2, _⟩ := combineLC_good ck vk g γ β h s shb trips htr lc t h1
        obtain ⟨hh, hs⟩ := ih ts' h2
        exact ⟨⟨hg, hh⟩, ⟨by rw [hl1, hl2], hs⟩⟩

/-- relation between the combination list and the combined triples, position by position -/
def Combined (trips : List (Trip F)) : List (LC.LinComb F) → List (Trip F) → Prop
  | [], [] => True
  | lc :: lcs, t :: ts => combineLC trips lc = .ok t ∧ Combined trips lcs ts
  | _, _ => False

theorem combineAll_combined (trips : List (Trip F)) (lcs : List (LC.LinComb F)) (ts : List (Trip F))
    (hc : combineAll trips lcs = .ok ts) : Combined trips lcs ts := by
  induction lcs generalizing ts with
  | nil =>
    simp only [combineAll] at hc
    injection hc with hc; subst hc; trivial
  | cons lc lcs ih =>
    simp only [combineAll] at hc
    split at hc
    · cases hc
    · rename_i t h1
      split at hc
      · cases hc
      · rename_i ts' h2
        injection hc with hc; subst hc
        exact ⟨h1, ih ts' h2⟩

/-- the label of a combined triple is the combination's -/
theorem combineLC_label (trips : List (Trip F)) (lc : LC.LinComb F) (t : Trip F)
    (h : combineLC trips lc = .ok t) : t.1.label = lc.label := by
  unfold combineLC at h
  split at h
  · cases h
  · injection h with h; subst h; rfl

/-- the batch prover's lookup of a combination label finds the combination of the LAST combination
carrying that label -/
theorem lookup_combined (trips : List (Trip F)) (l : Label) (lcs : List (LC.LinComb F))
    (ts : List (Trip F)) (hc : Combined trips lcs ts)
    (a : Option (LC.LinComb F)) (b : Option (LPoly F × List F))
    (hab : (a = none ∧ b = none) ∨ ∃ lc t, a = some lc ∧ b = some (t.1, t.2.1) ∧ combineLC trips lc = .ok t) :
    let a' := lcs.foldl (fun acc (x : LC.LinComb F) => if x.label = l then some x else acc) a
    let b' := ((ts.map (·.1)).zip (ts.map (·.2.1))).foldl
      (fun acc (x : LPoly F × List F) => if x.1.label = l then some x else acc) b
    (a' = none ∧ b' = none) ∨
      ∃ lc t, a' = some lc ∧ b' = some ((t : Trip F).1, t.2.1) ∧ combineLC trips lc = .ok t := by
  induction lcs generalizing ts a b with
  | nil =>
    cases ts with
    | nil => simpa using hab
    | cons _ _ => exact absurd hc (by simp [Combined])
  | cons lc lcs ih =>
    cases ts with
    | nil => exact absurd hc (by simp [Combined])
    | cons t ts =>
      obtain ⟨h1, hrest⟩ := hc
      simp only [List.map_cons, List.zip_cons_cons, List.foldl_cons]
      apply ih ts hrest
      rw [combineLC_label trips lc t h1]
      by_cases hl : lc.label = l
      · simp only [hl, if_true]
        exact Or.inr ⟨lc, t, rfl, rfl, h1⟩
      · simp only [hl, if_false]
        exact hab

/-! ### the verifier's loop computes the prover's commitments -/

/-- the commitments the verifier holds are the ones of `label_map`, found under the same labels and
carrying the polynomials' bounds -/
def Aligned (trips : List (Trip F)) (comms : List (LComm F)) : Prop :=
  (∀ l, lookupLast (fun (c : LComm F) => c.label) l comms
      = (lookupLast (fun (t : Trip F) => t.1.label) l trips).map (·.2.2)) ∧
  ∀ t ∈ trips, t.2.2.bound = t.1.bound

theorem aligned_of_good (ck : CK F) (vk : VK F) (g γ β h : F) (s shb : Nat) (trips : List (Trip F))
    (htr : TripsGood ck vk g γ β h s shb trips) :
    Aligned trips (trips.map (·.2.2)) := by
  refine ⟨fun l => ?_, fun t ht => (htr t ht).1.1⟩
  -- the lookup by commitment label equals the lookup by polynomial label on honest triples
  unfold lookupLast
  suffices ∀ (xs : List (Trip F)) (acc : Option (Trip F)), (∀ t ∈ xs, t.2.2.label = t.1.label) →
      (xs.map (·.2.2)).foldl (fun acc (x : LComm F) => if x.label = l then some x else acc) (acc.map (·.2.2))
        = (xs.foldl (fun acc (x : Trip F) => if x.1.label = l then some x else acc) acc).map (·.2.2) from
    this trips none (fun t ht => (htr t ht).2)
  intro xs
  induction xs with
  | nil => intro acc _; rfl
  | cons y ys ih =>
    intro acc hy
    simp only [List.map_cons, List.foldl_cons]
    rw [hy y (by simp)]
    by_cases hl : y.1.label = l
    · simp only [hl, if_true]; exact ih (some y) (fun t ht => hy t (by simp [ht]))
    · simp only [hl, if_false]; exact ih acc (fun t ht => hy t (by simp [ht]))

/-- what one term does to the verifier's evaluation map -/
def termEvals (lbl : Label) (term : F × LC.LCTerm) (evals : List ((Label × F) × F)) :
    List ((Label × F) × F) :=
  match term.2 with
  | .one => subConst lbl term.1 evals
  | .poly _ => evals

/-- what one combination does to the verifier's evaluation map -/
def termsEvals (lbl : Label) : List (F × LC.LCTerm) → List ((Label × F) × F) → List ((Label × F) × F)
  | [], evals => evals
  | t :: ts, evals => termsEvals lbl ts (termEvals lbl t evals)

/-- what all combinations do to the verifier's evaluation map -/
def adjustEvals : List (LC.LinComb F) → List ((Label × F) × F) → List ((Label × F) × F)
  | [], evals => evals
  | lc :: lcs, evals => adjustEvals lcs (termsEvals lc.label lc.terms evals)

/-- the verifier's view of a prover-side result -/
def stepView (lbl : Label) (term : F × LC.LCTerm) (evals : List ((Label × F) × F)) :
    Except Err (LCAcc F) → Except Err (VAcc F)
  | .error e => .error e
  | .ok a => .ok ⟨a.comm, a.bound, termEvals lbl term evals⟩

/-- **Prover and verifier apply the same policy and form the same commitment**, term by term:
same refusal (same error), same accumulated commitment, same degree bound. -/
theorem lcStepV_eq (trips : List (Trip F)) (comms : List (LComm F)) (hal : Aligned trips comms)
    (lbl : Label) (k : Nat) (acc : LCAcc F) (vacc : VAcc F) (term : F × LC.LCTerm)
    (hc : vacc.comm = acc.comm) (hb : vacc.bound = acc.bound) :
    lcStepV comms lbl k vacc term = stepView lbl term vacc.evals (lcStep trips k acc term) := by
  unfold lcStepV lcStep
  cases ht : term.2 with
  | one =>
    simp only [stepView, termEvals, ht, hc, hb]
  | poly l =>
    simp only
    rw [hal.1 l]
    cases hl : lookupLast (fun (t : Trip F) => t.1.label) l trips with
    | none => simp only [Option.map_none, stepView]
    | some t =>
      obtain ⟨hmem, _⟩ := lookupLast_mem _ l trips t hl
      have hbt := hal.2 t hmem
      simp only [Option.map_some, hbt]
      by_cases h1 : k = 1 ∧ t.1.bound.isSome = true
      · simp only [h1, and_self, if_true]
        by_cases h2 : term.1 = 1
        · simp only [h2, ne_eq, not_true_eq_false, if_false, stepView, termEvals, ht, LCAcc.addTerm, hc, hbt]
        · simp only [h2, ne_eq, not_false_eq_true, if_true, stepView]
      · rw [if_neg h1, if_neg h1]
        by_cases h3 : t.1.bound.isSome = true
        · simp only [h3, if_true, stepView]
        · simp only [h3, Bool.false_eq_true, if_false, stepView, termEvals, ht, LCAcc.addTerm, hc, hb]

def loopView (lbl : Label) (ts : List (F × LC.LCTerm)) (evals : List ((Label × F) × F)) :
    Except Err (LCAcc F) → Except Err (VAcc F)
  | .error e => .error e
  | .ok a => .ok ⟨a.comm, a.bound, termsEvals lbl ts evals⟩

theorem lcLoopV_eq (trips : List (Trip F)) (comms : List (LComm F)) (hal : Aligned trips comms)
    (lbl : Label) (k : Nat) (ts : List (F × LC.LCTerm)) (acc : LCAcc F) (vacc : VAcc F)
    (hc : vacc.comm = acc.comm) (hb : vacc.bound = acc.bound) :
    lcLoopV comms lbl k vacc ts = loopView lbl ts vacc.evals (lcLoop trips k acc ts) := by
  induction ts generalizing acc vacc with
  | nil =>
    simp only [lcLoopV, lcLoop, loopView, termsEvals]
    cases vacc; simp only at hc hb; subst hc; subst hb; rfl
  | cons t ts ih =>
    simp only [lcLoopV, lcLoop]
    rw [lcStepV_eq trips comms hal lbl k acc vacc t hc hb]
    cases hs : lcStep trips k acc t with
    | error e => simp only [stepView, loopView]
    | ok acc1 =>
      simp only [stepView]
      rw [ih acc1 ⟨acc1.comm, acc1.bound, termEvals lbl t vacc.evals⟩ rfl rfl]
      cases lcLoop trips k acc1 ts <;> simp only [loopView, termsEvals]

def lcView (lc : LC.LinComb F) (evals : List ((Label × F) × F)) :
    Except Err (Trip F) → Except Err (LComm F × List ((Label × F) × F))
  | .error e => .error e
  | .ok t => .ok (t.2.2, termsEvals lc.label lc.terms evals)

theorem combineLCV_eq (trips : List (Trip F)) (comms : List (LComm F)) (hal : Aligned trips comms)
    (evals : List ((Label × F) × F)) (lc : LC.LinComb F) :
    combineLCV comms evals lc = lcView lc evals (combineLC trips lc) := by
  unfold combineLCV combineLC
  rw [lcLoopV_eq trips comms hal lc.label lc.terms.length lc.terms LCAcc.init ⟨0, none, evals⟩ rfl rfl]
  cases lcLoop trips lc.terms.length LCAcc.init lc.terms with
  | error e => simp only [loopView, lcView]
  | ok a => simp only [loopView, lcView]

def allView (lcs : List (LC.LinComb F)) (evals : List ((Label × F) × F)) :
    Except Err (List (Trip F)) → Except Err (List (LComm F) × List ((Label × F) × F))
  | .error e => .error e
  | .ok ts => .ok (ts.map (·.2.2), adjustEvals lcs evals)

/-- **The verifier's pass over the combinations** returns the prover's combined commitments (or
the prover's refusal), and the evaluation map with every constant subtracted. -/
theorem combineAllV_eq (trips : List (Trip F)) (comms : List (LComm F)) (hal : Aligned trips comms)
    (lcs : List (LC.LinComb F)) (evals : List ((Label × F) × F)) :
    combineAllV comms lcs evals = allView lcs evals (combineAll trips lcs) := by
  induction lcs generalizing evals with
  | nil => simp only [combineAllV, combineAll, allView, adjustEvals, List.map_nil]
  | cons lc lcs ih =>
    simp only [combineAllV, combineAll]
    rw [combineLCV_eq trips comms hal evals lc]
    cases h1 : combineLC trips lc with
    | error e => simp only [lcView, allView]
    | ok t =>
      simp only [lcView]
      rw [ih]
      cases h2 : combineAll trips lcs with
      | error e => simp only [allView]
      | ok ts => simp only [allView, adjustEvals, List.map_cons]

/-! ### the evaluation map after the verifier's pass: claimed value minus constants -/

/-- the sum of the constant terms of a combination -/
def lcConstant : List (F × LC.LCTerm) → F
  | [] => 0
  | t :: ts => (match t.2 with | .one => t.1 | .poly _ => 0) + lcConstant ts

/-- the constants subtracted from a claimed value labelled `l`: those of EVERY combination carrying
the label `l` (for distinct combination labels: of the one combination) -/
def constSum (lcs : List (LC.LinComb F)) (l : Label) : F :=
  match lcs with
  | [] => 0
  | lc :: rest => (if l = lc.label then lcConstant lc.terms else 0) + constSum rest l

/-- subtract `f label` from every value -/
def shiftEvals (f : Label → F) (evals : List ((Label × F) × F)) : List ((Label × F) × F) :=
  evals.map fun e => (e.1, e.2 - f e.1.1)

theorem shiftEvals_zero (f : Label → F) (hf : ∀ l, f l = 0) (evals : List ((Label × F) × F)) :
    shiftEvals f evals = evals := by
  unfold shiftEvals
  induction evals with
  | nil => rfl
  | cons e es ih =>
    simp only [List.map_cons, hf, sub_zero] at ih ⊢
    rw [ih]

theorem shiftEvals_comp (f g : Label → F) (evals : List ((Label × F) × F)) :
    shiftEvals f (shiftEvals g evals) = shiftEvals (fun l => g l + f l) evals := by
  unfold shiftEvals
  rw [List.map_map]
  apply List.map_congr_left
  intro e _
  simp only [Function.comp]
  congr 1
  ring

theorem subConst_shift (lbl : Label) (c : F) (evals : List ((Label × F) × F)) :
    subConst lbl c evals = shiftEvals (fun l => if l = lbl then c else 0) evals := by
  unfold subConst shiftEvals
  apply List.map_congr_left
  intro e _
  by_cases h : e.1.1 = lbl
  · simp only [h, if_true]
  · simp only [h, if_false, sub_zero]

theorem termsEvals_shift (lbl : Label) (ts : List (F × LC.LCTerm)) (evals : List ((Label × F) × F)) :
    termsEvals lbl ts evals = shiftEvals (fun l => if l = lbl then lcConstant ts else 0) evals := by
  induction ts generalizing evals with
  | nil =>
    simp only [termsEvals, lcConstant]
    rw [shiftEvals_zero _ (fun l => by simp)]
  | cons t ts ih =>
    simp only [termsEvals]
    rw [ih]
    cases ht : t.2 with
    | one =>
      simp only [termEvals, ht]
      rw [subConst_shift, shiftEvals_comp]
      congr 1
      funext l
      by_cases h : l = lbl <;> simp [h, lcConstant, ht]
    | poly x =>
      simp only [termEvals, ht]
      congr 1
      funext l
      by_cases h : l = lbl <;> simp [h, lcConstant, ht]

theorem adjustEvals_shift (lcs : List (LC.LinComb F)) (evals : List ((Label × F) × F)) :
    adjustEvals lcs evals = shiftEvals (constSum lcs) evals := by
  induction lcs generalizing evals with
  | nil =>
    simp only [adjustEvals]
    rw [shiftEvals_zero _ (fun l => by simp [constSum])]
  | cons lc lcs ih =>
    simp only [adjustEvals]
    rw [ih, termsEvals_shift, shiftEvals_comp]
    rfl

theorem lookupEval_shift (f : Label → F) (evals : List ((Label × F) × F)) (l : Label) (z : F) :
    lookupEval (shiftEvals f evals) l z = (lookupEval evals l z).map (· - f l) := by
  unfold lookupEval shiftEvals
  suffices ∀ (acc : Option F),
      (evals.map fun e => (e.1, e.2 - f e.1.1)).foldl
          (fun acc (e : (Label × F) × F) => if e.1 = (l, z) then some e.2 else acc) (acc.map (· - f l))
        = (evals.foldl (fun acc (e : (Label × F) × F) => if e.1 = (l, z) then some e.2 else acc) acc).map
            (· - f l) from this none
  induction evals with
  | nil => intro acc; rfl
  | cons e es ih =>
    intro acc
    simp only [List.map_cons, List.foldl_cons]
    by_cases h : e.1 = (l, z)
    · have h1 : e.1.1 = l := by rw [h]
      simp only [h, if_true, h1]
      exact ih (some e.2)
    · simp only [h, if_false]
      exact ih acc

/-- **What the batch verifier is handed for a claim**: the claimed value minus the constants of the
combinations carrying its label. -/
theorem lookupEval_adjust (lcs : List (LC.LinComb F)) (evals : List ((Label × F) × F)) (l : Label)
    (z : F) :
    lookupEval (adjustEvals lcs evals) l z = (lookupEval evals l z).map (· - constSum lcs l) := by
  rw [adjustEvals_shift, lookupEval_shift]

/-- distinct combination labels: the constants subtracted are those of the one combination -/
theorem constSum_of_nodup (lcs : List (LC.LinComb F)) (hnd : (lcs.map (·.label)).Nodup)
    (lc : LC.LinComb F) (hm : lc ∈ lcs) : constSum lcs lc.label = lcConstant lc.terms := by
  induction lcs with
  | nil => simp at hm
  | cons x xs ih =>
    simp only [List.map_cons, List.nodup_cons] at hnd
    simp only [constSum]
    rcases List.mem_cons.1 hm with rfl | hm'
    · have hz : constSum xs lc.label = 0 := by
        have : ∀ (ys : List (LC.LinComb F)), lc.label ∉ ys.map (·.label) → constSum ys lc.label = 0 := by
          intro ys
          induction ys with
          | nil => intro _; rfl
          | cons y ys ih2 =>
            intro hy
            simp only [List.map_cons, List.mem_cons, not_or] at hy
            simp only [constSum, if_neg hy.1, zero_add]
            exact ih2 hy.2
        exact this xs hnd.1
      simp [hz]
    · have hne : lc.label ≠ x.label := by
        intro e
        exact hnd.1 (by rw [← e]; exact List.mem_map_of_mem hm')
      simp only [if_neg hne, zero_add]
      exact ih hnd.2 hm'

/-! ### the verifier's functions that also return the unused challenges -/

theorem batchLoopT_fst (vk : VK F) (its : List (Item F)) (πs : List (KZG.Proof F)) (ρ : F)
    (rs ξs : List F) (acc : CMap F × F × F) :
    batchLoop vk its πs ρ rs ξs acc = (batchLoopT vk its πs ρ rs ξs acc).map (·.1) := by
  induction its generalizing πs ρ rs ξs acc with
  | nil => simp [batchLoop, batchLoopT, Except.map]
  | cons it its ih =>
    cases πs with
    | nil => simp [batchLoop, batchLoopT, Except.map]
    | cons π πs =>
      simp only [batchLoop, batchLoopT]
      cases accumulate vk it.1 it.2.1 it.2.2 π ξs ρ acc with
      | error e => simp [Except.map]
      | ok x => simp only; exact ih _ _ _ _ _

/-- `batchCheckT` makes the decision of `batchCheck` -/
theorem batchCheckT_fst (vk : VK F) (comms : List (LComm F)) (qs : List (Query F))
    (evals : List ((Label × F) × F)) (πs : List (KZG.Proof F)) (ξs rs : List F) :
    batchCheck vk comms qs evals πs ξs rs = (batchCheckT vk comms qs evals πs ξs rs).map (·.1) := by
  unfold batchCheck batchCheckT batchCheckItems
  simp only
  split
  · simp [Except.map]
  · cases gatherGroups comms evals (groupQueries qs) with
    | error e => simp [Except.map]
    | ok its =>
      simp only
      rw [batchLoopT_fst]
      cases batchLoopT vk its πs 1 rs ξs ([], 0, 0) with
      | error e => simp [Except.map]
      | ok x =>
        obtain ⟨⟨m, W, A⟩, rest⟩ := x
        simp only [Except.map]
        cases checkElems vk m W A <;> simp

/-- `checkCombinationsT` makes the decision of `checkCombinations` -/
theorem checkCombinationsT_fst (vk : VK F) (comms : List (LComm F)) (lcs : List (LC.LinComb F))
    (qs : List (Query F)) (evals : List ((Label × F) × F)) (πs : List (KZG.Proof F)) (ξs rs : List F) :
    checkCombinations vk comms lcs qs evals πs ξs rs
      = (checkCombinationsT vk comms lcs qs evals πs ξs rs).map (·.1) := by
  unfold checkCombinations checkCombinationsT
  cases combineAllV comms lcs evals with
  | error e => simp [Except.map]
  | ok x => obtain ⟨c, e⟩ := x; simp only; exact batchCheckT_fst vk c qs e πs ξs rs

/-- every group's individual `check` accepts, and the last one leaves the challenges `rest` -/
def AllAcceptTo (vk : VK F) : List (Item F) → List (KZG.Proof F) → List F → List F → Prop
  | it :: its, π :: πs, ξs, rest =>
    ∃ r, check vk it.1 it.2.1 it.2.2 π ξs = .ok (true, r) ∧ AllAcceptTo vk its πs r rest
  | [], [], ξs, rest => ξs = rest
  | _, _, _, _ => False

theorem allAcceptTo_allAccept (vk : VK F) (its : List (Item F)) (πs : List (KZG.Proof F))
    (ξs rest : List F) (h : AllAcceptTo vk its πs ξs rest) : AllAccept vk its πs ξs := by
  induction its generalizing πs ξs with
  | nil => cases πs <;> simp [AllAccept]
  | cons it its ih =>
    cases πs with
    | nil => simp [AllAccept]
    | cons π πs =>
      obtain ⟨r, h1, h2⟩ := h
      exact ⟨r, h1, ih πs r h2⟩

/-- the batch loop leaves exactly the challenges the chain of individual checks leaves -/
theorem batchLoopT_rest (vk : VK F) (its : List (Item F)) (πs : List (KZG.Proof F)) (ρ : F)
    (rs ξs rest : List F) (acc acc' : CMap F × F × F) (r : List F)
    (hall : AllAcceptTo vk its πs ξs rest)
    (h : batchLoopT vk its πs ρ rs ξs acc = .ok (acc', r)) : r = rest := by
  induction its generalizing πs ρ rs ξs acc with
  | nil =>
    cases πs with
    | nil =>
      simp only [batchLoopT] at h
      injection h with h; injection h with _ h2
      rw [← h2]; exact hall
    | cons _ _ => exact absurd hall (by simp [AllAcceptTo])
  | cons it its ih =>
    cases πs with
    | nil => exact absurd hall (by simp [AllAcceptTo])
    | cons π πs =>
      obtain ⟨r1, hc, hrest⟩ := hall
      rw [check_true_iff] at hc
      simp only [batchLoopT, accumulate_eq, hc.1] at h
      exact ih πs _ _ r1 _ hrest h

/-- the trait-default `batch_open` produces, group by group, proofs the individual checks accept,
and the chain of checks ends with the prover's unused challenges -/
theorem batchOpen_allAcceptTo (ck : CK F) (vk : VK F) (g γ β h : F) (s shb : Nat)
    (bi : F) (hb : β * bi = 1) (D : Nat) (bounds : Option (List Nat))
    (ht : trim (wfPP g γ β bi h D) s shb bounds = .ok (ck, vk))
    (cs : List (LComm F)) (ps : List (LPoly F)) (rs : List (List F))
    (hh : Honest ck vk g γ β h s shb cs ps rs) (hl : SameLabels cs ps)
    (evals : List ((Label × F) × F)) (gs : List (Label × (F × List Label)))
    (hev : ∀ gr ∈ gs, ∀ l ∈ gr.2.2, ∀ x,
      lookupLast (fun (x : LPoly F × List F) => x.1.label) l (ps.zip rs) = some x →
      lookupEval evals l gr.2.1 = some (evalPoly x.1.poly gr.2.1))
    (ξs : List F) (πs : List (KZG.Proof F)) (rest : List F)
    (ho : batchOpenGroups ck ps rs gs ξs = .ok (πs, rest)) :
    ∃ its, gatherGroups cs evals gs = .ok its ∧ AllAcceptTo vk its πs ξs rest ∧
      πs.length = gs.length := by
  induction gs generalizing ξs πs rest with
  | nil =>
    simp only [batchOpenGroups] at ho
    injection ho with ho; injection ho with h1 h2
    subst h1
    exact ⟨[], by simp [gatherGroups], h2, rfl⟩
  | cons gr gs ih =>
    simp only [batchOpenGroups] at ho
    split at ho
    · cases ho
    · rename_i psg ssg hgp
      split at ho
      · cases ho
      · rename_i π ξs' hopen
        split at ho
        · cases ho
        · rename_i πs' rest' hrec
          injection ho with ho; injection ho with h1 h2
          subst h1; subst h2
          obtain ⟨csg, hcg, hhg⟩ := gather_aligned ck vk g γ β h s shb cs ps rs hh hl evals gr.2.1 gr.2.2
            (fun l hl' x hx => hev gr (by simp) l hl' x hx) psg ssg hgp
          obtain ⟨its, hits, hacc, hlen⟩ := ih (fun gr' hgr' => hev gr' (List.mem_cons_of_mem _ hgr')) ξs' πs' rest' hrec
          have hchk := open_check_complete g γ β bi h hb D s shb bounds ck vk ht csg psg ssg hhg gr.2.1 ξs π ξs' hopen
          refine ⟨(csg, gr.2.1, psg.map fun p => evalPoly p.poly gr.2.1) :: its, ?_, ⟨ξs', hchk, hacc⟩, by simp [hlen]⟩
          simp only [gatherGroups, hcg, hits]

/-- accepted batches, with the unused challenges: `batch_check` accepts and leaves what the chain of
individual checks leaves -/
theorem batchCheckT_of_allAcceptTo (vk : VK F) (comms : List (LComm F)) (qs : List (Query F))
    (evals : List ((Label × F) × F)) (πs : List (KZG.Proof F)) (ξs rs rest : List F)
    (hlen : πs.length = (groupQueries qs).length) (its : List (Item F))
    (hits : gatherGroups comms evals (groupQueries qs) = .ok its)
    (hall : AllAcceptTo vk its πs ξs rest) :
    batchCheckT vk comms qs evals πs ξs rs = .ok (true, rest) := by
  have hb : batchCheck vk comms qs evals πs ξs rs = .ok true := by
    rw [batchCheck_gathered vk comms qs evals πs ξs rs hlen its hits]
    exact batch_all_true vk its πs ξs rs (allAcceptTo_allAccept vk its πs ξs rest hall)
  rw [batchCheckT_fst] at hb
  unfold batchCheckT at hb ⊢
  simp only [hlen, ne_eq, not_true_eq_false, if_false, hits] at hb ⊢
  cases hloop : batchLoopT vk its πs 1 rs ξs ([], 0, 0) with
  | error e => rw [hloop] at hb; simp [Except.map] at hb
  | ok x =>
    obtain ⟨⟨m, W, A⟩, r⟩ := x
    rw [hloop] at hb
    simp only at hb ⊢
    have hr := batchLoopT_rest vk its πs 1 rs ξs rest ([], 0, 0) (m, W, A) r hall hloop
    subst hr
    cases hce : checkElems vk m W A with
    | error e => rw [hce] at hb; simp [Except.map] at hb
    | ok b =>
      rw [hce] at hb
      simp only [Except.map, Except.ok.injEq] at hb
      simp only [hb]

/-! ### completeness of `open_combinations` → `check_combinations` -/

/-- **Completeness (Sonic's own combination entry points).**  Keys from a trapdoor, commitments from
`commit`, ANY list of combinations the prover answers (zero / negative / repeated coefficients and
labels, constants, single bounded terms), any query set over the combination labels (several
combinations per point label, labels sharing a point): if every claimed value is the value of the
combined polynomial plus the constants subtracted for its label, the verifier accepts — for every
list of randomizers — and is left with the prover's unused challenges. -/
theorem lc_complete (g γ β bi h : F) (hb : β * bi = 1) (D s shb : Nat) (bounds : Option (List Nat))
    (ck : CK F) (vk : VK F) (ht : trim (wfPP g γ β bi h D) s shb bounds = .ok (ck, vk))
    (ps : List (LPoly F)) (rng : Bool) (draws : List F) (cs : List (LComm F)) (rs : List (List F))
    (drest : List F) (hc : commit ck ps rng draws = .ok (cs, rs, drest))
    (lcs : List (LC.LinComb F)) (qs : List (Query F)) (evals : List ((Label × F) × F))
    (hev : ∀ gr ∈ groupQueries qs, ∀ l ∈ gr.2.2, ∀ lc,
      lookupLast (fun (lc : LC.LinComb F) => lc.label) l lcs = some lc →
      lookupEval evals l gr.2.1
        = some (lcPolyValue (labelMap ps rs cs) gr.2.1 lc.terms + constSum lcs l))
    (ξs : List F) (πs : List (KZG.Proof F)) (rest : List F)
    (ho : openCombinations ck ps rs cs lcs qs ξs = .ok (πs, rest)) (vrs : List F) :
    checkCombinationsT vk cs lcs qs evals πs ξs vrs = .ok (true, rest) := by
  have hh := commit_honest g γ β bi h hb D s shb bounds ck vk ht ps rng draws cs rs drest hc
  have hl := commit_labels ck ps rng draws cs rs drest hc
  have htr := labelMap_good ck vk g γ β h s shb cs ps rs hh hl
  have hal := aligned_of_good ck vk g γ β h s shb _ htr
  rw [labelMap_comms ck vk g γ β h s shb cs ps rs hh] at hal
  unfold openCombinations at ho
  unfold checkCombinationsT
  rw [combineAllV_eq _ cs hal lcs evals]
  cases hca : combineAll (labelMap ps rs cs) lcs with
  | error e => rw [hca] at ho; cases ho
  | ok ts =>
    rw [hca] at ho
    simp only [allView] at ho ⊢
    obtain ⟨hh2, hl2⟩ := combineAll_good ck vk g γ β h s shb _ htr lcs ts hca
    have hcomb := combineAll_combined _ lcs ts hca
    unfold batchOpen at ho
    obtain ⟨its, hits, hacc, hlen⟩ := batchOpen_allAcceptTo ck vk g γ β h s shb bi hb D bounds ht
      (ts.map (·.2.2)) (ts.map (·.1)) (ts.map (·.2.1)) hh2 hl2 (adjustEvals lcs evals) (groupQueries qs)
      (by
        intro gr hgr l hlg x hx
        have hlk := lookup_combined (labelMap ps rs cs) l lcs ts hcomb none none (Or.inl ⟨rfl, rfl⟩)
        simp only at hlk
        have hx' : ((ts.map (·.1)).zip (ts.map (·.2.1))).foldl
            (fun acc (x : LPoly F × List F) => if x.1.label = l then some x else acc) none = some x := hx
        rw [hx'] at hlk
        rcases hlk with ⟨_, h2⟩ | ⟨lc, t, h1, h2, h3⟩
        · cases h2
        · injection h2 with h2
          obtain ⟨_, _, _, hval⟩ := combineLC_good ck vk g γ β h s shb _ htr lc t h3
          rw [lookupEval_adjust, hev gr hgr l hlg lc h1, h2]
          simp only [Option.map_some, hval gr.2.1]
          congr 1
          ring)
      ξs πs rest ho
    exact batchCheckT_of_allAcceptTo vk _ qs _ πs ξs vrs rest hlen its hits hacc

/-! ### the degree-bound policy: refusals -/

theorem lcStep_one (trips : List (Trip F)) (k : Nat) (acc : LCAcc F) (term : F × LC.LCTerm)
    (ht : term.2 = .one) : lcStep trips k acc term = .ok acc := by
  unfold lcStep; rw [ht]

theorem lcStep_unbounded (trips : List (Trip F)) (k : Nat) (acc : LCAcc F) (term : F × LC.LCTerm)
    (l : Label) (x : Trip F) (ht : term.2 = .poly l)
    (hl : lookupLast (fun (t : Trip F) => t.1.label) l trips = some x) (hb : x.1.bound = none) :
    lcStep trips k acc term = .ok (acc.addTerm term.1 x) := by
  unfold lcStep
  rw [ht]
  simp only [hl, hb, Option.isSome_none, Bool.false_eq_true, and_false, if_false]

/-- **Policy, prover side, one term.**  A term naming a degree-bounded polynomial: refused with
`EquationHasDegreeBounds` unless the combination has exactly one term; alone, an abort unless its
coefficient is one; an unknown label is `MissingPolynomial`. -/
theorem lcStep_policy (trips : List (Trip F)) (k : Nat) (acc : LCAcc F) (coeff : F) (l : Label)
    (x : Trip F) (hl : lookupLast (fun (t : Trip F) => t.1.label) l trips = some x)
    (hb : x.1.bound.isSome = true) :
    (k ≠ 1 → lcStep trips k acc (coeff, .poly l) = .error .equationHasDegreeBounds) ∧
    (k = 1 → coeff ≠ 1 → lcStep trips k acc (coeff, .poly l) = .error .abort) := by
  constructor
  · intro hk
    unfold lcStep
    simp only [hl]
    rw [if_neg (by intro hx; exact hk hx.1), if_pos hb]
  · intro hk hc
    unfold lcStep
    simp only [hl]
    rw [if_pos ⟨hk, hb⟩, if_pos hc]

theorem lcStep_unknown (trips : List (Trip F)) (k : Nat) (acc : LCAcc F) (coeff : F) (l : Label)
    (hl : lookupLast (fun (t : Trip F) => t.1.label) l trips = none) :
    lcStep trips k acc (coeff, .poly l) = .error .missingPolynomial := by
  unfold lcStep; simp only [hl]

/-- **Policy, verifier side, one term** (reads the commitment's bound). -/
theorem lcStepV_policy (comms : List (LComm F)) (lbl : Label) (k : Nat) (acc : VAcc F) (coeff : F)
    (l : Label) (c : LComm F) (hl : lookupLast (fun (c : LComm F) => c.label) l comms = some c)
    (hb : c.bound.isSome = true) :
    (k ≠ 1 → lcStepV comms lbl k acc (coeff, .poly l) = .error .equationHasDegreeBounds) ∧
    (k = 1 → coeff ≠ 1 → lcStepV comms lbl k acc (coeff, .poly l) = .error .abort) := by
  constructor
  · intro hk
    unfold lcStepV
    simp only [hl]
    rw [if_neg (by intro hx; exact hk hx.1), if_pos hb]
  · intro hk hc
    unfold lcStepV
    simp only [hl]
    rw [if_pos ⟨hk, hb⟩, if_pos hc]

theorem lcStepV_unknown (comms : List (LComm F)) (lbl : Label) (k : Nat) (acc : VAcc F) (coeff : F)
    (l : Label) (hl : lookupLast (fun (c : LComm F) => c.label) l comms = none) :
    lcStepV comms lbl k acc (coeff, .poly l) = .error .missingPolynomial := by
  unfold lcStepV; simp only [hl]

/-- the term names no polynomial, or one the lookup knows -/
def termKnown (bounded : Label → Option Bool) (t : F × LC.LCTerm) : Bool :=
  match t.2 with
  | .one => true
  | .poly l => (bounded l).isSome

/-- the term names a degree-bounded polynomial -/
def termBounded (bounded : Label → Option Bool) (t : F × LC.LCTerm) : Bool :=
  match t.2 with
  | .one => false
  | .poly l => bounded l == some true

/-- a term list that names only known polynomials, one of them degree-bounded -/
def Mixed (bounded : Label → Option Bool) (ts : List (F × LC.LCTerm)) : Prop :=
  ts.all (termKnown bounded) = true ∧ ts.any (termBounded bounded) = true

/-- the prover's view of the labels: `some (has a bound)` for a known polynomial -/
def pBounded (trips : List (Trip F)) (l : Label) : Option Bool :=
  (lookupLast (fun (t : Trip F) => t.1.label) l trips).map fun t => t.1.bound.isSome

/-- the verifier's view of the labels -/
def vBounded (comms : List (LComm F)) (l : Label) : Option Bool :=
  (lookupLast (fun (c : LComm F) => c.label) l comms).map fun c => c.bound.isSome

theorem lcLoop_mixed (trips : List (Trip F)) (k : Nat) (hk : k ≠ 1) (ts : List (F × LC.LCTerm))
    (hm : Mixed (pBounded trips) ts) (acc : LCAcc F) :
    lcLoop trips k acc ts = .error .equationHasDegreeBounds := by
  induction ts generalizing acc with
  | nil => obtain ⟨_, h2⟩ := hm; simp at h2
  | cons t ts ih =>
    obtain ⟨hknown, hany⟩ := hm
    simp only [List.all_cons, Bool.and_eq_true] at hknown
    simp only [List.any_cons, Bool.or_eq_true] at hany
    simp only [lcLoop]
    cases ht : t.2 with
    | one =>
      rw [lcStep_one trips k acc t ht]
      simp only
      apply ih
      refine ⟨hknown.2, ?_⟩
      rcases hany with h | h
      · simp [termBounded, ht] at h
      · exact h
    | poly l =>
      have hk1 := hknown.1
      simp only [termKnown, ht, pBounded] at hk1
      cases hl : lookupLast (fun (t : Trip F) => t.1.label) l trips with
      | none => rw [hl] at hk1; simp at hk1
      | some x =>
        by_cases hb : x.1.bound.isSome = true
        · have : t = (t.1, LC.LCTerm.poly l) := by rw [← ht]
          rw [this, (lcStep_policy trips k acc t.1 l x hl hb).1 hk]
        · have hbn : x.1.bound = none := by
            cases hx : x.1.bound with
            | none => rfl
            | some _ => rw [hx] at hb; simp at hb
          rw [lcStep_unbounded trips k acc t l x ht hl hbn]
          simp only
          apply ih
          refine ⟨hknown.2, ?_⟩
          rcases hany with h | h
          · simp [termBounded, ht, pBounded, hl, hbn] at h
          · exact h

/-- **Refused mixture, prover.**  A combination with `len ≠ 1` (constants counted) whose polynomial
labels are all known and one of which names a degree-bounded polynomial — at any position, with any
coefficients — is refused with `EquationHasDegreeBounds`. -/
theorem combineLC_mixed (trips : List (Trip F)) (lc : LC.LinComb F) (hk : lc.terms.length ≠ 1)
    (hm : Mixed (pBounded trips) lc.terms) :
    combineLC trips lc = .error .equationHasDegreeBounds := by
  unfold combineLC
  rw [lcLoop_mixed trips _ hk lc.terms hm]

theorem lcStepV_one (comms : List (LComm F)) (lbl : Label) (k : Nat) (acc : VAcc F)
    (term : F × LC.LCTerm) (ht : term.2 = .one) :
    lcStepV comms lbl k acc term = .ok { acc with evals := subConst lbl term.1 acc.evals } := by
  unfold lcStepV; rw [ht]

theorem lcStepV_unbounded (comms : List (LComm F)) (lbl : Label) (k : Nat) (acc : VAcc F)
    (term : F × LC.LCTerm) (l : Label) (c : LComm F) (ht : term.2 = .poly l)
    (hl : lookupLast (fun (c : LComm F) => c.label) l comms = some c) (hb : c.bound = none) :
    lcStepV comms lbl k acc term = .ok { acc with comm := acc.comm + term.1 * c.comm } := by
  unfold lcStepV
  rw [ht]
  simp only [hl, hb, Option.isSome_none, Bool.false_eq_true, and_false, if_false]

theorem lcLoopV_mixed (comms : List (LComm F)) (lbl : Label) (k : Nat) (hk : k ≠ 1)
    (ts : List (F × LC.LCTerm)) (hm : Mixed (vBounded comms) ts) (acc : VAcc F) :
    lcLoopV comms lbl k acc ts = .error .equationHasDegreeBounds := by
  induction ts generalizing acc with
  | nil => obtain ⟨_, h2⟩ := hm; simp at h2
  | cons t ts ih =>
    obtain ⟨hknown, hany⟩ := hm
    simp only [List.all_cons, Bool.and_eq_true] at hknown
    simp only [List.any_cons, Bool.or_eq_true] at hany
    simp only [lcLoopV]
    cases ht : t.2 with
    | one =>
      rw [lcStepV_one comms lbl k acc t ht]
      simp only
      apply ih
      refine ⟨hknown.2, ?_⟩
      rcases hany with h | h
      · simp [termBounded, ht] at h
      · exact h
    | poly l =>
      have hk1 := hknown.1
      simp only [termKnown, ht, vBounded] at hk1
      cases hl : lookupLast (fun (c : LComm F) => c.label) l comms with
      | none => rw [hl] at hk1; simp at hk1
      | some x =>
        by_cases hb : x.bound.isSome = true
        · have : t = (t.1, LC.LCTerm.poly l) := by rw [← ht]
          rw [this, (lcStepV_policy comms lbl k acc t.1 l x hl hb).1 hk]
        · have hbn : x.bound = none := by
            cases hx : x.bound with
            | none => rfl
            | some _ => rw [hx] at hb; simp at hb
          rw [lcStepV_unbounded comms lbl k acc t l x ht hl hbn]
          simp only
          apply ih
          refine ⟨hknown.2, ?_⟩
          rcases hany with h | h
          · simp [termBounded, ht, vBounded, hl, hbn] at h
          · exact h

/-- **Refused mixture, verifier** — for ANY commitment list (no honesty assumed): the verifier reads
the bounds off the commitments it is given. -/
theorem combineLCV_mixed (comms : List (LComm F)) (evals : List ((Label × F) × F))
    (lc : LC.LinComb F) (hk : lc.terms.length ≠ 1) (hm : Mixed (vBounded comms) lc.terms) :
    combineLCV comms evals lc = .error .equationHasDegreeBounds := by
  unfold combineLCV
  rw [lcLoopV_mixed comms lc.label _ hk lc.terms hm]

/-- a refusal of one combination is the refusal of the whole call (combinations before it accepted) -/
theorem combineAll_refuses (trips : List (Trip F)) (pre post : List (LC.LinComb F))
    (lc : LC.LinComb F) (e : Err) (tsp : List (Trip F)) (hp : combineAll trips pre = .ok tsp)
    (hlc : combineLC trips lc = .error e) : combineAll trips (pre ++ lc :: post) = .error e := by
  induction pre generalizing tsp with
  | nil => simp only [List.nil_append, combineAll, hlc]
  | cons x xs ih =>
    simp only [combineAll] at hp
    split at hp
    · cases hp
    · rename_i t h1
      split at hp
      · cases hp
      · rename_i ts' h2
        simp only [List.cons_append, combineAll, h1, ih ts' h2]

theorem combineAllV_refuses (comms : List (LComm F)) (pre post : List (LC.LinComb F))
    (lc : LC.LinComb F) (e : Err) (evals : List ((Label × F) × F))
    (csp : List (LComm F)) (evp : List ((Label × F) × F))
    (hp : combineAllV comms pre evals = .ok (csp, evp))
    (hlc : ∀ ev, combineLCV comms ev lc = .error e) :
    combineAllV comms (pre ++ lc :: post) evals = .error e := by
  induction pre generalizing evals csp evp with
  | nil => simp only [List.nil_append, combineAllV, hlc]
  | cons x xs ih =>
    simp only [combineAllV] at hp
    split at hp
    · cases hp
    · rename_i c ev1 h1
      split at hp
      · cases hp
      · rename_i cs' ev2 h2
        simp only [List.cons_append, combineAllV, h1, ih ev1 cs' ev2 h2]

/-! ### how a changed coefficient / constant enters the verifier's statement -/

theorem lcLoopV_comm_add (comms : List (LComm F)) (lbl : Label) (k : Nat)
    (ts : List (F × LC.LCTerm)) (x d : F) (b : Option Nat) (e : List ((Label × F) × F)) :
    lcLoopV comms lbl k ⟨x + d, b, e⟩ ts
      = (lcLoopV comms lbl k ⟨x, b, e⟩ ts).map fun a => { a with comm := a.comm + d } := by
  induction ts generalizing x b e with
  | nil => simp [lcLoopV, Except.map]
  | cons t ts ih =>
    simp only [lcLoopV]
    unfold lcStepV
    cases ht : t.2 with
    | one => simp only; exact ih _ _ _
    | poly l =>
      simp only
      cases lookupLast (fun (c : LComm F) => c.label) l comms with
      | none => simp [Except.map]
      | some c =>
        simp only
        by_cases h1 : k = 1 ∧ c.bound.isSome = true
        · rw [if_pos h1, if_pos h1]
          by_cases h2 : t.1 = 1
          · rw [if_neg (not_not.2 h2), if_neg (not_not.2 h2)]
            simp only
            rw [show x + d + t.1 * c.comm = x + t.1 * c.comm + d by ring]
            exact ih _ _ _
          · rw [if_pos h2, if_pos h2]; rfl
        · rw [if_neg h1, if_neg h1]
          by_cases h3 : c.bound.isSome = true
          · rw [if_pos h3, if_pos h3]; rfl
          · simp only [h3, Bool.false_eq_true, if_false]
            rw [show x + d + t.1 * c.comm = x + t.1 * c.comm + d by ring]
            exact ih _ _ _

/-- **A changed coefficient** of a term naming the unbounded commitment `cl`: the same refusals, the
same bound and evaluations, and the combined commitment moves by `δ·cl`. -/
theorem lcLoopV_coeff (comms : List (LComm F)) (lbl : Label) (k : Nat)
    (pre post : List (F × LC.LCTerm)) (c δ : F) (l : Label) (cl : LComm F)
    (hl : lookupLast (fun (c : LComm F) => c.label) l comms = some cl) (hb : cl.bound = none)
    (v0 : VAcc F) :
    lcLoopV comms lbl k v0 (pre ++ (c + δ, .poly l) :: post)
      = (lcLoopV comms lbl k v0 (pre ++ (c, .poly l) :: post)).map
          fun a => { a with comm := a.comm + δ * cl.comm } := by
  induction pre generalizing v0 with
  | nil =>
    simp only [List.nil_append, lcLoopV]
    rw [lcStepV_unbounded comms lbl k v0 (c + δ, .poly l) l cl rfl hl hb,
      lcStepV_unbounded comms lbl k v0 (c, .poly l) l cl rfl hl hb]
    simp only
    rw [show v0.comm + (c + δ) * cl.comm = v0.comm + c * cl.comm + δ * cl.comm by ring]
    exact lcLoopV_comm_add comms lbl k post _ _ _ _
  | cons t ts ih =>
    simp only [List.cons_append, lcLoopV]
    cases lcStepV comms lbl k v0 t with
    | error e => simp [Except.map]
    | ok v1 => simp only; exact ih v1

theorem lcConstant_change (pre post : List (F × LC.LCTerm)) (c δ : F) :
    lcConstant (pre ++ (c + δ, .one) :: post) = lcConstant (pre ++ (c, .one) :: post) + δ := by
  induction pre with
  | nil => simp only [List.nil_append, lcConstant]; ring
  | cons t ts ih => simp only [List.cons_append, lcConstant, ih]; ring

theorem lcConstant_coeff (pre post : List (F × LC.LCTerm)) (c c' : F) (l : Label) :
    lcConstant (pre ++ (c', .poly l) :: post) = lcConstant (pre ++ (c, .poly l) :: post) := by
  induction pre with
  | nil => simp only [List.nil_append, lcConstant]
  | cons t ts ih => simp only [List.cons_append, lcConstant, ih]

/-- **A changed constant term** of the combination at position `|A|` of the list: the constants
subtracted from claims carrying its label grow by `δ`, those of other labels stay. -/
theorem constSum_change (A B : List (LC.LinComb F)) (lbl : Label) (pre post : List (F × LC.LCTerm))
    (c δ : F) (l : Label) :
    constSum (A ++ ⟨lbl, pre ++ (c + δ, .one) :: post⟩ :: B) l
      = constSum (A ++ ⟨lbl, pre ++ (c, .one) :: post⟩ :: B) l + (if l = lbl then δ else 0) := by
  induction A with
  | nil =>
    simp only [List.nil_append, constSum, lcConstant_change]
    by_cases h : l = lbl
    · simp [h]; ring
    · simp [h]
  | cons x xs ih => simp only [List.cons_append, constSum, ih]; ring

/-- **A changed coefficient, one combination.** -/
theorem combineLCV_coeff (comms : List (LComm F)) (evals : List ((Label × F) × F)) (lbl : Label)
    (pre post : List (F × LC.LCTerm)) (c δ : F) (l : Label) (cl : LComm F)
    (hl : lookupLast (fun (c : LComm F) => c.label) l comms = some cl) (hb : cl.bound = none) :
    combineLCV comms evals ⟨lbl, pre ++ (c + δ, .poly l) :: post⟩
      = (combineLCV comms evals ⟨lbl, pre ++ (c, .poly l) :: post⟩).map
          fun r => ({ r.1 with comm := r.1.comm + δ * cl.comm }, r.2) := by
  unfold combineLCV
  have hlen : (pre ++ (c + δ, LC.LCTerm.poly l) :: post).length
      = (pre ++ (c, LC.LCTerm.poly l) :: post).length := by simp
  simp only [hlen]
  rw [lcLoopV_coeff comms lbl _ pre post c δ l cl hl hb]
  cases lcLoopV comms lbl (pre ++ (c, LC.LCTerm.poly l) :: post).length ⟨0, none, evals⟩
      (pre ++ (c, LC.LCTerm.poly l) :: post) with
  | error e => simp [Except.map]
  | ok a => simp [Except.map]

/-! ### the verifier's evaluation map, for any commitment list -/

theorem lcStepV_evals (comms : List (LComm F)) (lbl : Label) (k : Nat) (acc acc' : VAcc F)
    (term : F × LC.LCTerm) (h : lcStepV comms lbl k acc term = .ok acc') :
    acc'.evals = termEvals lbl term acc.evals := by
  unfold lcStepV at h
  cases ht : term.2 with
  | one =>
    rw [ht] at h; simp only at h
    injection h with h; subst h
    simp only [termEvals, ht]
  | poly l =>
    rw [ht] at h; simp only at h
    simp only [termEvals, ht]
    split at h
    · cases h
    · split at h
      · split at h
        · cases h
        · injection h with h; subst h; rfl
      · split at h
        · cases h
        · injection h with h; subst h; rfl

theorem lcLoopV_evals (comms : List (LComm F)) (lbl : Label) (k : Nat) (ts : List (F × LC.LCTerm))
    (acc acc' : VAcc F) (h : lcLoopV comms lbl k acc ts = .ok acc') :
    acc'.evals = termsEvals lbl ts acc.evals := by
  induction ts generalizing acc with
  | nil =>
    simp only [lcLoopV] at h
    injection h with h; subst h; rfl
  | cons t ts ih =>
    simp only [lcLoopV] at h
    split at h
    · cases h
    · rename_i a1 h1
      rw [ih a1 h, lcStepV_evals comms lbl k acc a1 t h1]
      rfl

/-- whatever commitments the verifier is given: if its pass over the combinations succeeds, the
evaluation map it hands to `batch_check` is the claimed one with the constants subtracted -/
theorem combineAllV_evals (comms : List (LComm F)) (lcs : List (LC.LinComb F))
    (evals : List ((Label × F) × F)) (cs' : List (LComm F)) (ev' : List ((Label × F) × F))
    (h : combineAllV comms lcs evals = .ok (cs', ev')) : ev' = adjustEvals lcs evals := by
  induction lcs generalizing evals cs' ev' with
  | nil =>
    simp only [combineAllV] at h
    injection h with h; injection h with _ h2
    rw [← h2]; rfl
  | cons lc lcs ih =>
    simp only [combineAllV] at h
    split at h
    · cases h
    · rename_i c ev1 h1
      split at h
      · cases h
      · rename_i cs2 ev2 h2
        injection h with h; injection h with _ h3
        subst h3
        rw [ih ev1 cs2 ev2 h2]
        simp only [adjustEvals]
        congr 1
        unfold combineLCV at h1
        split at h1
        · cases h1
        · rename_i a ha
          injection h1 with h1; injection h1 with _ h4
          rw [← h4, lcLoopV_evals comms lc.label _ lc.terms _ a ha]

/-! ### the value of a combination -/

/-- the assignment "label ↦ evaluation at `z` of the committed polynomial with that label" -/
def evalAssign (trips : List (Trip F)) (z : F) (l : Label) : F :=
  match lookupLast (fun (t : Trip F) => t.1.label) l trips with
  | none => 0
  | some x => evalPoly x.1.poly z

/-- `LinearCombination`'s value under the true evaluations = combined polynomial's value + constants -/
theorem lc_value_split (trips : List (Trip F)) (z : F) (ts : List (F × LC.LCTerm)) :
    LC.termsValue (evalAssign trips z) ts = lcPolyValue trips z ts + lcConstant ts := by
  induction ts with
  | nil => simp [LC.termsValue, lcPolyValue, lcConstant]
  | cons t ts ih =>
    simp only [LC.termsValue, lcPolyValue, lcConstant, ih, termPolyValue]
    cases ht : t.2 with
    | one => simp only [LC.termVal]; ring
    | poly l =>
      simp only [LC.termVal, evalAssign]
      cases lookupLast (fun (t : Trip F) => t.1.label) l trips with
      | none => simp
      | some x => simp only; ring

/-- the values of the combined polynomials are the polynomial parts of the combinations -/
theorem combined_values (ck : CK F) (vk : VK F) (g γ β h : F) (s shb : Nat) (trips : List (Trip F))
    (htr : TripsGood ck vk g γ β h s shb trips) (lcs : List (LC.LinComb F)) (ts : List (Trip F))
    (hc : Combined trips lcs ts) (z : F) :
    (ts.map (·.1)).map (fun p => evalPoly p.poly z) = lcs.map fun lc => lcPolyValue trips z lc.terms := by
  induction lcs generalizing ts with
  | nil =>
    cases ts with
    | nil => rfl
    | cons _ _ => exact absurd hc (by simp [Combined])
  | cons lc lcs ih =>
    cases ts with
    | nil => exact absurd hc (by simp [Combined])
    | cons t ts =>
      obtain ⟨h1, h2⟩ := hc
      obtain ⟨_, _, _, hv⟩ := combineLC_good ck vk g γ β h s shb trips htr lc t h1
      simp only [List.map_cons, hv z]
      congr 1
      exact ih ts h2

end Sonic
end PCV
