/-
  PCV.Proofs.TraitDefault — lemmas about the model of the trait-default methods
  (`PCV.Model.TraitDefault`): last-write-wins lookups, `BTreeSet` lists, the loop of `batch_check`.
-/
import PCV.Model.TraitDefault
import PCV.Proofs.QuerySet
import Mathlib.Data.List.Basic
import Mathlib.Data.List.Perm.Basic
set_option linter.unusedSectionVars false
set_option linter.unusedVariables false

namespace PCV
namespace TraitDefault
open QS (StrictTotal ltLabel ltKey)

/-! ### `lookupLast`: the label-keyed `BTreeMap` built by `collect` -/

section Lookup
variable {α : Type}

theorem foldl_lookup_acc (lbl : α → Label) (l : Label) (xs : List α) (acc : Option α) :
    xs.foldl (fun acc x => if lbl x = l then some x else acc) acc =
      match xs.foldl (fun acc x => if lbl x = l then some x else acc) none with
      | some y => some y
      | none => acc := by
  induction xs generalizing acc with
  | nil => simp
  | cons x xs ih =>
    simp only [List.foldl_cons]
    rw [ih (if lbl x = l then some x else acc), ih (if lbl x = l then some x else none)]
    cases xs.foldl (fun acc x => if lbl x = l then some x else acc) none with
    | some y => rfl
    | none =>
      by_cases h : lbl x = l <;> simp [h]

theorem lookupLast_nil (lbl : α → Label) (l : Label) : Marlin.lookupLast lbl l [] = none := rfl

theorem lookupLast_cons (lbl : α → Label) (l : Label) (x : α) (xs : List α) :
    Marlin.lookupLast lbl l (x :: xs) =
      match Marlin.lookupLast lbl l xs with
      | some y => some y
      | none => if lbl x = l then some x else none := by
  unfold Marlin.lookupLast
  simp only [List.foldl_cons]
  rw [foldl_lookup_acc]

theorem lookupLast_eq_none_iff (lbl : α → Label) (l : Label) (xs : List α) :
    Marlin.lookupLast lbl l xs = none ↔ ∀ x ∈ xs, lbl x ≠ l := by
  induction xs with
  | nil => simp [lookupLast_nil]
  | cons x xs ih =>
    rw [lookupLast_cons]
    cases h : Marlin.lookupLast lbl l xs with
    | some y =>
      simp only [List.mem_cons, forall_eq_or_imp, reduceCtorEq, false_iff, not_and]
      intro _ hall
      rw [h] at ih
      exact absurd (ih.2 hall) (by simp)
    | none =>
      rw [h] at ih
      have hall := ih.1 rfl
      by_cases hx : lbl x = l
      · simp [hx]
      · simp only [hx, if_false, List.mem_cons, forall_eq_or_imp, true_iff]
        exact ⟨hx, hall⟩

theorem lookupLast_some_mem (lbl : α → Label) (l : Label) (xs : List α) (x : α)
    (h : Marlin.lookupLast lbl l xs = some x) : x ∈ xs ∧ lbl x = l := by
  induction xs with
  | nil => simp [lookupLast_nil] at h
  | cons y ys ih =>
    rw [lookupLast_cons] at h
    cases h' : Marlin.lookupLast lbl l ys with
    | some z =>
      rw [h'] at h
      simp only [Option.some.injEq] at h
      subst h
      exact ⟨List.mem_cons_of_mem _ (ih h').1, (ih h').2⟩
    | none =>
      rw [h'] at h
      by_cases hy : lbl y = l
      · simp only [hy, if_true, Option.some.injEq] at h
        subst h
        exact ⟨List.mem_cons_self, hy⟩
      · simp [hy] at h

/-- with pairwise distinct labels the map holds exactly the listed items -/
theorem lookupLast_of_nodup (lbl : α → Label) (l : Label) (xs : List α) (x : α)
    (hnd : (xs.map lbl).Nodup) (hx : x ∈ xs) (hl : lbl x = l) :
    Marlin.lookupLast lbl l xs = some x := by
  induction xs with
  | nil => cases hx
  | cons y ys ih =>
    rw [List.map_cons, List.nodup_cons] at hnd
    rw [lookupLast_cons]
    rcases List.mem_cons.1 hx with rfl | hx'
    · have : Marlin.lookupLast lbl l ys = none := by
        rw [lookupLast_eq_none_iff]
        intro z hz hzl
        exact hnd.1 (by rw [hl, ← hzl]; exact List.mem_map_of_mem hz)
      rw [this]; simp [hl]
    · rw [ih hnd.2 hx']

/-- **the order of a list of distinctly labelled items is irrelevant** -/
theorem lookupLast_perm (lbl : α → Label) (l : Label) (xs ys : List α) (hp : xs.Perm ys)
    (hnd : (xs.map lbl).Nodup) : Marlin.lookupLast lbl l xs = Marlin.lookupLast lbl l ys := by
  have hnd' : (ys.map lbl).Nodup := (hp.map lbl).nodup_iff.1 hnd
  cases h : Marlin.lookupLast lbl l xs with
  | none =>
    symm
    rw [lookupLast_eq_none_iff] at h ⊢
    exact fun x hx => h x (hp.mem_iff.2 hx)
  | some x =>
    obtain ⟨hx, hl⟩ := lookupLast_some_mem lbl l xs x h
    exact (lookupLast_of_nodup lbl l ys x hnd' (hp.mem_iff.1 hx) hl).symm

end Lookup

/-! ### `BTreeSet` lists -/

section Set
variable {α : Type} [DecidableEq α]

theorem mem_setInsert (lt : α → α → Bool) (x y : α) (l : List α) :
    y ∈ setInsert lt x l ↔ y = x ∨ y ∈ l := by
  induction l with
  | nil => simp [setInsert]
  | cons z zs ih =>
    simp only [setInsert]
    split
    · rename_i h; subst h; simp
    · split
      · simp
      · simp only [List.mem_cons, ih]; tauto

theorem mem_foldl_setInsert (lt : α → α → Bool) (y : α) (xs acc : List α) :
    y ∈ xs.foldl (fun acc x => setInsert lt x acc) acc ↔ y ∈ acc ∨ y ∈ xs := by
  induction xs generalizing acc with
  | nil => simp
  | cons x xs ih =>
    simp only [List.foldl_cons, ih, mem_setInsert, List.mem_cons]; tauto

/-- a `BTreeSet` holds exactly the elements that were inserted -/
theorem mem_setOfList (lt : α → α → Bool) (y : α) (xs : List α) :
    y ∈ setOfList lt xs ↔ y ∈ xs := by
  unfold setOfList; rw [mem_foldl_setInsert]; simp

/-- strictly increasing -/
def SortedSet (lt : α → α → Bool) (l : List α) : Prop := List.Pairwise (fun a b => lt a b = true) l

theorem sorted_setInsert (lt : α → α → Bool) (hlt : StrictTotal lt) (x : α) (l : List α)
    (hl : SortedSet lt l) : SortedSet lt (setInsert lt x l) := by
  induction l with
  | nil => simp [setInsert, SortedSet]
  | cons z zs ih =>
    unfold SortedSet at hl ih ⊢
    rw [List.pairwise_cons] at hl
    simp only [setInsert]
    split
    · rw [List.pairwise_cons]; exact hl
    · rename_i hne
      split
      · rename_i hxz
        rw [List.pairwise_cons, List.pairwise_cons]
        refine ⟨fun w hw => ?_, hl⟩
        rcases List.mem_cons.1 hw with rfl | hw
        · exact hxz
        · exact hlt.trans _ _ _ hxz (hl.1 w hw)
      · rename_i hxz
        rw [List.pairwise_cons]
        refine ⟨fun w hw => ?_, ih hl.2⟩
        rcases (mem_setInsert lt x w zs).1 hw with rfl | hw
        · exact hlt.total _ _ hne (by simpa using hxz)
        · exact hl.1 w hw

theorem sorted_foldl_setInsert (lt : α → α → Bool) (hlt : StrictTotal lt) (xs acc : List α)
    (h : SortedSet lt acc) : SortedSet lt (xs.foldl (fun acc x => setInsert lt x acc) acc) := by
  induction xs generalizing acc with
  | nil => exact h
  | cons x xs ih => exact ih _ (sorted_setInsert lt hlt x acc h)

theorem sorted_setOfList (lt : α → α → Bool) (hlt : StrictTotal lt) (xs : List α) :
    SortedSet lt (setOfList lt xs) :=
  sorted_foldl_setInsert lt hlt xs [] List.Pairwise.nil

/-- two strictly increasing lists with the same elements are the same list -/
theorem sorted_unique (lt : α → α → Bool) (hlt : StrictTotal lt) (hirr : ∀ a, lt a a = false)
    (l₁ l₂ : List α) (h₁ : SortedSet lt l₁) (h₂ : SortedSet lt l₂)
    (hm : ∀ x, x ∈ l₁ ↔ x ∈ l₂) : l₁ = l₂ := by
  induction l₁ generalizing l₂ with
  | nil =>
    cases l₂ with
    | nil => rfl
    | cons b bs => exact absurd ((hm b).2 List.mem_cons_self) (by simp)
  | cons a as ih =>
    cases l₂ with
    | nil => exact absurd ((hm a).1 List.mem_cons_self) (by simp)
    | cons b bs =>
      unfold SortedSet at h₁ h₂
      rw [List.pairwise_cons] at h₁ h₂
      have hasym : ∀ u v, lt u v = true → lt v u = true → False := fun u v h1 h2 => by
        have := hlt.trans _ _ _ h1 h2; rw [hirr] at this; cases this
      have hab : a = b := by
        rcases List.mem_cons.1 ((hm a).1 List.mem_cons_self) with h | h
        · exact h
        · rcases List.mem_cons.1 ((hm b).2 List.mem_cons_self) with h' | h'
          · exact h'.symm
          · exact (hasym a b (h₁.1 b h') (h₂.1 a h)).elim
      subst hab
      congr 1
      refine ih bs h₁.2 h₂.2 fun x => ?_
      constructor
      · intro hx
        rcases List.mem_cons.1 ((hm x).1 (List.mem_cons_of_mem _ hx)) with h | h
        · subst h; have := h₁.1 x hx; rw [hirr] at this; cases this
        · exact h
      · intro hx
        rcases List.mem_cons.1 ((hm x).2 (List.mem_cons_of_mem _ hx)) with h | h
        · subst h; have := h₂.1 x hx; rw [hirr] at this; cases this
        · exact h

/-- **a `BTreeSet` depends only on which elements were inserted**, not on their order or
multiplicity -/
theorem setOfList_congr (lt : α → α → Bool) (hlt : StrictTotal lt) (hirr : ∀ a, lt a a = false)
    (xs ys : List α) (h : ∀ x, x ∈ xs ↔ x ∈ ys) : setOfList lt xs = setOfList lt ys :=
  sorted_unique lt hlt hirr _ _ (sorted_setOfList lt hlt xs) (sorted_setOfList lt hlt ys)
    fun x => by rw [mem_setOfList, mem_setOfList, h]

/-- inserting into a set list that already is one: nothing changes -/
theorem setOfList_of_sorted (lt : α → α → Bool) (hlt : StrictTotal lt) (hirr : ∀ a, lt a a = false)
    (l : List α) (h : SortedSet lt l) : setOfList lt l = l :=
  sorted_unique lt hlt hirr _ _ (sorted_setOfList lt hlt l) h fun x => mem_setOfList lt x l

end Set

/-! ### the orders -/

theorem ltLabel_irrefl : ∀ a : Label, ltLabel a a = false := by
  intro a
  induction a with
  | nil => rfl
  | cons x xs ih => simp [ltLabel, ih]

theorem ltKey_irrefl {Pt : Type} [DecidableEq Pt] (ltP : Pt → Pt → Bool)
    (h : ∀ a, ltP a a = false) (a : Label × Pt) : ltKey ltP a a = false := by
  simp [ltKey, ltLabel_irrefl, h]

section Orders
variable {Pt : Type} [DecidableEq Pt]

theorem strictTotal_ltQuery (ltP : Pt → Pt → Bool) (h : StrictTotal ltP) :
    StrictTotal (ltQuery ltP) :=
  QS.strictTotal_ltKey _ (QS.strictTotal_ltKey ltP h)

theorem ltQuery_irrefl (ltP : Pt → Pt → Bool) (h : ∀ a, ltP a a = false) (q : Query Pt) :
    ltQuery ltP q q = false :=
  ltKey_irrefl _ (ltKey_irrefl ltP h) q

theorem mem_querySet (ltP : Pt → Pt → Bool) (q : Query Pt) (qs : List (Query Pt)) :
    q ∈ querySet ltP qs ↔ q ∈ qs := mem_setOfList _ q qs

/-- **the query set does not depend on the order or multiplicity of the listed queries** -/
theorem querySet_congr (ltP : Pt → Pt → Bool) (hlt : StrictTotal ltP) (hirr : ∀ a, ltP a a = false)
    (qs qs' : List (Query Pt)) (h : ∀ q, q ∈ qs ↔ q ∈ qs') : querySet ltP qs = querySet ltP qs' :=
  setOfList_congr _ (strictTotal_ltQuery ltP hlt) (ltQuery_irrefl ltP hirr) qs qs' h

theorem querySet_idem (ltP : Pt → Pt → Bool) (hlt : StrictTotal ltP) (hirr : ∀ a, ltP a a = false)
    (qs : List (Query Pt)) : querySet ltP (querySet ltP qs) = querySet ltP qs :=
  setOfList_of_sorted _ (strictTotal_ltQuery ltP hlt) (ltQuery_irrefl ltP hirr) _
    (sorted_setOfList _ (strictTotal_ltQuery ltP hlt) qs)

end Orders

end TraitDefault
end PCV
