/-
  PCV.Proofs.StreamKZGMulti — multi-point openings of the streaming-KZG model: the vanishing
  polynomial, schoolbook long division (`Time.divLoop`) and the sliding window of `space.rs`
  (`Space.mpLoop`) are the same computation; the division identity `f = q·Z + r`.
-/
import PCV.Proofs.StreamKZG

set_option linter.unusedSectionVars false

namespace PCV
namespace SKZG
variable {F : Type} [Field F]

/-! ### more list algebra -/

theorem dot_zeros_right (a : List F) (k : Nat) : dot a (List.replicate k 0) = 0 := by
  induction k generalizing a with
  | zero => simp
  | succ k ih =>
    cases a with
    | nil => simp
    | cons x xs => simp [List.replicate_succ, ih xs]

theorem dot_append_zeros (a b : List F) (k : Nat) : dot a (b ++ List.replicate k 0) = dot a b := by
  induction b generalizing a with
  | nil => simp [dot_zeros_right]
  | cons y ys ih =>
    cases a with
    | nil => simp
    | cons x xs => simp [ih xs]

theorem eval_zeros (k : Nat) (x : F) : evalPoly (List.replicate k (0 : F)) x = 0 := by
  induction k with
  | zero => rfl
  | succ k ih => simp [List.replicate_succ, ih]

theorem eval_append (l1 l2 : List F) (x : F) :
    evalPoly (l1 ++ l2) x = evalPoly l1 x + x ^ l1.length * evalPoly l2 x := by
  induction l1 with
  | nil => simp
  | cons a l ih => simp only [List.cons_append, evalPoly_cons, ih, List.length_cons, pow_succ]; ring

theorem eval_append_zeros (l : List F) (k : Nat) (x : F) :
    evalPoly (l ++ List.replicate k 0) x = evalPoly l x := by
  rw [eval_append, eval_zeros]; ring

/-- big-endian evaluation of `a :: rest` -/
theorem evalBE_cons (a : F) (rest : List F) (x : F) :
    evalPoly (a :: rest).reverse x = evalPoly rest.reverse x + x ^ rest.length * a := by
  rw [List.reverse_cons, eval_append]; simp

theorem dot_pnorm_right [DecidableEq F] (a p : List F) : dot a (pnorm p) = dot a p := by
  rw [dot_comm, dot_pnorm, dot_comm]

theorem pnorm_snoc_ne_zero [DecidableEq F] (S : List F) (l : F) (h : l ≠ 0) :
    pnorm (S ++ [l]) = S ++ [l] := by
  induction S with
  | nil => simp [pnorm, h]
  | cons a S ih =>
    simp only [List.cons_append, pnorm, ih]
    cases S <;> simp

/-- a coefficient vector is its normal form followed by zeros -/
theorem pnorm_append_zeros [DecidableEq F] (p : List F) :
    p = pnorm p ++ List.replicate (p.length - (pnorm p).length) 0 := by
  induction p with
  | nil => simp [pnorm]
  | cons c cs ih =>
    simp only [pnorm]
    split
    · rename_i h
      rw [h] at ih
      simp only [List.nil_append, List.length_nil, Nat.sub_zero] at ih
      split
      · rename_i hc
        simp only [List.nil_append, List.length_nil, Nat.sub_zero, List.length_cons,
          List.replicate_succ]
        rw [hc, ← ih]
      · simp only [List.cons_append, List.nil_append, List.length_cons, List.length_nil,
          Nat.add_sub_cancel]
        rw [← ih]
    · rename_i h
      simp only [List.cons_append, List.length_cons, Nat.add_sub_add_right]
      rw [← ih]

/-! ### the vanishing polynomial -/

/-- `∏ (x - a)` -/
def prodLin : List F → F → F
  | [], _ => 1
  | a :: as, x => (x - a) * prodLin as x

theorem eval_pmul (p q : List F) (x : F) : evalPoly (pmul p q) x = evalPoly p x * evalPoly q x := by
  induction p with
  | nil => simp [pmul]
  | cons a p ih =>
    simp only [pmul, eval_padd, eval_pscale, evalPoly_cons, ih]; ring

theorem eval_foldl_mulLin (pts acc : List F) (x : F) :
    evalPoly (pts.foldl (fun acc pt => pmul acc [-pt, 1]) acc) x = evalPoly acc x * prodLin pts x := by
  induction pts generalizing acc with
  | nil => simp [prodLin]
  | cons a as ih =>
    simp only [List.foldl_cons, ih, eval_pmul, prodLin, evalPoly_cons, evalPoly_nil]; ring

theorem eval_vanishing (pts : List F) (x : F) : evalPoly (vanishing pts) x = prodLin pts x := by
  unfold vanishing; rw [eval_foldl_mulLin]; simp

theorem prodLin_append (l1 l2 : List F) (x : F) :
    prodLin (l1 ++ l2) x = prodLin l1 x * prodLin l2 x := by
  induction l1 with
  | nil => simp [prodLin]
  | cons a l ih => simp only [List.cons_append, prodLin, ih]; ring

theorem prodLin_eq_zero_of_mem (l : List F) (x : F) (h : x ∈ l) : prodLin l x = 0 := by
  induction l with
  | nil => simp at h
  | cons a l ih =>
    simp only [prodLin]
    rcases List.mem_cons.1 h with h | h
    · rw [h]; ring
    · rw [ih h]; ring

theorem prodLin_ne_zero_of_not_mem (l : List F) (x : F) (h : x ∉ l) : prodLin l x ≠ 0 := by
  induction l with
  | nil => simp [prodLin]
  | cons a l ih =>
    simp only [prodLin]
    simp only [List.mem_cons, not_or] at h
    exact mul_ne_zero (sub_ne_zero.2 h.1) (ih h.2)

/-- multiplying a polynomial with top coefficient `l` by `X + c` keeps the top coefficient and adds
one coefficient -/
theorem pmul_lin_snoc (init : List F) (l c : F) :
    ∃ S, pmul (init ++ [l]) [c, 1] = S ++ [l] ∧ S.length = init.length + 1 := by
  induction init with
  | nil => exact ⟨[l * c + 0], by simp [pmul, padd, pscale], rfl⟩
  | cons a init ih =>
    obtain ⟨S, hS, hlen⟩ := ih
    cases S with
    | nil => simp at hlen
    | cons s0 S' =>
      refine ⟨(a * c + 0) :: (a * 1 + s0) :: S', ?_, by simp at hlen ⊢; omega⟩
      simp only [List.cons_append, pmul] at hS ⊢
      rw [hS]
      simp [padd, pscale]

theorem foldl_mulLin_snoc (pts S0 : List F) :
    ∃ S, pts.foldl (fun acc pt => pmul acc [-pt, 1]) (S0 ++ [1]) = S ++ [1]
      ∧ S.length = S0.length + pts.length := by
  induction pts generalizing S0 with
  | nil => exact ⟨S0, rfl, rfl⟩
  | cons a as ih =>
    obtain ⟨S1, h1, hl1⟩ := pmul_lin_snoc S0 (1 : F) (-a)
    obtain ⟨S, h, hl⟩ := ih S1
    refine ⟨S, ?_, by simp; omega⟩
    simp only [List.foldl_cons, h1, h]

/-- **the vanishing polynomial is monic of degree `m`**: its vector is `S ++ [1]`, `|S| = m` -/
theorem vanishing_monic (pts : List F) :
    ∃ S, vanishing pts = S ++ [1] ∧ S.length = pts.length := by
  obtain ⟨S, h, hl⟩ := foldl_mulLin_snoc pts []
  exact ⟨S, by simpa [vanishing] using h, by simpa using hl⟩

theorem vanishing_length (pts : List F) : (vanishing pts).length = pts.length + 1 := by
  obtain ⟨S, h, hl⟩ := vanishing_monic pts
  rw [h]; simp [hl]

/-! ### long division -/

theorem subPrefix_zero (l zs : List F) : Time.subPrefix 0 l zs = l := by
  induction l generalizing zs with
  | nil => cases zs <;> rfl
  | cons r rs ih => cases zs with
    | nil => rfl
    | cons z zs => simp [Time.subPrefix, ih]

theorem subPrefix_length (a : F) (l zs : List F) : (Time.subPrefix a l zs).length = l.length := by
  induction l generalizing zs with
  | nil => cases zs <;> rfl
  | cons r rs ih => cases zs with
    | nil => rfl
    | cons z zs => simp [Time.subPrefix, ih]

theorem subPrefix_append (a : F) (l l' zs : List F) (h : zs.length ≤ l.length) :
    Time.subPrefix a (l ++ l') zs = Time.subPrefix a l zs ++ l' := by
  induction l generalizing zs with
  | nil => cases zs with
    | nil => cases l' <;> rfl
    | cons _ _ => simp at h
  | cons r rs ih => cases zs with
    | nil => rfl
    | cons z zs =>
      simp only [List.cons_append, Time.subPrefix]
      rw [ih zs (by simpa using h)]

theorem evalBE_subPrefix (a : F) (l zs : List F) (x : F) (h : zs.length ≤ l.length) :
    evalPoly (Time.subPrefix a l zs).reverse x
      = evalPoly l.reverse x - a * x ^ (l.length - zs.length) * evalPoly zs.reverse x := by
  induction l generalizing zs with
  | nil => cases zs with
    | nil => simp [Time.subPrefix]
    | cons _ _ => simp at h
  | cons r rs ih => cases zs with
    | nil => simp [Time.subPrefix]
    | cons z zs =>
      have h' : zs.length ≤ rs.length := by simpa using h
      simp only [Time.subPrefix, evalBE_cons, subPrefix_length, ih zs h', List.length_cons,
        Nat.add_sub_add_right]
      have : x ^ rs.length = x ^ (rs.length - zs.length) * x ^ zs.length := by
        rw [← pow_add, Nat.sub_add_cancel h']
      rw [this]; ring

theorem divLoop_length (linv : F) (zs : List F) (k : Nat) (rem : List F) (h : k ≤ rem.length) :
    (Time.divLoop linv zs k rem).1.length = k
      ∧ (Time.divLoop linv zs k rem).2.length = rem.length - k := by
  induction k generalizing rem with
  | zero => simp [Time.divLoop]
  | succ k ih =>
    cases rem with
    | nil => simp at h
    | cons a rest =>
      have := ih (Time.subPrefix (a * linv) rest zs) (by rw [subPrefix_length]; simpa using h)
      obtain ⟨h1, h2⟩ := this
      rw [subPrefix_length] at h2
      simp at h
      refine ⟨by simp only [Time.divLoop, List.length_cons, h1], ?_⟩
      simp only [Time.divLoop, List.length_cons, h2]
      omega

/-- **schoolbook division is division**: for a monic divisor `X^m + zs` and a dividend with
`k + m` coefficients, `rem = q·(X^m + zs) + r` (all big-endian) -/
theorem divLoop_spec (zs : List F) (k : Nat) (rem : List F) (x : F)
    (h : rem.length = k + zs.length) :
    evalPoly rem.reverse x
      = evalPoly (Time.divLoop 1 zs k rem).1.reverse x * (x ^ zs.length + evalPoly zs.reverse x)
        + evalPoly (Time.divLoop 1 zs k rem).2.reverse x := by
  induction k generalizing rem with
  | zero => simp [Time.divLoop]
  | succ k ih =>
    cases rem with
    | nil => simp at h; omega
    | cons a rest =>
      have hr : rest.length = k + zs.length := by simp at h; omega
      have hlen := divLoop_length 1 zs k (Time.subPrefix (a * 1) rest zs)
        (by rw [subPrefix_length]; omega)
      have := ih (Time.subPrefix (a * 1) rest zs) (by rw [subPrefix_length]; exact hr)
      rw [evalBE_subPrefix _ _ _ _ (by omega)] at this
      simp only [Time.divLoop, evalBE_cons, hlen.1]
      have hk : rest.length - zs.length = k := by omega
      rw [hk] at this
      rw [hr, pow_add]
      linear_combination this

theorem divLoop_leading_zeros (linv : F) (zs : List F) (j k : Nat) (l : List F) :
    Time.divLoop linv zs (j + k) (List.replicate j 0 ++ l)
      = (List.replicate j 0 ++ (Time.divLoop linv zs k l).1, (Time.divLoop linv zs k l).2) := by
  induction j with
  | zero => simp
  | succ j ih =>
    rw [Nat.succ_add, List.replicate_succ, List.cons_append]
    simp only [Time.divLoop, zero_mul, subPrefix_zero, ih, List.cons_append]

theorem divLoop_only_zeros (linv : F) (zs : List F) (j i : Nat) (l : List F) :
    Time.divLoop linv zs j (List.replicate (j + i) 0 ++ l)
      = (List.replicate j 0, List.replicate i 0 ++ l) := by
  have := divLoop_leading_zeros linv zs j 0 (List.replicate i 0 ++ l)
  rw [Nat.add_zero] at this
  rw [List.replicate_add, List.append_assoc, this]
  simp [Time.divLoop]

/-! ### the sliding window is the same division -/

theorem mpLoop_eq_divLoop (zs state rest bases : List F) (acc : F)
    (hs : state.length = zs.length) (hpos : 1 ≤ state.length) (hb : rest.length ≤ bases.length) :
    Space.mpLoop zs state rest bases acc
      = .ok ((Time.divLoop 1 zs rest.length (state ++ rest)).2,
             acc + dot bases (Time.divLoop 1 zs rest.length (state ++ rest)).1) := by
  induction rest generalizing state bases acc with
  | nil => simp [Space.mpLoop, Time.divLoop]
  | cons c cs ih =>
    cases state with
    | nil => simp at hpos
    | cons q st =>
      cases bases with
      | nil => simp at hb
      | cons b bs =>
        have hz : zs.length ≤ (st ++ [c]).length := by simp at hs ⊢; omega
        simp only [Space.mpLoop, List.length_cons, List.cons_append, Time.divLoop, mul_one]
        rw [ih (Time.subPrefix q (st ++ [c]) zs) bs (acc + b * q)
          (by rw [subPrefix_length]; simp at hs ⊢; omega)
          (by rw [subPrefix_length]; simp)
          (by simpa using hb)]
        have : st ++ c :: cs = (st ++ [c]) ++ cs := by simp
        rw [this, subPrefix_append _ _ _ _ hz]
        simp only [dot_cons]
        congr 2
        ring

/-! ### `open_multi_points`: time and space -/

theorem dot_reverse_left (a b : List F) (h : a.length = b.length) :
    dot a.reverse b = dot a b.reverse := by
  have := dot_reverse a b.reverse (by simpa using h)
  rwa [List.reverse_reverse] at this

/-- `divide_with_q_and_r` by a monic divisor `S ++ [1]`, as the long division of the model -/
theorem divide_monic [DecidableEq F] (p S : List F) :
    Time.divideWithQAndR p (S ++ [1])
      = .ok (if (pnorm p).length < S.length + 1 then ([], pnorm p) else
          (pnorm (Time.divLoop 1 S.reverse ((pnorm p).length - S.length) (pnorm p).reverse).1.reverse,
           pnorm (Time.divLoop 1 S.reverse ((pnorm p).length - S.length) (pnorm p).reverse).2.reverse)) := by
  unfold Time.divideWithQAndR
  have hZ : pnorm (S ++ [(1 : F)]) = S ++ [1] := pnorm_snoc_ne_zero S 1 one_ne_zero
  by_cases h0 : pnorm p = []
  · simp [h0]
  · rw [if_neg h0, hZ, if_neg (by simp)]
    simp only [List.length_append, List.length_cons, List.length_nil, List.reverse_append,
      List.reverse_cons, List.reverse_nil, List.nil_append, List.cons_append, List.headD_cons,
      List.tail_cons, inv_one]
    by_cases hlt : (pnorm p).length < S.length + 1
    · simp [hlt]
    · rw [if_neg hlt, if_neg hlt]
      have : (pnorm p).length - (S.length + 1) + 1 = (pnorm p).length - S.length := by omega
      rw [this]

/-- the streaming prover's result as a long division of the zero-padded stream -/
theorem space_openMulti_eq (ck : CK F) (p pts S : List F) (hS : vanishing pts = S ++ [1])
    (hSl : S.length = pts.length) (hm : 1 ≤ pts.length) (hL : p.length ≤ ck.powersOfG.length) :
    Space.openMultiPoints (CKS.ofTime ck) p.reverse pts
      = .ok ((Time.divLoop 1 S.reverse (p.length - pts.length)
                (List.replicate (pts.length - p.length) 0 ++ p.reverse)).2,
             dot (ck.powersOfG.reverse.drop (ck.powersOfG.length - p.length + pts.length))
               (Time.divLoop 1 S.reverse (p.length - pts.length)
                (List.replicate (pts.length - p.length) 0 ++ p.reverse)).1) := by
  unfold Space.openMultiPoints CKS.ofTime
  simp only [List.length_reverse, hS, List.reverse_append, List.reverse_cons, List.reverse_nil,
    List.nil_append, List.cons_append, List.tail_cons, List.length_append, List.length_cons,
    List.length_nil, hSl]
  rw [if_neg (by omega)]
  rw [mpLoop_eq_divLoop]
  · simp only [List.append_assoc, List.take_append_drop, zero_add, List.length_drop,
      List.length_reverse]
    have : p.length - (pts.length - (pts.length - p.length)) = p.length - pts.length := by omega
    rw [this, Nat.add_sub_cancel]
  · simp [List.length_take, hSl]; omega
  · simp [List.length_take]; omega
  · simp [List.length_drop]; omega

theorem eval_monic (S : List F) (x : F) :
    evalPoly (S ++ [1]) x = x ^ S.length + evalPoly S x := by
  rw [eval_append]; simp; ring

/-- the quotient and remainder `divide_with_q_and_r` returns for a monic divisor: bounded lengths
and the division identity -/
theorem time_divide_spec [DecidableEq F] (p S : List F) :
    ∃ q r, Time.divideWithQAndR p (S ++ [1]) = .ok (q, r) ∧ q.length ≤ p.length
      ∧ r.length ≤ S.length
      ∧ ∀ x, evalPoly p x = evalPoly q x * evalPoly (S ++ [1]) x + evalPoly r x := by
  rw [divide_monic]
  have hle := pnorm_length_le p
  by_cases hlt : (pnorm p).length < S.length + 1
  · rw [if_pos hlt]
    exact ⟨[], pnorm p, rfl, by simp, by omega, fun x => by simp [eval_pnorm]⟩
  · rw [if_neg hlt]
    refine ⟨_, _, rfl, ?_, ?_, ?_⟩
    · have := (divLoop_length 1 S.reverse ((pnorm p).length - S.length) (pnorm p).reverse
        (by simp)).1
      have h2 := pnorm_length_le (Time.divLoop 1 S.reverse ((pnorm p).length - S.length)
        (pnorm p).reverse).1.reverse
      simp only [List.length_reverse] at h2 this
      omega
    · have := (divLoop_length 1 S.reverse ((pnorm p).length - S.length) (pnorm p).reverse
        (by simp)).2
      have h2 := pnorm_length_le (Time.divLoop 1 S.reverse ((pnorm p).length - S.length)
        (pnorm p).reverse).2.reverse
      simp only [List.length_reverse] at h2 this
      omega
    · intro x
      have hspec := divLoop_spec S.reverse ((pnorm p).length - S.length) (pnorm p).reverse x
        (by simp; omega)
      simp only [List.reverse_reverse, List.length_reverse, eval_pnorm] at hspec
      simp only [eval_pnorm, eval_monic]
      exact hspec

/-- **`CommitterKeyStream::open_multi_points` returns the proof of `CommitterKey::open_multi_points`**
for every coefficient list (shorter than, as long as, or longer than the point set, normalised or
not), every non-empty point list and every key with at least as many elements as coefficients. -/
theorem space_openMulti_proof_eq_time [DecidableEq F] (ck : CK F) (p pts : List F)
    (hm : 1 ≤ pts.length) (hL : p.length ≤ ck.powersOfG.length) :
    ∃ r, Space.openMultiPoints (CKS.ofTime ck) p.reverse pts = .ok r
      ∧ Time.openMultiPoints ck p pts = .ok r.2 := by
  obtain ⟨S, hS, hSl⟩ := vanishing_monic pts
  refine ⟨_, space_openMulti_eq ck p pts S hS hSl hm hL, ?_⟩
  unfold Time.openMultiPoints
  rw [if_neg (by omega), hS]
  -- the quotient is no longer than the polynomial: the assertion of the inner `commit` holds too
  have hqlen : ∀ qr, Time.divideWithQAndR p (S ++ [1]) = .ok qr → qr.1.length ≤ p.length := by
    intro qr h
    obtain ⟨q, r, hqr, hql, -, -⟩ := time_divide_spec p S
    rw [hqr] at h
    injection h with h
    subst h
    exact hql
  have hd := divide_monic p S
  rw [hd]
  simp only
  rw [time_commit_eq ck _ (le_trans (hqlen _ hd) hL)]
  congr 1
  -- the coefficient vector is its normal form followed by `j` zeros
  have hp := pnorm_append_zeros p
  have hle := pnorm_length_le p
  generalize hj : p.length - (pnorm p).length = j at hp
  have hrev : p.reverse = List.replicate j 0 ++ (pnorm p).reverse := by
    conv_lhs => rw [hp]
    simp
  by_cases hlt : (pnorm p).length < S.length + 1
  · -- zero quotient on the time side; the window only ever pops zeros
    rw [if_pos hlt]
    simp only [dot_nil_right]
    rw [hrev, ← List.append_assoc, ← List.replicate_add]
    have : pts.length - p.length + j = (p.length - pts.length) + (pts.length - p.length + j - (p.length - pts.length)) := by
      omega
    rw [this, divLoop_only_zeros]
    simp only [dot_zeros_right]
  · rw [if_neg hlt]
    simp only [dot_pnorm_right]
    have hmis : pts.length - p.length = 0 := by omega
    have hk : p.length - pts.length = j + ((pnorm p).length - S.length) := by omega
    rw [hmis, hrev, hk]
    simp only [List.replicate_zero, List.nil_append]
    rw [divLoop_leading_zeros]
    have hql := (divLoop_length 1 S.reverse ((pnorm p).length - S.length) (pnorm p).reverse
      (by simp)).1
    have hdrop : ck.powersOfG.length - p.length + pts.length
        = ck.powersOfG.length - (p.length - pts.length) := by omega
    rw [hdrop, reverse_drop_sub _ _ (by omega), dot_reverse_left _ _
      (by simp [List.length_take, hql]; omega)]
    simp only [List.reverse_append, List.reverse_replicate]
    rw [dot_append_zeros, dot_take _ _ _ (by simp [hql]; omega)]

/-- a polynomial with more coefficients than the key has powers: `CommitterKey::open_multi_points`
aborts (fix D24) whatever the points -/
theorem time_openMulti_abort [DecidableEq F] (ck : CK F) (p pts : List F)
    (h : ck.powersOfG.length < p.length) :
    Time.openMultiPoints ck p pts = .error .abort := by
  unfold Time.openMultiPoints
  rw [if_pos h]

/-- … and `batch_open_multi_points` with it, when the η-combination (without its high-order zeros) is
oversize -/
theorem time_batchOpenMulti_abort [DecidableEq F] (ck : CK F) (ps : List (List F)) (pts b : List F)
    (η : F) (hb : linearCombination ps (powersOf η ps.length) = some b)
    (h : ck.powersOfG.length < (pnorm b).length) :
    Time.batchOpenMultiPoints ck ps pts η = .error .abort := by
  unfold Time.batchOpenMultiPoints
  split
  · rfl
  · rw [hb]
    exact time_openMulti_abort ck _ pts h

/-- **the remainder window of the streaming prover**: `m` entries, and (big-endian) it takes the
values of the polynomial on the evaluation points — it is `f mod Z`. -/
theorem space_openMulti_remainder (ck : CK F) (p pts : List F) (hm : 1 ≤ pts.length)
    (hL : p.length ≤ ck.powersOfG.length) (r : List F × F)
    (h : Space.openMultiPoints (CKS.ofTime ck) p.reverse pts = .ok r) :
    r.1.length = pts.length ∧ ∀ a ∈ pts, evalPoly r.1.reverse a = evalPoly p a := by
  obtain ⟨S, hS, hSl⟩ := vanishing_monic pts
  rw [space_openMulti_eq ck p pts S hS hSl hm hL] at h
  injection h with h
  subst h
  have hfull : (List.replicate (pts.length - p.length) (0 : F) ++ p.reverse).length
      = (p.length - pts.length) + S.reverse.length := by simp; omega
  constructor
  · have := (divLoop_length 1 S.reverse (p.length - pts.length)
      (List.replicate (pts.length - p.length) 0 ++ p.reverse) (by omega)).2
    simp only at this ⊢
    rw [this]; simp; omega
  · intro a ha
    have hspec := divLoop_spec S.reverse (p.length - pts.length)
      (List.replicate (pts.length - p.length) 0 ++ p.reverse) a hfull
    have hZ : a ^ S.reverse.length + evalPoly S.reverse.reverse a = 0 := by
      rw [List.reverse_reverse, List.length_reverse, ← eval_monic, ← hS, eval_vanishing]
      exact prodLin_eq_zero_of_mem pts a ha
    rw [hZ] at hspec
    simp only [List.reverse_append, List.reverse_reverse, List.reverse_replicate,
      eval_append_zeros] at hspec
    simp only
    rw [hspec]; ring

end SKZG
end PCV
