/-
  PCV.Proofs.IPAExtractGeneral — the algebraic-forger analysis of `PCV.Proofs.IPAExtract`, generalised:

  * THREE independent generator families `(G, h′, s)`: the committer key, the round generator `h′ = ξ₀·h` and the
    hiding generator `s`.  Hiding commitments `⟨p, G⟩ + ρ·s`, the proof's hiding commitment and the `L_i`, `R_i`
    (which may carry an `s`-component too) are elements `⟨x.G, G⟩ + x.h·h′ + x.s·s`.
  * an ARBITRARY statement: the representation of the combined commitment and the combined value computed by
    `accLoop` on a list of commitments (with and without degree bounds), as explicit sums over the list.
  * `batch_check`: acceptance of a whole batch is one linear relation between `(G, h, s)`.
-/
import PCV.Proofs.IPAExtract

set_option linter.unusedSectionVars false
set_option linter.unusedVariables false

namespace PCV
namespace IPA

variable {F : Type} [Field F] [DecidableEq F]

/-! ### three generator families -/

/-- a representation over `(G, h′, s)`: the element is `⟨x.G, G⟩ + x.h·h′ + x.s·s` -/
structure Rep3 (F : Type) where
  G : List F
  h : F
  s : F
  deriving DecidableEq, Repr

/-- the element a representation stands for -/
def rep3Val (G : List F) (h' s : F) (x : Rep3 F) : F := dot G x.G + h' * x.h + s * x.s

/-- the `(G, h′)`-part of a representation (what `IPA.repVal`, `IPA.slack` of `IPAExtract` work on) -/
def Rep3.gh (x : Rep3 F) : List F × F := (x.G, x.h)

/-- some coefficient of the representation is non-zero -/
def Rep3.Nontrivial (x : Rep3 F) : Prop := (∃ i, x.G.getD i 0 ≠ 0) ∨ x.h ≠ 0 ∨ x.s ≠ 0

/-- how far a represented element is from "its `G`-part evaluated at `z` equals its `h′`-part"
(`IPA.slack` of the `(G, h′)`-part; the `s`-part plays no role) -/
def slack3 (z : F) (x : Rep3 F) : F := evalPoly x.G z - x.h

theorem slack3_eq (z : F) (x : Rep3 F) : slack3 z x = slack z x.gh := rfl

theorem rep3Val_eq (G : List F) (h' s : F) (x : Rep3 F) :
    rep3Val G h' s x = repVal G h' x.gh + s * x.s := rfl

/-- the representation of `Σ (u⁻¹·L + u·R)` -/
def lrRep3 : List (Rep3 F) → List (Rep3 F) → List F → Rep3 F
  | L :: Ls, R :: Rs, u :: us =>
    ⟨padd (padd (pscale u⁻¹ L.G) (pscale u R.G)) (lrRep3 Ls Rs us).G,
     L.h * u⁻¹ + R.h * u + (lrRep3 Ls Rs us).h,
     L.s * u⁻¹ + R.s * u + (lrRep3 Ls Rs us).s⟩
  | _, _, _ => ⟨[], 0, 0⟩

theorem lrRep3_gh (Ls Rs : List (Rep3 F)) (us : List F) :
    (lrRep3 Ls Rs us).gh = lrRep (Ls.map Rep3.gh) (Rs.map Rep3.gh) us := by
  induction Ls generalizing Rs us with
  | nil => simp [lrRep3, lrRep, Rep3.gh]
  | cons L Ls ih =>
    cases Rs with
    | nil => simp [lrRep3, lrRep, Rep3.gh]
    | cons R Rs =>
      cases us with
      | nil => simp [lrRep3, lrRep, Rep3.gh]
      | cons u us =>
        have := ih Rs us
        simp only [Rep3.gh] at this
        simp only [lrRep3, lrRep, List.map_cons, Rep3.gh, ← this]

theorem lrRep3_s (Ls Rs : List (Rep3 F)) (us : List F) :
    (lrRep3 Ls Rs us).s = lrSum (Ls.map Rep3.s) (Rs.map Rep3.s) us := by
  induction Ls generalizing Rs us with
  | nil => simp [lrRep3, lrSum]
  | cons L Ls ih =>
    cases Rs with
    | nil => simp [lrRep3, lrSum]
    | cons R Rs =>
      cases us with
      | nil => simp [lrRep3, lrSum]
      | cons u us => simp only [lrRep3, lrSum, List.map_cons, ih Rs us]

theorem rep3Val_lrRep3 (G : List F) (h' s : F) (Ls Rs : List (Rep3 F)) (us : List F) :
    rep3Val G h' s (lrRep3 Ls Rs us)
      = lrSum (Ls.map (rep3Val G h' s)) (Rs.map (rep3Val G h' s)) us := by
  induction Ls generalizing Rs us with
  | nil => simp [lrRep3, lrSum, rep3Val]
  | cons L Ls ih =>
    cases Rs with
    | nil => simp [lrRep3, lrSum, rep3Val]
    | cons R Rs =>
      cases us with
      | nil => simp [lrRep3, lrSum, rep3Val]
      | cons u us =>
        have := ih Rs us
        simp only [lrRep3, lrSum, List.map_cons]
        unfold rep3Val at this ⊢
        simp only [dot_padd_right, dot_pscale_right]
        linear_combination this

theorem slack3_lrRep3 (z : F) (Ls Rs : List (Rep3 F)) (us : List F) :
    slack3 z (lrRep3 Ls Rs us) = lrSum (Ls.map (slack3 z)) (Rs.map (slack3 z)) us := by
  rw [slack3_eq, lrRep3_gh, slack_lrRep, List.map_map, List.map_map]
  rfl

/-- the coefficient vector of the verifier's equation over `(G, h′, s)`: the `(G, h′)`-part is the one of
`IPA.relG`, `IPA.relH`; the `s`-part collects the `s`-components of the combined commitment and of the rounds -/
def rel3 (P : Rep3 F) (V : F) (Ls Rs : List (Rep3 F)) (us : List F) (c z : F) : Rep3 F :=
  ⟨padd (padd P.G (lrRep3 Ls Rs us).G) (pscale (-c) (Succinct.computeCoeffs us)),
   P.h + V + (lrRep3 Ls Rs us).h - c * Succinct.evaluate us z,
   P.s + (lrRep3 Ls Rs us).s⟩

theorem rel3_G (P : Rep3 F) (V : F) (Ls Rs : List (Rep3 F)) (us : List F) (c z : F) :
    (rel3 P V Ls Rs us c z).G = relG P.gh (Ls.map Rep3.gh) (Rs.map Rep3.gh) us c := by
  unfold rel3 relG
  rw [← lrRep3_gh]
  rfl

theorem rel3_h (P : Rep3 F) (V : F) (Ls Rs : List (Rep3 F)) (us : List F) (c z : F) :
    (rel3 P V Ls Rs us c z).h = relH P.gh V (Ls.map Rep3.gh) (Rs.map Rep3.gh) us c z := by
  unfold rel3 relH
  rw [← lrRep3_gh]
  rfl

/-- **Acceptance is one linear relation between the three generator families.** -/
theorem accept_relation3 (vk : VK F) (z : F) (π : Proof F) (r : Run F) (P : Rep3 F)
    (Ls Rs : List (Rep3 F))
    (hC : r.C = rep3Val vk.commKey (vk.h * r.ξ₀) vk.s P)
    (hlr : r.lr = rep3Val vk.commKey (vk.h * r.ξ₀) vk.s (lrRep3 Ls Rs r.us))
    (h1 : defect1 vk z π r = 0) (h2 : defect2 vk π r.us = 0) :
    rep3Val vk.commKey (vk.h * r.ξ₀) vk.s (rel3 P r.V Ls Rs r.us π.c z) = 0 := by
  unfold defect1 at h1
  unfold defect2 at h2
  rw [hC, hlr] at h1
  unfold rep3Val rel3 at *
  simp only [dot_padd_right, dot_pscale_right]
  linear_combination h1 - π.c * h2

/-- **The trichotomy over `(G, h′, s)`.**  An accepted transcript whose combined commitment and round elements
are given by representations: a NON-TRIVIAL linear relation between the generators, or the combined claim is what
the `(G, h′)`-part of the combined commitment says (`slack3 z P = V`), or some round challenge is a root of a
non-zero quadratic fixed before it was drawn.  The `s`-components never enter the last two branches: the hiding
generator can absorb nothing of the claim. -/
theorem algebraic_trichotomy3 (vk : VK F) (z : F) (π : Proof F) (r : Run F) (P : Rep3 F)
    (Ls Rs : List (Rep3 F))
    (hC : r.C = rep3Val vk.commKey (vk.h * r.ξ₀) vk.s P)
    (hlr : r.lr = rep3Val vk.commKey (vk.h * r.ξ₀) vk.s (lrRep3 Ls Rs r.us))
    (hus : ∀ u ∈ r.us, u ≠ 0)
    (h1 : defect1 vk z π r = 0) (h2 : defect2 vk π r.us = 0) :
    ((rel3 P r.V Ls Rs r.us π.c z).Nontrivial ∧
        rep3Val vk.commKey (vk.h * r.ξ₀) vk.s (rel3 P r.V Ls Rs r.us π.c z) = 0)
      ∨ slack3 z P = r.V
      ∨ ∃ i, i < r.us.length ∧ i < Ls.length ∧ i < Rs.length ∧
          (slack3 z P - r.V)
            + lrSum ((Ls.map (slack3 z)).take i) ((Rs.map (slack3 z)).take i) (r.us.take i) ≠ 0 ∧
          (Rs.map (slack3 z)).getD i 0 * r.us.getD i 0 ^ 2
            + ((slack3 z P - r.V)
                + lrSum ((Ls.map (slack3 z)).take i) ((Rs.map (slack3 z)).take i) (r.us.take i))
              * r.us.getD i 0
            + (Ls.map (slack3 z)).getD i 0 = 0 := by
  have hrel := accept_relation3 vk z π r P Ls Rs hC hlr h1 h2
  by_cases hG : ∀ i, (rel3 P r.V Ls Rs r.us π.c z).G.getD i 0 = 0
  · by_cases hH : (rel3 P r.V Ls Rs r.us π.c z).h = 0
    · right
      rw [rel3_G] at hG
      rw [rel3_h] at hH
      have he := zero_relation_eval P.gh r.V _ _ r.us π.c z hG hH
      rw [List.map_map, List.map_map] at he
      have he' : (slack3 z P - r.V) + lrSum (Ls.map (slack3 z)) (Rs.map (slack3 z)) r.us = 0 := he
      by_cases hA : slack3 z P - r.V = 0
      · left; exact sub_eq_zero.1 hA
      · right
        obtain ⟨i, a1, a2, a3, a4, a5⟩ := running_error_hits_root _ _ r.us _ hus hA he'
        exact ⟨i, a1, by simpa using a2, by simpa using a3, a4, a5⟩
    · left; exact ⟨Or.inr (Or.inl hH), hrel⟩
  · left
    refine ⟨Or.inl ?_, hrel⟩
    by_contra hcon
    exact hG (fun i => by
      by_contra hne
      exact hcon ⟨i, hne⟩)

/-! ### the combined commitment and the combined value of an arbitrary statement -/

/-- the representation of one commitment over `(G, s)`: plain part `⟨p, G⟩ + ρ·s`, shifted part
`⟨q, G⟩ + ρ'·s` (`q`, `ρ'` are not looked at for a commitment without degree bound) -/
structure CRep (F : Type) where
  p : List F
  ρ : F
  q : List F
  ρ' : F
  deriving DecidableEq, Repr

/-- `x` represents the commitment `c` -/
def CommRep (G : List F) (s : F) (c : LComm F) (x : CRep F) : Prop :=
  c.comm.comm = dot G x.p + s * x.ρ ∧
    (c.comm.shifted = none ∨ c.comm.shifted = some (dot G x.q + s * x.ρ'))

/-- position by position, `xs` represents the commitments `cs` -/
def AllCommRep (G : List F) (s : F) : List (LComm F) → List (CRep F) → Prop
  | c :: cs, x :: xs => CommRep G s c x ∧ AllCommRep G s cs xs
  | [], [] => True
  | _, _ => False

theorem AllCommRep.length_eq (G : List F) (s : F) :
    ∀ (cs : List (LComm F)) (xs : List (CRep F)), AllCommRep G s cs xs → cs.length = xs.length := by
  intro cs
  induction cs with
  | nil => intro xs h; cases xs with
    | nil => rfl
    | cons x xs => exact absurd h (by simp [AllCommRep])
  | cons c cs ih => intro xs h; cases xs with
    | nil => exact absurd h (by simp [AllCommRep])
    | cons x xs => simp only [List.length_cons, ih xs h.2]

/-- the `G`-coefficients one position contributes to the combined commitment: `ξ·p` (+ `ξ′·q` under a bound) -/
def stepG (c : LComm F) (x : CRep F) (ξ ξ' : F) : List F :=
  match c.bound with
  | some _ => padd (pscale ξ x.p) (pscale ξ' x.q)
  | none => pscale ξ x.p

/-- the `s`-coefficient one position contributes to the combined commitment -/
def stepS (c : LComm F) (x : CRep F) (ξ ξ' : F) : F :=
  match c.bound with
  | some _ => ξ * x.ρ + ξ' * x.ρ'
  | none => ξ * x.ρ

/-- the error of one position's claim, weighted by its challenges:
`ξ·(p(z) − v)` (+ `ξ′·(q(z) − v·z^{s−b})` under the bound `b`) -/
def stepClaim (vk : VK F) (z : F) (c : LComm F) (x : CRep F) (v ξ ξ' : F) : F :=
  match c.bound with
  | some b => ξ * (evalPoly x.p z - v) + ξ' * (evalPoly x.q z - v * fpow z (supportedDegree vk - b))
  | none => ξ * (evalPoly x.p z - v)

theorem stepClaim_eq (vk : VK F) (z : F) (c : LComm F) (x : CRep F) (v ξ ξ' : F) :
    stepClaim vk z c x v ξ ξ' = evalPoly (stepG c x ξ ξ') z - stepErr vk z c v ξ ξ' := by
  unfold stepClaim stepG stepErr
  cases c.bound with
  | none => simp only [eval_pscale]; ring
  | some b => simp only [eval_padd, eval_pscale]; ring

/-- the `G`-coefficients of the combined commitment: `Σⱼ ξⱼ·pⱼ + ξ′ⱼ·qⱼ` -/
def accG : List (LComm F) → List (CRep F) → List F → F → List F → List F
  | c :: cs, x :: xs, _ :: vs, cur, ξ' :: ξ'' :: rest => padd (stepG c x cur ξ') (accG cs xs vs ξ'' rest)
  | _, _, _, _, _ => []

/-- the `s`-coefficient of the combined commitment: `Σⱼ ξⱼ·ρⱼ + ξ′ⱼ·ρ′ⱼ` -/
def accS : List (LComm F) → List (CRep F) → List F → F → List F → F
  | c :: cs, x :: xs, _ :: vs, cur, ξ' :: ξ'' :: rest => stepS c x cur ξ' + accS cs xs vs ξ'' rest
  | _, _, _, _, _ => 0

/-- the combined claim error `Σⱼ ξⱼ·(pⱼ(z) − vⱼ) + ξ′ⱼ·(qⱼ(z) − vⱼ·z^{s−bⱼ})` -/
def accClaim (vk : VK F) (z : F) : List (LComm F) → List (CRep F) → List F → F → List F → F
  | c :: cs, x :: xs, v :: vs, cur, ξ' :: ξ'' :: rest =>
    stepClaim vk z c x v cur ξ' + accClaim vk z cs xs vs ξ'' rest
  | _, _, _, _, _ => 0

/-- the combined claim error is the combined polynomial at `z` minus the combined value
(`IPA.valueErr … vs` is the verifier's combined value `Σⱼ ξⱼ·vⱼ + ξ′ⱼ·vⱼ·z^{s−bⱼ}`) -/
theorem accClaim_eq (vk : VK F) (z : F) :
    ∀ (cs : List (LComm F)) (xs : List (CRep F)) (vs : List F) (cur : F) (ξs : List F),
      cs.length = xs.length →
      accClaim vk z cs xs vs cur ξs = evalPoly (accG cs xs vs cur ξs) z - valueErr vk z cs vs cur ξs := by
  intro cs
  induction cs with
  | nil => intro xs vs cur ξs _; simp [accClaim, accG, valueErr]
  | cons c cs ih =>
    intro xs vs cur ξs hl
    cases xs with
    | nil => simp at hl
    | cons x xs =>
      cases vs with
      | nil => simp [accClaim, accG, valueErr]
      | cons v vs =>
        match ξs with
        | [] => simp [accClaim, accG, valueErr]
        | [_] => simp [accClaim, accG, valueErr]
        | ξ' :: ξ'' :: rest =>
          simp only [accClaim, accG, valueErr, eval_padd, stepClaim_eq]
          rw [ih xs vs ξ'' rest (by simpa using hl)]
          ring

/-- the coefficients with which the statement challenges enter the combined claim error, in the order in which
the challenges are squeezed: `pⱼ(z) − vⱼ`, then `qⱼ(z) − vⱼ·z^{s−bⱼ}` (`0` at a position without bound, whose
second challenge is squeezed and not used) -/
def claimCoeffs (vk : VK F) (z : F) : List (LComm F) → List (CRep F) → List F → List F
  | c :: cs, x :: xs, v :: vs =>
    stepClaim vk z c x v 1 0 :: stepClaim vk z c x v 0 1 :: claimCoeffs vk z cs xs vs
  | _, _, _ => []

theorem stepClaim_linear (vk : VK F) (z : F) (c : LComm F) (x : CRep F) (v ξ ξ' : F) :
    stepClaim vk z c x v ξ ξ' = stepClaim vk z c x v 1 0 * ξ + stepClaim vk z c x v 0 1 * ξ' := by
  unfold stepClaim
  cases c.bound with
  | none => simp only; ring
  | some b => simp only; ring

/-- **the combined claim error is ONE linear form in the statement challenges**, with the coefficients
`claimCoeffs` that are fixed by the statement and the representations -/
theorem accClaim_eq_dot (vk : VK F) (z : F) :
    ∀ (cs : List (LComm F)) (xs : List (CRep F)) (vs : List F) (cur : F) (ξs : List F),
      2 * cs.length ≤ ξs.length →
      accClaim vk z cs xs vs cur ξs = dot (claimCoeffs vk z cs xs vs) (cur :: ξs) := by
  intro cs
  induction cs with
  | nil => intro xs vs cur ξs _; simp [accClaim, claimCoeffs]
  | cons c cs ih =>
    intro xs vs cur ξs hl
    cases xs with
    | nil => simp [accClaim, claimCoeffs]
    | cons x xs =>
      cases vs with
      | nil => simp [accClaim, claimCoeffs]
      | cons v vs =>
        match ξs with
        | [] => simp at hl
        | [_] => simp at hl; omega
        | ξ' :: ξ'' :: rest =>
          simp only [accClaim, claimCoeffs, dot]
          rw [ih xs vs ξ'' rest (by simp at hl ⊢; omega), stepClaim_linear]
          ring

theorem stepClaim_one_zero (vk : VK F) (z : F) (c : LComm F) (x : CRep F) (v : F) :
    stepClaim vk z c x v 1 0 = evalPoly x.p z - v := by
  unfold stepClaim
  cases c.bound with
  | none => simp only; ring
  | some b => simp only; ring

/-- the coefficient of the first challenge of position `j` is the error `pⱼ(z) − vⱼ` of the plain claim -/
theorem claimCoeffs_even (vk : VK F) (z : F) :
    ∀ (cs : List (LComm F)) (xs : List (CRep F)) (vs : List F) (j : Nat) (_ : j < cs.length)
      (h1 : j < xs.length) (h2 : j < vs.length),
      (claimCoeffs vk z cs xs vs).getD (2 * j) 0 = evalPoly xs[j].p z - vs[j] := by
  intro cs
  induction cs with
  | nil => intro xs vs j h0; simp at h0
  | cons c cs ih =>
    intro xs vs j h0 h1 h2
    cases xs with
    | nil => simp at h1
    | cons x xs =>
      cases vs with
      | nil => simp at h2
      | cons v vs =>
        cases j with
        | zero => simp [claimCoeffs, stepClaim_one_zero]
        | succ j =>
          have e : 2 * (j + 1) = (2 * j + 1) + 1 := by ring
          simp only [claimCoeffs, e, List.getD_cons_succ, List.getElem_cons_succ]
          exact ih xs vs j (by simpa using h0) (by simpa using h1) (by simpa using h2)

/-- one step of the verifier's combining loop on a represented commitment -/
theorem accStep_rep (vk : VK F) (z : F) (c : LComm F) (x : CRep F) (v ξ ξ' C V C1 V1 : F)
    (hx : CommRep vk.commKey vk.s c x)
    (h : accStep vk z c v ξ ξ' C V = .ok (C1, V1)) :
    C1 = C + (dot vk.commKey (stepG c x ξ ξ') + vk.s * stepS c x ξ ξ') ∧
      V1 = V + stepErr vk z c v ξ ξ' := by
  obtain ⟨hp, hq⟩ := hx
  unfold accStep at h
  unfold stepG stepS stepErr
  split at h
  · cases h
  · rename_i hne
    split at h
    · rename_i b sc hb hsc
      split at h
      · cases h
      · injection h with h; injection h with h1 h2
        subst h1; subst h2
        rw [hb]
        simp only
        rcases hq with hq | hq
        · rw [hq] at hsc; cases hsc
        · rw [hq] at hsc
          injection hsc with hsc
          rw [← hsc, hp, dot_padd_right, dot_pscale_right, dot_pscale_right]
          constructor <;> ring
    · rename_i hno
      injection h with h; injection h with h1 h2
      subst h1; subst h2
      cases hb : c.bound with
      | none =>
        simp only
        rw [hp, dot_pscale_right]
        refine ⟨?_, trivial⟩
        ring
      | some b =>
        cases hsc : c.comm.shifted with
        | none => rw [hb, hsc] at hne; simp at hne
        | some sc => exact absurd hsc (hno b sc hb)

/-- **the verifier's combining loop on represented commitments**: the combined commitment is
`⟨Σⱼ ξⱼ·pⱼ + ξ′ⱼ·qⱼ, G⟩ + (Σⱼ ξⱼ·ρⱼ + ξ′ⱼ·ρ′ⱼ)·s`, the combined value `Σⱼ ξⱼ·vⱼ + ξ′ⱼ·vⱼ·z^{s−bⱼ}` -/
theorem accLoop_rep (vk : VK F) (z : F) :
    ∀ (cs : List (LComm F)) (xs : List (CRep F)) (vs : List F) (cur : F) (ξs : List F)
      (C V C' V' : F) (rest : List F), AllCommRep vk.commKey vk.s cs xs →
      accLoop vk z cs vs cur ξs C V = .ok ((C', V'), rest) →
      C' = C + (dot vk.commKey (accG cs xs vs cur ξs) + vk.s * accS cs xs vs cur ξs) ∧
        V' = V + valueErr vk z cs vs cur ξs := by
  intro cs
  induction cs with
  | nil =>
    intro xs vs cur ξs C V C' V' rest _ h
    simp only [accLoop] at h
    injection h with h; injection h with h1 h2; injection h1 with h1 h3
    subst h1; subst h3
    simp [accG, accS, valueErr]
  | cons c cs ih =>
    intro xs vs cur ξs C V C' V' rest hx h
    cases xs with
    | nil => exact absurd hx (by simp [AllCommRep])
    | cons x xs =>
      cases vs with
      | nil =>
        simp only [accLoop] at h
        injection h with h; injection h with h1 h2; injection h1 with h1 h3
        subst h1; subst h3
        simp [accG, accS, valueErr]
      | cons v vs =>
        simp only [accLoop] at h
        split at h
        · rename_i ξ' ξ'' rest'
          split at h
          · cases h
          · rename_i C1 V1 hstep
            obtain ⟨e1, e2⟩ := accStep_rep vk z c x v cur ξ' C V C1 V1 hx.1 hstep
            obtain ⟨e3, e4⟩ := ih xs vs ξ'' rest' C1 V1 C' V' rest hx.2 h
            simp only [accG, accS, valueErr, dot_padd_right]
            rw [e3, e4, e1, e2]
            constructor <;> ring
        · cases h

/-! ### the hiding adjustment -/

/-- the hiding challenge `α` of a run (`0` when the proof carries no hiding commitment) -/
def hidChal (π : Proof F) (ros : List F) : F := if π.hidingComm.isSome then ros.headD 0 else 0

/-- the oracle outputs left after the hiding block -/
def hidRest (π : Proof F) (ros : List F) : List F := if π.hidingComm.isSome then ros.tail else ros

/-- the proof's hiding commitment, if there is one, is `⟨hp, G⟩ + hρ·s` -/
def HidRep (G : List F) (s : F) (π : Proof F) (hp : List F) (hρ : F) : Prop :=
  π.hidingComm = none ∨ π.hidingComm = some (dot G hp + s * hρ)

theorem hidingAdjust_rep (vk : VK F) (π : Proof F) (C : F) (ros : List F) (C' : F) (ros1 : List F)
    (hp : List F) (hρ : F) (hh : HidRep vk.commKey vk.s π hp hρ)
    (h : hidingAdjust vk π C ros = .ok (C', ros1)) :
    C' = C + (dot vk.commKey (pscale (hidChal π ros) hp)
              + vk.s * (hidChal π ros * hρ - π.rand.getD 0)) ∧
      ros1 = hidRest π ros := by
  unfold hidingAdjust at h
  unfold hidChal hidRest
  split at h
  · cases h
  · rename_i hne
    split at h
    · rename_i hc rd hhc hrd
      split at h
      · cases h
      · rename_i α ros'
        injection h with h; injection h with h1 h2
        subst h1; subst h2
        rcases hh with hh | hh
        · rw [hh] at hhc; cases hhc
        · rw [hh] at hhc
          injection hhc with hhc
          rw [hh, hrd, ← hhc, dot_pscale_right]
          simp only [Option.isSome_some, if_true, List.headD_cons, List.tail_cons, Option.getD_some]
          constructor
          · ring
          · trivial
    · rename_i hno
      injection h with h; injection h with h1 h2
      subst h1; subst h2
      cases hhc : π.hidingComm with
      | none =>
        rw [hhc] at hne
        cases hrd : π.rand with
        | none => simp [dot_pscale_right]
        | some rd => rw [hrd] at hne; simp at hne
      | some hc =>
        rw [hhc] at hne
        cases hrd : π.rand with
        | none => rw [hrd] at hne; simp at hne
        | some rd => exact absurd hrd (hno hc rd hhc)

/-- the representation over `(G, h′, s)` of the combined commitment of a run, after the hiding adjustment -/
def runRep (cs : List (LComm F)) (xs : List (CRep F)) (vs : List F) (π : Proof F) (hp : List F) (hρ : F)
    (cur : F) (ξs ros : List F) : Rep3 F :=
  ⟨padd (accG cs xs vs cur ξs) (pscale (hidChal π ros) hp), 0,
   accS cs xs vs cur ξs + (hidChal π ros * hρ - π.rand.getD 0)⟩

/-- **what `succinct_check` computes on a represented statement**: the combined commitment is the element with
the representation `runRep`, the combined value is `valueErr … vs`, the seed of the round challenges is the
first oracle output after the hiding block, and the round challenges are non-zero. -/
theorem succinctRun_rep (vk : VK F) (cs : List (LComm F)) (xs : List (CRep F)) (z : F) (vs : List F)
    (π : Proof F) (hp : List F) (hρ : F) (cur : F) (ξs ros : List F) (r : Run F) (ξr ror : List F)
    (hcs : AllCommRep vk.commKey vk.s cs xs) (hh : HidRep vk.commKey vk.s π hp hρ)
    (hr : succinctRun vk cs z vs π (cur :: ξs) ros = .ok (r, ξr, ror)) :
    r.C = rep3Val vk.commKey (vk.h * r.ξ₀) vk.s (runRep cs xs vs π hp hρ cur ξs ros) ∧
      r.V = valueErr vk z cs vs cur ξs ∧
      r.ξ₀ = (hidRest π ros).headD 0 ∧
      r.lr = lrSum π.lVec π.rVec r.us ∧ (∀ u ∈ r.us, u ≠ 0) := by
  obtain ⟨C, ros2, hacc, hadj, hvr⟩ := succinctRun_parts vk cs z vs π cur ξs ros r ξr ror hr
  obtain ⟨e1, e2⟩ := accLoop_rep vk z cs xs vs cur ξs 0 0 C r.V ξr hcs hacc
  obtain ⟨e3, e4⟩ := hidingAdjust_rep vk π C ros r.C _ hp hρ hh hadj
  obtain ⟨e5, e6⟩ := verifyRounds_sound _ _ _ _ _ _ hvr
  refine ⟨?_, by rw [e2]; ring, by rw [← e4]; rfl, e5, e6⟩
  rw [e3, e1]
  unfold rep3Val runRep
  simp only [dot_padd_right]
  ring

/-- the slack of the combined commitment minus the combined value is the combined claim error plus the hiding
polynomial's value at `z`, weighted by the hiding challenge -/
theorem slack3_runRep (vk : VK F) (cs : List (LComm F)) (xs : List (CRep F)) (z : F) (vs : List F)
    (π : Proof F) (hp : List F) (hρ : F) (cur : F) (ξs ros : List F) (hl : cs.length = xs.length) :
    slack3 z (runRep cs xs vs π hp hρ cur ξs ros) - valueErr vk z cs vs cur ξs
      = accClaim vk z cs xs vs cur ξs + hidChal π ros * evalPoly hp z := by
  rw [accClaim_eq vk z cs xs vs cur ξs hl]
  unfold slack3 runRep
  simp only [eval_padd, eval_pscale]
  ring

/-! ### `batch_check`: one relation for the whole batch -/

/-- the value of the relation vector of ONE run, whatever the defects are -/
theorem rel3_val (vk : VK F) (z : F) (π : Proof F) (r : Run F) (P : Rep3 F) (Ls Rs : List (Rep3 F))
    (hC : r.C = rep3Val vk.commKey (vk.h * r.ξ₀) vk.s P)
    (hlr : r.lr = rep3Val vk.commKey (vk.h * r.ξ₀) vk.s (lrRep3 Ls Rs r.us)) :
    rep3Val vk.commKey (vk.h * r.ξ₀) vk.s (rel3 P r.V Ls Rs r.us π.c z)
      = defect1 vk z π r - π.c * defect2 vk π r.us := by
  unfold defect1 defect2
  rw [hC, hlr]
  unfold rep3Val rel3
  simp only [dot_padd_right, dot_pscale_right]
  ring

/-- sum of two representations -/
def Rep3.add (x y : Rep3 F) : Rep3 F := ⟨padd x.G y.G, x.h + y.h, x.s + y.s⟩

/-- scalar multiple of a representation -/
def Rep3.smul (a : F) (x : Rep3 F) : Rep3 F := ⟨pscale a x.G, a * x.h, a * x.s⟩

theorem rep3Val_add (G : List F) (h s : F) (x y : Rep3 F) :
    rep3Val G h s (x.add y) = rep3Val G h s x + rep3Val G h s y := by
  unfold rep3Val Rep3.add
  simp only [dot_padd_right]
  ring

theorem rep3Val_smul (G : List F) (h s a : F) (x : Rep3 F) :
    rep3Val G h s (x.smul a) = a * rep3Val G h s x := by
  unfold rep3Val Rep3.smul
  simp only [dot_pscale_right]
  ring

/-- one proof of a batch with everything the analysis needs: the point, the proof, the verifier's run, and the
representations over `(G, h′ₖ, s)` (`h′ₖ = ξ₀ₖ·h`) of the combined commitment and of the `L`s and `R`s -/
structure BatchItem (F : Type) where
  z : F
  π : Proof F
  r : Run F
  P : Rep3 F
  Ls : List (Rep3 F)
  Rs : List (Rep3 F)
  deriving DecidableEq, Repr

/-- the representations of an item are representations of what the verifier computed -/
def ItemRep (vk : VK F) (it : BatchItem F) : Prop :=
  it.r.C = rep3Val vk.commKey (vk.h * it.r.ξ₀) vk.s it.P ∧
    it.r.lr = rep3Val vk.commKey (vk.h * it.r.ξ₀) vk.s (lrRep3 it.Ls it.Rs it.r.us)

/-- the relation vector of one proof over the COMMON families `(G, h, s)`: `rel3` with its `h′ₖ`-coefficient
multiplied by `ξ₀ₖ` -/
def itemRel (it : BatchItem F) : Rep3 F :=
  ⟨(rel3 it.P it.r.V it.Ls it.Rs it.r.us it.π.c it.z).G,
   it.r.ξ₀ * (rel3 it.P it.r.V it.Ls it.Rs it.r.us it.π.c it.z).h,
   (rel3 it.P it.r.V it.Ls it.Rs it.r.us it.π.c it.z).s⟩

theorem itemRel_val (vk : VK F) (it : BatchItem F) (hrep : ItemRep vk it) :
    rep3Val vk.commKey vk.h vk.s (itemRel it)
      = defect1 vk it.z it.π it.r - it.π.c * defect2 vk it.π it.r.us := by
  rw [← rel3_val vk it.z it.π it.r it.P it.Ls it.Rs hrep.1 hrep.2]
  unfold rep3Val itemRel
  ring

/-- the relation vector of a batch, division-free: with `ρ₁ = 1, ρ₂, …` the randomizers of `batch_check` and
`cₖ` the final coefficient of proof `k`, the second component is `Σₖ ρₖ·(Πⱼ≠ₖ cⱼ)·itemRelₖ`; the first is `Πₖ cₖ`.
(Each proof's own equation `defect1ₖ = 0` contains `cₖ·Kₖ`, the batch equation contains `Σₖ ρₖ·Kₖ`; the weights
`ρₖ·Πⱼ≠ₖ cⱼ` are what eliminates the prover's `Kₖ = final_comm_key` from all of them at once.  When every `cₖ ≠ 0`
this is `Πₖ cₖ` times `Σₖ (ρₖ/cₖ)·itemRelₖ`.) -/
def batchRel : F → List F → List (BatchItem F) → F × Rep3 F
  | ρ, rs, it :: its =>
    (it.π.c * (batchRel (rs.headD 0) rs.tail its).1,
     ((itemRel it).smul (ρ * (batchRel (rs.headD 0) rs.tail its).1)).add
       ((batchRel (rs.headD 0) rs.tail its).2.smul it.π.c))
  | _, _, [] => (1, ⟨[], 0, 0⟩)

/-- the value of the batch relation vector: `−(Πₖ cₖ)` times the randomizer-weighted sum of the final-key
defects, provided every succinct check passed -/
theorem batchRel_val (vk : VK F) :
    ∀ (its : List (BatchItem F)) (ρ : F) (rs : List F),
      (∀ it ∈ its, ItemRep vk it ∧ defect1 vk it.z it.π it.r = 0) →
      rep3Val vk.commKey vk.h vk.s (batchRel ρ rs its).2
        = -((batchRel ρ rs its).1
            * KZG.wsum ρ rs (its.map fun it => defect2 vk it.π it.r.us)) := by
  intro its
  induction its with
  | nil => intro ρ rs _; simp [batchRel, KZG.wsum, rep3Val]
  | cons it its ih =>
    intro ρ rs h
    obtain ⟨hrep, hd1⟩ := h it (by simp)
    have hrec := ih (rs.headD 0) rs.tail (fun x hx => h x (by simp [hx]))
    simp only [batchRel, List.map_cons, KZG.wsum, rep3Val_add, rep3Val_smul]
    rw [hrec, itemRel_val vk it hrep, hd1]
    ring

/-- `its` lists, proof by proof, what the loop of `batch_check` computes: the point of the group, the proof, and
the run of `succinct_check` on the group's commitments and values, the sponge and the oracle being threaded
from one proof to the next -/
def BatchItems (vk : VK F) (comms : List (LComm F)) (evals : List ((Label × F) × F)) :
    List (Label × (F × List Label)) → List (Proof F) → List F → List F → List (BatchItem F) → Prop
  | g :: gs, π :: πs, ξs, ros, it :: its =>
    it.z = g.2.1 ∧ it.π = π ∧
      ∃ cs vs ξs' ros', gatherComms comms evals g.2.1 g.2.2 = .ok (cs, vs) ∧
        succinctRun vk cs g.2.1 vs π ξs ros = .ok (it.r, ξs', ros') ∧
        BatchItems vk comms evals gs πs ξs' ros' its
  | _ :: _, _ :: _, _, _, [] => False
  | _, _, _, _, its => its = []

theorem batchSuccinct_items (vk : VK F) (comms : List (LComm F)) (evals : List ((Label × F) × F)) :
    ∀ (gs : List (Label × (F × List Label))) (πs : List (Proof F)) (ξs ros : List F)
      (its : List (BatchItem F)) (uss : List (List F)), πs.length = gs.length →
      BatchItems vk comms evals gs πs ξs ros its →
      batchSuccinct vk comms evals gs πs ξs ros = .ok (some uss) →
      (∀ it ∈ its, defect1 vk it.z it.π it.r = 0) ∧
        defect2s vk uss πs = its.map fun it => defect2 vk it.π it.r.us := by
  intro gs
  induction gs with
  | nil =>
    intro πs ξs ros its uss hl hits h
    have hπ : πs = [] := List.eq_nil_of_length_eq_zero (by simpa using hl)
    subst hπ
    simp only [BatchItems] at hits
    subst hits
    simp only [batchSuccinct] at h
    injection h with h; injection h with h
    subst h
    simp [defect2s]
  | cons g gs ih =>
    intro πs ξs ros its uss hl hits h
    cases πs with
    | nil => simp at hl
    | cons π πs =>
      cases its with
      | nil => exact absurd hits (by simp [BatchItems])
      | cons it its =>
        obtain ⟨hz, hπ, cs, vs, ξs', ros', hg, hrun, hrest⟩ := hits
        simp only [batchSuccinct] at h
        split at h
        · cases h
        · rw [hg] at h
          simp only [succinctCheck, hrun] at h
          by_cases hd : defect1 vk g.2.1 π it.r = 0
          · simp only [hd, if_true] at h
            split at h
            · cases h
            · cases h
            · rename_i uss' hrec
              injection h with h; injection h with h
              subst h
              obtain ⟨e1, e2⟩ := ih πs ξs' ros' its uss' (by simpa using hl) hrest hrec
              constructor
              · intro x hx
                rcases List.mem_cons.1 hx with rfl | hx
                · rw [hz, hπ]; exact hd
                · exact e1 x hx
              · simp only [defect2s, List.map_cons, e2, hπ]
          · simp only [hd, if_false] at h
            cases h

/-- an accepted batch: the loop went through with every succinct check passing and the randomized final-key test
holds -/
theorem batchCheck_accept (vk : VK F) (comms : List (LComm F)) (qs : List (Query F))
    (evals : List ((Label × F) × F)) (πs : List (Proof F)) (ξs ros rs : List F)
    (h : batchCheck vk comms qs evals πs ξs ros rs = .ok true) :
    πs.length = (Marlin.groupQueries qs).length ∧
      ∃ uss, batchSuccinct vk comms evals (Marlin.groupQueries qs) πs ξs ros = .ok (some uss) ∧
        KZG.wsum 1 rs (defect2s vk uss πs) = 0 := by
  unfold batchCheck at h
  split at h
  · cases h
  · rename_i hl
    have hl' : πs.length = (Marlin.groupQueries qs).length := by
      by_contra hne; exact hl hne
    refine ⟨hl', ?_⟩
    cases hs : batchSuccinct vk comms evals (Marlin.groupQueries qs) πs ξs ros with
    | error e => rw [hs] at h; cases h
    | ok o =>
      rw [hs] at h
      cases o with
      | none => simp [batchDecide] at h
      | some uss =>
        refine ⟨uss, rfl, ?_⟩
        simp only [batchDecide] at h
        injection h with h
        rw [decide_eq_true_iff, batchDefect_eq] at h
        exact h

/-- the items of an accepted batch exist (with any representations attached) -/
theorem batchSuccinct_items_exist (vk : VK F) (comms : List (LComm F)) (evals : List ((Label × F) × F)) :
    ∀ (gs : List (Label × (F × List Label))) (πs : List (Proof F)) (ξs ros : List F)
      (uss : List (List F)), πs.length = gs.length →
      batchSuccinct vk comms evals gs πs ξs ros = .ok (some uss) →
      ∃ its, BatchItems vk comms evals gs πs ξs ros its ∧ its.length = πs.length := by
  intro gs
  induction gs with
  | nil =>
    intro πs ξs ros uss hl _
    have hπ : πs = [] := List.eq_nil_of_length_eq_zero (by simpa using hl)
    subst hπ
    exact ⟨[], by simp [BatchItems], rfl⟩
  | cons g gs ih =>
    intro πs ξs ros uss hl h
    cases πs with
    | nil => simp at hl
    | cons π πs =>
      simp only [batchSuccinct] at h
      split at h
      · cases h
      · split at h
        · cases h
        · rename_i cs vs hg
          unfold succinctCheck at h
          cases hrun : succinctRun vk cs g.2.1 vs π ξs ros with
          | error e => rw [hrun] at h; cases h
          | ok x =>
            obtain ⟨r, ξs', ros'⟩ := x
            rw [hrun] at h
            simp only at h
            by_cases hd : defect1 vk g.2.1 π r = 0
            · simp only [hd, if_true] at h
              split at h
              · cases h
              · cases h
              · rename_i uss' hrec
                obtain ⟨its, hits, hlen⟩ := ih πs ξs' ros' uss' (by simpa using hl) hrec
                exact ⟨⟨g.2.1, π, r, ⟨[], 0, 0⟩, [], []⟩ :: its,
                  ⟨rfl, rfl, cs, vs, ξs', ros', hg, hrun, hits⟩, by simp [hlen]⟩
            · simp only [hd, if_false] at h
              cases h

end IPA
end PCV
