/-
  PCV.Proofs.IPAExtractGeneral — the algebraic-forger analysis of `PCV.Proofs.IPAExtract`, generalised:

  * THREE independent generator families `(G, h′, s)`: the committer key, the round generator `h′ = ξ₀·h` and the
    hiding generator `s`.  Hiding commitments `⟨p, G⟩ + ρ·s`, the proof's hiding commitment and the `L_i`, `R_i`
    (which may carry an `s`-component too) are elements `⟨x.G, G⟩ + x.h·h′ + x.s·s`.
  * an ARBITRARY statement: the representation of the combined commitment and the combined value computed by
    `accLoop` on a list of commitments (with and without degree bounds), as explicit sums over the list.
  * `batch_check`: acceptance of a whole batch is one linear relation between `(G, h, s)`.
-/
import PCV.Proofs.IPAExtract

set_option linter.unusedSectionVars false
set_option linter.unusedVariables false

namespace PCV
namespace IPA

variable {F : Type} [Field F] [DecidableEq F]

/-! ### three generator families -/

/-- a representation over `(G, h′, s)`: the element is `⟨x.G, G⟩ + x.h·h′ + x.s·s` -/
structure Rep3 (F : Type) where
  G : List F
  h : F
  s : F
  deriving DecidableEq, Repr

/-- the element a representation stands for -/
def rep3Val (G : List F) (h' s : F) (x : Rep3 F) : F := dot G x.G + h' * x.h + s * x.s

/-- the `(G, h′)`-part of a representation (what `IPA.repVal`, `IPA.slack` of `IPAExtract` work on) -/
def Rep3.gh (x : Rep3 F) : List F × F := (x.G, x.h)

/-- some coefficient of the representation is non-zero -/
def Rep3.Nontrivial (x : Rep3 F) : Prop := (∃ i, x.G.getD i 0 ≠ 0) ∨ x.h ≠ 0 ∨ x.s ≠ 0

/-- how far a represented element is from "its `G`-part evaluated at `z` equals its `h′`-part"
(`IPA.slack` of the `(G, h′)`-part; the `s`-part plays no role) -/
def slack3 (z : F) (x : Rep3 F) : F := evalPoly x.G z - x.h

theorem slack3_eq (z : F) (x : Rep3 F) : slack3 z x = slack z x.gh := rfl

theorem rep3Val_eq (G : List F) (h' s : F) (x : Rep3 F) :
    rep3Val G h' s x = repVal G h' x.gh + s * x.s := rfl

/-- the representation of `Σ (u⁻¹·L + u·R)` -/
def lrRep3 : List (Rep3 F) → List (Rep3 F) → List F → Rep3 F
  | L :: Ls, R :: Rs, u :: us =>
    ⟨padd (padd (pscale u⁻¹ L.G) (pscale u R.G)) (lrRep3 Ls Rs us).G,
     L.h * u⁻¹ + R.h * u + (lrRep3 Ls Rs us).h,
     L.s * u⁻¹ + R.s * u + (lrRep3 Ls Rs us).s⟩
  | _, _, _ => ⟨[], 0, 0⟩

theorem lrRep3_gh (Ls Rs : List (Rep3 F)) (us : List F) :
    (lrRep3 Ls Rs us).gh = lrRep (Ls.map Rep3.gh) (Rs.map Rep3.gh) us := by
  induction Ls generalizing Rs us with
  | nil => simp [lrRep3, lrRep, Rep3.gh]
  | cons L Ls ih =>
    cases Rs with
    | nil => simp [lrRep3, lrRep, Rep3.gh]
    | cons R Rs =>
      cases us with
      | nil => simp [lrRep3, lrRep, Rep3.gh]
      | cons u us =>
        have := ih Rs us
        simp only [Rep3.gh] at this
        simp only [lrRep3, lrRep, List.map_cons, Rep3.gh, ← this]

theorem lrRep3_s (Ls Rs : List (Rep3 F)) (us : List F) :
    (lrRep3 Ls Rs us).s = lrSum (Ls.map Rep3.s) (Rs.map Rep3.s) us := by
  induction Ls generalizing Rs us with
  | nil => simp [lrRep3, lrSum]
  | cons L Ls ih =>
    cases Rs with
    | nil => simp [lrRep3, lrSum]
    | cons R Rs =>
      cases us with
      | nil => simp [lrRep3, lrSum]
      | cons u us => simp only [lrRep3, lrSum, List.map_cons, ih Rs us]

theorem rep3Val_lrRep3 (G : List F) (h' s : F) (Ls Rs : List (Rep3 F)) (us : List F) :
    rep3Val G h' s (lrRep3 Ls Rs us)
      = lrSum (Ls.map (rep3Val G h' s)) (Rs.map (rep3Val G h' s)) us := by
  induction Ls generalizing Rs us with
  | nil => simp [lrRep3, lrSum, rep3Val]
  | cons L Ls ih =>
    cases Rs with
    | nil => simp [lrRep3, lrSum, rep3Val]
    | cons R Rs =>
      cases us with
      | nil => simp [lrRep3, lrSum, rep3Val]
      | cons u us =>
        have := ih Rs us
        simp only [lrRep3, lrSum, List.map_cons]
        unfold rep3Val at this ⊢
        simp only [dot_padd_right, dot_pscale_right]
        linear_combination this

theorem slack3_lrRep3 (z : F) (Ls Rs : List (Rep3 F)) (us : List F) :
    slack3 z (lrRep3 Ls Rs us) = lrSum (Ls.map (slack3 z)) (Rs.map (slack3 z)) us := by
  rw [slack3_eq, lrRep3_gh, slack_lrRep, List.map_map, List.map_map]
  rfl

/-- the coefficient vector of the verifier's equation over `(G, h′, s)`: the `(G, h′)`-part is the one of
`IPA.relG`, `IPA.relH`; the `s`-part collects the `s`-components of the combined commitment and of the rounds -/
def rel3 (P : Rep3 F) (V : F) (Ls Rs : List (Rep3 F)) (us : List F) (c z : F) : Rep3 F :=
  ⟨padd (padd P.G (lrRep3 Ls Rs us).G) (pscale (-c) (Succinct.computeCoeffs us)),
   P.h + V + (lrRep3 Ls Rs us).h - c * Succinct.evaluate us z,
   P.s + (lrRep3 Ls Rs us).s⟩

theorem rel3_G (P : Rep3 F) (V : F) (Ls Rs : List (Rep3 F)) (us : List F) (c z : F) :
    (rel3 P V Ls Rs us c z).G = relG P.gh (Ls.map Rep3.gh) (Rs.map Rep3.gh) us c := by
  unfold rel3 relG
  rw [← lrRep3_gh]
  rfl

theorem rel3_h (P : Rep3 F) (V : F) (Ls Rs : List (Rep3 F)) (us : List F) (c z : F) :
    (rel3 P V Ls Rs us c z).h = relH P.gh V (Ls.map Rep3.gh) (Rs.map Rep3.gh) us c z := by
  unfold rel3 relH
  rw [← lrRep3_gh]
  rfl

/-- **Acceptance is one linear relation between the three generator families.** -/
theorem accept_relation3 (vk : VK F) (z : F) (π : Proof F) (r : Run F) (P : Rep3 F)
    (Ls Rs : List (Rep3 F))
    (hC : r.C = rep3Val vk.commKey (vk.h * r.ξ₀) vk.s P)
    (hlr : r.lr = rep3Val vk.commKey (vk.h * r.ξ₀) vk.s (lrRep3 Ls Rs r.us))
    (h1 : defect1 vk z π r = 0) (h2 : defect2 vk π r.us = 0) :
    rep3Val vk.commKey (vk.h * r.ξ₀) vk.s (rel3 P r.V Ls Rs r.us π.c z) = 0 := by
  unfold defect1 at h1
  unfold defect2 at h2
  rw [hC, hlr] at h1
  unfold rep3Val rel3 at *
  simp only [dot_padd_right, dot_pscale_right]
  linear_combination h1 - π.c * h2

/-- **The trichotomy over `(G, h′, s)`.**  An accepted transcript whose combined commitment and round elements
are given by representations: a NON-TRIVIAL linear relation between the generators, or the combined claim is what
the `(G, h′)`-part of the combined commitment says (`slack3 z P = V`), or some round challenge is a root of a
non-zero quadratic fixed before it was drawn.  The `s`-components never enter the last two branches: the hiding
generator can absorb nothing of the claim. -/
theorem algebraic_trichotomy3 (vk : VK F) (z : F) (π : Proof F) (r : Run F) (P : Rep3 F)
    (Ls Rs : List (Rep3 F))
    (hC : r.C = rep3Val vk.commKey (vk.h * r.ξ₀) vk.s P)
    (hlr : r.lr = rep3Val vk.commKey (vk.h * r.ξ₀) vk.s (lrRep3 Ls Rs r.us))
    (hus : ∀ u ∈ r.us, u ≠ 0)
    (h1 : defect1 vk z π r = 0) (h2 : defect2 vk π r.us = 0) :
    ((rel3 P r.V Ls Rs r.us π.c z).Nontrivial ∧
        rep3Val vk.commKey (vk.h * r.ξ₀) vk.s (rel3 P r.V Ls Rs r.us π.c z) = 0)
      ∨ slack3 z P = r.V
      ∨ ∃ i, i < r.us.length ∧ i < Ls.length ∧ i < Rs.length ∧
          (slack3 z P - r.V)
            + lrSum ((Ls.map (slack3 z)).take i) ((Rs.map (slack3 z)).take i) (r.us.take i) ≠ 0 ∧
          (Rs.map (slack3 z)).getD i 0 * r.us.getD i 0 ^ 2
            + ((slack3 z P - r.V)
                + lrSum ((Ls.map (slack3 z)).take i) ((Rs.map (slack3 z)).take i) (r.us.take i))
              * r.us.getD i 0
            + (Ls.map (slack3 z)).getD i 0 = 0 := by
  have hrel := accept_relation3 vk z π r P Ls Rs hC hlr h1 h2
  by_cases hG : ∀ i, (rel3 P r.V Ls Rs r.us π.c z).G.getD i 0 = 0
  · by_cases hH : (rel3 P r.V Ls Rs r.us π.c z).h = 0
    · right
      rw [rel3_G] at hG
      rw [rel3_h] at hH
      have he := zero_relation_eval P.gh r.V _ _ r.us π.c z hG hH
      rw [List.map_map, List.map_map] at he
      have he' : (slack3 z P - r.V) + lrSum (Ls.map (slack3 z)) (Rs.map (slack3 z)) r.us = 0 := he
      by_cases hA : slack3 z P - r.V = 0
      · left; exact sub_eq_zero.1 hA
      · right
        obtain ⟨i, a1, a2, a3, a4, a5⟩ := running_error_hits_root _ _ r.us _ hus hA he'
        exact ⟨i, a1, by simpa using a2, by simpa using a3, a4, a5⟩
    · left; exact ⟨Or.inr (Or.inl hH), hrel⟩
  · left
    refine ⟨Or.inl ?_, hrel⟩
    by_contra hcon
    exact hG (fun i => by
      by_contra hne
      exact hcon ⟨i, hne⟩)

end IPA
end PCV
