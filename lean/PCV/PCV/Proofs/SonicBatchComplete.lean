/-
  PCV.Proofs.SonicBatchComplete — completeness of the trait-default `batch_open` followed by
  SonicKZG10's `batch_check`: label lookups on the prover and verifier side find aligned triples,
  so every point label's individual check accepts, and the batch is accepted for every randomizer list.
-/
import PCV.Proofs.SonicBatch

set_option linter.unusedSectionVars false
set_option linter.unusedVariables false
set_option linter.unusedSimpArgs false

namespace PCV
namespace Sonic
open Marlin (Label LPoly Query sortDedup checkDegreesAndBounds groupQueries lookupLast lookupEval)

variable {F : Type} [Field F] [DecidableEq F]

/-- commitments carry the labels of their polynomials -/
def SameLabels : List (LComm F) → List (LPoly F) → Prop
  | [], [] => True
  | c :: cs, p :: ps => c.label = p.label ∧ SameLabels cs ps
  | _, _ => False

theorem commit_labels (ck : CK F) (ps : List (LPoly F)) (rng : Bool) (draws : List F)
    (cs : List (LComm F)) (rs : List (List F)) (rest : List F)
    (hc : commit ck ps rng draws = .ok (cs, rs, rest)) : SameLabels cs ps := by
  induction ps generalizing draws cs rs rest with
  | nil =>
    simp only [commit] at hc
    injection hc with hc; injection hc with h1 h2
    subst h1; trivial
  | cons p ps ih =>
    simp only [commit] at hc
    split at hc
    · cases hc
    · split at hc
      · cases hc
      · rename_i hrest
        injection hc with hc; injection hc with h1 h2
        subst h1
        exact ⟨rfl, ih _ _ _ _ hrest⟩

/-- prover-side and verifier-side lookup results belong together -/
def LRel (ck : CK F) (vk : VK F) (g γ β h : F) (s shb : Nat) :
    Option (LPoly F × List F) → Option (LComm F) → Prop
  | none, none => True
  | some x, some c => Good ck vk g γ β h s shb c x.1 x.2
  | _, _ => False

theorem lookup_aligned (ck : CK F) (vk : VK F) (g γ β h : F) (s shb : Nat) (l : Label)
    (cs : List (LComm F)) (ps : List (LPoly F)) (rs : List (List F))
    (hh : Honest ck vk g γ β h s shb cs ps rs) (hl : SameLabels cs ps)
    (a : Option (LPoly F × List F)) (b : Option (LComm F)) (hab : LRel ck vk g γ β h s shb a b) :
    LRel ck vk g γ β h s shb
      ((ps.zip rs).foldl (fun acc x => if x.1.label = l then some x else acc) a)
      (cs.foldl (fun acc x => if x.label = l then some x else acc) b) := by
  induction ps generalizing cs rs a b with
  | nil =>
    cases cs with
    | nil => simpa using hab
    | cons _ _ => exact absurd hl (by simp [SameLabels])
  | cons p ps ih =>
    cases cs with
    | nil => exact absurd hl (by simp [SameLabels])
    | cons c cs =>
      cases rs with
      | nil => exact absurd hh (by simp [Honest])
      | cons r rs =>
        obtain ⟨hgood, hrest⟩ := hh
        obtain ⟨hlab, hlrest⟩ := hl
        simp only [List.zip_cons_cons, List.foldl_cons]
        apply ih cs rs hrest hlrest
        rw [hlab]
        by_cases hp : p.label = l
        · simp only [hp, if_true]; exact hgood
        · simp only [hp, if_false]; exact hab

section Gather
variable (ck : CK F) (vk : VK F) (g γ β h : F) (s shb : Nat)

/-- the verifier's lookups for one point label find the commitments of the polynomials the prover's
lookups found, and the true values -/
theorem gather_aligned (cs : List (LComm F)) (ps : List (LPoly F)) (rs : List (List F))
    (hh : Honest ck vk g γ β h s shb cs ps rs) (hl : SameLabels cs ps)
    (evals : List ((Label × F) × F)) (z : F) (ls : List Label)
    (hev : ∀ l ∈ ls, ∀ x, lookupLast (fun (x : LPoly F × List F) => x.1.label) l (ps.zip rs) = some x →
      lookupEval evals l z = some (evalPoly x.1.poly z))
    (psg : List (LPoly F)) (ssg : List (List F))
    (hg : gatherPolys ps rs ls = .ok (psg, ssg)) :
    ∃ csg, gatherComms cs evals z ls = .ok (csg, psg.map fun p => evalPoly p.poly z) ∧
      Honest ck vk g γ β h s shb csg psg ssg := by
  induction ls generalizing psg ssg with
  | nil =>
    simp only [gatherPolys] at hg
    injection hg with hg; injection hg with h1 h2
    subst h1; subst h2
    exact ⟨[], by simp [gatherComms], trivial⟩
  | cons l ls ih =>
    simp only [gatherPolys] at hg
    split at hg
    · cases hg
    · rename_i p st hlook
      split at hg
      · cases hg
      · rename_i ps' ss' hrec
        injection hg with hg; injection hg with h1 h2
        subst h1; subst h2
        obtain ⟨csg, hcg, hhg⟩ := ih (fun l' hl' => hev l' (List.mem_cons_of_mem _ hl')) ps' ss' hrec
        have hrel := lookup_aligned ck vk g γ β h s shb l cs ps rs hh hl none none trivial
        have hlook' : (ps.zip rs).foldl (fun acc x => if x.1.label = l then some x else acc) none
            = some (p, st) := hlook
        rw [hlook'] at hrel
        cases hc : cs.foldl (fun acc x => if x.label = l then some x else acc) none with
        | none => rw [hc] at hrel; exact absurd hrel (by simp [LRel])
        | some c =>
          rw [hc] at hrel
          have hv := hev l (by simp) (p, st) hlook
          refine ⟨c :: csg, ?_, hrel, hhg⟩
          simp only [gatherComms, lookupLast, hc, hv, hcg, List.map_cons]

/-- the trait-default `batch_open` produces, group by group, proofs the individual checks accept -/
theorem batchOpen_allAccept (bi : F) (hb : β * bi = 1) (D : Nat) (bounds : Option (List Nat))
    (ht : trim (wfPP g γ β bi h D) s shb bounds = .ok (ck, vk))
    (cs : List (LComm F)) (ps : List (LPoly F)) (rs : List (List F))
    (hh : Honest ck vk g γ β h s shb cs ps rs) (hl : SameLabels cs ps)
    (evals : List ((Label × F) × F)) (gs : List (Label × (F × List Label)))
    (hev : ∀ gr ∈ gs, ∀ l ∈ gr.2.2, ∀ x,
      lookupLast (fun (x : LPoly F × List F) => x.1.label) l (ps.zip rs) = some x →
      lookupEval evals l gr.2.1 = some (evalPoly x.1.poly gr.2.1))
    (ξs : List F) (πs : List (KZG.Proof F)) (rest : List F)
    (ho : batchOpenGroups ck ps rs gs ξs = .ok (πs, rest)) :
    ∃ its, gatherGroups cs evals gs = .ok its ∧ AllAccept vk its πs ξs ∧ πs.length = gs.length := by
  induction gs generalizing ξs πs rest with
  | nil =>
    simp only [batchOpenGroups] at ho
    injection ho with ho; injection ho with h1 h2
    subst h1
    exact ⟨[], by simp [gatherGroups], trivial, rfl⟩
  | cons gr gs ih =>
    simp only [batchOpenGroups] at ho
    split at ho
    · cases ho
    · rename_i psg ssg hgp
      split at ho
      · cases ho
      · rename_i π ξs' hopen
        split at ho
        · cases ho
        · rename_i πs' rest' hrec
          injection ho with ho; injection ho with h1 h2
          subst h1
          obtain ⟨csg, hcg, hhg⟩ := gather_aligned ck vk g γ β h s shb cs ps rs hh hl evals gr.2.1 gr.2.2
            (fun l hl' x hx => hev gr (by simp) l hl' x hx) psg ssg hgp
          obtain ⟨its, hits, hacc, hlen⟩ := ih (fun gr' hgr' => hev gr' (List.mem_cons_of_mem _ hgr')) ξs' πs' rest' hrec
          have hchk := open_check_complete g γ β bi h hb D s shb bounds ck vk ht csg psg ssg hhg gr.2.1 ξs π ξs' hopen
          refine ⟨(csg, gr.2.1, psg.map fun p => evalPoly p.poly gr.2.1) :: its, ?_, ⟨ξs', hchk, hacc⟩, by simp [hlen]⟩
          simp only [gatherGroups, hcg, hits]

end Gather

/-- **Completeness of `batch_open` (trait default) → `batch_check` (Sonic)**: for a key made from a
trapdoor, commitments returned by `commit`, any query set, truthful evaluations and proofs returned by
`batch_open`, the batch verifier accepts — for every list of verifier randomizers. -/
theorem batch_complete (g γ β bi h : F) (hb : β * bi = 1) (D s shb : Nat) (bounds : Option (List Nat))
    (ck : CK F) (vk : VK F) (ht : trim (wfPP g γ β bi h D) s shb bounds = .ok (ck, vk))
    (ps : List (LPoly F)) (rng : Bool) (draws : List F) (cs : List (LComm F)) (rs : List (List F))
    (drest : List F) (hc : commit ck ps rng draws = .ok (cs, rs, drest))
    (qs : List (Query F)) (evals : List ((Label × F) × F))
    (hev : ∀ gr ∈ groupQueries qs, ∀ l ∈ gr.2.2, ∀ x,
      lookupLast (fun (x : LPoly F × List F) => x.1.label) l (ps.zip rs) = some x →
      lookupEval evals l gr.2.1 = some (evalPoly x.1.poly gr.2.1))
    (ξs : List F) (πs : List (KZG.Proof F)) (rest : List F)
    (ho : batchOpen ck ps rs qs ξs = .ok (πs, rest)) (vrs : List F) :
    batchCheck vk cs qs evals πs ξs vrs = .ok true := by
  have hh := commit_honest g γ β bi h hb D s shb bounds ck vk ht ps rng draws cs rs drest hc
  have hl := commit_labels ck ps rng draws cs rs drest hc
  obtain ⟨its, hits, hacc, hlen⟩ := batchOpen_allAccept ck vk g γ β h s shb bi hb D bounds ht cs ps rs hh hl
    evals (groupQueries qs) hev ξs πs rest ho
  rw [batchCheck_gathered vk cs qs evals πs ξs vrs hlen its hits]
  exact batch_all_true vk its πs ξs vrs hacc

end Sonic
end PCV
