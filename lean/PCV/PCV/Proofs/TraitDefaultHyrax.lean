/-
  PCV.Proofs.TraitDefaultHyrax — the trait-default `batch_open` / `batch_check` instantiated with the
  Hyrax model (`PCV.Model.Hyrax`; `HyraxPC` does not override them).  The threaded state is the pair
  (RNG draws still to come, sponge challenges still to come) on the prover's side and the challenges still
  to come on the verifier's side.  `Hyrax.open` / `Hyrax.check` take these lists as inputs and do not
  return the remainder, so the adapters below drop what an ACCEPTING run consumes (`dim + 3` draws and one
  challenge per polynomial): they are exact on the runs the completeness theorem speaks about.
-/
import PCV.Proofs.TraitDefaultBatch
import PCV.Proofs.Hyrax
set_option linter.unusedSectionVars false
set_option linter.unusedVariables false

namespace PCV
namespace TraitDefault
namespace HyraxInst
open Hyrax

variable {F : Type} [Field F] [DecidableEq F]

/-- a labelled polynomial / a labelled commitment (`row_coms`) -/
abbrev HP (F : Type) := Label × MLPoly F
abbrev HC (F : Type) := Label × List F
abbrev HTrip (F : Type) := (HP F × State F) × HC F

/-- what `HyraxPC::open` reads of one triple -/
def item (t : HTrip F) : OpenItem F := ⟨t.1.1.1, t.2.1, t.1.1.2.nv, t.1.2⟩

/-- `HyraxPC::open` as the `open` of the generic model -/
def openF (ks : List F) (hh : F) (ts : List (HTrip F)) (z : List F) (s : List F × List F) :
    Except Err (List (Proof F) × (List F × List F)) :=
  match Hyrax.open ks hh (ts.map item) z s.1 s.2 with
  | .error e => .error e
  | .ok πs => .ok (πs, (s.1.drop (ts.length * (2 ^ (z.length / 2) + 3)), s.2.drop ts.length))

/-- `HyraxPC::check` as the `check` of the generic model -/
def checkF (ks : List F) (hh : F) (cs : List (HC F)) (z : List F) (vs : List F) (πs : List (Proof F))
    (s : List F) : Except Err (Bool × List F) :=
  match Hyrax.check ks hh (cs.map (·.2)) z vs πs s with
  | .error e => .error e
  | .ok b => .ok (b, s.drop πs.length)

/-- the claimed value of a labelled polynomial: ark-poly's evaluation of the extension -/
def evalP (p : HP F) (z : List F) : F := mleEval p.2.evals z

/-- the triple is an output of `commit` for its polynomial (some blinding draws) -/
def HonestTriple (ks : List F) (hh : F) (t : HTrip F) : Prop :=
  ∃ ρ, commitOne ks hh t.1.1.2 ρ = .ok (t.2.2, t.1.2)

omit [DecidableEq F] in
theorem commitOne_prefix (ks : List F) (hh : F) (p : MLPoly F) (ρ more c : List F) (st : State F)
    (h : commitOne ks hh p ρ = .ok (c, st)) :
    commitOne ks hh p (ρ.take (2 ^ (p.nv / 2)) ++ more) = .ok (c, st) ∧
      (ρ.take (2 ^ (p.nv / 2)) ++ more).drop (2 ^ (p.nv / 2)) = more := by
  obtain ⟨hn, hks, hlen, hρ, rfl, rfl⟩ := commitOne_inv ks hh p ρ c st h
  have htl : (ρ.take (2 ^ (p.nv / 2))).length = 2 ^ (p.nv / 2) := by
    rw [List.length_take]; omega
  have he : p.evals.length = 2 ^ p.nv := by
    rw [hlen, ← pow_add]; congr 1; omega
  have htake : (ρ.take (2 ^ (p.nv / 2)) ++ more).take (2 ^ (p.nv / 2)) = ρ.take (2 ^ (p.nv / 2)) := by
    rw [List.take_append_of_le_length (by omega), List.take_of_length_le (by omega)]
  refine ⟨?_, ?_⟩
  · rw [commitOne_ok ks hh p _ hn hks he (by rw [List.length_append]; omega), htake]
  · rw [List.drop_append_of_le_length (by omega), List.drop_of_length_le (by omega), List.nil_append]

omit [DecidableEq F] in
/-- individually honest triples are jointly an output of one `commit` run (for suitable draws) -/
theorem commit_of_honest (ks : List F) (hh : F) (ts : List (HTrip F))
    (h : ∀ t ∈ ts, HonestTriple ks hh t) :
    ∃ ρs rest, commit ks hh (ts.map (·.1.1.2)) ρs = .ok (ts.map (·.2.2), ts.map (·.1.2), rest) := by
  induction ts with
  | nil => exact ⟨[], [], rfl⟩
  | cons t ts ih =>
    obtain ⟨ρ, hρ⟩ := h t List.mem_cons_self
    obtain ⟨ρs, rest, hc⟩ := ih fun t' ht' => h t' (List.mem_cons_of_mem _ ht')
    obtain ⟨h1, h2⟩ := commitOne_prefix ks hh t.1.1.2 ρ ρs t.2.2 t.1.2 hρ
    refine ⟨ρ.take (2 ^ (t.1.1.2.nv / 2)) ++ ρs, rest, ?_⟩
    simp only [List.map_cons, commit, h1, h2, hc]

theorem gatherOpen_subset {LP S C : Type} (lblP : LP → Label) (trips : List ((LP × S) × C))
    (ls : List Label) (ts : List ((LP × S) × C)) (h : gatherOpen lblP trips ls = .ok ts) :
    ∀ t ∈ ts, t ∈ trips := by
  induction ls generalizing ts with
  | nil =>
    simp only [gatherOpen, Except.ok.injEq] at h
    subst h; intro t ht; cases ht
  | cons l ls ih =>
    simp only [gatherOpen] at h
    cases hc : Marlin.lookupLast (fun (t : (LP × S) × C) => lblP t.1.1) l trips with
    | none => rw [hc] at h; cases h
    | some t0 =>
      rw [hc] at h
      simp only at h
      cases hr : gatherOpen lblP trips ls with
      | error e => rw [hr] at h; cases h
      | ok ts' =>
        rw [hr] at h
        simp only [Except.ok.injEq] at h
        subst h
        intro t ht
        rcases List.mem_cons.1 ht with rfl | ht
        · exact (lookupLast_some_mem _ l trips t hc).1
        · exact ih ts' hr t ht

/-- **one Hyrax group is complete**: the generic completeness hypothesis holds for the Hyrax pair, with
`R` = "the same challenges are still to come" and `Good` = every triple is honest -/
theorem pair_complete (ks : List F) (hh : F) (ts : List (HTrip F)) (z : List F)
    (πs : List (Proof F)) (sp sp' : List F × List F) (sv : List F)
    (hgood : ∀ t ∈ ts, HonestTriple ks hh t) (hR : sp.2 = sv)
    (ho : openF ks hh ts z sp = .ok (πs, sp')) :
    ∃ sv', checkF ks hh (ts.map (·.2)) z (ts.map fun t => evalP t.1.1 z) πs sv = .ok (true, sv') ∧
      sp'.2 = sv' := by
  unfold openF at ho
  cases hop : Hyrax.open ks hh (ts.map item) z sp.1 sp.2 with
  | error e => rw [hop] at ho; cases ho
  | ok πs' =>
    rw [hop] at ho
    simp only [Except.ok.injEq, Prod.mk.injEq] at ho
    obtain ⟨rfl, rfl⟩ := ho
    obtain ⟨ρs, rest, hc⟩ := commit_of_honest ks hh ts hgood
    unfold Hyrax.open at hop
    simp only at hop
    by_cases hn : z.length % 2 = 1
    · rw [if_pos hn] at hop; cases hop
    · rw [if_neg hn] at hop
      obtain ⟨h1, h2, h3, _, _⟩ := Hyrax.loops_complete ks hh z (by omega) (ts.map (·.1.1.2)) ρs sp.1 sp.2
        (ts.map (·.2.2)) (ts.map (·.1.2)) rest (ts.map item) πs' hc
        (by simp [List.map_map, item, Function.comp_def]) hop
      have hlen : πs'.length = ts.length := by simpa using h3
      refine ⟨sv.drop πs'.length, ?_, by simp [hR, hlen]⟩
      unfold checkF Hyrax.check
      simp only [List.map_map, Function.comp_def, List.length_map]
      rw [if_neg hn, if_neg (by simp [hlen])]
      have hvals : (ts.map fun t => evalP t.1.1 z) =
          (ts.map (·.1.1.2)).map fun p => mleEval p.evals z := by
        simp [List.map_map, evalP, Function.comp_def]
      rw [hvals, ← hR]
      simp only [List.map_map, Function.comp_def] at h1 ⊢
      rw [h1]

end HyraxInst
end TraitDefault
end PCV
