/-
  PCV.Proofs.SonicBatch — `SonicKZG10::batch_check`: the batch defect is the randomizer-weighted sum
  of the per-point defects; true batches are accepted for every randomizer list; shape refusals.
-/
import PCV.Proofs.SonicComplete

set_option linter.unusedSectionVars false
set_option linter.unusedVariables false
set_option linter.unusedSimpArgs false

namespace PCV
namespace Sonic
open Marlin (Label LPoly Query sortDedup checkDegreesAndBounds groupQueries)

variable {F : Type} [Field F] [DecidableEq F]

/-- the challenges left after the group `it` (`[]` if the list ran out) -/
def restAfter (it : Item F) (ξs : List F) : List F := (restOf it.1 it.2.2 ξs).getD []

/-- the defects of the individual checks, each with the challenges it would see in the batch -/
def groupDefects (vk : VK F) : List (Item F) → List (KZG.Proof F) → List F → List F
  | it :: its, π :: πs, ξs =>
    defect vk it.1 it.2.1 it.2.2 π ξs :: groupDefects vk its πs (restAfter it ξs)
  | _, _, _ => []

/-- every bound label met in the batch has a G2 element -/
def groupsOk (vk : VK F) : List (Item F) → List (KZG.Proof F) → List F → Bool
  | it :: its, _ :: πs, ξs => boundsOk vk.shiftOf it.1 it.2.2 ξs && groupsOk vk its πs (restAfter it ξs)
  | _, _, _ => true

/-- the challenge list suffices for the whole batch -/
def enough : List (Item F) → List (KZG.Proof F) → List F → Bool
  | it :: its, _ :: πs, ξs => (restOf it.1 it.2.2 ξs).isSome && enough its πs (restAfter it ξs)
  | _, _, _ => true

/-- the pairing product of the accumulators, with missing partners read as 0 -/
def accVal (vk : VK F) (acc : CMap F × F × F) : F :=
  elemsDefect vk (pairSumD vk.shiftOf acc.1) acc.2.1 acc.2.2

theorem accumulate_eq (vk : VK F) (cs : List (LComm F)) (z : F) (vs : List F) (π : KZG.Proof F)
    (ξs : List F) (ρ : F) (acc : CMap F × F × F) :
    accumulate vk cs z vs π ξs ρ acc =
      match restOf cs vs ξs with
      | none => .error .abort
      | some r => .ok ((accMap ρ cs vs ξs acc.1, acc.2.1 + ρ * π.w,
          acc.2.2 + ρ * (vk.g * (0 + linV cs vs ξs) - π.w * z + KZG.rvVal π.rv * vk.gammaG)), r) := by
  unfold accumulate
  rw [accLoop_eq]
  cases restOf cs vs ξs <;> rfl

/-- **C05 core.**  Whatever the loop of `batch_check` returns, its pairing product is the
product it started from plus `Σₖ ρₖ·Δₖ` (`ρ₀ = ρ`, later randomizers from `rs`), and its map has a
G2 partner for every key iff every bound label met has one. -/
theorem batchLoop_spec (vk : VK F) (its : List (Item F)) (πs : List (KZG.Proof F)) (ρ : F)
    (rs ξs : List F) (acc acc' : CMap F × F × F)
    (h : batchLoop vk its πs ρ rs ξs acc = .ok acc') :
    accVal vk acc' = accVal vk acc + KZG.wsum ρ rs (groupDefects vk its πs ξs) ∧
    keysOk vk.shiftOf acc'.1 = (keysOk vk.shiftOf acc.1 && groupsOk vk its πs ξs) := by
  induction its generalizing πs ρ rs ξs acc with
  | nil =>
    simp only [batchLoop] at h
    injection h with h; subst h
    simp [groupDefects, KZG.wsum, groupsOk]
  | cons it its ih =>
    cases πs with
    | nil =>
      simp only [batchLoop] at h
      injection h with h; subst h
      simp [groupDefects, KZG.wsum, groupsOk]
    | cons π πs =>
      simp only [batchLoop, accumulate_eq] at h
      cases hr : restOf it.1 it.2.2 ξs with
      | none => rw [hr] at h; cases h
      | some r =>
        rw [hr] at h
        simp only at h
        obtain ⟨h1, h2⟩ := ih πs _ _ _ _ h
        have hra : restAfter it ξs = r := by simp [restAfter, hr]
        refine ⟨?_, ?_⟩
        · rw [h1]
          simp only [groupDefects, KZG.wsum, hra]
          unfold accVal elemsDefect defect VK.shiftD
          simp only [pairSumD_accMap]
          ring
        · rw [h2]
          simp only [groupsOk, keysOk_accMap, hra, Bool.and_assoc]

theorem batchLoop_ok (vk : VK F) (its : List (Item F)) (πs : List (KZG.Proof F)) (ρ : F)
    (rs ξs : List F) (acc : CMap F × F × F) (he : enough its πs ξs = true) :
    ∃ acc', batchLoop vk its πs ρ rs ξs acc = .ok acc' := by
  induction its generalizing πs ρ rs ξs acc with
  | nil => exact ⟨acc, by simp [batchLoop]⟩
  | cons it its ih =>
    cases πs with
    | nil => exact ⟨acc, by simp [batchLoop]⟩
    | cons π πs =>
      simp only [enough, Bool.and_eq_true] at he
      obtain ⟨r, hr⟩ := Option.isSome_iff_exists.1 he.1
      have hra : restAfter it ξs = r := by simp [restAfter, hr]
      simp only [batchLoop, accumulate_eq, hr]
      exact ih πs _ _ _ _ (by rw [← hra]; exact he.2)

theorem batchLoop_abort (vk : VK F) (its : List (Item F)) (πs : List (KZG.Proof F)) (ρ : F)
    (rs ξs : List F) (acc : CMap F × F × F) (he : enough its πs ξs = false) :
    batchLoop vk its πs ρ rs ξs acc = .error .abort := by
  induction its generalizing πs ρ rs ξs acc with
  | nil => simp [enough] at he
  | cons it its ih =>
    cases πs with
    | nil => simp [enough] at he
    | cons π πs =>
      simp only [batchLoop, accumulate_eq]
      cases hr : restOf it.1 it.2.2 ξs with
      | none => rfl
      | some r =>
        have hra : restAfter it ξs = r := by simp [restAfter, hr]
        simp only [enough, hr, Option.isSome_some, Bool.true_and, hra] at he
        simp only
        exact ih πs _ _ _ _ he

/-- **`batch_check` decides exactly `Σₖ ρₖ·Δₖ = 0`** (on gathered statements): abort only if the
challenge list is too short, `UnsupportedDegreeBound` iff some bound label has no G2 element. -/
theorem batchCheckItems_eq (vk : VK F) (its : List (Item F)) (πs : List (KZG.Proof F))
    (ξs rs : List F) :
    batchCheckItems vk its πs ξs rs =
      if enough its πs ξs then
        if groupsOk vk its πs ξs then
          .ok (decide (KZG.wsum 1 rs (groupDefects vk its πs ξs) = 0))
        else .error .unsupportedBound
      else .error .abort := by
  unfold batchCheckItems
  by_cases he : enough its πs ξs = true
  · obtain ⟨acc', hacc⟩ := batchLoop_ok vk its πs 1 rs ξs ([], 0, 0) he
    obtain ⟨h1, h2⟩ := batchLoop_spec vk its πs 1 rs ξs _ acc' hacc
    rw [hacc]
    have hk : keysOk vk.shiftOf acc'.1 = groupsOk vk its πs ξs := by rw [h2]; simp [keysOk]
    simp only [he, if_true, checkElems, pairSum_eq, hk]
    by_cases hg : groupsOk vk its πs ξs = true
    · simp only [hg, if_true]
      congr 1
      apply decide_eq_decide.2
      have : accVal vk acc' = KZG.wsum 1 rs (groupDefects vk its πs ξs) := by
        rw [h1]; simp [accVal, elemsDefect, pairSumD]
      unfold accVal at this
      rw [this]
    · simp only [hg, Bool.false_eq_true, if_false]
  · have he' : enough its πs ξs = false := by simpa using he
    rw [batchLoop_abort vk its πs 1 rs ξs _ he']
    simp [he']

/-- every group's individual `check` accepts, each on the challenges it sees in the batch -/
def AllAccept (vk : VK F) : List (Item F) → List (KZG.Proof F) → List F → Prop
  | it :: its, π :: πs, ξs =>
    ∃ r, check vk it.1 it.2.1 it.2.2 π ξs = .ok (true, r) ∧ AllAccept vk its πs r
  | _, _, _ => True

theorem allAccept_facts (vk : VK F) (its : List (Item F)) (πs : List (KZG.Proof F)) (ξs : List F)
    (h : AllAccept vk its πs ξs) :
    enough its πs ξs = true ∧ groupsOk vk its πs ξs = true ∧
      ∀ d ∈ groupDefects vk its πs ξs, d = 0 := by
  induction its generalizing πs ξs with
  | nil => simp [enough, groupsOk, groupDefects]
  | cons it its ih =>
    cases πs with
    | nil => simp [enough, groupsOk, groupDefects]
    | cons π πs =>
      obtain ⟨r, hc, hrest⟩ := h
      rw [check_true_iff] at hc
      obtain ⟨h1, h2, h3⟩ := hc
      have hra : restAfter it ξs = r := by simp [restAfter, h1]
      obtain ⟨i1, i2, i3⟩ := ih πs r hrest
      simp only [enough, groupsOk, groupDefects, hra, h1, h2, i1, i2, Option.isSome_some,
        Bool.and_self, List.mem_cons, true_and]
      intro d hd
      rcases hd with rfl | hd
      · exact h3
      · exact i3 d hd

/-- **All-true batches are accepted for every randomizer list.** -/
theorem batch_all_true (vk : VK F) (its : List (Item F)) (πs : List (KZG.Proof F)) (ξs rs : List F)
    (h : AllAccept vk its πs ξs) : batchCheckItems vk its πs ξs rs = .ok true := by
  obtain ⟨h1, h2, h3⟩ := allAccept_facts vk its πs ξs h
  rw [batchCheckItems_eq, h1, h2]
  simp only [if_true]
  congr 1
  rw [decide_eq_true_iff, KZG.wsum_zero _ _ _ h3]

/-- **One failing point, non-zero randomizer at its position ⇒ the batch is not accepted.** -/
theorem batch_single_false (vk : VK F) (its : List (Item F)) (πs : List (KZG.Proof F))
    (ξs rs : List F) (j : Nat)
    (hj : j < (groupDefects vk its πs ξs).length)
    (hz : ∀ i (hi : i < (groupDefects vk its πs ξs).length), i ≠ j → (groupDefects vk its πs ξs)[i] = 0)
    (hne : (groupDefects vk its πs ξs)[j] ≠ 0)
    (hr : ((1 : F) :: rs).getD j 0 ≠ 0) :
    batchCheckItems vk its πs ξs rs ≠ .ok true := by
  rw [batchCheckItems_eq]
  split
  · split
    · intro hc
      injection hc with hc
      rw [decide_eq_true_iff] at hc
      exact KZG.wsum_single 1 rs _ j hj hz hne hr hc
    · simp
  · simp

/-- shape: a proof list whose length is not the number of point labels is refused -/
theorem batchCheck_shape (vk : VK F) (comms : List (LComm F)) (qs : List (Query F))
    (evals : List ((Label × F) × F)) (πs : List (KZG.Proof F)) (ξs rs : List F)
    (hl : πs.length ≠ (groupQueries qs).length) :
    batchCheck vk comms qs evals πs ξs rs = .error .abort := by
  unfold batchCheck
  simp only [hl, ne_eq, not_false_eq_true, if_true]

theorem batchCheck_gathered (vk : VK F) (comms : List (LComm F)) (qs : List (Query F))
    (evals : List ((Label × F) × F)) (πs : List (KZG.Proof F)) (ξs rs : List F)
    (hl : πs.length = (groupQueries qs).length) (its : List (Item F))
    (hg : gatherGroups comms evals (groupQueries qs) = .ok its) :
    batchCheck vk comms qs evals πs ξs rs = batchCheckItems vk its πs ξs rs := by
  unfold batchCheck
  simp only [hl, ne_eq, not_true_eq_false, if_false, hg]

end Sonic
end PCV
