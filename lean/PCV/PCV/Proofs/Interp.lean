/-
  PCV.Proofs.Interp — the simulator's step of the hiding argument: for any targets at `n` distinct
  points there is a coefficient list of length `n` (a polynomial of degree < n) taking them.
-/
import PCV.Proofs.Poly
import Mathlib.LinearAlgebra.Lagrange
set_option linter.unusedSectionVars false

namespace PCV
namespace Interp
open Polynomial
variable {F : Type} [Field F] [DecidableEq F]

/-- coefficient list of a Mathlib polynomial, `n` entries, little-endian -/
noncomputable def coeffList (p : F[X]) (n : Nat) : List F := (List.range n).map p.coeff

theorem coeffList_length (p : F[X]) (n : Nat) : (coeffList p n).length = n := by
  simp [coeffList]

theorem evalPoly_map_range (f : Nat → F) (x : F) (n k : Nat) :
    evalPoly ((List.range' k n).map f) x = ∑ i ∈ Finset.range n, f (k + i) * x ^ i := by
  induction n generalizing k with
  | zero => simp
  | succ n ih =>
    rw [List.range'_succ, List.map_cons, evalPoly_cons, ih (k + 1), Finset.sum_range_succ', Finset.mul_sum]
    simp only [pow_zero, mul_one, Nat.add_zero]
    rw [add_comm]
    congr 1
    apply Finset.sum_congr rfl
    intro i _
    rw [pow_succ]
    have : k + 1 + i = k + (i + 1) := by omega
    rw [this]; ring

theorem evalPoly_coeffList (p : F[X]) (n : Nat) (h : p.natDegree < n) (x : F) :
    evalPoly (coeffList p n) x = p.eval x := by
  unfold coeffList
  rw [List.range_eq_range', evalPoly_map_range, eval_eq_sum_range' h]
  simp

/-- **Interpolation in list form.** For `n` pairwise distinct points and arbitrary targets there
is a coefficient list with `n` entries whose evaluation hits every target. -/
theorem exists_poly_through (pts vals : Fin n → F) (hinj : Function.Injective pts) :
    ∃ r : List F, r.length = n ∧ ∀ i, evalPoly r (pts i) = vals i := by
  classical
  by_cases hn : n = 0
  · subst hn; exact ⟨[], rfl, fun i => i.elim0⟩
  let p := Lagrange.interpolate Finset.univ pts vals
  have hdeg : p.degree < (Finset.univ : Finset (Fin n)).card :=
    Lagrange.degree_interpolate_lt _ (hinj.injOn)
  have hnat : p.natDegree < n := by
    simp only [Finset.card_univ, Fintype.card_fin] at hdeg
    by_cases hp : p = 0
    · rw [hp]; simp; omega
    · exact (natDegree_lt_iff_degree_lt hp).2 hdeg
  refine ⟨coeffList p n, coeffList_length p n, fun i => ?_⟩
  rw [evalPoly_coeffList p n hnat]
  exact Lagrange.eval_interpolate_at_node _ (hinj.injOn) (Finset.mem_univ i)

end Interp
end PCV
