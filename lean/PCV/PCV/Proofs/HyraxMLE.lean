/-
  PCV.Proofs.HyraxMLE — the algebra behind Hyrax: dot products, the `eq`-tensors (`tensor_prime` and
  its little-endian counterpart), `DenseMultilinearExtension::evaluate` as a dot product with the
  tensor, and the column-major matrix:  `f̃(z) = ⟨Lᵀ·M, R⟩`,  `Σ_r L_r·⟨ks, M_r⟩ = ⟨ks, Lᵀ·M⟩`.
-/
import PCV.Model.Hyrax
import PCV.Proofs.Poly
import Mathlib.Tactic.Ring
import Mathlib.Tactic.LinearCombination
import Mathlib.Algebra.Field.Basic

namespace PCV
namespace Hyrax
variable {F : Type} [Field F]

/-! ### dot products -/

theorem dot_nil_left (b : List F) : dot ([] : List F) b = 0 := by simp [dot]
theorem dot_nil_right (a : List F) : dot a ([] : List F) = 0 := by cases a <;> simp [dot]

theorem dot_cons (a : F) (as : List F) (b : F) (bs : List F) :
    dot (a :: as) (b :: bs) = a * b + dot as bs := by simp [dot]

theorem dot_append (a b c d : List F) (h : a.length = c.length) :
    dot (a ++ b) (c ++ d) = dot a c + dot b d := by
  induction a generalizing c with
  | nil => cases c with
    | nil => simp [dot]
    | cons _ _ => simp at h
  | cons x xs ih => cases c with
    | nil => simp at h
    | cons y ys =>
      simp only [List.cons_append, dot_cons]
      rw [ih ys (by simpa using h)]; ring

theorem dot_map_mul_right (a b : List F) (c : F) : dot a (b.map (· * c)) = dot a b * c := by
  induction a generalizing b with
  | nil => simp [dot]
  | cons x xs ih => cases b with
    | nil => simp [dot]
    | cons y ys => simp only [List.map_cons, dot_cons, ih]; ring

theorem dot_map_mul_left (a b : List F) (c : F) : dot a (b.map (c * ·)) = c * dot a b := by
  induction a generalizing b with
  | nil => simp [dot]
  | cons x xs ih => cases b with
    | nil => simp [dot]
    | cons y ys => simp only [List.map_cons, dot_cons, ih]; ring

theorem dot_zipWith_add (k a b : List F) (h : a.length = b.length) :
    dot k (List.zipWith (· + ·) a b) = dot k a + dot k b := by
  induction k generalizing a b with
  | nil => simp [dot]
  | cons x xs ih =>
    cases a with
    | nil => cases b with
      | nil => simp [dot]
      | cons _ _ => simp at h
    | cons y ys => cases b with
      | nil => simp at h
      | cons w ws =>
        simp only [List.zipWith_cons_cons, dot_cons]
        rw [ih ys ws (by simpa using h)]; ring

theorem dot_replicate_zero (k : List F) (n : Nat) : dot k (List.replicate n (0 : F)) = 0 := by
  induction k generalizing n with
  | nil => simp [dot]
  | cons x xs ih => cases n with
    | zero => simp
    | succ n => simp only [List.replicate_succ, dot_cons, ih]; ring

/-! ### the little-endian `eq` tensor and `mleEval` -/

/-- `[(1-r)·t₀, r·t₀, (1-r)·t₁, r·t₁, …]` -/
def interleave (r : F) (T : List F) : List F := T.flatMap fun t => [(1 - r) * t, r * t]

/-- the `eq`-tensor of a point with the FIRST coordinate on the LOWEST index bit -/
def tensorLE : List F → List F
  | [] => [1]
  | r :: rest => interleave r (tensorLE rest)

theorem interleave_nil (r : F) : interleave r ([] : List F) = [] := rfl
theorem interleave_cons (r t : F) (T : List F) :
    interleave r (t :: T) = (1 - r) * t :: r * t :: interleave r T := by
  simp [interleave]

theorem interleave_length (r : F) (T : List F) : (interleave r T).length = 2 * T.length := by
  induction T with
  | nil => rfl
  | cons t T ih => rw [interleave_cons]; simp [ih]; omega

theorem tensorLE_length (pt : List F) : (tensorLE pt).length = 2 ^ pt.length := by
  induction pt with
  | nil => rfl
  | cons r rest ih => simp only [tensorLE, interleave_length, ih, List.length_cons, pow_succ]; omega

theorem fixFirst_length (r : F) (e : List F) : (fixFirst r e).length = e.length / 2 := by
  fun_induction fixFirst r e with
  | case1 a b t ih => simp [ih]; omega
  | case2 e h =>
    match e, h with
    | [], _ => simp
    | [a], _ => simp
    | a :: b :: t, h => exact absurd rfl (h a b t)

theorem dot_fixFirst (r : F) (T e : List F) (h : e.length % 2 = 0) :
    dot (fixFirst r e) T = dot e (interleave r T) := by
  induction T generalizing e with
  | nil => rw [interleave_nil, dot_nil_right, dot_nil_right]
  | cons t T ih =>
    match e, h with
    | [], _ => simp [fixFirst, dot]
    | [a], h => simp at h
    | a :: b :: e', h =>
      rw [interleave_cons]
      simp only [fixFirst, dot_cons]
      rw [ih e' (by simp at h; omega)]; ring

theorem mleEval_eq_dot (pt e : List F) (h : e.length = 2 ^ pt.length) :
    mleEval e pt = dot e (tensorLE pt) := by
  induction pt generalizing e with
  | nil =>
    match e, h with
    | [a], _ => simp [mleEval, getD', tensorLE, dot]
  | cons r rest ih =>
    have hl : e.length = 2 * 2 ^ rest.length := by rw [h, List.length_cons, pow_succ]; omega
    simp only [mleEval, tensorLE]
    rw [ih (fixFirst r e) (by rw [fixFirst_length, hl]; omega), dot_fixFirst r _ e (by omega)]


theorem interleave_append (r : F) (A B : List F) :
    interleave r (A ++ B) = interleave r A ++ interleave r B := by
  simp [interleave]

theorem interleave_map_mul (r c : F) (T : List F) :
    interleave r (T.map (· * c)) = (interleave r T).map (· * c) := by
  induction T with
  | nil => rfl
  | cons t T ih =>
    simp only [List.map_cons, interleave_cons, ih]
    congr 1
    · ring
    · congr 1; ring

theorem tensorPrime_append_singleton (vs : List F) (r : F) :
    tensorPrime (vs ++ [r]) = interleave r (tensorPrime vs) := by
  induction vs with
  | nil => simp [tensorPrime, interleave]
  | cons v vs ih =>
    simp only [List.cons_append, tensorPrime, ih, interleave_append, interleave_map_mul]

theorem tensorPrime_reverse (pt : List F) : tensorPrime pt.reverse = tensorLE pt := by
  induction pt with
  | nil => rfl
  | cons r rest ih => rw [List.reverse_cons, tensorPrime_append_singleton, ih, tensorLE]

/-- outer product with `A` on the fast index -/
def outer (A B : List F) : List F := B.flatMap fun c => A.map (· * c)

theorem tensorLE_append (p1 p2 : List F) :
    tensorLE (p1 ++ p2) = outer (tensorLE p1) (tensorLE p2) := by
  induction p1 with
  | nil =>
    simp only [List.nil_append, tensorLE, outer, List.map_cons, List.map_nil, one_mul]
    induction tensorLE p2 with
    | nil => rfl
    | cons c T ih => simp [List.flatMap_cons] at ih ⊢
  | cons r p1 ih =>
    simp only [List.cons_append, tensorLE, ih, outer]
    induction tensorLE p2 with
    | nil => rfl
    | cons c T ih2 =>
      simp only [List.flatMap_cons, interleave_append, ih2, interleave_map_mul]

/-! ### the column-major matrix -/

theorem getD'_range_map {α : Type} (f : Nat → α) (n i : Nat) (d : α) (h : i < n) :
    getD' ((List.range n).map f) i d = f i := by
  simp [getD', h]

/-- column `col` of the column-major matrix = the `col`-th chunk of `n` entries of `flat` -/
def colOf (flat : List F) (n col : Nat) : List F :=
  (List.range n).map fun row => getD' flat (col * n + row) 0

theorem colOf_succ (flat : List F) (n col : Nat) :
    colOf flat n (col + 1) = colOf (flat.drop n) n col := by
  unfold colOf
  apply List.map_congr_left
  intro row _
  simp only [getD', List.getElem?_drop]
  congr 2
  rw [Nat.succ_mul]; omega

theorem colOf_zero (flat : List F) (n : Nat) (h : n ≤ flat.length) : colOf flat n 0 = flat.take n := by
  unfold colOf
  apply List.ext_getElem?
  intro i
  by_cases hi : i < n
  · have : i < flat.length := by omega
    simp [getD', hi, this]
  · simp [hi]

theorem dot_cols_outer (L R flat : List F) (n : Nat) (hL : L.length = n)
    (hf : flat.length = n * R.length) :
    dot ((List.range R.length).map fun col => dot L (colOf flat n col)) R = dot flat (outer L R) := by
  induction R generalizing flat with
  | nil => simp [outer]
  | cons c R ih =>
    have hn : n ≤ flat.length := by rw [hf, List.length_cons, Nat.mul_succ]; omega
    have hd : (flat.drop n).length = n * R.length := by
      rw [List.length_drop, hf, List.length_cons, Nat.mul_succ]; omega
    rw [List.length_cons, List.range_succ_eq_map, List.map_cons, List.map_map, dot_cons]
    have e1 : ((fun col => dot L (colOf flat n col)) ∘ Nat.succ)
        = fun col => dot L (colOf (flat.drop n) n col) := by
      funext col; simp only [Function.comp, Nat.succ_eq_add_one, colOf_succ]
    rw [e1, ih (flat.drop n) hd, colOf_zero flat n hn]
    have e2 : outer L (c :: R) = L.map (· * c) ++ outer L R := by simp [outer]
    conv_rhs => rw [e2, ← List.take_append_drop n flat]
    rw [dot_append _ _ _ _ (by simp [hL, hn]), dot_map_mul_right, dot_comm L]


/-- the rows `flat_to_matrix_column_major` produces -/
def rowsOf (flat : List F) (n m : Nat) : List (List F) :=
  (List.range n).map fun row => (List.range m).map fun col => getD' flat (col * n + row) 0

theorem flatToMatrix_ok (flat : List F) (n m : Nat) (h : flat.length = n * m) :
    flatToMatrixColumnMajor flat n m = .ok (rowsOf flat n m) := by
  unfold flatToMatrixColumnMajor rowsOf
  simp [h]

theorem rowsOf_length (flat : List F) (n m : Nat) : (rowsOf flat n m).length = n := by
  simp [rowsOf]

theorem newFromRows_rowsOf (flat : List F) (n m : Nat) (hn : 0 < n) :
    Matrix.newFromRows (rowsOf flat n m) = .ok ⟨n, m, rowsOf flat n m⟩ := by
  obtain ⟨k, rfl⟩ : ∃ k, n = k + 1 := ⟨n - 1, by omega⟩
  have hlen := rowsOf_length flat (k + 1) m
  unfold rowsOf at hlen ⊢
  rw [List.range_succ_eq_map] at hlen ⊢
  simp only [List.map_cons, Matrix.newFromRows]
  simp only [List.map_cons] at hlen
  rw [if_pos (by simp)]
  simp only [List.length_map, List.length_range] at hlen ⊢
  rw [hlen]

theorem col_rowsOf (flat : List F) (n m col : Nat) (h : col < m) :
    Matrix.col ⟨n, m, rowsOf flat n m⟩ col = colOf flat n col := by
  unfold Matrix.col colOf rowsOf
  apply List.map_congr_left
  intro row hr
  rw [List.mem_range] at hr
  simp only
  rw [getD'_range_map _ _ _ _ hr, getD'_range_map _ _ _ _ h]

theorem rowMul_rowsOf (flat L : List F) (n m : Nat) (hL : L.length = n) :
    Matrix.rowMul ⟨n, m, rowsOf flat n m⟩ L
      = .ok ((List.range m).map fun col => dot L (colOf flat n col)) := by
  unfold Matrix.rowMul innerProduct
  simp only [hL, ne_eq, not_true_eq_false, if_false]
  congr 1
  apply List.map_congr_left
  intro col hc
  rw [List.mem_range] at hc
  rw [col_rowsOf flat n m col hc]

theorem dot_map_add {α : Type} (l : List α) (f g : α → F) (L : List F) :
    dot (l.map fun x => f x + g x) L = dot (l.map f) L + dot (l.map g) L := by
  induction l generalizing L with
  | nil => simp
  | cons a l ih => cases L with
    | nil => simp
    | cons y ys => simp only [List.map_cons, dot_cons, ih]; ring

theorem dot_map_smul {α : Type} (l : List α) (k : F) (f : α → F) (L : List F) :
    dot (l.map fun x => k * f x) L = k * dot (l.map f) L := by
  induction l generalizing L with
  | nil => simp
  | cons a l ih => cases L with
    | nil => simp
    | cons y ys => simp only [List.map_cons, dot_cons, ih]; ring

theorem dot_map_zero {α : Type} (l : List α) (L : List F) :
    dot (l.map fun _ => (0 : F)) L = 0 := by
  induction l generalizing L with
  | nil => simp
  | cons a l ih => cases L with
    | nil => simp
    | cons y ys => simp only [List.map_cons, dot_cons, ih]; ring

/-- `Σ_r L_r·⟨ks, M_r⟩ = ⟨ks, Lᵀ·M⟩` -/
theorem dot_rows_exchange (ks L flat : List F) (n m : Nat) :
    dot ((rowsOf flat n m).map (dot ks)) L
      = dot ks ((List.range m).map fun col => dot L (colOf flat n col)) := by
  induction ks generalizing flat m with
  | nil =>
    simp only [dot_nil_left]
    exact dot_map_zero _ L
  | cons k ks ih =>
    cases m with
    | zero =>
      simp only [rowsOf, List.range_zero, List.map_nil, List.map_map, dot_nil_right]
      exact dot_map_zero _ L
    | succ m =>
      have hrows : (rowsOf flat n (m + 1)).map (dot (k :: ks))
          = (List.range n).map fun row => k * getD' flat row 0
              + dot ks ((List.range m).map fun col => getD' (flat.drop n) (col * n + row) 0) := by
        unfold rowsOf
        rw [List.map_map]
        apply List.map_congr_left
        intro row _
        simp only [Function.comp]
        rw [List.range_succ_eq_map, List.map_cons, List.map_map, dot_cons]
        congr 2
        · simp
        · apply List.map_congr_left
          intro col _
          simp only [Function.comp, getD', List.getElem?_drop, Nat.succ_eq_add_one]
          congr 2
          rw [Nat.succ_mul]; omega
      rw [hrows, dot_map_add, dot_map_smul]
      have h2 : ((List.range n).map fun row =>
            dot ks ((List.range m).map fun col => getD' (flat.drop n) (col * n + row) 0))
          = (rowsOf (flat.drop n) n m).map (dot ks) := by
        unfold rowsOf; rw [List.map_map]; rfl
      rw [h2, ih (flat.drop n) m]
      rw [List.range_succ_eq_map, List.map_cons, List.map_map, dot_cons]
      have e1 : ((fun col => dot L (colOf flat n col)) ∘ Nat.succ)
          = fun col => dot L (colOf (flat.drop n) n col) := by
        funext col; simp only [Function.comp, Nat.succ_eq_add_one, colOf_succ]
      rw [e1]
      have e0 : ((List.range n).map fun row => getD' flat row 0) = colOf flat n 0 := by
        unfold colOf; simp
      rw [e0, dot_comm L]

theorem dot_rowCommits (ks : List F) (hh : F) (rows : List (List F)) (ρs L : List F)
    (h : rows.length = ρs.length) :
    dot (rowCommits ks hh rows ρs) L = dot (rows.map (dot ks)) L + hh * dot ρs L := by
  unfold rowCommits
  induction rows generalizing ρs L with
  | nil =>
    cases ρs with
    | nil => simp [dot]
    | cons _ _ => simp at h
  | cons r rows ih =>
    cases ρs with
    | nil => simp at h
    | cons ρ ρs =>
      cases L with
      | nil => simp [dot]
      | cons l L =>
        simp only [List.zipWith_cons_cons, List.map_cons, dot_cons]
        rw [ih ρs L (by simpa using h)]; ring

end Hyrax
end PCV
