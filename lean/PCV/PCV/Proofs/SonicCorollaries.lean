/-
  PCV.Proofs.SonicCorollaries — single-kind changes of an honest SonicKZG10 statement: values only,
  point only, commitments only, one bound label; refusal of unsupported labels.
-/
import PCV.Proofs.SonicDomain

set_option linter.unusedSectionVars false
set_option linter.unusedVariables false
set_option linter.unusedSimpArgs false

namespace PCV
namespace Sonic
open Marlin (Label LPoly Query sortDedup checkDegreesAndBounds groupQueries)

variable {F : Type} [Field F] [DecidableEq F]

theorem addComms_zero (cs : List (LComm F)) : addComms cs (List.replicate cs.length 0) = cs := by
  induction cs with
  | nil => rfl
  | cons c cs ih =>
    simp only [addComms, List.length_cons, List.replicate_succ, List.zipWith_cons_cons] at ih ⊢
    rw [ih]
    cases c
    simp

theorem addVals_zero (vs : List F) : addVals vs (List.replicate vs.length 0) = vs := by
  induction vs with
  | nil => rfl
  | cons v vs ih =>
    simp only [addVals, List.length_cons, List.replicate_succ, List.zipWith_cons_cons] at ih ⊢
    rw [ih]; simp

/-- a bound label without a G2 element in the key is refused, never decided -/
theorem check_unsupported (vk : VK F) (cs : List (LComm F)) (z : F) (vs : List F) (π : KZG.Proof F)
    (ξs : List F) (hr : (restOf cs vs ξs).isSome = true) (hb : boundsOk vk.shiftOf cs vs ξs = false) :
    check vk cs z vs π ξs = .error .unsupportedBound := by
  rw [check_eq]
  obtain ⟨r, hr⟩ := Option.isSome_iff_exists.1 hr
  simp [hr, hb]

/-- the verifier never aborts when the sponge supplies its `1 + n` challenges -/
theorem check_total (vk : VK F) (cs : List (LComm F)) (z : F) (vs : List F) (π : KZG.Proof F)
    (ξs : List F) (hr : (restOf cs vs ξs).isSome = true) :
    (∃ b r, check vk cs z vs π ξs = .ok (b, r)) ∨ check vk cs z vs π ξs = .error .unsupportedBound := by
  rw [check_eq]
  obtain ⟨r, hr⟩ := Option.isSome_iff_exists.1 hr
  by_cases hb : boundsOk vk.shiftOf cs vs ξs = true
  · left; exact ⟨decide (defect vk cs z vs π ξs = 0), r, by simp [hr, hb]⟩
  · right; simp [hr, hb]

theorem restOf_isSome (cs : List (LComm F)) (vs ξs : List F)
    (h : min cs.length vs.length < ξs.length) : (restOf cs vs ξs).isSome = true := by
  induction cs generalizing vs ξs with
  | nil =>
    cases ξs with
    | nil => simp at h
    | cons ξ ξs => cases vs <;> simp [restOf]
  | cons c cs ih =>
    cases vs with
    | nil =>
      cases ξs with
      | nil => simp at h
      | cons ξ ξs => simp [restOf]
    | cons v vs =>
      cases ξs with
      | nil => simp at h
      | cons ξ ξs =>
        simp only [restOf]
        apply ih
        simp only [List.length_cons] at h
        omega

section WF
variable (g γ β bi h : F) (hb : β * bi = 1) (D s shb : Nat) (bounds : Option (List Nat))
  (ck : CK F) (vk : VK F) (ht : trim (wfPP g γ β bi h D) s shb bounds = .ok (ck, vk))
  (cs : List (LComm F)) (ps : List (LPoly F)) (rs : List (List F))
  (hh : Honest ck vk g γ β h s shb cs ps rs) (z : F) (ξs : List F) (π : KZG.Proof F)
  (rest : List F) (ho : Sonic.open ck ps z rs ξs = .ok (π, rest))
include hb ht hh ho

/-- only the values changed: accepted iff `g·h·Σ ξⱼ·dvⱼ = 0` -/
theorem honest_value_iff (dvs : List F) (hv : dvs.length = ps.length) :
    check vk cs z (addVals (ps.map fun p => evalPoly p.poly z) dvs) π ξs = .ok (true, rest) ↔
      g * linV cs dvs ξs * h = 0 := by
  have := honest_check_iff g γ β bi h hb D s shb bounds ck vk ht cs ps rs hh z ξs π rest ho
    (List.replicate cs.length 0) dvs 0 (by simp) hv
  rw [addComms_zero, add_zero] at this
  rw [this, linC_zero]
  constructor <;> intro h' <;> linear_combination -h'

/-- only the point changed: accepted iff `W·dz·h = 0` -/
theorem honest_point_iff (dz : F) :
    check vk cs (z + dz) (ps.map fun p => evalPoly p.poly z) π ξs = .ok (true, rest) ↔
      π.w * dz * h = 0 := by
  have := honest_check_iff g γ β bi h hb D s shb bounds ck vk ht cs ps rs hh z ξs π rest ho
    (List.replicate cs.length 0) (List.replicate (ps.map fun p => evalPoly p.poly z).length 0) dz
    (by simp) (by simp)
  rw [addComms_zero, addVals_zero] at this
  rw [this, linC_zero, linV_zero]
  constructor <;> intro h' <;> linear_combination h'

/-- only the commitments changed: accepted iff `Σ ξⱼ·dcⱼ·σ(bⱼ) = 0` -/
theorem honest_comm_iff (dcs : List F) (hc : dcs.length = cs.length) :
    check vk (addComms cs dcs) z (ps.map fun p => evalPoly p.poly z) π ξs = .ok (true, rest) ↔
      linC vk.shiftD (withComms cs dcs) (ps.map fun p => evalPoly p.poly z) ξs = 0 := by
  have := honest_check_iff g γ β bi h hb D s shb bounds ck vk ht cs ps rs hh z ξs π rest ho
    dcs (List.replicate (ps.map fun p => evalPoly p.poly z).length 0) 0 hc (by simp)
  rw [addVals_zero, add_zero] at this
  rw [this, linV_zero]
  constructor <;> intro h' <;> linear_combination h'

/-- **Mislabelled degree bound.**  The `j`-th commitment presented under another bound label `b` the
key supports: accepted iff `ξⱼ·Cⱼ·(σ(b) − σ(bⱼ)) = 0`. -/
theorem honest_relabel_iff (b : Option Nat) (hbs : (vk.shiftOf b).isSome = true) (j : Nat) :
    check vk (relabelAt j b cs) z (ps.map fun p => evalPoly p.poly z) π ξs = .ok (true, rest) ↔
      relabelTerm vk.shiftD b j cs (ps.map fun p => evalPoly p.poly z) ξs = 0 := by
  have hcomp := open_check_complete g γ β bi h hb D s shb bounds ck vk ht cs ps rs hh z ξs π rest ho
  rw [check_true_iff] at hcomp
  obtain ⟨h1, h2, h3⟩ := hcomp
  obtain ⟨_, e2, e3⟩ := shape_relabel vk.shiftOf b hbs j cs (ps.map fun p => evalPoly p.poly z) ξs
  rw [check_true_iff, defect_relabel, h3, zero_add, e2, h1]
  constructor
  · intro ⟨_, _, h'⟩; exact h'
  · intro h'; exact ⟨rfl, e3 h2, h'⟩

end WF

/-! ### commitments under an arbitrary key -/

/-- `KZG10::commit` is the MSM of the coefficients with the published key elements plus the MSM of
the blinding coefficients with the published γ-elements — whatever the key scalars are -/
theorem kzg_commit_msm (pw : KZG.Powers F) (p : List F) (hb : Option Nat) (rng : Bool)
    (draws : List F) (c : F) (r rest : List F)
    (h : KZG.commit pw p hb rng draws = .ok (c, r, rest)) :
    c = dot pw.g p + dot pw.gg r ∧ (hb = none → r = []) := by
  unfold KZG.commit at h
  split at h
  · cases h
  · split at h
    · injection h with h; injection h with h1 h2; injection h2 with h2 h3
      subst h1; subst h2
      exact ⟨by rw [KZG.msmSkip_eq]; simp, fun _ => rfl⟩
    · split at h
      · cases h
      · split at h
        · cases h
        · split at h
          · cases h
          · injection h with h; injection h with h1 h2; injection h2 with h2 h3
            subst h1; subst h2
            exact ⟨by rw [KZG.msmSkip_eq], fun hn => by cases hn⟩

/-- one polynomial of `SonicKZG10::commit`, arbitrary committer key -/
theorem commitOne_msm (ck : CK F) (p : LPoly F) (rng : Bool) (draws : List F) (c : F)
    (r rest : List F) (h : commitOne ck p rng draws = .ok (c, r, rest)) :
    ∃ pw, powersFor ck p.bound = .ok pw ∧ c = dot pw.g p.poly + dot pw.gg r ∧ (p.hb = none → r = []) := by
  unfold commitOne at h
  split at h
  · cases h
  · split at h
    · cases h
    · rename_i pw hpw
      split at h
      · cases h
      · split at h
        · cases h
        · obtain ⟨h1, h2⟩ := kzg_commit_msm pw p.poly p.hb true draws c r rest h
          exact ⟨pw, hpw, h1, h2⟩

theorem dot_padd_right (b p q : List F) : dot b (padd p q) = dot b p + dot b q := by
  have := KZG.msmSkip_add b p q
  rwa [KZG.msmSkip_eq, KZG.msmSkip_eq, KZG.msmSkip_eq] at this

theorem dot_pscale_right (b p : List F) (a : F) : dot b (pscale a p) = a * dot b p := by
  have := KZG.msmSkip_scale b p a
  rwa [KZG.msmSkip_eq, KZG.msmSkip_eq] at this

/-! ### the verifier key of a trapdoor-made parameter set -/

theorem shiftOf_wf (g γ β bi h : F) (D s shb : Nat) (l : List Nat) (ck : CK F) (vk : VK F)
    (ht : trim (wfPP g γ β bi h D) s shb (some l) = .ok (ck, vk)) (d : Nat) (hd : d ∈ l) :
    vk.shiftOf (some d) = some (fpow bi (D - d) * h) ∧ d ≤ s ∧ s ≤ D := by
  obtain ⟨_, h2, h3⟩ := powersFor_general _ s shb l ck vk ht d hd
  obtain ⟨hs, _⟩ := trim_wf_basic g γ β bi h D s shb (some l) ck vk ht
  simp only [wfPP, powers_length, Nat.add_sub_cancel] at h2
  refine ⟨?_, h3, hs⟩
  simp only [VK.shiftOf, h2]
  rw [powers_getD h bi (D + 1) (D - d) (by omega)]

/-- truthful degree reports -/
theorem trim_degree_reports (pp : UParams F) (s shb : Nat) (bounds : Option (List Nat)) (ck : CK F)
    (vk : VK F) (ht : trim pp s shb bounds = .ok (ck, vk)) :
    ck.supportedDegree = s ∧ vk.supported = s ∧ ck.maxDegree = pp.powers.length - 1 ∧
      vk.maxDegree = pp.powers.length - 1 ∧ s ≤ pp.powers.length - 1 := by
  obtain ⟨h1, _, h3, h4, _, _, h7, _, _, _, h11, h12, _⟩ := trim_inv pp s shb bounds ck vk ht
  refine ⟨?_, h11, h7, h12, h1⟩
  have hne : pp.powers ≠ [] := by intro e; rw [e] at h3; cases h3
  have : 1 ≤ pp.powers.length := by
    cases hq : pp.powers with
    | nil => exact absurd hq hne
    | cons _ _ => simp
  unfold CK.supportedDegree
  rw [h4, List.length_take]
  omega

/-! ### lookups of `batch_check` -/

theorem gatherComms_missing_poly (comms : List (LComm F)) (evals : List ((Label × F) × F)) (z : F)
    (l : Label) (ls : List Label)
    (h : Marlin.lookupLast (fun (c : LComm F) => c.label) l comms = none) :
    gatherComms comms evals z (l :: ls) = .error .missingPolynomial := by
  simp only [gatherComms, h]

theorem gatherComms_missing_eval (comms : List (LComm F)) (evals : List ((Label × F) × F)) (z : F)
    (l : Label) (ls : List Label) (c : LComm F)
    (h : Marlin.lookupLast (fun (c : LComm F) => c.label) l comms = some c)
    (he : Marlin.lookupEval evals l z = none) :
    gatherComms comms evals z (l :: ls) = .error .missingEvaluation := by
  simp only [gatherComms, h, he]

theorem batchCheck_refuses_gather (vk : VK F) (comms : List (LComm F)) (qs : List (Query F))
    (evals : List ((Label × F) × F)) (πs : List (KZG.Proof F)) (ξs rs : List F) (e : Err)
    (hg : gatherGroups comms evals (groupQueries qs) = .error e) :
    ∃ e', batchCheck vk comms qs evals πs ξs rs = .error e' := by
  unfold batchCheck
  by_cases hl : πs.length ≠ (groupQueries qs).length
  · exact ⟨.abort, by rw [if_pos hl]⟩
  · exact ⟨e, by rw [if_neg hl, hg]⟩

theorem gatherGroups_refuses_head (comms : List (LComm F)) (evals : List ((Label × F) × F))
    (gr : Label × (F × List Label)) (gs : List (Label × (F × List Label))) (e : Err)
    (h : gatherComms comms evals gr.2.1 gr.2.2 = .error e) :
    gatherGroups comms evals (gr :: gs) = .error e := by
  simp only [gatherGroups, h]

end Sonic
end PCV
