/-
  PCV.Proofs.PST13Extract — what an algebraic forger against MarlinPST13 gives away.  With the
  commitment `g·p(β⃗)` and witness elements `g·aᵢ(β⃗)` (any functions of the trapdoor the forger can
  express over the published `powers_of_g`), an accepted claim `(z, v)` under the challenge `ξ` is the
  identity `ξ·(p(β⃗) − v) − Σᵢ (βᵢ − zᵢ)·aᵢ(β⃗) = 0` at the trapdoor, while the same expression at `z`
  is `ξ·(p(z) − v)`.  Hiding variant: the `γ`-parts give a second such identity, or `γ` is an explicit
  multiple of `g`.
-/
import PCV.Proofs.PST13More

set_option linter.unusedSectionVars false
set_option linter.unusedVariables false

namespace PCV
namespace PST
open MV
variable {F : Type} [Field F] [DecidableEq F]

/-- `Σₖ (x_{j+k} − z_{j+k})·aₖ` -/
def linSumIdx (x z : List F) : Nat → List F → F
  | _, [] => 0
  | j, a :: as => (getD' x j 0 - getD' z j 0) * a + linSumIdx x z (j + 1) as

theorem linSumIdx_self (z : List F) (j : Nat) (as : List F) : linSumIdx z z j as = 0 := by
  induction as generalizing j with
  | nil => rfl
  | cons a as ih => simp [linSumIdx, ih]

theorem rhsSum_forger (g h : F) (β z : List F) (j : Nat) (as : List F) :
    rhsSum h (β.map (fun b => h * b)) z j (as.map (g * ·)) = g * h * linSumIdx β z j as := by
  induction as generalizing j with
  | nil => simp [rhsSum, linSumIdx]
  | cons a as ih =>
    simp only [List.map_cons, rhsSum, linSumIdx, ih (j + 1), getD'_map_mul]
    ring

theorem rhsSum_forger_hiding (g γ h : F) (β z : List F) (j : Nat) (as bs : List F)
    (hl : as.length = bs.length) :
    rhsSum h (β.map (fun b => h * b)) z j (List.zipWith (fun a b => g * a + γ * b) as bs)
      = h * (g * linSumIdx β z j as + γ * linSumIdx β z j bs) := by
  induction as generalizing j bs with
  | nil =>
    cases bs with
    | nil => simp [rhsSum, linSumIdx]
    | cons _ _ => simp at hl
  | cons a as ih =>
    cases bs with
    | nil => simp at hl
    | cons b bs =>
      simp only [List.zipWith_cons_cons, rhsSum, linSumIdx, ih (j + 1) bs (by simpa using hl),
        getD'_map_mul]
      ring

/-- **Extraction.**  Key of the trapdoor `β⃗`; commitment `g·P`, witnesses `g·aᵢ`, no `random_v`,
claimed value `v` at `z`, challenge `ξ`: acceptance is `ξ·(P − v) − Σ (βᵢ − zᵢ)·aᵢ = 0`
(for `g, h ≠ 0`). -/
theorem forgery_identity (g γ h : F) (β z as : List F) (nv s D : Nat) (P v ξ : F) (ξs : List F)
    (hg : g ≠ 0) (hh : h ≠ 0)
    (hacc : check (wfVK g γ h β nv s D) [g * P] z [v] ⟨as.map (g * ·), none⟩ (ξ :: ξs) = .ok true) :
    ξ * (P - v) - linSumIdx β z 0 as = 0 := by
  obtain ⟨_, a, ha, _, _, hb⟩ := check_ok_inv _ _ _ _ _ _ _ hacc
  simp only [accumulate, zero_add] at ha
  injection ha with ha
  subst ha
  have hd : defectCombined (wfVK g γ h β nv s D) (g * P * ξ) (v * ξ) z ⟨as.map (g * ·), none⟩ = 0 := by
    simpa using hb.symm
  unfold defectCombined at hd
  simp only [wfVK, rvVal, rhsSum_forger] at hd
  have : g * h * (ξ * (P - v) - linSumIdx β z 0 as) = 0 := by linear_combination hd
  rcases mul_eq_zero.1 this with h1 | h1
  · rcases mul_eq_zero.1 h1 with h2 | h2
    · exact absurd h2 hg
    · exact absurd h2 hh
  · exact h1

/-- **Extraction, hiding.**  Commitment `g·P + γ·R`, witnesses `g·aᵢ + γ·bᵢ`, `random_v = ρ`:
acceptance is `g·E_p + γ·E_r = 0` with `E_p = ξ·(P − v) − Σ (βᵢ − zᵢ)·aᵢ`,
`E_r = ξ·R − ρ − Σ (βᵢ − zᵢ)·bᵢ`. -/
theorem forgery_identity_hiding (g γ h : F) (β z as bs : List F) (nv s D : Nat) (P R v ρ ξ : F)
    (ξs : List F) (hl : as.length = bs.length) (hh : h ≠ 0)
    (hacc : check (wfVK g γ h β nv s D) [g * P + γ * R] z [v]
      ⟨List.zipWith (fun a b => g * a + γ * b) as bs, some ρ⟩ (ξ :: ξs) = .ok true) :
    g * (ξ * (P - v) - linSumIdx β z 0 as) + γ * (ξ * R - ρ - linSumIdx β z 0 bs) = 0 := by
  obtain ⟨_, a, ha, _, _, hb⟩ := check_ok_inv _ _ _ _ _ _ _ hacc
  simp only [accumulate, zero_add] at ha
  injection ha with ha
  subst ha
  have hd : defectCombined (wfVK g γ h β nv s D) ((g * P + γ * R) * ξ) (v * ξ) z
      ⟨List.zipWith (fun a b => g * a + γ * b) as bs, some ρ⟩ = 0 := by
    simpa using hb.symm
  unfold defectCombined at hd
  simp only [wfVK, rvVal, rhsSum_forger_hiding g γ h β z 0 as bs hl] at hd
  have : h * (g * (ξ * (P - v) - linSumIdx β z 0 as) + γ * (ξ * R - ρ - linSumIdx β z 0 bs)) = 0 := by
    linear_combination hd
  rcases mul_eq_zero.1 this with h1 | h1
  · exact absurd h1 hh
  · exact h1

end PST
end PCV
