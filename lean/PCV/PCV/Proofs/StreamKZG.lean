/-
  PCV.Proofs.StreamKZG — algebra of the streaming-KZG model: the time- and the space-efficient
  prover compute the same Horner recurrence / the same long division, commitments are the
  key-defined linear map, the verification equations and their defects.
-/
import PCV.Model.StreamKZG
import PCV.Proofs.Poly
import Mathlib.Tactic.FieldSimp

set_option linter.unusedSectionVars false

namespace PCV
namespace SKZG
variable {F : Type} [Field F]

/-! ### list algebra -/

theorem dot_append_zero (a b : List F) : dot a (b ++ [0]) = dot a b := by
  induction b generalizing a with
  | nil => cases a <;> simp [dot]
  | cons y ys ih =>
    cases a with
    | nil => simp
    | cons x xs => simp [ih xs]

theorem dot_take (a b : List F) (k : Nat) (h : b.length ≤ k) : dot (a.take k) b = dot a b := by
  induction b generalizing a k with
  | nil => simp
  | cons y ys ih =>
    cases a with
    | nil => simp
    | cons x xs =>
      cases k with
      | zero => simp at h
      | succ k => simp [ih xs k (by simpa using h)]

theorem dot_append (a a' b b' : List F) (h : a.length = b.length) :
    dot (a ++ a') (b ++ b') = dot a b + dot a' b' := by
  induction a generalizing b with
  | nil => cases b with
    | nil => simp
    | cons _ _ => simp at h
  | cons x xs ih => cases b with
    | nil => simp at h
    | cons y ys => simp [ih ys (by simpa using h)]; ring

theorem dot_reverse (a b : List F) (h : a.length = b.length) :
    dot a.reverse b.reverse = dot a b := by
  induction a generalizing b with
  | nil => cases b with
    | nil => simp
    | cons _ _ => simp at h
  | cons x xs ih => cases b with
    | nil => simp at h
    | cons y ys =>
      simp only [List.reverse_cons]
      rw [dot_append _ _ _ _ (by simpa using h), ih ys (by simpa using h)]
      simp [dot]; ring

theorem reverse_drop_sub (l : List F) (n : Nat) (h : n ≤ l.length) :
    l.reverse.drop (l.length - n) = (l.take n).reverse := by
  rw [List.drop_reverse]
  congr 2
  omega

/-! ### single-point opening -/

theorem time_openLoop_snoc (α c : F) (xs : List F) (prev : F) (q : List F) (h : prev = q.headD 0) :
    Time.openLoop α (xs ++ [c]) prev q
      = (c + (Time.openLoop α xs prev q).headD 0 * α) :: Time.openLoop α xs prev q := by
  induction xs generalizing prev q with
  | nil => simp [Time.openLoop, h]
  | cons x xs ih =>
    simp only [List.cons_append, Time.openLoop]
    exact ih _ _ (by simp)

/-- the vector built by `CommitterKey::open` is the synthetic division of `p` by `X - α`:
remainder first, then the quotient (whose padded top coefficient is the initial `previous = 0`). -/
theorem time_openLoop_divLin (α : F) (p : List F) :
    (divLin p α).2 :: (divLin p α).1 = Time.openLoop α p.reverse 0 [] ++ [0] := by
  induction p with
  | nil => simp [divLin, Time.openLoop]
  | cons c cs ih =>
    simp only [List.reverse_cons, divLin]
    rw [time_openLoop_snoc α c cs.reverse 0 [] rfl]
    simp only [List.cons_append, ← ih]
    have : (Time.openLoop α cs.reverse 0 []).headD 0 = (divLin cs α).2 := by
      cases hT : Time.openLoop α cs.reverse 0 [] with
      | nil => rw [hT] at ih; simp at ih; simp [ih.1]
      | cons a as => rw [hT] at ih; simp at ih; simp [ih.1]
    rw [this]; congr 1; ring

/-- **`CommitterKey::open` is synthetic division**: the evaluation is the remainder, the proof the
MSM of the quotient, for every coefficient list and every key. -/
theorem time_openBody_eq (ck : CK F) (p : List F) (α : F) :
    Time.openBody ck p α = (evalPoly p α, dot ck.powersOfG (divLin p α).1) := by
  have h := time_openLoop_divLin α p
  rw [divLin_rem] at h
  unfold Time.openBody
  cases hT : Time.openLoop α p.reverse 0 [] with
  | nil =>
    rw [hT] at h; simp at h
    simp [h.1, h.2]
  | cons ev quot =>
    rw [hT] at h; simp at h
    rw [h.1, h.2, dot_append_zero]

/-- … and `CommitterKey::open` answers it whenever the key has a power for every coefficient -/
theorem time_open_eq (ck : CK F) (p : List F) (α : F) (h : p.length ≤ ck.powersOfG.length) :
    Time.open ck p α = .ok (evalPoly p α, dot ck.powersOfG (divLin p α).1) := by
  unfold Time.open
  rw [if_neg (by omega), time_openBody_eq]

/-- a polynomial with more coefficients than the key has powers: `CommitterKey::open` aborts (fix D24) -/
theorem time_open_abort (ck : CK F) (p : List F) (α : F) (h : ck.powersOfG.length < p.length) :
    Time.open ck p α = .error .abort := by
  unfold Time.open
  rw [if_pos h]

theorem time_commit_eq (ck : CK F) (p : List F) (h : p.length ≤ ck.powersOfG.length) :
    Time.commit ck p = .ok (dot ck.powersOfG p) := by
  unfold Time.commit
  rw [if_neg (by omega)]

/-- … and so does `CommitterKey::commit` (fix D24) -/
theorem time_commit_abort (ck : CK F) (p : List F) (h : ck.powersOfG.length < p.length) :
    Time.commit ck p = .error .abort := by
  unfold Time.commit
  rw [if_pos h]

theorem time_commit_ok (ck : CK F) (p : List F) (c : F) (h : Time.commit ck p = .ok c) :
    p.length ≤ ck.powersOfG.length ∧ c = dot ck.powersOfG p := by
  unfold Time.commit at h
  split at h
  · cases h
  · injection h with h
    exact ⟨by omega, h.symm⟩

theorem time_open_ok (ck : CK F) (p : List F) (α : F) (o : F × F) (h : Time.open ck p α = .ok o) :
    p.length ≤ ck.powersOfG.length ∧ o = (evalPoly p α, dot ck.powersOfG (divLin p α).1) := by
  unfold Time.open at h
  split at h
  · cases h
  · injection h with h
    exact ⟨by omega, by rw [← h, time_openBody_eq]⟩

theorem time_batchCommit_eq (ck : CK F) (ps : List (List F))
    (h : ∀ p ∈ ps, p.length ≤ ck.powersOfG.length) :
    Time.batchCommit ck ps = .ok (ps.map (dot ck.powersOfG)) := by
  induction ps with
  | nil => rfl
  | cons p ps ih =>
    simp only [Time.batchCommit, time_commit_eq ck p (h p (by simp)),
      ih (fun q hq => h q (by simp [hq])), List.map_cons]

/-- `batch_commit` aborts as soon as one polynomial is oversize (fix D24) -/
theorem time_batchCommit_abort (ck : CK F) (ps : List (List F))
    (h : ∃ p ∈ ps, ck.powersOfG.length < p.length) :
    Time.batchCommit ck ps = .error .abort := by
  induction ps with
  | nil => simp at h
  | cons p ps ih =>
    by_cases hp : ck.powersOfG.length < p.length
    · simp only [Time.batchCommit, time_commit_abort ck p hp]
    · have hrest : ∃ q ∈ ps, ck.powersOfG.length < q.length := by
        obtain ⟨q, hq, hlt⟩ := h
        rcases List.mem_cons.1 hq with rfl | hq
        · exact absurd hlt hp
        · exact ⟨q, hq, hlt⟩
      simp only [Time.batchCommit, time_commit_eq ck p (by omega), ih hrest]

theorem time_batchCommit_length (ck : CK F) (ps : List (List F)) (cs : List F)
    (h : Time.batchCommit ck ps = .ok cs) : cs.length = ps.length := by
  induction ps generalizing cs with
  | nil => simp only [Time.batchCommit] at h; injection h with h; subst h; rfl
  | cons p ps ih =>
    simp only [Time.batchCommit] at h
    split at h
    · cases h
    · split at h
      · cases h
      · rename_i cs' hcs'
        injection h with h
        subst h
        simp [ih cs' hcs']

theorem space_openLoop_append (α : F) (xs xs' ys ys' : List F) (prev quot : F)
    (h : xs.length = ys.length) :
    Space.openLoop α (xs ++ xs') (ys ++ ys') prev quot
      = Space.openLoop α xs' ys' (Space.openLoop α xs ys prev quot).1
          (Space.openLoop α xs ys prev quot).2 := by
  induction xs generalizing ys prev quot with
  | nil => cases ys with
    | nil => simp [Space.openLoop]
    | cons _ _ => simp at h
  | cons x xs ih => cases ys with
    | nil => simp at h
    | cons y ys =>
      simp only [List.cons_append, Space.openLoop]
      exact ih ys _ _ (by simpa using h)

/-- the streaming recurrence on the reversed stream with reversed bases is the same synthetic
division -/
theorem space_openLoop_divLin (α : F) (p bs : List F) (h : bs.length = p.length) :
    Space.openLoop α p.reverse bs.reverse 0 0 = (evalPoly p α, dot bs (divLin p α).1) := by
  induction p generalizing bs with
  | nil => cases bs with
    | nil => simp [Space.openLoop, divLin]
    | cons _ _ => simp at h
  | cons c cs ih =>
    cases bs with
    | nil => simp at h
    | cons b bs =>
      simp only [List.reverse_cons]
      rw [space_openLoop_append α _ _ _ _ 0 0 (by simpa using h.symm), ih bs (by simpa using h)]
      simp only [Space.openLoop, divLin, dot_cons, evalPoly_cons, divLin_rem]
      refine Prod.ext ?_ ?_ <;> simp <;> ring

/-- **`CommitterKeyStream::open` = `CommitterKey::open`** for every coefficient list, every point
and every key at least as long as the polynomial (`Reverse` of the key and of the coefficients). -/
theorem space_open_eq_time_open (ck : CK F) (p : List F) (α : F)
    (h : p.length ≤ ck.powersOfG.length) :
    Space.open (CKS.ofTime ck) p.reverse α = Time.open ck p α := by
  unfold Space.open CKS.ofTime
  simp only [List.length_reverse]
  rw [if_neg (by omega), reverse_drop_sub _ _ h,
    space_openLoop_divLin α p _ (by simp [List.length_take]; omega), time_open_eq _ _ _ h,
    dot_take _ _ _ (by rw [divLin_len])]

/-- without enough key elements the streaming prover aborts (usize underflow) -/
theorem space_open_abort (ck : CK F) (p : List F) (α : F) (h : ck.powersOfG.length < p.length) :
    Space.open (CKS.ofTime ck) p.reverse α = .error .abort := by
  unfold Space.open CKS.ofTime
  simp only [List.length_reverse]
  rw [if_pos h]

/-- **`CommitterKeyStream::commit` = `CommitterKey::commit`**. -/
theorem space_commit_eq_time_commit (ck : CK F) (p : List F)
    (h : p.length ≤ ck.powersOfG.length) :
    Space.commit (CKS.ofTime ck) p.reverse = Time.commit ck p := by
  unfold Space.commit CKS.ofTime Time.commit
  simp only [List.length_reverse]
  rw [if_neg (by omega), if_neg (by omega), reverse_drop_sub _ _ h,
    dot_reverse _ _ (by simp [List.length_take]; omega), dot_take _ _ _ (Nat.le_refl _)]

/-- since fix D24 the two committers and the two single-point provers agree on EVERY input: with a
key shorter than the polynomial both abort -/
theorem space_commit_eq_time_commit_all (ck : CK F) (p : List F) :
    Space.commit (CKS.ofTime ck) p.reverse = Time.commit ck p := by
  by_cases h : p.length ≤ ck.powersOfG.length
  · exact space_commit_eq_time_commit ck p h
  · rw [time_commit_abort ck p (by omega)]
    unfold Space.commit CKS.ofTime
    simp only [List.length_reverse]
    rw [if_pos (by omega)]

theorem space_open_eq_time_open_all (ck : CK F) (p : List F) (α : F) :
    Space.open (CKS.ofTime ck) p.reverse α = Time.open ck p α := by
  by_cases h : p.length ≤ ck.powersOfG.length
  · exact space_open_eq_time_open ck p α h
  · rw [time_open_abort ck p α (by omega), space_open_abort ck p α (by omega)]

/-! ### well-formed keys -/

theorem powers_take (g τ : F) (n k : Nat) : (PCV.powers g τ n).take k = PCV.powers g τ (min k n) := by
  induction n generalizing g k with
  | zero => simp [PCV.powers]
  | succ n ih =>
    cases k with
    | zero => simp [PCV.powers]
    | succ k =>
      simp only [PCV.powers, List.take_succ_cons, ih]
      have : min (k + 1) (n + 1) = min k n + 1 := by omega
      rw [this]; rfl

/-- the verifier key of a key made by `CommitterKey::new` -/
theorem vk_ofTime_new (g g2 τ : F) (D m : Nat) :
    VK.ofTime (CK.new g g2 τ D m)
      = .ok ⟨PCV.powers g τ (min (min (D + 1) (m + 1) - 1) (D + 1)),
             PCV.powers g2 τ (min (D + 1) (m + 1))⟩ := by
  unfold VK.ofTime CK.new
  simp only [powers_length, powers_take]
  rw [if_neg (by omega), if_neg (by omega)]

/-- commitments under a key made by `new` are `g·p(τ)` -/
theorem time_commit_new (g g2 τ : F) (D m : Nat) (p : List F) (h : p.length ≤ D + 1) :
    Time.commit (CK.new g g2 τ D m) p = .ok (g * evalPoly p τ) := by
  unfold Time.commit CK.new
  simp only [powers_length]
  rw [if_neg (by omega), dot_comm, dot_powers _ _ _ _ h]

theorem time_open_new (g g2 τ : F) (D m : Nat) (p : List F) (α : F) (h : p.length ≤ D + 1) :
    Time.open (CK.new g g2 τ D m) p α = .ok (evalPoly p α, g * evalPoly (divLin p α).1 τ) := by
  rw [time_open_eq _ _ _ (by unfold CK.new; simp only [powers_length]; exact h)]
  unfold CK.new
  simp only
  rw [dot_comm, dot_powers _ _ _ _ (by rw [divLin_len]; exact h)]

/-- `verify` under a well-formed verifier key with at least one G1 and two G2 elements decides
`(C - v·g)·g2 = π·(τ - α)·g2`. -/
theorem verify_wf [DecidableEq F] (g g2 τ : F) (k k2 : Nat) (c α v π : F) :
    verify ⟨PCV.powers g τ (k + 1), PCV.powers g2 τ (k2 + 2)⟩ c α v π
      = .ok (decide ((c - g * v) * g2 = π * ((τ - α) * g2))) := by
  unfold verify
  simp only [PCV.powers, dot_cons, dot_nil_right]
  rw [if_neg (by simp)]
  congr 2
  apply propext
  constructor <;> intro h <;> linear_combination h

/-- **defect of `verify` on an honest opening with the value shifted by `δ`**: accepted iff
`g·g2·δ = 0`. -/
theorem verify_honest_iff [DecidableEq F] (g g2 τ : F) (k k2 : Nat) (p : List F) (α δ : F) :
    verify ⟨PCV.powers g τ (k + 1), PCV.powers g2 τ (k2 + 2)⟩ (g * evalPoly p τ) α
        (evalPoly p α + δ) (g * evalPoly (divLin p α).1 τ) = .ok true
      ↔ g * g2 * δ = 0 := by
  rw [verify_wf]
  have hq := divLin_quot p α τ
  simp only [Except.ok.injEq, decide_eq_true_eq]
  constructor
  · intro h; linear_combination (-1 : F) * h + (g * g2) * hq
  · intro h; linear_combination (-1 : F) * h + (g * g2) * hq

theorem verify_wf' [DecidableEq F] (g g2 τ : F) (a b : Nat) (ha : 1 ≤ a) (hb : 2 ≤ b) (c α v π : F) :
    verify ⟨PCV.powers g τ a, PCV.powers g2 τ b⟩ c α v π
      = .ok (decide ((c - g * v) * g2 = π * ((τ - α) * g2))) := by
  obtain ⟨k, rfl⟩ := Nat.exists_eq_add_of_le' ha
  obtain ⟨k2, rfl⟩ := Nat.exists_eq_add_of_le' hb
  exact verify_wf g g2 τ k k2 c α v π

/-- the verifier key derived from the stream key of a key made by `new` -/
theorem vk_ofSpace_new (g g2 τ : F) (D m : Nat) :
    VK.ofSpace (CKS.ofTime (CK.new g g2 τ D m))
      = .ok ⟨PCV.powers g τ (min (max (min (D + 1) (m + 1) - 1) 1) (D + 1)),
             PCV.powers g2 τ (min (D + 1) (m + 1))⟩ := by
  unfold VK.ofSpace CKS.ofTime CK.new
  simp only [powers_length, List.length_reverse]
  rw [if_neg (by omega)]
  have h := reverse_drop_sub (PCV.powers g τ (D + 1)) (min (max (min (D + 1) (m + 1) - 1) 1) (D + 1))
    (by rw [powers_length]; omega)
  rw [powers_length] at h
  rw [h, List.reverse_reverse, powers_take]
  congr 3
  omega

/-- `verify` on an honest opening with the value shifted by `δ`, under any verifier key
`(g·τⁱ)_{i<a}, (g2·τⁱ)_{i<b}` with `a ≥ 1`, `b ≥ 2`. -/
theorem verify_honest_iff' [DecidableEq F] (g g2 τ : F) (a b : Nat) (ha : 1 ≤ a) (hb : 2 ≤ b)
    (p : List F) (α δ : F) :
    verify ⟨PCV.powers g τ a, PCV.powers g2 τ b⟩ (g * evalPoly p τ) α
        (evalPoly p α + δ) (g * evalPoly (divLin p α).1 τ) = .ok true
      ↔ g * g2 * δ = 0 := by
  obtain ⟨k, rfl⟩ := Nat.exists_eq_add_of_le' ha
  obtain ⟨k2, rfl⟩ := Nat.exists_eq_add_of_le' hb
  exact verify_honest_iff g g2 τ k k2 p α δ

theorem verify_iff [DecidableEq F] (g g2 τ : F) (D m : Nat) (hD : 1 ≤ D) (hm : 1 ≤ m) (p : List F)
    (α δ : F) (hp : p.length ≤ D + 1) (vk : VK F) (hvk : VK.ofTime (CK.new g g2 τ D m) = .ok vk)
    (c : F) (o : F × F) (hc : Time.commit (CK.new g g2 τ D m) p = .ok c)
    (ho : Time.open (CK.new g g2 τ D m) p α = .ok o) :
    verify vk c α (o.1 + δ) o.2 = .ok true ↔ g * g2 * δ = 0 := by
  rw [vk_ofTime_new] at hvk
  injection hvk with hvk
  subst hvk
  rw [time_commit_new _ _ _ _ _ _ hp] at hc
  rw [time_open_new _ _ _ _ _ _ _ hp] at ho
  injection hc with hc
  injection ho with ho
  subst hc ho
  exact verify_honest_iff' g g2 τ _ _ (by omega) (by omega) p α δ

theorem verify_stream_key_iff [DecidableEq F] (g g2 τ : F) (D m : Nat) (hD : 1 ≤ D) (hm : 1 ≤ m)
    (p : List F) (α δ : F) (hp : p.length ≤ D + 1) (vk : VK F)
    (hvk : VK.ofSpace (CKS.ofTime (CK.new g g2 τ D m)) = .ok vk)
    (c : F) (o : F × F) (hc : Time.commit (CK.new g g2 τ D m) p = .ok c)
    (ho : Time.open (CK.new g g2 τ D m) p α = .ok o) :
    verify vk c α (o.1 + δ) o.2 = .ok true ↔ g * g2 * δ = 0 := by
  rw [vk_ofSpace_new] at hvk
  injection hvk with hvk
  subst hvk
  rw [time_commit_new _ _ _ _ _ _ hp] at hc
  rw [time_open_new _ _ _ _ _ _ _ hp] at ho
  injection hc with hc
  injection ho with ho
  subst hc ho
  exact verify_honest_iff' g g2 τ _ _ (by omega) (by omega) p α δ

theorem verify_open_complete [DecidableEq F] (g g2 τ : F) (D m : Nat) (hD : 1 ≤ D) (hm : 1 ≤ m)
    (p : List F) (α : F) (hp : p.length ≤ D + 1) (vk : VK F)
    (hvk : VK.ofTime (CK.new g g2 τ D m) = .ok vk)
    (c : F) (o : F × F) (hc : Time.commit (CK.new g g2 τ D m) p = .ok c)
    (ho : Time.open (CK.new g g2 τ D m) p α = .ok o) :
    verify vk c α o.1 o.2 = .ok true := by
  have h := (verify_iff g g2 τ D m hD hm p α 0 hp vk hvk c o hc ho).2 (by ring)
  simpa using h

/-- `verify` never aborts on such a key: it answers `true` or `false` -/
theorem wrong_value_rejected [DecidableEq F] (g g2 τ : F) (D m : Nat) (hD : 1 ≤ D) (hm : 1 ≤ m)
    (p : List F) (α δ : F) (hp : p.length ≤ D + 1) (vk : VK F)
    (hvk : VK.ofTime (CK.new g g2 τ D m) = .ok vk) (hg : g ≠ 0) (hg2 : g2 ≠ 0) (hδ : δ ≠ 0)
    (c : F) (o : F × F) (hc : Time.commit (CK.new g g2 τ D m) p = .ok c)
    (ho : Time.open (CK.new g g2 τ D m) p α = .ok o) :
    verify vk c α (o.1 + δ) o.2 = .ok false := by
  have hiff := verify_iff g g2 τ D m hD hm p α δ hp vk hvk c o hc ho
  have hne : ¬ (g * g2 * δ = 0) := mul_ne_zero (mul_ne_zero hg hg2) hδ
  rw [vk_ofTime_new] at hvk
  injection hvk with hvk
  subst hvk
  rw [verify_wf' g g2 τ _ _ (by omega) (by omega)] at hiff ⊢
  simp only [Except.ok.injEq, decide_eq_true_eq] at hiff
  simp only [Except.ok.injEq, decide_eq_false_iff_not]
  exact fun h => hne (hiff.1 h)

end SKZG
end PCV
