/-
  PCV.Proofs.SonicComplete — honest SonicKZG10 transcripts: what `commit` returns for a list of
  polynomials, the prover's and the verifier's loops in lock-step, completeness, and the exact
  acceptance condition of a changed statement against an honest proof.
-/
import PCV.Proofs.SonicCheck

set_option linter.unusedSectionVars false
set_option linter.unusedVariables false
set_option linter.unusedSimpArgs false

namespace PCV
namespace Sonic
open Marlin (Label LPoly Query sortDedup checkDegreesAndBounds)

variable {F : Type} [Field F] [DecidableEq F]

/-- one honest (commitment, polynomial, blinding polynomial) triple under the keys `(ck, vk)`:
paired with its G2 partner the commitment is `h·(g·p(β) + γ·r(β))` — the shift is cancelled -/
def Good (ck : CK F) (vk : VK F) (g γ β h : F) (s shb : Nat) (c : LComm F) (p : LPoly F)
    (r : List F) : Prop :=
  c.bound = p.bound ∧
  (∃ σ, vk.shiftOf c.bound = some σ ∧ c.comm * σ = h * (g * evalPoly p.poly β + γ * evalPoly r β)) ∧
  (pnorm p.poly).length ≤ s + 1 ∧ (pnorm r).length ≤ shb + 2 ∧
  checkDegreesAndBounds ck.maxDegree ck.bounds p.poly p.bound = .ok ()

/-- aligned lists of honest triples -/
def Honest (ck : CK F) (vk : VK F) (g γ β h : F) (s shb : Nat) :
    List (LComm F) → List (LPoly F) → List (List F) → Prop
  | [], [], [] => True
  | c :: cs, p :: ps, r :: rs => Good ck vk g γ β h s shb c p r ∧ Honest ck vk g γ β h s shb cs ps rs
  | _, _, _ => False

/-- whatever `commit` returns under a trapdoor-made key is an honest list -/
theorem commit_honest (g γ β bi h : F) (hb : β * bi = 1) (D s shb : Nat)
    (bounds : Option (List Nat)) (ck : CK F) (vk : VK F)
    (ht : trim (wfPP g γ β bi h D) s shb bounds = .ok (ck, vk))
    (ps : List (LPoly F)) (rng : Bool) (draws : List F) (cs : List (LComm F)) (rs : List (List F))
    (rest : List F) (hc : commit ck ps rng draws = .ok (cs, rs, rest)) :
    Honest ck vk g γ β h s shb cs ps rs := by
  induction ps generalizing draws cs rs rest with
  | nil =>
    simp only [commit] at hc
    injection hc with hc; injection hc with h1 h2; injection h2 with h2 h3
    subst h1; subst h2
    trivial
  | cons p ps ih =>
    simp only [commit] at hc
    split at hc
    · cases hc
    · rename_i c r draws' hone
      split at hc
      · cases hc
      · rename_i cs' rs' d' hrest
        injection hc with hc; injection hc with h1 h2; injection h2 with h2 h3
        subst h1; subst h2
        refine ⟨?_, ih draws' cs' rs' d' hrest⟩
        obtain ⟨hcv, hpl, hrl, _, hdb⟩ :=
          commitOne_spec g γ β bi h D s shb bounds ck vk ht p rng draws c r draws' hone
        obtain ⟨_, hn, hm, hσ, _⟩ := powersFor_wf g γ β bi h D s shb bounds ck vk ht p.poly p.bound hdb
        refine ⟨rfl, ⟨_, hσ, ?_⟩, by omega, by omega, hdb⟩
        simp only
        rw [hcv]
        linear_combination (h * (g * evalPoly p.poly β + γ * evalPoly r β)) * fpow_mul_inv β bi hb (kOf D p.bound)

/-- **Prover and verifier loops in lock-step.**  On an honest list, if the prover's loop returns the
combined polynomials `(P, R)` and the unused challenges `rest`, then the verifier's loop over the
commitments and the true values consumes the same challenges, meets only supported bounds, and
accumulates `h·(g·P(β) + γ·R(β))` and `P(z)` (relative to the loop's starting accumulators). -/
theorem honest_loops (ck : CK F) (vk : VK F) (g γ β h : F) (s shb : Nat) (z : F)
    (cs : List (LComm F)) (ps : List (LPoly F)) (rs : List (List F))
    (hh : Honest ck vk g γ β h s shb cs ps rs) (ξs : List F) (acc : List F × List F)
    (P R rest : List F) (ho : openLoop ck ps rs ξs acc = .ok ((P, R), rest)) :
    restOf cs (ps.map fun p => evalPoly p.poly z) ξs = some rest ∧
    boundsOk vk.shiftOf cs (ps.map fun p => evalPoly p.poly z) ξs = true ∧
    linC vk.shiftD cs (ps.map fun p => evalPoly p.poly z) ξs
      = h * (g * (evalPoly P β - evalPoly acc.1 β) + γ * (evalPoly R β - evalPoly acc.2 β)) ∧
    linV cs (ps.map fun p => evalPoly p.poly z) ξs = evalPoly P z - evalPoly acc.1 z ∧
    ((pnorm acc.1).length ≤ s + 1 → (pnorm P).length ≤ s + 1) ∧
    ((pnorm acc.2).length ≤ shb + 2 → (pnorm R).length ≤ shb + 2) := by
  induction ps generalizing cs rs ξs acc with
  | nil =>
    cases cs with
    | cons _ _ => cases rs <;> exact absurd hh (by simp [Honest])
    | nil =>
      cases rs with
      | cons _ _ => exact absurd hh (by simp [Honest])
      | nil =>
        cases ξs with
        | nil => simp [openLoop] at ho
        | cons ξ ξs =>
          simp only [openLoop] at ho
          injection ho with ho; injection ho with h1 h2
          subst h1; subst h2
          simp [restOf, boundsOk, linC, linV]
  | cons p ps ih =>
    cases cs with
    | nil => cases rs <;> exact absurd hh (by simp [Honest])
    | cons c cs =>
      cases rs with
      | nil => exact absurd hh (by simp [Honest])
      | cons r rs =>
        obtain ⟨⟨hbd, ⟨σ, hσ, hcσ⟩, hpl, hrl, hdb⟩, hrest⟩ := hh
        cases ξs with
        | nil => simp [openLoop] at ho
        | cons ξ ξs =>
          simp only [openLoop, hdb] at ho
          obtain ⟨h1, h2, h3, h4, h5, h6⟩ := ih cs rs hrest ξs _ ho
          simp only [eval_padd, eval_pscale] at h3 h4
          have hsD : vk.shiftD c.bound = σ := by simp [VK.shiftD, hσ]
          refine ⟨?_, ?_, ?_, ?_, ?_, ?_⟩
          · simpa [restOf] using h1
          · simp only [List.map_cons, boundsOk, hσ, Option.isSome_some, Bool.true_and]; exact h2
          · simp only [List.map_cons, linC, hsD]
            rw [h3]
            linear_combination ξ * hcσ
          · simp only [List.map_cons, linV]
            rw [h4]; ring
          · intro ha
            exact h5 (pnorm_padd_le _ _ _ ha (pnorm_pscale_le _ _ _ hpl))
          · intro ha
            exact h6 (pnorm_padd_le _ _ _ ha (pnorm_pscale_le _ _ _ hrl))

/-- the prover's loop does not refuse an honest list (given enough challenges) -/
theorem openLoop_ok (ck : CK F) (vk : VK F) (g γ β h : F) (s shb : Nat)
    (cs : List (LComm F)) (ps : List (LPoly F)) (rs : List (List F))
    (hh : Honest ck vk g γ β h s shb cs ps rs) (ξs : List F) (hξ : ps.length < ξs.length)
    (acc : List F × List F) : ∃ res, openLoop ck ps rs ξs acc = .ok res := by
  induction ps generalizing cs rs ξs acc with
  | nil =>
    cases ξs with
    | nil => simp at hξ
    | cons ξ ξs => cases rs <;> exact ⟨(acc, ξs), by simp [openLoop]⟩
  | cons p ps ih =>
    cases cs with
    | nil => cases rs <;> exact absurd hh (by simp [Honest])
    | cons c cs =>
      cases rs with
      | nil => exact absurd hh (by simp [Honest])
      | cons r rs =>
        obtain ⟨⟨_, _, _, _, hdb⟩, hrest⟩ := hh
        cases ξs with
        | nil => simp at hξ
        | cons ξ ξs =>
          simp only [openLoop, hdb]
          exact ih cs rs hrest ξs (by simpa using hξ) _

section WF
variable (g γ β bi h : F) (hb : β * bi = 1) (D s shb : Nat) (bounds : Option (List Nat))
  (ck : CK F) (vk : VK F) (ht : trim (wfPP g γ β bi h D) s shb bounds = .ok (ck, vk))
include hb ht

/-- the pieces of an honest opening: combined polynomials, the KZG witness, the verifier's sums -/
theorem open_inv (cs : List (LComm F)) (ps : List (LPoly F)) (rs : List (List F))
    (hh : Honest ck vk g γ β h s shb cs ps rs) (z : F) (ξs : List F) (π : KZG.Proof F)
    (rest : List F) (ho : Sonic.open ck ps z rs ξs = .ok (π, rest)) :
    ∃ P R,
      π.w = g * evalPoly (divLin P z).1 β + γ * evalPoly (divLin R z).1 β ∧
      KZG.rvVal π.rv = evalPoly R z ∧
      restOf cs (ps.map fun p => evalPoly p.poly z) ξs = some rest ∧
      boundsOk vk.shiftOf cs (ps.map fun p => evalPoly p.poly z) ξs = true ∧
      linC vk.shiftD cs (ps.map fun p => evalPoly p.poly z) ξs = h * (g * evalPoly P β + γ * evalPoly R β) ∧
      linV cs (ps.map fun p => evalPoly p.poly z) ξs = evalPoly P z := by
  obtain ⟨_, _, hp, hgp, _, _, _, _, _, _, _, _⟩ := trim_wf_basic g γ β bi h D s shb bounds ck vk ht
  unfold Sonic.open at ho
  split at ho
  · cases ho
  · rename_i P R rest' hloop
    split at ho
    · cases ho
    · rename_i π' hk
      injection ho with ho; injection ho with h1 h2
      subst h1; subst h2
      obtain ⟨h1, h2, h3, h4, _, h6⟩ := honest_loops ck vk g γ β h s shb z cs ps rs hh ξs ([], []) P R _ hloop
      have hr : (pnorm R).length ≤ shb + 2 := h6 (by simp [pnorm])
      rw [hp, hgp] at hk
      obtain ⟨hw, hrv⟩ := KZG.open_spec g γ β (s + 1) (shb + 2) P R z _ hr hk
      refine ⟨P, R, hw, hrv, h1, h2, ?_, ?_⟩
      · rw [h3]; simp
      · rw [h4]; simp

/-- **Completeness of `open` → `check`** for an honest list of commitments (any number of
polynomials, any mix of degree bounds and hiding bounds, any point, any challenges): the verifier
accepts the true values and leaves the same unused challenges as the prover. -/
theorem open_check_complete (cs : List (LComm F)) (ps : List (LPoly F)) (rs : List (List F))
    (hh : Honest ck vk g γ β h s shb cs ps rs) (z : F) (ξs : List F) (π : KZG.Proof F)
    (rest : List F) (ho : Sonic.open ck ps z rs ξs = .ok (π, rest)) :
    check vk cs z (ps.map fun p => evalPoly p.poly z) π ξs = .ok (true, rest) := by
  obtain ⟨_, _, _, _, _, _, hg, hgg, hvh, hbh, _, _⟩ := trim_wf_basic g γ β bi h D s shb bounds ck vk ht
  obtain ⟨P, R, hw, hrv, h1, h2, h3, h4⟩ := open_inv g γ β bi h hb D s shb bounds ck vk ht cs ps rs hh z ξs π rest ho
  rw [check_true_iff]
  refine ⟨h1, h2, ?_⟩
  unfold defect
  rw [h3, h4, hrv, hw, hg, hgg, hvh, hbh]
  linear_combination (h * g) * divLin_quot P z β + (h * γ) * divLin_quot R z β

/-- **Acceptance of a changed statement against an honest proof** (C02 core): commitments changed
by `dcs`, point by `dz`, values by `dvs`. -/
theorem honest_check_iff (cs : List (LComm F)) (ps : List (LPoly F)) (rs : List (List F))
    (hh : Honest ck vk g γ β h s shb cs ps rs) (z : F) (ξs : List F) (π : KZG.Proof F)
    (rest : List F) (ho : Sonic.open ck ps z rs ξs = .ok (π, rest))
    (dcs dvs : List F) (dz : F) (hc : dcs.length = cs.length) (hv : dvs.length = ps.length) :
    check vk (addComms cs dcs) (z + dz) (addVals (ps.map fun p => evalPoly p.poly z) dvs) π ξs
        = .ok (true, rest) ↔
      linC vk.shiftD (withComms cs dcs) (ps.map fun p => evalPoly p.poly z) ξs
        - g * linV cs dvs ξs * h + π.w * dz * h = 0 := by
  obtain ⟨_, _, _, _, _, _, hg, hgg, hvh, hbh, _, _⟩ := trim_wf_basic g γ β bi h D s shb bounds ck vk ht
  have hcomp := open_check_complete g γ β bi h hb D s shb bounds ck vk ht cs ps rs hh z ξs π rest ho
  rw [check_true_iff] at hcomp
  obtain ⟨h1, h2, h3⟩ := hcomp
  have hv' : dvs.length = (ps.map fun p => evalPoly p.poly z).length := by simpa using hv
  rw [check_true_iff, defect_perturb vk cs z _ π ξs dcs dvs dz hc hv', h3, zero_add, hg, hvh]
  obtain ⟨_, e2, e3⟩ := shape_addComms vk.shiftOf cs dcs (addVals (ps.map fun p => evalPoly p.poly z) dvs) ξs hc
  obtain ⟨_, e5, e6⟩ := shape_addVals vk.shiftOf vk.shiftD cs (ps.map fun p => evalPoly p.poly z) dvs ξs hv'
  rw [e2, e3, e5, e6, h1, h2]
  simp

/-- the prover answers every honest list within the key (no refusal, no abort) -/
theorem open_ok_of_honest (cs : List (LComm F)) (ps : List (LPoly F)) (rs : List (List F))
    (hh : Honest ck vk g γ β h s shb cs ps rs) (z : F) (ξs : List F) (hξ : ps.length < ξs.length) :
    ∃ π rest, Sonic.open ck ps z rs ξs = .ok (π, rest) := by
  obtain ⟨_, _, hp, hgp, _, _, _, _, _, _, _, _⟩ := trim_wf_basic g γ β bi h D s shb bounds ck vk ht
  obtain ⟨⟨⟨P, R⟩, rest⟩, hloop⟩ := openLoop_ok ck vk g γ β h s shb cs ps rs hh ξs hξ ([], [])
  obtain ⟨_, _, _, _, h5, _⟩ := honest_loops ck vk g γ β h s shb z cs ps rs hh ξs ([], []) P R rest hloop
  have hpl : (pnorm P).length ≤ s + 1 := h5 (by simp [pnorm])
  have hdeg : ¬ (pdeg P + 1 > (⟨ck.powers, ck.gammaPowers⟩ : KZG.Powers F).g.length) := by
    simp only [hp, powers_length]; unfold pdeg; omega
  obtain ⟨π, hπ⟩ := KZG.open_ok ⟨ck.powers, ck.gammaPowers⟩ P R z hdeg
  exact ⟨π, rest, by unfold Sonic.open; rw [hloop]; simp only [hπ]⟩

end WF

end Sonic
end PCV
