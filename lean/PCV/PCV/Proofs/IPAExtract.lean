/-
  PCV.Proofs.IPAExtract — what an ALGEBRAIC forger against the inner-product-argument verifier gives away.

  Every group element the prover sends (`L_i`, `R_i`) and the combined commitment are given by their
  representations over the committer key `G` and the round generator `h′ = ξ₀·h` (the algebraic-group-model
  adversary: all the library's own operations — MSMs over the key — produce such elements).  Acceptance is then
  ONE linear relation `⟨rel_G, G⟩ + rel_h·h′ = 0` between the independently sampled generators whose
  coefficients the prover knows.  Either that relation is non-trivial (a discrete-log relation, what the scheme
  assumes nobody finds), or it is the zero relation — and then the claimed value can only be false if one round
  challenge `u_i` is a root of a NON-ZERO quadratic whose three coefficients were fixed before `u_i` was drawn.
-/
import PCV.Proofs.IPAVerify

set_option linter.unusedSectionVars false

namespace PCV
namespace IPA

variable {F : Type} [Field F] [DecidableEq F]

/-- a group element by its representation: `⟨x.1, G⟩ + x.2·h′` -/
def repVal (G : List F) (h' : F) (x : List F × F) : F := dot G x.1 + h' * x.2

/-- the representation of `Σ (u⁻¹·L + u·R)` -/
def lrRep : List (List F × F) → List (List F × F) → List F → List F × F
  | L :: Ls, R :: Rs, u :: us =>
    (padd (padd (pscale u⁻¹ L.1) (pscale u R.1)) (lrRep Ls Rs us).1,
     L.2 * u⁻¹ + R.2 * u + (lrRep Ls Rs us).2)
  | _, _, _ => ([], 0)

theorem repVal_lrRep (G : List F) (h' : F) (Ls Rs : List (List F × F)) (us : List F) :
    repVal G h' (lrRep Ls Rs us) = lrSum (Ls.map (repVal G h')) (Rs.map (repVal G h')) us := by
  induction Ls generalizing Rs us with
  | nil => simp [lrRep, lrSum, repVal]
  | cons L Ls ih =>
    cases Rs with
    | nil => simp [lrRep, lrSum, repVal]
    | cons R Rs =>
      cases us with
      | nil => simp [lrRep, lrSum, repVal]
      | cons u us =>
        have := ih Rs us
        simp only [lrRep, lrSum, List.map_cons]
        unfold repVal at this ⊢
        simp only [dot_padd_right, dot_pscale_right]
        linear_combination this

/-- what `verifyRounds` returns when it answers: the challenges are non-zero and the sum is `lrSum` -/
theorem verifyRounds_sound (ls rs ros us rest : List F) (lr : F)
    (h : verifyRounds ls rs ros = .ok (us, lr, rest)) :
    lr = lrSum ls rs us ∧ (∀ u ∈ us, u ≠ 0) := by
  induction ls generalizing rs ros us lr rest with
  | nil =>
    simp only [verifyRounds] at h
    injection h with h; injection h with h1 h2; injection h2 with h2 _
    subst h1; subst h2
    simp [lrSum]
  | cons l ls ih =>
    cases rs with
    | nil =>
      simp only [verifyRounds] at h
      injection h with h; injection h with h1 h2; injection h2 with h2 _
      subst h1; subst h2
      simp [lrSum]
    | cons r rs =>
      cases ros with
      | nil => simp [verifyRounds] at h
      | cons u ros' =>
        simp only [verifyRounds] at h
        by_cases hu : u = 0
        · rw [if_pos hu] at h; cases h
        · rw [if_neg hu] at h
          cases hrec : verifyRounds ls rs ros' with
          | error e => rw [hrec] at h; cases h
          | ok w =>
            obtain ⟨us', sum, rest'⟩ := w
            rw [hrec] at h
            simp only at h
            injection h with h; injection h with h1 h2; injection h2 with h2 _
            obtain ⟨e1, e2⟩ := ih rs ros' us' rest' sum hrec
            subst h1; subst h2
            constructor
            · simp only [lrSum]; rw [e1]
            · intro x hx
              rcases List.mem_cons.1 hx with rfl | hx
              · exact hu
              · exact e2 x hx

/-- the pieces of a run that went through -/
theorem succinctRun_parts (vk : VK F) (cs : List (LComm F)) (z : F) (vs : List F) (π : Proof F)
    (cur : F) (ξs ros : List F) (r : Run F) (ξr ror : List F)
    (hr : succinctRun vk cs z vs π (cur :: ξs) ros = .ok (r, ξr, ror)) :
    ∃ C ros2, accLoop vk z cs vs cur ξs 0 0 = .ok ((C, r.V), ξr) ∧
      hidingAdjust vk π C ros = .ok (r.C, r.ξ₀ :: ros2) ∧
      verifyRounds π.lVec π.rVec ros2 = .ok (r.us, r.lr, ror) := by
  unfold succinctRun at hr
  simp only at hr
  cases hacc : accLoop vk z cs vs cur ξs 0 0 with
  | error e => rw [hacc] at hr; cases hr
  | ok x =>
    obtain ⟨⟨C, V⟩, ξrest⟩ := x
    rw [hacc] at hr
    simp only at hr
    cases hadj : hidingAdjust vk π C ros with
    | error e => rw [hadj] at hr; cases hr
    | ok y =>
      obtain ⟨C', ros1⟩ := y
      rw [hadj] at hr
      simp only at hr
      cases ros1 with
      | nil => cases hr
      | cons ξ₀ ros2 =>
        simp only at hr
        cases hvr : verifyRounds π.lVec π.rVec ros2 with
        | error e => rw [hvr] at hr; cases hr
        | ok w =>
          obtain ⟨us, lr, ros3⟩ := w
          rw [hvr] at hr
          simp only at hr
          injection hr with hr; injection hr with h1 h2
          injection h2 with h2 h3
          subst h1; subst h2; subst h3
          exact ⟨C, ros2, rfl, hadj, hvr⟩

/-! ### the relation an accepted algebraic transcript satisfies -/

/-- coefficients of `G` in the verifier's equation -/
def relG (P : List F × F) (Ls Rs : List (List F × F)) (us : List F) (c : F) : List F :=
  padd (padd P.1 (lrRep Ls Rs us).1) (pscale (-c) (Succinct.computeCoeffs us))

/-- coefficient of `h′` in the verifier's equation -/
def relH (P : List F × F) (V : F) (Ls Rs : List (List F × F)) (us : List F) (c z : F) : F :=
  P.2 + V + (lrRep Ls Rs us).2 - c * Succinct.evaluate us z

/-- **Acceptance is one linear relation between the generators.** -/
theorem accept_relation (vk : VK F) (z : F) (π : Proof F) (r : Run F) (P : List F × F)
    (Ls Rs : List (List F × F))
    (hC : r.C = repVal vk.commKey (vk.h * r.ξ₀) P)
    (hlr : r.lr = repVal vk.commKey (vk.h * r.ξ₀) (lrRep Ls Rs r.us))
    (h1 : defect1 vk z π r = 0) (h2 : defect2 vk π r.us = 0) :
    repVal vk.commKey (vk.h * r.ξ₀) (relG P Ls Rs r.us π.c, relH P r.V Ls Rs r.us π.c z) = 0 := by
  unfold defect1 at h1
  unfold defect2 at h2
  rw [hC, hlr] at h1
  unfold repVal relG relH at *
  simp only [dot_padd_right, dot_pscale_right]
  linear_combination h1 - π.c * h2

/-! ### the zero relation forces the claimed value, round by round -/

/-- how far a represented element is from "its `G`-part evaluated at `z` equals its `h′`-part" -/
def slack (z : F) (x : List F × F) : F := evalPoly x.1 z - x.2

theorem slack_lrRep (z : F) (Ls Rs : List (List F × F)) (us : List F) :
    slack z (lrRep Ls Rs us) = lrSum (Ls.map (slack z)) (Rs.map (slack z)) us := by
  induction Ls generalizing Rs us with
  | nil => simp [lrRep, lrSum, slack]
  | cons L Ls ih =>
    cases Rs with
    | nil => simp [lrRep, lrSum, slack]
    | cons R Rs =>
      cases us with
      | nil => simp [lrRep, lrSum, slack]
      | cons u us =>
        have := ih Rs us
        simp only [lrRep, lrSum, List.map_cons]
        unfold slack at this ⊢
        simp only [eval_padd, eval_pscale]
        linear_combination this

theorem evalPoly_eq_zero_of_coeffs (l : List F) (x : F) (h : ∀ i, l.getD i 0 = 0) : evalPoly l x = 0 := by
  induction l with
  | nil => simp
  | cons a l ih =>
    have h0 : a = 0 := by simpa using h 0
    have := ih (fun i => by simpa using h (i + 1))
    simp [evalPoly_cons, h0, this]

/-- **The zero relation in evaluation form**: if every coefficient of the relation vanishes, the slack of
the combined commitment, minus the combined value, plus the slacks of the `L`s and `R`s weighted by the round
challenges, is zero. -/
theorem zero_relation_eval (P : List F × F) (V : F) (Ls Rs : List (List F × F)) (us : List F) (c z : F)
    (hG : ∀ i, (relG P Ls Rs us c).getD i 0 = 0) (hH : relH P V Ls Rs us c z = 0) :
    (slack z P - V) + lrSum (Ls.map (slack z)) (Rs.map (slack z)) us = 0 := by
  have h0 := evalPoly_eq_zero_of_coeffs _ z hG
  unfold relG at h0
  rw [eval_padd, eval_padd, eval_pscale, ← Succinct.evaluate_eq_horner] at h0
  unfold relH at hH
  rw [← slack_lrRep]
  unfold slack
  linear_combination h0 - hH

/-- **The round-by-round argument.** Start with a non-zero running error `A`; add `λ_i·u_i⁻¹ + ρ_i·u_i`
round after round; end at zero.  Then at the first round `i` where the running error becomes zero, the
challenge `u_i` is a root of the quadratic `ρ_i·X² + A_i·X + λ_i`, whose middle coefficient — the running
error `A_i` before that round — is non-zero.  (`A_i`, `λ_i`, `ρ_i` depend only on what was sent before `u_i`
was drawn.) -/
theorem running_error_hits_root (ls rs us : List F) (A : F) (hu : ∀ u ∈ us, u ≠ 0)
    (hA : A ≠ 0) (hend : A + lrSum ls rs us = 0) :
    ∃ i, i < us.length ∧ i < ls.length ∧ i < rs.length ∧
      A + lrSum (ls.take i) (rs.take i) (us.take i) ≠ 0 ∧
      rs.getD i 0 * us.getD i 0 ^ 2
        + (A + lrSum (ls.take i) (rs.take i) (us.take i)) * us.getD i 0 + ls.getD i 0 = 0 := by
  induction ls generalizing rs us A with
  | nil => simp [lrSum] at hend; exact absurd hend hA
  | cons l ls ih =>
    cases rs with
    | nil => simp [lrSum] at hend; exact absurd hend hA
    | cons r rs =>
      cases us with
      | nil => simp [lrSum] at hend; exact absurd hend hA
      | cons u us =>
        have hu0 : u ≠ 0 := hu u (by simp)
        simp only [lrSum] at hend
        by_cases hA' : A + (l * u⁻¹ + r * u) = 0
        · refine ⟨0, by simp, by simp, by simp, by simpa [lrSum] using hA, ?_⟩
          simp only [List.take_zero, lrSum, add_zero, List.getD_cons_zero]
          have hinv : u * u⁻¹ = 1 := mul_inv_cancel₀ hu0
          linear_combination u * hA' - l * hinv
        · obtain ⟨i, h1, h2, h3, h4, h5⟩ := ih rs us (A + (l * u⁻¹ + r * u))
            (fun x hx => hu x (by simp [hx])) hA' (by linear_combination hend)
          refine ⟨i + 1, by simpa using h1, by simpa using h2, by simpa using h3, ?_, ?_⟩
          · simp only [List.take_succ_cons, lrSum]
            intro h0; apply h4; linear_combination h0
          · simp only [List.take_succ_cons, lrSum, List.getD_cons_succ]
            linear_combination h5

/-- **IPA, algebraic forger: the trichotomy.** An accepted transcript whose elements are given by
representations over `(G, h′)`: either the prover holds a NON-TRIVIAL linear relation between the generators
(some coefficient of `rel` is non-zero, and `⟨rel_G, G⟩ + rel_h·h′ = 0`), or the combined claim is exactly
what the combined commitment's representation says (`slack z P = V`; for `P = (p, 0)`: `p(z) = V`), or some
round challenge is a root of a non-zero quadratic fixed before it was drawn. -/
theorem algebraic_trichotomy (vk : VK F) (z : F) (π : Proof F) (r : Run F) (P : List F × F)
    (Ls Rs : List (List F × F))
    (hC : r.C = repVal vk.commKey (vk.h * r.ξ₀) P)
    (hlr : r.lr = repVal vk.commKey (vk.h * r.ξ₀) (lrRep Ls Rs r.us))
    (hus : ∀ u ∈ r.us, u ≠ 0)
    (h1 : defect1 vk z π r = 0) (h2 : defect2 vk π r.us = 0) :
    ((∃ i, (relG P Ls Rs r.us π.c).getD i 0 ≠ 0) ∨ relH P r.V Ls Rs r.us π.c z ≠ 0) ∧
        repVal vk.commKey (vk.h * r.ξ₀) (relG P Ls Rs r.us π.c, relH P r.V Ls Rs r.us π.c z) = 0
      ∨ slack z P = r.V
      ∨ ∃ i, i < r.us.length ∧ i < Ls.length ∧ i < Rs.length ∧
          (slack z P - r.V) + lrSum ((Ls.map (slack z)).take i) ((Rs.map (slack z)).take i) (r.us.take i) ≠ 0 ∧
          (Rs.map (slack z)).getD i 0 * r.us.getD i 0 ^ 2
            + ((slack z P - r.V)
                + lrSum ((Ls.map (slack z)).take i) ((Rs.map (slack z)).take i) (r.us.take i)) * r.us.getD i 0
            + (Ls.map (slack z)).getD i 0 = 0 := by
  have hrel := accept_relation vk z π r P Ls Rs hC hlr h1 h2
  by_cases hG : ∀ i, (relG P Ls Rs r.us π.c).getD i 0 = 0
  · by_cases hH : relH P r.V Ls Rs r.us π.c z = 0
    · right
      have he := zero_relation_eval P r.V Ls Rs r.us π.c z hG hH
      by_cases hA : slack z P - r.V = 0
      · left; exact sub_eq_zero.1 hA
      · right
        obtain ⟨i, a1, a2, a3, a4, a5⟩ := running_error_hits_root _ _ r.us _ hus hA he
        exact ⟨i, a1, by simpa using a2, by simpa using a3, a4, a5⟩
    · left; exact ⟨Or.inr hH, hrel⟩
  · left
    refine ⟨Or.inl ?_, hrel⟩
    by_contra hcon
    exact hG (fun i => by
      by_contra hne
      exact hcon ⟨i, hne⟩)

end IPA
end PCV
