/-
  PCV.Proofs.LinCodeTranscript — lemmas about the transcript view of the linear-code PCS
  (`Model/LinCodeTranscript.lean`): prover and verifier both run `transcriptOne` (a function of what
  is absorbed), projection to the oracle-list model (`Model/LinCode.lean`), lock-step.
-/
import PCV.Proofs.LinCodeProto
import PCV.Proofs.CalcT
import PCV.Model.LinCodeTranscript

set_option linter.unusedSectionVars false
set_option linter.unusedVariables false

namespace PCV
namespace LinCode
open Merkle
variable {F : Type} [Field F] {D : Type}

/-! ### `get_indices_from_sponge` -/

/-- the events of `get_indices_from_sponge`: `t` pairs (squeeze `get_num_bytes(n)` bytes, absorb
them), and `t` positions below `n` -/
theorem getIndicesT_spec (ro : TRO F D) (n t : Nat) (s : TLog F D) (idx : List Nat) (s' : TLog F D)
    (h : getIndicesT ro n t s = .ok (idx, s')) :
    idx.length = t ∧ s'.length = s.length + 2 * t ∧ (∀ i ∈ idx, i < n) := by
  induction t generalizing s idx s' with
  | zero =>
    simp only [getIndicesT, Except.ok.injEq, Prod.mk.injEq] at h
    obtain ⟨rfl, rfl⟩ := h
    simp
  | succ t ih =>
    simp only [getIndicesT] at h
    split at h
    · cases h
    · rename_i hn
      cases hr : getIndicesT ro n t
          (Sponge.absorb (Sponge.squeezeBytes ro s (getNumBytes n)).2
            (.idxBytes (Sponge.squeezeBytes ro s (getNumBytes n)).1)) with
      | error e => rw [hr] at h; cases h
      | ok r =>
        obtain ⟨rest, s2⟩ := r
        rw [hr] at h
        simp only [Except.ok.injEq, Prod.mk.injEq] at h
        obtain ⟨rfl, rfl⟩ := h
        obtain ⟨i1, i2, i3⟩ := ih _ _ _ hr
        refine ⟨by simp [i1], ?_, ?_⟩
        · rw [i2]
          simp only [Sponge.absorb, Sponge.squeezeBytes, List.length_append, List.length_cons,
            List.length_nil]
          omega
        · intro i hi
          rcases List.mem_cons.1 hi with rfl | hi
          · exact Nat.mod_lt _ (Nat.pos_of_ne_zero hn)
          · exact i3 i hi

/-- with a non-empty codeword `get_indices_from_sponge` always answers -/
theorem getIndicesT_total (ro : TRO F D) (n t : Nat) (hn : n ≠ 0) (s : TLog F D) :
    ∃ idx s', getIndicesT ro n t s = .ok (idx, s') := by
  induction t generalizing s with
  | zero => exact ⟨[], s, rfl⟩
  | succ t ih =>
    obtain ⟨idx, s', h⟩ := ih (Sponge.absorb (Sponge.squeezeBytes ro s (getNumBytes n)).2
      (.idxBytes (Sponge.squeezeBytes ro s (getNumBytes n)).1))
    exact ⟨indexOfBytes n (Sponge.squeezeBytes ro s (getNumBytes n)).1 :: idx, s',
      by simp only [getIndicesT, if_neg hn, h]⟩

/-! ### the pieces of `openOne` -/

variable [DecidableEq F] [DecidableEq D]

/-- what `openOne` computed, piece by piece -/
theorem openOne_parts (pp : Params F D) (point : Point F) (c : Comm D) (st : State F D)
    (o : Oracle F) (π : Proof F D) (h : openOne pp point c st o = .ok π) :
    depth st.leaves ≠ 0 ∧
    ∃ ab, tensor point c.nCols c.nRows = .ok ab ∧
      wfVector pp.checkWf st.mat o.r = .ok π.wf ∧
      st.mat.rowMul ab.2 = .ok π.opening.v ∧
      π.opening.paths = o.indices.map (merklePath pp.hs st.leaves) ∧
      π.opening.columns = o.indices.map (colOf st.extMat.rows) := by
  unfold openOne at h
  split at h
  · cases h
  rename_i hd
  split at h
  · cases h
  rename_i ab hab
  split at h
  · cases h
  rename_i wf hwf
  split at h
  · cases h
  rename_i v hv
  split at h
  · cases h
  rename_i cp hcp
  cases h
  have hcp' := openColumns_ok _ _ _ _ _ hcp
  subst hcp'
  exact ⟨hd, ab, hab, hwf, hv, rfl, rfl⟩

theorem rowMul_ok (M : Mat F) (v w : List F) (h : M.rowMul v = .ok w) :
    v.length = M.n ∧ w = vecMat v M.rows M.m := by
  unfold Mat.rowMul at h
  split at h
  · rename_i hl
    cases h; exact ⟨hl, rfl⟩
  · cases h

/-- the prover's well-formedness block computes what `wfVector` computes from the squeezed `r` -/
theorem proverWf_spec (ro : TRO F D) (checkWf : Bool) (nRows : Nat) (mat : Mat F) (s : TLog F D)
    (r : List F) (wf : Option (List F)) (s' : TLog F D)
    (h : proverWf ro checkWf nRows mat s = .ok (r, wf, s')) :
    wfVector checkWf mat r = .ok wf ∧
    (checkWf = true → ∃ w, wf = some w ∧ r = (Sponge.squeezeField ro s nRows).1 ∧
      s' = Sponge.absorb (Sponge.squeezeField ro s nRows).2 (.wfVec w)) ∧
    (checkWf = false → wf = none ∧ r = [] ∧ s' = s) := by
  unfold proverWf at h
  cases hc : checkWf with
  | false =>
    rw [hc] at h
    simp only [Bool.false_eq_true, if_false, Except.ok.injEq, Prod.mk.injEq] at h
    obtain ⟨rfl, rfl, rfl⟩ := h
    simp [wfVector]
  | true =>
    rw [hc] at h
    simp only [if_true] at h
    cases hm : mat.rowMul (Sponge.squeezeField ro s nRows).1 with
    | error e => rw [hm] at h; cases h
    | ok v =>
      rw [hm] at h
      simp only [Except.ok.injEq, Prod.mk.injEq] at h
      obtain ⟨rfl, rfl, rfl⟩ := h
      refine ⟨by simp [wfVector, hm], fun _ => ⟨v, rfl, rfl, rfl⟩, by simp⟩

/-! ### `open` runs `transcriptOne` -/

/-- **`open` on a sponge = `open` on the oracle outputs it squeezes**, and its transcript is
`transcriptOne` of what it absorbs: the root, the vectors it then SENDS (`π.wf`, `π.opening.v`) and
the point. -/
theorem openOneT_spec (ro : TRO F D) (tp : TParams F D) (point : Point F) (c : Comm D)
    (st : State F D) (s : TLog F D) (π : Proof F D) (s' : TLog F D)
    (h : openOneT ro tp point c st s = .ok (π, s')) :
    ∃ t r idx, tp.tOf st.extMat.m = .ok t ∧ openOne tp.pp point c st ⟨r, idx⟩ = .ok π ∧
      transcriptOne ro c.nRows st.extMat.m t c.root π.wf point.toVec π.opening.v s
        = .ok (r, idx, s') := by
  unfold openOneT at h
  split at h
  · cases h
  cases hten : tensor point c.nCols c.nRows with
  | error e => rw [hten] at h; cases h
  | ok ab =>
    rw [hten] at h
    simp only at h
    cases hwf : proverWf ro tp.pp.checkWf c.nRows st.mat (Sponge.absorb s (.root c.root)) with
    | error e => rw [hwf] at h; cases h
    | ok rw3 =>
      obtain ⟨r, wf, s2⟩ := rw3
      rw [hwf] at h
      simp only at h
      cases ht : tp.tOf st.extMat.m with
      | error e => rw [ht] at h; cases h
      | ok t =>
        rw [ht] at h
        simp only at h
        cases hv : st.mat.rowMul ab.2 with
        | error e => rw [hv] at h; cases h
        | ok v =>
          rw [hv] at h
          simp only at h
          cases hi : getIndicesT ro st.extMat.m t
              (Sponge.absorb (Sponge.absorb s2 (.pointVec point.toVec)) (.openVec v)) with
          | error e => rw [hi] at h; cases h
          | ok is5 =>
            obtain ⟨idx, s5⟩ := is5
            rw [hi] at h
            simp only at h
            cases ho : openOne tp.pp point c st ⟨r, idx⟩ with
            | error e => rw [ho] at h; cases h
            | ok π' =>
              rw [ho] at h
              simp only [Except.ok.injEq, Prod.mk.injEq] at h
              obtain ⟨rfl, rfl⟩ := h
              refine ⟨t, r, idx, rfl, ho, ?_⟩
              obtain ⟨_, ab', hten', hwf', hv', _, _⟩ := openOne_parts _ _ _ _ _ _ ho
              rw [hten] at hten'
              cases hten'
              rw [hv] at hv'
              cases hv'
              obtain ⟨hw1, hw2, hw3⟩ := proverWf_spec ro _ _ _ _ _ _ _ hwf
              simp only at hwf'
              rw [hw1] at hwf'
              cases hwf'
              unfold transcriptOne
              cases hc : tp.pp.checkWf with
              | true =>
                obtain ⟨w, hw, rfl, rfl⟩ := hw2 hc
                simp only [hw, hi]
              | false =>
                obtain ⟨hw, rfl, rfl⟩ := hw3 hc
                simp only [hw, hi]

/-! ### `check` runs `transcriptOne` -/

section Dec

theorem readWf_usedWf (checkWf : Bool) (nCols : Nat) (wf res : Option (List F))
    (h : readWf checkWf nCols wf = .ok res) : res = usedWf checkWf wf := by
  unfold readWf at h
  unfold usedWf
  cases checkWf with
  | false => simp at h; simp [h]
  | true =>
    simp only [if_true] at h ⊢
    cases wf with
    | none => cases h
    | some w =>
      simp only at h
      split at h
      · cases h
      · cases h; rfl

/-- `verifierWf` is the well-formedness block of `transcriptOne` -/
theorem transcriptOne_eq (ro : TRO F D) (nRows nExt t : Nat) (root : D) (wf : Option (List F))
    (pointVec v : List F) (s : TLog F D) :
    transcriptOne ro nRows nExt t root wf pointVec v s =
      match getIndicesT ro nExt t
          (Sponge.absorb (Sponge.absorb (verifierWf ro wf nRows (Sponge.absorb s (.root root))).2
            (.pointVec pointVec)) (.openVec v)) with
      | .error e => .error e
      | .ok (indices, s5) =>
        .ok ((verifierWf ro wf nRows (Sponge.absorb s (.root root))).1, indices, s5) := by
  unfold transcriptOne verifierWf
  cases wf <;> rfl

/-- **`check` on a sponge = `check` on the oracle outputs it squeezes**; its transcript is
`transcriptOne` of the root, the point and the vectors `wf` (when the flag is on) and `v` it read in
the proof. -/
theorem checkOneT_ok_iff (ro : TRO F D) (tp : TParams F D) (point : Point F) (c : Comm D)
    (value : F) (π : Proof F D) (s : TLog F D) (b : Bool) (s' : TLog F D) :
    checkOneT ro tp point c value π s = .ok (b, s') ↔
      ∃ t r idx, tp.tOf c.nExtCols = .ok t ∧
        transcriptOne ro c.nRows c.nExtCols t c.root (usedWf tp.pp.checkWf π.wf) point.toVec
          π.opening.v s = .ok (r, idx, s') ∧
        checkOne tp.pp point c value π ⟨r, idx⟩ = .ok b := by
  unfold checkOneT
  cases ht : tp.tOf c.nExtCols with
  | error e => simp
  | ok t =>
    simp only [Except.ok.injEq, exists_and_left, exists_eq_left']
    by_cases hv : π.opening.v.length = c.nCols
    · rw [if_neg (by simpa using hv)]
      cases hr : readWf tp.pp.checkWf c.nCols π.wf with
      | error e =>
        simp only
        constructor
        · intro h; cases h
        · rintro ⟨r, idx, _, hk⟩
          unfold checkOne checkPre at hk
          rw [if_neg (by simpa using hv), hr] at hk
          cases hk
      | ok wf =>
        have hwf := readWf_usedWf _ _ _ _ hr
        subst hwf
        simp only
        rw [transcriptOne_eq]
        cases hi : getIndicesT ro c.nExtCols t
            (Sponge.absorb (Sponge.absorb
              (verifierWf ro (usedWf tp.pp.checkWf π.wf) c.nRows (Sponge.absorb s (.root c.root))).2
              (.pointVec point.toVec)) (.openVec π.opening.v)) with
        | error e => simp
        | ok is5 =>
          obtain ⟨idx, s5⟩ := is5
          simp only [Except.ok.injEq, Prod.mk.injEq]
          cases hk : checkOne tp.pp point c value π
              ⟨(verifierWf ro (usedWf tp.pp.checkWf π.wf) c.nRows (Sponge.absorb s (.root c.root))).1,
                idx⟩ with
          | error e =>
            simp only
            constructor
            · intro h; cases h
            · rintro ⟨r, idx', ⟨rfl, rfl, rfl⟩, hk'⟩
              rw [hk] at hk'; cases hk'
          | ok b' =>
            simp only [Except.ok.injEq, Prod.mk.injEq]
            constructor
            · rintro ⟨rfl, rfl⟩
              exact ⟨_, idx, ⟨rfl, rfl, rfl⟩, hk⟩
            · rintro ⟨r, idx', ⟨rfl, rfl, rfl⟩, hk'⟩
              rw [hk] at hk'
              cases hk'
              exact ⟨rfl, rfl⟩
    · rw [if_pos (by simpa using hv)]
      constructor
      · intro h; cases h
      · rintro ⟨r, idx, _, hk⟩
        unfold checkOne checkPre at hk
        rw [if_pos (by simpa using hv)] at hk
        cases hk

/-! ### lock-step of one opening -/

/-- the commitment `commit` returns for `coeffs` (see `commit_eq`) -/
def commitC (pp : Params F D) (coeffs : List F) (E : List F → List F) (k : Nat) : Comm D :=
  ⟨(coeffMat pp.dims coeffs).n, (coeffMat pp.dims coeffs).m, k,
    merkleRoot pp.hs (leavesOf pp (extOf pp coeffs E k))⟩

/-- the state `commit` returns for `coeffs` -/
def commitSt (pp : Params F D) (coeffs : List F) (E : List F → List F) (k : Nat) : State F D :=
  ⟨coeffMat pp.dims coeffs, extOf pp coeffs E k, leavesOf pp (extOf pp coeffs E k)⟩

/-- **What an answered honest `open` on a sponge returned**: the honest proof for the squeezed
oracle outputs `(r, idx)` of `transcriptOne` (positions inside the codeword). -/
theorem openOneT_honest (ro : TRO F D) (tp : TParams F D) (point : Point F) (coeffs : List F)
    (E : List F → List F) (k : Nat) (s : TLog F D) (π : Proof F D) (s' : TLog F D)
    (ho : openOneT ro tp point (commitC tp.pp coeffs E k) (commitSt tp.pp coeffs E k) s = .ok (π, s')) :
    ∃ t r idx ab, tp.tOf k = .ok t ∧
      tensor point (coeffMat tp.pp.dims coeffs).m (coeffMat tp.pp.dims coeffs).n = .ok ab ∧
      π = honestProof tp.pp coeffs E k ab.2 ⟨r, idx⟩ ∧ (∀ i ∈ idx, i < k) ∧
      transcriptOne ro (coeffMat tp.pp.dims coeffs).n k t
        (merkleRoot tp.pp.hs (leavesOf tp.pp (extOf tp.pp coeffs E k))) π.wf point.toVec
        π.opening.v s = .ok (r, idx, s') ∧
      usedWf tp.pp.checkWf π.wf = π.wf := by
  obtain ⟨t, r, idx, ht, hop, htr⟩ := openOneT_spec ro tp point _ _ s π s' ho
  obtain ⟨_, ab, hten, hwf, hv, hpaths, hcols⟩ := openOne_parts _ _ _ _ _ _ hop
  obtain ⟨hbl, hvv⟩ := rowMul_ok _ _ _ hv
  simp only [commitC, commitSt] at hten hwf hv hpaths hcols hbl hvv ht htr
  -- the positions are inside the codeword
  have hidx : ∀ i ∈ idx, i < k := by
    unfold transcriptOne at htr
    simp only at htr
    split at htr
    · cases htr
    · rename_i indices s5 hgi
      simp only [Except.ok.injEq, Prod.mk.injEq] at htr
      obtain ⟨_, rfl, _⟩ := htr
      exact (getIndicesT_spec ro _ _ _ _ _ hgi).2.2
  -- the proof is the honest one
  have hπ : π = honestProof tp.pp coeffs E k ab.2 ⟨r, idx⟩ := by
    obtain ⟨⟨paths, v, cols⟩, wf⟩ := π
    simp only at hwf hvv hpaths hcols
    subst hvv hpaths hcols
    simp only [honestProof]
    congr 1
    unfold wfVector at hwf
    cases hc : tp.pp.checkWf with
    | false => rw [hc] at hwf; simp at hwf; simp [hwf]
    | true =>
      rw [hc] at hwf
      simp only [if_true] at hwf ⊢
      cases hm : (coeffMat tp.pp.dims coeffs).rowMul r with
      | error e => rw [hm] at hwf; cases hwf
      | ok w =>
        rw [hm] at hwf
        cases hwf
        rw [(rowMul_ok _ _ _ hm).2]
  have hu : usedWf tp.pp.checkWf π.wf = π.wf := by
    rw [hπ]
    unfold usedWf honestProof
    cases tp.pp.checkWf <;> simp
  exact ⟨t, r, idx, ab, ht, hten, hπ, hidx, htr, hu⟩

/-- **Lock-step of one opening.**  For a polynomial in the domain (linear row encoder) and a point
with the number of coordinates the matrix width asks for (`PointFits`: automatic for a univariate
point and for a power-of-two width; needed since fix D23 — `open` does not look at the vector `a` of
`tensor`, `check` refuses when its length is not `n_cols`): if `open` answers on a sponge, `check` on
the same prior history accepts the claimed value and ends with EXACTLY the prover's sponge. -/
theorem oneT_lockstep (ro : TRO F D) (tp : TParams F D) (point : Point F) (coeffs : List F)
    (E : List F → List F) (k : Nat) (h : Encodes tp.pp coeffs E k)
    (hfit : PointFits point (coeffMat tp.pp.dims coeffs).m (coeffMat tp.pp.dims coeffs).n)
    (s : TLog F D) (π : Proof F D)
    (s' : TLog F D)
    (ho : openOneT ro tp point (commitC tp.pp coeffs E k) (commitSt tp.pp coeffs E k) s = .ok (π, s')) :
    checkOneT ro tp point (commitC tp.pp coeffs E k) (claimed tp.pp point coeffs) π s
      = .ok (true, s') := by
  obtain ⟨t, r, idx, ab, ht, hten, hπ, hidx, htr, hu⟩ := openOneT_honest ro tp point coeffs E k s π s' ho
  have hcl : claimed tp.pp point coeffs
      = dot (vecMat ab.2 (coeffMat tp.pp.dims coeffs).rows (coeffMat tp.pp.dims coeffs).m) ab.1 := by
    simp [claimed, hten]
  have hbl : ab.2.length = (coeffMat tp.pp.dims coeffs).n := by
    obtain ⟨_, _, _, _, hop, _⟩ := openOneT_spec ro tp point _ _ s π s' ho
    obtain ⟨_, ab', hten', _, hv, _, _⟩ := openOne_parts _ _ _ _ _ _ hop
    simp only [commitC, commitSt] at hten' hv
    rw [hten] at hten'
    cases hten'
    exact (rowMul_ok _ _ _ hv).1
  have hck := checkOne_honest tp.pp point coeffs E k h ab.1 ab.2 ⟨r, idx⟩ hten
    (hfit ab.1 ab.2 hten) hbl hidx
  rw [checkOneT_ok_iff]
  refine ⟨t, r, idx, ht, ?_, ?_⟩
  · rw [hu]
    exact htr
  · rw [hcl, hπ]
    exact hck

/-- **The honest proof under other well-formedness coefficients, exact condition.**  The proof
made with coefficients `r` (well-formedness vector `r·M`), checked with the same positions but
coefficients `r'`: accepted iff `r'` and `r` agree on every opened column of the encoded matrix,
`(r' − r)·M_ext[:, q] = 0` (nothing to test when the flag is off), the value is the claimed one, and
(fix D23) the vectors of `tensor` have the lengths of the matrix. -/
theorem honest_other_coefficients_iff (pp : Params F D) (point : Point F) (coeffs : List F)
    (E : List F → List F) (k : Nat) (h : Encodes pp coeffs E k) (a b r r' : List F) (idx : List Nat)
    (value : F)
    (ht : tensor point (coeffMat pp.dims coeffs).m (coeffMat pp.dims coeffs).n = .ok (a, b))
    (hi : ∀ i ∈ idx, i < k) :
    checkOne pp point (commitC pp coeffs E k) value (honestProof pp coeffs E k b ⟨r, idx⟩) ⟨r', idx⟩
        = .ok true ↔
      a.length = (coeffMat pp.dims coeffs).m ∧ b.length = (coeffMat pp.dims coeffs).n ∧
      (pp.checkWf = true → ∀ q ∈ idx, dot r' (colOf (extOf pp coeffs E k).rows q)
        = dot r (colOf (extOf pp coeffs E k).rows q)) ∧
      dot (vecMat b (coeffMat pp.dims coeffs).rows (coeffMat pp.dims coeffs).m) a = value := by
  have hrl := coeffMat_row_length pp.dims coeffs
  have hcolr : ∀ q, q < k →
      (E (vecMat r (coeffMat pp.dims coeffs).rows (coeffMat pp.dims coeffs).m))[q]?
        = some (dot r (colOf (extOf pp coeffs E k).rows q)) := by
    intro q hq
    have h1 := getElem?_of_lt_length
      (E (vecMat r (coeffMat pp.dims coeffs).rows (coeffMat pp.dims coeffs).m)) q 0
      (by rw [h.lin.len _ (vecMat_length _ _ _)]; exact hq)
    rw [h1, ← col_inner_product h.lin r _ hrl q hq]
    rfl
  rw [checkOne_ok_true_iff]
  unfold commitC
  constructor
  · rintro ⟨a'', ⟨_, _, _, w', b', _, _, ht', hla, hlb, _, hwf'⟩, hv⟩
    simp only at ht'
    rw [ht] at ht'
    cases ht'
    refine ⟨hla, hlb, ?_, hv⟩
    intro hc q hq
    obtain ⟨wf, ww, h1, h2, h3⟩ := hwf' hc
    simp only [honestProof, hc, if_true, Option.some.injEq] at h1
    subst h1
    rw [h.enc _ (vecMat_length _ _ _)] at h2
    cases h2
    obtain ⟨j, hj⟩ := List.mem_iff_getElem?.1 hq
    obtain ⟨col, y, hc1, hy, hd⟩ := h3 j q hj
    simp only [honestProof, List.getElem?_map, hj, Option.map_some, Option.some.injEq] at hc1
    subst hc1
    rw [hcolr q (hi q hq)] at hy
    cases hy
    exact hd
  · rintro ⟨hla, hlb, hr, hv⟩
    obtain ⟨p1, p2, p3, w, b2, p4, p5, p6, p6a, p6b, p7, _⟩ :=
      honest_preRelation pp point coeffs E k h a b ⟨r, idx⟩ ht hla hlb hi
    refine ⟨a, ⟨p1, p2, p3, w, b2, p4, p5, p6, p6a, p6b, p7, ?_⟩, hv⟩
    intro hc
    refine ⟨_, E (vecMat r (coeffMat pp.dims coeffs).rows (coeffMat pp.dims coeffs).m),
      by simp [honestProof, hc], h.enc _ (vecMat_length _ _ _), ?_⟩
    intro j q hqj
    have hq : q ∈ idx := List.mem_of_getElem? hqj
    exact ⟨_, _, by simp [honestProof, hqj], hcolr q (hi q hq), hr hc q hq⟩


/-! ### in-domain requests are answered -/

/-- `openOne_eq` with the length of `r` required only when well-formedness is checked -/
theorem openOne_eq' (pp : Params F D) (point : Point F) (coeffs : List F) (E : List F → List F)
    (k : Nat) (h : Encodes pp coeffs E k) (a b : List F) (o : Oracle F) (root : D)
    (ht : tensor point (coeffMat pp.dims coeffs).m (coeffMat pp.dims coeffs).n = .ok (a, b))
    (hb : b.length = (coeffMat pp.dims coeffs).n)
    (hr : pp.checkWf = true → o.r.length = (coeffMat pp.dims coeffs).n) (hi : ∀ i ∈ o.indices, i < k) :
    openOne pp point ⟨(coeffMat pp.dims coeffs).n, (coeffMat pp.dims coeffs).m, k, root⟩
      ⟨coeffMat pp.dims coeffs, extOf pp coeffs E k, leavesOf pp (extOf pp coeffs E k)⟩ o
      = .ok (honestProof pp coeffs E k b o) := by
  have hd : depth (leavesOf pp (extOf pp coeffs E k)) ≠ 0 :=
    depth_pos_of_two (by rw [leavesOf_length]; exact h.two)
  have hm : (extOf pp coeffs E k).m ≤ 2 ^ depth (leavesOf pp (extOf pp coeffs E k)) := by
    have := ceilLog2_spec (leavesOf pp (extOf pp coeffs E k)).length
    unfold depth
    rwa [leavesOf_length] at this ⊢
  unfold openOne
  simp only [if_neg hd, ht]
  have hwf : wfVector pp.checkWf (coeffMat pp.dims coeffs) o.r
      = .ok (if pp.checkWf then some (vecMat o.r (coeffMat pp.dims coeffs).rows
          (coeffMat pp.dims coeffs).m) else none) := by
    unfold wfVector Mat.rowMul
    cases hc : pp.checkWf with
    | false => simp
    | true => simp [hr hc]
  rw [hwf]
  simp only [Mat.rowMul, hb, if_true]
  rw [openColumns_eq pp.hs _ _ o.indices hm hd hi]
  rfl

/-- **In-domain requests are answered on a sponge**: for a polynomial in the domain, a point whose
`tensor` fits the matrix (`ha`, `hb`: one entry of `a` per column, of `b` per row) and parameters for which `calculate_t` answers, `open` answers and `check`
answers `Ok(true)` from the same history — neither refuses nor aborts. -/
theorem in_domain_answered (ro : TRO F D) (tp : TParams F D) (point : Point F) (coeffs : List F)
    (E : List F → List F) (k : Nat) (h : Encodes tp.pp coeffs E k) (a b : List F) (t : Nat)
    (ht : tensor point (coeffMat tp.pp.dims coeffs).m (coeffMat tp.pp.dims coeffs).n = .ok (a, b))
    (ha : a.length = (coeffMat tp.pp.dims coeffs).m)
    (hb : b.length = (coeffMat tp.pp.dims coeffs).n) (htk : tp.tOf k = .ok t) (s : TLog F D) :
    ∃ π s', openOneT ro tp point (commitC tp.pp coeffs E k) (commitSt tp.pp coeffs E k) s = .ok (π, s') ∧
      checkOneT ro tp point (commitC tp.pp coeffs E k) (claimed tp.pp point coeffs) π s
        = .ok (true, s') := by
  have hfit : PointFits point (coeffMat tp.pp.dims coeffs).m (coeffMat tp.pp.dims coeffs).n := by
    intro a' b' h'
    rw [ht] at h'
    cases h'
    exact ha
  have hd : depth (leavesOf tp.pp (extOf tp.pp coeffs E k)) ≠ 0 :=
    depth_pos_of_two (by rw [leavesOf_length]; exact h.two)
  have hk : k ≠ 0 := by have := h.two; omega
  -- the prover's well-formedness block answers
  obtain ⟨r, wf, s2, hwf, hrl⟩ : ∃ r wf s2, proverWf ro tp.pp.checkWf (coeffMat tp.pp.dims coeffs).n
      (coeffMat tp.pp.dims coeffs) (Sponge.absorb s (.root (commitC tp.pp coeffs E k).root)) = .ok (r, wf, s2) ∧
      (tp.pp.checkWf = true → r.length = (coeffMat tp.pp.dims coeffs).n) := by
    unfold proverWf
    cases hc : tp.pp.checkWf with
    | false => exact ⟨[], none, Sponge.absorb s (.root (commitC tp.pp coeffs E k).root), by simp, by simp⟩
    | true =>
      refine ⟨_, _, _, by simp only [if_true, Mat.rowMul, Sponge.squeezeField, List.length_map,
        List.length_range]; rfl, fun _ => by simp [Sponge.squeezeField]⟩
  obtain ⟨idx, s5, hgi⟩ := getIndicesT_total ro k t hk
    (Sponge.absorb (Sponge.absorb s2 (.pointVec point.toVec))
      (.openVec (vecMat b (coeffMat tp.pp.dims coeffs).rows (coeffMat tp.pp.dims coeffs).m)))
  have hidx := (getIndicesT_spec ro k t _ idx s5 hgi).2.2
  have hop := openOne_eq' tp.pp point coeffs E k h a b ⟨r, idx⟩
    (merkleRoot tp.pp.hs (leavesOf tp.pp (extOf tp.pp coeffs E k))) ht hb hrl hidx
  have ho : openOneT ro tp point (commitC tp.pp coeffs E k) (commitSt tp.pp coeffs E k) s
      = .ok (honestProof tp.pp coeffs E k b ⟨r, idx⟩, s5) := by
    unfold openOneT
    simp only [commitC, commitSt] at hwf ⊢
    have hm : (extOf tp.pp coeffs E k).m = k := rfl
    simp only [hd, ↓reduceIte, ht, hwf, hm, htk, Mat.rowMul, hb, hgi, hop]
  exact ⟨_, s5, ho, oneT_lockstep ro tp point coeffs E k h hfit s _ s5 ho⟩

/-- polynomial `i` of the lists is in the domain and the `i`-th commitment / state are `commit`'s -/
def HonestTriple (pp : Params F D) (coeffs : List F) (c : Comm D) (st : State F D) : Prop :=
  ∃ E k, Encodes pp coeffs E k ∧ c = commitC pp coeffs E k ∧ st = commitSt pp coeffs E k

/-- **Lock-step of `open` / `check`** over a list of (polynomial, commitment, state) triples, at a
point that fits the width of every matrix (`PointFits`, see `oneT_lockstep`). -/
theorem allT_lockstep (ro : TRO F D) (tp : TParams F D) (point : Point F)
    (ts : List (List F × Comm D × State F D))
    (hh : ∀ t ∈ ts, HonestTriple tp.pp t.1 t.2.1 t.2.2)
    (hfit : ∀ t ∈ ts, PointFits point (coeffMat tp.pp.dims t.1).m (coeffMat tp.pp.dims t.1).n) :
    ∀ (s : TLog F D) (πs : List (Proof F D)) (s' : TLog F D),
      openAllT ro tp point (ts.map (·.2.1)) (ts.map (·.2.2)) s = .ok (πs, s') →
      checkAllT ro tp point (ts.map (·.2.1)) (ts.map fun t => claimed tp.pp point t.1) πs s
        = .ok (true, s') := by
  induction ts with
  | nil =>
    intro s πs s' h
    simp only [List.map_nil, openAllT, Except.ok.injEq, Prod.mk.injEq] at h
    obtain ⟨rfl, rfl⟩ := h
    simp [checkAllT]
  | cons t ts ih =>
    intro s πs s' h
    obtain ⟨coeffs, c, st⟩ := t
    simp only [List.map_cons, openAllT] at h
    cases ho : openOneT ro tp point c st s with
    | error e => rw [ho] at h; cases h
    | ok r =>
      obtain ⟨π, s1⟩ := r
      rw [ho] at h
      simp only at h
      cases hr : openAllT ro tp point (ts.map (·.2.1)) (ts.map (·.2.2)) s1 with
      | error e => rw [hr] at h; cases h
      | ok r2 =>
        obtain ⟨πs', s2⟩ := r2
        rw [hr] at h
        simp only [Except.ok.injEq, Prod.mk.injEq] at h
        obtain ⟨rfl, rfl⟩ := h
        obtain ⟨E, k, hE, hc, hst⟩ := hh (coeffs, c, st) List.mem_cons_self
        simp only at hc hst
        subst hc hst
        simp only [List.map_cons, checkAllT,
          oneT_lockstep ro tp point coeffs E k hE (hfit (coeffs, _, _) List.mem_cons_self) s π s1 ho]
        exact ih (fun t' ht' => hh t' (List.mem_cons_of_mem _ ht'))
          (fun t' ht' => hfit t' (List.mem_cons_of_mem _ ht')) s1 πs' s2 hr

/-! ### what the verifier's log depends on -/

/-- **The verifier's sponge after an answered single `check` is `transcriptOne`**: a function of
the commitment (root, `n_rows`, `n_ext_cols`), the point and the vectors `wf` (flag on) and `v` of the
proof.  The opened columns, the Merkle paths and the claimed value do not enter: two answered
checks that agree on those inputs end in the same state, whatever their verdicts. -/
theorem checkOneT_log_congr (ro : TRO F D) (tp : TParams F D) (point : Point F) (c : Comm D)
    (value value' : F) (π π' : Proof F D) (s : TLog F D) (b b' : Bool) (s1 s2 : TLog F D)
    (hv : π.opening.v = π'.opening.v)
    (hw : usedWf tp.pp.checkWf π.wf = usedWf tp.pp.checkWf π'.wf)
    (h1 : checkOneT ro tp point c value π s = .ok (b, s1))
    (h2 : checkOneT ro tp point c value' π' s = .ok (b', s2)) : s1 = s2 := by
  obtain ⟨t, r, idx, ht, htr, _⟩ := (checkOneT_ok_iff ro tp point c value π s b s1).1 h1
  obtain ⟨t', r', idx', ht', htr', _⟩ := (checkOneT_ok_iff ro tp point c value' π' s b' s2).1 h2
  rw [ht] at ht'
  cases ht'
  rw [hv, hw, htr'] at htr
  simp only [Except.ok.injEq, Prod.mk.injEq] at htr
  exact htr.2.2.symm

/-- the event count of one opening: root, [squeeze `r`, `wf`], point, `v`, `t` × (squeeze, absorb) -/
theorem transcriptOne_length (ro : TRO F D) (nRows nExt t : Nat) (root : D) (wf : Option (List F))
    (pointVec v : List F) (s : TLog F D) (r : List F) (idx : List Nat) (s' : TLog F D)
    (h : transcriptOne ro nRows nExt t root wf pointVec v s = .ok (r, idx, s')) :
    s'.length = s.length + 3 + (if wf.isSome then 2 else 0) + 2 * t ∧ idx.length = t ∧
      (wf.isSome = true → r.length = nRows) := by
  rw [transcriptOne_eq] at h
  split at h
  · cases h
  · rename_i indices s5 hgi
    simp only [Except.ok.injEq, Prod.mk.injEq] at h
    obtain ⟨rfl, rfl, rfl⟩ := h
    obtain ⟨i1, i2, _⟩ := getIndicesT_spec ro _ _ _ _ _ hgi
    refine ⟨?_, i1, ?_⟩
    · rw [i2]
      cases wf <;>
        simp [verifierWf, Sponge.absorb, Sponge.squeezeField]
    · cases wf with
      | none => simp
      | some w => intro _; simp [verifierWf, Sponge.squeezeField]

end Dec

end LinCode
end PCV
