/-
  PCV.Proofs.CombCompleteSetup — `MarlinPST13::setup` enumerates, for ALL `num_vars ≥ 1` and
  `max_degree ≥ 1`, exactly the monomials of total degree `≤ max_degree`, each once: the multisets
  come from the complete `Combinations` iterator (`CombComplete`), and the map multiset ↦ `P::Term`
  is a bijection between the sorted sub-multisets of `variable_set` and the monomials.
-/
import PCV.Proofs.CombComplete
import PCV.Proofs.PST13
import Mathlib.Data.List.Perm.Basic
import Mathlib.Data.List.Count

set_option linter.unusedVariables false

namespace PCV
namespace Comb
open PCV.MV

/-! ### the variable set -/

theorem mem_variableSet (nv D x : Nat) (h : x ∈ variableSet nv D) : x < nv := by
  simp only [variableSet, List.mem_flatMap, List.mem_range] at h
  obtain ⟨v, hv, hx⟩ := h
  rw [List.eq_of_mem_replicate hx]; exact hv

theorem variableSet_sorted (nv D : Nat) : (variableSet nv D).Pairwise (· ≤ ·) := by
  unfold variableSet
  rw [List.pairwise_flatMap]
  refine ⟨fun a _ => ?_, ?_⟩
  · exact List.pairwise_replicate.2 (Or.inr (Nat.le_refl _))
  · refine List.pairwise_lt_range.imp (fun {a b} hab x hx y hy => ?_)
    rw [List.eq_of_mem_replicate hx, List.eq_of_mem_replicate hy]; omega

theorem variableSet_length (nv D : Nat) : (variableSet nv D).length = nv * D := by
  unfold variableSet
  induction nv with
  | zero => simp
  | succ n ih =>
    rw [List.range_succ, List.flatMap_append, List.length_append, ih]
    simp [Nat.succ_mul]

theorem insertNat_of_le (a : Nat) (l : List Nat) (h : ∀ x ∈ l, a ≤ x) : insertNat a l = a :: l := by
  cases l with
  | nil => rfl
  | cons b l =>
    have := h b (by simp)
    simp only [insertNat]
    rw [if_neg (by omega)]

theorem sortNat_of_sorted (l : List Nat) (h : l.Pairwise (· ≤ ·)) : sortNat l = l := by
  induction l with
  | nil => rfl
  | cons a l ih =>
    obtain ⟨h1, h2⟩ := List.pairwise_cons.1 h
    simp only [sortNat, ih h2]
    exact insertNat_of_le a l h1

/-! ### the term of a multiset, in closed form -/

/-- `(v, count of v)` for every variable, zero counts dropped -/
def expTerm (nv : Nat) (m : List Nat) : Term :=
  ((List.range nv).map (fun v => (v, m.count v))).filter (fun q => q.2 != 0)

theorem wf_filter_map (l : List Nat) (c : Nat → Nat) (hl : l.Pairwise (· < ·)) :
    Term.wf ((l.map (fun v => (v, c v))).filter (fun q => q.2 != 0)) = true := by
  rw [PST.Term.wf_iff]
  refine ⟨fun q hq => ?_, ?_⟩
  · simp only [List.mem_filter] at hq
    simpa using hq.2
  · refine List.Pairwise.sublist List.filter_sublist ?_
    rw [List.pairwise_map]
    exact hl

theorem termOfMultiset_eq (nv : Nat) (m : List Nat) : termOfMultiset nv m = expTerm nv m := by
  have hwf : Term.wf (expTerm nv m) = true := wf_filter_map _ _ List.pairwise_lt_range
  have h1 : Term.retainNonzero ((List.range nv).map (fun v => (v, m.count v))) = expTerm nv m := rfl
  have h2 : Term.retainNonzero (expTerm nv m) = expTerm nv m := Term.retainNonzero_of_wf hwf
  have h3 := Term.new_of_wf hwf
  unfold termOfMultiset
  unfold Term.new at h3 ⊢
  simp only [h1, h2] at h3 ⊢
  exact h3

theorem degree_filter (l : Term) : Term.degree (l.filter (fun q => q.2 != 0)) = Term.degree l := by
  induction l with
  | nil => rfl
  | cons q l ih =>
    rw [List.filter_cons]
    by_cases h : q.2 = 0
    · simp [h, ih, Term.degree]
    · simp [h, ih, Term.degree]

theorem degree_map (l : List Nat) (c : Nat → Nat) :
    Term.degree (l.map (fun v => (v, c v))) = (l.map c).sum := by
  induction l with
  | nil => rfl
  | cons a l ih => simp [Term.degree, ih]

theorem sum_indicator (a n : Nat) :
    ((List.range n).map (fun v => if a = v then 1 else 0)).sum = if a < n then 1 else 0 := by
  induction n with
  | zero => simp
  | succ n ih =>
    rw [List.range_succ, List.map_append, List.sum_append, ih]
    by_cases h1 : a < n
    · have : a ≠ n := by omega
      simp [h1, this]; omega
    · by_cases h2 : a = n
      · subst h2; simp
      · have : ¬ a < n + 1 := by omega
        simp [h1, h2, this]

theorem sum_count_range (nv : Nat) (m : List Nat) (h : ∀ x ∈ m, x < nv) :
    ((List.range nv).map (fun v => m.count v)).sum = m.length := by
  induction m with
  | nil => simp
  | cons a m ih =>
    have ha := h a (by simp)
    have hrec := ih (fun x hx => h x (by simp [hx]))
    have hsplit : ((List.range nv).map (fun v => (a :: m).count v)).sum
        = ((List.range nv).map (fun v => m.count v)).sum
          + ((List.range nv).map (fun v => if a = v then 1 else 0)).sum := by
      simp only [List.count_cons, beq_iff_eq]
      generalize List.range nv = l
      induction l with
      | nil => rfl
      | cons b l ihl =>
        simp only [List.map_cons, List.sum_cons, ihl]
        omega
    rw [hsplit, hrec, sum_indicator, if_pos ha]
    simp

theorem degree_expTerm (nv : Nat) (m : List Nat) (h : ∀ x ∈ m, x < nv) :
    Term.degree (expTerm nv m) = m.length := by
  unfold expTerm
  rw [degree_filter, degree_map, sum_count_range nv m h]

theorem varsBelow_expTerm (nv : Nat) (m : List Nat) : Term.varsBelow nv (expTerm nv m) = true := by
  rw [PST.varsBelow_iff]
  intro q hq
  simp only [expTerm, List.mem_filter, List.mem_map, List.mem_range] at hq
  obtain ⟨⟨v, hv, rfl⟩, _⟩ := hq
  exact hv

theorem find?_filter_map (l : List Nat) (c : Nat → Nat) (hl : l.Nodup) (v : Nat) :
    Term.find? v ((l.map (fun u => (u, c u))).filter (fun q => q.2 != 0))
      = if v ∈ l ∧ c v ≠ 0 then some (c v) else none := by
  induction l with
  | nil => simp [Term.find?]
  | cons u l ih =>
    obtain ⟨hu, hl'⟩ := List.nodup_cons.1 hl
    simp only [List.map_cons, List.filter_cons]
    by_cases hc : c u = 0
    · simp only [hc, bne_self_eq_false, Bool.false_eq_true, if_false]
      rw [ih hl']
      by_cases huv : u = v
      · subst huv; simp [hc, hu]
      · have : (v ∈ u :: l) ↔ v ∈ l := by simp [Ne.symm huv]
        simp only [this]
    · have hcb : (c u != 0) = true := by simpa using hc
      simp only [hcb, if_true, Term.find?]
      by_cases huv : u = v
      · subst huv; simp [hc]
      · simp only [huv, if_false]
        rw [ih hl']
        have : (v ∈ u :: l) ↔ v ∈ l := by simp [Ne.symm huv]
        simp only [this]

/-- the multiplicity of `v` in `m` can be read off the term -/
theorem find?_expTerm (nv : Nat) (m : List Nat) (v : Nat) (hv : v < nv) :
    Term.find? v (expTerm nv m) = if m.count v = 0 then none else some (m.count v) := by
  unfold expTerm
  rw [find?_filter_map _ _ List.nodup_range v]
  by_cases h : m.count v = 0
  · simp [h]
  · simp [h, hv]

/-- on sorted multisets over the variables, multiset ↦ term is injective -/
theorem expTerm_injective (nv : Nat) (m1 m2 : List Nat)
    (h1 : m1.Pairwise (· ≤ ·)) (h2 : m2.Pairwise (· ≤ ·))
    (b1 : ∀ x ∈ m1, x < nv) (b2 : ∀ x ∈ m2, x < nv) (h : expTerm nv m1 = expTerm nv m2) :
    m1 = m2 := by
  have hcount : ∀ v, m1.count v = m2.count v := by
    intro v
    by_cases hv : v < nv
    · have e1 := find?_expTerm nv m1 v hv
      have e2 := find?_expTerm nv m2 v hv
      rw [h, e2] at e1
      by_cases z1 : m1.count v = 0 <;> by_cases z2 : m2.count v = 0 <;> simp_all
    · have z1 : m1.count v = 0 := List.count_eq_zero.2 (fun hm => hv (b1 v hm))
      have z2 : m2.count v = 0 := List.count_eq_zero.2 (fun hm => hv (b2 v hm))
      rw [z1, z2]
  exact List.Perm.eq_of_pairwise (fun a b _ _ hab hba => Nat.le_antisymm hab hba) h1 h2
    (List.perm_iff_count.2 hcount)

/-! ### the multiset of a term -/

/-- each variable repeated as often as its power -/
def expand : Term → List Nat
  | [] => []
  | q :: t => List.replicate q.2 q.1 ++ expand t

theorem expand_length (t : Term) : (expand t).length = Term.degree t := by
  induction t with
  | nil => rfl
  | cons q t ih => simp [expand, Term.degree, ih]

theorem mem_expand (t : Term) (x : Nat) (h : x ∈ expand t) : ∃ q ∈ t, q.1 = x := by
  induction t with
  | nil => simp [expand] at h
  | cons q t ih =>
    simp only [expand, List.mem_append] at h
    rcases h with h | h
    · exact ⟨q, by simp, (List.eq_of_mem_replicate h).symm⟩
    · obtain ⟨r, hr, hx⟩ := ih h
      exact ⟨r, by simp [hr], hx⟩

theorem variableSet_eq_range' (nv D : Nat) :
    variableSet nv D = (List.range' 0 nv).flatMap (fun v => List.replicate D v) := by
  unfold variableSet; rw [List.range_eq_range']

theorem range'_split (lo v nv : Nat) (h1 : lo ≤ v) (h2 : v < nv) :
    List.range' lo (nv - lo) = List.range' lo (v - lo) ++ v :: List.range' (v + 1) (nv - (v + 1)) := by
  have e1 : List.range' lo (nv - lo) = List.range' lo (v - lo) ++ List.range' v (nv - v) := by
    have := @List.range'_append lo (v - lo) (nv - v) 1
    rw [show lo + 1 * (v - lo) = v by omega, show v - lo + (nv - v) = nv - lo by omega] at this
    exact this.symm
  rw [e1, show nv - v = (nv - (v + 1)) + 1 by omega, List.range'_succ]

/-- the multiset of a monomial over the variables `lo ≤ v < nv` with powers `≤ D` is a sublist of
the corresponding part of `variable_set` -/
theorem expand_sublist (nv D : Nat) (t : Term) (lo : Nat) (hwf : Term.wf t = true)
    (hv : ∀ q ∈ t, lo ≤ q.1 ∧ q.1 < nv) (hp : ∀ q ∈ t, q.2 ≤ D) :
    List.Sublist (expand t) ((List.range' lo (nv - lo)).flatMap (fun v => List.replicate D v)) := by
  induction t generalizing lo with
  | nil => exact List.nil_sublist _
  | cons q t ih =>
    have hq := hv q (by simp)
    rw [range'_split lo q.1 nv hq.1 hq.2, List.flatMap_append, List.flatMap_cons]
    simp only [expand]
    refine List.sublist_append_of_sublist_right (List.Sublist.append ?_ ?_)
    · exact (List.replicate_sublist_replicate q.1).2 (hp q (by simp))
    · refine ih (q.1 + 1) (Term.wf_tail hwf) (fun r hr => ?_) (fun r hr => hp r (by simp [hr]))
      have := Term.wf_head_lt hwf r hr
      exact ⟨by omega, (hv r (by simp [hr])).2⟩

theorem count_expand_zero (t : Term) (u : Nat) (h : ∀ q ∈ t, q.1 ≠ u) : (expand t).count u = 0 := by
  rw [List.count_eq_zero]
  intro hm
  obtain ⟨q, hq, hx⟩ := mem_expand t u hm
  exact h q hq hx

/-- the term of the multiset of a monomial is the monomial -/
theorem expTerm_expand_aux (nv : Nat) (t : Term) (lo : Nat) (hwf : Term.wf t = true)
    (hv : ∀ q ∈ t, lo ≤ q.1 ∧ q.1 < nv) :
    ((List.range' lo (nv - lo)).map (fun v => (v, (expand t).count v))).filter (fun q => q.2 != 0)
      = t := by
  induction t generalizing lo with
  | nil =>
    rw [List.filter_eq_nil_iff]
    intro a ha
    simp only [List.mem_map] at ha
    obtain ⟨v, _, rfl⟩ := ha
    simp [expand]
  | cons q t ih =>
    have hq := hv q (by simp)
    have hlt := Term.wf_head_lt hwf
    have hpos := Term.wf_head_pos hwf
    rw [range'_split lo q.1 nv hq.1 hq.2, List.map_append, List.filter_append, List.map_cons,
      List.filter_cons]
    -- variables below q.1 do not occur
    have hA : ((List.range' lo (q.1 - lo)).map (fun v => (v, (expand (q :: t)).count v))).filter
        (fun r => r.2 != 0) = [] := by
      rw [List.filter_eq_nil_iff]
      intro a ha
      simp only [List.mem_map, List.mem_range'_1] at ha
      obtain ⟨v, hvr, rfl⟩ := ha
      have : (expand (q :: t)).count v = 0 := count_expand_zero _ v (fun r hr => by
        rcases List.mem_cons.1 hr with rfl | hr
        · omega
        · have := hlt r hr; omega)
      simp [this]
    have hcq : (expand (q :: t)).count q.1 = q.2 := by
      simp only [expand, List.count_append, List.count_replicate, beq_self_eq_true, if_true]
      rw [count_expand_zero t q.1 (fun r hr => by have := hlt r hr; omega)]
      simp
    have hB : (List.range' (q.1 + 1) (nv - (q.1 + 1))).map (fun v => (v, (expand (q :: t)).count v))
        = (List.range' (q.1 + 1) (nv - (q.1 + 1))).map (fun v => (v, (expand t).count v)) := by
      apply List.map_congr_left
      intro v hvr
      simp only [List.mem_range'_1] at hvr
      simp only [expand, List.count_append, List.count_replicate]
      have : ¬ (q.1 == v) = true := by simp; omega
      simp [this]
    rw [hA, hcq, hB]
    have hkeep : ((q.1, q.2).2 != 0) = true := by simpa using hpos
    simp only [hkeep, if_true, List.nil_append]
    congr 1
    exact ih (q.1 + 1) (Term.wf_tail hwf) (fun r hr => ⟨by have := hlt r hr; omega, (hv r (by simp [hr])).2⟩)

theorem expTerm_expand (nv : Nat) (t : Term) (hwf : Term.wf t = true)
    (hv : Term.varsBelow nv t = true) : expTerm nv (expand t) = t := by
  unfold expTerm
  rw [List.range_eq_range']
  have := expTerm_expand_aux nv t 0 hwf (fun q hq => ⟨Nat.zero_le _, (PST.varsBelow_iff nv t).1 hv q hq⟩)
  simpa using this

theorem pow_le_degree (t : Term) : ∀ q ∈ t, q.2 ≤ Term.degree t := by
  induction t with
  | nil => intro q hq; cases hq
  | cons a t ih =>
    intro q hq
    simp only [Term.degree]
    rcases List.mem_cons.1 hq with rfl | hq
    · omega
    · have := ih q hq; omega

/-! ### the multisets of one degree -/

/-- a sorted sub-multiset of `variable_set` with `k` entries -/
def IsSel (nv D k : Nat) (m : List Nat) : Prop :=
  List.Sublist m (variableSet nv D) ∧ m.length = k

theorem degreeMultisets_spec (nv D k : Nat) (hnv : 1 ≤ nv) (hk1 : 1 ≤ k) (hkD : k ≤ D) :
    ∃ ms, degreeMultisets nv D k = .ok ms ∧ ms.Nodup ∧ ∀ m, m ∈ ms ↔ IsSel nv D k m := by
  unfold degreeMultisets
  simp only
  by_cases heq : (variableSet nv D).length = k
  · rw [if_pos heq]
    refine ⟨[variableSet nv D], rfl, by simp, fun m => ?_⟩
    simp only [List.mem_singleton, IsSel]
    constructor
    · rintro rfl; exact ⟨List.Sublist.refl _, heq⟩
    · rintro ⟨h1, h2⟩; exact h1.eq_of_length (by rw [h2, heq])
  · rw [if_neg heq]
    have hlen := variableSet_length nv D
    have hgt : (variableSet nv D).length > k := by
      rw [hlen] at heq ⊢
      have : D ≤ nv * D := Nat.le_mul_of_pos_left D hnv
      omega
    have hsort := sortNat_of_sorted _ (variableSet_sorted nv D)
    cases hcomb : combinations (variableSet nv D) k with
    | error e =>
      exfalso
      unfold combinations Comb.new at hcomb
      rw [if_pos ⟨hgt, hk1⟩] at hcomb
      cases hcomb
    | ok outs =>
      have hspec := combinations_spec _ k outs hcomb
      have hcomp := combinations_complete _ k outs hcomb
      rw [hsort] at hspec hcomp
      refine ⟨outs, rfl, hspec.2.1, fun m => ⟨fun hm => ?_, fun hm => hcomp m hm.1 hm.2⟩⟩
      exact good_sublist _ _ _ (hspec.2.2 m hm).1

theorem isSel_props (nv D k : Nat) (m : List Nat) (h : IsSel nv D k m) :
    m.Pairwise (· ≤ ·) ∧ (∀ x ∈ m, x < nv) ∧ m.length = k :=
  ⟨List.Pairwise.sublist h.1 (variableSet_sorted nv D),
   fun x hx => mem_variableSet nv D x (h.1.subset hx), h.2⟩

/-! ### all degrees -/

theorem multisetsFrom_spec (nv D : Nat) (hnv : 1 ≤ nv) (cnt start : Nat) (hs : 1 ≤ start)
    (he : start + cnt ≤ D + 1) :
    ∃ ms, multisetsFrom nv D cnt start = .ok ms ∧ ms.Nodup ∧
      ∀ m, m ∈ ms ↔ ∃ k, start ≤ k ∧ k < start + cnt ∧ IsSel nv D k m := by
  induction cnt generalizing start with
  | zero => exact ⟨[], rfl, List.nodup_nil, fun m => by simp; intro k h1 h2; omega⟩
  | succ cnt ih =>
    obtain ⟨ms1, h1, hnd1, hm1⟩ := degreeMultisets_spec nv D start hnv hs (by omega)
    obtain ⟨ms2, h2, hnd2, hm2⟩ := ih (start + 1) (by omega) (by omega)
    refine ⟨ms1 ++ ms2, by simp only [multisetsFrom, h1, h2], ?_, fun m => ?_⟩
    · rw [List.nodup_append]
      refine ⟨hnd1, hnd2, fun a ha b hb hab => ?_⟩
      subst hab
      have l1 := ((hm1 a).1 ha).2
      obtain ⟨k, hk1, _, hk3⟩ := (hm2 a).1 hb
      have := hk3.2; omega
    · rw [List.mem_append, hm1, hm2]
      constructor
      · rintro (h | ⟨k, hk1, hk2, hk3⟩)
        · exact ⟨start, Nat.le_refl _, by omega, h⟩
        · exact ⟨k, by omega, by omega, hk3⟩
      · rintro ⟨k, hk1, hk2, hk3⟩
        rcases Nat.lt_or_eq_of_le hk1 with h | h
        · exact Or.inr ⟨k, by omega, by omega, hk3⟩
        · subst h; exact Or.inl hk3

/-! ### the terms -/

/-- **`setup` enumerates exactly the monomials, every `num_vars ≥ 1`, `max_degree ≥ 1`.**
The term list `setup` builds has no duplicates and contains exactly the monomials (`SparseTerm::new`
results) in variables `< nv` of total degree `≤ D`. -/
theorem setupTerms_general (nv D : Nat) (hnv : 1 ≤ nv) (hD : 1 ≤ D) :
    ∃ l, setupTerms nv D = .ok l ∧ l.Nodup ∧
      ∀ t, t ∈ l ↔ (Term.wf t = true ∧ Term.varsBelow nv t = true ∧ Term.degree t ≤ D) := by
  obtain ⟨ms, hms, hnd, hmem⟩ := multisetsFrom_spec nv D hnv D 1 (Nat.le_refl _) (by omega)
  have hnew : Term.new [] = [] := rfl
  have hprops : ∀ m ∈ ms, ∃ k, 1 ≤ k ∧ k ≤ D ∧ m.Pairwise (· ≤ ·) ∧ (∀ x ∈ m, x < nv) ∧ m.length = k := by
    intro m hm
    obtain ⟨k, hk1, hk2, hk3⟩ := (hmem m).1 hm
    obtain ⟨p1, p2, p3⟩ := isSel_props nv D k m hk3
    exact ⟨k, hk1, by omega, p1, p2, p3⟩
  refine ⟨ms.map (termOfMultiset nv) ++ [[]], by simp only [setupTerms, setupMultisets, hms, hnew], ?_,
    fun t => ?_⟩
  · rw [List.nodup_append]
    refine ⟨?_, by simp, ?_⟩
    · refine List.Nodup.map_on (fun x hx y hy hxy => ?_) hnd
      obtain ⟨_, _, _, px1, px2, _⟩ := hprops x hx
      obtain ⟨_, _, _, py1, py2, _⟩ := hprops y hy
      rw [termOfMultiset_eq, termOfMultiset_eq] at hxy
      exact expTerm_injective nv x y px1 py1 px2 py2 hxy
    · intro a ha b hb hab
      simp only [List.mem_singleton] at hb
      subst hb; subst hab
      simp only [List.mem_map] at ha
      obtain ⟨m, hm, hmt⟩ := ha
      obtain ⟨k, hk1, _, _, p2, p3⟩ := hprops m hm
      have := degree_expTerm nv m p2
      rw [← termOfMultiset_eq, hmt] at this
      simp only [Term.degree] at this
      omega
  · simp only [List.mem_append, List.mem_map, List.mem_singleton]
    constructor
    · rintro (⟨m, hm, rfl⟩ | rfl)
      · obtain ⟨k, hk1, hk2, _, p2, p3⟩ := hprops m hm
        rw [termOfMultiset_eq]
        exact ⟨wf_filter_map _ _ List.pairwise_lt_range, varsBelow_expTerm nv m,
          by rw [degree_expTerm nv m p2]; omega⟩
      · exact ⟨rfl, rfl, Nat.zero_le _⟩
    · rintro ⟨hwf, hvb, hdeg⟩
      by_cases h0 : Term.degree t = 0
      · right
        cases t with
        | nil => rfl
        | cons q t => have := Term.wf_head_pos hwf; simp only [Term.degree] at h0; omega
      · left
        refine ⟨expand t, ?_, by rw [termOfMultiset_eq]; exact expTerm_expand nv t hwf hvb⟩
        rw [hmem]
        refine ⟨Term.degree t, by omega, by omega, ?_, expand_length t⟩
        rw [variableSet_eq_range']
        have := expand_sublist nv D t 0 hwf
          (fun q hq => ⟨Nat.zero_le _, (PST.varsBelow_iff nv t).1 hvb q hq⟩)
          (fun q hq => Nat.le_trans (pow_le_degree t q hq) hdeg)
        simpa using this

end Comb
end PCV
