/-
  PCV.Proofs.KZG10Extract — what an ALGEBRAIC forger against KZG10 gives away.  A forger that outputs
  its witness element as a linear combination `W = ⟨a, powers_of_g⟩ + ⟨b, powers_of_gamma_g⟩` of the
  published key elements (the algebraic-group-model adversary; every attack in the library's own
  vocabulary — MSMs over the key — is of this kind) and gets a FALSE value accepted has written down a
  non-zero polynomial of known coefficients and degree ≤ n that vanishes at the trapdoor: it has solved
  the scheme's hardness problem.  Conversely, for all but ≤ n trapdoors no such forgery is accepted.
-/
import PCV.Proofs.KZG10
import PCV.Proofs.Roots

set_option linter.unusedSectionVars false

namespace PCV
namespace KZG

variable {F : Type} [Field F] [DecidableEq F]

/-- `a(X)·(X − z)` as a coefficient list -/
def mulLin (a : List F) (z : F) : List F := padd (pshift 1 a) (pscale (-z) a)

theorem eval_mulLin (a : List F) (z x : F) : evalPoly (mulLin a z) x = evalPoly a x * (x - z) := by
  unfold mulLin
  rw [eval_padd, eval_pshift, eval_pscale]
  simp only [fpow_succ, fpow_zero]
  ring

/-- the extraction polynomial of a non-hiding forgery: `p(X) − v − a(X)(X − z)` -/
def extractPoly (p a : List F) (z v : F) : List F :=
  padd (padd p [-v]) (pscale (-1) (mulLin a z))

theorem eval_extractPoly (p a : List F) (z v x : F) :
    evalPoly (extractPoly p a z v) x = evalPoly p x - v - evalPoly a x * (x - z) := by
  unfold extractPoly
  rw [eval_padd, eval_padd, eval_pscale, eval_mulLin]
  simp only [evalPoly_cons, evalPoly_nil, mul_zero, add_zero]
  ring

theorem extractPoly_length (p a : List F) (z v : F) :
    (extractPoly p a z v).length ≤ max (max p.length 1) (a.length + 1) := by
  unfold extractPoly mulLin
  simp only [padd_len, pscale_len, pshift, List.length_append, List.length_replicate,
    List.length_cons, List.length_nil]
  omega

/-- **Extraction (non-hiding).** Honest commitment `C = g·p(β)`; an algebraic witness
`W = g·a(β)` accepted for the value `v` at `z` makes the trapdoor a root of `extractPoly`
(for `g, h ≠ 0`), and if `v ≠ p(z)` that polynomial is not the zero polynomial: it takes the value
`p(z) − v ≠ 0` at `z`. -/
theorem forgery_gives_root (g γ β h : F) (p a : List F) (z v : F) (hg : g ≠ 0) (hh : h ≠ 0)
    (hacc : check (wfVK g γ β h) (g * evalPoly p β) z v ⟨g * evalPoly a β, none⟩ = true) :
    evalPoly (extractPoly p a z v) β = 0 ∧
      evalPoly (extractPoly p a z v) z = evalPoly p z - v := by
  rw [check_iff_defect] at hacc
  unfold defect wfVK rvVal at hacc
  simp only at hacc
  constructor
  · rw [eval_extractPoly]
    have : g * h * (evalPoly p β - v - evalPoly a β * (β - z)) = 0 := by
      linear_combination hacc
    rcases mul_eq_zero.1 this with h1 | h1
    · rcases mul_eq_zero.1 h1 with h2 | h2
      · exact absurd h2 hg
      · exact absurd h2 hh
    · exact h1
  · rw [eval_extractPoly]; ring

/-- **Few bad trapdoors.** For a fixed polynomial `p`, point `z`, false value `v ≠ p(z)` and forger
coefficients `a`, the trapdoors for which the forgery is accepted lie in a set of at most
`max(|p|, |a| + 1) − 1` field elements. -/
theorem forgery_exceptional_set (p a : List F) (z v : F) (hv : v ≠ evalPoly p z) :
    ∃ S : Finset F, S.card ≤ max (max p.length 1) (a.length + 1) - 1 ∧
      ∀ (g γ β h : F), g ≠ 0 → h ≠ 0 → β ∉ S →
        check (wfVK g γ β h) (g * evalPoly p β) z v ⟨g * evalPoly a β, none⟩ = false := by
  have hne : ∃ x, evalPoly (extractPoly p a z v) x ≠ 0 := by
    refine ⟨z, ?_⟩
    rw [eval_extractPoly]
    simp only [sub_self, mul_zero, sub_zero]
    exact fun h0 => hv (sub_eq_zero.1 h0).symm
  obtain ⟨S, hcard, hS⟩ := Roots.zeros_bounded (extractPoly p a z v) hne
  refine ⟨S, le_trans hcard (Nat.sub_le_sub_right (extractPoly_length p a z v) 1), ?_⟩
  intro g γ β h hg hh hβ
  cases hc : check (wfVK g γ β h) (g * evalPoly p β) z v ⟨g * evalPoly a β, none⟩ with
  | false => rfl
  | true => exact absurd (hS β (forgery_gives_root g γ β h p a z v hg hh hc).1) hβ

/-- **Extraction (hiding).** Honest hiding commitment `C = g·p(β) + γ·r(β)`, algebraic witness
`W = g·a(β) + γ·b(β)`, any `random_v = rv`: acceptance is the single relation
`g·Q_g(β) + γ·Q_γ(β) = 0` between the two generators, with `Q_g = p − v − a·(X−z)` and
`Q_γ = r − rv − b·(X−z)`.  So an accepted false value (`Q_g(z) = p(z) − v ≠ 0`) means: either the
trapdoor is a root of the non-zero polynomial `Q_g` (and of `γ·Q_γ`), or the forger has expressed the
hiding generator through the plain one, `γ = −g·Q_g(β)/Q_γ(β)` — the discrete logarithm the
scheme's hiding generator is assumed to hide. -/
theorem forgery_hiding_dichotomy (g γ β h : F) (p r a b : List F) (z v rv : F)
    (hg : g ≠ 0) (hh : h ≠ 0)
    (hacc : check (wfVK g γ β h) (g * evalPoly p β + γ * evalPoly r β) z v
      ⟨g * evalPoly a β + γ * evalPoly b β, some rv⟩ = true) :
    g * evalPoly (extractPoly p a z v) β + γ * evalPoly (extractPoly r b z rv) β = 0 ∧
    evalPoly (extractPoly p a z v) z = evalPoly p z - v ∧
    ((evalPoly (extractPoly p a z v) β = 0 ∧ γ * evalPoly (extractPoly r b z rv) β = 0) ∨
     (evalPoly (extractPoly r b z rv) β ≠ 0 ∧
      γ = -(g * evalPoly (extractPoly p a z v) β) / evalPoly (extractPoly r b z rv) β)) := by
  rw [check_iff_defect] at hacc
  unfold defect wfVK rvVal at hacc
  simp only at hacc
  have hrel : g * evalPoly (extractPoly p a z v) β + γ * evalPoly (extractPoly r b z rv) β = 0 := by
    rw [eval_extractPoly, eval_extractPoly]
    have : h * (g * (evalPoly p β - v - evalPoly a β * (β - z))
        + γ * (evalPoly r β - rv - evalPoly b β * (β - z))) = 0 := by
      linear_combination hacc
    rcases mul_eq_zero.1 this with h1 | h1
    · exact absurd h1 hh
    · exact h1
  refine ⟨hrel, by rw [eval_extractPoly]; ring, ?_⟩
  by_cases hq : evalPoly (extractPoly r b z rv) β = 0
  · left
    rw [hq, mul_zero, add_zero] at hrel
    rcases mul_eq_zero.1 hrel with h1 | h1
    · exact absurd h1 hg
    · exact ⟨h1, by rw [hq, mul_zero]⟩
  · right
    refine ⟨hq, ?_⟩
    rw [eq_div_iff hq]
    linear_combination hrel

end KZG
end PCV
