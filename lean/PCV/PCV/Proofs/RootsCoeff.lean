/-
  PCV.Proofs.RootsCoeff — the root bound from a non-zero COEFFICIENT (over a finite field a non-zero
  polynomial may vanish at every point, so "some value is non-zero" is the stronger hypothesis).
-/
import PCV.Proofs.Roots
set_option linter.unusedSectionVars false

namespace PCV
namespace Roots
open Polynomial
variable {F : Type} [Field F] [DecidableEq F]

theorem coeff_toPoly (l : List F) (i : Nat) : (toPoly l).coeff i = l.getD i 0 := by
  induction l generalizing i with
  | nil => simp [toPoly]
  | cons c cs ih =>
    cases i with
    | zero => simp [toPoly]
    | succ i =>
      simp only [toPoly, coeff_add, coeff_C_succ, zero_add, coeff_X_mul, List.getD_cons_succ]
      exact ih i

/-- a list with a non-zero entry vanishes at no more than `length − 1` points -/
theorem zeros_bounded_of_coeff (l : List F) (hc : ∃ i, l.getD i 0 ≠ 0) :
    ∃ S : Finset F, S.card ≤ l.length - 1 ∧ ∀ β, evalPoly l β = 0 → β ∈ S := by
  classical
  have hne : toPoly l ≠ 0 := by
    obtain ⟨i, hi⟩ := hc
    intro h0
    apply hi
    rw [← coeff_toPoly, h0]; simp
  refine ⟨(toPoly l).roots.toFinset, ?_, ?_⟩
  · calc (toPoly l).roots.toFinset.card ≤ Multiset.card (toPoly l).roots := Multiset.toFinset_card_le _
      _ ≤ (toPoly l).natDegree := card_roots' _
      _ ≤ l.length - 1 := natDegree_toPoly_le l
  · intro β hβ
    rw [Multiset.mem_toFinset, mem_roots hne]
    unfold IsRoot
    rw [eval_toPoly]; exact hβ

end Roots
end PCV
