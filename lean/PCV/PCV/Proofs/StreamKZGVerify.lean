/-
  PCV.Proofs.StreamKZGVerify — `verify_multi_points`: Lagrange interpolation over the evaluation
  points, the η-combination, uniqueness of a polynomial of degree `< m` through `m` distinct points
  (Mathlib's `Polynomial.eq_of_degrees_lt_of_eval_finset_eq`), completeness and the exact defect.
-/
import PCV.Proofs.StreamKZGMulti
import Mathlib.LinearAlgebra.Lagrange

set_option linter.unusedSectionVars false

namespace PCV
namespace SKZG
variable {F : Type} [Field F]

/-! ### coefficient lists as Mathlib polynomials; uniqueness -/

open Polynomial in
/-- the Mathlib polynomial of a little-endian coefficient list -/
noncomputable def toPoly (l : List F) : F[X] := l.foldr (fun c acc => C c + X * acc) 0

open Polynomial in
theorem eval_toPoly (l : List F) (x : F) : (toPoly l).eval x = evalPoly l x := by
  induction l with
  | nil => simp [toPoly]
  | cons c l ih =>
    have : toPoly (c :: l) = C c + X * toPoly l := rfl
    rw [this]; simp [ih]

open Polynomial in
theorem coeff_toPoly (l : List F) (k : Nat) : (toPoly l).coeff k = l.getD k 0 := by
  induction l generalizing k with
  | nil => simp [toPoly]
  | cons c l ih =>
    have : toPoly (c :: l) = C c + X * toPoly l := rfl
    rw [this]
    cases k with
    | zero => simp
    | succ k => simp [coeff_X_mul, ih]

open Polynomial in
theorem degree_toPoly_lt (l : List F) : (toPoly l).degree < l.length := by
  rw [degree_lt_iff_coeff_zero]
  intro m hm
  rw [coeff_toPoly]
  simp [List.getD, List.getElem?_eq_none hm]

/-- two coefficient lists with at most `m` entries that agree on `m` distinct points are the same
polynomial function -/
theorem eval_eq_of_agree (r s pts : List F) (hr : r.length ≤ pts.length) (hs : s.length ≤ pts.length)
    (hnd : pts.Nodup) (h : ∀ a ∈ pts, evalPoly r a = evalPoly s a) (x : F) :
    evalPoly r x = evalPoly s x := by
  classical
  have hcard : pts.toFinset.card = pts.length := List.toFinset_card_of_nodup hnd
  have key : toPoly r = toPoly s := by
    apply Polynomial.eq_of_degrees_lt_of_eval_finset_eq pts.toFinset
    · calc (toPoly r).degree < (r.length : WithBot ℕ) := degree_toPoly_lt r
        _ ≤ (pts.toFinset.card : WithBot ℕ) := by rw [hcard]; exact_mod_cast hr
    · calc (toPoly s).degree < (s.length : WithBot ℕ) := degree_toPoly_lt s
        _ ≤ (pts.toFinset.card : WithBot ℕ) := by rw [hcard]; exact_mod_cast hs
    · intro a ha
      rw [eval_toPoly, eval_toPoly]
      exact h a (List.mem_toFinset.1 ha)
  rw [← eval_toPoly, key, eval_toPoly]

/-! ### `linear_combination` -/

theorem eval_lcAux (ps : List (List F)) (cs acc : List F) (x : F) :
    evalPoly (lcAux ps cs acc) x = evalPoly acc x + dot (ps.map (evalPoly · x)) cs := by
  induction ps generalizing cs acc with
  | nil => simp [lcAux]
  | cons p ps ih =>
    cases cs with
    | nil => simp [lcAux]
    | cons c cs =>
      simp only [lcAux, ih, eval_padd, eval_pscale, List.map_cons, dot_cons]; ring

theorem lcAux_length (ps : List (List F)) (cs acc : List F) (n : Nat)
    (h : ∀ p ∈ ps, p.length ≤ n) (ha : acc.length ≤ n) : (lcAux ps cs acc).length ≤ n := by
  induction ps generalizing cs acc with
  | nil => simpa [lcAux]
  | cons p ps ih =>
    cases cs with
    | nil => simpa [lcAux]
    | cons c cs =>
      simp only [lcAux]
      apply ih _ _ (fun q hq => h q (by simp [hq]))
      rw [padd_len, pscale_len]
      exact max_le ha (h p (by simp))

theorem linearCombination_spec (ps : List (List F)) (cs : List F) (n : Nat) (hps : ps ≠ [])
    (hcs : cs ≠ []) (h : ∀ p ∈ ps, p.length ≤ n) :
    ∃ B, linearCombination ps cs = some B ∧ B.length ≤ n
      ∧ ∀ x, evalPoly B x = dot (ps.map (evalPoly · x)) cs := by
  cases ps with
  | nil => exact absurd rfl hps
  | cons p ps =>
    cases cs with
    | nil => exact absurd rfl hcs
    | cons c cs =>
      refine ⟨_, rfl, ?_, ?_⟩
      · exact lcAux_length _ _ _ _ (fun q hq => h q (by simp [hq]))
          (by rw [pscale_len]; exact h p (by simp))
      · intro x
        simp only [eval_lcAux, eval_pscale, List.map_cons, dot_cons]; ring

theorem dot_map_mul_left {α : Type} (g : F) (f : α → F) (l : List α) (cs : List F) :
    dot (l.map (fun a => g * f a)) cs = g * dot (l.map f) cs := by
  induction l generalizing cs with
  | nil => simp
  | cons a l ih =>
    cases cs with
    | nil => simp
    | cons c cs => simp only [List.map_cons, dot_cons, ih]; ring

theorem powersOf_ne_nil (η : F) (k : Nat) (h : k ≠ 0) : powersOf η k ≠ [] := by
  cases k with
  | zero => exact absurd rfl h
  | succ k => simp [powersOf, PCV.powers]

/-! ### Lagrange interpolation as `verify_multi_points` computes it -/

theorem foldl_mul_eq_prodLin (l : List F) (xj a : F) :
    l.foldl (fun acc xk => acc * (xj - xk)) a = a * prodLin l xj := by
  induction l generalizing a with
  | nil => simp [prodLin]
  | cons b l ih => simp only [List.foldl_cons, ih, prodLin]; ring

/-- `Σⱼ sⱼ·yⱼ·Lⱼ(x)` over the zipped lists -/
def isum : List F → List (List F) → List F → F → F
  | s :: ss, l :: ls, y :: ys, x => s * y * evalPoly l x + isum ss ls ys x
  | _, _, _, _ => 0

theorem eval_interpolateAux (ss : List F) (ls : List (List F)) (ys acc : List F) (x : F) :
    evalPoly (interpolateAux ss ls ys acc) x = evalPoly acc x + isum ss ls ys x := by
  induction ss generalizing ls ys acc with
  | nil => simp [interpolateAux, isum]
  | cons s ss ih =>
    cases ls with
    | nil => simp [interpolateAux, isum]
    | cons l ls =>
      cases ys with
      | nil => simp [interpolateAux, isum]
      | cons y ys =>
        simp only [interpolateAux, isum, ih, eval_padd, eval_pscale]; ring

theorem interpolateAux_length (ss : List F) (ls : List (List F)) (ys acc : List F) (n : Nat)
    (h : ∀ l ∈ ls, l.length ≤ n) (ha : acc.length ≤ n) :
    (interpolateAux ss ls ys acc).length ≤ n := by
  induction ss generalizing ls ys acc with
  | nil => simpa [interpolateAux]
  | cons s ss ih =>
    cases ls with
    | nil => simpa [interpolateAux]
    | cons l ls =>
      cases ys with
      | nil => simpa [interpolateAux]
      | cons y ys =>
        simp only [interpolateAux]
        apply ih _ _ _ (fun q hq => h q (by simp [hq]))
        rw [padd_len, pscale_len]
        exact max_le ha (h l (by simp))

theorem langAll_length (pre rest : List F) :
    ∀ l ∈ langAll pre rest, l.length ≤ pre.length + rest.length := by
  induction rest generalizing pre with
  | nil => simp [langAll]
  | cons xj post ih =>
    intro l hl
    simp only [langAll, List.mem_cons] at hl
    rcases hl with hl | hl
    · rw [hl, vanishing_length]; simp
    · have := ih (pre ++ [xj]) l hl
      simp at this ⊢; omega

theorem scaAll_ne_zero (pre rest : List F) (hnd : (pre ++ rest).Nodup) :
    ∀ s ∈ scaAll pre rest, s ≠ 0 := by
  induction rest generalizing pre with
  | nil => simp [scaAll]
  | cons xj post ih =>
    intro s hs
    simp only [scaAll, List.mem_cons] at hs
    have hmid := (List.nodup_middle.1 hnd)
    rcases hs with hs | hs
    · rw [hs, foldl_mul_eq_prodLin, one_mul]
      exact prodLin_ne_zero_of_not_mem _ _ (List.nodup_cons.1 hmid).1
    · exact ih (pre ++ [xj]) (by simpa using hnd) s hs

/-- the Lagrange property of the interpolant the verifier builds: zero on the points already
passed, the prescribed value on each remaining point -/
theorem lagrange_aux (pre rest ys : List F) (hnd : (pre ++ rest).Nodup)
    (hlen : ys.length = rest.length) :
    (∀ a ∈ pre, isum ((scaAll pre rest).map (·⁻¹)) (langAll pre rest) ys a = 0) ∧
    (∀ t (h1 : t < rest.length) (h2 : t < ys.length),
      isum ((scaAll pre rest).map (·⁻¹)) (langAll pre rest) ys rest[t] = ys[t]) := by
  induction rest generalizing pre ys with
  | nil => exact ⟨fun a _ => by simp [scaAll, langAll, isum], fun t h1 => by simp at h1⟩
  | cons xj post ih =>
    cases ys with
    | nil => simp at hlen
    | cons y ys =>
      have hmid := List.nodup_cons.1 (List.nodup_middle.1 hnd)
      have hnd' : ((pre ++ [xj]) ++ post).Nodup := by simpa using hnd
      obtain ⟨ih1, ih2⟩ := ih (pre ++ [xj]) ys hnd' (by simpa using hlen)
      simp only [scaAll, langAll, List.map_cons, isum, eval_vanishing, foldl_mul_eq_prodLin, one_mul]
      constructor
      · intro a ha
        rw [prodLin_eq_zero_of_mem (pre ++ post) a (by simp [ha]), ih1 a (by simp [ha])]
        ring
      · intro t h1 h2
        cases t with
        | zero =>
          simp only [List.getElem_cons_zero]
          rw [ih1 xj (by simp)]
          have hne := prodLin_ne_zero_of_not_mem _ _ hmid.1
          field_simp
          ring
        | succ t =>
          simp only [List.getElem_cons_succ]
          have ht : t < post.length := by simpa using h1
          have hmem : post[t] ∈ pre ++ post := by
            apply List.mem_append_right
            exact List.getElem_mem _
          rw [prodLin_eq_zero_of_mem _ _ hmem, ih2 t (by simpa using h1) (by simpa using h2)]
          ring

theorem interpolate_length (pts evals : List F) :
    (interpolate pts evals).length ≤ pts.length := by
  unfold interpolate
  apply interpolateAux_length
  · intro l hl
    have := langAll_length [] pts l hl
    simpa using this
  · simp

/-- the interpolant takes the prescribed values on the points -/
theorem interpolate_eval (pts ys : List F) (hnd : pts.Nodup) (hlen : ys.length = pts.length)
    (t : Nat) (h1 : t < pts.length) (h2 : t < ys.length) :
    evalPoly (interpolate pts ys) pts[t] = ys[t] := by
  unfold interpolate
  rw [eval_interpolateAux]
  have := (lagrange_aux [] pts ys (by simpa using hnd) hlen).2 t h1 h2
  simp [this]

/-! ### `verify_multi_points` -/

/-- the η-combination of the interpolants' values at `τ` -/
def interpAt (pts : List F) (evals : List (List F)) (η τ : F) : F :=
  dot (evals.map (fun e => evalPoly (interpolate pts e) τ)) (powersOf η evals.length)

/-- `verify_multi_points` under a well-formed verifier key `(g·τⁱ)_{i<a}, (g2·τⁱ)_{i<b}` with at
least `m` G1 and `m+1` G2 elements, for distinct points and at least one evaluation vector: no
abort, and the decision is the pairing equation
`(Σ ηⁱCᵢ − g·I(τ))·g2 = π·g2·Z(τ)`. -/
theorem verifyMulti_wf [DecidableEq F] (g g2 τ : F) (a b : Nat) (comms pts : List F)
    (evals : List (List F)) (π η : F) (hnd : pts.Nodup) (ha : pts.length ≤ a)
    (hb : pts.length + 1 ≤ b) (hev : evals ≠ [])
    (hcl : comms.length = evals.length) (hrows : ∀ e ∈ evals, e.length = pts.length) :
    verifyMultiPoints ⟨PCV.powers g τ a, PCV.powers g2 τ b⟩ comms pts evals π η
      = .ok (decide ((dot comms (powersOf η evals.length) - g * interpAt pts evals η τ) * g2
            = π * (g2 * prodLin pts τ))) := by
  unfold verifyMultiPoints
  have hguard : ¬ (pts.length ≥ (PCV.powers g2 τ b).length ∨ pts.length > (PCV.powers g τ a).length ∨
      comms.length ≠ evals.length ∨ (evals.any fun e => decide (e.length ≠ pts.length)) = true) := by
    rw [powers_length, powers_length]
    intro hx
    rcases hx with h1 | h1 | h1 | h1
    · omega
    · omega
    · exact h1 hcl
    · rw [List.any_eq_true] at h1
      obtain ⟨e, he, hd⟩ := h1
      exact (of_decide_eq_true hd) (hrows e he)
  simp only
  rw [if_neg hguard]
  have hany : (scaAll [] pts).any (fun s => decide (s = 0)) = false := by
    rw [List.any_eq_false]
    intro s hs
    simpa using scaAll_ne_zero [] pts (by simpa using hnd) s hs
  rw [if_neg (by simp [hany])]
  obtain ⟨B, hB, hBl, hBe⟩ := linearCombination_spec (evals.map (interpolate pts))
    (powersOf η evals.length) pts.length (by simpa using hev)
    (powersOf_ne_nil η _ (by simpa using hev))
    (by intro p hp
        obtain ⟨e, _, rfl⟩ := List.mem_map.1 hp
        exact interpolate_length pts e)
  simp only [hB]
  have hz : dot (PCV.powers g2 τ b) (vanishing pts) = g2 * prodLin pts τ := by
    rw [dot_comm, dot_powers _ _ _ _ (by rw [vanishing_length]; exact hb), eval_vanishing]
  have hi : dot (PCV.powers g τ a) B = g * interpAt pts evals η τ := by
    rw [dot_comm, dot_powers _ _ _ _ (by omega), hBe]
    simp [interpAt, List.map_map, Function.comp_def]
  rw [hz, hi]
  obtain ⟨b', rfl⟩ := Nat.exists_eq_add_of_le' (show 1 ≤ b by omega)
  simp only [PCV.powers]

theorem time_batchCommit_new (g g2 τ : F) (D m : Nat) (ps : List (List F))
    (h : ∀ p ∈ ps, p.length ≤ D + 1) :
    Time.batchCommit (CK.new g g2 τ D m) ps = .ok (ps.map (fun p => g * evalPoly p τ)) := by
  induction ps with
  | nil => rfl
  | cons p ps ih =>
    simp only [Time.batchCommit, time_commit_new g g2 τ D m p (h p (by simp)),
      ih (fun q hq => h q (by simp [hq])), List.map_cons]

/-- what `batch_open_multi_points` returns under a key made by `new`: `g·q(τ)` for a quotient `q`
of the η-combination `B` by the vanishing polynomial, `B = q·Z + r`, `|r| ≤ m` -/
theorem time_batchOpen_new [DecidableEq F] (g g2 τ : F) (D m : Nat) (ps : List (List F))
    (pts : List F) (η π : F) (hps : ps ≠ []) (h : ∀ p ∈ ps, p.length ≤ D + 1)
    (hπ : Time.batchOpenMultiPoints (CK.new g g2 τ D m) ps pts η = .ok π) :
    ∃ q r : List F, π = g * evalPoly q τ ∧ r.length ≤ pts.length ∧
      ∀ x, dot (ps.map (evalPoly · x)) (powersOf η ps.length)
        = evalPoly q x * prodLin pts x + evalPoly r x := by
  unfold Time.batchOpenMultiPoints at hπ
  split at hπ
  · cases hπ
  · obtain ⟨B, hB, hBl, hBe⟩ := linearCombination_spec ps (powersOf η ps.length) (D + 1) hps
      (powersOf_ne_nil η _ (by simpa using hps)) h
    rw [hB] at hπ
    simp only at hπ
    obtain ⟨S, hS, hSl⟩ := vanishing_monic pts
    unfold Time.openMultiPoints at hπ
    split at hπ
    · cases hπ
    rw [hS] at hπ
    obtain ⟨q, r, hd, hql, hrl, hspec⟩ := time_divide_spec (pnorm B) S
    rw [hd] at hπ
    simp only at hπ
    have hnl := pnorm_length_le B
    rw [time_commit_new _ _ _ _ _ _ (by omega)] at hπ
    injection hπ with hπ
    refine ⟨q, r, hπ.symm, by omega, ?_⟩
    intro x
    rw [← hBe, ← eval_pnorm, hspec x, ← hS, eval_vanishing]

/-- **defect of `verify_multi_points` on an honest batch proof with arbitrary claimed evaluations**:
accepted iff `g·g2·(I_claimed(τ) − I_true(τ)) = 0`, the η-combinations of the Lagrange interpolants
of the claimed and of the true evaluation vectors at the trapdoor. -/
theorem verifyMulti_honest_iff [DecidableEq F] (g g2 τ : F) (D m a b : Nat) (ps : List (List F))
    (pts : List F) (claimed : List (List F)) (η π : F) (hps : ps ≠ [])
    (h : ∀ p ∈ ps, p.length ≤ D + 1) (hnd : pts.Nodup) (ha : pts.length ≤ a)
    (hb : pts.length + 1 ≤ b) (hcl : claimed.length = ps.length)
    (hrows : ∀ e ∈ claimed, e.length = pts.length)
    (hπ : Time.batchOpenMultiPoints (CK.new g g2 τ D m) ps pts η = .ok π)
    (cs : List F) (hcs : Time.batchCommit (CK.new g g2 τ D m) ps = .ok cs) :
    verifyMultiPoints ⟨PCV.powers g τ a, PCV.powers g2 τ b⟩ cs pts claimed π η = .ok true
      ↔ g * g2 * (interpAt pts claimed η τ
          - interpAt pts (ps.map (fun p => pts.map (evalPoly p))) η τ) = 0 := by
  have hcne : claimed ≠ [] := by
    intro hc; rw [hc] at hcl; exact hps (List.length_eq_zero_iff.1 hcl.symm)
  rw [time_batchCommit_new _ _ _ _ _ _ h] at hcs
  injection hcs with hcs
  subst hcs
  rw [verifyMulti_wf g g2 τ a b _ pts claimed π η hnd ha hb hcne
      (by simp [hcl]) hrows, dot_map_mul_left, hcl]
  obtain ⟨q, r, hq, hrl, hspec⟩ := time_batchOpen_new g g2 τ D m ps pts η π hps h hπ
  -- the remainder and the η-combination of the true interpolants agree on the points, hence at τ
  obtain ⟨I, hI, hIl, hIe⟩ := linearCombination_spec
    ((ps.map (fun p => pts.map (evalPoly p))).map (interpolate pts))
    (powersOf η ps.length) pts.length (by simpa using hps)
    (powersOf_ne_nil η _ (by simpa using hps))
    (by intro p hp
        obtain ⟨e, _, rfl⟩ := List.mem_map.1 hp
        exact interpolate_length pts e)
  have hagree : ∀ a ∈ pts, evalPoly r a = evalPoly I a := by
    intro a ha
    have h1 := hspec a
    rw [prodLin_eq_zero_of_mem pts a ha] at h1
    rw [hIe a]
    have : evalPoly r a = dot (ps.map (evalPoly · a)) (powersOf η ps.length) := by
      rw [h1]; ring
    rw [this]
    congr 1
    simp only [List.map_map]
    apply List.map_congr_left
    intro p _
    obtain ⟨t, ht, rfl⟩ := List.mem_iff_getElem.1 ha
    simp only [Function.comp_def]
    rw [interpolate_eval pts _ hnd (by simp) t ht (by simpa using ht)]
    simp
  have hrI := eval_eq_of_agree r I pts hrl hIl hnd hagree τ
  have hItrue : interpAt pts (ps.map (fun p => pts.map (evalPoly p))) η τ = evalPoly I τ := by
    rw [hIe τ]
    simp [interpAt, List.map_map, Function.comp_def]
  have hτ := hspec τ
  rw [hItrue, ← hrI]
  simp only [Except.ok.injEq, decide_eq_true_eq]
  rw [hq]
  constructor
  · intro hh; linear_combination (-1 : F) * hh + (g * g2) * hτ
  · intro hh; linear_combination (-1 : F) * hh + (g * g2) * hτ

/-- shape of the verifier key derived from a key made by `new`, either way -/
theorem vk_new_shape (g g2 τ : F) (D m : Nat) (hD : m ≤ D) (vk : VK F)
    (hvk : VK.ofTime (CK.new g g2 τ D m) = .ok vk
      ∨ VK.ofSpace (CKS.ofTime (CK.new g g2 τ D m)) = .ok vk) :
    ∃ a, m ≤ a ∧ vk = ⟨PCV.powers g τ a, PCV.powers g2 τ (m + 1)⟩ := by
  rcases hvk with hvk | hvk
  · rw [vk_ofTime_new] at hvk
    injection hvk with hvk
    refine ⟨m, Nat.le_refl _, ?_⟩
    rw [← hvk]
    congr 2 <;> omega
  · rw [vk_ofSpace_new] at hvk
    injection hvk with hvk
    refine ⟨max m 1, by omega, ?_⟩
    rw [← hvk]
    congr 2 <;> omega

theorem verifyMulti_new_iff [DecidableEq F] (g g2 τ : F) (D m : Nat) (ps : List (List F))
    (pts : List F) (claimed : List (List F)) (η π : F) (hps : ps ≠ [])
    (h : ∀ p ∈ ps, p.length ≤ D + 1) (hnd : pts.Nodup) (hm : pts.length ≤ m) (hD : m ≤ D)
    (hcl : claimed.length = ps.length) (hrows : ∀ e ∈ claimed, e.length = pts.length)
    (hπ : Time.batchOpenMultiPoints (CK.new g g2 τ D m) ps pts η = .ok π) (vk : VK F)
    (hvk : VK.ofTime (CK.new g g2 τ D m) = .ok vk
      ∨ VK.ofSpace (CKS.ofTime (CK.new g g2 τ D m)) = .ok vk)
    (cs : List F) (hcs : Time.batchCommit (CK.new g g2 τ D m) ps = .ok cs) :
    verifyMultiPoints vk cs pts claimed π η = .ok true
      ↔ g * g2 * (interpAt pts claimed η τ
          - interpAt pts (ps.map (fun p => pts.map (evalPoly p))) η τ) = 0 := by
  obtain ⟨a, ha, rfl⟩ := vk_new_shape g g2 τ D m hD vk hvk
  exact verifyMulti_honest_iff g g2 τ D m a (m + 1) ps pts claimed η π hps h hnd (by omega)
    (by omega) hcl hrows hπ cs hcs

theorem verifyMulti_new_complete [DecidableEq F] (g g2 τ : F) (D m : Nat) (ps : List (List F))
    (pts : List F) (η π : F) (hps : ps ≠ [])
    (h : ∀ p ∈ ps, p.length ≤ D + 1) (hnd : pts.Nodup) (hm : pts.length ≤ m) (hD : m ≤ D)
    (hπ : Time.batchOpenMultiPoints (CK.new g g2 τ D m) ps pts η = .ok π) (vk : VK F)
    (hvk : VK.ofTime (CK.new g g2 τ D m) = .ok vk
      ∨ VK.ofSpace (CKS.ofTime (CK.new g g2 τ D m)) = .ok vk)
    (cs : List F) (hcs : Time.batchCommit (CK.new g g2 τ D m) ps = .ok cs) :
    verifyMultiPoints vk cs pts (ps.map (fun p => pts.map (evalPoly p))) π η = .ok true := by
  rw [verifyMulti_new_iff g g2 τ D m ps pts _ η π hps h hnd hm hD (by simp)
    (by intro e he; obtain ⟨p, _, rfl⟩ := List.mem_map.1 he; simp) hπ vk hvk cs hcs]
  ring

/-! ### a changed evaluation is rejected -/

/-- `ys` with `δ` added at position `j` -/
def bump : List F → Nat → F → List F
  | [], _, _ => []
  | y :: ys, 0, δ => (y + δ) :: ys
  | y :: ys, j + 1, δ => y :: bump ys j δ

/-- the evaluation table with `δ` added to the value of polynomial `a` at point `b` -/
def bumpAt : List (List F) → Nat → Nat → F → List (List F)
  | [], _, _, _ => []
  | e :: es, 0, b, δ => bump e b δ :: es
  | e :: es, a + 1, b, δ => e :: bumpAt es a b δ

theorem bumpAt_length (es : List (List F)) (a b : Nat) (δ : F) :
    (bumpAt es a b δ).length = es.length := by
  induction es generalizing a with
  | nil => rfl
  | cons e es ih => cases a <;> simp [bumpAt, ih]

theorem bump_length (ys : List F) (j : Nat) (δ : F) : (bump ys j δ).length = ys.length := by
  induction ys generalizing j with
  | nil => rfl
  | cons y ys ih => cases j <;> simp [bump, ih]

theorem bumpAt_rows (es : List (List F)) (a b : Nat) (δ : F) (n : Nat)
    (h : ∀ e ∈ es, e.length = n) : ∀ e ∈ bumpAt es a b δ, e.length = n := by
  induction es generalizing a with
  | nil => intro e he; simp [bumpAt] at he
  | cons x xs ih =>
    cases a with
    | zero =>
      intro e he
      simp only [bumpAt, List.mem_cons] at he
      rcases he with he | he
      · rw [he, bump_length]; exact h x (by simp)
      · exact h e (by simp [he])
    | succ a =>
      intro e he
      simp only [bumpAt, List.mem_cons] at he
      rcases he with he | he
      · rw [he]; exact h x (by simp)
      · exact ih a (fun e' he' => h e' (by simp [he'])) e he

theorem isum_bump (ss : List F) (ls : List (List F)) (ys : List F) (j : Nat) (δ x : F)
    (hj : j < ys.length) :
    isum ss ls (bump ys j δ) x
      = isum ss ls ys x + δ * (ss.getD j 0 * evalPoly (ls.getD j []) x) := by
  induction ss generalizing ls ys j with
  | nil => cases ys <;> simp [isum]
  | cons s ss ih =>
    cases ls with
    | nil => cases ys <;> simp [isum]
    | cons l ls =>
      cases ys with
      | nil => simp at hj
      | cons y ys =>
        cases j with
        | zero => simp [bump, isum]; ring
        | succ j =>
          simp only [bump, isum, List.getD_cons_succ]
          rw [ih ls ys j (by simpa using hj)]
          ring

theorem lagrange_coeff_ne_zero (pre rest : List F) (j : Nat) (τ : F) (hj : j < rest.length)
    (hnd : (pre ++ rest).Nodup) (hτ : τ ∉ pre ++ rest) :
    ((scaAll pre rest).map (·⁻¹)).getD j 0 * evalPoly ((langAll pre rest).getD j []) τ ≠ 0 := by
  induction rest generalizing pre j with
  | nil => simp at hj
  | cons xj post ih =>
    have hmid := List.nodup_cons.1 (List.nodup_middle.1 hnd)
    cases j with
    | zero =>
      simp only [scaAll, langAll, List.map_cons, List.getD_cons_zero, eval_vanishing,
        foldl_mul_eq_prodLin, one_mul]
      apply mul_ne_zero
      · exact inv_ne_zero (prodLin_ne_zero_of_not_mem _ _ hmid.1)
      · apply prodLin_ne_zero_of_not_mem
        intro hmem
        apply hτ
        rcases List.mem_append.1 hmem with h | h
        · exact List.mem_append_left _ h
        · exact List.mem_append_right _ (List.mem_cons_of_mem _ h)
    | succ j =>
      simp only [scaAll, langAll, List.map_cons, List.getD_cons_succ]
      exact ih (pre ++ [xj]) j (by simpa using hj) (by simpa using hnd) (by simpa using hτ)

theorem powers_getD (g β : F) (n a : Nat) (h : a < n) : (PCV.powers g β n).getD a 0 = β ^ a * g := by
  induction n generalizing g a with
  | zero => omega
  | succ n ih =>
    cases a with
    | zero => simp [PCV.powers]
    | succ a =>
      simp only [PCV.powers, List.getD_cons_succ]
      rw [ih (β * g) a (by omega), pow_succ]; ring

theorem dot_map_bumpAt (f : List F → F) (es : List (List F)) (cs : List F) (a b : Nat) (δ : F)
    (ha : a < es.length) :
    dot ((bumpAt es a b δ).map f) cs
      = dot (es.map f) cs + cs.getD a 0 * (f (bump (es.getD a []) b δ) - f (es.getD a [])) := by
  induction es generalizing cs a with
  | nil => simp at ha
  | cons e es ih =>
    cases cs with
    | nil => simp
    | cons c cs =>
      cases a with
      | zero => simp [bumpAt]; ring
      | succ a =>
        simp only [bumpAt, List.map_cons, dot_cons, List.getD_cons_succ]
        rw [ih cs a (by simpa using ha)]; ring

/-- the η-combined interpolant moves by `ηᵃ·δ·ℓ_b(τ)` when the value of polynomial `a` at point `b`
is shifted by `δ`; the Lagrange basis value `ℓ_b(τ)` is non-zero off the point set -/
theorem interpAt_bump_ne (pts : List F) (evals : List (List F)) (η τ δ : F) (a b : Nat)
    (ha : a < evals.length) (hb : b < (evals.getD a []).length) (hbp : b < pts.length)
    (hnd : pts.Nodup) (hτ : τ ∉ pts) (hη : η ≠ 0) (hδ : δ ≠ 0) :
    interpAt pts (bumpAt evals a b δ) η τ - interpAt pts evals η τ ≠ 0 := by
  unfold interpAt
  rw [bumpAt_length, dot_map_bumpAt (fun e => evalPoly (interpolate pts e) τ) evals _ a b δ ha]
  simp only [add_sub_cancel_left]
  unfold interpolate
  rw [eval_interpolateAux, eval_interpolateAux, isum_bump _ _ _ _ _ _ hb]
  rw [show ∀ p q r : F, (p + (q + r)) - (p + q) = r from fun p q r => by ring]
  rw [powersOf, powers_getD _ _ _ _ ha]
  have hc := lagrange_coeff_ne_zero [] pts b τ hbp (by simpa using hnd) (by simpa using hτ)
  exact mul_ne_zero (mul_ne_zero (pow_ne_zero _ hη) one_ne_zero) (mul_ne_zero hδ hc)

theorem verifyMulti_new_reject [DecidableEq F] (g g2 τ : F) (D m : Nat) (ps : List (List F))
    (pts : List F) (η π δ : F) (a b : Nat) (hps : ps ≠ [])
    (h : ∀ p ∈ ps, p.length ≤ D + 1) (hnd : pts.Nodup) (hm : pts.length ≤ m) (hD : m ≤ D)
    (hπ : Time.batchOpenMultiPoints (CK.new g g2 τ D m) ps pts η = .ok π) (vk : VK F)
    (hvk : VK.ofTime (CK.new g g2 τ D m) = .ok vk
      ∨ VK.ofSpace (CKS.ofTime (CK.new g g2 τ D m)) = .ok vk)
    (ha : a < ps.length) (hb : b < pts.length) (hg : g ≠ 0) (hg2 : g2 ≠ 0) (hη : η ≠ 0)
    (hδ : δ ≠ 0) (hτ : τ ∉ pts)
    (cs : List F) (hcs : Time.batchCommit (CK.new g g2 τ D m) ps = .ok cs) :
    verifyMultiPoints vk cs pts
      (bumpAt (ps.map (fun p => pts.map (evalPoly p))) a b δ) π η = .ok false := by
  have hiff := verifyMulti_new_iff g g2 τ D m ps pts
    (bumpAt (ps.map (fun p => pts.map (evalPoly p))) a b δ) η π hps h hnd hm hD
    (by rw [bumpAt_length]; simp)
    (bumpAt_rows _ a b δ pts.length
      (by intro e he; obtain ⟨p, _, rfl⟩ := List.mem_map.1 he; simp)) hπ vk hvk cs hcs
  have hcsl := time_batchCommit_length _ _ _ hcs
  obtain ⟨k, hk, rfl⟩ := vk_new_shape g g2 τ D m hD vk hvk
  have hne : (bumpAt (ps.map (fun p => pts.map (evalPoly p))) a b δ) ≠ [] := by
    intro hc
    have := bumpAt_length (ps.map (fun p => pts.map (evalPoly p))) a b δ
    rw [hc] at this
    simp at this
    exact hps (List.length_eq_zero_iff.1 this.symm)
  rw [verifyMulti_wf g g2 τ k (m + 1) _ pts _ π η hnd (by omega) (by omega) hne
    (by rw [bumpAt_length, hcsl]; simp)
    (bumpAt_rows _ a b δ pts.length
      (by intro e he; obtain ⟨p, _, rfl⟩ := List.mem_map.1 he; simp))] at hiff ⊢
  simp only [Except.ok.injEq, decide_eq_true_eq] at hiff
  simp only [Except.ok.injEq, decide_eq_false_iff_not]
  intro hP
  have hz := hiff.1 hP
  have hdiff := interpAt_bump_ne pts (ps.map (fun p => pts.map (evalPoly p))) η τ δ a b
    (by simpa using ha) (by simp [List.getD, ha]; exact hb) hb hnd hτ hη hδ
  exact (mul_ne_zero (mul_ne_zero hg hg2) hdiff) hz

/-- **More points than the key supports** (or evaluation tables that do not match the commitments and the
points) are refused — a rejection, never an acceptance — whatever the proof and the claimed values
(fix D20: the verifier's MSMs would otherwise truncate the vanishing polynomial and the interpolant, and
the truncated equation has solutions with false evaluations). -/
theorem verifyMulti_out_of_shape_refused [DecidableEq F] (vk : VK F) (comms pts : List F)
    (evals : List (List F)) (π η : F)
    (h : pts.length ≥ vk.powersOfG2.length ∨ pts.length > vk.powersOfG.length ∨
      comms.length ≠ evals.length ∨ ∃ e ∈ evals, e.length ≠ pts.length) :
    verifyMultiPoints vk comms pts evals π η = .ok false := by
  unfold verifyMultiPoints
  rw [if_pos]
  rcases h with h | h | h | ⟨e, he, hne⟩
  · exact Or.inl h
  · exact Or.inr (Or.inl h)
  · exact Or.inr (Or.inr (Or.inl h))
  · refine Or.inr (Or.inr (Or.inr ?_))
    rw [List.any_eq_true]
    exact ⟨e, he, decide_eq_true hne⟩

end SKZG
end PCV
