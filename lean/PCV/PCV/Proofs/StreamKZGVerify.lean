/-
  PCV.Proofs.StreamKZGVerify — `verify_multi_points`: Lagrange interpolation over the evaluation
  points, the η-combination, uniqueness of a polynomial of degree `< m` through `m` distinct points
  (Mathlib's `Polynomial.eq_of_degrees_lt_of_eval_finset_eq`), completeness and the exact defect.
-/
import PCV.Proofs.StreamKZGMulti
import Mathlib.LinearAlgebra.Lagrange

set_option linter.unusedSectionVars false

namespace PCV
namespace SKZG
variable {F : Type} [Field F]

/-! ### coefficient lists as Mathlib polynomials; uniqueness -/

open Polynomial in
/-- the Mathlib polynomial of a little-endian coefficient list -/
noncomputable def toPoly (l : List F) : F[X] := l.foldr (fun c acc => C c + X * acc) 0

open Polynomial in
theorem eval_toPoly (l : List F) (x : F) : (toPoly l).eval x = evalPoly l x := by
  induction l with
  | nil => simp [toPoly]
  | cons c l ih =>
    have : toPoly (c :: l) = C c + X * toPoly l := rfl
    rw [this]; simp [ih]

open Polynomial in
theorem coeff_toPoly (l : List F) (k : Nat) : (toPoly l).coeff k = l.getD k 0 := by
  induction l generalizing k with
  | nil => simp [toPoly]
  | cons c l ih =>
    have : toPoly (c :: l) = C c + X * toPoly l := rfl
    rw [this]
    cases k with
    | zero => simp
    | succ k => simp [coeff_X_mul, ih]

open Polynomial in
theorem degree_toPoly_lt (l : List F) : (toPoly l).degree < l.length := by
  rw [degree_lt_iff_coeff_zero]
  intro m hm
  rw [coeff_toPoly]
  simp [List.getD, List.getElem?_eq_none hm]

/-- two coefficient lists with at most `m` entries that agree on `m` distinct points are the same
polynomial function -/
theorem eval_eq_of_agree (r s pts : List F) (hr : r.length ≤ pts.length) (hs : s.length ≤ pts.length)
    (hnd : pts.Nodup) (h : ∀ a ∈ pts, evalPoly r a = evalPoly s a) (x : F) :
    evalPoly r x = evalPoly s x := by
  classical
  have hcard : pts.toFinset.card = pts.length := List.toFinset_card_of_nodup hnd
  have key : toPoly r = toPoly s := by
    apply Polynomial.eq_of_degrees_lt_of_eval_finset_eq pts.toFinset
    · calc (toPoly r).degree < (r.length : WithBot ℕ) := degree_toPoly_lt r
        _ ≤ (pts.toFinset.card : WithBot ℕ) := by rw [hcard]; exact_mod_cast hr
    · calc (toPoly s).degree < (s.length : WithBot ℕ) := degree_toPoly_lt s
        _ ≤ (pts.toFinset.card : WithBot ℕ) := by rw [hcard]; exact_mod_cast hs
    · intro a ha
      rw [eval_toPoly, eval_toPoly]
      exact h a (List.mem_toFinset.1 ha)
  rw [← eval_toPoly, key, eval_toPoly]

/-! ### `linear_combination` -/

theorem eval_lcAux (ps : List (List F)) (cs acc : List F) (x : F) :
    evalPoly (lcAux ps cs acc) x = evalPoly acc x + dot (ps.map (evalPoly · x)) cs := by
  induction ps generalizing cs acc with
  | nil => simp [lcAux]
  | cons p ps ih =>
    cases cs with
    | nil => simp [lcAux]
    | cons c cs =>
      simp only [lcAux, ih, eval_padd, eval_pscale, List.map_cons, dot_cons]; ring

theorem lcAux_length (ps : List (List F)) (cs acc : List F) (n : Nat)
    (h : ∀ p ∈ ps, p.length ≤ n) (ha : acc.length ≤ n) : (lcAux ps cs acc).length ≤ n := by
  induction ps generalizing cs acc with
  | nil => simpa [lcAux]
  | cons p ps ih =>
    cases cs with
    | nil => simpa [lcAux]
    | cons c cs =>
      simp only [lcAux]
      apply ih _ _ (fun q hq => h q (by simp [hq]))
      rw [padd_len, pscale_len]
      exact max_le ha (h p (by simp))

theorem linearCombination_spec (ps : List (List F)) (cs : List F) (n : Nat) (hps : ps ≠ [])
    (hcs : cs ≠ []) (h : ∀ p ∈ ps, p.length ≤ n) :
    ∃ B, linearCombination ps cs = some B ∧ B.length ≤ n
      ∧ ∀ x, evalPoly B x = dot (ps.map (evalPoly · x)) cs := by
  cases ps with
  | nil => exact absurd rfl hps
  | cons p ps =>
    cases cs with
    | nil => exact absurd rfl hcs
    | cons c cs =>
      refine ⟨_, rfl, ?_, ?_⟩
      · exact lcAux_length _ _ _ _ (fun q hq => h q (by simp [hq]))
          (by rw [pscale_len]; exact h p (by simp))
      · intro x
        simp only [eval_lcAux, eval_pscale, List.map_cons, dot_cons]; ring

theorem dot_map_mul_left {α : Type} (g : F) (f : α → F) (l : List α) (cs : List F) :
    dot (l.map (fun a => g * f a)) cs = g * dot (l.map f) cs := by
  induction l generalizing cs with
  | nil => simp
  | cons a l ih =>
    cases cs with
    | nil => simp
    | cons c cs => simp only [List.map_cons, dot_cons, ih]; ring

theorem powersOf_ne_nil (η : F) (k : Nat) (h : k ≠ 0) : powersOf η k ≠ [] := by
  cases k with
  | zero => exact absurd rfl h
  | succ k => simp [powersOf, PCV.powers]

/-! ### Lagrange interpolation as `verify_multi_points` computes it -/

theorem foldl_mul_eq_prodLin (l : List F) (xj a : F) :
    l.foldl (fun acc xk => acc * (xj - xk)) a = a * prodLin l xj := by
  induction l generalizing a with
  | nil => simp [prodLin]
  | cons b l ih => simp only [List.foldl_cons, ih, prodLin]; ring

/-- `Σⱼ sⱼ·yⱼ·Lⱼ(x)` over the zipped lists -/
def isum : List F → List (List F) → List F → F → F
  | s :: ss, l :: ls, y :: ys, x => s * y * evalPoly l x + isum ss ls ys x
  | _, _, _, _ => 0

theorem eval_interpolateAux (ss : List F) (ls : List (List F)) (ys acc : List F) (x : F) :
    evalPoly (interpolateAux ss ls ys acc) x = evalPoly acc x + isum ss ls ys x := by
  induction ss generalizing ls ys acc with
  | nil => simp [interpolateAux, isum]
  | cons s ss ih =>
    cases ls with
    | nil => simp [interpolateAux, isum]
    | cons l ls =>
      cases ys with
      | nil => simp [interpolateAux, isum]
      | cons y ys =>
        simp only [interpolateAux, isum, ih, eval_padd, eval_pscale]; ring

theorem interpolateAux_length (ss : List F) (ls : List (List F)) (ys acc : List F) (n : Nat)
    (h : ∀ l ∈ ls, l.length ≤ n) (ha : acc.length ≤ n) :
    (interpolateAux ss ls ys acc).length ≤ n := by
  induction ss generalizing ls ys acc with
  | nil => simpa [interpolateAux]
  | cons s ss ih =>
    cases ls with
    | nil => simpa [interpolateAux]
    | cons l ls =>
      cases ys with
      | nil => simpa [interpolateAux]
      | cons y ys =>
        simp only [interpolateAux]
        apply ih _ _ _ (fun q hq => h q (by simp [hq]))
        rw [padd_len, pscale_len]
        exact max_le ha (h l (by simp))

theorem langAll_length (pre rest : List F) :
    ∀ l ∈ langAll pre rest, l.length ≤ pre.length + rest.length := by
  induction rest generalizing pre with
  | nil => simp [langAll]
  | cons xj post ih =>
    intro l hl
    simp only [langAll, List.mem_cons] at hl
    rcases hl with hl | hl
    · rw [hl, vanishing_length]; simp
    · have := ih (pre ++ [xj]) l hl
      simp at this ⊢; omega

theorem scaAll_ne_zero (pre rest : List F) (hnd : (pre ++ rest).Nodup) :
    ∀ s ∈ scaAll pre rest, s ≠ 0 := by
  induction rest generalizing pre with
  | nil => simp [scaAll]
  | cons xj post ih =>
    intro s hs
    simp only [scaAll, List.mem_cons] at hs
    have hmid := (List.nodup_middle.1 hnd)
    rcases hs with hs | hs
    · rw [hs, foldl_mul_eq_prodLin, one_mul]
      exact prodLin_ne_zero_of_not_mem _ _ (List.nodup_cons.1 hmid).1
    · exact ih (pre ++ [xj]) (by simpa using hnd) s hs

/-- the Lagrange property of the interpolant the verifier builds: zero on the points already
passed, the prescribed value on each remaining point -/
theorem lagrange_aux (pre rest ys : List F) (hnd : (pre ++ rest).Nodup)
    (hlen : ys.length = rest.length) :
    (∀ a ∈ pre, isum ((scaAll pre rest).map (·⁻¹)) (langAll pre rest) ys a = 0) ∧
    (∀ t (h1 : t < rest.length) (h2 : t < ys.length),
      isum ((scaAll pre rest).map (·⁻¹)) (langAll pre rest) ys rest[t] = ys[t]) := by
  induction rest generalizing pre ys with
  | nil => exact ⟨fun a _ => by simp [scaAll, langAll, isum], fun t h1 => by simp at h1⟩
  | cons xj post ih =>
    cases ys with
    | nil => simp at hlen
    | cons y ys =>
      have hmid := List.nodup_cons.1 (List.nodup_middle.1 hnd)
      have hnd' : ((pre ++ [xj]) ++ post).Nodup := by simpa using hnd
      obtain ⟨ih1, ih2⟩ := ih (pre ++ [xj]) ys hnd' (by simpa using hlen)
      simp only [scaAll, langAll, List.map_cons, isum, eval_vanishing, foldl_mul_eq_prodLin, one_mul]
      constructor
      · intro a ha
        rw [prodLin_eq_zero_of_mem (pre ++ post) a (by simp [ha]), ih1 a (by simp [ha])]
        ring
      · intro t h1 h2
        cases t with
        | zero =>
          simp only [List.getElem_cons_zero]
          rw [ih1 xj (by simp)]
          have hne := prodLin_ne_zero_of_not_mem _ _ hmid.1
          field_simp
          ring
        | succ t =>
          simp only [List.getElem_cons_succ]
          have ht : t < post.length := by simpa using h1
          have hmem : post[t] ∈ pre ++ post := by
            apply List.mem_append_right
            exact List.getElem_mem _
          rw [prodLin_eq_zero_of_mem _ _ hmem, ih2 t (by simpa using h1) (by simpa using h2)]
          ring

theorem interpolate_length (pts evals : List F) :
    (interpolate pts evals).length ≤ pts.length := by
  unfold interpolate
  apply interpolateAux_length
  · intro l hl
    have := langAll_length [] pts l hl
    simpa using this
  · simp

/-- the interpolant takes the prescribed values on the points -/
theorem interpolate_eval (pts ys : List F) (hnd : pts.Nodup) (hlen : ys.length = pts.length)
    (t : Nat) (h1 : t < pts.length) (h2 : t < ys.length) :
    evalPoly (interpolate pts ys) pts[t] = ys[t] := by
  unfold interpolate
  rw [eval_interpolateAux]
  have := (lagrange_aux [] pts ys (by simpa using hnd) hlen).2 t h1 h2
  simp [this]

end SKZG
end PCV
