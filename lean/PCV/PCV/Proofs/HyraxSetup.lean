/-
  PCV.Proofs.HyraxSetup — inversion of `Hyrax.setup` (`Model/HyraxSetup.lean`).
-/
import PCV.Proofs.Hyrax
import PCV.Model.HyraxSetup

namespace PCV.Hyrax
/-- inversion of `setup` -/
theorem setup_inv {F : Type} (gen : Nat → F) (n : Nat) (pp : UParams F) (h : setup gen (some n) = .ok pp) :
    n % 2 = 0 ∧ pp = ⟨(List.range (2 ^ (n / 2))).map gen, gen (2 ^ (n / 2))⟩ := by
  by_cases hn : n % 2 = 1
  · simp [setup, hn] at h
  · simp only [setup, hn, if_false, Except.ok.injEq, setupCounters] at h
    exact ⟨by omega, h.symm⟩
end PCV.Hyrax
