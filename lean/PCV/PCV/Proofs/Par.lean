/-
  PCV.Proofs.Par — schedule independence of the parallel iterator models of `PCV.Model.Par`.
-/
import PCV.Model.Par
import Mathlib.Algebra.Field.Defs

namespace PCV
namespace Par

variable {α β γ : Type}

/-! ### reductions -/

/-- folding from `x` = combining `x` with the fold from the identity -/
theorem foldl_eq_op_foldl (f : α → α → α) (e : α)
    (assoc : ∀ a b c, f (f a b) c = f a (f b c)) (left_id : ∀ a, f e a = a)
    (right_id : ∀ a, f a e = a) (x : α) (xs : List α) :
    xs.foldl f x = f x (xs.foldl f e) := by
  induction xs generalizing x with
  | nil => simp [right_id]
  | cons y ys ih =>
    simp only [List.foldl_cons]
    rw [ih (f x y), ih (f e y), left_id, assoc]

theorem foldl_append_monoid (f : α → α → α) (e : α)
    (assoc : ∀ a b c, f (f a b) c = f a (f b c)) (left_id : ∀ a, f e a = a)
    (right_id : ∀ a, f a e = a) (xs ys : List α) :
    (xs ++ ys).foldl f e = f (xs.foldl f e) (ys.foldl f e) := by
  rw [List.foldl_append, foldl_eq_op_foldl f e assoc left_id right_id (xs.foldl f e) ys]

/-- **Every work-splitting tree gives the sequential fold** for an associative operation with a
two-sided identity. -/
theorem parReduce_eq_foldl (s : Shape) (f : α → α → α) (e : α)
    (assoc : ∀ a b c, f (f a b) c = f a (f b c)) (left_id : ∀ a, f e a = a)
    (right_id : ∀ a, f a e = a) (xs : List α) :
    parReduce s f e xs = xs.foldl f e := by
  induction s generalizing xs with
  | leaf => rfl
  | node k l r ihl ihr =>
    simp only [parReduce]
    rw [ihl, ihr, ← foldl_append_monoid f e assoc left_id right_id, List.take_append_drop]

/-- two schedules agree -/
theorem parReduce_shape_irrelevant (s t : Shape) (f : α → α → α) (e : α)
    (assoc : ∀ a b c, f (f a b) c = f a (f b c)) (left_id : ∀ a, f e a = a)
    (right_id : ∀ a, f a e = a) (xs : List α) :
    parReduce s f e xs = parReduce t f e xs := by
  rw [parReduce_eq_foldl s f e assoc left_id right_id, parReduce_eq_foldl t f e assoc left_id right_id]

section field
variable {F : Type} [Field F]

/-- `.sum()` over a field (and over a group written in exponent form) -/
theorem parReduce_add (s : Shape) (xs : List F) :
    parReduce s (· + ·) 0 xs = xs.foldl (· + ·) 0 :=
  parReduce_eq_foldl s (· + ·) 0 (fun a b c => add_assoc a b c) (fun a => zero_add a)
    (fun a => add_zero a) xs

/-- `.product()` over a field -/
theorem parReduce_mul (s : Shape) (xs : List F) :
    parReduce s (· * ·) 1 xs = xs.foldl (· * ·) 1 :=
  parReduce_eq_foldl s (· * ·) 1 (fun a b c => mul_assoc a b c) (fun a => one_mul a)
    (fun a => mul_one a) xs

end field

/-! ### index-preserving map / collect -/

theorem parMap_eq_map (s : Shape) (g : α → β) (xs : List α) : parMap s g xs = xs.map g := by
  induction s generalizing xs with
  | leaf => rfl
  | node k l r ihl ihr =>
    simp only [parMap]
    rw [ihl, ihr, ← List.map_append, List.take_append_drop]

theorem mapIdxFrom_append (g : Nat → α → β) (off : Nat) (xs ys : List α) :
    mapIdxFrom g off (xs ++ ys) = mapIdxFrom g off xs ++ mapIdxFrom g (off + xs.length) ys := by
  induction xs generalizing off with
  | nil => simp [mapIdxFrom]
  | cons x xs ih =>
    simp only [List.cons_append, mapIdxFrom, List.length_cons, ih]
    have : off + 1 + xs.length = off + (xs.length + 1) := by omega
    rw [this]

theorem parMapIdx_eq (s : Shape) (g : Nat → α → β) (off : Nat) (xs : List α) :
    parMapIdx s g off xs = mapIdxFrom g off xs := by
  induction s generalizing xs off with
  | leaf => rfl
  | node k l r ihl ihr =>
    simp only [parMapIdx]
    rw [ihl, ihr, ← mapIdxFrom_append, List.take_append_drop]

/-- the sequential reference `mapIdxFrom` is `enumerate().map(..)`: element `j` is `g (off+j) xs[j]` -/
theorem mapIdxFrom_getElem? (g : Nat → α → β) (off : Nat) (xs : List α) (j : Nat) :
    (mapIdxFrom g off xs)[j]? = (xs[j]?).map (g (off + j)) := by
  induction xs generalizing off j with
  | nil => simp [mapIdxFrom]
  | cons x xs ih =>
    cases j with
    | zero => simp [mapIdxFrom]
    | succ j =>
      simp only [mapIdxFrom, List.getElem?_cons_succ, ih]
      have : off + 1 + j = off + (j + 1) := by omega
      rw [this]

/-! ### unzip -/

theorem parUnzip_eq_unzip (s : Shape) (g : α → β × γ) (xs : List α) :
    parUnzip s g xs = (xs.map g).unzip := by
  induction s generalizing xs with
  | leaf => rfl
  | node k l r ihl ihr =>
    simp only [parUnzip, appendPair]
    rw [ihl, ihr]
    simp only [List.unzip_eq_map, ← List.map_append, List.take_append_drop]

/-! ### `for_each` over disjoint cells -/

theorem applyAt_length (u : Nat → α → α) (v : List α) (i : Nat) :
    (applyAt u v i).length = v.length := by
  unfold applyAt
  cases h : v[i]? <;> simp [Option.elim]

theorem applyAt_getElem? (u : Nat → α → α) (v : List α) (i j : Nat) :
    (applyAt u v i)[j]? = if j = i then (v[j]?).map (u j) else v[j]? := by
  unfold applyAt
  cases h : v[i]? with
  | none =>
    simp only [Option.elim]
    split
    · next hji => subst hji; simp [h]
    · rfl
  | some x =>
    simp only [Option.elim, List.getElem?_set]
    split
    · next hij =>
      subst hij
      obtain ⟨hlt, hx⟩ := List.getElem?_eq_some_iff.mp h
      subst hx
      simp [hlt]
    · next hij =>
      have : ¬ j = i := fun e => hij e.symm
      simp [this]

/-- cell `j` after running the closure calls in `order` (each index at most once): updated once if
`j` occurs, untouched otherwise -/
theorem forEachDisjoint_getElem? (u : Nat → α → α) (order : List Nat) (hnd : order.Nodup)
    (v : List α) (j : Nat) :
    (forEachDisjoint u order v)[j]? = if j ∈ order then (v[j]?).map (u j) else v[j]? := by
  unfold forEachDisjoint
  induction order generalizing v with
  | nil => simp
  | cons i is ih =>
    simp only [List.foldl_cons]
    have hnd' := List.nodup_cons.mp hnd
    rw [ih hnd'.2, applyAt_getElem?]
    by_cases hji : j = i
    · subst hji
      simp [hnd'.1]
    · simp [hji]

/-- **Any order of the closure calls gives the sequential result**: if `order` enumerates the
indices `0 … n-1` of the vector, each once, the final vector is the pointwise update. -/
theorem forEachDisjoint_eq_mapIdx (u : Nat → α → α) (order : List Nat) (v : List α)
    (hperm : order.Perm (List.range v.length)) :
    forEachDisjoint u order v = mapIdxFrom u 0 v := by
  apply List.ext_getElem?
  intro j
  have hnd : order.Nodup := (hperm.nodup_iff).mpr List.nodup_range
  rw [forEachDisjoint_getElem? u order hnd, mapIdxFrom_getElem?, Nat.zero_add]
  by_cases hj : j < v.length
  · have : j ∈ order := (hperm.mem_iff).mpr (List.mem_range.mpr hj)
    simp [this]
  · have hno : j ∉ order := fun h => hj (List.mem_range.mp ((hperm.mem_iff).mp h))
    have : v[j]? = none := List.getElem?_eq_none (Nat.le_of_not_lt hj)
    simp [hno, this]

theorem forEachDisjoint_eq_seq (u : Nat → α → α) (order : List Nat) (v : List α)
    (hperm : order.Perm (List.range v.length)) :
    forEachDisjoint u order v = forEachSeq u v := by
  unfold forEachSeq
  rw [forEachDisjoint_eq_mapIdx u order v hperm,
    forEachDisjoint_eq_mapIdx u (List.range v.length) v (List.Perm.refl _)]

/-- two schedules of the same `for_each` commute -/
theorem forEachDisjoint_order_irrelevant (u : Nat → α → α) (o₁ o₂ : List Nat) (v : List α)
    (h₁ : o₁.Perm (List.range v.length)) (h₂ : o₂.Perm (List.range v.length)) :
    forEachDisjoint u o₁ v = forEachDisjoint u o₂ v := by
  rw [forEachDisjoint_eq_mapIdx u o₁ v h₁, forEachDisjoint_eq_mapIdx u o₂ v h₂]

end Par
end PCV
