/-
  PCV.Proofs.FoldCommit — `commit_folding` / `open_folding` of `space.rs`: the per-level skip
  offsets `len(srs) - ceil_div(n, 2^i)` align the items of level `i` of the tree iterator with the
  SRS, so the results are the time-efficient commitments / multi-point proofs of the explicitly
  folded polynomials.
-/
import PCV.Proofs.Fold
import PCV.Proofs.StreamKZGMulti

set_option linter.unusedSectionVars false

namespace PCV
namespace Fold
variable {F : Type} [Field F]
open SKZG

theorem msmStrict_eq_dot (bs cs : List F) (acc : F) (h : cs.length ≤ bs.length) :
    msmStrict bs cs acc = .ok (acc + dot bs cs) := by
  induction cs generalizing bs acc with
  | nil => cases bs <;> simp [msmStrict]
  | cons c cs ih =>
    cases bs with
    | nil => simp at h
    | cons b bs =>
      simp only [msmStrict, dot_cons]
      rw [ih bs _ (by simpa using h)]
      congr 1; ring

theorem mapExcept_ok {α β : Type} (f : α → Except Err β) (g : α → β) (l : List α)
    (h : ∀ a ∈ l, f a = .ok (g a)) : mapExcept f l = .ok (l.map g) := by
  induction l with
  | nil => rfl
  | cons a l ih =>
    simp only [mapExcept, h a (by simp), ih (fun b hb => h b (by simp [hb])), List.map_cons]

theorem ceil_half (n P : Nat) (hP : 1 ≤ P) :
    ((n + 1) / 2 + P - 1) / P = (n + 2 * P - 1) / (2 * P) := by
  have : (n + 1) / 2 + P - 1 = (n + 2 * P - 1) / 2 := by omega
  rw [this, Nat.div_div_eq_div_mul]

theorem foldAll_length (us cs : List F) :
    (foldAll cs us).length = ceilDiv cs.length (2 ^ us.length) := by
  induction us generalizing cs with
  | nil => simp [foldAll, ceilDiv]
  | cons u us ih =>
    simp only [foldAll, ih, fold_length, ceilDiv, List.length_cons]
    rw [ceil_half _ _ (Nat.two_pow_pos _), pow_succ, Nat.mul_comm]

theorem foldAll_length_le (us cs : List F) : (foldAll cs us).length ≤ cs.length := by
  induction us generalizing cs with
  | nil => simp [foldAll]
  | cons v vs ih =>
    simp only [foldAll]
    have := ih (fold cs v)
    rw [fold_length] at this
    omega

theorem foldings_eq (chal cs : List F) :
    foldings cs chal = (List.range chal.length).map (fun j => foldAll cs (chal.take (j + 1))) := by
  induction chal generalizing cs with
  | nil => rfl
  | cons u us ih =>
    simp only [foldings, List.length_cons, List.range_succ_eq_map, List.map_cons, List.map_map, ih]
    congr 1

/-- **`commit_folding`** returns the MSMs of the explicitly folded polynomials with the key, for every
length and depth and every key at least as long as the input. -/
theorem commitFolding_eq_dot (ck : CK F) (cs chal : List F) (h : cs.length ≤ ck.powersOfG.length) :
    commitFolding (CKS.ofTime ck) cs.reverse chal
      = .ok ((foldings cs chal).map (dot ck.powersOfG)) := by
  unfold commitFolding
  rw [mapExcept_ok _ (fun i => dot ck.powersOfG (foldAll cs (chal.take i)))]
  · rw [foldings_eq]
    simp [List.map_map, Function.comp_def]
  · intro i hi
    obtain ⟨j, hj, rfl⟩ := List.mem_map.1 hi
    have hjd : j < chal.length := List.mem_range.1 hj
    have hlev := tree_level_eq_fold chal cs (j + 1) (by omega) (by omega)
    have hlen : (foldAll cs (chal.take (j + 1))).length = ceilDiv cs.length (2 ^ (j + 1)) := by
      rw [foldAll_length, List.length_take, Nat.min_eq_left (by omega)]
    have hle := foldAll_length_le (chal.take (j + 1)) cs
    simp only [CKS.ofTime, List.length_reverse]
    rw [← hlen, if_neg (by omega), hlev, reverse_drop_sub _ _ (by omega),
      msmStrict_eq_dot _ _ _ (by simp [List.length_take]; omega),
      dot_reverse _ _ (by simp [List.length_take]; omega), dot_take _ _ _ (Nat.le_refl _)]
    simp

/-- … which are the time-efficient commitments (`batch_commit`) of the explicitly folded polynomials:
no folding is longer than the input, so the assertion of `CommitterKey::commit` holds for each. -/
theorem commitFolding_eq (ck : CK F) (cs chal : List F) (h : cs.length ≤ ck.powersOfG.length) :
    ∃ cms, commitFolding (CKS.ofTime ck) cs.reverse chal = .ok cms
      ∧ Time.batchCommit ck (foldings cs chal) = .ok cms := by
  refine ⟨_, commitFolding_eq_dot ck cs chal h, time_batchCommit_eq ck _ ?_⟩
  intro p hp
  rw [foldings_eq] at hp
  obtain ⟨j, _, rfl⟩ := List.mem_map.1 hp
  have hle := foldAll_length_le (chal.take (j + 1)) cs
  omega

/-! ### `open_folding` -/

/-- what `Space.openMultiPoints` returns (remainder window, quotient commitment), as one term -/
def spaceRes (ck : CK F) (p pts : List F) : List F × F :=
  ((Time.divLoop 1 (vanishing pts).reverse.tail (p.length - pts.length)
      (List.replicate (pts.length - p.length) 0 ++ p.reverse)).2,
   dot (ck.powersOfG.reverse.drop (ck.powersOfG.length - p.length + pts.length))
     (Time.divLoop 1 (vanishing pts).reverse.tail (p.length - pts.length)
      (List.replicate (pts.length - p.length) 0 ++ p.reverse)).1)

theorem space_openMulti_res (ck : CK F) (p pts : List F) (hm : 1 ≤ pts.length)
    (hL : p.length ≤ ck.powersOfG.length) :
    Space.openMultiPoints (CKS.ofTime ck) p.reverse pts = .ok (spaceRes ck p pts) := by
  obtain ⟨S, hS, hSl⟩ := vanishing_monic pts
  rw [space_openMulti_eq ck p pts S hS hSl hm hL]
  simp [spaceRes, hS]

theorem ofLoop_eq_divLoop (zs : List F) (η : F) (state rest bases : List F) (acc : F)
    (hs : state.length = zs.length) (hpos : 1 ≤ state.length) (hb : rest.length ≤ bases.length) :
    ofLoop zs η state rest bases acc
      = .ok ((Time.divLoop 1 zs rest.length (state ++ rest)).2,
             acc + η * dot bases (Time.divLoop 1 zs rest.length (state ++ rest)).1) := by
  induction rest generalizing state bases acc with
  | nil => simp [ofLoop, Time.divLoop]
  | cons c cs ih =>
    cases state with
    | nil => simp at hpos
    | cons q st =>
      cases bases with
      | nil => simp at hb
      | cons b bs =>
        have hz : zs.length ≤ (st ++ [c]).length := by simp at hs ⊢; omega
        simp only [ofLoop, List.length_cons, List.cons_append, Time.divLoop, mul_one]
        rw [ih (Time.subPrefix q (st ++ [c]) zs) bs (acc + b * (η * q))
          (by rw [subPrefix_length]; simp at hs ⊢; omega)
          (by rw [subPrefix_length]; simp)
          (by simpa using hb)]
        have : st ++ c :: cs = (st ++ [c]) ++ cs := by simp
        rw [this, subPrefix_append _ _ _ _ hz]
        simp only [dot_cons]
        congr 2
        ring

theorem dot_zeros_append (B q : List F) (m : Nat) :
    dot B (List.replicate m 0 ++ q) = dot (B.drop m) q := by
  induction m generalizing B with
  | zero => simp
  | succ m ih =>
    cases B with
    | nil => simp
    | cons b B => simp [List.replicate_succ, ih B]

/-- one level of `open_folding`: the window started at `m` zeros and fed every coefficient gives the
remainder and `η` times the quotient commitment of the streaming `open_multi_points` -/
theorem ofLoop_level (ck : CK F) (f pts : List F) (η : F) (hm : 1 ≤ pts.length)
    (hL : f.length ≤ ck.powersOfG.length) :
    ofLoop (vanishing pts).reverse.tail η (List.replicate pts.length 0) f.reverse
        (ck.powersOfG.reverse.drop (ck.powersOfG.length - f.length)) 0
      = .ok ((spaceRes ck f pts).1, η * (spaceRes ck f pts).2) := by
  obtain ⟨S, hS, hSl⟩ := vanishing_monic pts
  have hzs : (vanishing pts).reverse.tail = S.reverse := by simp [hS]
  rw [ofLoop_eq_divLoop _ _ _ _ _ _ (by simp [hzs, hSl]) (by simpa using hm)
    (by simp [List.length_drop]; omega)]
  simp only [spaceRes, zero_add, List.length_reverse]
  rcases Nat.lt_or_ge f.length pts.length with hlt | hge
  · -- fewer coefficients than points: only zeros are popped
    have e1 : pts.length = f.length + (pts.length - f.length) := by omega
    have e2 : f.length - pts.length = 0 := by omega
    conv_lhs => rw [e1, divLoop_only_zeros]
    rw [e2]
    simp [Time.divLoop, dot_zeros_right]
  · have e1 : f.length = pts.length + (f.length - pts.length) := by omega
    have e2 : pts.length - f.length = 0 := by omega
    conv_lhs => rw [e1, divLoop_leading_zeros]
    rw [e2]
    simp only [List.replicate_zero, List.nil_append]
    rw [dot_zeros_append, List.drop_drop]
    have : ck.powersOfG.length - f.length + pts.length
        = ck.powersOfG.length - (pts.length + (f.length - pts.length)) + pts.length := by omega
    rw [← e1]

/-- **`open_folding`**: per level the remainder of the streaming `open_multi_points` of the
explicitly folded polynomial, and the single proof `Σᵢ etas[i-1]·πᵢ` of their quotient
commitments. -/
theorem openFolding_eq (ck : CK F) (cs chal pts etas : List F) (hm : 1 ≤ pts.length)
    (hL : cs.length ≤ ck.powersOfG.length) (he : chal.length ≤ etas.length) :
    openFolding (CKS.ofTime ck) cs.reverse chal pts etas
      = .ok ((List.range chal.length).map
              (fun j => (spaceRes ck (foldAll cs (chal.take (j + 1))) pts).1),
            lsum ((List.range chal.length).map
              (fun j => etas.getD j 0 * (spaceRes ck (foldAll cs (chal.take (j + 1))) pts).2))) := by
  unfold openFolding
  dsimp only
  rw [mapExcept_ok _ (fun i => ((spaceRes ck (foldAll cs (chal.take i)) pts).1,
      etas.getD (i - 1) 0 * (spaceRes ck (foldAll cs (chal.take i)) pts).2))]
  · simp [List.map_map, Function.comp_def]
  · intro i hi
    obtain ⟨j, hj, rfl⟩ := List.mem_map.1 hi
    have hjd : j < chal.length := List.mem_range.1 hj
    have hlev := tree_level_eq_fold chal cs (j + 1) (by omega) (by omega)
    have hlen : (foldAll cs (chal.take (j + 1))).length = ceilDiv cs.length (2 ^ (j + 1)) := by
      rw [foldAll_length, List.length_take, Nat.min_eq_left (by omega)]
    have hle := foldAll_length_le (chal.take (j + 1)) cs
    simp only [CKS.ofTime, List.length_reverse]
    rw [← hlen, if_neg (by omega), hlev]
    have hcond : (!(foldAll cs (List.take (j + 1) chal)).reverse.isEmpty
        && decide (etas.length < j + 1)) = false := by
      have : ¬ (etas.length < j + 1) := by omega
      simp [this]
    rw [hcond]
    simp only [Bool.false_eq_true, if_false]
    exact ofLoop_level ck _ pts _ hm (by omega)

/-- `open_folding` against both multi-point provers on the explicitly folded polynomials -/
theorem openFolding_consistent [DecidableEq F] (ck : CK F) (cs chal pts etas : List F)
    (hm : 1 ≤ pts.length) (hL : cs.length ≤ ck.powersOfG.length) (he : chal.length ≤ etas.length) :
    ∃ R : List (List F × F), R.length = chal.length ∧
      (∀ j (hj : j < R.length),
        Space.openMultiPoints (CKS.ofTime ck) (foldAll cs (chal.take (j + 1))).reverse pts = .ok R[j]
        ∧ Time.openMultiPoints ck (foldAll cs (chal.take (j + 1))) pts = .ok R[j].2) ∧
      openFolding (CKS.ofTime ck) cs.reverse chal pts etas
        = .ok (R.map (·.1),
            lsum ((List.range chal.length).map (fun j => etas.getD j 0 * (R.getD j ([], 0)).2))) := by
  refine ⟨(List.range chal.length).map (fun j => spaceRes ck (foldAll cs (chal.take (j + 1))) pts),
    by simp, ?_, ?_⟩
  · intro j hj
    have hjd : j < chal.length := by simpa using hj
    have hle := foldAll_length_le (chal.take (j + 1)) cs
    have hsp := space_openMulti_res ck (foldAll cs (chal.take (j + 1))) pts hm (by omega)
    obtain ⟨r, hr1, hr2⟩ := space_openMulti_proof_eq_time ck (foldAll cs (chal.take (j + 1))) pts hm
      (by omega)
    rw [hsp] at hr1
    injection hr1 with hr1
    simp only [List.getElem_map, List.getElem_range]
    exact ⟨hsp, by rw [hr1]; exact hr2⟩
  · rw [openFolding_eq ck cs chal pts etas hm hL he]
    simp only [List.map_map, Function.comp_def]
    congr 3
    apply List.map_congr_left
    intro j hj
    have hjd : j < chal.length := List.mem_range.1 hj
    simp [List.getD, hjd]

end Fold
end PCV
