/-
  PCV.Proofs.MarlinLC — a linear combination of honestly committed (unbounded) polynomials is itself
  an honestly committed polynomial, whose evaluation is the combination of the evaluations; the
  degree-bound policy refuses combinations that would drop a bound.
-/
import PCV.Model.MarlinLC
import PCV.Proofs.MarlinMore
set_option linter.unusedSectionVars false

namespace PCV
namespace Marlin
variable {F : Type} [Field F] [DecidableEq F]

theorem foldl_lookup {α : Type} (lbl : α → Label) (l : Label) (xs : List α) (x : α) (acc : Option α)
    (h : xs.foldl (fun acc x => if lbl x = l then some x else acc) acc = some x) :
    acc = some x ∨ (x ∈ xs ∧ lbl x = l) := by
  induction xs generalizing acc with
  | nil => left; simpa using h
  | cons y ys ih =>
    simp only [List.foldl_cons] at h
    rcases ih _ h with h1 | ⟨h1, h2⟩
    · by_cases hy : lbl y = l
      · rw [if_pos hy] at h1
        injection h1 with h1
        subst h1
        right; exact ⟨by simp, hy⟩
      · rw [if_neg hy] at h1
        left; exact h1
    · right; exact ⟨by simp [h1], h2⟩

theorem lookupLast_mem {α : Type} (lbl : α → Label) (l : Label) (xs : List α) (x : α)
    (h : lookupLast lbl l xs = some x) : x ∈ xs ∧ lbl x = l := by
  unfold lookupLast at h
  rcases foldl_lookup lbl l xs x none h with h1 | h1
  · cases h1
  · exact h1

/-- the invariant of the prover's combination loop on unbounded honest inputs -/
def LCInv (g γ β : F) (a : LCAcc F) : Prop :=
  a.bound = none ∧ a.shifted = none ∧ a.rand.shifted = none ∧
  a.comm = g * evalPoly a.poly β + γ * evalPoly a.rand.rand β

/-- the part of a combination's value contributed by polynomial terms, at the point `z` -/
def lcPolyValue (trips : List (Trip' F)) (z : F) : List (F × LC.LCTerm) → F
  | [] => 0
  | t :: ts =>
    (match t.2 with
     | .one => 0
     | .poly l => match lookupLast (fun (t : Trip' F) => t.1.label) l trips with
       | none => 0
       | some x => t.1 * evalPoly x.1.poly z) + lcPolyValue trips z ts

theorem lcStep_inv {g γ β : F} {D : Nat} (trips : List (Trip' F))
    (hh : ∀ t ∈ trips, Honest g γ β D t ∧ t.1.bound = none) (k : Nat) (acc acc' : LCAcc F)
    (term : F × LC.LCTerm) (hi : LCInv g γ β acc) (hs : lcStep trips k acc term = .ok acc') (z : F) :
    LCInv g γ β acc' ∧
      evalPoly acc'.poly z = evalPoly acc.poly z + lcPolyValue trips z [term] := by
  unfold lcStep at hs
  cases ht : term.2 with
  | one =>
    rw [ht] at hs
    simp only at hs
    injection hs with hs; subst hs
    exact ⟨hi, by simp [lcPolyValue, ht]⟩
  | poly l =>
    rw [ht] at hs
    simp only at hs
    cases hl : lookupLast (fun (t : Trip' F) => t.1.label) l trips with
    | none => rw [hl] at hs; cases hs
    | some x =>
      obtain ⟨p, st, c⟩ := x
      rw [hl] at hs
      simp only at hs
      obtain ⟨hmem, _⟩ := lookupLast_mem _ l trips (p, st, c) hl
      obtain ⟨⟨hb, hc, hbs, hbc, _⟩, hpb⟩ := hh (p, st, c) hmem
      simp only at hb hc hbs hbc hpb
      have hstn : st.shifted = none := by
        rw [hpb] at hbs
        cases hx : st.shifted with
        | none => rfl
        | some _ => rw [hx] at hbs; simp at hbs
      have hcn : c.comm.shifted = none := by
        rw [hpb] at hbc
        cases hx : c.comm.shifted with
        | none => rfl
        | some _ => rw [hx] at hbc; simp at hbc
      have hnb : ¬ (p.bound.isSome = true) := by rw [hpb]; simp
      rw [if_neg (by intro hx; exact hnb hx.2), if_neg hnb] at hs
      injection hs with hs
      subst hs
      obtain ⟨i1, i2, i3, i4⟩ := hi
      refine ⟨⟨?_, ?_, ?_, ?_⟩, ?_⟩
      · simp only [LCAcc.addComm]; exact i1
      · simp only [LCAcc.addComm, hcn]; exact i2
      · simp only [LCAcc.addComm, Rand.addScaled, i3, hstn]; rfl
      · simp only [LCAcc.addComm, Rand.addScaled, eval_padd, eval_pscale, hc, i4]; ring
      · simp only [LCAcc.addComm, eval_padd, eval_pscale, lcPolyValue, ht, hl]; ring

theorem go_inv {g γ β : F} {D : Nat} (trips : List (Trip' F))
    (hh : ∀ t ∈ trips, Honest g γ β D t ∧ t.1.bound = none) (lc : LC.LinComb F)
    (terms : List (F × LC.LCTerm)) (acc acc' : LCAcc F) (hi : LCInv g γ β acc)
    (hs : combineLC.go trips lc acc terms = .ok acc') (z : F) :
    LCInv g γ β acc' ∧ evalPoly acc'.poly z = evalPoly acc.poly z + lcPolyValue trips z terms := by
  induction terms generalizing acc with
  | nil =>
    simp only [combineLC.go] at hs
    injection hs with hs; subst hs
    exact ⟨hi, by simp [lcPolyValue]⟩
  | cons t ts ih =>
    simp only [combineLC.go] at hs
    split at hs
    · cases hs
    · rename_i acc1 h1
      obtain ⟨hi1, hv1⟩ := lcStep_inv trips hh _ acc acc1 t hi h1 z
      obtain ⟨hi2, hv2⟩ := ih acc1 hi1 hs
      refine ⟨hi2, ?_⟩
      rw [hv2, hv1]
      simp only [lcPolyValue]; ring

/-- **C06 core.** The combination of honestly committed unbounded polynomials is an honestly
committed polynomial (so `C01.marlin_complete` applies to it), and it evaluates to the
combination of the evaluations. -/
theorem combineLC_honest {g γ β : F} {D : Nat} (trips : List (Trip' F))
    (hh : ∀ t ∈ trips, Honest g γ β D t ∧ t.1.bound = none) (lc : LC.LinComb F)
    (res : Trip' F) (hc : combineLC trips lc = .ok res) (z : F) :
    Honest g γ β D res ∧ res.1.bound = none ∧
      evalPoly res.1.poly z = lcPolyValue trips z lc.terms := by
  unfold combineLC at hc
  split at hc
  · cases hc
  · rename_i a ha
    injection hc with hc; subst hc
    obtain ⟨⟨i1, i2, i3, i4⟩, hv⟩ := go_inv trips hh lc lc.terms _ a
      ⟨rfl, rfl, rfl, by simp⟩ ha z
    refine ⟨⟨rfl, i4, ?_, ?_, ?_⟩, i1, by simpa using hv⟩
    · simp only [i1, i3]
      rfl
    · simp only [i1, i2]
      rfl
    · intro d rs s hd; simp only [i1] at hd; cases hd

/-- the assignment "label ↦ evaluation at `z` of the committed polynomial with that label" -/
def evalAssign (trips : List (Trip' F)) (z : F) (l : Label) : F :=
  match lookupLast (fun (t : Trip' F) => t.1.label) l trips with
  | none => 0
  | some x => evalPoly x.1.poly z

/-- the value the verifier assigns to a combination = polynomial part + constants, i.e. the
`LC.value` of the combination under the assignment "label ↦ evaluation of that polynomial" -/
theorem lc_value_split (trips : List (Trip' F)) (z : F) (lc : LC.LinComb F)
    (hall : ∀ t ∈ lc.terms, ∀ l, t.2 = .poly l →
      (lookupLast (fun (t : Trip' F) => t.1.label) l trips).isSome) :
    LC.value lc (evalAssign trips z) = lcPolyValue trips z lc.terms + lcConstant lc := by
  unfold LC.value lcConstant
  generalize lc.terms = ts at hall
  induction ts with
  | nil => simp [LC.termsValue, lcPolyValue]
  | cons t ts ih =>
    have := ih (fun t' ht' => hall t' (by simp [ht']))
    simp only [LC.termsValue, lcPolyValue, List.foldr_cons]
    rw [this]
    cases ht : t.2 with
    | one => simp only [LC.termVal]; ring
    | poly l =>
      simp only [LC.termVal, evalAssign]
      cases hl : lookupLast (fun (t : Trip' F) => t.1.label) l trips with
      | none => simp
      | some x => simp only; ring

/-- **Degree-bound policy.** A combination with more than one term that names a degree-bounded
polynomial is refused with `EquationHasDegreeBounds`; a single bounded term must have coefficient
one (abort otherwise). -/
theorem lcStep_policy (trips : List (Trip' F)) (k : Nat) (acc : LCAcc F) (coeff : F) (l : Label)
    (x : Trip' F) (hl : lookupLast (fun (t : Trip' F) => t.1.label) l trips = some x)
    (hb : x.1.bound.isSome = true) :
    (k ≠ 1 → lcStep trips k acc (coeff, .poly l) = .error .equationHasDegreeBounds) ∧
    (k = 1 → coeff ≠ 1 → lcStep trips k acc (coeff, .poly l) = .error .abort) := by
  obtain ⟨p, st, c⟩ := x
  constructor
  · intro hk
    unfold lcStep
    simp only [hl]
    rw [if_neg (by intro hx; exact hk hx.1), if_pos hb]
  · intro hk hc
    unfold lcStep
    simp only [hl]
    rw [if_pos ⟨hk, hb⟩, if_pos hc]

end Marlin
end PCV
