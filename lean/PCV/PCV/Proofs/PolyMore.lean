/-
  PCV.Proofs.PolyMore — further list-algebra lemmas (powers windows, normalised lengths).
-/
import PCV.Proofs.Poly
set_option linter.unusedSectionVars false

namespace PCV
variable {F : Type} [Field F] [DecidableEq F]

theorem powers_drop (g β : F) (n k : Nat) :
    (powers g β n).drop k = powers (g * fpow β k) β (n - k) := by
  induction k generalizing g n with
  | zero => simp [fpow]
  | succ k ih =>
    cases n with
    | zero => simp [powers]
    | succ n =>
      simp only [powers, List.drop_succ_cons, Nat.succ_sub_succ]
      rw [ih]; congr 1; simp only [fpow]; ring

theorem powers_take (g β : F) (n k : Nat) :
    (powers g β n).take k = powers g β (min k n) := by
  induction k generalizing g n with
  | zero => simp [powers]
  | succ k ih =>
    cases n with
    | zero => simp [powers]
    | succ n =>
      simp only [powers, List.take_succ_cons, Nat.succ_min_succ]
      rw [ih]

theorem powers_getD (g β : F) (n k : Nat) (h : k < n) :
    getD' (powers g β n) k 0 = g * fpow β k := by
  induction k generalizing g n with
  | zero =>
    cases n with
    | zero => omega
    | succ n => simp [powers, getD', fpow]
  | succ k ih =>
    cases n with
    | zero => omega
    | succ n =>
      have := ih (β * g) n (by omega)
      simp only [getD', powers, List.getElem?_cons_succ, fpow] at this ⊢
      rw [this]; ring

theorem powers_head (g β : F) (n : Nat) (h : 0 < n) : (powers g β n).headD 0 = g := by
  cases n with
  | zero => omega
  | succ n => simp [powers]

/-! ### lengths after normalisation -/

theorem pnorm_eq_nil_iff (p : List F) : pnorm p = [] ↔ ∀ c ∈ p, c = 0 := by
  induction p with
  | nil => simp [pnorm]
  | cons c cs ih =>
    constructor
    · intro h
      obtain ⟨hc, hcs⟩ := pnorm_nil_cons c cs h
      intro x hx
      rcases List.mem_cons.1 hx with rfl | hx
      · exact hc
      · exact ih.1 hcs x hx
    · intro h
      have hcs := ih.2 (fun x hx => h x (List.mem_cons_of_mem _ hx))
      simp [pnorm, hcs, h c (by simp)]

/-- coefficient access with default 0 -/
def coeff (p : List F) (i : Nat) : F := (p[i]?).getD 0

@[simp] theorem coeff_nil (i : Nat) : coeff ([] : List F) i = 0 := by simp [coeff]
@[simp] theorem coeff_cons_zero (c : F) (cs : List F) : coeff (c :: cs) 0 = c := by simp [coeff]
@[simp] theorem coeff_cons_succ (c : F) (cs : List F) (i : Nat) :
    coeff (c :: cs) (i + 1) = coeff cs i := by simp [coeff]

theorem coeff_of_mem_zero (p : List F) (h : ∀ c ∈ p, c = 0) (i : Nat) : coeff p i = 0 := by
  induction p generalizing i with
  | nil => simp
  | cons c cs ih =>
    cases i with
    | zero => simpa using h c (by simp)
    | succ i => simpa using ih (fun x hx => h x (List.mem_cons_of_mem _ hx)) i

/-- `pnorm p` has length ≤ n iff all coefficients from index n on vanish -/
theorem pnorm_len_le_iff (p : List F) (n : Nat) :
    (pnorm p).length ≤ n ↔ ∀ i, n ≤ i → coeff p i = 0 := by
  induction p generalizing n with
  | nil => simp [pnorm]
  | cons c cs ih =>
    by_cases hcs : pnorm cs = []
    · have hz := (pnorm_eq_nil_iff cs).1 hcs
      have hcs0 : ∀ i, coeff cs i = 0 := coeff_of_mem_zero cs hz
      by_cases hc : c = 0
      · have : pnorm (c :: cs) = [] := by simp [pnorm, hcs, hc]
        rw [this]
        constructor
        · intro _ i _
          cases i with
          | zero => simp [hc]
          | succ i => simp [hcs0 i]
        · intro _; simp
      · have : pnorm (c :: cs) = [c] := by simp [pnorm, hcs, hc]
        rw [this]
        constructor
        · intro hn i hi
          cases i with
          | zero => simp at hn; omega
          | succ i => simp [hcs0 i]
        · intro h
          cases n with
          | zero => have := h 0 (le_refl _); simp at this; exact absurd this hc
          | succ n => simp
    · have hl : pnorm (c :: cs) = c :: pnorm cs := by
        cases hq : pnorm cs with
        | nil => exact absurd hq hcs
        | cons a as => simp only [pnorm, hq]
      rw [hl]
      cases n with
      | zero =>
        constructor
        · intro h; simp at h
        · intro h
          exfalso
          have h0 := (ih 0).2 (fun i _ => by have := h (i + 1) (by omega); simpa using this)
          exact hcs (List.eq_nil_of_length_eq_zero (Nat.le_zero.1 h0))
      | succ n =>
        simp only [List.length_cons, Nat.succ_le_succ_iff]
        rw [ih n]
        constructor
        · intro h i hi
          cases i with
          | zero => omega
          | succ i => simpa using h i (by omega)
        · intro h i hi
          have := h (i + 1) (by omega)
          simpa using this

theorem padd_coeff (p q : List F) (i : Nat) :
    coeff (padd p q) i = coeff p i + coeff q i := by
  induction p generalizing q i with
  | nil => simp [padd]
  | cons a p ih =>
    cases q with
    | nil => simp [padd]
    | cons b q =>
      cases i with
      | zero => simp [padd]
      | succ i => simp [padd, ih q i]

theorem pscale_coeff (c : F) (p : List F) (i : Nat) :
    coeff (pscale c p) i = c * coeff p i := by
  induction p generalizing i with
  | nil => simp [pscale]
  | cons a p ih =>
    cases i with
    | zero => simp [pscale]
    | succ i => have := ih i; simp only [pscale] at this; simp [pscale, this]

theorem pnorm_padd_le (p q : List F) (n : Nat) (hp : (pnorm p).length ≤ n)
    (hq : (pnorm q).length ≤ n) : (pnorm (padd p q)).length ≤ n := by
  rw [pnorm_len_le_iff] at hp hq ⊢
  intro i hi
  rw [padd_coeff, hp i hi, hq i hi]; ring

theorem pnorm_pscale_le (c : F) (p : List F) (n : Nat) (hp : (pnorm p).length ≤ n) :
    (pnorm (pscale c p)).length ≤ n := by
  rw [pnorm_len_le_iff] at hp ⊢
  intro i hi
  rw [pscale_coeff, hp i hi]; ring

theorem pnorm_nil_le (n : Nat) : (pnorm ([] : List F)).length ≤ n := by simp [pnorm]

/-- dot with a shifted power window -/
theorem dot_powers_shift (p : List F) (g β : F) (k n : Nat) (h : (pnorm p).length ≤ n) :
    dot p (powers (g * fpow β k) β n) = g * fpow β k * evalPoly p β :=
  dot_powers' p (g * fpow β k) β n h

end PCV
