/-
  PCV.Proofs.KZG10Domain — the domain of `KZG10::commit` / `open`: refusal outside, success inside.
-/
import PCV.Proofs.KZG10
set_option linter.unusedSectionVars false

namespace PCV
namespace KZG
variable {F : Type} [Field F] [DecidableEq F]

theorem pnorm_of_last_ne_zero (r : List F) (h : r.getLast? ≠ some 0) (hne : r ≠ []) :
    pnorm r = r := by
  induction r with
  | nil => exact absurd rfl hne
  | cons c cs ih =>
    cases cs with
    | nil =>
      simp only [List.getLast?_singleton, ne_eq, Option.some.injEq] at h
      simp [pnorm, h]
    | cons d ds =>
      have h' : (d :: ds).getLast? ≠ some 0 := by simpa [List.getLast?_cons_cons] using h
      have := ih h' (by simp)
      simp only [pnorm] at this ⊢
      rw [this]

/-- the in-domain predicate of `KZG10::commit` (decidable) -/
def InDomainCommit (pw : Powers F) (p : List F) (hb : Option Nat) (rng : Bool) : Prop :=
  pdeg p + 1 ≤ pw.g.length ∧ (∀ h, hb = some h → rng = true ∧ h + 1 < pw.gg.length)

instance (pw : Powers F) (p : List F) (hb : Option Nat) (rng : Bool) :
    Decidable (InDomainCommit pw p hb rng) := by
  unfold InDomainCommit
  cases hb with
  | none => exact decidable_of_iff (pdeg p + 1 ≤ pw.g.length) (by simp)
  | some h =>
    exact decidable_of_iff (pdeg p + 1 ≤ pw.g.length ∧ (rng = true ∧ h + 1 < pw.gg.length))
      (by constructor
          · intro ⟨a, b⟩; exact ⟨a, fun h' e => by cases e; exact b⟩
          · intro ⟨a, b⟩; exact ⟨a, b h rfl⟩)

/-- outside the domain `commit` refuses (never a commitment) -/
theorem commit_refuses (pw : Powers F) (p : List F) (hb : Option Nat) (rng : Bool) (draws : List F)
    (h : ¬ InDomainCommit pw p hb rng) : ∃ e, commit pw p hb rng draws = .error e := by
  unfold InDomainCommit at h
  unfold commit
  by_cases hd : pdeg p + 1 ≤ pw.g.length
  · have hdk : checkDegreeIsTooLarge (pdeg p) pw.g.length = .ok () :=
      (checkDegree_ok _ _).2 (by omega)
    simp only [hdk]
    cases hb with
    | none => exact absurd ⟨hd, fun h' e => by cases e⟩ h
    | some hh =>
      simp only
      cases rng with
      | false => exact ⟨.missingRng, by simp⟩
      | true =>
        simp only [Bool.not_true, Bool.false_eq_true, if_false]
        cases hr : randPoly (hh + 1) draws with
        | none => exact ⟨.abort, rfl⟩
        | some x =>
          obtain ⟨r, rest⟩ := x
          simp only
          obtain ⟨hlen, hlast, _⟩ := randPoly_length (hh + 1) draws r rest hr
          have hn : pnorm r = r := pnorm_of_last_ne_zero r hlast (by
            intro e; rw [e] at hlen; simp at hlen)
          have hdeg : pdeg r = hh + 1 := by unfold pdeg; rw [hn, hlen]; omega
          have hbad : ¬ (hh + 1 < pw.gg.length) := by
            intro hlt; exact h ⟨hd, fun h' e => by cases e; exact ⟨rfl, hlt⟩⟩
          unfold checkHidingBound
          rw [hdeg]
          simp only [Nat.add_eq_zero_iff, one_ne_zero, and_false, if_false]
          rw [if_pos (by omega)]
          exact ⟨_, rfl⟩
  · have : checkDegreeIsTooLarge (pdeg p) pw.g.length = .error .tooManyCoefficients := by
      unfold checkDegreeIsTooLarge; rw [if_pos (by omega)]
    rw [this]; exact ⟨_, rfl⟩

/-- inside the domain `commit` answers (no refusal, no abort), provided the RNG stream yields a
non-zero leading coefficient -/
theorem commit_ok (pw : Powers F) (p : List F) (hb : Option Nat) (rng : Bool) (draws : List F)
    (h : InDomainCommit pw p hb rng)
    (hrng : ∀ hh, hb = some hh → (randPoly (hh + 1) draws).isSome) :
    ∃ x, commit pw p hb rng draws = .ok x := by
  obtain ⟨hd, hh⟩ := h
  unfold commit
  have hdk : checkDegreeIsTooLarge (pdeg p) pw.g.length = .ok () :=
    (checkDegree_ok _ _).2 (by omega)
  simp only [hdk]
  cases hb with
  | none => exact ⟨_, rfl⟩
  | some b =>
    obtain ⟨hr, hlt⟩ := hh b rfl
    subst hr
    simp only [Bool.not_true, Bool.false_eq_true, if_false]
    have := hrng b rfl
    cases hrp : randPoly (b + 1) draws with
    | none => rw [hrp] at this; cases this
    | some x =>
      obtain ⟨r, rest⟩ := x
      simp only
      obtain ⟨hlen, hlast, _⟩ := randPoly_length (b + 1) draws r rest hrp
      have hn : pnorm r = r := pnorm_of_last_ne_zero r hlast (by
        intro e; rw [e] at hlen; simp at hlen)
      have hdeg : pdeg r = b + 1 := by unfold pdeg; rw [hn, hlen]; omega
      unfold checkHidingBound
      rw [hdeg]
      simp only [Nat.add_eq_zero_iff, one_ne_zero, and_false, if_false]
      rw [if_neg (by omega)]
      exact ⟨_, rfl⟩

/-- `open` refuses a polynomial larger than the key -/
theorem open_refuses (pw : Powers F) (p r : List F) (z : F) (h : pdeg p + 1 > pw.g.length) :
    KZG.open pw p z r = .error .tooManyCoefficients := by
  unfold KZG.open checkDegreeIsTooLarge
  rw [if_pos h]

end KZG
end PCV
