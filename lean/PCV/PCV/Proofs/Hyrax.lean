/-
  PCV.Proofs.Hyrax — lemmas about the Hyrax model (`PCV.Model.Hyrax`): inversion of `commitOne` /
  `openOne`, the key identity `mleEval evals point = ⟨Lᵀ·M, R⟩`, the defects of an honest proof,
  `checkLoop = ok true ↔ every item satisfies the relation`, completeness of the loops.
-/
import PCV.Proofs.HyraxMLE

namespace PCV
namespace Hyrax
variable {F : Type} [Field F]

/-! ### tensors of the two halves of the point -/

theorem tensorPrime_length (vs : List F) : (tensorPrime vs).length = 2 ^ vs.length := by
  have := tensorLE_length vs.reverse
  rw [← tensorPrime_reverse, List.reverse_reverse, List.length_reverse] at this
  exact this

theorem tensorL_eq (point : List F) :
    tensorL point = tensorLE (point.take (point.length - point.length / 2)) := by
  unfold tensorL
  rw [List.drop_reverse, tensorPrime_reverse]

theorem tensorR_eq (point : List F) :
    tensorR point = tensorLE (point.drop (point.length - point.length / 2)) := by
  unfold tensorR
  rw [List.take_reverse, tensorPrime_reverse]

theorem tensorL_length (point : List F) (h : point.length % 2 = 0) :
    (tensorL point).length = 2 ^ (point.length / 2) := by
  rw [tensorL_eq, tensorLE_length, List.length_take]
  congr 1; omega

theorem tensorR_length (point : List F) (h : point.length % 2 = 0) :
    (tensorR point).length = 2 ^ (point.length / 2) := by
  rw [tensorR_eq, tensorLE_length, List.length_drop]
  congr 1; omega

/-- `Lᵀ·M` for the column-major matrix of `evals` -/
def ltOf (L evals : List F) (dim : Nat) : List F :=
  (List.range dim).map fun col => dot L (colOf evals dim col)

theorem ltOf_length (L evals : List F) (dim : Nat) : (ltOf L evals dim).length = dim := by
  simp [ltOf]

/-- **Key identity.** For every even number of variables: the multilinear extension of `evals`
at `point` (ark-poly's little-endian `evaluate`) is `Lᵀ·M·R` for the column-major square matrix
`M` of `evals` and the `tensor_prime` vectors of the two halves of the reversed point. -/
theorem mleEval_eq_LMR (evals point : List F) (hn : point.length % 2 = 0)
    (he : evals.length = 2 ^ point.length) :
    mleEval evals point
      = dot (ltOf (tensorL point) evals (2 ^ (point.length / 2))) (tensorR point) := by
  have hk : point.length - point.length / 2 = point.length / 2 := by omega
  have hL := tensorL_length point hn
  have hR := tensorR_length point hn
  rw [mleEval_eq_dot point evals he]
  conv_lhs => rw [← List.take_append_drop (point.length / 2) point, tensorLE_append]
  have hL' : tensorLE (point.take (point.length / 2)) = tensorL point := by rw [tensorL_eq, hk]
  have hR' : tensorLE (point.drop (point.length / 2)) = tensorR point := by rw [tensorR_eq, hk]
  rw [hL', hR']
  have hf : evals.length = 2 ^ (point.length / 2) * (tensorR point).length := by
    rw [he, hR, ← pow_add]; congr 1; omega
  have := dot_cols_outer (tensorL point) (tensorR point) evals (2 ^ (point.length / 2)) hL hf
  rw [hR] at this
  exact this.symm


/-! ### `commit` -/

theorem rowCommits_length (ks : List F) (hh : F) (rows : List (List F)) (ρs : List F) :
    (rowCommits ks hh rows ρs).length = min rows.length ρs.length := by
  simp [rowCommits]

theorem two_pow_pos' (k : Nat) : 0 < 2 ^ k := Nat.pos_of_ne_zero (by simp)

/-- inversion of `commitOne` -/
theorem commitOne_inv (ks : List F) (hh : F) (p : MLPoly F) (ρs c : List F) (st : State F)
    (h : commitOne ks hh p ρs = .ok (c, st)) :
    p.nv % 2 = 0 ∧ ks.length = 2 ^ (p.nv / 2) ∧
    p.evals.length = 2 ^ (p.nv / 2) * 2 ^ (p.nv / 2) ∧ 2 ^ (p.nv / 2) ≤ ρs.length ∧
    c = rowCommits ks hh (rowsOf p.evals (2 ^ (p.nv / 2)) (2 ^ (p.nv / 2))) (ρs.take (2 ^ (p.nv / 2))) ∧
    st = ⟨ρs.take (2 ^ (p.nv / 2)),
          ⟨2 ^ (p.nv / 2), 2 ^ (p.nv / 2), rowsOf p.evals (2 ^ (p.nv / 2)) (2 ^ (p.nv / 2))⟩⟩ := by
  unfold commitOne at h
  simp only at h
  split at h
  · cases h
  · rename_i hodd
    split at h
    · cases h
    · by_cases hlen : p.evals.length = 2 ^ (p.nv / 2) * 2 ^ (p.nv / 2)
      · rw [flatToMatrix_ok _ _ _ hlen] at h
        simp only at h
        split at h
        · cases h
        · rename_i hks
          split at h
          · cases h
          · rename_i hρ
            rw [newFromRows_rowsOf _ _ _ (two_pow_pos' _)] at h
            simp only [Except.ok.injEq, Prod.mk.injEq] at h
            refine ⟨by omega, by simpa using hks, hlen, by omega, h.1.symm, h.2.symm⟩
      · have : flatToMatrixColumnMajor p.evals (2 ^ (p.nv / 2)) (2 ^ (p.nv / 2)) = .error .abort := by
          unfold flatToMatrixColumnMajor; simp [hlen]
        rw [this] at h; cases h

/-- `commitOne` succeeds on every well-formed input -/
theorem commitOne_ok (ks : List F) (hh : F) (p : MLPoly F) (ρs : List F)
    (hn : p.nv % 2 = 0) (hks : ks.length = 2 ^ (p.nv / 2))
    (he : p.evals.length = 2 ^ p.nv) (hρ : 2 ^ (p.nv / 2) ≤ ρs.length) :
    commitOne ks hh p ρs
      = .ok (rowCommits ks hh (rowsOf p.evals (2 ^ (p.nv / 2)) (2 ^ (p.nv / 2))) (ρs.take (2 ^ (p.nv / 2))),
          ⟨ρs.take (2 ^ (p.nv / 2)),
            ⟨2 ^ (p.nv / 2), 2 ^ (p.nv / 2), rowsOf p.evals (2 ^ (p.nv / 2)) (2 ^ (p.nv / 2))⟩⟩) := by
  have hlen : p.evals.length = 2 ^ (p.nv / 2) * 2 ^ (p.nv / 2) := by
    rw [he, ← pow_add]; congr 1; omega
  have hle : ¬ p.nv > ks.length := by
    rw [hks]
    have : p.nv / 2 < 2 ^ (p.nv / 2) := Nat.lt_two_pow_self
    have h2 : 2 ^ (p.nv / 2) ≥ 1 := two_pow_pos' _
    rcases Nat.eq_zero_or_pos (p.nv / 2) with h0 | h0
    · omega
    · have : 2 ^ (p.nv / 2) = 2 * 2 ^ (p.nv / 2 - 1) := by
        rw [← pow_succ']; congr 1; omega
      have h3 : p.nv / 2 - 1 < 2 ^ (p.nv / 2 - 1) := Nat.lt_two_pow_self
      omega
  unfold commitOne
  simp only
  rw [if_neg (by omega), if_neg hle, flatToMatrix_ok _ _ _ hlen]
  simp only
  rw [if_neg (by simp [hks]), if_neg (by omega), newFromRows_rowsOf _ _ _ (two_pow_pos' _)]

/-! ### `open` -/

/-- the honest proof in closed form -/
def honestProof (k0 hh : F) (ks L R ρ lt : List F) (rEval : F) (d : List F) (rD rB ch : F) :
    Proof F :=
  ⟨k0 * dot lt R + hh * rEval, dot ks d + hh * rD, k0 * dot R d + hh * rB,
   vectorSum d (scalarByVector ch lt), ch * dot L ρ + rD, ch * rEval + rB, rEval⟩

/-- inversion of `openOne` on a state produced by `commitOne` -/
theorem openOne_inv (ks : List F) (hh : F) (L R ρ evals : List F) (dim : Nat)
    (rEval : F) (d : List F) (rD rB ch : F) (π : Proof F)
    (h : openOne ks hh L R ⟨ρ, ⟨dim, dim, rowsOf evals dim dim⟩⟩ rEval d rD rB ch = .ok π) :
    L.length = dim ∧ ks.length = d.length ∧ ∃ k0, key0 ks = some k0 ∧
      π = honestProof k0 hh ks L R ρ (ltOf L evals dim) rEval d rD rB ch := by
  unfold openOne at h
  by_cases hL : L.length = dim
  · rw [rowMul_rowsOf _ _ _ _ hL] at h
    simp only at h
    cases hk : key0 ks with
    | none => rw [hk] at h; cases h
    | some k0 =>
      rw [hk] at h
      simp only at h
      split at h
      · cases h
      · rename_i hd
        simp only [Except.ok.injEq] at h
        refine ⟨hL, by simpa using hd, k0, rfl, ?_⟩
        rw [← h]; rfl
  · have : Matrix.rowMul (⟨dim, dim, rowsOf evals dim dim⟩ : Matrix F) L = .error .abort := by
      unfold Matrix.rowMul; simp [hL]
    rw [this] at h; cases h

theorem openOne_ok (ks : List F) (hh : F) (L R ρ evals : List F) (dim : Nat)
    (rEval : F) (d : List F) (rD rB ch k0 : F) (hL : L.length = dim) (hd : ks.length = d.length)
    (hk : key0 ks = some k0) :
    openOne ks hh L R ⟨ρ, ⟨dim, dim, rowsOf evals dim dim⟩⟩ rEval d rD rB ch
      = .ok (honestProof k0 hh ks L R ρ (ltOf L evals dim) rEval d rD rB ch) := by
  unfold openOne
  rw [rowMul_rowsOf _ _ _ _ hL]
  simp only [hk]
  rw [if_neg (by simp [hd])]
  rfl

/-! ### defects of the honest proof against an arbitrary verifier input -/

theorem honest_defectEval (k0 hh : F) (ks L R ρ lt : List F) (rEval : F) (d : List F)
    (rD rB ch v : F) :
    defectEval k0 hh v (honestProof k0 hh ks L R ρ lt rEval d rD rB ch) = k0 * (dot lt R - v) := by
  simp only [defectEval, honestProof]; ring

theorem dot_honest_z (a d lt : List F) (ch : F) (hd : d.length = lt.length) :
    dot a (vectorSum d (scalarByVector ch lt)) = dot a d + ch * dot a lt := by
  unfold vectorSum scalarByVector
  rw [dot_zipWith_add _ _ _ (by simp [hd]), dot_map_mul_right]; ring

theorem honest_defect14 (k0 hh : F) (ks L R ρ lt : List F) (rEval : F) (d : List F)
    (rD rB ch : F) (R' : List F) (c' : F) (hd : d.length = lt.length) :
    defect14 k0 hh R' (honestProof k0 hh ks L R ρ lt rEval d rD rB ch) c'
      = k0 * (dot R' d - dot R d + ch * dot R' lt - c' * dot lt R) + hh * rEval * (ch - c') := by
  simp only [defect14, honestProof, innerProduct]
  rw [dot_honest_z _ _ _ _ hd]; ring

theorem honest_defect13 (k0 hh : F) (ks L R ρ lt : List F) (rEval : F) (d : List F)
    (rD rB ch : F) (L' T : List F) (c' : F) (hd : d.length = lt.length) :
    defect13 ks hh L' T (honestProof k0 hh ks L R ρ lt rEval d rD rB ch) c'
      = ch * (dot ks lt + hh * dot L ρ) - c' * dot T L' := by
  simp only [defect13, honestProof]
  rw [dot_honest_z _ _ _ _ hd]; ring

/-- `⟨T, L⟩` for honest row commitments: the Pedersen commitment to `Lᵀ·M` with blinding `⟨L,ρ⟩` -/
theorem dot_honest_rowComs (ks : List F) (hh : F) (evals ρ L : List F) (dim : Nat)
    (hρ : ρ.length = dim) :
    dot (rowCommits ks hh (rowsOf evals dim dim) ρ) L
      = dot ks (ltOf L evals dim) + hh * dot L ρ := by
  rw [dot_rowCommits _ _ _ _ _ (by rw [rowsOf_length, hρ]), dot_rows_exchange, dot_comm ρ L]
  rfl


/-! ### `check` -/

section Check
variable [DecidableEq F]

theorem preCheck_true_iff (ks : List F) (hh : F) (dim : Nat) (com : List F) (v : F) (π : Proof F) :
    preCheck ks hh dim com v π = .ok true
      ↔ ∃ k0, key0 ks = some k0 ∧ defectEval k0 hh v π = 0 ∧ com.length = dim := by
  unfold preCheck
  cases hk : key0 ks with
  | none => simp
  | some k0 =>
    simp only [Option.some.injEq, exists_eq_left']
    by_cases h1 : defectEval k0 hh v π = 0
    · by_cases h2 : com.length = dim <;> simp [h1, h2]
    · simp [h1]

theorem postCheck_true_iff (ks : List F) (hh : F) (L R com : List F) (π : Proof F) (c : F) :
    postCheck ks hh L R com π c = .ok true
      ↔ ∃ k0, key0 ks = some k0 ∧ defect14 k0 hh R π c = 0 ∧ ks.length = π.z.length ∧
          defect13 ks hh L com π c = 0 := by
  unfold postCheck
  cases hk : key0 ks with
  | none => simp
  | some k0 =>
    simp only [Option.some.injEq, exists_eq_left']
    by_cases h1 : defect14 k0 hh R π c = 0
    · by_cases h2 : ks.length = π.z.length
      · by_cases h3 : defect13 ks hh L com π c = 0 <;> simp [h1, h2, h3]
      · simp [h1, h2]
    · simp [h1]

/-- one (commitment, value, proof, challenge) item passes all tests of `check` -/
def ItemOK (ks : List F) (hh : F) (L R : List F) (dim : Nat) (com : List F) (v : F)
    (π : Proof F) (c : F) : Prop :=
  ∃ k0, key0 ks = some k0 ∧ com.length = dim ∧ ks.length = π.z.length ∧
    defectEval k0 hh v π = 0 ∧ defect14 k0 hh R π c = 0 ∧ defect13 ks hh L com π c = 0

theorem checkLoop_cons_nil (ks : List F) (hh : F) (L R : List F) (dim : Nat) (com : List F)
    (coms : List (List F)) (v : F) (vs : List F) (π : Proof F) (πs : List (Proof F)) :
    checkLoop ks hh L R dim (com :: coms) (v :: vs) (π :: πs) [] ≠ .ok true := by
  unfold checkLoop
  cases preCheck ks hh dim com v π with
  | error e => simp
  | ok b => cases b <;> simp

theorem checkLoop_cons_iff (ks : List F) (hh : F) (L R : List F) (dim : Nat) (com : List F)
    (coms : List (List F)) (v : F) (vs : List F) (π : Proof F) (πs : List (Proof F)) (c : F)
    (cs : List F) :
    checkLoop ks hh L R dim (com :: coms) (v :: vs) (π :: πs) (c :: cs) = .ok true
      ↔ ItemOK ks hh L R dim com v π c ∧ checkLoop ks hh L R dim coms vs πs cs = .ok true := by
  have hitem : ItemOK ks hh L R dim com v π c
      ↔ preCheck ks hh dim com v π = .ok true ∧ postCheck ks hh L R com π c = .ok true := by
    rw [preCheck_true_iff, postCheck_true_iff]
    unfold ItemOK
    constructor
    · rintro ⟨k0, hk, h1, h2, h3, h4, h5⟩
      exact ⟨⟨k0, hk, h3, h1⟩, ⟨k0, hk, h4, h2, h5⟩⟩
    · rintro ⟨⟨k0, hk, h3, h1⟩, ⟨k0', hk', h4, h2, h5⟩⟩
      rw [hk] at hk'
      cases hk'
      exact ⟨k0, hk, h1, h2, h3, h4, h5⟩
  rw [hitem]
  conv_lhs => unfold checkLoop
  cases preCheck ks hh dim com v π with
  | error e => simp
  | ok b =>
    cases b with
    | false => simp
    | true =>
      simp only [true_and]
      cases postCheck ks hh L R com π c with
      | error e => simp
      | ok b' => cases b' <;> simp

theorem checkLoop_iff (ks : List F) (hh : F) (L R : List F) (dim : Nat)
    (coms : List (List F)) (vs : List F) (πs : List (Proof F)) (cs : List F)
    (h1 : coms.length = πs.length) (h2 : vs.length = πs.length) :
    checkLoop ks hh L R dim coms vs πs cs = .ok true
      ↔ πs.length ≤ cs.length ∧
        ∀ x ∈ List.zip coms (List.zip vs (List.zip πs cs)),
          ItemOK ks hh L R dim x.1 x.2.1 x.2.2.1 x.2.2.2 := by
  induction πs generalizing coms vs cs with
  | nil =>
    cases coms with
    | nil => simp [checkLoop]
    | cons _ _ => simp at h1
  | cons π πs ih =>
    cases coms with
    | nil => simp at h1
    | cons com coms =>
      cases vs with
      | nil => simp at h2
      | cons v vs =>
        cases cs with
        | nil =>
          have := checkLoop_cons_nil ks hh L R dim com coms v vs π πs
          simp [this]
        | cons c cs =>
          rw [checkLoop_cons_iff, ih coms vs cs (by simpa using h1) (by simpa using h2)]
          simp only [List.length_cons, Nat.add_le_add_iff_right, List.zip_cons_cons,
            List.forall_mem_cons]
          tauto

theorem check_iff (ks : List F) (hh : F) (coms : List (List F)) (point vs : List F)
    (πs : List (Proof F)) (cs : List F) :
    check ks hh coms point vs πs cs = .ok true
      ↔ point.length % 2 = 0 ∧ coms.length = πs.length ∧ vs.length = πs.length ∧
        πs.length ≤ cs.length ∧
        ∀ x ∈ List.zip coms (List.zip vs (List.zip πs cs)),
          ItemOK ks hh (tensorL point) (tensorR point) (2 ^ (point.length / 2))
            x.1 x.2.1 x.2.2.1 x.2.2.2 := by
  unfold check
  simp only
  by_cases hn : point.length % 2 = 1
  · simp [hn]
  · rw [if_neg hn]
    by_cases hl : coms.length ≠ πs.length ∨ vs.length ≠ πs.length
    · rw [if_pos hl]
      constructor
      · intro h; cases h
      · rintro ⟨_, h1, h2, _⟩
        rcases hl with hl | hl <;> contradiction
    · rw [if_neg hl]
      have h1 : coms.length = πs.length := by
        by_contra h; exact hl (Or.inl h)
      have h2 : vs.length = πs.length := by
        by_contra h; exact hl (Or.inr h)
      rw [checkLoop_iff _ _ _ _ _ _ _ _ _ h1 h2]
      constructor
      · rintro ⟨a, b⟩; exact ⟨by omega, h1, h2, a, b⟩
      · rintro ⟨_, _, _, a, b⟩; exact ⟨a, b⟩

/-- shape refusals of `check` -/
theorem check_odd (ks : List F) (hh : F) (coms : List (List F)) (point vs : List F)
    (πs : List (Proof F)) (cs : List F) (h : point.length % 2 = 1) :
    check ks hh coms point vs πs cs = .error .invalidNumVars := by
  unfold check; simp [h]

theorem check_lengths (ks : List F) (hh : F) (coms : List (List F)) (point vs : List F)
    (πs : List (Proof F)) (cs : List F) (hn : point.length % 2 = 0)
    (h : coms.length ≠ πs.length ∨ vs.length ≠ πs.length) :
    check ks hh coms point vs πs cs = .error .incorrectInputLength := by
  unfold check
  simp only
  rw [if_neg (by omega), if_pos h]

/-! ### honest transcripts -/

omit [DecidableEq F] in
/-- one honest (commit, open) pair passes every test of `check`, with the claimed value being
ark-poly's evaluation of the polynomial; and the shapes are `2^(n/2)`. -/
theorem honest_item_ok (ks : List F) (hh : F) (p : MLPoly F) (ρs c : List F) (st : State F)
    (point : List F) (rEval : F) (d : List F) (rD rB ch : F) (π : Proof F)
    (hn : point.length % 2 = 0)
    (hc : commitOne ks hh p ρs = .ok (c, st))
    (ho : openOne ks hh (tensorL point) (tensorR point) st rEval d rD rB ch = .ok π) :
    ItemOK ks hh (tensorL point) (tensorR point) (2 ^ (point.length / 2)) c
        (mleEval p.evals point) π ch ∧
      c.length = 2 ^ (point.length / 2) ∧ π.z.length = 2 ^ (point.length / 2) ∧
      p.evals.length = 2 ^ point.length := by
  obtain ⟨_, hks, hlen, hρ, rfl, rfl⟩ := commitOne_inv ks hh p ρs c st hc
  obtain ⟨hL, hdl, k0, hk, rfl⟩ := openOne_inv ks hh _ _ _ _ _ rEval d rD rB ch π ho
  have hdim : 2 ^ (p.nv / 2) = 2 ^ (point.length / 2) := by rw [← hL, tensorL_length point hn]
  rw [hdim] at hks hlen hρ hL ho ⊢
  have he : p.evals.length = 2 ^ point.length := by
    rw [hlen, ← pow_add]; congr 1; omega
  have hd : d.length = (ltOf (tensorL point) p.evals (2 ^ (point.length / 2))).length := by
    rw [ltOf_length, ← hdl, hks]
  have hρl : (ρs.take (2 ^ (point.length / 2))).length = 2 ^ (point.length / 2) := by
    rw [List.length_take]; omega
  have hzl : (honestProof k0 hh ks (tensorL point) (tensorR point) (ρs.take (2 ^ (point.length / 2)))
      (ltOf (tensorL point) p.evals (2 ^ (point.length / 2))) rEval d rD rB ch).z.length
        = 2 ^ (point.length / 2) := by
    simp only [honestProof, vectorSum, scalarByVector, List.length_zipWith, List.length_map,
      ltOf_length, ← hdl, hks, Nat.min_self]
  have hcl : (rowCommits ks hh (rowsOf p.evals (2 ^ (point.length / 2)) (2 ^ (point.length / 2)))
      (ρs.take (2 ^ (point.length / 2)))).length = 2 ^ (point.length / 2) := by
    rw [rowCommits_length, rowsOf_length, hρl, Nat.min_self]
  refine ⟨⟨k0, hk, hcl, by rw [hzl, hks], ?_, ?_, ?_⟩, hcl, hzl, he⟩
  · rw [honest_defectEval, mleEval_eq_LMR p.evals point hn he]; ring
  · rw [honest_defect14 _ _ _ _ _ _ _ _ _ _ _ _ _ _ hd,
      dot_comm (tensorR point) (ltOf (tensorL point) p.evals (2 ^ (point.length / 2)))]
    ring
  · rw [honest_defect13 _ _ _ _ _ _ _ _ _ _ _ _ _ _ _ hd, dot_honest_rowComs _ _ _ _ _ _ hρl]
    ring

omit [DecidableEq F] in
theorem commit_cons_inv (ks : List F) (hh : F) (p : MLPoly F) (ps : List (MLPoly F))
    (draws : List F) (coms : List (List F)) (sts : List (State F)) (rest : List F)
    (h : commit ks hh (p :: ps) draws = .ok (coms, sts, rest)) :
    ∃ c st cs' sts', commitOne ks hh p draws = .ok (c, st) ∧
      commit ks hh ps (draws.drop (2 ^ (p.nv / 2))) = .ok (cs', sts', rest) ∧
      coms = c :: cs' ∧ sts = st :: sts' := by
  unfold commit at h
  cases h1 : commitOne ks hh p draws with
  | error e => rw [h1] at h; cases h
  | ok x =>
    obtain ⟨c, st⟩ := x
    rw [h1] at h
    simp only at h
    cases h2 : commit ks hh ps (draws.drop (2 ^ (p.nv / 2))) with
    | error e => rw [h2] at h; cases h
    | ok y =>
      obtain ⟨cs', sts', rest'⟩ := y
      rw [h2] at h
      simp only [Except.ok.injEq, Prod.mk.injEq] at h
      obtain ⟨rfl, rfl, rfl⟩ := h
      exact ⟨c, st, cs', sts', rfl, rfl, rfl, rfl⟩

omit [DecidableEq F] in
theorem openLoop_cons_inv (ks : List F) (hh : F) (L R : List F) (n dim : Nat) (it : OpenItem F)
    (its : List (OpenItem F)) (draws cs : List F) (πs : List (Proof F))
    (h : openLoop ks hh L R n dim (it :: its) draws cs = .ok πs) :
    ∃ c cs' π πs', cs = c :: cs' ∧ it.polyLabel = it.comLabel ∧ it.nv = n ∧
      dim + 3 ≤ draws.length ∧
      openOne ks hh L R it.st (drawREval draws) (drawD dim draws) (drawRD dim draws)
        (drawRB dim draws) c = .ok π ∧
      openLoop ks hh L R n dim its (draws.drop (dim + 3)) cs' = .ok πs' ∧ πs = π :: πs' := by
  unfold openLoop at h
  split at h
  · cases h
  · rename_i hl
    split at h
    · cases h
    · rename_i hnv
      split at h
      · cases h
      · rename_i hdr
        cases cs with
        | nil => cases h
        | cons c cs' =>
          simp only at h
          cases h1 : openOne ks hh L R it.st (drawREval draws) (drawD dim draws) (drawRD dim draws)
              (drawRB dim draws) c with
          | error e => rw [h1] at h; cases h
          | ok π =>
            rw [h1] at h
            simp only at h
            cases h2 : openLoop ks hh L R n dim its (draws.drop (dim + 3)) cs' with
            | error e => rw [h2] at h; cases h
            | ok πs' =>
              rw [h2] at h
              simp only [Except.ok.injEq] at h
              exact ⟨c, cs', π, πs', rfl, by simpa using hl, by simpa using hnv, by omega, h1, h2,
                h.symm⟩

/-- Completeness of the loops, with the shapes of the outputs. -/
theorem loops_complete (ks : List F) (hh : F) (point : List F) (hn : point.length % 2 = 0)
    (polys : List (MLPoly F)) :
    ∀ (ρdraws odraws cs : List F) (coms : List (List F)) (sts : List (State F)) (rest : List F)
      (items : List (OpenItem F)) (πs : List (Proof F)),
      commit ks hh polys ρdraws = .ok (coms, sts, rest) →
      items.map (·.st) = sts →
      openLoop ks hh (tensorL point) (tensorR point) point.length (2 ^ (point.length / 2))
        items odraws cs = .ok πs →
      checkLoop ks hh (tensorL point) (tensorR point) (2 ^ (point.length / 2)) coms
          (polys.map fun p => mleEval p.evals point) πs cs = .ok true ∧
        coms.length = polys.length ∧ πs.length = polys.length ∧
        (∀ c ∈ coms, c.length = 2 ^ (point.length / 2)) ∧
        (∀ π ∈ πs, π.z.length = 2 ^ (point.length / 2)) := by
  induction polys with
  | nil =>
    intro ρdraws odraws cs coms sts rest items πs hc hst ho
    simp only [commit, Except.ok.injEq, Prod.mk.injEq] at hc
    obtain ⟨rfl, rfl, _⟩ := hc
    have : items = [] := by simpa using hst
    subst this
    simp only [openLoop, Except.ok.injEq] at ho
    subst ho
    simp [checkLoop]
  | cons p ps ih =>
    intro ρdraws odraws cs coms sts rest items πs hc hst ho
    obtain ⟨c, st, cs', sts', hc1, hc2, rfl, rfl⟩ := commit_cons_inv ks hh p ps ρdraws coms sts rest hc
    cases items with
    | nil => simp at hst
    | cons it its =>
      simp only [List.map_cons, List.cons.injEq] at hst
      obtain ⟨hst1, hst2⟩ := hst
      obtain ⟨ch, chs, π, πs', rfl, _, _, _, ho1, ho2, rfl⟩ :=
        openLoop_cons_inv ks hh _ _ _ _ it its odraws cs πs ho
      rw [hst1] at ho1
      obtain ⟨hitem, hcl, hzl, _⟩ := honest_item_ok ks hh p ρdraws c st point _ _ _ _ ch π hn hc1 ho1
      obtain ⟨ih1, ih2, ih3, ih4, ih5⟩ := ih _ _ chs cs' sts' rest its πs' hc2 hst2 ho2
      refine ⟨?_, by simp [ih2], by simp [ih3], ?_, ?_⟩
      · rw [List.map_cons, checkLoop_cons_iff]
        exact ⟨hitem, ih1⟩
      · intro x hx
        rcases List.mem_cons.1 hx with rfl | hx
        · exact hcl
        · exact ih4 x hx
      · intro x hx
        rcases List.mem_cons.1 hx with rfl | hx
        · exact hzl
        · exact ih5 x hx

end Check

/-! ### consequences of acceptance -/

section Accept
variable [DecidableEq F]

/-- with a fixed proof list at most one value vector is accepted (given `com_key[0] ≠ 0`) -/
theorem checkLoop_values_unique (ks : List F) (hh : F) (L R : List F) (dim : Nat) (k0 : F)
    (hk : key0 ks = some k0) (h0 : k0 ≠ 0) (πs : List (Proof F)) :
    ∀ (coms : List (List F)) (vs vs' cs : List F),
      coms.length = πs.length → vs.length = πs.length → vs'.length = πs.length →
      checkLoop ks hh L R dim coms vs πs cs = .ok true →
      checkLoop ks hh L R dim coms vs' πs cs = .ok true → vs = vs' := by
  induction πs with
  | nil =>
    intro coms vs vs' cs _ h2 h3 _ _
    have a : vs = [] := List.length_eq_zero_iff.1 (by simpa using h2)
    have b : vs' = [] := List.length_eq_zero_iff.1 (by simpa using h3)
    rw [a, b]
  | cons π πs ih =>
    intro coms vs vs' cs h1 h2 h3 a b
    cases coms with
    | nil => simp at h1
    | cons com coms =>
    cases vs with
    | nil => simp at h2
    | cons v vs =>
    cases vs' with
    | nil => simp at h3
    | cons v' vs' =>
    cases cs with
    | nil => exact absurd a (checkLoop_cons_nil ks hh L R dim com coms v vs π πs)
    | cons c cs =>
      rw [checkLoop_cons_iff] at a b
      obtain ⟨⟨k1, hk1, _, _, e1, _, _⟩, a2⟩ := a
      obtain ⟨⟨k2, hk2, _, _, e2, _, _⟩, b2⟩ := b
      rw [hk] at hk1 hk2
      cases hk1; cases hk2
      have : k0 * (v - v') = 0 := by
        unfold defectEval at e1 e2
        linear_combination e2 - e1
      rcases mul_eq_zero.1 this with h | h
      · exact absurd h h0
      · rw [sub_eq_zero.1 h, ih coms vs vs' cs (by simpa using h1) (by simpa using h2)
          (by simpa using h3) a2 b2]

/-- an accepted transcript has the right shapes -/
theorem checkLoop_shapes (ks : List F) (hh : F) (L R : List F) (dim : Nat) (πs : List (Proof F)) :
    ∀ (coms : List (List F)) (vs cs : List F),
      coms.length = πs.length → vs.length = πs.length →
      checkLoop ks hh L R dim coms vs πs cs = .ok true →
      (∀ c ∈ coms, c.length = dim) ∧ (∀ π ∈ πs, π.z.length = ks.length) ∧ πs.length ≤ cs.length := by
  induction πs with
  | nil =>
    intro coms vs cs h1 _ _
    have a : coms = [] := List.length_eq_zero_iff.1 (by simpa using h1)
    subst a
    simp
  | cons π πs ih =>
    intro coms vs cs h1 h2 a
    cases coms with
    | nil => simp at h1
    | cons com coms =>
    cases vs with
    | nil => simp at h2
    | cons v vs =>
    cases cs with
    | nil => exact absurd a (checkLoop_cons_nil ks hh L R dim com coms v vs π πs)
    | cons c cs =>
      rw [checkLoop_cons_iff] at a
      obtain ⟨⟨k1, _, e1, e2, _, _, _⟩, a2⟩ := a
      obtain ⟨i1, i2, i3⟩ := ih coms vs cs (by simpa using h1) (by simpa using h2) a2
      refine ⟨?_, ?_, by simpa using i3⟩
      · intro x hx
        rcases List.mem_cons.1 hx with rfl | hx
        · exact e1
        · exact i1 x hx
      · intro x hx
        rcases List.mem_cons.1 hx with rfl | hx
        · exact e2.symm
        · exact i2 x hx

end Accept

/-- replacing entry `j` of `z`: the dot product with the key moves by `ks[j]·(x₁ − x₂)` -/
theorem dot_set_sub (ks z : List F) (j : Nat) (x₁ x₂ : F) (hj : j < z.length) :
    dot ks (z.set j x₁) - dot ks (z.set j x₂) = getD' ks j 0 * (x₁ - x₂) := by
  induction ks generalizing z j with
  | nil => simp [dot, getD']
  | cons k ks ih =>
    cases z with
    | nil => simp at hj
    | cons y ys =>
      cases j with
      | zero => simp only [List.set_cons_zero, dot_cons, getD']; simp; ring
      | succ j =>
        simp only [List.set_cons_succ, dot_cons]
        have := ih ys j (by simpa using hj)
        simp only [getD'] at this ⊢
        simp only [List.getElem?_cons_succ]
        linear_combination this

theorem getD'_zipWith_add (a b : List F) (i : Nat) (h : a.length = b.length) :
    getD' (List.zipWith (· + ·) a b) i 0 = getD' a i 0 + getD' b i 0 := by
  unfold getD'
  rw [List.getElem?_zipWith]
  by_cases hi : i < a.length
  · have hb : i < b.length := by omega
    simp [List.getElem?_eq_getElem hi, List.getElem?_eq_getElem hb]
  · have ha : a[i]? = none := List.getElem?_eq_none (by omega)
    have hb : b[i]? = none := List.getElem?_eq_none (by omega)
    simp [ha, hb]

/-! ### linearity of the row commitments -/

theorem getD'_rowCommits (ks : List F) (hh : F) (evals ρ : List F) (d r : Nat) (hr : r < d)
    (hρ : d ≤ ρ.length) :
    getD' (rowCommits ks hh (rowsOf evals d d) ρ) r 0
      = dot ks ((List.range d).map fun col => getD' evals (col * d + r) 0) + hh * getD' ρ r 0 := by
  unfold rowCommits rowsOf getD'
  have h2 : r < ρ.length := by omega
  simp [hr, h2]

theorem rowCommits_add (ks : List F) (hh : F) (e₁ e₂ ρ σ : List F) (d : Nat)
    (he : e₁.length = e₂.length) (hρ : ρ.length = d) (hσ : σ.length = d) :
    rowCommits ks hh (rowsOf (vectorSum e₁ e₂) d d) (vectorSum ρ σ)
      = vectorSum (rowCommits ks hh (rowsOf e₁ d d) ρ) (rowCommits ks hh (rowsOf e₂ d d) σ) := by
  apply List.ext_getElem
  · simp [rowCommits, vectorSum, rowsOf, hρ, hσ]
  · intro i h1 h2
    have hi : i < d := by
      simp [rowCommits, vectorSum, rowsOf, hρ, hσ] at h1; exact h1
    simp only [rowCommits, vectorSum, rowsOf, List.getElem_zipWith, List.getElem_map,
      List.getElem_range]
    have : ((List.range d).map fun col => getD' (List.zipWith (· + ·) e₁ e₂) (col * d + i) 0)
        = (List.range d).map fun col => getD' e₁ (col * d + i) 0 + getD' e₂ (col * d + i) 0 := by
      apply List.map_congr_left
      intro col _
      exact getD'_zipWith_add e₁ e₂ _ he
    rw [this, dot_comm ks, dot_map_add, dot_comm _ ks, dot_comm _ ks]
    ring

/-! ### totality of the honest run (non-vacuity of the completeness theorem) -/

/-- the `open` inputs of an honest run: polynomial `i` with the state `commit` returned for it -/
def honestItems (polys : List (MLPoly F)) (sts : List (State F)) : List (OpenItem F) :=
  List.zipWith (fun p st => (⟨[], [], p.nv, st⟩ : OpenItem F)) polys sts

omit [Field F] in
theorem honestItems_st (polys : List (MLPoly F)) (sts : List (State F))
    (h : polys.length = sts.length) : (honestItems polys sts).map (·.st) = sts := by
  unfold honestItems
  induction polys generalizing sts with
  | nil => cases sts with
    | nil => rfl
    | cons _ _ => simp at h
  | cons p ps ih => cases sts with
    | nil => simp at h
    | cons st sts => simp [ih sts (by simpa using h)]

omit [Field F] in
theorem key0_of_length_pos (ks : List F) (h : 0 < ks.length) : ∃ k0, key0 ks = some k0 := by
  cases ks with
  | nil => simp at h
  | cons k _ => exact ⟨k, rfl⟩

theorem honest_loops_total (ks : List F) (hh : F) (point : List F) (hn : point.length % 2 = 0)
    (hks : ks.length = 2 ^ (point.length / 2)) (polys : List (MLPoly F)) :
    ∀ (ρdraws odraws cs : List F),
      (∀ p ∈ polys, p.nv = point.length ∧ p.evals.length = 2 ^ p.nv) →
      polys.length * 2 ^ (point.length / 2) ≤ ρdraws.length →
      polys.length * (2 ^ (point.length / 2) + 3) ≤ odraws.length →
      polys.length ≤ cs.length →
      ∃ coms sts rest πs, commit ks hh polys ρdraws = .ok (coms, sts, rest) ∧
        polys.length = sts.length ∧
        openLoop ks hh (tensorL point) (tensorR point) point.length (2 ^ (point.length / 2))
          (honestItems polys sts) odraws cs = .ok πs := by
  induction polys with
  | nil =>
    intro ρdraws odraws cs _ _ _ _
    exact ⟨[], [], ρdraws, [], rfl, rfl, rfl⟩
  | cons p ps ih =>
    intro ρdraws odraws cs hp h1 h2 h3
    obtain ⟨hnv, hev⟩ := hp p (by simp)
    have hdim : 2 ^ (p.nv / 2) = 2 ^ (point.length / 2) := by rw [hnv]
    rw [List.length_cons, Nat.succ_mul] at h1 h2
    cases cs with
    | nil => simp at h3
    | cons ch chs =>
      obtain ⟨coms, sts, rest, πs, ihc, ihl, iho⟩ :=
        ih (ρdraws.drop (2 ^ (point.length / 2))) (odraws.drop (2 ^ (point.length / 2) + 3)) chs
          (fun q hq => hp q (by simp [hq]))
          (by rw [List.length_drop]; omega) (by rw [List.length_drop]; omega)
          (by simpa using h3)
      have hc1 := commitOne_ok ks hh p ρdraws (by omega) (by rw [hks, hnv]) hev (by omega)
      obtain ⟨k0, hk0⟩ := key0_of_length_pos ks (by rw [hks]; exact two_pow_pos' _)
      have hdl : ks.length = (drawD (2 ^ (point.length / 2)) odraws).length := by
        unfold drawD
        rw [List.length_take, List.length_drop, hks]; omega
      have ho1 := openOne_ok ks hh (tensorL point) (tensorR point)
        (ρdraws.take (2 ^ (point.length / 2))) p.evals (2 ^ (point.length / 2))
        (drawREval odraws) (drawD (2 ^ (point.length / 2)) odraws)
        (drawRD (2 ^ (point.length / 2)) odraws) (drawRB (2 ^ (point.length / 2)) odraws) ch k0
        (tensorL_length point hn) hdl hk0
      rw [hdim] at hc1
      refine ⟨rowCommits ks hh (rowsOf p.evals (2 ^ (point.length / 2)) (2 ^ (point.length / 2)))
            (ρdraws.take (2 ^ (point.length / 2))) :: coms,
          ⟨ρdraws.take (2 ^ (point.length / 2)), ⟨2 ^ (point.length / 2), 2 ^ (point.length / 2),
            rowsOf p.evals (2 ^ (point.length / 2)) (2 ^ (point.length / 2))⟩⟩ :: sts, rest,
          honestProof k0 hh ks (tensorL point) (tensorR point) (ρdraws.take (2 ^ (point.length / 2)))
            (ltOf (tensorL point) p.evals (2 ^ (point.length / 2))) (drawREval odraws)
            (drawD (2 ^ (point.length / 2)) odraws) (drawRD (2 ^ (point.length / 2)) odraws)
            (drawRB (2 ^ (point.length / 2)) odraws) ch :: πs, ?_, by simp [ihl], ?_⟩
      · unfold commit
        rw [hc1]
        simp only
        rw [hdim, ihc]
      · unfold honestItems
        rw [List.zipWith_cons_cons]
        unfold openLoop
        simp only [ne_eq, not_true_eq_false, if_false]
        rw [if_neg (by omega), if_neg (by omega), ho1]
        simp only
        unfold honestItems at iho
        rw [iho]

end Hyrax
end PCV
