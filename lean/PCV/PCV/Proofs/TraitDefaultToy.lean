/-
  PCV.Proofs.TraitDefaultToy — a tiny concrete scheme over `ZMod 101` on which the non-vacuity examples
  of the `*_Default` property files evaluate the model of the trait-default methods by `decide`.
  Polynomial = (label, a) standing for `a·X`; its commitment is the same pair; a proof is the prover's
  call counter; `check` accepts iff the values are the true ones and the counters agree.
-/
import PCV.Model.TraitDefault
import PCV.Props.Examples

namespace PCV
namespace TraitDefault
namespace Toy

abbrev TC := Label × K

def ltK (a b : K) : Bool := decide (a.val < b.val)

def lbl (c : TC) : Label := c.1
def evalP (p : TC) (z : K) : K := p.2 * z

def openF (_ts : List ((TC × Unit) × TC)) (_z : K) (s : Nat) : Except Err (Nat × Nat) := .ok (s, s + 1)

def checkF (cs : List TC) (z : K) (vs : List K) (π : Nat) (s : Nat) : Except Err (Bool × Nat) :=
  .ok (decide (vs = cs.map fun c => evalP c z) && decide (π = s), s + 1)

/-- `a` = 2X, `b` = 3X, `c` = 5X -/
def polys : List TC := [([97], 2), ([98], 3), ([99], 5)]
def sts : List Unit := [(), (), ()]

/-- `a`, `b` at `x = 4`; `a`, `c` at `y = 4` (same point value); `b` at `z = 7`; one query listed twice -/
def qs : List (Query K) :=
  [([98], ([122], 7)), ([97], ([120], 4)), ([99], ([121], 4)), ([98], ([120], 4)), ([97], ([121], 4)),
   ([97], ([120], 4))]

/-- the true evaluations -/
def evals : List ((Label × K) × K) :=
  [(([97], 4), 8), (([98], 4), 12), (([99], 4), 20), (([98], 7), 21)]

/-- `e = 2·a − b + 5`, `f = 0·c + a` -/
def lcs : List (LC.LinComb K) :=
  [⟨[101], [(2, .poly [97]), (-1, .poly [98]), (5, .one)]⟩, ⟨[102], [(0, .poly [99]), (1, .poly [97])]⟩]

/-- `e` at `x = 4` and at `z = 7`, `f` at `x = 4` -/
def eqs : List (Query K) := [([101], ([122], 7)), ([102], ([120], 4)), ([101], ([120], 4))]

/-- `e(4) = 16 − 12 + 5 = 9`, `e(7) = 28 − 21 + 5 = 12`, `f(4) = 8` -/
def eqEvals : List ((Label × K) × K) := [(([101], 4), 9), (([101], 7), 12), (([102], 4), 8)]

end Toy
end TraitDefault
end PCV
