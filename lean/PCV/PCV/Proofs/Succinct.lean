/-
  PCV.Proofs.Succinct — `SuccinctCheckPolynomial`: the coefficient vector produced by the loops of
  `compute_coeffs` satisfies `coeffs (u :: us) = coeffs us ++ u · coeffs us`; hence its length is
  `2^k` and its Horner value is the product computed by `evaluate`.
-/
import PCV.Model.Succinct
import PCV.Proofs.Poly

set_option linter.unusedSectionVars false

namespace PCV
namespace Succinct
variable {F : Type} [Field F]

/-! ### Horner evaluation of concatenations -/

theorem evalPoly_append (a b : List F) (z : F) :
    evalPoly (a ++ b) z = evalPoly a z + fpow z a.length * evalPoly b z := by
  induction a with
  | nil => simp [fpow]
  | cons c cs ih =>
    simp only [List.cons_append, evalPoly_cons, ih, List.length_cons, fpow]; ring

theorem evalPoly_map_mul (l : List F) (u z : F) :
    evalPoly (l.map (· * u)) z = evalPoly l z * u := by
  induction l with
  | nil => simp
  | cons c cs ih => simp only [List.map_cons, evalPoly_cons, ih]; ring

theorem fpow_eq_pow (x : F) (n : Nat) : fpow x n = x ^ n := by
  induction n with
  | zero => simp [fpow]
  | succ n ih => simp only [fpow, ih]; ring

/-! ### one pass -/

theorem scalePass_length (ed : Nat) (u : F) (j : Nat) (l : List F) :
    (scalePass ed u j l).length = l.length := by
  induction l generalizing j with
  | nil => rfl
  | cons c cs ih => simp [scalePass, ih]

theorem scalePass_append (ed : Nat) (u : F) (j : Nat) (a b : List F) :
    scalePass ed u j (a ++ b) = scalePass ed u j a ++ scalePass ed u (j + a.length) b := by
  induction a generalizing j with
  | nil => simp [scalePass]
  | cons c cs ih =>
    simp only [List.cons_append, scalePass, ih, List.length_cons]
    have : j + 1 + cs.length = j + (cs.length + 1) := by omega
    rw [this]

/-- the pattern of a pass has period `2·elem_degree` -/
theorem scalePass_shift (ed : Nat) (hed : 0 < ed) (u : F) (j m : Nat) (l : List F) :
    scalePass ed u (j + 2 * ed * m) l = scalePass ed u j l := by
  induction l generalizing j with
  | nil => rfl
  | cons c cs ih =>
    have h1 : (j + 2 * ed * m) / ed = j / ed + 2 * m := by
      have : j + 2 * ed * m = j + ed * (2 * m) := by ring
      rw [this, Nat.add_mul_div_left _ _ hed]
    have h2 : (j / ed + 2 * m) % 2 = (j / ed) % 2 := by omega
    have h3 : j + 2 * ed * m + 1 = (j + 1) + 2 * ed * m := by ring
    simp only [scalePass, h1, h2, h3, ih]

/-- positions below `elem_degree` are not touched -/
theorem scalePass_low (ed : Nat) (u : F) (j : Nat) (l : List F) (h : j + l.length ≤ ed) :
    scalePass ed u j l = l := by
  induction l generalizing j with
  | nil => rfl
  | cons c cs ih =>
    simp only [List.length_cons] at h
    have h0 : j / ed = 0 := Nat.div_eq_of_lt (by omega)
    simp only [scalePass, h0]
    rw [ih (j + 1) (by omega)]
    simp

/-- positions in `[elem_degree, 2·elem_degree)` are multiplied by the challenge -/
theorem scalePass_high (ed : Nat) (u : F) (j : Nat) (l : List F) (h1 : ed ≤ j)
    (h2 : j + l.length ≤ 2 * ed) : scalePass ed u j l = l.map (· * u) := by
  induction l generalizing j with
  | nil => rfl
  | cons c cs ih =>
    simp only [List.length_cons] at h2
    have h0 : j / ed = 1 := by
      apply Nat.div_eq_of_lt_le <;> omega
    simp only [scalePass, h0, List.map_cons]
    rw [ih (j + 1) (by omega) (by omega)]
    simp

theorem scalePass_map (ed : Nat) (u v : F) (j : Nat) (l : List F) :
    scalePass ed u j (l.map (· * v)) = (scalePass ed u j l).map (· * v) := by
  induction l generalizing j with
  | nil => rfl
  | cons c cs ih =>
    simp only [List.map_cons, scalePass, ih]
    split
    · congr 1; ring
    · rfl

/-! ### the outer loop -/

theorem coeffsLoop_length (k i : Nat) (us l : List F) :
    (coeffsLoop k i us l).length = l.length := by
  induction us generalizing i l with
  | nil => rfl
  | cons u us ih => simp only [coeffsLoop, ih, scalePass_length]

/-- the challenges after the first act on a vector of half the size in the same way -/
theorem coeffsLoop_succ (k i : Nat) (us l : List F) :
    coeffsLoop (k + 1) (i + 1) us l = coeffsLoop k i us l := by
  induction us generalizing i l with
  | nil => rfl
  | cons u us ih =>
    simp only [coeffsLoop]
    rw [ih]
    have : k + 1 - (i + 1 + 1) = k - (i + 1) := by omega
    rw [this]

theorem coeffsLoop_map (k i : Nat) (v : F) (us l : List F) :
    coeffsLoop k i us (l.map (· * v)) = (coeffsLoop k i us l).map (· * v) := by
  induction us generalizing i l with
  | nil => rfl
  | cons u us ih => simp only [coeffsLoop, scalePass_map, ih]

/-- the passes of the challenges after the first treat the two halves independently -/
theorem coeffsLoop_append (k i : Nat) (us a b : List F) (hi : 1 ≤ i) (hk : i + us.length ≤ k)
    (ha : a.length = 2 ^ (k - 1)) :
    coeffsLoop k i us (a ++ b) = coeffsLoop k i us a ++ coeffsLoop k i us b := by
  induction us generalizing i a b with
  | nil => rfl
  | cons u us ih =>
    simp only [List.length_cons] at hk
    simp only [coeffsLoop]
    have hed : 0 < 2 ^ (k - (i + 1)) := Nat.pow_pos (by omega)
    have hlen : a.length = 2 * 2 ^ (k - (i + 1)) * 2 ^ (i - 1) := by
      rw [ha, ← Nat.pow_succ', ← Nat.pow_add]
      congr 1; omega
    rw [scalePass_append]
    have : 0 + a.length = 0 + 2 * 2 ^ (k - (i + 1)) * 2 ^ (i - 1) := by rw [hlen]
    rw [this, scalePass_shift _ hed]
    exact ih (i + 1) _ _ (by omega) (by omega) (by rw [scalePass_length]; exact ha)

/-- **The recursion behind `compute_coeffs`**: the first challenge multiplies the upper half. -/
theorem computeCoeffs_cons (u : F) (us : List F) :
    computeCoeffs (u :: us) = computeCoeffs us ++ (computeCoeffs us).map (· * u) := by
  unfold computeCoeffs
  simp only [List.length_cons, coeffsLoop]
  have hrep : List.replicate (2 ^ (us.length + 1)) (1 : F)
      = List.replicate (2 ^ us.length) 1 ++ List.replicate (2 ^ us.length) 1 := by
    rw [List.replicate_append_replicate]; congr 1; rw [Nat.pow_succ]; omega
  have hsub : us.length + 1 - (0 + 1) = us.length := by omega
  rw [hrep, hsub, scalePass_append]
  rw [scalePass_low _ _ _ _ (by simp)]
  rw [scalePass_high _ _ _ _ (by simp) (by simp; omega)]
  rw [coeffsLoop_append _ _ _ _ _ (by omega) (by omega) (by simp)]
  rw [coeffsLoop_map, coeffsLoop_succ]

@[simp] theorem computeCoeffs_nil : computeCoeffs ([] : List F) = [1] := rfl

theorem computeCoeffs_length (us : List F) : (computeCoeffs us).length = 2 ^ us.length := by
  induction us with
  | nil => rfl
  | cons u us ih =>
    rw [computeCoeffs_cons, List.length_append, List.length_map, ih, List.length_cons, Nat.pow_succ]
    omega

/-! ### `evaluate` -/

theorem evalLoop_succ (k : Nat) (z : F) (i : Nat) (us : List F) (p : F) :
    evalLoop (k + 1) z (i + 1) us p = evalLoop k z i us p := by
  induction us generalizing i p with
  | nil => rfl
  | cons u us ih =>
    simp only [evalLoop]
    rw [ih]
    have : k + 1 - (i + 1 + 1) = k - (i + 1) := by omega
    rw [this]

theorem evalLoop_mul (k : Nat) (z : F) (i : Nat) (us : List F) (p : F) :
    evalLoop k z i us p = p * evalLoop k z i us 1 := by
  induction us generalizing i p with
  | nil => simp [evalLoop]
  | cons u us ih =>
    simp only [evalLoop]
    rw [ih (i + 1) (p * _), ih (i + 1) (1 * _)]; ring

@[simp] theorem evaluate_nil (z : F) : evaluate ([] : List F) z = 1 := rfl

theorem evaluate_cons (u : F) (us : List F) (z : F) :
    evaluate (u :: us) z = (1 + fpow z (2 ^ us.length) * u) * evaluate us z := by
  unfold evaluate
  simp only [List.length_cons, evalLoop]
  have hsub : us.length + 1 - (0 + 1) = us.length := by omega
  rw [hsub, evalLoop_succ, evalLoop_mul]; ring

/-- **`evaluate` agrees with Horner evaluation of `compute_coeffs`** at every point, for every
challenge list. -/
theorem evaluate_eq_horner (us : List F) (z : F) :
    evaluate us z = evalPoly (computeCoeffs us) z := by
  induction us with
  | nil => simp [evalPoly]
  | cons u us ih =>
    rw [evaluate_cons, computeCoeffs_cons, evalPoly_append, evalPoly_map_mul,
      computeCoeffs_length, ih]
    ring

/-- the product `∏ᵢ (1 + uᵢ · z^(2^(k-i)))`, `i = 1..k` -/
def prodForm (z : F) : List F → F
  | [] => 1
  | u :: us => (1 + u * z ^ (2 ^ us.length)) * prodForm z us

theorem evaluate_eq_prodForm (us : List F) (z : F) : evaluate us z = prodForm z us := by
  induction us with
  | nil => rfl
  | cons u us ih => rw [evaluate_cons, ih, fpow_eq_pow]; simp only [prodForm]; ring

end Succinct
end PCV
