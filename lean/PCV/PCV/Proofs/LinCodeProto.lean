/-
  PCV.Proofs.LinCodeProto — the protocol-level facts about the linear-code PCS model:
  what `commit` and `open` return for an honest prover, the exact acceptance condition of `check`
  (`checkPre_ok_iff`), completeness, and the shape of proofs.
-/
import PCV.Proofs.LinCode

namespace PCV
namespace LinCode
open Merkle
variable {F : Type} [Field F] [DecidableEq F] {D : Type} [DecidableEq D]
set_option linter.unusedSectionVars false

/-! ### `commit` -/

theorem encodeRows_eq (enc : List F → Except Err (List F)) (E : List F → List F)
    (rows : List (List F)) (h : ∀ r ∈ rows, enc r = .ok (E r)) :
    encodeRows enc rows = .ok (rows.map E) := by
  induction rows with
  | nil => rfl
  | cons r rs ih =>
    simp only [encodeRows, h r (by simp), ih (fun r' h' => h r' (by simp [h'])), List.map_cons]

theorem ofRows_map (E : List F → List F) (rows : List (List F)) (k : Nat) (hn : 0 < rows.length)
    (hk : ∀ r ∈ rows, (E r).length = k) :
    Mat.ofRows (rows.map E) = .ok ⟨rows.length, k, rows.map E⟩ := by
  match rows, hn with
  | r0 :: rest, _ =>
    simp only [List.map_cons, Mat.ofRows]
    have : (rest.map E).all (fun r => r.length == (E r0).length) = true := by
      simp only [List.all_eq_true, List.mem_map, beq_iff_eq]
      rintro r ⟨r', hr', rfl⟩
      rw [hk r' (by simp [hr']), hk r0 (by simp)]
    rw [this, hk r0 (by simp)]
    simp

/-- The hypotheses under which a polynomial is in the domain of the scheme, for an encoder that is
linear on messages of the matrix width: `pp.enc` computes a linear `E` (codeword length `k ≥ 2`) on
rows, and the matrix has at least one row. -/
structure Encodes (pp : Params F D) (coeffs : List F) (E : List F → List F) (k : Nat) : Prop where
  lin : IsLinear E (coeffMat pp.dims coeffs).m k
  enc : ∀ x, x.length = (coeffMat pp.dims coeffs).m → pp.enc x = .ok (E x)
  rows : 0 < (coeffMat pp.dims coeffs).n
  two : 2 ≤ k
  /-- the coefficient vector fits the matrix (in domain: not larger than the key was made for) -/
  fits : fitsDims pp.dims coeffs = true

/-- the encoded matrix of an honest commitment -/
def extOf (pp : Params F D) (coeffs : List F) (E : List F → List F) (k : Nat) : Mat F :=
  ⟨(coeffMat pp.dims coeffs).n, k, (coeffMat pp.dims coeffs).rows.map E⟩

theorem leavesOf_length (pp : Params F D) (ext : Mat F) : (leavesOf pp ext).length = ext.m := by
  simp [leavesOf, Mat.cols]

theorem leavesOf_get (pp : Params F D) (ext : Mat F) (i : Nat) (h : i < ext.m) :
    (leavesOf pp ext)[i]? = some (pp.colHash (colOf ext.rows i)) := by
  simp [leavesOf, Mat.cols, h]

theorem depth_pos_of_two {l : List D} (h : 2 ≤ l.length) : depth l ≠ 0 := by
  have := ceilLog2_pos h
  unfold depth; omega

/-- an answer of `compute_matrices` means: the coefficients fit, and the core computation gave it -/
theorem computeMatrices_ok (pp : Params F D) (coeffs : List F) (r : Mat F × Mat F)
    (h : computeMatrices pp coeffs = .ok r) :
    fitsDims pp.dims coeffs = true ∧ computeMatricesCore pp coeffs = .ok r := by
  unfold computeMatrices at h
  cases hf : fitsDims pp.dims coeffs with
  | false => rw [hf] at h; simp at h
  | true => rw [hf] at h; simpa using h

/-- what `fitsDims` says: at most `n·m` coefficients, and `m = ⌈len / n⌉` -/
theorem fitsDims_iff (dims : Nat → Nat × Nat) (coeffs : List F) :
    fitsDims dims coeffs = true ↔
      (coeffsOrZero coeffs).length
          ≤ (dims (coeffsOrZero coeffs).length).1 * (dims (coeffsOrZero coeffs).length).2 ∧
        ceilDiv (coeffsOrZero coeffs).length (dims (coeffsOrZero coeffs).length).1
          = (dims (coeffsOrZero coeffs).length).2 := by
  unfold fitsDims
  exact decide_eq_true_iff

/-- `len ≤ ⌈len / n⌉ · n` for `n > 0` -/
theorem le_mul_ceilDiv (len n : Nat) (hn : 0 < n) : len ≤ n * ceilDiv len n := by
  unfold ceilDiv
  have h1 := Nat.div_add_mod (len + n - 1) n
  have h2 := Nat.mod_lt (len + n - 1) hn
  omega

/-- a shape law with `n > 0` and `m = ⌈len / n⌉` (Ligero's `compute_dimensions`) fits every
coefficient vector -/
theorem fitsDims_of_ceilDiv (dims : Nat → Nat × Nat) (coeffs : List F)
    (h : ∀ len, 0 < (dims len).1 ∧ (dims len).2 = ceilDiv len (dims len).1) :
    fitsDims dims coeffs = true := by
  rw [fitsDims_iff]
  obtain ⟨hn, hm⟩ := h (coeffsOrZero coeffs).length
  rw [hm]
  exact ⟨le_mul_ceilDiv _ _ hn, rfl⟩

/-- more coefficients than the matrix has entries, or a matrix of another width than `⌈len / n⌉`:
refused -/
theorem computeMatrices_oversize (pp : Params F D) (coeffs : List F)
    (h : fitsDims pp.dims coeffs = false) : computeMatrices pp coeffs = .error .abort := by
  unfold computeMatrices; rw [if_pos h]

theorem computeMatrices_eq (pp : Params F D) (coeffs : List F) (E : List F → List F) (k : Nat)
    (h : Encodes pp coeffs E k) :
    computeMatrices pp coeffs = .ok (coeffMat pp.dims coeffs, extOf pp coeffs E k) := by
  have hrl := coeffMat_row_length pp.dims coeffs
  unfold computeMatrices
  rw [if_neg (by rw [h.fits]; exact Bool.noConfusion)]
  unfold computeMatricesCore
  simp only
  rw [encodeRows_eq pp.enc E _ (fun r hr => h.enc r (hrl r hr))]
  simp only
  rw [ofRows_map E _ k (by rw [coeffMat_rows_length]; exact h.rows)
    (fun r hr => h.lin.len r (hrl r hr))]
  simp [extOf, coeffMat_rows_length]

/-- **What `commit` returns.** -/
theorem commit_eq (pp : Params F D) (coeffs : List F) (E : List F → List F) (k : Nat)
    (h : Encodes pp coeffs E k) :
    commit pp coeffs = .ok
      (⟨(coeffMat pp.dims coeffs).n, (coeffMat pp.dims coeffs).m, k,
          merkleRoot pp.hs (leavesOf pp (extOf pp coeffs E k))⟩,
       ⟨coeffMat pp.dims coeffs, extOf pp coeffs E k, leavesOf pp (extOf pp coeffs E k)⟩) := by
  unfold commit
  rw [computeMatrices_eq pp coeffs E k h]
  simp only
  rw [if_neg (depth_pos_of_two (by rw [leavesOf_length]; exact h.two))]
  rfl

/-! ### `open` -/

theorem openColumns_eq (hs : Hashes D) (ext : Mat F) (leaves : List D) (idx : List Nat)
    (hm : ext.m ≤ 2 ^ depth leaves) (hd : depth leaves ≠ 0) (hi : ∀ i ∈ idx, i < ext.m) :
    openColumns hs ext leaves idx
      = .ok (idx.map (colOf ext.rows), idx.map (merklePath hs leaves)) := by
  induction idx with
  | nil => rfl
  | cons i is ih =>
    have h1 : i < ext.m := hi i (by simp)
    have h2 : sibIdx i < 2 ^ depth leaves := by
      obtain ⟨d, hd'⟩ : ∃ d, depth leaves = d + 1 := ⟨depth leaves - 1, by omega⟩
      rw [hd', Nat.pow_succ, Nat.mul_comm] at hm ⊢
      exact sibIdx_lt (by omega)
    simp only [openColumns, h1, h2, and_self, if_true,
      ih (fun j hj => hi j (by simp [hj])), List.map_cons]

/-- the proof an honest prover sends -/
def honestProof (pp : Params F D) (coeffs : List F) (E : List F → List F) (k : Nat) (b : List F)
    (o : Oracle F) : Proof F D :=
  let M := coeffMat pp.dims coeffs
  ⟨⟨o.indices.map (merklePath pp.hs (leavesOf pp (extOf pp coeffs E k))),
    vecMat b M.rows M.m,
    o.indices.map (colOf (extOf pp coeffs E k).rows)⟩,
   if pp.checkWf then some (vecMat o.r M.rows M.m) else none⟩

/-- **What `open` returns** for the commitment and state of `commit_eq`. -/
theorem openOne_eq (pp : Params F D) (point : Point F) (coeffs : List F) (E : List F → List F)
    (k : Nat) (h : Encodes pp coeffs E k) (a b : List F) (o : Oracle F) (root : D)
    (ht : tensor point (coeffMat pp.dims coeffs).m (coeffMat pp.dims coeffs).n = .ok (a, b))
    (hb : b.length = (coeffMat pp.dims coeffs).n)
    (hr : o.r.length = (coeffMat pp.dims coeffs).n) (hi : ∀ i ∈ o.indices, i < k) :
    openOne pp point ⟨(coeffMat pp.dims coeffs).n, (coeffMat pp.dims coeffs).m, k, root⟩
      ⟨coeffMat pp.dims coeffs, extOf pp coeffs E k, leavesOf pp (extOf pp coeffs E k)⟩ o
      = .ok (honestProof pp coeffs E k b o) := by
  have hd : depth (leavesOf pp (extOf pp coeffs E k)) ≠ 0 :=
    depth_pos_of_two (by rw [leavesOf_length]; exact h.two)
  have hm : (extOf pp coeffs E k).m ≤ 2 ^ depth (leavesOf pp (extOf pp coeffs E k)) := by
    have := ceilLog2_spec (leavesOf pp (extOf pp coeffs E k)).length
    unfold depth
    rwa [leavesOf_length] at this ⊢
  unfold openOne
  simp only [if_neg hd, ht]
  have hwf : wfVector pp.checkWf (coeffMat pp.dims coeffs) o.r
      = .ok (if pp.checkWf then some (vecMat o.r (coeffMat pp.dims coeffs).rows
          (coeffMat pp.dims coeffs).m) else none) := by
    unfold wfVector Mat.rowMul
    cases pp.checkWf <;> simp [hr]
  rw [hwf]
  simp only [Mat.rowMul, hb, if_true]
  rw [openColumns_eq pp.hs _ _ o.indices hm hd hi]
  rfl

/-! ### the exact acceptance condition of `check` -/

theorem checkPaths_ok_iff (pp : Params F D) (root : D) (cols : List (List F)) (qs : List Nat)
    (ps : List (Path D)) :
    checkPaths pp root cols qs ps = .ok () ↔
      ∀ (j : Nat) col q, cols[j]? = some col → qs[j]? = some q →
        ∃ p, ps[j]? = some p ∧ p.leafIndex = q ∧ recomputeRoot pp.hs (pp.colHash col) p = root := by
  induction cols generalizing qs ps with
  | nil => simp [checkPaths]
  | cons col cols ih =>
    cases qs with
    | nil => simp [checkPaths]
    | cons q qs =>
      cases ps with
      | nil =>
        simp only [checkPaths]
        constructor
        · intro h; cases h
        · intro h
          obtain ⟨p, hp, _⟩ := h 0 col q rfl rfl
          simp at hp
      | cons p ps =>
        simp only [checkPaths]
        by_cases h1 : p.leafIndex = q
        · by_cases h2 : verifyPath pp.hs root (pp.colHash col) p = true
          · have h2' : ¬ (verifyPath pp.hs root (pp.colHash col) p = false) := by simp [h2]
            rw [if_neg (by simpa using h1), if_neg h2', ih qs ps]
            constructor
            · intro h j col' q' hc hq
              cases j with
              | zero =>
                simp only [List.getElem?_cons_zero, Option.some.injEq] at hc hq
                subst hc; subst hq
                exact ⟨p, rfl, h1, (verifyPath_iff _ _ _ _).1 h2⟩
              | succ j => exact h j col' q' (by simpa using hc) (by simpa using hq)
            · intro h j col' q' hc hq
              have := h (j + 1) col' q' (by simpa using hc) (by simpa using hq)
              simpa using this
          · have h2' : verifyPath pp.hs root (pp.colHash col) p = false := by
              cases hv : verifyPath pp.hs root (pp.colHash col) p <;> simp_all
            rw [if_neg (by simpa using h1), if_pos h2']
            constructor
            · intro h; cases h
            · intro h
              obtain ⟨p', hp', _, hr⟩ := h 0 col q rfl rfl
              simp only [List.getElem?_cons_zero, Option.some.injEq] at hp'
              subst hp'
              exact absurd ((verifyPath_iff _ _ _ _).2 hr) h2
        · rw [if_pos (by simpa using h1)]
          constructor
          · intro h; cases h
          · intro h
            obtain ⟨p', hp', hl, _⟩ := h 0 col q rfl rfl
            simp only [List.getElem?_cons_zero, Option.some.injEq] at hp'
            subst hp'
            exact absurd hl h1

theorem checkEntry_ok_iff (a col w : List F) (idx : Nat) :
    checkEntry a col w idx = .ok () ↔ ∃ x, w[idx]? = some x ∧ dot a col = x := by
  unfold checkEntry
  cases hw : w[idx]? with
  | none => simp
  | some x =>
    simp only [Option.some.injEq, exists_eq_left']
    by_cases h : dot a col = x <;> simp [h]

/-- acceptance of one opened column by the well-formedness half -/
def WfEntryOK (rw : Option (List F × List F)) (col : List F) (q : Nat) : Prop :=
  ∀ rww, rw = some rww → ∃ y, rww.2[q]? = some y ∧ dot rww.1 col = y

theorem checkWfEntry_ok_iff (rw : Option (List F × List F)) (col : List F) (q : Nat) :
    checkWfEntry rw col q = .ok () ↔ WfEntryOK rw col q := by
  unfold checkWfEntry WfEntryOK
  cases rw with
  | none => simp
  | some rww => simp [checkEntry_ok_iff]

theorem except_unit_cases (x : Except Err Unit) : x = .ok () ∨ ∃ e, x = .error e := by
  cases x with
  | ok u => left; rfl
  | error e => right; exact ⟨e, rfl⟩

theorem checkCols_ok_iff (rw : Option (List F × List F)) (b w : List F) (qs : List Nat)
    (cols : List (List F)) :
    checkCols rw b w qs cols = .ok () ↔
      ∀ (j : Nat) q, qs[j]? = some q → ∃ col, cols[j]? = some col ∧ WfEntryOK rw col q ∧
        ∃ x, w[q]? = some x ∧ dot b col = x := by
  induction qs generalizing cols with
  | nil => simp [checkCols]
  | cons q qs ih =>
    cases cols with
    | nil =>
      simp only [checkCols]
      constructor
      · intro h; cases h
      · intro h
        obtain ⟨col, hc, _⟩ := h 0 q rfl
        simp at hc
    | cons col cols =>
      simp only [checkCols]
      rcases except_unit_cases (checkWfEntry rw col q) with h1 | ⟨e1, h1⟩
      · rcases except_unit_cases (checkEntry b col w q) with h2 | ⟨e2, h2⟩
        · rw [h1, h2]
          simp only
          rw [ih cols]
          constructor
          · intro h j q' hq
            cases j with
            | zero =>
              simp only [List.getElem?_cons_zero, Option.some.injEq] at hq
              subst hq
              exact ⟨col, rfl, (checkWfEntry_ok_iff _ _ _).1 h1, (checkEntry_ok_iff _ _ _ _).1 h2⟩
            | succ j => simpa using h j q' (by simpa using hq)
          · intro h j q' hq
            simpa using h (j + 1) q' (by simpa using hq)
        · rw [h1, h2]
          simp only
          constructor
          · intro h; cases h
          · intro h
            obtain ⟨col', hc', _, hx⟩ := h 0 q rfl
            simp only [List.getElem?_cons_zero, Option.some.injEq] at hc'
            subst hc'
            have := (checkEntry_ok_iff _ _ _ _).2 hx
            rw [h2] at this; cases this
      · rw [h1]
        simp only
        constructor
        · intro h; cases h
        · intro h
          obtain ⟨col', hc', hw, _⟩ := h 0 q rfl
          simp only [List.getElem?_cons_zero, Option.some.injEq] at hc'
          subst hc'
          have := (checkWfEntry_ok_iff _ _ _).2 hw
          rw [h1] at this; cases this

theorem readWf_ok_iff (checkWf : Bool) (nCols : Nat) (wf res : Option (List F)) :
    readWf checkWf nCols wf = .ok res ↔
      (checkWf = true ∧ ∃ w, wf = some w ∧ w.length = nCols ∧ res = some w) ∨
      (checkWf = false ∧ res = none) := by
  unfold readWf
  cases checkWf with
  | false => simp [eq_comm]
  | true =>
    cases wf with
    | none => simp
    | some w =>
      by_cases h : w.length = nCols
      · simp [h, eq_comm]
      · simp [h]

theorem encodeWf_ok_iff (enc : List F → Except Err (List F)) (r : List F) (wf : Option (List F))
    (res : Option (List F × List F)) :
    encodeWf enc r wf = .ok res ↔
      (wf = none ∧ res = none) ∨ (∃ w ww, wf = some w ∧ enc w = .ok ww ∧ res = some (r, ww)) := by
  unfold encodeWf
  cases wf with
  | none => simp [eq_comm]
  | some w =>
    cases he : enc w with
    | error e => simp [he]
    | ok ww => simp [he, eq_comm]

/-- **The published relation** of one opening: what `check` tests before the value, stated with
positions: lengths (of `v`, of the well-formedness vector, and of the encoding of `v` against the
codeword length the commitment announces, and — fix D23 — of the two vectors of `tensor` against the
announced matrix shape: a point with the wrong number of coordinates is refused); a Merkle path with the transcript's leaf position that recomputes the root, for
every opened column; the opened columns agree with the encodings of `v` (and, when well-formedness
is checked, of the well-formedness vector under the coefficients `r`) at the transcript positions.
`a` is the vector of `tensor`. -/
def PreRelation (pp : Params F D) (point : Point F) (c : Comm D) (π : Proof F D) (o : Oracle F)
    (a : List F) : Prop :=
  π.opening.v.length = c.nCols ∧
  (pp.checkWf = true → ∃ w, π.wf = some w ∧ w.length = c.nCols) ∧
  (∀ (j : Nat) col q, π.opening.columns[j]? = some col → o.indices[j]? = some q →
    ∃ p, π.opening.paths[j]? = some p ∧ p.leafIndex = q ∧
      recomputeRoot pp.hs (pp.colHash col) p = c.root) ∧
  ∃ w b, pp.enc π.opening.v = .ok w ∧ w.length = c.nExtCols ∧
    tensor point c.nCols c.nRows = .ok (a, b) ∧ a.length = c.nCols ∧ b.length = c.nRows ∧
    (∀ (j : Nat) q, o.indices[j]? = some q → ∃ col x, π.opening.columns[j]? = some col ∧
      w[q]? = some x ∧ dot b col = x) ∧
    (pp.checkWf = true → ∃ wf ww, π.wf = some wf ∧ pp.enc wf = .ok ww ∧
      ∀ (j : Nat) q, o.indices[j]? = some q → ∃ col y, π.opening.columns[j]? = some col ∧
        ww[q]? = some y ∧ dot o.r col = y)

theorem except_cases {α : Type} (x : Except Err α) : (∃ a, x = .ok a) ∨ ∃ e, x = .error e := by
  cases x with
  | ok u => left; exact ⟨u, rfl⟩
  | error e => right; exact ⟨e, rfl⟩

/-- **`check` accepts the pre-value part exactly on the published relation.** -/
theorem checkPre_ok_iff (pp : Params F D) (point : Point F) (c : Comm D) (π : Proof F D)
    (o : Oracle F) (a : List F) :
    checkPre pp point c π o = .ok a ↔ PreRelation pp point c π o a := by
  unfold checkPre PreRelation
  by_cases hv : π.opening.v.length = c.nCols
  swap
  · simp [hv]
  rw [if_neg (by simpa using hv)]
  rcases except_cases (readWf pp.checkWf c.nCols π.wf) with ⟨wf, hwf⟩ | ⟨e, hwf⟩
  swap
  · rw [hwf]
    simp only
    constructor
    · intro h; cases h
    · rintro ⟨_, h2, _, w, b, _, _, _, _, _, _, h7⟩
      exfalso
      cases hc : pp.checkWf with
      | false =>
        have := (readWf_ok_iff false c.nCols π.wf none).2 (Or.inr ⟨rfl, rfl⟩)
        rw [hc] at hwf; rw [hwf] at this; cases this
      | true =>
        obtain ⟨w', hw', hl⟩ := h2 hc
        have := (readWf_ok_iff true c.nCols π.wf (some w')).2 (Or.inl ⟨rfl, w', hw', hl, rfl⟩)
        rw [hc] at hwf; rw [hwf] at this; cases this
  rw [hwf]
  simp only
  have hwf' := (readWf_ok_iff _ _ _ _).1 hwf
  rcases except_unit_cases (checkPaths pp c.root π.opening.columns o.indices π.opening.paths)
    with hp | ⟨e, hp⟩
  swap
  · rw [hp]
    simp only
    constructor
    · intro h; cases h
    · rintro ⟨_, _, h3, _⟩
      have := (checkPaths_ok_iff pp c.root _ _ _).2 h3
      rw [hp] at this; cases this
  rw [hp]
  simp only
  have hp' := (checkPaths_ok_iff pp c.root _ _ _).1 hp
  cases hen : pp.enc π.opening.v with
  | error e =>
    simp only
    constructor
    · intro h; cases h
    · rintro ⟨_, _, _, w, b, h4, _⟩
      cases h4
  | ok w =>
    simp only
    by_cases hlen : w.length = c.nExtCols
    swap
    · rw [if_pos (by simpa using hlen)]
      constructor
      · intro h; cases h
      · rintro ⟨_, _, _, w', b, h4, h4', _⟩
        cases h4
        exact absurd h4' hlen
    rw [if_neg (by simpa using hlen)]
    cases hten : tensor point c.nCols c.nRows with
    | error e =>
      simp only
      constructor
      · intro h; cases h
      · rintro ⟨_, _, _, w', b, _, _, h5, _⟩
        cases h5
    | ok ab =>
      simp only
      by_cases hl : ab.1.length = c.nCols ∧ ab.2.length = c.nRows
      swap
      · rw [if_pos (not_and_or.1 hl)]
        constructor
        · intro h; cases h
        · rintro ⟨_, _, _, w', b, _, _, h5, la, lb, _⟩
          cases h5
          exact absurd ⟨la, lb⟩ hl
      rw [if_neg (fun h => h.elim (fun h' => h' hl.1) (fun h' => h' hl.2))]
      rcases except_cases (encodeWf pp.enc o.r wf) with ⟨rw, hrw⟩ | ⟨e, hrw⟩
      swap
      · rw [hrw]
        simp only
        constructor
        · intro h; cases h
        · rintro ⟨_, _, _, w', b, _, _, _, _, _, _, h7⟩
          exfalso
          rcases hwf' with ⟨hc, w0, hw0, _, rfl⟩ | ⟨hc, rfl⟩
          · obtain ⟨wf1, ww, h1, h2, _⟩ := h7 hc
            rw [hw0] at h1; cases h1
            have := (encodeWf_ok_iff pp.enc o.r (some w0) (some (o.r, ww))).2
              (Or.inr ⟨w0, ww, rfl, h2, rfl⟩)
            rw [hrw] at this; cases this
          · have := (encodeWf_ok_iff pp.enc o.r none none).2 (Or.inl ⟨rfl, rfl⟩)
            rw [hrw] at this; cases this
      rw [hrw]
      simp only
      have hrw' := (encodeWf_ok_iff _ _ _ _).1 hrw
      rcases except_unit_cases (checkCols rw ab.2 w o.indices π.opening.columns) with hcc | ⟨e, hcc⟩
      · rw [hcc]
        simp only
        have hcc' := (checkCols_ok_iff _ _ _ _ _).1 hcc
        constructor
        · intro h
          have ha : ab.1 = a := by cases h; rfl
          refine ⟨hv, ?_, hp', w, ab.2, rfl, hlen, by rw [← ha], by rw [← ha]; exact hl.1, hl.2, ?_, ?_⟩
          · intro hc
            rcases hwf' with ⟨_, w0, hw0, hl, _⟩ | ⟨hc', _⟩
            · exact ⟨w0, hw0, hl⟩
            · rw [hc] at hc'; cases hc'
          · intro j q hq
            obtain ⟨col, h1, _, x, h3, h4⟩ := hcc' j q hq
            exact ⟨col, x, h1, h3, h4⟩
          · intro hc
            rcases hwf' with ⟨_, w0, hw0, hl, rfl⟩ | ⟨hc', _⟩
            · rcases hrw' with ⟨h1, _⟩ | ⟨w1, ww, h1, h2, rfl⟩
              · cases h1
              · cases h1
                refine ⟨w0, ww, hw0, h2, ?_⟩
                intro j q hq
                obtain ⟨col, h1, h2', _⟩ := hcc' j q hq
                obtain ⟨y, hy1, hy2⟩ := h2' (o.r, ww) rfl
                exact ⟨col, y, h1, hy1, hy2⟩
            · rw [hc] at hc'; cases hc'
        · rintro ⟨_, _, _, w', b, h4, _, h5, _, _, _, _⟩
          cases h5
          rfl
      · rw [hcc]
        simp only
        constructor
        · intro h; cases h
        · rintro ⟨_, _, _, w', b, h4, _, h5, _, _, h6, h7⟩
          exfalso
          cases h4; cases h5
          have : checkCols rw b w o.indices π.opening.columns = .ok () := by
            rw [checkCols_ok_iff]
            intro j q hq
            obtain ⟨col, x, h1, h2, h3⟩ := h6 j q hq
            refine ⟨col, h1, ?_, x, h2, h3⟩
            intro rww hrww
            rcases hwf' with ⟨hc, w0, hw0, _, rfl⟩ | ⟨hc, rfl⟩
            · obtain ⟨wf1, ww, g1, g2, g3⟩ := h7 hc
              rw [hw0] at g1; cases g1
              rcases hrw' with ⟨k1, _⟩ | ⟨w1, ww1, k1, k2, k3⟩
              · cases k1
              · cases k1
                rw [g2] at k2; cases k2
                rw [k3] at hrww; cases hrww
                obtain ⟨col', y, m1, m2, m3⟩ := g3 j q hq
                rw [h1] at m1; cases m1
                exact ⟨y, m2, m3⟩
            · rcases hrw' with ⟨_, k2⟩ | ⟨w1, ww1, k1, _⟩
              · rw [k2] at hrww; cases hrww
              · cases k1
          rw [hcc] at this; cases this

/-- fix D23: when `tensor` answers with vectors that do not have the lengths of the announced matrix
shape, no proof satisfies the pre-value relation -/
theorem not_preRelation_of_wrong_lengths (pp : Params F D) (point : Point F) (c : Comm D)
    (π : Proof F D) (o : Oracle F) (a b : List F) (ht : tensor point c.nCols c.nRows = .ok (a, b))
    (hl : a.length ≠ c.nCols ∨ b.length ≠ c.nRows) (a' : List F) : ¬ PreRelation pp point c π o a' := by
  rintro ⟨_, _, _, w, b', _, _, ht', hla, hlb, _⟩
  rw [ht] at ht'
  cases ht'
  rcases hl with hl | hl
  · exact hl hla
  · exact hl hlb

/-- fix D23, the exact answer: a proof that passes everything `check` tests before `tensor` (length
of `v`, well-formedness vector, Merkle paths at the transcript positions, length of `E(v)`) is refused
with `InvalidCommitment` when the vectors of `tensor` do not have the lengths of the announced shape -/
theorem checkPre_wrong_lengths (pp : Params F D) (point : Point F) (c : Comm D)
    (π : Proof F D) (o : Oracle F) (a b w : List F) (ht : tensor point c.nCols c.nRows = .ok (a, b))
    (hl : a.length ≠ c.nCols ∨ b.length ≠ c.nRows)
    (hv : π.opening.v.length = c.nCols)
    (hwf : pp.checkWf = true → ∃ w, π.wf = some w ∧ w.length = c.nCols)
    (hp : ∀ (j : Nat) col q, π.opening.columns[j]? = some col → o.indices[j]? = some q →
      ∃ p, π.opening.paths[j]? = some p ∧ p.leafIndex = q ∧
        recomputeRoot pp.hs (pp.colHash col) p = c.root)
    (hen : pp.enc π.opening.v = .ok w) (hlen : w.length = c.nExtCols) :
    checkPre pp point c π o = .error .invalidCommitment := by
  have hr : ∃ wf, readWf pp.checkWf c.nCols π.wf = .ok wf := by
    cases hc : pp.checkWf with
    | false => exact ⟨none, (readWf_ok_iff _ _ _ _).2 (Or.inr ⟨rfl, rfl⟩)⟩
    | true =>
      obtain ⟨w0, hw0, hl0⟩ := hwf hc
      exact ⟨some w0, (readWf_ok_iff _ _ _ _).2 (Or.inl ⟨rfl, w0, hw0, hl0, rfl⟩)⟩
  obtain ⟨wf, hr⟩ := hr
  unfold checkPre
  rw [if_neg (by simpa using hv), hr]
  simp only
  rw [(checkPaths_ok_iff pp c.root _ _ _).2 hp]
  simp only
  rw [hen]
  simp only
  rw [if_neg (by simpa using hlen), ht]
  simp only
  rw [if_pos hl]

/-! ### completeness -/

theorem getElem?_of_lt_length {α : Type} (l : List α) (q : Nat) (d : α) (h : q < l.length) :
    l[q]? = some (getD' l q d) := by
  simp [getD', List.getElem?_eq_getElem h]

theorem colOf_length (rows : List (List F)) (j : Nat) : (colOf rows j).length = rows.length := by
  simp [colOf]

/-- The honest proof for the row combination `b` satisfies the published relation at a point whose
`tensor` is `(a, b')` as soon as `b'` and `b` combine the opened columns to the same entries (in
particular for `b' = b`): any linear encoder, any shape, any oracle with positions inside the
codeword.  `ha`, `hb'` (the vectors of `tensor` have the lengths of the matrix; needed since fix D23,
without them `check` refuses): automatic for a univariate point (`tensor_uni_lengths`) and for a
multilinear point on a power-of-two shape (`tensor_ml_lengths_fit`). -/
theorem honest_preRelation_gen (pp : Params F D) (point : Point F) (coeffs : List F)
    (E : List F → List F) (k : Nat) (h : Encodes pp coeffs E k) (a b b' : List F) (o : Oracle F)
    (ht : tensor point (coeffMat pp.dims coeffs).m (coeffMat pp.dims coeffs).n = .ok (a, b'))
    (ha : a.length = (coeffMat pp.dims coeffs).m) (hb' : b'.length = (coeffMat pp.dims coeffs).n)
    (hi : ∀ i ∈ o.indices, i < k)
    (hbb : ∀ q ∈ o.indices, dot b' (colOf (extOf pp coeffs E k).rows q)
      = dot b (colOf (extOf pp coeffs E k).rows q)) :
    PreRelation pp point
      ⟨(coeffMat pp.dims coeffs).n, (coeffMat pp.dims coeffs).m, k,
        merkleRoot pp.hs (leavesOf pp (extOf pp coeffs E k))⟩
      (honestProof pp coeffs E k b o) o a := by
  have hrl := coeffMat_row_length pp.dims coeffs
  have hmem : ∀ (j q : Nat), o.indices[j]? = some q → q < k := by
    intro j q hq
    exact hi q (List.mem_of_getElem? hq)
  have hcol : ∀ (v : List F) (q : Nat), q < k →
      ∃ x, (E (vecMat v (coeffMat pp.dims coeffs).rows (coeffMat pp.dims coeffs).m))[q]? = some x ∧
        dot v (colOf (extOf pp coeffs E k).rows q) = x := by
    intro v q hq
    refine ⟨getD' (E (vecMat v (coeffMat pp.dims coeffs).rows (coeffMat pp.dims coeffs).m)) q 0,
      getElem?_of_lt_length _ _ _ (by rw [h.lin.len _ (vecMat_length _ _ _)]; exact hq), ?_⟩
    exact col_inner_product h.lin v _ hrl q hq
  refine ⟨by simp [honestProof, vecMat_length], ?_, ?_, ?_⟩
  · intro hc
    exact ⟨vecMat o.r (coeffMat pp.dims coeffs).rows (coeffMat pp.dims coeffs).m,
      by simp [honestProof, hc], vecMat_length _ _ _⟩
  · intro j col q hcj hqj
    simp only [honestProof, List.getElem?_map, hqj, Option.map_some, Option.some.injEq] at hcj ⊢
    subst hcj
    refine ⟨_, rfl, rfl, ?_⟩
    have hq := hmem j q hqj
    have hd : 1 ≤ depth (leavesOf pp (extOf pp coeffs E k)) := by
      have := depth_pos_of_two (l := leavesOf pp (extOf pp coeffs E k))
        (by rw [leavesOf_length]; exact h.two)
      omega
    exact (verifyPath_iff _ _ _ _).1
      (merkle_verify_path pp.hs _ q _ hd (leavesOf_get pp (extOf pp coeffs E k) q hq))
  · refine ⟨E (vecMat b (coeffMat pp.dims coeffs).rows (coeffMat pp.dims coeffs).m), b',
      h.enc _ (vecMat_length _ _ _), h.lin.len _ (vecMat_length _ _ _), ht, ha, hb', ?_, ?_⟩
    · intro j q hqj
      obtain ⟨x, hx1, hx2⟩ := hcol b q (hmem j q hqj)
      refine ⟨colOf (extOf pp coeffs E k).rows q, x, by simp [honestProof, hqj], hx1, ?_⟩
      rw [hbb q (List.mem_of_getElem? hqj)]; exact hx2
    · intro hc
      refine ⟨_, E (vecMat o.r (coeffMat pp.dims coeffs).rows (coeffMat pp.dims coeffs).m),
        by simp [honestProof, hc], h.enc _ (vecMat_length _ _ _), ?_⟩
      intro j q hqj
      obtain ⟨x, hx1, hx2⟩ := hcol o.r q (hmem j q hqj)
      exact ⟨_, x, by simp [honestProof, hqj], hx1, hx2⟩

/-- the honest proof satisfies the published relation at the point it was made for -/
theorem honest_preRelation (pp : Params F D) (point : Point F) (coeffs : List F)
    (E : List F → List F) (k : Nat) (h : Encodes pp coeffs E k) (a b : List F) (o : Oracle F)
    (ht : tensor point (coeffMat pp.dims coeffs).m (coeffMat pp.dims coeffs).n = .ok (a, b))
    (ha : a.length = (coeffMat pp.dims coeffs).m) (hb : b.length = (coeffMat pp.dims coeffs).n)
    (hi : ∀ i ∈ o.indices, i < k) :
    PreRelation pp point
      ⟨(coeffMat pp.dims coeffs).n, (coeffMat pp.dims coeffs).m, k,
        merkleRoot pp.hs (leavesOf pp (extOf pp coeffs E k))⟩
      (honestProof pp coeffs E k b o) o a :=
  honest_preRelation_gen pp point coeffs E k h a b b o ht ha hb hi (fun _ _ => rfl)

/-- **The honest proof at another point: exact condition.**  The proof made for the row
combination `b` passes the pre-value tests at a point with `tensor = (a', b')` (same transcript
positions) iff `b'` and `b` agree on the opened columns: `(b' − b)·M_ext[:, q] = 0` for every opened
position `q` — and (fix D23) `a'`, `b'` have the lengths of the matrix. -/
theorem honest_preRelation_other_iff (pp : Params F D) (point' : Point F) (coeffs : List F)
    (E : List F → List F) (k : Nat) (h : Encodes pp coeffs E k) (a' b b' a'' : List F) (o : Oracle F)
    (ht : tensor point' (coeffMat pp.dims coeffs).m (coeffMat pp.dims coeffs).n = .ok (a', b'))
    (hi : ∀ i ∈ o.indices, i < k) :
    PreRelation pp point'
      ⟨(coeffMat pp.dims coeffs).n, (coeffMat pp.dims coeffs).m, k,
        merkleRoot pp.hs (leavesOf pp (extOf pp coeffs E k))⟩
      (honestProof pp coeffs E k b o) o a'' ↔
    a'' = a' ∧ a'.length = (coeffMat pp.dims coeffs).m ∧ b'.length = (coeffMat pp.dims coeffs).n ∧
      ∀ q ∈ o.indices, dot b' (colOf (extOf pp coeffs E k).rows q)
        = dot b (colOf (extOf pp coeffs E k).rows q) := by
  constructor
  · rintro ⟨_, _, _, w, b2, hw, _, ht2, hla, hlb, hcols, _⟩
    simp only at ht2
    rw [ht] at ht2
    cases ht2
    refine ⟨rfl, hla, hlb, ?_⟩
    intro q hq
    obtain ⟨j, hj⟩ := List.mem_iff_getElem?.1 hq
    obtain ⟨col, x, hc, hx, hd⟩ := hcols j q hj
    simp only [honestProof, List.getElem?_map, hj, Option.map_some, Option.some.injEq] at hc
    subst hc
    have hwv : pp.enc (honestProof pp coeffs E k b o).opening.v
        = .ok (E (vecMat b (coeffMat pp.dims coeffs).rows (coeffMat pp.dims coeffs).m)) :=
      h.enc _ (vecMat_length _ _ _)
    rw [hwv] at hw
    cases hw
    have hq' := hi q hq
    have := col_inner_product h.lin b _ (coeffMat_row_length pp.dims coeffs) q hq'
    rw [hd, show (extOf pp coeffs E k).rows = (coeffMat pp.dims coeffs).rows.map E from rfl, this]
    have hx' := getElem?_of_lt_length
      (E (vecMat b (coeffMat pp.dims coeffs).rows (coeffMat pp.dims coeffs).m)) q 0
      (by rw [h.lin.len _ (vecMat_length _ _ _)]; exact hq')
    rw [hx'] at hx
    cases hx; rfl
  · rintro ⟨rfl, hla, hlb, hbb⟩
    exact honest_preRelation_gen pp point' coeffs E k h a'' b b' o ht hla hlb hi hbb

/-- `check` on one honest opening continues with `true` for the value `⟨b·M, a⟩` (`ha`, `hb`: the
vectors of `tensor` fit the matrix — since fix D23 `check` refuses otherwise) -/
theorem checkOne_honest (pp : Params F D) (point : Point F) (coeffs : List F)
    (E : List F → List F) (k : Nat) (h : Encodes pp coeffs E k) (a b : List F) (o : Oracle F)
    (ht : tensor point (coeffMat pp.dims coeffs).m (coeffMat pp.dims coeffs).n = .ok (a, b))
    (ha : a.length = (coeffMat pp.dims coeffs).m) (hb : b.length = (coeffMat pp.dims coeffs).n)
    (hi : ∀ i ∈ o.indices, i < k) :
    checkOne pp point
      ⟨(coeffMat pp.dims coeffs).n, (coeffMat pp.dims coeffs).m, k,
        merkleRoot pp.hs (leavesOf pp (extOf pp coeffs E k))⟩
      (dot (vecMat b (coeffMat pp.dims coeffs).rows (coeffMat pp.dims coeffs).m) a)
      (honestProof pp coeffs E k b o) o = .ok true := by
  unfold checkOne
  rw [(checkPre_ok_iff _ _ _ _ _ _).2 (honest_preRelation pp point coeffs E k h a b o ht ha hb hi)]
  simp [honestProof]

/-- the value the honest prover claims: `⟨b·M, a⟩` for `(a, b) = tensor(point)` -/
def claimed (pp : Params F D) (point : Point F) (coeffs : List F) : F :=
  match tensor point (coeffMat pp.dims coeffs).m (coeffMat pp.dims coeffs).n with
  | .ok ab => dot (vecMat ab.2 (coeffMat pp.dims coeffs).rows (coeffMat pp.dims coeffs).m) ab.1
  | .error _ => 0

/-- One polynomial and the sponge outputs of its opening are in the domain of the scheme:
the encoder is linear on the rows, `tensor` produces an `a` with one entry per column and a `b` with
one entry per row (a point with the right number of coordinates: `check` refuses any other since fix
D23), the sponge returned `n_rows` coefficients and positions inside the codeword. -/
structure HonestRun (pp : Params F D) (point : Point F) (coeffs : List F) (o : Oracle F) : Prop where
  enc : ∃ E k, Encodes pp coeffs E k ∧ ∀ i ∈ o.indices, i < k
  tens : ∃ a b, tensor point (coeffMat pp.dims coeffs).m (coeffMat pp.dims coeffs).n = .ok (a, b) ∧
    a.length = (coeffMat pp.dims coeffs).m ∧ b.length = (coeffMat pp.dims coeffs).n
  rlen : o.r.length = (coeffMat pp.dims coeffs).n

/-- **Completeness of the whole `commit`/`open`/`check` run over a list of polynomials.** -/
theorem complete_all (pp : Params F D) (point : Point F) (polys : List (List F))
    (os : List (Oracle F)) (h : List.Forall₂ (HonestRun pp point) polys os) :
    ∃ css πs, commitAll pp polys = .ok css ∧
      openAll pp point (css.map Prod.fst) (css.map Prod.snd) os = .ok πs ∧
      checkAll pp point (css.map Prod.fst) (polys.map (claimed pp point)) πs os = .ok true := by
  induction h with
  | nil => exact ⟨[], [], rfl, rfl, rfl⟩
  | @cons coeffs o polys os h1 _ ih =>
    obtain ⟨css, πs, hc, ho, hk⟩ := ih
    obtain ⟨E, k, hE, hi⟩ := h1.enc
    obtain ⟨a, b, ht, ha, hb⟩ := h1.tens
    refine ⟨(⟨(coeffMat pp.dims coeffs).n, (coeffMat pp.dims coeffs).m, k,
          merkleRoot pp.hs (leavesOf pp (extOf pp coeffs E k))⟩,
       ⟨coeffMat pp.dims coeffs, extOf pp coeffs E k, leavesOf pp (extOf pp coeffs E k)⟩) :: css,
      honestProof pp coeffs E k b o :: πs, ?_, ?_, ?_⟩
    · simp only [commitAll, commit_eq pp coeffs E k hE, hc]
    · simp only [List.map_cons, openAll]
      rw [openOne_eq pp point coeffs E k hE a b o _ ht hb h1.rlen hi, ho]
    · simp only [List.map_cons, checkAll]
      have hcl : claimed pp point coeffs
          = dot (vecMat b (coeffMat pp.dims coeffs).rows (coeffMat pp.dims coeffs).m) a := by
        simp [claimed, ht]
      rw [hcl, checkOne_honest pp point coeffs E k hE a b o ht ha hb hi]
      exact hk

/-! ### shape of proofs -/

theorem openColumns_ok (hs : Hashes D) (ext : Mat F) (leaves : List D) (idx : List Nat)
    (cp : List (List F) × List (Path D)) (h : openColumns hs ext leaves idx = .ok cp) :
    cp = (idx.map (colOf ext.rows), idx.map (merklePath hs leaves)) := by
  induction idx generalizing cp with
  | nil => simp [openColumns] at h; exact h.symm
  | cons i is ih =>
    simp only [openColumns] at h
    split at h
    · cases hrec : openColumns hs ext leaves is with
      | error e => rw [hrec] at h; cases h
      | ok cp' =>
        rw [hrec] at h
        have := ih cp' hrec
        subst this
        simp at h
        rw [← h]; rfl
    · cases h

/-- **Shape of an opening proof**: one column and one Merkle path per transcript position; `v` (and
the well-formedness vector, present exactly when the flag is on) has one entry per matrix column;
every column has one entry per row of the encoded matrix; every path has `log₂` of the padded leaf
count hashes (leaf sibling + inner siblings). -/
theorem openOne_shape (pp : Params F D) (point : Point F) (c : Comm D) (st : State F D)
    (o : Oracle F) (π : Proof F D) (h : openOne pp point c st o = .ok π) :
    π.opening.columns.length = o.indices.length ∧
    π.opening.paths.length = o.indices.length ∧
    π.opening.v.length = st.mat.m ∧
    (∀ col ∈ π.opening.columns, col.length = st.extMat.rows.length) ∧
    (∀ p ∈ π.opening.paths, p.authPath.length + 1 = ceilLog2 st.leaves.length) ∧
    π.wf.isSome = pp.checkWf ∧ (∀ w, π.wf = some w → w.length = st.mat.m) := by
  unfold openOne at h
  split at h
  · cases h
  rename_i hd
  split at h
  · cases h
  rename_i ab hab
  split at h
  · cases h
  rename_i wf hwf
  split at h
  · cases h
  rename_i v hv
  split at h
  · cases h
  rename_i cp hcp
  cases h
  have hcp' := openColumns_ok _ _ _ _ _ hcp
  subst hcp'
  have hvl : v.length = st.mat.m := by
    unfold Mat.rowMul at hv
    split at hv
    · cases hv; exact vecMat_length _ _ _
    · cases hv
  refine ⟨by simp, by simp, hvl, ?_, ?_, ?_, ?_⟩
  · intro col hcol
    simp only [List.mem_map] at hcol
    obtain ⟨i, _, rfl⟩ := hcol
    exact colOf_length _ _
  · intro p hp
    simp only [List.mem_map] at hp
    obtain ⟨i, _, rfl⟩ := hp
    have := merklePath_depth pp.hs st.leaves i
    unfold depth at this hd
    omega
  · unfold wfVector at hwf
    cases hc : pp.checkWf with
    | false => rw [hc] at hwf; simp at hwf; cases hwf; rfl
    | true =>
      rw [hc] at hwf
      simp only [if_true] at hwf
      split at hwf
      · cases hwf
      · cases hwf; rfl
  · intro w hw
    subst hw
    unfold wfVector at hwf
    split at hwf
    · split at hwf
      · cases hwf
      · rename_i v' hv'
        cases hwf
        unfold Mat.rowMul at hv'
        split at hv'
        · cases hv'; exact vecMat_length _ _ _
        · cases hv'
    · cases hwf

/-! ### decisions -/

theorem checkOne_ok_true_iff (pp : Params F D) (point : Point F) (c : Comm D) (value : F)
    (π : Proof F D) (o : Oracle F) :
    checkOne pp point c value π o = .ok true ↔
      ∃ a, PreRelation pp point c π o a ∧ dot π.opening.v a = value := by
  unfold checkOne
  cases hp : checkPre pp point c π o with
  | error e =>
    simp only
    constructor
    · intro h; cases h
    · rintro ⟨a, ha, _⟩
      rw [(checkPre_ok_iff _ _ _ _ _ _).2 ha] at hp; cases hp
  | ok a =>
    simp only
    constructor
    · intro h
      refine ⟨a, (checkPre_ok_iff _ _ _ _ _ _).1 hp, ?_⟩
      simpa using h
    · rintro ⟨a', ha', hv⟩
      rw [(checkPre_ok_iff _ _ _ _ _ _).2 ha'] at hp
      cases hp
      simp [hv]

/-- when the pre-value part of the relation fails, `check` refuses (it never answers a `bool`) -/
theorem checkOne_error_of_not_pre (pp : Params F D) (point : Point F) (c : Comm D) (value : F)
    (π : Proof F D) (o : Oracle F) (h : ∀ a, ¬ PreRelation pp point c π o a) :
    ∃ e, checkOne pp point c value π o = .error e := by
  unfold checkOne
  cases hp : checkPre pp point c π o with
  | error e => exact ⟨e, rfl⟩
  | ok a => exact absurd ((checkPre_ok_iff _ _ _ _ _ _).1 hp) (h a)

/-- the decision never depends on the claimed value except through the final test -/
theorem checkOne_value (pp : Params F D) (point : Point F) (c : Comm D) (value value' : F)
    (π : Proof F D) (o : Oracle F) (h : checkOne pp point c value π o = .ok true) :
    checkOne pp point c value' π o = .ok (decide (value' = value)) := by
  unfold checkOne at h ⊢
  cases hp : checkPre pp point c π o with
  | error e => rw [hp] at h; cases h
  | ok a =>
    rw [hp] at h
    simp only at h ⊢
    have hv : dot π.opening.v a = value := by simpa using h
    rw [hv]
    congr 1
    by_cases hh : value' = value
    · simp [hh]
    · have : ¬ value = value' := fun h' => hh h'.symm
      simp [hh, this]

theorem checkAll_ok_true_iff (pp : Params F D) (point : Point F) (cs : List (Comm D))
    (vals : List F) (πs : List (Proof F D)) (os : List (Oracle F)) :
    checkAll pp point cs vals πs os = .ok true ↔
      ∀ (i : Nat) c val, cs[i]? = some c → vals[i]? = some val →
        ∃ π o, πs[i]? = some π ∧ os[i]? = some o ∧ checkOne pp point c val π o = .ok true := by
  induction cs generalizing vals πs os with
  | nil => simp [checkAll]
  | cons c cs ih =>
    cases vals with
    | nil => simp [checkAll]
    | cons val vals =>
      cases πs with
      | nil =>
        simp only [checkAll]
        constructor
        · intro h; cases h
        · intro h
          obtain ⟨π, o, hπ, _⟩ := h 0 c val rfl rfl
          simp at hπ
      | cons π πs =>
        cases os with
        | nil =>
          simp only [checkAll]
          constructor
          · intro h; cases h
          · intro h
            obtain ⟨π', o, _, ho, _⟩ := h 0 c val rfl rfl
            simp at ho
        | cons o os =>
          simp only [checkAll]
          cases h1 : checkOne pp point c val π o with
          | error e =>
            simp only
            constructor
            · intro h; cases h
            · intro h
              obtain ⟨π', o', hπ, ho, hk⟩ := h 0 c val rfl rfl
              simp at hπ ho; subst hπ; subst ho
              rw [h1] at hk; cases hk
          | ok bb =>
            cases bb with
            | false =>
              simp only
              constructor
              · intro h; cases h
              · intro h
                obtain ⟨π', o', hπ, ho, hk⟩ := h 0 c val rfl rfl
                simp at hπ ho; subst hπ; subst ho
                rw [h1] at hk; cases hk
            | true =>
              simp only
              rw [ih vals πs os]
              constructor
              · intro h i c' val' hc hv
                cases i with
                | zero =>
                  simp at hc hv; subst hc; subst hv
                  exact ⟨π, o, rfl, rfl, h1⟩
                | succ i => simpa using h i c' val' (by simpa using hc) (by simpa using hv)
              · intro h i c' val' hc hv
                simpa using h (i + 1) c' val' (by simpa using hc) (by simpa using hv)

end LinCode
end PCV
