/-
  PCV.Proofs.MVPoly — algebra of the sparse multivariate polynomial model: evaluation is invariant
  under `SparseTerm::new`, `from_coefficients_vec`, and additive for `+=`; the terms of a result
  come from the terms of the inputs.
-/
import PCV.Model.MVPoly
import PCV.Proofs.Poly

set_option linter.unusedSectionVars false
set_option linter.unusedVariables false

namespace PCV
namespace MV
variable {F : Type} [Field F]

/-! ### powers -/


/-! ### terms -/

@[simp] theorem evalTerm_nil (x : List F) : evalTerm ([] : Term) x = 1 := rfl
@[simp] theorem evalTerm_cons (q : Nat × Nat) (t : Term) (x : List F) :
    evalTerm (q :: t) x = fpow (getD' x q.1 0) q.2 * evalTerm t x := rfl

theorem evalTerm_retainNonzero (t : Term) (x : List F) :
    evalTerm (Term.retainNonzero t) x = evalTerm t x := by
  induction t with
  | nil => rfl
  | cons q t ih =>
    unfold Term.retainNonzero at ih ⊢
    rw [List.filter_cons]
    by_cases h : q.2 = 0
    · simp [h, ih]
    · simp [h, ih]

theorem evalTerm_insertVar (a : Nat × Nat) (t : Term) (x : List F) :
    evalTerm (Term.insertVar a t) x = fpow (getD' x a.1 0) a.2 * evalTerm t x := by
  induction t with
  | nil => rfl
  | cons b t ih =>
    simp only [Term.insertVar]
    split
    · simp only [evalTerm_cons, ih]; ring
    · simp only [evalTerm_cons]

theorem evalTerm_sortVars (t : Term) (x : List F) : evalTerm (Term.sortVars t) x = evalTerm t x := by
  induction t with
  | nil => rfl
  | cons a t ih => simp only [Term.sortVars, evalTerm_insertVar, ih, evalTerm_cons]

theorem evalTerm_combineAux (prev : Nat × Nat) (t : Term) (x : List F) :
    evalTerm (Term.combineAux prev t) x = fpow (getD' x prev.1 0) prev.2 * evalTerm t x := by
  induction t generalizing prev with
  | nil => simp [Term.combineAux]
  | cons q t ih =>
    simp only [Term.combineAux]
    split
    · rename_i h
      rw [ih]; simp only [evalTerm_cons, fpow_add, h]; ring
    · simp only [evalTerm_cons, ih]

theorem evalTerm_combine (t : Term) (x : List F) : evalTerm (Term.combine t) x = evalTerm t x := by
  cases t with
  | nil => rfl
  | cons q t => simp only [Term.combine, evalTerm_combineAux, evalTerm_cons]

/-- `SparseTerm::new` does not change the monomial function. -/
theorem evalTerm_new (t : Term) (x : List F) : evalTerm (Term.new t) x = evalTerm t x := by
  unfold Term.new
  simp only
  split
  · rw [evalTerm_combine, evalTerm_sortVars, evalTerm_retainNonzero]
  · rw [evalTerm_retainNonzero]

/-! ### well-formed terms (`SparseTerm::new` results) -/

theorem Term.wf_tail {q : Nat × Nat} {t : Term} (h : Term.wf (q :: t) = true) : Term.wf t = true := by
  cases t with
  | nil => rfl
  | cons r t => simp only [Term.wf, Bool.and_eq_true] at h; exact h.2

theorem Term.wf_head_pos {q : Nat × Nat} {t : Term} (h : Term.wf (q :: t) = true) : q.2 ≠ 0 := by
  cases t with
  | nil => simpa [Term.wf] using h
  | cons r t => simp only [Term.wf, Bool.and_eq_true] at h; simpa using h.1.1

theorem Term.wf_head_lt {q : Nat × Nat} {t : Term} (h : Term.wf (q :: t) = true) :
    ∀ r ∈ t, q.1 < r.1 := by
  induction t generalizing q with
  | nil => intro r hr; cases hr
  | cons a t ih =>
    intro r hr
    simp only [Term.wf, Bool.and_eq_true, decide_eq_true_eq] at h
    rcases List.mem_cons.1 hr with rfl | hr
    · exact h.1.2
    · exact Nat.lt_trans h.1.2 (ih h.2 r hr)

theorem Term.wf_pos {t : Term} (h : Term.wf t = true) : ∀ q ∈ t, q.2 ≠ 0 := by
  induction t with
  | nil => intro q hq; cases hq
  | cons a t ih =>
    intro q hq
    rcases List.mem_cons.1 hq with rfl | hq
    · exact Term.wf_head_pos h
    · exact ih (Term.wf_tail h) q hq

theorem Term.wf_cons {q : Nat × Nat} {t : Term} (hq : q.2 ≠ 0) (ht : Term.wf t = true)
    (hlt : ∀ r ∈ t, q.1 < r.1) : Term.wf (q :: t) = true := by
  cases t with
  | nil => simpa [Term.wf] using hq
  | cons r t =>
    simp only [Term.wf, Bool.and_eq_true, decide_eq_true_eq]
    exact ⟨⟨by simpa using hq, hlt r (by simp)⟩, ht⟩

theorem Term.retainNonzero_of_wf {t : Term} (h : Term.wf t = true) : Term.retainNonzero t = t := by
  unfold Term.retainNonzero
  rw [List.filter_eq_self]
  intro q hq
  simpa using Term.wf_pos h q hq

theorem Term.insertVar_of_lt {a : Nat × Nat} {t : Term} (h : ∀ r ∈ t, a.1 < r.1) :
    Term.insertVar a t = a :: t := by
  cases t with
  | nil => rfl
  | cons b t =>
    have := h b (by simp)
    simp only [Term.insertVar]
    rw [if_neg (by omega)]

theorem Term.sortVars_of_wf {t : Term} (h : Term.wf t = true) : Term.sortVars t = t := by
  induction t with
  | nil => rfl
  | cons a t ih =>
    simp only [Term.sortVars, ih (Term.wf_tail h)]
    exact Term.insertVar_of_lt (Term.wf_head_lt h)

theorem Term.combineAux_of_wf {a : Nat × Nat} {t : Term} (h : Term.wf (a :: t) = true) :
    Term.combineAux a t = a :: t := by
  induction t generalizing a with
  | nil => rfl
  | cons b t ih =>
    have hlt := Term.wf_head_lt h b (by simp)
    simp only [Term.combineAux]
    rw [if_neg (by omega), ih (Term.wf_tail h)]

/-- `SparseTerm::new` is the identity on its own results. -/
theorem Term.new_of_wf {t : Term} (h : Term.wf t = true) : Term.new t = t := by
  unfold Term.new
  simp only [Term.retainNonzero_of_wf h]
  split
  · rw [Term.sortVars_of_wf h]
    cases t with
    | nil => rfl
    | cons a t => exact Term.combineAux_of_wf h
  · rfl

theorem Term.isConstant_eval {t : Term} (h : Term.isConstant t = true) (x : List F) :
    evalTerm t x = 1 := by
  induction t with
  | nil => rfl
  | cons q t ih =>
    simp only [Term.isConstant, List.isEmpty_cons, Bool.false_or, beq_iff_eq, Term.degree] at h
    have h1 : q.2 = 0 := by omega
    have h2 : Term.degree t = 0 := by omega
    simp only [evalTerm_cons, h1, fpow_zero, one_mul]
    apply ih
    simp [Term.isConstant, h2]

/-! ### polynomials -/

@[simp] theorem evalMV_nil (x : List F) : evalMV ([] : MVPoly F) x = 0 := rfl
@[simp] theorem evalMV_cons (ct : F × Term) (p : MVPoly F) (x : List F) :
    evalMV (ct :: p) x = ct.1 * evalTerm ct.2 x + evalMV p x := rfl

theorem evalMV_append (p q : MVPoly F) (x : List F) :
    evalMV (p ++ q) x = evalMV p x + evalMV q x := by
  induction p with
  | nil => simp
  | cons a p ih => simp only [List.cons_append, evalMV_cons, ih]; ring

theorem evalMV_scaleMV (f : F) (p : MVPoly F) (x : List F) :
    evalMV (scaleMV f p) x = f * evalMV p x := by
  induction p with
  | nil => simp [scaleMV]
  | cons a p ih =>
    simp only [scaleMV, List.map_cons, evalMV_cons] at ih ⊢
    rw [ih]; ring

theorem evalMV_insertTerm (a : F × Term) (l : MVPoly F) (x : List F) :
    evalMV (insertTerm a l) x = a.1 * evalTerm a.2 x + evalMV l x := by
  induction l with
  | nil => rfl
  | cons b l ih =>
    simp only [insertTerm]
    split
    · simp only [evalMV_cons, ih]; ring
    · simp only [evalMV_cons]

theorem evalMV_sortTerms (l : MVPoly F) (x : List F) : evalMV (sortTerms l) x = evalMV l x := by
  induction l with
  | nil => rfl
  | cons a l ih => simp only [sortTerms, evalMV_insertTerm, ih, evalMV_cons]

theorem evalMV_combineTermsAux (prev : F × Term) (l : MVPoly F) (x : List F) :
    evalMV (combineTermsAux prev l) x = prev.1 * evalTerm prev.2 x + evalMV l x := by
  induction l generalizing prev with
  | nil => simp [combineTermsAux]
  | cons q l ih =>
    simp only [combineTermsAux]
    split
    · rename_i h
      rw [ih]; simp only [evalMV_cons, h]; ring
    · simp only [evalMV_cons, ih]

theorem evalMV_combineTerms (l : MVPoly F) (x : List F) :
    evalMV (combineTerms l) x = evalMV l x := by
  cases l with
  | nil => rfl
  | cons q l => simp only [combineTerms, evalMV_combineTermsAux, evalMV_cons]

theorem evalMV_removeZeros [DecidableEq F] (p : MVPoly F) (x : List F) :
    evalMV (removeZeros p) x = evalMV p x := by
  induction p with
  | nil => rfl
  | cons a p ih =>
    unfold removeZeros at ih ⊢
    rw [List.filter_cons]
    by_cases h : a.1 = 0
    · simp [h, ih]
    · simp [h, ih]

/-- `from_coefficients_vec` does not change the polynomial function. -/
theorem evalMV_fromCoeffs [DecidableEq F] (l : MVPoly F) (x : List F) :
    evalMV (fromCoeffs l) x = evalMV l x := by
  unfold fromCoeffs
  rw [evalMV_removeZeros, evalMV_combineTerms, evalMV_sortTerms]

theorem evalMV_of_isZero [DecidableEq F] (p : MVPoly F) (h : isZeroMV p = true) (x : List F) :
    evalMV p x = 0 := by
  induction p with
  | nil => rfl
  | cons a p ih =>
    simp only [isZeroMV, List.isEmpty_cons, Bool.false_or, List.all_cons, Bool.and_eq_true,
      decide_eq_true_eq] at h
    have : isZeroMV p = true := by
      simp only [isZeroMV, Bool.or_eq_true]; exact Or.inr h.2
    simp [h.1, ih this]

/-! ### where the terms of a result come from -/

/-- the set of monomials of a term list -/
def termsOf (p : MVPoly F) : List Term := p.map (·.2)

theorem mem_insertTerm_term (a : F × Term) (l : MVPoly F) (t : Term) :
    t ∈ termsOf (insertTerm a l) → t = a.2 ∨ t ∈ termsOf l := by
  induction l with
  | nil => intro h; simpa [termsOf, insertTerm] using h
  | cons b l ih =>
    simp only [insertTerm]
    split
    · intro h
      simp only [termsOf, List.map_cons, List.mem_cons] at h ih ⊢
      rcases h with h | h
      · exact Or.inr (Or.inl h)
      · rcases ih h with h | h
        · exact Or.inl h
        · exact Or.inr (Or.inr h)
    · intro h; simpa [termsOf] using h

theorem mem_sortTerms_term (l : MVPoly F) (t : Term) : t ∈ termsOf (sortTerms l) → t ∈ termsOf l := by
  induction l with
  | nil => intro h; exact h
  | cons a l ih =>
    intro h
    simp only [sortTerms] at h
    rcases mem_insertTerm_term a _ t h with h | h
    · simp [termsOf, h]
    · have := ih h
      simp only [termsOf, List.map_cons, List.mem_cons] at this ⊢
      exact Or.inr this

theorem mem_combineTermsAux_term (prev : F × Term) (l : MVPoly F) (t : Term) :
    t ∈ termsOf (combineTermsAux prev l) → t = prev.2 ∨ t ∈ termsOf l := by
  induction l generalizing prev with
  | nil => intro h; simpa [termsOf, combineTermsAux] using h
  | cons q l ih =>
    simp only [combineTermsAux]
    split
    · intro h
      rcases ih _ h with h | h
      · exact Or.inl h
      · simp only [termsOf, List.map_cons, List.mem_cons]; exact Or.inr (Or.inr h)
    · intro h
      simp only [termsOf, List.map_cons, List.mem_cons] at h ⊢
      rcases h with h | h
      · exact Or.inl h
      · rcases ih _ h with h | h
        · exact Or.inr (Or.inl h)
        · exact Or.inr (Or.inr h)

theorem mem_combineTerms_term (l : MVPoly F) (t : Term) :
    t ∈ termsOf (combineTerms l) → t ∈ termsOf l := by
  cases l with
  | nil => intro h; exact h
  | cons q l =>
    intro h
    rcases mem_combineTermsAux_term q l t h with h | h
    · simp [termsOf, h]
    · simp only [termsOf, List.map_cons, List.mem_cons]; exact Or.inr h

theorem mem_removeZeros_term [DecidableEq F] (p : MVPoly F) (t : Term) :
    t ∈ termsOf (removeZeros p) → t ∈ termsOf p := by
  intro h
  simp only [termsOf, removeZeros, List.mem_map, List.mem_filter] at h ⊢
  obtain ⟨a, ⟨ha, _⟩, rfl⟩ := h
  exact ⟨a, ha, rfl⟩

/-- every monomial of `from_coefficients_vec(l)` is a monomial of `l` -/
theorem mem_fromCoeffs_term [DecidableEq F] (l : MVPoly F) (t : Term) :
    t ∈ termsOf (fromCoeffs l) → t ∈ termsOf l := fun h =>
  mem_sortTerms_term l t (mem_combineTerms_term _ t (mem_removeZeros_term _ t h))

theorem termsOf_scaleMV (f : F) (p : MVPoly F) : termsOf (scaleMV f p) = termsOf p := by
  simp [termsOf, scaleMV, List.map_map, Function.comp_def]

theorem termsOf_append (p q : MVPoly F) : termsOf (p ++ q) = termsOf p ++ termsOf q := by
  simp [termsOf]

/-! ### the term order on well-formed terms -/

theorem Term.cmpPairs_eq {a b : Term} (ha : Term.wf a = true) (hb : Term.wf b = true)
    (hd : Term.degree a = Term.degree b) (h : Term.cmpPairs a b = .eq) : a = b := by
  induction a generalizing b with
  | nil =>
    cases b with
    | nil => rfl
    | cons o t2 =>
      have := Term.wf_head_pos hb
      simp only [Term.degree] at hd; omega
  | cons c t1 ih =>
    cases b with
    | nil =>
      have := Term.wf_head_pos ha
      simp only [Term.degree] at hd; omega
    | cons o t2 =>
      simp only [Term.cmpPairs] at h
      split at h
      · rename_i hv
        split at h
        · rename_i hp
          rw [Nat.compare_eq_eq] at h; exact absurd h hp
        · rename_i hp
          have hp : c.2 = o.2 := by simpa using hp
          simp only [Term.degree] at hd
          have := ih (Term.wf_tail ha) (Term.wf_tail hb) (by omega) h
          have hco : c = o := Prod.ext hv.symm hp
          rw [this, hco]
      · rename_i hv
        rw [Nat.compare_eq_eq] at h; exact absurd h hv

/-- On `SparseTerm::new` results, `cmp` is `Equal` only for identical terms. -/
theorem Term.cmp_eq {a b : Term} (ha : Term.wf a = true) (hb : Term.wf b = true)
    (h : Term.cmp a b = .eq) : a = b := by
  unfold Term.cmp at h
  split at h
  · rename_i hd
    rw [Nat.compare_eq_eq] at h; exact absurd h hd
  · rename_i hd
    exact Term.cmpPairs_eq ha hb (by simpa using hd) h

/-! ### addition (`impl Add for &SparsePolynomial`) -/

theorem polyWf_iff (p : MVPoly F) : polyWf p = true ↔ ∀ t ∈ termsOf p, Term.wf t = true := by
  simp only [polyWf, termsOf, List.all_eq_true, List.mem_map]
  constructor
  · rintro h t ⟨a, ha, rfl⟩; exact h a ha
  · intro h a ha; exact h a.2 ⟨a, ha, rfl⟩

theorem polyVarsBelow_iff (nv : Nat) (p : MVPoly F) :
    polyVarsBelow nv p = true ↔ ∀ t ∈ termsOf p, Term.varsBelow nv t = true := by
  simp only [polyVarsBelow, termsOf, List.all_eq_true, List.mem_map]
  constructor
  · rintro h t ⟨a, ha, rfl⟩; exact h a ha
  · intro h a ha; exact h a.2 ⟨a, ha, rfl⟩

theorem evalMV_mergeMV [DecidableEq F] (n : Nat) (p q : MVPoly F) (x : List F)
    (hp : ∀ t ∈ termsOf p, Term.wf t = true) (hq : ∀ t ∈ termsOf q, Term.wf t = true)
    (h : p.length + q.length < n) :
    evalMV (mergeMV n p q) x = evalMV p x + evalMV q x := by
  induction n generalizing p q with
  | zero => omega
  | succ n ih =>
    cases p with
    | nil => simp [mergeMV]
    | cons a p =>
      cases q with
      | nil => simp [mergeMV]
      | cons b q =>
        simp only [mergeMV]
        simp only [List.length_cons] at h
        have hp' : ∀ t ∈ termsOf p, Term.wf t = true := fun t ht => hp t (by simp [termsOf] at ht ⊢; exact Or.inr ht)
        have hq' : ∀ t ∈ termsOf q, Term.wf t = true := fun t ht => hq t (by simp [termsOf] at ht ⊢; exact Or.inr ht)
        split
        · rw [evalMV_cons, ih p (b :: q) hp' hq (by simp only [List.length_cons]; omega)]
          simp only [evalMV_cons]; ring
        · split
          · rename_i heq
            have hab : a.2 = b.2 := Term.cmp_eq (hp a.2 (by simp [termsOf])) (hq b.2 (by simp [termsOf])) heq
            rw [evalMV_cons, ih p q hp' hq' (by omega)]
            simp only [evalMV_cons, hab]; ring
          · rw [evalMV_cons, ih (a :: p) q hp hq' (by simp only [List.length_cons]; omega)]
            simp only [evalMV_cons]; ring

theorem mem_mergeMV_term [DecidableEq F] (n : Nat) (p q : MVPoly F) (t : Term) :
    t ∈ termsOf (mergeMV n p q) → t ∈ termsOf p ∨ t ∈ termsOf q := by
  induction n generalizing p q with
  | zero => intro h; simp [mergeMV, termsOf] at h
  | succ n ih =>
    cases p with
    | nil => intro h; simp only [mergeMV] at h; exact Or.inr h
    | cons a p =>
      cases q with
      | nil => intro h; simp only [mergeMV] at h; exact Or.inl h
      | cons b q =>
        simp only [mergeMV]
        split
        · intro h
          simp only [termsOf, List.map_cons, List.mem_cons] at h
          rcases h with h | h
          · left; simp [termsOf, h]
          · rcases ih p (b :: q) h with h | h
            · left; simp only [termsOf, List.map_cons, List.mem_cons]; exact Or.inr h
            · right; exact h
        · split
          · intro h
            simp only [termsOf, List.map_cons, List.mem_cons] at h
            rcases h with h | h
            · left; simp [termsOf, h]
            · rcases ih p q h with h | h
              · left; simp only [termsOf, List.map_cons, List.mem_cons]; exact Or.inr h
              · right; simp only [termsOf, List.map_cons, List.mem_cons]; exact Or.inr h
          · intro h
            simp only [termsOf, List.map_cons, List.mem_cons] at h
            rcases h with h | h
            · right; simp [termsOf, h]
            · rcases ih (a :: p) q h with h | h
              · left; exact h
              · right; simp only [termsOf, List.map_cons, List.mem_cons]; exact Or.inr h

/-- `p += (f, q)` adds `f·q` as functions (terms built by `SparseTerm::new`). -/
theorem evalMV_addScaledMV [DecidableEq F] (p q : MVPoly F) (f : F) (x : List F)
    (hp : ∀ t ∈ termsOf p, Term.wf t = true) (hq : ∀ t ∈ termsOf q, Term.wf t = true) :
    evalMV (addScaledMV p f q) x = evalMV p x + f * evalMV q x := by
  unfold addScaledMV addMV
  rw [evalMV_removeZeros, evalMV_mergeMV _ _ _ _ hp (by rw [termsOf_scaleMV]; exact hq) (by omega),
    evalMV_scaleMV]

theorem mem_addScaledMV_term [DecidableEq F] (p q : MVPoly F) (f : F) (t : Term) :
    t ∈ termsOf (addScaledMV p f q) → t ∈ termsOf p ∨ t ∈ termsOf q := by
  intro h
  unfold addScaledMV addMV at h
  have := mem_mergeMV_term _ _ _ t (mem_removeZeros_term _ t h)
  rwa [termsOf_scaleMV] at this

/-- `degree()` bounds the degree of every term -/
theorem degree_le_degreeMV (p : MVPoly F) : ∀ t ∈ termsOf p, Term.degree t ≤ degreeMV p := by
  induction p with
  | nil => intro t ht; simp [termsOf] at ht
  | cons a p ih =>
    intro t ht
    simp only [termsOf, List.map_cons, List.mem_cons] at ht
    simp only [degreeMV]
    rcases ht with rfl | ht
    · exact Nat.le_max_left _ _
    · exact Nat.le_trans (ih t ht) (Nat.le_max_right _ _)

end MV
end PCV
