/-
  PCV.Proofs.BrakedownEnc — the Brakedown row encoder is a linear map of the declared length
  (compositional: every pass is built from takes, drops, appends, sparse products and evaluations).
-/
import PCV.Model.BrakedownEnc
import PCV.Proofs.RS

namespace PCV
namespace LinCode
variable {F : Type} [Field F]
set_option linter.unusedSectionVars false

/-- `f` commutes with linear combinations of equally long inputs, and its output length depends only
on the input length -/
def Lin (f : List F → List F) : Prop :=
  ∀ (a b : F) (x y : List F), x.length = y.length →
    f (lc a x b y) = lc a (f x) b (f y) ∧ (f x).length = (f y).length

theorem Lin.out_length {f : List F → List F} (hf : Lin f) (a b : F) (x y : List F)
    (h : x.length = y.length) : (f (lc a x b y)).length = (f x).length := by
  rw [(hf a b x y h).1, lc_length_eq _ _ _ _ (hf a b x y h).2]

theorem lin_id : Lin (fun x : List F => x) := fun _ _ _ _ h => ⟨rfl, h⟩

theorem lin_comp {f g : List F → List F} (hf : Lin f) (hg : Lin g) : Lin (fun x => g (f x)) := by
  intro a b x y h
  obtain ⟨h1, h2⟩ := hf a b x y h
  obtain ⟨h3, h4⟩ := hg a b (f x) (f y) h2
  refine ⟨?_, h4⟩
  show g (f (lc a x b y)) = lc a (g (f x)) b (g (f y))
  rw [h1, h3]

theorem lin_append {f g : List F → List F} (hf : Lin f) (hg : Lin g) :
    Lin (fun x => f x ++ g x) := by
  intro a b x y h
  obtain ⟨h1, h2⟩ := hf a b x y h
  obtain ⟨h3, h4⟩ := hg a b x y h
  refine ⟨?_, by simp [h2, h4]⟩
  show f (lc a x b y) ++ g (lc a x b y) = _
  rw [h1, h3, lc_append _ _ _ _ _ _ h2]

theorem lin_take (k : Nat) : Lin (fun x : List F => x.take k) := by
  intro a b x y h
  exact ⟨lc_take a b x y k, by simp [h]⟩

/-- dropping a number of entries that depends only on the length of the input -/
theorem lin_drop_dep (kf : List F → Nat) (hk : ∀ x y : List F, x.length = y.length → kf x = kf y) :
    Lin (fun x : List F => x.drop (kf x)) := by
  intro a b x y h
  have e1 : kf (lc a x b y) = kf x := hk _ _ (lc_length_eq a b x y h)
  have e2 : kf y = kf x := (hk _ _ h).symm
  refine ⟨?_, by simp [h, e2]⟩
  show (lc a x b y).drop (kf (lc a x b y)) = lc a (x.drop (kf x)) b (y.drop (kf y))
  rw [e1, e2, lc_drop]

theorem lin_drop (k : Nat) : Lin (fun x : List F => x.drop k) :=
  lin_drop_dep (fun _ => k) (fun _ _ _ => rfl)

theorem lin_slice (i j : Nat) : Lin (fun x : List F => slice x i j) :=
  lin_comp (lin_drop i) (lin_take (j - i))

theorem lin_evalAt (pts : List F) : Lin (fun x : List F => evalAt pts x) := by
  intro a b x y h
  exact ⟨evalAt_lc pts a b x y h, by simp [evalAt]⟩

theorem colDot_lc (a b : F) (x y : List F) (h : x.length = y.length) (col : List (Nat × F)) :
    colDot (lc a x b y) col = a * colDot x col + b * colDot y col := by
  unfold colDot
  induction col with
  | nil => simp [lsum]
  | cons e es ih =>
    simp only [List.map_cons, lsum] at ih ⊢
    rw [ih, getD'_lc a b x y h]; ring

theorem lin_rowMul (M : SprsMat F) : Lin (fun x : List F => M.rowMul x) := by
  intro a b x y h
  refine ⟨?_, by simp [SprsMat.rowMul]⟩
  show M.cols.map (colDot (lc a x b y)) = lc a (M.cols.map (colDot x)) b (M.cols.map (colDot y))
  rw [← lc_map]
  apply List.map_congr_left
  intro c _
  exact colDot_lc a b x y h c

theorem lin_padTo (k : Nat) : Lin (fun x : List F => padTo k x) := by
  unfold padTo
  apply lin_append (lin_take k)
  intro a b x y h
  refine ⟨?_, by simp [h]⟩
  show List.replicate (k - (lc a x b y).length) 0 =
    lc a (List.replicate (k - x.length) 0) b (List.replicate (k - y.length) 0)
  rw [lc_length_eq a b x y h, h, lc_replicate_zero]

theorem lin_setSlice (e : Nat) {g : List F → List F} (hg : Lin g) :
    Lin (fun x : List F => setSlice x e (g x)) := by
  unfold setSlice
  apply lin_append (lin_append (lin_take e) hg)
  apply lin_drop_dep (fun x => e + (g x).length)
  intro x y h
  have := (hg 1 1 x y h).2
  show e + (g x).length = e + (g y).length
  rw [this]

theorem lin_naiveRS (s ie oe : Nat) : Lin (fun x : List F => naiveRS x s ie oe) := by
  unfold naiveRS
  exact lin_setSlice s (lin_comp (lin_slice s ie) (lin_evalAt _))

theorem lin_fwdPass (steps : List (Nat × Nat × SprsMat F)) : Lin (fwdPass steps) := by
  induction steps with
  | nil => exact lin_id
  | cons st rest ih =>
    obtain ⟨s, an, A⟩ := st
    show Lin (fun cw => fwdPass rest (cw ++ A.rowMul (slice cw (s - an) s)))
    exact lin_comp (lin_append lin_id (lin_comp (lin_slice _ _) (lin_rowMul A))) ih

theorem lin_bwdPass (steps : List (Nat × Nat × SprsMat F)) : Lin (bwdPass steps) := by
  induction steps with
  | nil => exact lin_id
  | cons st rest ih =>
    obtain ⟨s, e, B⟩ := st
    show Lin (fun cw => bwdPass rest (setSlice cw e (B.rowMul (slice cw s e))))
    exact lin_comp (lin_setSlice e (lin_comp (lin_slice _ _) (lin_rowMul B))) ih

/-- **The Brakedown row encoding is linear** (forward sparse passes, naive Reed–Solomon base code,
backward sparse passes — by induction over the passes). -/
theorem lin_encodeCore (pp : BParams F) : Lin (encodeCore pp) := by
  unfold encodeCore
  exact lin_comp (lin_comp (lin_comp (lin_fwdPass _) (lin_padTo _)) (lin_naiveRS _ _ _))
    (lin_bwdPass _)

/-! ### length -/

theorem padTo_length (k : Nat) (cw : List F) : (padTo k cw).length = k := by
  unfold padTo; simp; omega

theorem setSlice_length (cw : List F) (e : Nat) (src : List F) (h : e + src.length ≤ cw.length) :
    (setSlice cw e src).length = cw.length := by
  unfold setSlice; simp; omega

theorem rowMul_length (M : SprsMat F) (v : List F) : (M.rowMul v).length = M.cols.length := by
  simp [SprsMat.rowMul]

theorem ptsFrom_length (x : F) (k : Nat) : (ptsFrom x k).length = k := by
  induction k generalizing x with
  | zero => rfl
  | succ k ih => simp [ptsFrom, ih]

theorem naiveRS_length (cw : List F) (s ie oe : Nat) (h1 : s ≤ oe) (h2 : oe ≤ cw.length) :
    (naiveRS cw s ie oe).length = cw.length := by
  unfold naiveRS
  apply setSlice_length
  rw [evalAt_length, ptsFrom_length]; omega

theorem bwdPass_length (k : Nat) (steps : List (Nat × Nat × SprsMat F)) (cw : List F)
    (hfit : ∀ st ∈ steps, st.2.1 + st.2.2.cols.length ≤ k) (hk : cw.length = k) :
    (bwdPass steps cw).length = k := by
  induction steps generalizing cw with
  | nil => exact hk
  | cons st rest ih =>
    obtain ⟨s, e, B⟩ := st
    show (bwdPass rest (setSlice cw e (B.rowMul (slice cw s e)))).length = k
    apply ih
    · intro st hst; exact hfit st (List.mem_cons_of_mem _ hst)
    · have := hfit (s, e, B) (by simp)
      rw [setSlice_length _ _ _ (by rw [rowMul_length]; simpa [hk] using this), hk]

theorem bwdOk_fits (k : Nat) (steps : List (Nat × Nat × SprsMat F)) (bcs : List Nat)
    (hlen : steps.length ≤ bcs.length) (h : bwdOk k (steps.zip bcs) = true) :
    ∀ st ∈ steps, st.2.1 + st.2.2.cols.length ≤ k := by
  induction steps generalizing bcs with
  | nil => intro st hst; cases hst
  | cons st rest ih =>
    cases bcs with
    | nil => simp at hlen
    | cons bc bcs =>
      obtain ⟨s, e, B⟩ := st
      simp only [List.zip_cons_cons, bwdOk, Bool.and_eq_true, decide_eq_true_eq] at h
      intro st hst
      rcases List.mem_cons.1 hst with rfl | hst
      · have := h.1.1; simp only; omega
      · exact ih bcs (by simpa using hlen) h.2 st hst

theorem bwdSteps_length (pp : BParams F) :
    (bwdSteps pp).length = min (min pp.start.length pp.stop.length) pp.bMats.length := by
  simp [bwdSteps]

/-- the codeword has the declared length `m_ext` whenever the parameter tables are consistent -/
theorem encodeCore_length (pp : BParams F) (msg : List F) (h : shapeOk pp = true) :
    (encodeCore pp msg).length = pp.mExt := by
  unfold shapeOk at h
  simp only [Bool.and_eq_true, decide_eq_true_eq] at h
  obtain ⟨⟨⟨hl, _⟩, hrs⟩, hb⟩ := h
  unfold encodeCore
  apply bwdPass_length
  · apply bwdOk_fits _ _ _ _ hb
    rw [bwdSteps_length, List.length_map]; omega
  · rw [naiveRS_length _ _ _ _ hrs.2.2.1 (by rw [padTo_length]; exact hrs.2.2.2), padTo_length]

/-! ### the checked encoder -/

theorem encode_ok_iff (pp : BParams F) (msg cw : List F) :
    encode pp msg = .ok cw ↔ msg.length = pp.m ∧ shapeOk pp = true ∧ cw = encodeCore pp msg := by
  unfold encode
  by_cases h1 : msg.length = pp.m
  · by_cases h2 : shapeOk pp = true
    · simp [h1, h2, eq_comm]
    · simp [h1, h2]
  · simp [h1]

/-- **Brakedown**: `E(a·x + b·y) = a·E(x) + b·E(y)` whenever `x` and `y` are encoded. -/
theorem encode_linear (pp : BParams F) (a b : F) (x y cx cy : List F)
    (hx : encode pp x = .ok cx) (hy : encode pp y = .ok cy) :
    encode pp (lc a x b y) = .ok (lc a cx b cy) := by
  rw [encode_ok_iff] at hx hy ⊢
  obtain ⟨hx1, hs, rfl⟩ := hx
  obtain ⟨hy1, _, rfl⟩ := hy
  have hxy : x.length = y.length := by rw [hx1, hy1]
  exact ⟨by rw [lc_length_eq a b x y hxy, hx1], hs, ((lin_encodeCore pp) a b x y hxy).1.symm⟩

/-- **Brakedown**: every codeword has the declared length. -/
theorem encode_length (pp : BParams F) (x cx : List F) (hx : encode pp x = .ok cx) :
    cx.length = pp.mExt := by
  rw [encode_ok_iff] at hx
  obtain ⟨_, hs, rfl⟩ := hx
  exact encodeCore_length pp x hs

/-- a message of the wrong length is refused -/
theorem encode_wrong_length (pp : BParams F) (x : List F) (h : x.length ≠ pp.m) :
    encode pp x = .error .encodingError := by
  unfold encode; simp [h]

/-- a one-level toy code for the non-vacuity examples: `m = 2`, `A : 2×1`, base code of length 2,
`B : 2×1`, `m_ext = 5` -/
def toyParams (F : Type) [Field F] : BParams F :=
  { m := 2, mExt := 5, aDims := [(2, 1)], bDims := [(2, 1)], start := [2], stop := [4],
    aMats := [⟨[[(0, 3), (1, 4)]]⟩], bMats := [⟨[[(0, 1), (1, 2)]]⟩] }

end LinCode
end PCV
