/-
  PCV.Proofs.MarlinBatchShift — the exact effect of ANY change of the claimed values of a batch on the
  decision of `MarlinKZG10::batch_check`: the evaluation map is shifted by an arbitrary function `δ` of
  the key (label, point); every point label's combined value moves by the challenge-weighted sum of its
  members' shifts, and the batch decision moves by `h · Σₖ ρₖ · ⟨κₖ, dsₖ⟩`.
-/
import PCV.Proofs.MarlinBatch
import PCV.Proofs.KZG10Batch

set_option linter.unusedSectionVars false
set_option linter.unusedVariables false

namespace PCV
namespace Marlin
variable {F : Type} [Field F] [DecidableEq F]

/-- shift every claimed value by a function of its key -/
def shiftEvals (δ : Label × F → F) (evals : List ((Label × F) × F)) : List ((Label × F) × F) :=
  evals.map fun e => (e.1, e.2 + δ e.1)

theorem lookupEval_shift_aux (δ : Label × F → F) (evals : List ((Label × F) × F)) (l : Label) (z : F)
    (acc : Option F) :
    (shiftEvals δ evals).foldl (fun a e => if e.1 = (l, z) then some e.2 else a)
        (acc.map (· + δ (l, z)))
      = (evals.foldl (fun a e => if e.1 = (l, z) then some e.2 else a) acc).map (· + δ (l, z)) := by
  induction evals generalizing acc with
  | nil => rfl
  | cons e es ih =>
    simp only [shiftEvals, List.map_cons, List.foldl_cons]
    by_cases he : e.1 = (l, z)
    · simp only [he, if_true]
      have := ih (some e.2)
      simp only [shiftEvals, Option.map_some, he] at this
      exact this
    · simp only [he, if_false]
      exact ih acc

theorem lookupEval_shift (δ : Label × F → F) (evals : List ((Label × F) × F)) (l : Label) (z : F) :
    lookupEval (shiftEvals δ evals) l z = (lookupEval evals l z).map (· + δ (l, z)) := by
  have := lookupEval_shift_aux δ evals l z none
  simpa [lookupEval] using this

/-- the shifts of one point label's members, in the order `gatherComms` visits them -/
def groupDs (δ : Label × F → F) (z : F) (ls : List Label) : List F := ls.map fun l => δ (l, z)

theorem gatherComms_shift (comms : List (LComm F)) (evals : List ((Label × F) × F))
    (δ : Label × F → F) (z : F) (ls : List Label) (cs : List (LComm F)) (vs : List F)
    (h : gatherComms comms evals z ls = .ok (cs, vs)) :
    gatherComms comms (shiftEvals δ evals) z ls = .ok (cs, List.zipWith (· + ·) vs (groupDs δ z ls)) ∧
      vs.length = ls.length := by
  induction ls generalizing cs vs with
  | nil =>
    simp only [gatherComms] at h ⊢
    injection h with h; injection h with h1 h2
    subst h1; subst h2
    exact ⟨rfl, rfl⟩
  | cons l ls ih =>
    simp only [gatherComms] at h ⊢
    split at h
    · cases h
    · rename_i c hc
      split at h
      · cases h
      · rename_i hassert
        rw [if_neg hassert]
        split at h
        · cases h
        · rename_i v hv
          split at h
          · cases h
          · rename_i cs' vs' hrec
            injection h with h; injection h with h1 h2
            subst h1; subst h2
            obtain ⟨ih1, ih2⟩ := ih cs' vs' hrec
            rw [lookupEval_shift, hv]
            simp only [Option.map_some, ih1]
            exact ⟨rfl, by simp [ih2]⟩

/-- `Σ` of the challenge-weighted shifts, per point label, threading the challenges as
`combine_and_normalize` does -/
def groupShifts (vk : VK F) (comms : List (LComm F)) (evals : List ((Label × F) × F))
    (δ : Label × F → F) : List (Label × (F × List Label)) → List F → List F
  | [], _ => []
  | g :: gs, ξs =>
    match gatherComms comms evals g.2.1 g.2.2 with
    | .error _ => []
    | .ok (cs, vs) =>
      match accumulate vk cs vs ξs with
      | .error _ => []
      | .ok (_, ξs') =>
        dot (kappa vk cs ξs) (groupDs δ g.2.1 g.2.2) :: groupShifts vk comms evals δ gs ξs'

/-- pointwise relation between the triples of the original and of the shifted statement -/
def TripShift (g : F) : List (F × F × F) → List (F × F × F) → List F → Prop
  | [], [], [] => True
  | t :: ts, t' :: ts', d :: ds =>
    t'.2.1 = t.2.1 ∧ (t'.1 - t'.2.2 * g) = (t.1 - t.2.2 * g) - d ∧ TripShift g ts ts' ds
  | _, _, _ => False

theorem combineGroups_shift (vk : VK F) (comms : List (LComm F)) (evals : List ((Label × F) × F))
    (δ : Label × F → F) (gs : List (Label × (F × List Label))) (ξs : List F)
    (trip : List (F × F × F)) (rest : List F)
    (h : combineGroups vk comms evals gs ξs = .ok (trip, rest)) :
    ∃ trip', combineGroups vk comms (shiftEvals δ evals) gs ξs = .ok (trip', rest) ∧
      TripShift vk.vk.g trip trip' (groupShifts vk comms evals δ gs ξs) := by
  induction gs generalizing ξs trip rest with
  | nil =>
    simp only [combineGroups] at h ⊢
    injection h with h; injection h with h1 h2
    subst h1; subst h2
    exact ⟨[], rfl, trivial⟩
  | cons g gs ih =>
    simp only [combineGroups] at h ⊢
    split at h
    · cases h
    · rename_i cs vs hg
      split at h
      · cases h
      · rename_i C V ξs' hacc
        split at h
        · cases h
        · rename_i rest' r hrec
          injection h with h; injection h with h1 h2
          subst h1; subst h2
          obtain ⟨hg', hlen⟩ := gatherComms_shift comms evals δ g.2.1 g.2.2 cs vs hg
          obtain ⟨C', V', hacc', he⟩ := accumulate_perturb vk cs vs (groupDs δ g.2.1 g.2.2) ξs
            (by simp [groupDs, hlen]) C V ξs' hacc
          obtain ⟨trip', ht', hs'⟩ := ih ξs' rest' r hrec
          refine ⟨(C', g.2.1, V') :: trip', ?_, ?_⟩
          · simp only [hg', hacc', ht']
          · simp only [groupShifts, hg, hacc]
            exact ⟨rfl, he, hs'⟩

theorem tripShift_lengths (g : F) (ts ts' : List (F × F × F)) (ds : List F)
    (h : TripShift g ts ts' ds) : ts'.length = ts.length ∧ ds.length = ts.length := by
  induction ts generalizing ts' ds with
  | nil =>
    cases ts' <;> cases ds <;> simp_all [TripShift]
  | cons t ts ih =>
    cases ts' with
    | nil => cases ds <;> simp [TripShift] at h
    | cons t' ts' =>
      cases ds with
      | nil => simp [TripShift] at h
      | cons d ds =>
        obtain ⟨_, _, h3⟩ := h
        obtain ⟨a, b⟩ := ih ts' ds h3
        simp [a, b]

/-- the randomizer-weighted sum of the KZG defects moves by `h · Σ ρₖ dₖ` -/
theorem wsum_defects_shift (vk : KZG.VK F) (ts ts' : List (F × F × F)) (ds : List F)
    (πs : List (KZG.Proof F)) (r : F) (rs : List F)
    (h : TripShift vk.g ts ts' ds) :
    KZG.wsum r rs (KZG.defects vk (ts'.map (·.1)) (ts'.map (·.2.1)) (ts'.map (·.2.2)) πs)
      = KZG.wsum r rs (KZG.defects vk (ts.map (·.1)) (ts.map (·.2.1)) (ts.map (·.2.2)) πs)
        - vk.h * KZG.wsum r rs (ds.take πs.length) := by
  induction ts generalizing ts' ds πs r rs with
  | nil =>
    cases ts' <;> cases ds <;> simp_all [TripShift, KZG.defects, KZG.wsum]
  | cons t ts ih =>
    cases ts' with
    | nil => cases ds <;> simp [TripShift] at h
    | cons t' ts' =>
      cases ds with
      | nil => simp [TripShift] at h
      | cons d ds =>
        obtain ⟨h1, h2, h3⟩ := h
        cases πs with
        | nil => simp [KZG.defects, KZG.wsum]
        | cons π πs =>
          have := ih ts' ds πs (rs.headD 0) rs.tail h3
          simp only [List.map_cons, KZG.defects, KZG.wsum, List.length_cons, List.take_succ_cons]
          rw [this, h1]
          unfold KZG.defect
          linear_combination (r * vk.h) * h2

/-- **Any change of the claimed values of a batch.** From an accepted batch, the batch with the values
shifted by an arbitrary `δ` is accepted iff `h · Σₖ ρₖ · ⟨κₖ, dsₖ⟩ = 0`, the sum over point labels of
the randomizer times the challenge-weighted shifts of that label's members. -/
theorem batchCheck_shift_iff (vk : VK F) (comms : List (LComm F)) (qs : List (Query F))
    (evals : List ((Label × F) × F)) (δ : Label × F → F) (πs : List (KZG.Proof F)) (ξs rs : List F)
    (trip : List (F × F × F)) (rest : List F)
    (hc : combineGroups vk comms evals (groupQueries qs) ξs = .ok (trip, rest))
    (hlen : πs.length = trip.length)
    (hacc : batchCheck vk comms qs evals πs ξs rs = .ok true) :
    batchCheck vk comms qs (shiftEvals δ evals) πs ξs rs = .ok true ↔
      vk.vk.h * KZG.wsum 1 rs (groupShifts vk comms evals δ (groupQueries qs) ξs) = 0 := by
  obtain ⟨trip', hc', hs⟩ := combineGroups_shift vk comms evals δ (groupQueries qs) ξs trip rest hc
  obtain ⟨l1, l2⟩ := tripShift_lengths _ _ _ _ hs
  have dec : ∀ (tr : List (F × F × F)) (ev : List ((Label × F) × F)),
      combineGroups vk comms ev (groupQueries qs) ξs = .ok (tr, rest) → πs.length = tr.length →
      batchCheck vk comms qs ev πs ξs rs
        = .ok (decide (KZG.wsum 1 rs (KZG.defects vk.vk (tr.map (·.1)) (tr.map (·.2.1))
            (tr.map (·.2.2)) πs) = 0)) := by
    intro tr ev h1 h2
    unfold batchCheck
    rw [h1]
    simp only
    rw [if_neg (by simpa using h2)]
    rw [KZG.batchCheck_ok _ _ _ _ _ _ (by simp [h2]), KZG.batchDefect_eq]
  rw [dec trip evals hc hlen] at hacc
  rw [dec trip' _ hc' (by rw [l1]; exact hlen)]
  injection hacc with hacc
  rw [decide_eq_true_iff] at hacc
  rw [wsum_defects_shift vk.vk trip trip' _ πs 1 rs hs, hacc]
  have htake : (groupShifts vk comms evals δ (groupQueries qs) ξs).take πs.length
      = groupShifts vk comms evals δ (groupQueries qs) ξs := by
    apply List.take_of_length_le
    rw [l2, hlen]
  rw [htake]
  constructor
  · intro hx
    injection hx with hx
    rw [decide_eq_true_iff] at hx
    linear_combination -hx
  · intro hx
    congr 1
    rw [decide_eq_true_iff]
    linear_combination -hx

end Marlin
end PCV
