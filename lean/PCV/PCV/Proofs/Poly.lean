/-
  PCV.Proofs.Poly — list-algebra lemma library over an arbitrary field.
-/
import PCV.Model.Poly
import Mathlib.Tactic.Ring
import Mathlib.Tactic.LinearCombination
import Mathlib.Algebra.Field.Basic

namespace PCV
variable {F : Type} [Field F]

@[simp] theorem evalPoly_nil (x : F) : evalPoly ([] : List F) x = 0 := rfl
@[simp] theorem evalPoly_cons (c : F) (cs : List F) (x : F) :
    evalPoly (c :: cs) x = c + x * evalPoly cs x := rfl

theorem divLin_spec (p : List F) (z x : F) :
    evalPoly p x = (x - z) * evalPoly (divLin p z).1 x + (divLin p z).2 := by
  induction p with
  | nil => simp [divLin]
  | cons c cs ih =>
    simp only [divLin, evalPoly_cons] at ih ⊢
    linear_combination x * ih

theorem divLin_rem (p : List F) (z : F) : (divLin p z).2 = evalPoly p z := by
  have := divLin_spec p z z; simp at this; exact this.symm

theorem divLin_len (p : List F) (z : F) : (divLin p z).1.length = p.length := by
  induction p with
  | nil => simp [divLin]
  | cons c cs ih => simp [divLin, ih]

/-- the quotient identity used by every KZG-style completeness proof -/
theorem divLin_quot (p : List F) (z x : F) :
    evalPoly p x - evalPoly p z = (x - z) * evalPoly (divLin p z).1 x := by
  have h := divLin_spec p z x
  rw [divLin_rem] at h
  linear_combination h

@[simp] theorem dot_nil_left (b : List F) : dot ([] : List F) b = 0 := by
  cases b <;> rfl
@[simp] theorem dot_nil_right (a : List F) : dot a ([] : List F) = 0 := by
  cases a <;> rfl
@[simp] theorem dot_cons (a b : F) (as bs : List F) :
    dot (a :: as) (b :: bs) = a * b + dot as bs := rfl

theorem dot_comm (a b : List F) : dot a b = dot b a := by
  induction a generalizing b with
  | nil => simp
  | cons x xs ih => cases b with
    | nil => simp
    | cons y ys => simp [ih ys, mul_comm]

theorem dot_powers (p : List F) (g β : F) (n : Nat) (h : p.length ≤ n) :
    dot p (powers g β n) = g * evalPoly p β := by
  induction p generalizing g n with
  | nil => simp
  | cons c cs ih =>
    cases n with
    | zero => simp at h
    | succ n =>
      simp only [powers, dot_cons, evalPoly_cons]
      rw [ih (β * g) n (by simpa using h)]
      ring

theorem powers_length (g β : F) (n : Nat) : (powers g β n).length = n := by
  induction n generalizing g with
  | zero => rfl
  | succ n ih => simp [powers, ih]

theorem eval_padd (p q : List F) (x : F) :
    evalPoly (padd p q) x = evalPoly p x + evalPoly q x := by
  induction p generalizing q with
  | nil => simp [padd]
  | cons a p ih =>
    cases q with
    | nil => simp [padd]
    | cons b q => simp only [padd, evalPoly_cons]; rw [ih q]; ring

theorem eval_pscale (c : F) (p : List F) (x : F) :
    evalPoly (pscale c p) x = c * evalPoly p x := by
  induction p with
  | nil => simp [pscale]
  | cons a p ih =>
    simp only [pscale, List.map_cons, evalPoly_cons] at ih ⊢; rw [ih]; ring

theorem padd_len (p q : List F) : (padd p q).length = max p.length q.length := by
  induction p generalizing q with
  | nil => simp [padd]
  | cons a p ih => cases q with
    | nil => simp [padd]
    | cons b q => simp [padd, ih]

theorem pscale_len (c : F) (p : List F) : (pscale c p).length = p.length := by
  simp [pscale]

@[simp] theorem fpow_zero (x : F) : fpow x 0 = 1 := rfl
theorem fpow_succ (x : F) (n : Nat) : fpow x (n + 1) = x * fpow x n := rfl

theorem fpow_add (x : F) (a b : Nat) : fpow x (a + b) = fpow x a * fpow x b := by
  induction a with
  | zero => simp [fpow]
  | succ a ih => rw [Nat.succ_add]; simp only [fpow, ih]; ring

theorem fpow_succ' (x : F) (a : Nat) : fpow x (a + 1) = fpow x a * x := by
  rw [fpow_add]; simp [fpow]

theorem eval_pshift (k : Nat) (p : List F) (x : F) :
    evalPoly (pshift k p) x = fpow x k * evalPoly p x := by
  induction k with
  | zero => simp [pshift, fpow]
  | succ k ih =>
    simp only [pshift, List.replicate_succ, List.cons_append, evalPoly_cons, fpow] at ih ⊢
    rw [ih]; ring

/-! ### normalisation -/

theorem eval_pnorm [DecidableEq F] (p : List F) (x : F) : evalPoly (pnorm p) x = evalPoly p x := by
  induction p with
  | nil => rfl
  | cons c cs ih =>
    simp only [pnorm]
    split
    · rename_i h
      rw [h] at ih
      simp only [evalPoly_nil] at ih
      split
      · rename_i hc; simp [hc, ← ih]
      · simp [← ih]
    · rename_i h
      simp only [evalPoly_cons, ih]

theorem dot_pnorm [DecidableEq F] (p b : List F) : dot (pnorm p) b = dot p b := by
  induction p generalizing b with
  | nil => rfl
  | cons c cs ih =>
    cases b with
    | nil => simp
    | cons y ys =>
      simp only [pnorm]
      split
      · rename_i h
        have := ih ys
        rw [h] at this
        simp only [dot_nil_left] at this
        split
        · rename_i hc; simp [hc, ← this]
        · simp [← this]
      · rename_i h
        simp only [dot_cons, ih ys]

theorem pnorm_length_le [DecidableEq F] (p : List F) : (pnorm p).length ≤ p.length := by
  induction p with
  | nil => simp [pnorm]
  | cons c cs ih =>
    simp only [pnorm]
    split
    · split <;> simp
    · rename_i h; simp only [List.length_cons]; omega

/-- a dot product with a well-formed power list sees only the normalised polynomial -/
theorem dot_powers' [DecidableEq F] (p : List F) (g β : F) (n : Nat)
    (h : (pnorm p).length ≤ n) : dot p (powers g β n) = g * evalPoly p β := by
  rw [← dot_pnorm, dot_powers _ g β n h, eval_pnorm]

theorem pnorm_nil_cons [DecidableEq F] (c : F) (cs : List F) (h : pnorm (c :: cs) = []) :
    c = 0 ∧ pnorm cs = [] := by
  simp only [pnorm] at h
  split at h
  · split at h
    · exact ⟨by assumption, by assumption⟩
    · cases h
  · cases h

theorem eval_of_pnorm_nil [DecidableEq F] (p : List F) (x : F) (h : pnorm p = []) :
    evalPoly p x = 0 := by
  rw [← eval_pnorm, h]; rfl

theorem divLin_of_pnorm_nil [DecidableEq F] (p : List F) (z : F) (h : pnorm p = []) :
    pnorm (divLin p z).1 = [] ∧ (divLin p z).2 = 0 := by
  induction p with
  | nil => simp [divLin, pnorm]
  | cons c cs ih =>
    obtain ⟨hc, hcs⟩ := pnorm_nil_cons c cs h
    obtain ⟨h1, h2⟩ := ih hcs
    simp only [divLin, pnorm, h1, h2, hc]
    simp

theorem eval_divLin_of_pnorm_nil [DecidableEq F] (p : List F) (z x : F) (h : pnorm p = []) :
    evalPoly (divLin p z).1 x = 0 :=
  eval_of_pnorm_nil _ x (divLin_of_pnorm_nil p z h).1

/-- the quotient by `X - z` is never longer (after normalisation) than the dividend -/
theorem pnorm_divLin_le [DecidableEq F] (p : List F) (z : F) :
    (pnorm (divLin p z).1).length ≤ (pnorm p).length := by
  induction p with
  | nil => simp [divLin, pnorm]
  | cons c cs ih =>
    by_cases hcs : pnorm cs = []
    · have := (divLin_of_pnorm_nil (c :: cs) z)
      by_cases hc : c = 0
      · have hn : pnorm (c :: cs) = [] := by simp [pnorm, hcs, hc]
        rw [(this hn).1]; simp
      · have h1 := divLin_of_pnorm_nil cs z hcs
        simp only [divLin, pnorm, h1.1, h1.2, hcs, hc]
        simp
    · have hl : (pnorm (c :: cs)).length = (pnorm cs).length + 1 := by
        have : pnorm (c :: cs) = c :: pnorm cs := by
          cases hq : pnorm cs with
          | nil => exact absurd hq hcs
          | cons a as => simp only [pnorm, hq]
        rw [this]; simp
      rw [hl]
      simp only [divLin]
      have := pnorm_length_le ((divLin cs z).2 :: (divLin cs z).1)
      simp only [pnorm]
      split
      · split <;> simp
      · rename_i h; simp only [List.length_cons]; omega

/-! ### skipping low-order zeros is the identity on the MSM -/

theorem dot_skipLowZeros [DecidableEq F] (p b : List F) :
    dot (b.drop (skipLowZeros p).1) (skipLowZeros p).2 = dot b p := by
  induction p generalizing b with
  | nil => simp [skipLowZeros]
  | cons c cs ih =>
    simp only [skipLowZeros]
    split
    · rename_i hc
      cases b with
      | nil => simp
      | cons y ys =>
        have := ih ys
        simp only [List.drop_succ_cons, dot_cons, hc, mul_zero, zero_add]
        simpa using this
    · simp

end PCV
