/-
  PCV.Proofs.MLPCSetup — `MultilinearPC::setup` builds the `eq`-tensor tables of its trapdoor:
  `setup nv g h t = .ok (wfParams g h t)` (`setup_eq`).  The proof follows the code: the rows of
  `eq_extension`, the running product `base` of the reversed loop, `remove_dummy_variable`
  (`x ↦ x << pad`), the flattening into `pp_powers` and the re-slicing after `batch_mul`.
-/
import PCV.Proofs.MLPC

set_option linter.unusedSectionVars false

namespace PCV
namespace MLPC
variable {F : Type} [Field F]

/-- product of the `eq` factors of the variables `s`, read at bit positions `i, i+1, …` of `x`
(in the multiplication order of the loop `base = base * mul`) -/
def eqProd : List F → Nat → Nat → F
  | [], _, _ => 1
  | a :: r, i, x => eqProd r (i + 1) x * eqEntry a (Nat.testBit x i)

/-- the running product `base` when the loop index is `i` and `s = t[i..]` -/
def bfun (n : Nat) (s : List F) (i : Nat) : List F := (List.range (2 ^ n)).map (eqProd s i)

/-- the table `remove_dummy_variable` extracts for the suffix `s` -/
def rawTable (s : List F) : List F := (List.range (2 ^ s.length)).map (eqProd s 0)

/-- `eq_arr` -/
def sufTables : List F → List (List F)
  | [] => []
  | a :: s => rawTable (a :: s) :: sufTables s

/-- the rows of `eq_extension` for the reversed prefix `p` (`pop_back` order) -/
def rowsRev (n : Nat) : List F → List (List F)
  | [] => []
  | a :: p => eqRow n p.length a :: rowsRev n p

theorem eqEntry_false (a : F) : eqEntry a false = 1 - a := by
  simp only [eqEntry, Bool.false_eq_true, if_false]; ring
theorem eqEntry_true (a : F) : eqEntry a true = a := by
  simp only [eqEntry, if_true]; ring

theorem rev_rows (n k : Nat) (s pr : List F) (hk : pr.length = k) :
    (eqExtensionFrom n k s).reverse ++ rowsRev n pr = rowsRev n (s.reverse ++ pr) := by
  induction s generalizing k pr with
  | nil => simp [eqExtensionFrom]
  | cons a s ih =>
    simp only [eqExtensionFrom, List.reverse_cons, List.append_assoc, List.singleton_append]
    have := ih (k + 1) (a :: pr) (by simp [hk])
    rw [← this]
    simp only [rowsRev, hk]

theorem eqExtension_reverse (t : List F) : (eqExtension t).reverse = rowsRev t.length t.reverse := by
  have := rev_rows t.length 0 t [] rfl
  simpa [rowsRev, eqExtension] using this

theorem zip_step (n i : Nat) (a : F) (s : List F) :
    List.zipWith (· * ·) (bfun n s (i + 1)) (eqRow n i a) = bfun n (a :: s) i := by
  unfold bfun eqRow
  rw [List.zipWith_map, List.zipWith_self]
  rfl

theorem eqProd_shift (s : List F) (i k x : Nat) : eqProd s (i + k) (x <<< i) = eqProd s k x := by
  induction s generalizing k with
  | nil => rfl
  | cons a r ih =>
    simp only [eqProd]
    rw [show i + k + 1 = i + (k + 1) by omega, ih (k + 1)]
    congr 2
    rw [Nat.testBit_shiftLeft]
    simp

theorem eqProd_half (s : List F) (k x : Nat) : eqProd s (k + 1) x = eqProd s k (x / 2) := by
  induction s generalizing k with
  | nil => rfl
  | cons a r ih =>
    simp only [eqProd]
    rw [ih (k + 1), Nat.testBit_succ]

theorem getD'_map_range (f : Nat → F) (N k : Nat) (d : F) (hk : k < N) :
    getD' ((List.range N).map f) k d = f k := by
  unfold getD'
  simp [hk]

theorem removeDummy_bfun (n i : Nat) (s : List F) (hn : n = i + s.length) :
    removeDummyVariable (bfun n s i) i = .ok (rawTable s) := by
  unfold removeDummyVariable
  by_cases hi : i = 0
  · subst hi
    simp only [if_true]
    have : n = s.length := by omega
    subst this
    rfl
  · have hlen : (bfun n s i).length = 2 ^ n := by simp [bfun]
    rw [if_neg hi, hlen, Nat.log2_two_pow, if_neg (by simp), if_neg (by omega)]
    have hns : n - i = s.length := by omega
    rw [hns]
    unfold rawTable
    dsimp only
    congr 1
    apply List.map_congr_left
    intro x hx
    rw [List.mem_range] at hx
    have hlt : x <<< i < 2 ^ n := by
      rw [Nat.shiftLeft_eq, hn, Nat.add_comm i, pow_add]
      exact Nat.mul_lt_mul_of_lt_of_le hx (le_refl _) (Nat.two_pow_pos i)
    unfold bfun
    rw [getD'_map_range _ _ _ _ hlt]
    have := eqProd_shift s i 0 x
    simpa using this

/-- the reversed loop of `setup` builds the suffix tables -/
theorem eqArrLoop_spec (n : Nat) (pr : List F) (a : F) (s : List F)
    (hn : n = pr.length + (s.length + 1)) :
    eqArrLoop (pr.length + 1) (rowsRev n pr) (bfun n (a :: s) pr.length) (sufTables s)
      = .ok (sufTables (pr.reverse ++ a :: s)) := by
  induction pr generalizing a s with
  | nil =>
    simp only [List.length_nil, eqArrLoop, List.reverse_nil, List.nil_append]
    rw [removeDummy_bfun n 0 (a :: s) (by simpa using hn)]
    simp [sufTables]
  | cons b p ih =>
    simp only [List.length_cons, rowsRev]
    unfold eqArrLoop
    rw [removeDummy_bfun n (p.length + 1) (a :: s) (by simp only [List.length_cons] at hn ⊢; omega)]
    simp only [ne_eq, Nat.add_eq_zero_iff, one_ne_zero, and_false, not_false_eq_true, if_true]
    rw [zip_step n p.length b (a :: s)]
    have := ih b (a :: s) (by simp only [List.length_cons] at hn ⊢; omega)
    simp only [sufTables] at this
    rw [this]
    simp

theorem rawTable_length (s : List F) : (rawTable s).length = 2 ^ s.length := by simp [rawTable]

theorem range_getD' (l : List F) (d : F) :
    (List.range l.length).map (fun x => getD' l x d) = l := by
  apply List.ext_getElem
  · simp
  · intro i h1 h2
    simp [getD', List.getElem?_eq_getElem h2]

theorem flattenLoop_spec (n : Nat) (s : List F) (i : Nat) (hn : i + s.length = n) :
    flattenLoop n s.length i (sufTables s) = .ok (sufTables s).flatten := by
  induction s generalizing i with
  | nil => simp [flattenLoop, sufTables]
  | cons a s ih =>
    simp only [List.length_cons, flattenLoop, sufTables, List.flatten_cons]
    have hni : n - i = s.length + 1 := by simp only [List.length_cons] at hn; omega
    rw [hni, if_neg (by rw [rawTable_length]; simp)]
    rw [ih (i + 1) (by simp only [List.length_cons] at hn; omega)]
    simp only
    have := range_getD' (rawTable (a :: s)) (0 : F)
    rw [rawTable_length] at this
    simp only [List.length_cons] at this
    rw [this]

theorem slice_mid (pre tb post : List F) :
    slice (pre ++ tb ++ post) pre.length (pre.length + tb.length) = tb := by
  unfold slice
  rw [List.append_assoc, List.drop_left, show pre.length + tb.length - pre.length = tb.length by omega,
    List.take_left]

theorem resliceLoop_spec (n : Nat) (c : F) (pp : List F) (s pre : List F) (i : Nat)
    (hn : i + s.length = n)
    (hpp : pp = pre ++ ((sufTables s).map (batchMul c)).flatten) :
    resliceLoop n pp s.length i pre.length = .ok ((sufTables s).map (batchMul c)) := by
  induction s generalizing pre i with
  | nil => simp [resliceLoop, sufTables]
  | cons a s ih =>
    simp only [List.length_cons, resliceLoop, sufTables, List.map_cons]
    have hni : n - i = s.length + 1 := by simp only [List.length_cons] at hn; omega
    have htb : (batchMul c (rawTable (a :: s))).length = 2 ^ (s.length + 1) := by
      rw [batchMul_length, rawTable_length]; rfl
    rw [hni]
    simp only [sufTables, List.map_cons, List.flatten_cons] at hpp
    have hlen : pre.length + 2 ^ (s.length + 1) ≤ pp.length := by
      rw [hpp]; simp only [List.length_append, htb]; omega
    rw [if_neg (by omega)]
    have h2 : pre.length + 2 ^ (s.length + 1) = (pre ++ batchMul c (rawTable (a :: s))).length := by
      rw [List.length_append, htb]
    rw [h2, ih (pre ++ batchMul c (rawTable (a :: s))) (i + 1)
      (by simp only [List.length_cons] at hn; omega) (by rw [hpp, List.append_assoc])]
    simp only
    rw [← h2, ← htb, hpp, ← List.append_assoc, slice_mid]

/-! ### the extracted tables are the `eq`-tensors -/

theorem weave_append (a : F) (l₁ l₂ : List F) : weave a (l₁ ++ l₂) = weave a l₁ ++ weave a l₂ := by
  induction l₁ with
  | nil => rfl
  | cons e es ih => simp [weave, ih]

theorem range_double (a : F) (f g : Nat → F) (N : Nat)
    (h0 : ∀ b, f (2 * b) = (1 - a) * g b) (h1 : ∀ b, f (2 * b + 1) = a * g b) :
    (List.range (2 * N)).map f = weave a ((List.range N).map g) := by
  induction N with
  | zero => rfl
  | succ N ih =>
    rw [show 2 * (N + 1) = 2 * N + 1 + 1 by omega, List.range_succ, List.range_succ,
      List.range_succ (n := N)]
    simp only [List.map_append, List.map_cons, List.map_nil, weave_append, weave, ih, h0, h1,
      List.append_assoc, List.cons_append, List.nil_append]

theorem rawTable_eq (s : List F) : rawTable s = eqTable s := by
  induction s with
  | nil => simp [rawTable, eqTable, eqProd]
  | cons a r ih =>
    unfold rawTable at ih ⊢
    simp only [eqTable, List.length_cons]
    rw [← ih, show 2 ^ (r.length + 1) = 2 * 2 ^ r.length by rw [pow_succ]; omega]
    apply range_double a
    · intro b
      simp only [eqProd]
      rw [eqProd_half, Nat.testBit_zero]
      have h1 : 2 * b / 2 = b := by omega
      have h2 : decide (2 * b % 2 = 1) = false := by simp
      rw [h1, h2, eqEntry_false]; ring
    · intro b
      simp only [eqProd]
      rw [eqProd_half, Nat.testBit_zero]
      have h1 : (2 * b + 1) / 2 = b := by omega
      have h2 : decide ((2 * b + 1) % 2 = 1) = true := by simp
      rw [h1, h2, eqEntry_true]; ring

theorem sufTables_eq (c : F) (t : List F) : (sufTables t).map (batchMul c) = tables c t := by
  induction t with
  | nil => rfl
  | cons a s ih => simp only [sufTables, List.map_cons, tables, ih, rawTable_eq]

theorem eqRow_eq_bfun (n i : Nat) (a : F) : eqRow n i a = bfun n [a] i := by
  unfold eqRow bfun
  apply List.map_congr_left
  intro x _
  simp [eqProd]

theorem batchMul_flatten (c : F) (ls : List (List F)) :
    batchMul c ls.flatten = (ls.map (batchMul c)).flatten := by
  unfold batchMul
  rw [List.map_flatten]

/-- **`setup` makes well-formed parameters.**  For every number of variables `nv ≥ 1`, generators
`g, h` and trapdoor `t ∈ F^nv`, the model of `MultilinearPC::setup` returns exactly
`powers_of_g[i] = g·eqTable(t[i..])`, `powers_of_h[i] = h·eqTable(t[i..])`, `g_mask = g·t`. -/
theorem setup_eq (nv : Nat) (g h : F) (t : List F) (hnv : nv ≠ 0) (ht : t.length = nv) :
    setup nv g h t = .ok (wfParams g h t) := by
  unfold setup
  rw [if_neg hnv, if_neg (by simp [ht])]
  rw [eqExtension_reverse]
  -- split `t` at its last element
  have hne : t ≠ [] := by intro e; subst e; simp at ht; omega
  obtain ⟨p, a, rfl⟩ : ∃ p a, t = p ++ [a] := by
    refine ⟨t.dropLast, t.getLast hne, ?_⟩
    exact (List.dropLast_concat_getLast hne).symm
  simp only [List.reverse_append, List.reverse_cons, List.reverse_nil, List.nil_append,
    List.singleton_append, rowsRev, List.length_reverse]
  have hlen : (p ++ [a]).length = p.length + 1 := by simp
  rw [hlen] at ht ⊢
  subst ht
  have hloop := eqArrLoop_spec (p.length + 1) p.reverse a [] (by simp)
  simp only [List.length_reverse, List.reverse_reverse, sufTables] at hloop
  rw [eqRow_eq_bfun, hloop]
  simp only
  have hflat := flattenLoop_spec (p.length + 1) (p ++ [a]) 0 (by simp)
  rw [hlen] at hflat
  rw [hflat]
  simp only
  have hg := resliceLoop_spec (p.length + 1) g (batchMul g (sufTables (p ++ [a])).flatten)
    (p ++ [a]) [] 0 (by simp) (by simp [batchMul_flatten])
  have hh := resliceLoop_spec (p.length + 1) h (batchMul h (sufTables (p ++ [a])).flatten)
    (p ++ [a]) [] 0 (by simp) (by simp [batchMul_flatten])
  rw [hlen] at hg hh
  simp only [List.length_nil] at hg hh
  rw [hg, hh]
  simp only [sufTables_eq, wfParams, hlen]

end MLPC
end PCV
