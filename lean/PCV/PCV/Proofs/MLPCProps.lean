/-
  PCV.Proofs.MLPCProps — lemmas behind the `mlpc_*` property theorems: the honest run from `setup`
  to `check`, proof-element replacement, shapes and refusals, the verification relation, linearity
  of `commit`.
-/
import PCV.Proofs.MLPCSetup

set_option linter.unusedSectionVars false

namespace PCV
namespace MLPC
variable {F : Type} [Field F]

/-! ### the honest run -/

/-- `setup → trim → commit → open → check` for every `nv ≥ s ≥ 1`, every trapdoor, generators,
evaluation vector of length `2^s` and point of length `s`: nothing refuses, every value is the
stated one, and the verifier accepts. -/
theorem honest_run [DecidableEq F] (nv s : Nat) (g h : F) (t evals z : List F)
    (ht : t.length = nv) (hs1 : 1 ≤ s) (hs : s ≤ nv) (he : evals.length = 2 ^ s)
    (hz : z.length = s) :
    setup nv g h t = .ok (wfParams g h t)
    ∧ trim (wfParams g h t) s = .ok (wfCK g h (t.drop (nv - s)), wfVK g h (t.drop (nv - s)))
    ∧ commit (wfCK g h (t.drop (nv - s))) s evals = .ok ⟨s, g * mleEval evals (t.drop (nv - s))⟩
    ∧ MLPC.open (wfCK g h (t.drop (nv - s))) s evals z = .ok (proofSpec h (t.drop (nv - s)) z evals)
    ∧ check (wfVK g h (t.drop (nv - s))) ⟨s, g * mleEval evals (t.drop (nv - s))⟩ z
        (mleEval evals z) (proofSpec h (t.drop (nv - s)) z evals) = .ok true := by
  have hl : (t.drop (nv - s)).length = s := by rw [List.length_drop, ht]; omega
  refine ⟨setup_eq nv g h t (by omega) ht, ?_, ?_, ?_, ?_⟩
  · have := trim_wf g h t s (by omega)
    rw [ht] at this
    exact this
  · generalize t.drop (nv - s) = t' at hl
    match t', hl with
    | [], hl => simp at hl; omega
    | a :: ts, hl =>
      simp only [List.length_cons] at hl
      subst hl
      exact commit_wf g h a ts evals he
  · have := open_wf g h (t.drop (nv - s)) evals z (by omega) (by rw [hl, he])
    rw [hl] at this
    exact this
  · exact check_honest g h _ z evals s (by omega) (by rw [hl, he])

/-! ### replacing one proof element -/

theorem dot_set (l m : List F) (i : Nat) (x : F) (hl : i < l.length) (hm : i < m.length) :
    dot l (m.set i x) = dot l m + l[i] * (x - m[i]) := by
  induction l generalizing m i with
  | nil => simp at hl
  | cons a as ih =>
    match m, hm with
    | b :: bs, hm =>
      cases i with
      | zero => simp only [List.set_cons_zero, dot_cons, List.getElem_cons_zero]; ring
      | succ i =>
        simp only [List.set_cons_succ, dot_cons, List.getElem_cons_succ]
        rw [ih bs i (by simpa using hl) (by simpa using hm)]; ring

theorem pairingLefts_length (vk : VK F) (z : List F) (h1 : z.length = vk.nv)
    (h2 : vk.nv ≤ vk.gMaskRandom.length) : (pairingLefts vk z).length = vk.nv := by
  unfold pairingLefts
  simp only [List.length_zipWith, List.length_take, batchMul_length]
  omega

/-- the defect is affine in each proof element, with coefficient `−(g_mask[i] − zᵢ·g)` -/
theorem defect_set (vk : VK F) (c : Commitment F) (z : List F) (v : F) (πs : List F) (i : Nat)
    (x : F) (hi : i < (pairingLefts vk z).length) (hp : i < πs.length) :
    defect vk c z v (πs.set i x)
      = defect vk c z v πs - (pairingLefts vk z)[i] * (x - πs[i]) := by
  unfold defect
  rw [dot_set _ _ i x hi hp]; ring

theorem zipWith_getElem_sub (l m : List F) (i : Nat) (h : i < (List.zipWith (· - ·) l m).length) :
    (List.zipWith (· - ·) l m)[i] = l[i]'(by simp at h; omega) - m[i]'(by simp at h; omega) := by
  simp

/-- on the key of trapdoor `t` the coefficient is `g·tᵢ − g·zᵢ` -/
theorem pairingLefts_wf_getElem (g h : F) (t z : List F) (i : Nat) (hi : i < t.length)
    (hz : i < z.length) (hl : i < (pairingLefts (wfVK g h t) z).length) :
    (pairingLefts (wfVK g h t) z)[i] = g * t[i] - g * z[i] := by
  have := pairingLefts_wf g h t z
  simp only [this]
  simp [batchMul]

/-! ### shapes -/

theorem openLoop_length (n : Nat) (hs : List (List F)) (r z ps : List F)
    (h : openLoop n hs r z = .ok ps) : ps.length = n := by
  induction n generalizing hs r z ps with
  | zero => simp only [openLoop] at h; cases h; rfl
  | succ n ih =>
    match z with
    | [] => simp [openLoop] at h
    | b :: zs =>
      match hs with
      | [] => simp [openLoop] at h
      | hi :: hs' =>
        simp only [openLoop] at h
        cases hrec : openLoop n hs' (foldStep b r).2 zs with
        | error e => rw [hrec] at h; cases h
        | ok ps' =>
          rw [hrec] at h
          cases h
          simp [ih hs' _ zs ps' hrec]

theorem open_length (ck : CK F) (nv : Nat) (evals z ps : List F)
    (h : MLPC.open ck nv evals z = .ok ps) : ps.length = nv := by
  unfold MLPC.open at h
  split at h
  · cases h
  · split at h
    · cases h
    · split at h
      · cases h
      · exact openLoop_length _ _ _ _ _ h

theorem open_wrong_nv (ck : CK F) (nv : Nat) (evals z : List F) (h : nv ≠ ck.nv) :
    MLPC.open ck nv evals z = .error .abort := by
  unfold MLPC.open; rw [if_pos h]

/-- a point whose length differs from the number of variables is refused by `open` -/
theorem open_wrong_point_len (ck : CK F) (nv : Nat) (evals z : List F) (h : z.length ≠ nv) :
    MLPC.open ck nv evals z = .error .abort := by
  unfold MLPC.open
  split
  · rfl
  · rename_i hnv
    rw [if_pos (by rw [← Decidable.not_not.1 hnv]; exact h)]

theorem check_proof_length [DecidableEq F] (vk : VK F) (c : Commitment F) (z : List F) (v : F)
    (πs : List F) (h : πs.length ≠ vk.nv) : check vk c z v πs = .error .abort := by
  unfold check
  split
  · rfl
  · split
    · rfl
    · simp

/-- a point whose length differs from the key's number of variables is refused by `check` -/
theorem check_wrong_point_len [DecidableEq F] (vk : VK F) (c : Commitment F) (z : List F) (v : F)
    (πs : List F) (h : z.length ≠ vk.nv) : check vk c z v πs = .error .abort := by
  unfold check
  rw [if_pos h]

/-! ### linearity of `commit` -/

theorem dot_zipWith_add (b p q : List F) (h : p.length = q.length) :
    dot b (List.zipWith (· + ·) p q) = dot b p + dot b q := by
  induction b generalizing p q with
  | nil => simp
  | cons x xs ih =>
    match p, q, h with
    | [], [], _ => simp
    | a :: as, c :: cs, h =>
      simp only [List.zipWith_cons_cons, dot_cons]
      rw [ih as cs (by simpa using h)]; ring

theorem dot_map_mul (b p : List F) (c : F) : dot b (p.map (c * ·)) = c * dot b p := by
  induction b generalizing p with
  | nil => simp
  | cons x xs ih =>
    cases p with
    | nil => simp
    | cons a as => simp only [List.map_cons, dot_cons]; rw [ih as]; ring

/-! ### the verification relation -/

/-- `Σᵢ (g_mask[i] − zᵢ·g)·πᵢ` over three lists read in lock-step -/
def relSum (g : F) : List F → List F → List F → F
  | m :: ms, zi :: zs, p :: ps => (m - zi * g) * p + relSum g ms zs ps
  | _, _, _ => 0

theorem dot_lefts_relSum (g : F) (m z πs : List F) :
    dot (List.zipWith (· - ·) m (batchMul g z)) πs = relSum g m z πs := by
  induction m generalizing z πs with
  | nil => simp [relSum]
  | cons a as ih =>
    cases z with
    | nil => simp [batchMul, relSum]
    | cons b bs =>
      cases πs with
      | nil => simp [relSum]
      | cons p ps =>
        have := ih bs ps
        simp only [batchMul, List.map_cons, List.zipWith_cons_cons, dot_cons, relSum] at this ⊢
        rw [this]; ring

theorem defect_eq_rel (vk : VK F) (c : Commitment F) (z : List F) (v : F) (πs : List F) :
    defect vk c z v πs
      = (c.gProduct - v * vk.g) * vk.h - relSum vk.g (vk.gMaskRandom.take vk.nv) (z.take vk.nv) πs := by
  unfold defect pairingLefts
  have : (batchMul vk.g z).take vk.nv = batchMul vk.g (z.take vk.nv) := by
    simp [batchMul, List.map_take]
  rw [this, dot_lefts_relSum]; ring

/-! ### `dot` with a unit vector -/

theorem dot_unit (n i : Nat) (d : F) (l : List F) (hi : i < n) (hl : i < l.length) :
    dot ((List.replicate n (0 : F)).set i d) l = d * l[i] := by
  induction n generalizing i l with
  | zero => omega
  | succ n ih =>
    match l, hl with
    | x :: xs, hl =>
      cases i with
      | zero =>
        simp only [List.replicate_succ, List.set_cons_zero, dot_cons, List.getElem_cons_zero,
          dot_replicate_zero, add_zero]
      | succ i =>
        simp only [List.replicate_succ, List.set_cons_succ, dot_cons, List.getElem_cons_succ,
          zero_mul, zero_add]
        exact ih i xs (by omega) (by simpa using hl)

end MLPC
end PCV
