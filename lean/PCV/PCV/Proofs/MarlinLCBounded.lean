/-
  PCV.Proofs.MarlinLCBounded — completeness of `Marlin::open_combinations` / `check_combinations`
  (MarlinKZG10) when the committed polynomials may carry degree bounds: a combination is allowed by
  the code either when every polynomial it names is unbounded, or when it is the single term `1 · p`
  (then it keeps `p`'s bound and shifted commitment).  Each allowed combination is an honestly
  committed polynomial, the verifier combines the same commitments, and `batch_open`/`batch_check`
  completeness (`MarlinBatch`, which handles degree bounds) finishes.
-/
import PCV.Proofs.MarlinLCComplete

set_option linter.unusedSectionVars false
set_option linter.unusedVariables false
set_option linter.unusedSimpArgs false

namespace PCV
namespace Marlin

variable {F : Type} [Field F] [DecidableEq F]

/-! ### the two allowed shapes -/

/-- the degree bound of the polynomial a term names (`none` for constants and unknown labels) -/
def termBound (trips : List (Trip' F)) (t : F × LC.LCTerm) : Option Nat :=
  match t.2 with
  | .one => none
  | .poly lab =>
    match lookupLast (fun (t : Trip' F) => t.1.label) lab trips with
    | none => none
    | some x => x.1.bound

/-- every polynomial the combination names is unbounded (coefficients and constants arbitrary) -/
def LCUnbounded (trips : List (Trip' F)) (lc : LC.LinComb F) : Prop :=
  ∀ t ∈ lc.terms, termBound trips t = none

/-- the combination is the single term `1 · p` (`p` bounded or not, hiding or not) -/
def LCSingle (lc : LC.LinComb F) : Prop := ∃ lab, lc.terms = [(1, .poly lab)]

/-- the combinations `open_combinations` does not refuse -/
def LCAllowed (trips : List (Trip' F)) (lc : LC.LinComb F) : Prop :=
  LCUnbounded trips lc ∨ LCSingle lc

instance (trips : List (Trip' F)) (lc : LC.LinComb F) : Decidable (LCUnbounded trips lc) :=
  inferInstanceAs (Decidable (∀ t ∈ lc.terms, termBound trips t = none))

/-- Boolean form of `LCSingle` -/
def lcSingleB (lc : LC.LinComb F) : Bool :=
  match lc.terms with
  | [(c, .poly _)] => decide (c = 1)
  | _ => false

theorem lcSingle_iff (lc : LC.LinComb F) : LCSingle lc ↔ lcSingleB lc = true := by
  unfold LCSingle lcSingleB
  constructor
  · rintro ⟨lab, h⟩
    rw [h]; simp
  · intro h
    split at h
    · rename_i c lab hterms
      exact ⟨lab, by rw [hterms, of_decide_eq_true h]⟩
    · cases h

instance (lc : LC.LinComb F) : Decidable (LCSingle lc) :=
  decidable_of_iff _ (lcSingle_iff lc).symm

instance (trips : List (Trip' F)) (lc : LC.LinComb F) : Decidable (LCAllowed trips lc) :=
  inferInstanceAs (Decidable (LCUnbounded trips lc ∨ LCSingle lc))

/-! ### a combination of unbounded polynomials out of a mixed list -/

theorem lcStep_inv_u {g γ β : F} {D : Nat} (trips : List (Trip' F))
    (hh : ∀ t ∈ trips, Honest g γ β D t) (k : Nat) (acc acc' : LCAcc F)
    (term : F × LC.LCTerm) (hu : termBound trips term = none) (hi : LCInv g γ β acc)
    (hs : lcStep trips k acc term = .ok acc') (z : F) :
    LCInv g γ β acc' ∧
      evalPoly acc'.poly z = evalPoly acc.poly z + lcPolyValue trips z [term] := by
  unfold lcStep at hs
  cases ht : term.2 with
  | one =>
    rw [ht] at hs
    simp only at hs
    injection hs with hs; subst hs
    exact ⟨hi, by simp [lcPolyValue, ht]⟩
  | poly l =>
    rw [ht] at hs
    simp only at hs
    cases hl : lookupLast (fun (t : Trip' F) => t.1.label) l trips with
    | none => rw [hl] at hs; cases hs
    | some x =>
      obtain ⟨p, st, c⟩ := x
      rw [hl] at hs
      simp only at hs
      obtain ⟨hmem, _⟩ := lookupLast_mem _ l trips (p, st, c) hl
      obtain ⟨hb, hc, hbs, hbc, _⟩ := hh (p, st, c) hmem
      have hpb : p.bound = none := by
        simpa only [termBound, ht, hl] using hu
      simp only at hb hc hbs hbc
      have hstn : st.shifted = none := by
        rw [hpb] at hbs
        cases hx : st.shifted with
        | none => rfl
        | some _ => rw [hx] at hbs; simp at hbs
      have hcn : c.comm.shifted = none := by
        rw [hpb] at hbc
        cases hx : c.comm.shifted with
        | none => rfl
        | some _ => rw [hx] at hbc; simp at hbc
      have hnb : ¬ (p.bound.isSome = true) := by rw [hpb]; simp
      rw [if_neg (by intro hx; exact hnb hx.2), if_neg hnb] at hs
      injection hs with hs
      subst hs
      obtain ⟨i1, i2, i3, i4⟩ := hi
      refine ⟨⟨?_, ?_, ?_, ?_⟩, ?_⟩
      · simp only [LCAcc.addComm]; exact i1
      · simp only [LCAcc.addComm, hcn]; exact i2
      · simp only [LCAcc.addComm, Rand.addScaled, i3, hstn]; rfl
      · simp only [LCAcc.addComm, Rand.addScaled, eval_padd, eval_pscale, hc, i4]; ring
      · simp only [LCAcc.addComm, eval_padd, eval_pscale, lcPolyValue, ht, hl]; ring

theorem go_inv_u {g γ β : F} {D : Nat} (trips : List (Trip' F))
    (hh : ∀ t ∈ trips, Honest g γ β D t) (lc : LC.LinComb F)
    (terms : List (F × LC.LCTerm)) (hu : ∀ t ∈ terms, termBound trips t = none)
    (acc acc' : LCAcc F) (hi : LCInv g γ β acc)
    (hs : combineLC.go trips lc acc terms = .ok acc') (z : F) :
    LCInv g γ β acc' ∧ evalPoly acc'.poly z = evalPoly acc.poly z + lcPolyValue trips z terms := by
  induction terms generalizing acc with
  | nil =>
    simp only [combineLC.go] at hs
    injection hs with hs; subst hs
    exact ⟨hi, by simp [lcPolyValue]⟩
  | cons t ts ih =>
    simp only [combineLC.go] at hs
    split at hs
    · cases hs
    · rename_i acc1 h1
      obtain ⟨hi1, hv1⟩ := lcStep_inv_u trips hh _ acc acc1 t (hu t (by simp)) hi h1 z
      obtain ⟨hi2, hv2⟩ := ih (fun t' ht' => hu t' (List.mem_cons_of_mem _ ht')) acc1 hi1 hs
      refine ⟨hi2, ?_⟩
      rw [hv2, hv1]
      simp only [lcPolyValue]; ring

/-- the combination of unbounded members of a mixed honest list is an honestly committed unbounded
polynomial with the combined evaluations -/
theorem combineLC_honest_u {g γ β : F} {D : Nat} (trips : List (Trip' F))
    (hh : ∀ t ∈ trips, Honest g γ β D t) (lc : LC.LinComb F) (hu : LCUnbounded trips lc)
    (res : Trip' F) (hc : combineLC trips lc = .ok res) (z : F) :
    Honest g γ β D res ∧ res.1.bound = none ∧
      evalPoly res.1.poly z = lcPolyValue trips z lc.terms := by
  unfold combineLC at hc
  split at hc
  · cases hc
  · rename_i a ha
    injection hc with hc; subst hc
    obtain ⟨⟨i1, i2, i3, i4⟩, hv⟩ := go_inv_u trips hh lc lc.terms hu _ a
      ⟨rfl, rfl, rfl, by simp⟩ ha z
    refine ⟨⟨rfl, i4, ?_, ?_, ?_⟩, i1, by simpa using hv⟩
    · simp only [i1, i3]
      rfl
    · simp only [i1, i2]
      rfl
    · intro d rs s hd; simp only [i1] at hd; cases hd

/-! ### the single coefficient-one term -/

theorem padd_nil_pscale_one (p : List F) : padd [] (pscale 1 p) = p := by
  cases p with
  | nil => rfl
  | cons a as => simp [padd, pscale]

/-- `1 · p` alone: the combined triple is `p`'s triple under the combination's label — bound, shifted
commitment and shifted blinding kept -/
theorem combineLC_single {g γ β : F} {D : Nat} (trips : List (Trip' F))
    (hh : ∀ t ∈ trips, Honest g γ β D t) (lc : LC.LinComb F) (hs : LCSingle lc)
    (res : Trip' F) (hc : combineLC trips lc = .ok res) (z : F) :
    Honest g γ β D res ∧ evalPoly res.1.poly z = lcPolyValue trips z lc.terms := by
  obtain ⟨lab, hterms⟩ := hs
  obtain ⟨label, terms⟩ := lc
  simp only at hterms
  subst hterms
  cases hl : lookupLast (fun (t : Trip' F) => t.1.label) lab trips with
  | none =>
    simp [combineLC, combineLC.go, lcStep, hl] at hc
  | some x =>
    obtain ⟨p, st, c⟩ := x
    cases hpb : p.bound with
    | none =>
      have hu : LCUnbounded trips (⟨label, [(1, .poly lab)]⟩ : LC.LinComb F) := by
        intro t ht
        simp only [List.mem_singleton] at ht
        subst ht
        simp only [termBound, hl, hpb]
      obtain ⟨h1, _, h3⟩ := combineLC_honest_u trips hh _ hu res hc z
      exact ⟨h1, h3⟩
    | some d =>
      obtain ⟨hmem, _⟩ := lookupLast_mem _ lab trips (p, st, c) hl
      obtain ⟨hb, hcm, hbs, hbc, hsh⟩ := hh (p, st, c) hmem
      simp only at hb hcm hbs hbc hsh
      rw [hpb] at hbs hbc
      simp only [combineLC, combineLC.go, lcStep, hl, hpb, List.length_singleton, Option.isSome_some,
        and_self, if_true, ne_eq, not_true_eq_false, if_false] at hc
      injection hc with hc
      subst hc
      cases hst : st.shifted with
      | none => rw [hst] at hbs; simp at hbs
      | some rs =>
        cases hcs : c.comm.shifted with
        | none => rw [hcs] at hbc; simp at hbc
        | some s =>
          have hs' := hsh d rs s hpb hst hcs
          refine ⟨⟨rfl, ?_, ?_, ?_, ?_⟩, ?_⟩
          · simp only [LCAcc.addComm, Rand.addScaled, padd_nil_pscale_one, hcm]; ring
          · simp only [LCAcc.addComm, Rand.addScaled, hst]; rfl
          · simp only [LCAcc.addComm, hcs]; rfl
          · intro d' rs' s' hd hrs hss
            simp only [LCAcc.addComm, Rand.addScaled, hst, hcs, padd_nil_pscale_one,
              Option.map_some, Option.some.injEq, Option.getD_none] at hd hrs hss
            subst hd; subst hrs; subst hss
            simp only [LCAcc.addComm, padd_nil_pscale_one]
            rw [hs']; ring
          · simp only [LCAcc.addComm, padd_nil_pscale_one, lcPolyValue, hl]; ring

/-- every allowed combination is an honestly committed polynomial with the combined evaluations -/
theorem combineLC_honest_adm {g γ β : F} {D : Nat} (trips : List (Trip' F))
    (hh : ∀ t ∈ trips, Honest g γ β D t) (lc : LC.LinComb F) (ha : LCAllowed trips lc)
    (res : Trip' F) (hc : combineLC trips lc = .ok res) (z : F) :
    Honest g γ β D res ∧ evalPoly res.1.poly z = lcPolyValue trips z lc.terms := by
  rcases ha with hu | hs
  · obtain ⟨h1, _, h3⟩ := combineLC_honest_u trips hh lc hu res hc z
    exact ⟨h1, h3⟩
  · exact combineLC_single trips hh lc hs res hc z

/-! ### the verifier combines the same commitments (bounds allowed) -/

theorem lcStep_comm_b (trips : List (Trip' F))
    (hlab : ∀ t ∈ trips, t.2.2.label = t.1.label ∧ t.2.2.bound = t.1.bound)
    (k : Nat) (a a' b : LCAcc F) (term : F × LC.LCTerm) (hr : CommRel a b)
    (hs : lcStep trips k a term = .ok a') :
    ∃ b', lcStep (trips.map vview) k b term = .ok b' ∧ CommRel a' b' := by
  unfold lcStep at hs ⊢
  cases ht : term.2 with
  | one =>
    rw [ht] at hs
    simp only at hs ⊢
    injection hs with hs; subst hs
    exact ⟨b, rfl, hr⟩
  | poly l =>
    rw [ht] at hs
    simp only at hs ⊢
    rw [lookupLast_map (fun (t : Trip' F) => t.1.label) (fun (t : Trip' F) => t.1.label) vview l trips
      (fun t ht' => (hlab t ht').1)]
    cases hl : lookupLast (fun (t : Trip' F) => t.1.label) l trips with
    | none => rw [hl] at hs; cases hs
    | some x =>
      obtain ⟨p, st, c⟩ := x
      rw [hl] at hs
      obtain ⟨hmem, _⟩ := lookupLast_mem _ l trips (p, st, c) hl
      obtain ⟨_, hb⟩ := hlab (p, st, c) hmem
      simp only at hb
      simp only [Option.map_some, vview] at hs ⊢
      rw [hb]
      obtain ⟨r1, r2, r3⟩ := hr
      by_cases h1 : k = 1 ∧ p.bound.isSome = true
      · rw [if_pos h1] at hs ⊢
        by_cases h2 : term.1 ≠ 1
        · rw [if_pos h2] at hs; cases hs
        · rw [if_neg h2] at hs ⊢
          injection hs with hs; subst hs
          exact ⟨_, rfl, by simp only [LCAcc.addComm, r1], by simp only [LCAcc.addComm, r2], rfl⟩
      · rw [if_neg h1] at hs ⊢
        by_cases h2 : p.bound.isSome = true
        · rw [if_pos h2] at hs; cases hs
        · rw [if_neg h2] at hs ⊢
          injection hs with hs; subst hs
          exact ⟨_, rfl, by simp only [LCAcc.addComm, r1], by simp only [LCAcc.addComm, r2], r3⟩

theorem go_comm_b (trips : List (Trip' F))
    (hlab : ∀ t ∈ trips, t.2.2.label = t.1.label ∧ t.2.2.bound = t.1.bound)
    (lc : LC.LinComb F) (terms : List (F × LC.LCTerm)) (a a' b : LCAcc F) (hr : CommRel a b)
    (hs : combineLC.go trips lc a terms = .ok a') :
    ∃ b', combineLC.go (trips.map vview) lc b terms = .ok b' ∧ CommRel a' b' := by
  induction terms generalizing a b with
  | nil =>
    simp only [combineLC.go] at hs ⊢
    injection hs with hs; subst hs
    exact ⟨b, rfl, hr⟩
  | cons t ts ih =>
    simp only [combineLC.go] at hs ⊢
    split at hs
    · cases hs
    · rename_i a1 h1
      obtain ⟨b1, hb1, hr1⟩ := lcStep_comm_b trips hlab _ a a1 b t hr h1
      rw [hb1]
      exact ih a1 b1 hr1 hs

theorem combineLCComm_eq_b (trips : List (Trip' F))
    (hlab : ∀ t ∈ trips, t.2.2.label = t.1.label ∧ t.2.2.bound = t.1.bound)
    (lc : LC.LinComb F) (res : Trip' F) (hc : combineLC trips lc = .ok res) :
    combineLCComm (trips.map (·.2.2)) lc = .ok res.2.2 := by
  unfold combineLCComm
  have hm : (trips.map (·.2.2)).map
      (fun c => ((⟨c.label, [], c.bound, none⟩ : LPoly F), (⟨[], none⟩ : Rand F), c))
      = trips.map vview := by
    rw [List.map_map]; rfl
  rw [hm]
  unfold combineLC at hc ⊢
  split at hc
  · cases hc
  · rename_i a ha
    injection hc with hc; subst hc
    obtain ⟨b', hb', r1, r2, r3⟩ := go_comm_b trips hlab lc lc.terms _ a _ ⟨rfl, rfl, rfl⟩ ha
    rw [hb']
    simp only [r1, r2, r3]

theorem combineAllComm_eq_b (trips : List (Trip' F))
    (hlab : ∀ t ∈ trips, t.2.2.label = t.1.label ∧ t.2.2.bound = t.1.bound)
    (lcs : List (LC.LinComb F)) (ts : List (Trip' F)) (hc : combineAll trips lcs = .ok ts) :
    combineAllComm (trips.map (·.2.2)) lcs = .ok (ts.map (·.2.2)) := by
  induction lcs generalizing ts with
  | nil =>
    simp only [combineAll] at hc
    injection hc with hc; subst hc
    rfl
  | cons lc lcs ih =>
    simp only [combineAll] at hc
    split at hc
    · cases hc
    · rename_i t ht
      split at hc
      · cases hc
      · rename_i ts' hts
        injection hc with hc; subst hc
        simp only [combineAllComm, combineLCComm_eq_b trips hlab lc t ht, ih ts' hts, List.map_cons]

/-! ### blinding polynomials (shifted ones included) of combinations still fit the key -/

/-- the invariant: both blinding polynomials of the accumulator fit `m` γ-powers -/
def AccLen (m : Nat) (a : LCAcc F) : Prop :=
  (pnorm a.rand.rand).length ≤ m ∧ ∀ rs, a.rand.shifted = some rs → (pnorm rs).length ≤ m

theorem lcStep_randlen_b (trips : List (Trip' F)) (m : Nat) (hL : ∀ t ∈ trips, RandLen m t)
    (k : Nat) (a a' : LCAcc F) (t : F × LC.LCTerm) (hi : AccLen m a)
    (h1 : lcStep trips k a t = .ok a') : AccLen m a' := by
  unfold lcStep at h1
  cases ht : t.2 with
  | one =>
    rw [ht] at h1
    simp only at h1
    injection h1 with h1; subst h1; exact hi
  | poly l =>
    rw [ht] at h1
    simp only at h1
    cases hl : lookupLast (fun (t : Trip' F) => t.1.label) l trips with
    | none => rw [hl] at h1; cases h1
    | some x =>
      obtain ⟨p, st, c⟩ := x
      rw [hl] at h1
      obtain ⟨hmem, _⟩ := lookupLast_mem _ l trips (p, st, c) hl
      obtain ⟨hr, hrs⟩ := hL (p, st, c) hmem
      simp only at hr hrs h1
      -- both successful branches update the blinding the same way
      have key : AccLen m ({ a with rand := a.rand.addScaled t.1 st } : LCAcc F) := by
        refine ⟨?_, ?_⟩
        · simp only [Rand.addScaled]
          exact pnorm_padd_le _ _ m hi.1 (pnorm_pscale_le _ _ m hr)
        · intro rs' hrs'
          simp only [Rand.addScaled] at hrs'
          cases ha : a.rand.shifted with
          | some r1 =>
            rw [ha] at hrs'
            simp only [Option.some.injEq] at hrs'
            subst hrs'
            refine pnorm_padd_le _ _ m (hi.2 r1 ha) (pnorm_pscale_le _ _ m ?_)
            cases hst : st.shifted with
            | none => simpa using pnorm_nil_le m
            | some r2 => simpa using hrs r2 hst
          | none =>
            rw [ha] at hrs'
            cases hst : st.shifted with
            | none => rw [hst] at hrs'; simp at hrs'
            | some r2 =>
              rw [hst] at hrs'
              simp only [Option.map_some, Option.some.injEq] at hrs'
              subst hrs'
              exact pnorm_padd_le _ _ m (pnorm_nil_le m) (pnorm_pscale_le _ _ m (hrs r2 hst))
      by_cases c1 : k = 1 ∧ p.bound.isSome = true
      · rw [if_pos c1] at h1
        by_cases c2 : t.1 ≠ 1
        · rw [if_pos c2] at h1; cases h1
        · rw [if_neg c2] at h1
          injection h1 with h1; subst h1
          exact key
      · rw [if_neg c1] at h1
        by_cases c2 : p.bound.isSome = true
        · rw [if_pos c2] at h1; cases h1
        · rw [if_neg c2] at h1
          injection h1 with h1; subst h1
          exact key

theorem go_randlen_b (trips : List (Trip' F)) (m : Nat) (hL : ∀ t ∈ trips, RandLen m t)
    (lc : LC.LinComb F) (terms : List (F × LC.LCTerm)) (a a' : LCAcc F) (hi : AccLen m a)
    (hs : combineLC.go trips lc a terms = .ok a') : AccLen m a' := by
  induction terms generalizing a with
  | nil =>
    simp only [combineLC.go] at hs
    injection hs with hs; subst hs; exact hi
  | cons t ts ih =>
    simp only [combineLC.go] at hs
    split at hs
    · cases hs
    · rename_i a1 h1
      exact ih a1 (lcStep_randlen_b trips m hL _ a a1 t hi h1) hs

theorem combineLC_randlen_b (trips : List (Trip' F)) (m : Nat) (hL : ∀ t ∈ trips, RandLen m t)
    (lc : LC.LinComb F) (res : Trip' F) (hc : combineLC trips lc = .ok res) : RandLen m res := by
  unfold combineLC at hc
  split at hc
  · cases hc
  · rename_i a ha
    injection hc with hc; subst hc
    exact go_randlen_b trips m hL lc lc.terms _ a
      ⟨by simp [pnorm_nil_le], fun rs hrs => by cases hrs⟩ ha

/-! ### without shifted blinding the combined states carry none either -/

theorem lcStep_shnil (trips : List (Trip' F))
    (hN : ∀ t ∈ trips, ∀ rs, t.2.1.shifted = some rs → rs = [])
    (k : Nat) (a a' : LCAcc F) (t : F × LC.LCTerm)
    (hi : ∀ rs, a.rand.shifted = some rs → rs = [])
    (h1 : lcStep trips k a t = .ok a') : ∀ rs, a'.rand.shifted = some rs → rs = [] := by
  unfold lcStep at h1
  cases ht : t.2 with
  | one =>
    rw [ht] at h1
    simp only at h1
    injection h1 with h1; subst h1; exact hi
  | poly l =>
    rw [ht] at h1
    simp only at h1
    cases hl : lookupLast (fun (t : Trip' F) => t.1.label) l trips with
    | none => rw [hl] at h1; cases h1
    | some x =>
      obtain ⟨p, st, c⟩ := x
      rw [hl] at h1
      obtain ⟨hmem, _⟩ := lookupLast_mem _ l trips (p, st, c) hl
      have hrs := hN (p, st, c) hmem
      simp only at hrs h1
      have key : ∀ rs, (a.rand.addScaled t.1 st).shifted = some rs → rs = [] := by
        intro rs' hrs'
        simp only [Rand.addScaled] at hrs'
        cases ha : a.rand.shifted with
        | some r1 =>
          rw [ha] at hrs'
          simp only [Option.some.injEq] at hrs'
          subst hrs'
          rw [hi r1 ha]
          cases hst : st.shifted with
          | none => rfl
          | some r2 => rw [hrs r2 hst]; rfl
        | none =>
          rw [ha] at hrs'
          cases hst : st.shifted with
          | none => rw [hst] at hrs'; simp at hrs'
          | some r2 =>
            rw [hst] at hrs'
            simp only [Option.map_some, Option.some.injEq] at hrs'
            subst hrs'
            rw [hrs r2 hst]; rfl
      by_cases c1 : k = 1 ∧ p.bound.isSome = true
      · rw [if_pos c1] at h1
        by_cases c2 : t.1 ≠ 1
        · rw [if_pos c2] at h1; cases h1
        · rw [if_neg c2] at h1
          injection h1 with h1; subst h1
          exact key
      · rw [if_neg c1] at h1
        by_cases c2 : p.bound.isSome = true
        · rw [if_pos c2] at h1; cases h1
        · rw [if_neg c2] at h1
          injection h1 with h1; subst h1
          exact key

theorem combineLC_shnil (trips : List (Trip' F))
    (hN : ∀ t ∈ trips, ∀ rs, t.2.1.shifted = some rs → rs = [])
    (lc : LC.LinComb F) (res : Trip' F) (hc : combineLC trips lc = .ok res) :
    ∀ rs, res.2.1.shifted = some rs → rs = [] := by
  unfold combineLC at hc
  split at hc
  · cases hc
  · rename_i a ha
    injection hc with hc; subst hc
    have : ∀ (terms : List (F × LC.LCTerm)) (a a' : LCAcc F),
        (∀ rs, a.rand.shifted = some rs → rs = []) → combineLC.go trips lc a terms = .ok a' →
        ∀ rs, a'.rand.shifted = some rs → rs = [] := by
      intro terms
      induction terms with
      | nil =>
        intro a a' hi hs
        simp only [combineLC.go] at hs
        injection hs with hs; subst hs; exact hi
      | cons t ts ih =>
        intro a a' hi hs
        simp only [combineLC.go] at hs
        split at hs
        · cases hs
        · rename_i a1 h1
          exact ih a1 a' (lcStep_shnil trips hN _ a a1 t hi h1) hs
    exact this lc.terms _ a (fun rs hrs => by cases hrs) ha

/-! ### the allowed shapes are exactly the ones the code does not refuse -/

theorem lcStep_ok_shape (trips : List (Trip' F)) (k : Nat) (a a' : LCAcc F) (t : F × LC.LCTerm)
    (h1 : lcStep trips k a t = .ok a') :
    termBound trips t = none ∨ (k = 1 ∧ ∃ lab, t = (1, .poly lab)) := by
  obtain ⟨coeff, tm⟩ := t
  unfold lcStep at h1
  cases tm with
  | one => left; rfl
  | poly l =>
    simp only at h1
    cases hl : lookupLast (fun (t : Trip' F) => t.1.label) l trips with
    | none => rw [hl] at h1; cases h1
    | some x =>
      obtain ⟨p, st, c⟩ := x
      rw [hl] at h1
      simp only at h1
      by_cases c1 : k = 1 ∧ p.bound.isSome = true
      · rw [if_pos c1] at h1
        by_cases c2 : coeff ≠ 1
        · rw [if_pos c2] at h1; cases h1
        · right
          exact ⟨c1.1, l, by rw [not_not.1 c2]⟩
      · rw [if_neg c1] at h1
        by_cases c2 : p.bound.isSome = true
        · rw [if_pos c2] at h1; cases h1
        · left
          simp only [termBound, hl]
          cases hp : p.bound with
          | none => rfl
          | some d => rw [hp] at c2; simp at c2

theorem go_ok_shape (trips : List (Trip' F)) (lc : LC.LinComb F) (terms : List (F × LC.LCTerm))
    (a a' : LCAcc F) (hs : combineLC.go trips lc a terms = .ok a') :
    ∀ t ∈ terms, termBound trips t = none ∨ (lc.terms.length = 1 ∧ ∃ lab, t = (1, .poly lab)) := by
  induction terms generalizing a with
  | nil => intro t ht; cases ht
  | cons t ts ih =>
    simp only [combineLC.go] at hs
    split at hs
    · cases hs
    · rename_i a1 h1
      intro t' ht'
      rcases List.mem_cons.1 ht' with h | h
      · subst h; exact lcStep_ok_shape trips _ a a1 t' h1
      · exact ih a1 hs t' h

/-- **the prover refuses every other shape**: a combination `open_combinations` combines is a combination
of unbounded polynomials or the single term `1 · p` -/
theorem combineLC_ok_allowed (trips : List (Trip' F)) (lc : LC.LinComb F) (res : Trip' F)
    (hc : combineLC trips lc = .ok res) : LCAllowed trips lc := by
  unfold combineLC at hc
  split at hc
  · cases hc
  · rename_i a ha
    have hshape := go_ok_shape trips lc lc.terms _ a ha
    by_cases hall : ∀ t ∈ lc.terms, termBound trips t = none
    · exact Or.inl hall
    · right
      simp only [not_forall] at hall
      obtain ⟨t, ht, hnb⟩ := hall
      rcases hshape t ht with h | ⟨hlen, lab, hlab⟩
      · exact absurd h hnb
      · refine ⟨lab, ?_⟩
        subst hlab
        cases hterms : lc.terms with
        | nil => rw [hterms] at ht; cases ht
        | cons x xs =>
          rw [hterms] at hlen ht
          cases xs with
          | nil =>
            simp only [List.mem_singleton] at ht
            rw [ht]
          | cons y ys => simp at hlen

theorem combineAll_ok_allowed (trips : List (Trip' F)) (lcs : List (LC.LinComb F))
    (ts : List (Trip' F)) (hc : combineAll trips lcs = .ok ts) : ∀ lc ∈ lcs, LCAllowed trips lc := by
  induction lcs generalizing ts with
  | nil => intro lc hlc; cases hlc
  | cons lc lcs ih =>
    simp only [combineAll] at hc
    split at hc
    · cases hc
    · rename_i t ht
      split at hc
      · cases hc
      · rename_i ts' hts
        intro lc' hlc'
        rcases List.mem_cons.1 hlc' with h | h
        · subst h; exact combineLC_ok_allowed trips lc' t ht
        · exact ih ts' hts lc' h

/-- conversely an allowed combination all of whose labels are known is combined (no refusal) -/
theorem combineLC_allowed_ok (trips : List (Trip' F)) (lc : LC.LinComb F) (ha : LCAllowed trips lc)
    (hknown : ∀ t ∈ lc.terms, ∀ lab, t.2 = .poly lab →
      (lookupLast (fun (t : Trip' F) => t.1.label) lab trips).isSome = true) :
    ∃ res, combineLC trips lc = .ok res := by
  have hgo : ∀ a, ∃ a', combineLC.go trips lc a lc.terms = .ok a' := by
    rcases ha with hu | ⟨lab, hterms⟩
    · have : ∀ (terms : List (F × LC.LCTerm)), (∀ t ∈ terms, termBound trips t = none) →
          (∀ t ∈ terms, ∀ lab, t.2 = .poly lab →
            (lookupLast (fun (t : Trip' F) => t.1.label) lab trips).isSome = true) →
          ∀ a, ∃ a', combineLC.go trips lc a terms = .ok a' := by
        intro terms
        induction terms with
        | nil => intro _ _ a; exact ⟨a, rfl⟩
        | cons t ts ih =>
          intro hu' hk a
          have hstep : ∃ a1, lcStep trips lc.terms.length a t = .ok a1 := by
            obtain ⟨coeff, tm⟩ := t
            unfold lcStep
            cases tm with
            | one => exact ⟨a, rfl⟩
            | poly l =>
              have hk1 := hk (coeff, .poly l) (by simp) l rfl
              have hu1 := hu' (coeff, .poly l) (by simp)
              cases hl : lookupLast (fun (t : Trip' F) => t.1.label) l trips with
              | none => rw [hl] at hk1; simp at hk1
              | some x =>
                obtain ⟨p, st, c⟩ := x
                simp only [termBound, hl] at hu1
                simp only [hl, hu1, Option.isSome_none, Bool.false_eq_true, and_false, if_false]
                exact ⟨_, rfl⟩
          obtain ⟨a1, h1⟩ := hstep
          obtain ⟨a', h'⟩ := ih (fun t' ht' => hu' t' (List.mem_cons_of_mem _ ht'))
            (fun t' ht' => hk t' (List.mem_cons_of_mem _ ht')) a1
          exact ⟨a', by simp only [combineLC.go, h1, h']⟩
      exact this lc.terms hu hknown
    · intro a
      have hk1 := hknown (1, .poly lab) (by rw [hterms]; simp) lab rfl
      rw [hterms]
      cases hl : lookupLast (fun (t : Trip' F) => t.1.label) lab trips with
      | none => rw [hl] at hk1; simp at hk1
      | some x =>
        obtain ⟨p, st, c⟩ := x
        simp only [combineLC.go, lcStep, hl, hterms, List.length_singleton, true_and, ne_eq,
          not_true_eq_false, if_false]
        by_cases c1 : p.bound.isSome = true
        · rw [if_pos c1]; exact ⟨_, rfl⟩
        · rw [if_neg c1, if_neg c1]; exact ⟨_, rfl⟩
  obtain ⟨a', h'⟩ := hgo ⟨[], ⟨[], none⟩, 0, none, none, none⟩
  unfold combineLC
  simp only [h']
  exact ⟨_, rfl⟩

/-! ### end to end -/

theorem zip_unzip3 (l : List (Trip' F)) :
    (l.map (·.1)).zip ((l.map (·.2.1)).zip (l.map (·.2.2))) = l := by
  induction l with
  | nil => rfl
  | cons t ts ih => simp only [List.map_cons, List.zip_cons_cons, ih]

/-- the verifier's side of an honest combination opening over possibly degree-bounded polynomials: the
combined commitments are computed, the per-label accumulation consumes exactly the prover's challenges,
and every KZG defect is zero.  `hnd` is the side condition of `batch_complete` (`GroupsND`) on the
combined polynomials and states `batch_open` is run on. -/
theorem lc_accept_bounded {ck : CK F} {vk : VK F} {g γ β h : F} {D n m : Nat}
    (hwf : WF ck vk g γ β h D n m) (l : List (Trip' F))
    (hH : ∀ t ∈ l, Honest g γ β D t) (hL : ∀ t ∈ l, RandLen m t)
    (hlab : ∀ t ∈ l, t.2.2.label = t.1.label)
    (lcs : List (LC.LinComb F)) (hnodup : (lcs.map (·.label)).Nodup)
    (hadm : ∀ lc ∈ lcs, LCAllowed l lc)
    (qs : List (Query F)) (evals : List ((Label × F) × F))
    (hev : ∀ gr ∈ groupQueries qs, ∀ lc ∈ lcs, lc.label ∈ gr.2.2 →
      lookupEval evals lc.label gr.2.1
        = some (lcPolyValue l gr.2.1 lc.terms + lcConstant lc))
    (ξs : List F) (πs : List (KZG.Proof F)) (rest : List F)
    (ho : openCombinations ck (l.map (·.1)) (l.map (·.2.1)) (l.map (·.2.2)) lcs qs ξs = .ok (πs, rest))
    (hnd : ∀ ts, combineAll l lcs = .ok ts →
      GroupsND ck (ts.map (·.1)) (ts.map (·.2.1)) (groupQueries qs) ξs) :
    ∃ lcComms, combineAllComm (l.map (·.2.2)) lcs = .ok lcComms ∧
      ∃ trip, combineGroups vk lcComms (adjustEvals lcs evals) (groupQueries qs) ξs = .ok (trip, rest) ∧
        πs.length = trip.length ∧
        ∀ d ∈ KZG.defects vk.vk (trip.map (·.1)) (trip.map (·.2.1)) (trip.map (·.2.2)) πs, d = 0 := by
  unfold openCombinations at ho
  rw [zip_unzip3] at ho
  split at ho
  · cases ho
  · rename_i ts hts
    have hlab2 : ∀ t ∈ l, t.2.2.label = t.1.label ∧ t.2.2.bound = t.1.bound :=
      fun t ht => ⟨hlab t ht, (hH t ht).1⟩
    refine ⟨ts.map (·.2.2), combineAllComm_eq_b l hlab2 lcs ts hts, ?_⟩
    have hmem := combineAll_mem l lcs ts hts
    refine batchOpenGroups_accept hwf ts ?_ ?_ ?_ (adjustEvals lcs evals) (groupQueries qs) ?_ ξs πs rest
      ho (hnd ts hts)
    · intro t ht
      obtain ⟨lc, hlc, hc⟩ := hmem t ht
      exact (combineLC_honest_adm l hH lc (hadm lc hlc) t hc 0).1
    · intro t ht
      obtain ⟨lc, _, hc⟩ := hmem t ht
      exact combineLC_randlen_b l m hL lc t hc
    · intro t ht
      obtain ⟨lc, _, hc⟩ := hmem t ht
      obtain ⟨h1, h2⟩ := combineLC_labels l lc t hc
      rw [h1, h2]
    · intro gr hgr lab hlabm t ht
      have htm : t ∈ ts := by
        rcases lookupT_mem lab ts none t ht with h1 | h1
        · exact h1
        · cases h1
      obtain ⟨lc, hlc, hc⟩ := hmem t htm
      have htl : t.1.label = lab := by
        have : ∀ (xs : List (Trip F)) (acc : Option (Trip F)),
            lookupT lab xs acc = some t → (t.1.label = lab ∨ acc = some t) := by
          intro xs
          induction xs with
          | nil => intro acc h; right; simpa [lookupT] using h
          | cons x xs ihx =>
            intro acc h
            simp only [lookupT, List.foldl_cons] at h
            rcases ihx _ h with h1 | h1
            · left; exact h1
            · by_cases hx : x.1.label = lab
              · simp only [hx, if_true] at h1
                injection h1 with h1; left; rw [← h1]; exact hx
              · simp only [hx, if_false] at h1; right; exact h1
        rcases this ts none ht with h1 | h1
        · exact h1
        · cases h1
      have hll : lc.label = lab := by rw [← (combineLC_labels l lc t hc).1, htl]
      rw [lookupEval_adjust, ← hll, adjConst_unique lcs hnodup lc hlc,
        hev gr hgr lc hlc (hll ▸ hlabm)]
      simp only [Option.map_some]
      congr 1
      rw [(combineLC_honest_adm l hH lc (hadm lc hlc) t hc gr.2.1).2]
      ring

/-- **`open_combinations` → `check_combinations` completeness with degree bounds** (see
`C06.marlin_lc_bounded_complete`) -/
theorem lc_bounded_complete {ck : CK F} {vk : VK F} {g γ β h : F} {D n m : Nat}
    (hwf : WF ck vk g γ β h D n m) (l : List (Trip' F))
    (hH : ∀ t ∈ l, Honest g γ β D t) (hL : ∀ t ∈ l, RandLen m t)
    (hlab : ∀ t ∈ l, t.2.2.label = t.1.label)
    (lcs : List (LC.LinComb F)) (hnodup : (lcs.map (·.label)).Nodup)
    (hadm : ∀ lc ∈ lcs, LCAllowed l lc)
    (qs : List (Query F)) (evals : List ((Label × F) × F))
    (hev : ∀ gr ∈ groupQueries qs, ∀ lc ∈ lcs, lc.label ∈ gr.2.2 →
      lookupEval evals lc.label gr.2.1
        = some (lcPolyValue l gr.2.1 lc.terms + lcConstant lc))
    (ξs : List F) (πs : List (KZG.Proof F)) (rest : List F)
    (ho : openCombinations ck (l.map (·.1)) (l.map (·.2.1)) (l.map (·.2.2)) lcs qs ξs = .ok (πs, rest))
    (hnd : ∀ ts, combineAll l lcs = .ok ts →
      GroupsND ck (ts.map (·.1)) (ts.map (·.2.1)) (groupQueries qs) ξs)
    (rs : List F) :
    checkCombinations vk (l.map (·.2.2)) lcs qs evals πs ξs rs = .ok true := by
  obtain ⟨lcComms, hcc, trip, htrip, hlen, hdef⟩ :=
    lc_accept_bounded hwf l hH hL hlab lcs hnodup hadm qs evals hev ξs πs rest ho hnd
  unfold checkCombinations
  rw [hcc]
  exact batchCheck_all_true vk lcComms qs (adjustEvals lcs evals) πs ξs rs trip rest htrip hlen hdef

/-- the shape hypothesis follows from the prover's success -/
theorem lc_bounded_complete_any {ck : CK F} {vk : VK F} {g γ β h : F} {D n m : Nat}
    (hwf : WF ck vk g γ β h D n m) (l : List (Trip' F))
    (hH : ∀ t ∈ l, Honest g γ β D t) (hL : ∀ t ∈ l, RandLen m t)
    (hlab : ∀ t ∈ l, t.2.2.label = t.1.label)
    (lcs : List (LC.LinComb F)) (hnodup : (lcs.map (·.label)).Nodup)
    (qs : List (Query F)) (evals : List ((Label × F) × F))
    (hev : ∀ gr ∈ groupQueries qs, ∀ lc ∈ lcs, lc.label ∈ gr.2.2 →
      lookupEval evals lc.label gr.2.1
        = some (lcPolyValue l gr.2.1 lc.terms + lcConstant lc))
    (ξs : List F) (πs : List (KZG.Proof F)) (rest : List F)
    (ho : openCombinations ck (l.map (·.1)) (l.map (·.2.1)) (l.map (·.2.2)) lcs qs ξs = .ok (πs, rest))
    (hnd : ∀ ts, combineAll l lcs = .ok ts →
      GroupsND ck (ts.map (·.1)) (ts.map (·.2.1)) (groupQueries qs) ξs)
    (rs : List F) :
    checkCombinations vk (l.map (·.2.2)) lcs qs evals πs ξs rs = .ok true := by
  have hadm : ∀ lc ∈ lcs, LCAllowed l lc := by
    have ho' := ho
    unfold openCombinations at ho'
    rw [zip_unzip3] at ho'
    split at ho'
    · cases ho'
    · rename_i ts hts
      exact combineAll_ok_allowed l lcs ts hts
  exact lc_bounded_complete hwf l hH hL hlab lcs hnodup hadm qs evals hev ξs πs rest ho hnd rs

/-- no shifted blinding on the inputs ⇒ the side condition holds for every query list and stream -/
theorem lc_groupsND_of_shnil (ck : CK F) (l : List (Trip' F))
    (hN : ∀ t ∈ l, ∀ rs, t.2.1.shifted = some rs → rs = [])
    (lcs : List (LC.LinComb F)) (qs : List (Query F)) (ξs : List F) :
    ∀ ts, combineAll l lcs = .ok ts →
      GroupsND ck (ts.map (·.1)) (ts.map (·.2.1)) (groupQueries qs) ξs := by
  intro ts hts
  apply groupsND_nonhiding
  intro st hst rs' hrs
  obtain ⟨t, ht, hte⟩ := List.mem_map.1 hst
  obtain ⟨lc, _, hc⟩ := combineAll_mem l lcs ts hts t ht
  exact combineLC_shnil l hN lc t hc rs' (hte ▸ hrs)

end Marlin
end PCV
